package glslx

import (
	"math"
	"testing"

	"verif/harness/xrt"
)

const ioF32 = `
@group(0) @binding(0) var<storage, read> a: array<f32, 8>;
@group(0) @binding(1) var<storage, read_write> o: array<f32, 24>;
`

func TestE2E_FloatArithmetic(t *testing.T) {
	src := ioF32 + `
@compute @workgroup_size(1) fn main() {
  o[0] = a[0] + a[1];     // 1.5 + 2.25 = 3.75
  o[1] = a[0] - a[1];     // -0.75
  o[2] = a[0] * a[1];     // 3.375
  o[3] = a[1] / a[0];     // 1.5
  o[4] = -a[0];           // -1.5
  o[5] = a[2] + a[3];     // 16777216 + 1 = 16777216 (binary32 rounding, ties to even)
  o[6] = a[4] % a[0];     // 7.0 % 1.5 = 7 - 1.5*trunc(4.666) = 1.0
  o[7] = -a[4] % a[0];    // -7.0 % 1.5 = -1.0 (sign of the dividend)
  o[8] = a[0] / a[5];     // 1.5 / 0 = +inf
}`
	e2e(t, src, xrt.Input{}, bufMap{
		"0.0": words(1.5, 2.25, 16777216.0, 1.0, 7.0, 0.0, 0.0, 0.0),
		"0.1": zeros(24),
	}, map[string][]any{"0.1": {3.75, -0.75, 3.375, 1.5, -1.5, 16777216.0, 1.0, -1.0, float32(math.Inf(1))}})
}

func TestE2E_FloatRounding(t *testing.T) {
	src := ioF32 + `
@compute @workgroup_size(1) fn main() {
  o[0] = floor(a[0]);  o[1] = ceil(a[0]);  o[2] = trunc(a[0]);  o[3] = round(a[0]);   // -2.5 -> -3, -2, -2, -2 (ties to even)
  o[4] = floor(a[1]);  o[5] = ceil(a[1]);  o[6] = trunc(a[1]);  o[7] = round(a[1]);   //  3.5 ->  3,  4,  3,  4
  o[8] = round(a[2]);        // 2.5 -> 2
  o[9] = fract(a[0]);        // -2.5 - floor(-2.5) = 0.5
  o[10] = fract(a[1]);       // 0.5
  o[11] = abs(a[0]);         // 2.5
  o[12] = sign(a[0]);        // -1
  o[13] = sign(a[3]);        // 0
  o[14] = min(a[0], a[1]);   // -2.5
  o[15] = max(a[0], a[1]);   // 3.5
  o[16] = clamp(a[1], 0.0, 1.0);   // 1
  o[17] = saturate(a[0]);          // 0
  o[18] = step(a[2], a[1]);        // 3.5 >= 2.5 -> 1
  o[19] = step(a[1], a[2]);        // 0
  o[20] = mix(a[0], a[1], 0.5);    // -2.5*0.5 + 3.5*0.5 = 0.5
  o[21] = smoothstep(0.0, 4.0, a[4]);  // t = 0.5 -> 0.25*(3-1) = 0.5
  o[22] = fma(a[0], a[1], a[2]);   // -8.75 + 2.5 = -6.25
}`
	e2e(t, src, xrt.Input{}, bufMap{
		"0.0": words(-2.5, 3.5, 2.5, 0.0, 2.0, 0.0, 0.0, 0.0),
		"0.1": zeros(24),
	}, map[string][]any{"0.1": {-3.0, -2.0, -2.0, -2.0, 3.0, 4.0, 3.0, 4.0, 2.0, 0.5, 0.5, 2.5, -1.0, 0.0, -2.5, 3.5, 1.0, 0.0, 1.0, 0.0, 0.5, 0.5, -6.25}})
}

func TestE2E_FloatTranscendental(t *testing.T) {
	src := ioF32 + `
@compute @workgroup_size(1) fn main() {
  o[0] = sqrt(a[0]);          // sqrt(6.25) = 2.5
  o[1] = inverseSqrt(a[1]);   // 1/sqrt(4) = 0.5
  o[2] = exp2(a[2]);          // 2^3 = 8
  o[3] = log2(a[3]);          // log2(8) = 3
  o[4] = pow(a[1], a[2]);     // 4^3 = 64
  o[5] = exp(a[4]);           // e^0 = 1
  o[6] = log(a[5]);           // ln 1 = 0
  o[7] = sin(a[4]) + cos(a[4]);   // 0 + 1
  o[8] = length(vec2<f32>(a[2], a[1]));                       // (3,4) -> 5
  o[9] = distance(vec2<f32>(a[2], a[1]), vec2<f32>(0.0, 0.0)); // 5
  o[10] = dot(vec3<f32>(1.0, 2.0, 3.0), vec3<f32>(a[1], a[2], a[5]));   // 4+6+3 = 13
  let n = normalize(vec2<f32>(a[2], a[1]));     // (0.6, 0.8)
  o[11] = n.x; o[12] = n.y;
  let c = cross(vec3<f32>(1.0, 0.0, 0.0), vec3<f32>(0.0, a[5], 0.0));   // (0,0,1)
  o[13] = c.x; o[14] = c.y; o[15] = c.z;
  o[16] = tan(a[4]) + atan2(a[4], a[5]) + sinh(a[4]) + tanh(a[4]) + asin(a[4]) + atan(a[4]);   // all 0
  o[17] = cosh(a[4]) + acos(a[5]);  // 1 + 0
}`
	e2e(t, src, xrt.Input{}, bufMap{
		"0.0": words(6.25, 4.0, 3.0, 8.0, 0.0, 1.0, 0.0, 0.0),
		"0.1": zeros(24),
	}, map[string][]any{"0.1": {2.5, 0.5, 8.0, 3.0, 64.0, 1.0, 0.0, 1.0, 5.0, 5.0, 13.0, float32(0.6), float32(0.8), 0.0, 0.0, 1.0, 0.0, 1.0}})
}

func TestE2E_Conversions(t *testing.T) {
	src := `
@group(0) @binding(0) var<storage, read> a: array<f32, 8>;
@group(0) @binding(1) var<storage, read> b: array<i32, 4>;
@group(0) @binding(2) var<storage, read_write> oi: array<i32, 12>;
@group(0) @binding(3) var<storage, read_write> of: array<f32, 8>;
@compute @workgroup_size(1) fn main() {
  oi[0] = i32(a[0]);               // -2.75 -> -2 (truncation toward zero)
  oi[1] = i32(a[1]);               //  2.75 -> 2
  oi[2] = i32(u32(a[1]));          //  2
  oi[3] = bitcast<i32>(a[2]);      //  1.0 -> 0x3F800000
  oi[4] = i32(u32(b[0]));          //  bits preserved: -1
  oi[5] = i32(u32(a[3]));          //  3e9 -> 3000000000 = 0xB2D05E00 -> as i32 -1294967296
  oi[6] = select(0, 1, bool(b[1]));    // bool(7) = true
  oi[7] = i32(b[0] != 0) + i32(b[2] != 0);   // 1 + 0
  oi[8] = i32(a[4]);               // -2147483648.0 fits exactly
  of[0] = f32(b[0]);               // -1.0
  of[1] = f32(u32(b[0]));          // 4294967295 rounds to 4294967296.0
  of[2] = f32(b[3]);               // 16777217 rounds to 16777216.0 (ties to even)
  of[3] = bitcast<f32>(b[1] + 0x3F7FFFF9);   // 0x3F800000 = 1.0
  of[4] = f32(b[2] == 0);          // 1.0
  of[5] = bitcast<f32>(u32(b[0])); // 0xFFFFFFFF: a NaN
}`
	vers := allVers
	for _, vc := range vers {
		b := bufMap{
			"0.0": words(-2.75, 2.75, 1.0, 3e9, -2147483648.0, 0.0, 0.0, 0.0),
			"0.1": words(-1, 7, 0, 16777217),
			"0.2": zeros(12), "0.3": zeros(8),
		}
		o, src := runWGSL(t, src, vc.v, xrt.Input{Buffers: b})
		if !o.OK() {
			t.Fatalf("[%s] trap=%q skip=%q\n%s", vc.name, o.Trap, o.Skip, numbered(src))
		}
		expectWords(t, vc.name+" oi", b["0.2"], -2, 2, 2, 0x3F800000, -1, -1294967296, 1, 1, -2147483648)
		expectWords(t, vc.name+" of", b["0.3"], -1.0, 4294967296.0, 16777216.0, 1.0, 1.0, uint32(0xFFFFFFFF))
		if t.Failed() {
			t.Log(numbered(src))
			return
		}
	}
}

func TestE2E_PackUnpack(t *testing.T) {
	src := `
@group(0) @binding(0) var<storage, read> a: array<f32, 8>;
@group(0) @binding(1) var<storage, read_write> o: array<u32, 8>;
@group(0) @binding(2) var<storage, read_write> of: array<f32, 20>;
@compute @workgroup_size(1) fn main() {
  let v = vec4<f32>(a[0], a[1], a[2], a[3]);      // (0, 1, 0.5, -1)
  o[0] = pack4x8unorm(v);    // 0, 255, round(127.5)=128 (even), clamp(-1)=0 -> 0x0080FF00
  o[1] = pack4x8snorm(v);    // 0, 127, round(63.5)=64, -127=0x81 -> 0x81407F00
  o[2] = pack2x16unorm(vec2<f32>(a[1], a[2]));   // 65535, round(32767.5)=32768 -> 0x8000FFFF
  o[3] = pack2x16snorm(vec2<f32>(a[3], a[2]));   // -32767=0x8001, round(16383.5)=16384=0x4000 -> 0x40008001
  o[4] = pack2x16float(vec2<f32>(a[1], a[4]));   // 1.0=0x3C00, -2.0=0xC000 -> 0xC0003C00
  let u = unpack4x8unorm(0xFF000033u);            // 51/255=0.2, 0, 0, 1
  of[0] = u.x; of[1] = u.y; of[2] = u.z; of[3] = u.w;
  let s = unpack4x8snorm(0x7F81807Fu);            // 127->1, 0x80=-128 -> clamp -1, 0x81=-127 -> -1, 127 -> 1
  of[4] = s.x; of[5] = s.y; of[6] = s.z; of[7] = s.w;
  let h = unpack2x16float(0xC0003C00u);           // 1.0, -2.0
  of[8] = h.x; of[9] = h.y;
  let un = unpack2x16unorm(0xFFFF0000u);          // 0, 1
  of[10] = un.x; of[11] = un.y;
  let sn = unpack2x16snorm(0x80007FFFu);          // 1, -32768/32767 clamped to -1
  of[12] = sn.x; of[13] = sn.y;
  let hs = unpack2x16float(0x00013555u);          // 0x3555 = 0.33325195, 0x0001 = smallest subnormal 2^-24
  of[14] = hs.x; of[15] = hs.y;
}`
	e2e(t, src, xrt.Input{}, bufMap{
		"0.0": words(0.0, 1.0, 0.5, -1.0, -2.0, 0.0, 0.0, 0.0),
		"0.1": zeros(8), "0.2": zeros(20),
	}, map[string][]any{
		"0.1": {uint32(0x0080FF00), uint32(0x81407F00), uint32(0x8000FFFF), uint32(0x40008001), uint32(0xC0003C00)},
		"0.2": {float32(0.2), 0.0, 0.0, 1.0, 1.0, -1.0, -1.0, 1.0, 1.0, -2.0, 0.0, 1.0, 1.0, -1.0, float32(0.33325195), float32(5.9604645e-08)},
	})
}
