package glslx

import (
	"fmt"
	"strconv"
	"strings"
)

type parser struct {
	toks    []token
	i       int
	structs map[string]bool // struct names seen so far (they act as type names)
	unit    *Unit
	depth   int
}

const maxParseDepth = 400

// Parse parses GLSL text (as emitted by naga's GLSL backend, but the grammar
// covered is the general GLSL 4.x / ESSL 3.x one minus the preprocessor) into
// a syntax tree.  Errors are either "parse error: ... at L:C" or
// "unsupported: ... at L:C".
func Parse(src string) (u *Unit, err error) {
	defer func() {
		if r := recover(); r != nil {
			if se, ok := r.(*syntaxError); ok {
				u, err = nil, se
				return
			}
			u, err = nil, fmt.Errorf("internal: parser panic: %v", r)
		}
	}()
	toks, dirs, lerr := lexAll(src)
	if lerr != nil {
		return nil, lerr
	}
	p := &parser{toks: toks, structs: map[string]bool{}}
	u = &Unit{Src: src, Directives: dirs, LocalSize: [3]uint32{1, 1, 1}}
	p.unit = u
	for _, d := range dirs {
		if d.Name == "version" {
			f := strings.Fields(d.Text)
			if len(f) > 0 {
				if n, e := strconv.Atoi(f[0]); e == nil {
					u.Version = n
				}
			}
			if len(f) > 1 {
				u.Profile = f[1]
			}
			u.ES = u.Profile == "es"
		}
	}
	if u.Version == 0 {
		u.Version = 110
	}
	for p.peek().kind != tokEOF {
		if p.isPunct(";") {
			p.i++
			continue
		}
		p.externalDecl()
	}
	return u, nil
}

func (p *parser) peek() token { return p.toks[p.i] }
func (p *parser) peekN(n int) token {
	if p.i+n < len(p.toks) {
		return p.toks[p.i+n]
	}
	return p.toks[len(p.toks)-1]
}
func (p *parser) isPunct(s string) bool {
	t := p.toks[p.i]
	return t.kind == tokPunct && t.text == s
}
func (p *parser) isIdent(s string) bool {
	t := p.toks[p.i]
	return t.kind == tokIdent && t.text == s
}
func (p *parser) fail(pos Pos, f string, a ...any) {
	panic(&syntaxError{pos: pos, msg: fmt.Sprintf(f, a...)})
}
func (p *parser) unsupported(pos Pos, f string, a ...any) {
	panic(&syntaxError{pos: pos, msg: fmt.Sprintf(f, a...), unsupported: true})
}
func (p *parser) expect(s string) token {
	t := p.toks[p.i]
	if t.kind != tokPunct || t.text != s {
		p.fail(t.pos, "expected %q, found %s", s, describe(t))
	}
	p.i++
	return t
}
func (p *parser) accept(s string) bool {
	if p.isPunct(s) {
		p.i++
		return true
	}
	return false
}
func (p *parser) ident() token {
	t := p.toks[p.i]
	if t.kind != tokIdent {
		p.fail(t.pos, "expected identifier, found %s", describe(t))
	}
	if isReserved(t.text) {
		p.fail(t.pos, "keyword %q used as identifier", t.text)
	}
	p.i++
	return t
}
func describe(t token) string {
	switch t.kind {
	case tokEOF:
		return "end of file"
	default:
		return fmt.Sprintf("%q", t.text)
	}
}

var qualifierWords = map[string]bool{
	"const": true, "in": true, "out": true, "inout": true, "uniform": true, "buffer": true, "shared": true,
	"attribute": true, "varying": true,
	"readonly": true, "writeonly": true, "coherent": true, "volatile": true, "restrict": true,
	"highp": true, "mediump": true, "lowp": true,
	"flat": true, "smooth": true, "noperspective": true, "centroid": true, "sample": true, "patch": true,
	"invariant": true, "precise": true, "layout": true, "subroutine": true,
}

var statementWords = map[string]bool{
	"if": true, "else": true, "switch": true, "case": true, "default": true, "for": true, "while": true, "do": true,
	"break": true, "continue": true, "return": true, "discard": true, "struct": true, "precision": true,
	"true": true, "false": true,
}

func isReserved(s string) bool {
	return qualifierWords[s] || statementWords[s] || isBuiltinTypeName(s)
}

var scalarTypeNames = map[string]bool{"void": true, "bool": true, "int": true, "uint": true, "float": true, "double": true,
	"atomic_uint": true, "int64_t": true, "uint64_t": true, "float16_t": true, "int16_t": true, "uint16_t": true, "int8_t": true, "uint8_t": true}

func isBuiltinTypeName(s string) bool {
	if scalarTypeNames[s] {
		return true
	}
	if _, ok := parseVecMatName(s); ok {
		return true
	}
	return isOpaqueTypeName(s)
}

func isOpaqueTypeName(s string) bool {
	for _, pre := range []string{"sampler", "isampler", "usampler", "image", "iimage", "uimage", "texture", "itexture", "utexture", "subpassInput", "isubpassInput", "usubpassInput"} {
		if strings.HasPrefix(s, pre) {
			rest := s[len(pre):]
			if rest == "" {
				return pre == "sampler" || strings.HasSuffix(pre, "subpassInput")
			}
			switch {
			case strings.HasPrefix(rest, "1D"), strings.HasPrefix(rest, "2D"), strings.HasPrefix(rest, "3D"),
				strings.HasPrefix(rest, "Cube"), strings.HasPrefix(rest, "Buffer"), strings.HasPrefix(rest, "Shadow"), rest == "MS":
				return true
			}
		}
	}
	return s == "accelerationStructureEXT" || s == "rayQueryEXT"
}

// vecMatName describes a builtin vector / matrix type name.
type vecMatName struct {
	base       string // bool int uint float double
	n          int    // vector size (0 for matrices)
	cols, rows int
}

func parseVecMatName(s string) (vecMatName, bool) {
	pre := ""
	rest := s
	switch {
	case strings.HasPrefix(s, "vec"):
		pre, rest = "float", s[3:]
	case strings.HasPrefix(s, "ivec"):
		pre, rest = "int", s[4:]
	case strings.HasPrefix(s, "uvec"):
		pre, rest = "uint", s[4:]
	case strings.HasPrefix(s, "bvec"):
		pre, rest = "bool", s[4:]
	case strings.HasPrefix(s, "dvec"):
		pre, rest = "double", s[4:]
	case strings.HasPrefix(s, "mat"), strings.HasPrefix(s, "dmat"):
		b := "float"
		r := s[3:]
		if s[0] == 'd' {
			b = "double"
			r = s[4:]
		}
		switch len(r) {
		case 1:
			if r[0] >= '2' && r[0] <= '4' {
				n := int(r[0] - '0')
				return vecMatName{base: b, cols: n, rows: n}, true
			}
		case 3:
			if r[0] >= '2' && r[0] <= '4' && r[1] == 'x' && r[2] >= '2' && r[2] <= '4' {
				return vecMatName{base: b, cols: int(r[0] - '0'), rows: int(r[2] - '0')}, true
			}
		}
		return vecMatName{}, false
	default:
		return vecMatName{}, false
	}
	if len(rest) == 1 && rest[0] >= '2' && rest[0] <= '4' {
		return vecMatName{base: pre, n: int(rest[0] - '0')}, true
	}
	return vecMatName{}, false
}

func (p *parser) isTypeName(t token) bool {
	return t.kind == tokIdent && (isBuiltinTypeName(t.text) || p.structs[t.text])
}

// ---- declarations ----------------------------------------------------------

func (p *parser) parseQuals() (Quals, bool) {
	var q Quals
	q.Pos = p.peek().pos
	any := false
	for {
		t := p.peek()
		if t.kind != tokIdent || !qualifierWords[t.text] {
			return q, any
		}
		any = true
		p.i++
		switch t.text {
		case "layout":
			p.expect("(")
			for {
				n := p.peek()
				if n.kind != tokIdent {
					p.fail(n.pos, "expected layout qualifier name, found %s", describe(n))
				}
				p.i++
				lq := LayoutQual{Name: n.text, Pos: n.pos}
				if p.accept("=") {
					lq.HasValue = true
					lq.Value = p.condExpr()
				}
				q.Layout = append(q.Layout, lq)
				if !p.accept(",") {
					break
				}
			}
			p.expect(")")
		case "const", "in", "out", "inout", "uniform", "buffer", "shared", "attribute", "varying":
			// "in" "out" may combine with centroid etc.; `const in` is legal for parameters.
			if q.Storage != "" && !(q.Storage == "const" && (t.text == "in")) {
				p.fail(t.pos, "conflicting storage qualifiers %q and %q", q.Storage, t.text)
			}
			if q.Storage == "const" && t.text == "in" {
				q.Storage = "const"
			} else {
				q.Storage = t.text
			}
		case "readonly":
			q.ReadOnly = true
		case "writeonly":
			q.WriteOnly = true
		case "coherent":
			q.Coherent = true
		case "volatile":
			q.Volatile = true
		case "restrict":
			q.Restrict = true
		case "highp", "mediump", "lowp":
			q.Precision = t.text
		case "flat", "smooth", "noperspective", "centroid", "sample", "patch":
			q.Interp = append(q.Interp, t.text)
		case "invariant":
			q.Invariant = true
		case "precise":
			q.Precise = true
		case "subroutine":
			p.unsupported(t.pos, "subroutine")
		}
	}
}

func (p *parser) arrayDims() []Expr {
	var dims []Expr
	for p.isPunct("[") {
		p.i++
		if p.accept("]") {
			dims = append(dims, nil)
			continue
		}
		dims = append(dims, p.condExpr())
		p.expect("]")
	}
	return dims
}

func (p *parser) typeSpec() TypeSpec {
	t := p.peek()
	if !p.isTypeName(t) {
		p.fail(t.pos, "expected type name, found %s", describe(t))
	}
	p.i++
	ts := TypeSpec{Name: t.text, Pos: t.pos}
	ts.Dims = p.arrayDims()
	return ts
}

func mergeDims(ts TypeSpec, declDims []Expr) TypeSpec {
	if len(declDims) == 0 {
		return ts
	}
	out := ts
	out.Dims = append(append([]Expr{}, declDims...), ts.Dims...)
	return out
}

func (p *parser) structSpecifier() *StructDecl {
	st := p.peek() // "struct"
	p.i++
	sd := &StructDecl{Pos: st.pos}
	if p.peek().kind == tokIdent && !p.isPunct("{") {
		n := p.ident()
		sd.Name = n.text
		sd.Pos = n.pos
	}
	if sd.Name == "" {
		p.unsupported(st.pos, "anonymous struct")
	}
	p.expect("{")
	for !p.isPunct("}") {
		q, _ := p.parseQuals()
		_ = q
		if p.isIdent("struct") {
			p.unsupported(p.peek().pos, "nested struct definition")
		}
		ts := p.typeSpec()
		for {
			n := p.ident()
			dims := p.arrayDims()
			sd.Fields = append(sd.Fields, StructField{Type: mergeDims(ts, dims), Name: n.text, Pos: n.pos})
			if !p.accept(",") {
				break
			}
		}
		p.expect(";")
	}
	p.expect("}")
	if len(sd.Fields) == 0 {
		p.fail(sd.Pos, "struct %s has no members", sd.Name)
	}
	p.structs[sd.Name] = true
	return sd
}

func (p *parser) precisionDecl() *PrecisionDecl {
	t := p.peek()
	p.i++
	pr := p.peek()
	if pr.kind != tokIdent || (pr.text != "highp" && pr.text != "mediump" && pr.text != "lowp") {
		p.fail(pr.pos, "expected precision qualifier, found %s", describe(pr))
	}
	p.i++
	ty := p.peek()
	if !p.isTypeName(ty) {
		p.fail(ty.pos, "expected type after precision qualifier, found %s", describe(ty))
	}
	p.i++
	p.expect(";")
	return &PrecisionDecl{Precision: pr.text, Type: ty.text, Pos: t.pos}
}

func (p *parser) externalDecl() {
	u := p.unit
	if p.isIdent("precision") {
		u.Nodes = append(u.Nodes, p.precisionDecl())
		return
	}
	start := p.peek()
	q, hasQ := p.parseQuals()
	if hasQ {
		t := p.peek()
		if p.isPunct(";") {
			p.i++
			qd := &QualDecl{Quals: q, Pos: start.pos}
			p.recordLocalSize(qd)
			u.Nodes = append(u.Nodes, qd)
			return
		}
		if t.kind == tokIdent && !p.isTypeName(t) && !isReserved(t.text) {
			n := p.peekN(1)
			if n.kind == tokPunct && n.text == "{" {
				u.Nodes = append(u.Nodes, p.blockDecl(q))
				return
			}
			if n.kind == tokPunct && (n.text == ";" || n.text == ",") {
				qd := &QualDecl{Quals: q, Pos: start.pos}
				for {
					qd.Names = append(qd.Names, p.ident().text)
					if !p.accept(",") {
						break
					}
				}
				p.expect(";")
				u.Nodes = append(u.Nodes, qd)
				return
			}
		}
	}
	if p.isIdent("struct") {
		sd := p.structSpecifier()
		u.Nodes = append(u.Nodes, sd)
		if p.accept(";") {
			return
		}
		// struct S {...} a, b;
		ts := TypeSpec{Name: sd.Name, Pos: sd.Pos}
		ts.Dims = p.arrayDims()
		for _, v := range p.declarators(q, ts) {
			u.Nodes = append(u.Nodes, v)
		}
		p.expect(";")
		return
	}
	ts := p.typeSpec()
	name := p.peek()
	if name.kind == tokIdent && p.peekN(1).kind == tokPunct && p.peekN(1).text == "(" {
		if hasQ && (q.Storage != "" || len(q.Layout) > 0) {
			// qualifiers on a function return type (only precision / precise / invariant make sense)
			p.fail(q.Pos, "storage or layout qualifier on a function")
		}
		u.Nodes = append(u.Nodes, p.funcDecl(ts))
		return
	}
	for _, v := range p.declarators(q, ts) {
		u.Nodes = append(u.Nodes, v)
	}
	p.expect(";")
}

func (p *parser) recordLocalSize(qd *QualDecl) {
	if qd.Quals.Storage != "in" {
		return
	}
	for _, l := range qd.Quals.Layout {
		idx := -1
		switch l.Name {
		case "local_size_x":
			idx = 0
		case "local_size_y":
			idx = 1
		case "local_size_z":
			idx = 2
		}
		if idx < 0 {
			continue
		}
		il, ok := l.Value.(*IntLit)
		if !ok {
			p.unsupported(l.Pos, "non-literal %s", l.Name)
		}
		if il.Val == 0 {
			p.fail(l.Pos, "%s must be positive", l.Name)
		}
		p.unit.LocalSize[idx] = il.Val
		p.unit.HasLocalSize = true
	}
}

func (p *parser) declarators(q Quals, ts TypeSpec) []*VarDecl {
	var out []*VarDecl
	for {
		n := p.ident()
		dims := p.arrayDims()
		vd := &VarDecl{Quals: q, Type: mergeDims(ts, dims), Name: n.text, Pos: n.pos}
		if p.accept("=") {
			if p.isPunct("{") {
				p.unsupported(p.peek().pos, "initializer list")
			}
			vd.Init = p.assignExpr()
		}
		out = append(out, vd)
		if !p.accept(",") {
			return out
		}
	}
}

func (p *parser) blockDecl(q Quals) *BlockDecl {
	n := p.ident()
	bd := &BlockDecl{Quals: q, Name: n.text, Pos: n.pos}
	p.expect("{")
	for !p.isPunct("}") {
		mq, _ := p.parseQuals()
		if p.isIdent("struct") {
			p.fail(p.peek().pos, "struct definition inside an interface block")
		}
		ts := p.typeSpec()
		for {
			mn := p.ident()
			dims := p.arrayDims()
			bd.Members = append(bd.Members, BlockMember{Quals: mq, Type: mergeDims(ts, dims), Name: mn.text, Pos: mn.pos})
			if !p.accept(",") {
				break
			}
		}
		p.expect(";")
	}
	p.expect("}")
	if p.peek().kind == tokIdent {
		in := p.ident()
		bd.Instance = in.text
		bd.InstancePos = in.pos
		bd.InstanceDims = p.arrayDims()
	}
	p.expect(";")
	if len(bd.Members) == 0 {
		p.fail(bd.Pos, "interface block %s has no members", bd.Name)
	}
	return bd
}

func (p *parser) funcDecl(ret TypeSpec) *FuncDecl {
	n := p.ident()
	fd := &FuncDecl{Ret: ret, Name: n.text, Pos: n.pos}
	p.expect("(")
	if p.isIdent("void") && p.peekN(1).kind == tokPunct && p.peekN(1).text == ")" {
		p.i++
	}
	for !p.isPunct(")") {
		q, _ := p.parseQuals()
		ts := p.typeSpec()
		prm := Param{Quals: q, Type: ts, Pos: ts.Pos}
		if p.peek().kind == tokIdent {
			pn := p.ident()
			prm.Name = pn.text
			prm.Pos = pn.pos
			prm.Type = mergeDims(ts, p.arrayDims())
		}
		fd.Params = append(fd.Params, prm)
		if !p.accept(",") {
			break
		}
	}
	p.expect(")")
	if p.accept(";") {
		return fd
	}
	fd.Body = p.block()
	return fd
}

// ---- statements ------------------------------------------------------------

func (p *parser) enter(pos Pos) {
	p.depth++
	if p.depth > maxParseDepth {
		p.unsupported(pos, "nesting deeper than %d", maxParseDepth)
	}
}
func (p *parser) leave() { p.depth-- }

func (p *parser) block() *BlockStmt {
	lb := p.expect("{")
	p.enter(lb.pos)
	defer p.leave()
	b := &BlockStmt{Pos: lb.pos}
	for !p.isPunct("}") {
		if p.peek().kind == tokEOF {
			p.fail(p.peek().pos, "unexpected end of file in block opened at %s", lb.pos)
		}
		b.List = append(b.List, p.statement())
	}
	p.i++
	return b
}

// startsDecl reports whether the tokens at the cursor start a declaration.
func (p *parser) startsDecl() bool {
	t := p.peek()
	if t.kind != tokIdent {
		return false
	}
	if qualifierWords[t.text] || t.text == "struct" || t.text == "precision" {
		return true
	}
	if !p.isTypeName(t) {
		return false
	}
	// type [dims] ident  => declaration;  type [dims] ( => constructor
	j := 1
	for {
		n := p.peekN(j)
		if n.kind == tokPunct && n.text == "[" {
			depth := 0
			for {
				m := p.peekN(j)
				if m.kind == tokEOF {
					return false
				}
				if m.kind == tokPunct && m.text == "[" {
					depth++
				}
				if m.kind == tokPunct && m.text == "]" {
					depth--
					if depth == 0 {
						j++
						break
					}
				}
				j++
			}
			continue
		}
		return n.kind == tokIdent
	}
}

func (p *parser) declStmt() *DeclStmt {
	start := p.peek()
	ds := &DeclStmt{Pos: start.pos}
	if p.isIdent("precision") {
		ds.Prec = p.precisionDecl()
		return ds
	}
	q, _ := p.parseQuals()
	if p.isIdent("struct") {
		ds.Struct = p.structSpecifier()
		if p.accept(";") {
			return ds
		}
		ts := TypeSpec{Name: ds.Struct.Name, Pos: ds.Struct.Pos}
		ts.Dims = p.arrayDims()
		ds.Vars = p.declarators(q, ts)
		p.expect(";")
		return ds
	}
	ts := p.typeSpec()
	ds.Vars = p.declarators(q, ts)
	p.expect(";")
	return ds
}

func (p *parser) statement() Stmt {
	t := p.peek()
	p.enter(t.pos)
	defer p.leave()
	if t.kind == tokPunct {
		switch t.text {
		case "{":
			return p.block()
		case ";":
			p.i++
			return &EmptyStmt{Pos: t.pos}
		}
	}
	if t.kind == tokIdent {
		switch t.text {
		case "if":
			p.i++
			p.expect("(")
			c := p.expr()
			p.expect(")")
			s := &IfStmt{Cond: c, Pos: t.pos}
			s.Then = p.statement()
			if p.isIdent("else") {
				p.i++
				s.Else = p.statement()
			}
			return s
		case "switch":
			p.i++
			p.expect("(")
			tag := p.expr()
			p.expect(")")
			p.expect("{")
			s := &SwitchStmt{Tag: tag, Pos: t.pos}
			for !p.isPunct("}") {
				if p.peek().kind == tokEOF {
					p.fail(p.peek().pos, "unexpected end of file in switch")
				}
				s.Body = append(s.Body, p.statement())
			}
			p.i++
			return s
		case "case":
			p.i++
			x := p.expr()
			p.expect(":")
			return &CaseStmt{X: x, Pos: t.pos}
		case "default":
			p.i++
			p.expect(":")
			return &CaseStmt{Default: true, Pos: t.pos}
		case "for":
			p.i++
			p.expect("(")
			s := &ForStmt{Pos: t.pos}
			if p.isPunct(";") {
				p.i++
			} else if p.startsDecl() {
				s.Init = p.declStmt()
			} else {
				e := p.expr()
				p.expect(";")
				s.Init = &ExprStmt{X: e, Pos: e.exprPos()}
			}
			if !p.isPunct(";") {
				s.Cond, s.CondDecl = p.condition()
			}
			p.expect(";")
			if !p.isPunct(")") {
				s.Post = p.expr()
			}
			p.expect(")")
			s.Body = p.statement()
			return s
		case "while":
			p.i++
			p.expect("(")
			s := &WhileStmt{Pos: t.pos}
			s.Cond, s.CondDecl = p.condition()
			p.expect(")")
			s.Body = p.statement()
			return s
		case "do":
			p.i++
			s := &DoStmt{Pos: t.pos}
			s.Body = p.statement()
			if !p.isIdent("while") {
				p.fail(p.peek().pos, "expected 'while' after do body, found %s", describe(p.peek()))
			}
			p.i++
			p.expect("(")
			s.Cond = p.expr()
			p.expect(")")
			p.expect(";")
			return s
		case "break":
			p.i++
			p.expect(";")
			return &BreakStmt{Pos: t.pos}
		case "continue":
			p.i++
			p.expect(";")
			return &ContinueStmt{Pos: t.pos}
		case "discard":
			p.i++
			p.expect(";")
			return &DiscardStmt{Pos: t.pos}
		case "return":
			p.i++
			s := &ReturnStmt{Pos: t.pos}
			if !p.isPunct(";") {
				s.X = p.expr()
			}
			p.expect(";")
			return s
		case "else":
			p.fail(t.pos, "'else' without 'if'")
		}
		if p.startsDecl() {
			return p.declStmt()
		}
	}
	e := p.expr()
	p.expect(";")
	return &ExprStmt{X: e, Pos: t.pos}
}

// condition parses `expression` or `type name = initializer`.
func (p *parser) condition() (Expr, *VarDecl) {
	if p.startsDecl() {
		q, _ := p.parseQuals()
		ts := p.typeSpec()
		n := p.ident()
		p.expect("=")
		vd := &VarDecl{Quals: q, Type: ts, Name: n.text, Pos: n.pos}
		vd.Init = p.assignExpr()
		return nil, vd
	}
	return p.expr(), nil
}

// ---- expressions -----------------------------------------------------------

func (p *parser) expr() Expr {
	e := p.assignExpr()
	for p.isPunct(",") {
		t := p.peek()
		p.i++
		r := p.assignExpr()
		e = &CommaExpr{L: e, R: r, Pos: t.pos}
	}
	return e
}

var assignOps = map[string]bool{"=": true, "+=": true, "-=": true, "*=": true, "/=": true, "%=": true, "<<=": true, ">>=": true, "&=": true, "|=": true, "^=": true}

func (p *parser) assignExpr() Expr {
	p.enter(p.peek().pos)
	defer p.leave()
	l := p.condExpr()
	t := p.peek()
	if t.kind == tokPunct && assignOps[t.text] {
		p.i++
		r := p.assignExpr()
		return &AssignExpr{Op: t.text, L: l, R: r, Pos: t.pos}
	}
	return l
}

func (p *parser) condExpr() Expr {
	c := p.binaryExpr(0)
	if p.isPunct("?") {
		t := p.peek()
		p.i++
		a := p.expr()
		p.expect(":")
		b := p.assignExpr()
		return &CondExpr{Cond: c, A: a, B: b, Pos: t.pos}
	}
	return c
}

var binaryLevels = [][]string{
	{"||"},
	{"^^"},
	{"&&"},
	{"|"},
	{"^"},
	{"&"},
	{"==", "!="},
	{"<", ">", "<=", ">="},
	{"<<", ">>"},
	{"+", "-"},
	{"*", "/", "%"},
}

func (p *parser) binaryExpr(level int) Expr {
	if level >= len(binaryLevels) {
		return p.unaryExpr()
	}
	l := p.binaryExpr(level + 1)
	for {
		t := p.peek()
		if t.kind != tokPunct {
			return l
		}
		ok := false
		for _, op := range binaryLevels[level] {
			if t.text == op {
				ok = true
			}
		}
		if !ok {
			return l
		}
		p.i++
		r := p.binaryExpr(level + 1)
		l = &BinaryExpr{Op: t.text, L: l, R: r, Pos: t.pos}
	}
}

func (p *parser) unaryExpr() Expr {
	t := p.peek()
	if t.kind == tokPunct {
		switch t.text {
		case "+", "-", "!", "~", "++", "--":
			p.i++
			p.enter(t.pos)
			x := p.unaryExpr()
			p.leave()
			return &UnaryExpr{Op: t.text, X: x, Pos: t.pos}
		}
	}
	return p.postfixExpr()
}

func (p *parser) args() []Expr {
	p.expect("(")
	var as []Expr
	if p.isIdent("void") && p.peekN(1).kind == tokPunct && p.peekN(1).text == ")" {
		p.i++
	}
	for !p.isPunct(")") {
		as = append(as, p.assignExpr())
		if !p.accept(",") {
			break
		}
	}
	p.expect(")")
	return as
}

func (p *parser) postfixExpr() Expr {
	t := p.peek()
	var e Expr
	switch {
	case t.kind == tokInt:
		p.i++
		e = &IntLit{Val: t.val, Unsigned: t.unsigned, Pos: t.pos}
	case t.kind == tokFloat:
		p.i++
		e = &FloatLit{Val: t.fval, Pos: t.pos}
	case t.kind == tokPunct && t.text == "(":
		p.i++
		p.enter(t.pos)
		e = p.expr()
		p.leave()
		p.expect(")")
	case t.kind == tokIdent && (t.text == "true" || t.text == "false"):
		p.i++
		e = &BoolLit{Val: t.text == "true", Pos: t.pos}
	case p.isTypeName(t):
		ts := p.typeSpec()
		if !p.isPunct("(") {
			p.fail(p.peek().pos, "expected '(' after type %s in expression, found %s", ts.Name, describe(p.peek()))
		}
		as := p.args()
		e = &CallExpr{Name: ts.Name, Ctor: &ts, Args: as, Pos: t.pos}
	case t.kind == tokIdent:
		if isReserved(t.text) {
			p.fail(t.pos, "unexpected keyword %q in expression", t.text)
		}
		p.i++
		if p.isPunct("(") {
			as := p.args()
			e = &CallExpr{Name: t.text, Args: as, Pos: t.pos}
		} else {
			e = &Ident{Name: t.text, Pos: t.pos}
		}
	default:
		p.fail(t.pos, "unexpected %s in expression", describe(t))
	}
	for {
		t := p.peek()
		if t.kind != tokPunct {
			return e
		}
		switch t.text {
		case "[":
			p.i++
			idx := p.expr()
			p.expect("]")
			e = &IndexExpr{X: e, I: idx, Pos: t.pos}
		case ".":
			p.i++
			n := p.peek()
			if n.kind != tokIdent {
				p.fail(n.pos, "expected field name after '.', found %s", describe(n))
			}
			p.i++
			if p.isPunct("(") {
				as := p.args()
				if n.text != "length" || len(as) != 0 {
					p.fail(n.pos, "unknown method .%s(...)", n.text)
				}
				e = &MethodExpr{X: e, Name: n.text, Pos: n.pos}
			} else {
				e = &FieldExpr{X: e, Name: n.text, Pos: n.pos}
			}
		case "++", "--":
			p.i++
			e = &PostfixExpr{Op: t.text, X: e, Pos: t.pos}
		default:
			return e
		}
	}
}
