// Package glslx (placeholder).
package glslx
