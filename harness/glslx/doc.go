// Package glslx is an independent reader and executor for the GLSL compute
// shaders that naga's GLSL backend emits (`#version 430 core` .. `460 core`,
// `310 es`, `320 es`).  It is the "hardware" of the verification harness for
// the GLSL backend: it tokenizes, parses and interprets the emitted text
// strictly according to the GLSL 4.30-4.60 / ESSL 3.10-3.20 specifications,
// never consulting naga, executes ONE invocation of main() over byte buffers
// and reports the final buffer contents.
//
// # API
//
//	Parse(src)            -> *Unit (syntax tree, #version, local_size, directives)
//	Run(src, xrt.Input)   -> xrt.Outcome      (also (*Unit).Run)
//	(*Unit).Blocks()      -> every buffer/uniform block with its computed std140/std430 layout
//	(*Unit).Decls(), Refs(), Problems()  -> declarations, identifier references with the
//	                         declaration each resolves to, and scoping problems
//	LayoutOf(type, packing, rowMajor)    -> the layout function itself
//
// Buffers are found in Input.Buffers under the key "<G>.<B>" taken from naga's
// identifier `_group_<G>_binding_<B>_..` (the block's instance name, or its
// first member when the block has no instance name); if that key is absent and
// the block has layout(binding=N), the key "binding=<N>" is used.  A block that
// is accessed but has no buffer yields Skip.  Input.Entry is not consulted (a
// GLSL unit has exactly one entry point, main).
//
// # Supported subset
//
// Types: bool int uint float, vecN ivecN uvecN bvecN, matN / matCxR, arrays
// (arrays of arrays, unsized last member of a buffer block, .length()),
// structs.  Storage: const, global ("private"), shared, local, in/out/inout
// parameters with copy-in/copy-out semantics, buffer and uniform interface
// blocks with or without instance name (std140, std430, row_major /
// column_major, layout(offset=), layout(align=), binding=, readonly /
// writeonly).  Values in blocks are read from / written to the bound bytes at
// the offsets computed by this package's implementation of OpenGL 4.6 section
// 7.6.2.2 - not at the offsets naga assumes.
//
// Expressions: every operator with GLSL's typing rules (component-wise vector
// and matrix arithmetic, scalar broadcast, linear-algebraic mat*mat, mat*vec,
// vec*mat, == and != on aggregates, short-circuit && ||, lazy ?:, ^^, comma,
// ++/--, all compound assignments), swizzles as r- and l-values (xyzw, rgba,
// stpq), indexing, constructors (conversion, splat, diagonal and
// matrix-from-matrix, component lists, array and struct constructors), the
// implicit conversions int->uint, int->float, uint->float of desktop GLSL 4.x
// (none in ESSL: there a mismatch is reported as invalid GLSL).
// Integer + - * wrap modulo 2^32; float arithmetic is IEEE binary32 with every
// operation rounded to binary32; transcendental functions are evaluated in
// binary64 and rounded.
//
// Statements: declarations, expression statements, if/else, switch (fall
// through, default anywhere, break), for / while / do-while, break, continue,
// return, nested blocks, user functions (overloads resolved by arity and
// type).  Built-ins: the angle/trigonometry, exponential, common, geometric,
// matrix, vector-relational, integer (bitCount, bitfieldReverse/Extract/Insert,
// findLSB/MSB), floating-point pack/unpack, *BitsTo*, fma, ldexp, frexp, modf,
// atomic* on buffer and shared memory, barriers (no-ops for one invocation),
// gl_LocalInvocationID, gl_LocalInvocationIndex, gl_GlobalInvocationID,
// gl_WorkGroupID, gl_NumWorkGroups, gl_WorkGroupSize.
//
// Preprocessor lines (#version, #extension, #pragma), precision statements and
// layout(local_size_*) in are parsed and recorded.
//
// # Trap rules (Outcome.Trap): behaviour GLSL leaves undefined
//
//   - integer / or % with a zero divisor (signed and unsigned, scalar or per component)
//   - INT_MIN / -1
//   - % with a negative operand (includes INT_MIN % -1)
//   - << or >> with a negative count or a count >= 32
//   - int(f) / uint(f) (and ivec/uvec constructors) of NaN, +-Inf, or a value
//     whose truncation does not fit; uint(f) of any f < 0 (-0.0 is not negative)
//   - array, vector or matrix index out of range, for reads and writes, on
//     l-values and r-values, including runtime-sized buffer arrays whose length
//     is (buffer length - array offset) / stride
//   - any load or store that falls outside the bound buffer's bytes
//   - read of a word of local, global or shared memory that was never written
//     and has no initialiser (per-word defined bits; aggregate copies read every
//     word; an out parameter the callee did not write makes the argument
//     undefined again; storing it into a buffer traps)
//   - a non-void function that reaches its end without return
//   - clamp with minVal > maxVal (float, int, uint)
//   - pow(x, y) with x < 0, or x == 0 and y <= 0
//   - bitfieldExtract / bitfieldInsert with offset < 0, bits < 0 or offset + bits > 32
//
// Defined behaviour that is computed rather than trapped: integer wrap-around
// (including -INT_MIN, abs(INT_MIN), INT_MIN * -1), >> on negative ints
// (sign-extending), division of negatives (truncating), float division by zero,
// mix / smoothstep outside [0,1], findMSB/findLSB of 0 (-1), bitfieldExtract with
// bits == 0.  "Result undefined" cases that are not on the list above are computed
// with the common IEEE result instead of trapping: sqrt/log/inversesqrt/asin/acos/
// acosh/atanh outside their domain (NaN or +-Inf), atan(0,0), normalize(0),
// smoothstep with edge0 >= edge1, min/max/clamp with NaN (spec formulas applied
// literally), ldexp overflow, frexp of Inf/NaN, pack* of NaN (0).
//
// # Skip (Outcome.Skip)
//
// "parse error: ... at L:C", "unsupported: ... at L:C" (texture / image /
// sampler variables, doubles and 64-bit integers, subgroup built-ins, discard,
// initializer lists, preprocessor macros, blocks with shared/packed layout,
// lowp/mediump precision in ESSL, non-compute shaders, ...), "invalid GLSL: ... at
// L:C" (the text violates GLSL's static rules on an executed path: type
// mismatch without implicit conversion, ?: with a vector condition, assignment
// to const / uniform / readonly, undeclared identifier, redeclaration, bad
// swizzle or constructor, recursion, ...), "no buffer bound for block ...",
// "fuel", and "internal: ..." for a recovered panic.
package glslx
