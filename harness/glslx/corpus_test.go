package glslx

import (
	"fmt"
	"os"
	"path/filepath"
	"regexp"
	"sort"
	"strings"
	"testing"
	"time"

	"github.com/gogpu/naga"
	"github.com/gogpu/naga/glsl"
	"github.com/gogpu/naga/ir"

	"verif/harness/xrt"
)

var posRe = regexp.MustCompile(` at \d+:\d+`)
var numRe = regexp.MustCompile(`-?\d+(\.\d+)?(e[+-]?\d+)?`)

func reasonClass(s string) string {
	s = posRe.ReplaceAllString(s, "")
	if len(s) > 110 {
		s = s[:110] + "..."
	}
	return s
}

// TestCorpusSmoke compiles every entry point of every WGSL file of naga's
// snapshot corpus to GLSL with real naga, executes the compute ones over
// zero-filled buffers and parses the others.  It must never panic or hang; the
// outcome classes are reported with counts.
func TestCorpusSmoke(t *testing.T) {
	files, _ := filepath.Glob("/repo/snapshot/testdata/in/*.wgsl")
	if len(files) == 0 {
		t.Skip("corpus not available")
	}
	sort.Strings(files)
	type verT struct {
		name string
		v    glsl.Version
	}
	vers := []verT{{"430", glsl.Version430}, {"460", glsl.Version460}, {"es310", glsl.VersionES310}, {"es320", glsl.VersionES320}}
	counts := map[string]int{}
	reasons := map[string]int{}
	examples := map[string]string{}
	var nFiles, nEP, nCompute int
	for _, f := range files {
		src, err := os.ReadFile(f)
		if err != nil {
			t.Fatal(err)
		}
		var m *ir.Module
		func() {
			defer func() {
				if r := recover(); r != nil {
					m = nil
				}
			}()
			ast, err := naga.Parse(string(src))
			if err != nil {
				return
			}
			mm, err := naga.LowerWithSource(ast, string(src))
			if err != nil {
				return
			}
			m = mm
		}()
		if m == nil {
			counts["naga front-end failed"]++
			continue
		}
		nFiles++
		for _, ep := range m.EntryPoints {
			nEP++
			for _, ver := range vers {
				v := ver.v
				if ep.Stage != ir.StageCompute && !v.ES {
					v = glsl.Version{Major: 4, Minor: 50}
				}
				var text string
				var cerr error
				func() {
					defer func() {
						if r := recover(); r != nil {
							cerr = fmt.Errorf("naga panic: %v", r)
						}
					}()
					text, _, cerr = glsl.Compile(m, glsl.Options{LangVersion: v, EntryPoint: ep.Name})
				}()
				if cerr != nil {
					counts[ver.name+": naga glsl.Compile failed"]++
					continue
				}
				tag := filepath.Base(f) + ":" + ep.Name + "@" + ver.name
				if ep.Stage != ir.StageCompute {
					u, perr := Parse(text)
					if perr != nil {
						counts[ver.name+": non-compute parse FAILED"]++
						k := "parse: " + reasonClass(perr.Error())
						reasons[k]++
						if examples[k] == "" {
							examples[k] = tag
						}
						if !strings.HasPrefix(perr.Error(), "unsupported: ") && !strings.HasPrefix(perr.Error(), "parse error: ") {
							t.Errorf("%s: unclassified parse failure: %v", tag, perr)
						}
						continue
					}
					u.Decls()
					u.Refs()
					u.Blocks()
					counts[ver.name+": non-compute parsed"]++
					continue
				}
				if ver.name == "430" {
					nCompute++
				}
				bufs := map[string][]byte{}
				if u, perr := Parse(text); perr == nil {
					for _, b := range u.Blocks() {
						for _, k := range b.SlotKeys {
							bufs[k] = make([]byte, 4096)
						}
					}
					u.Decls()
					u.Refs()
				}
				done := make(chan xrt.Outcome, 1)
				go func() {
					done <- Run(text, xrt.Input{Entry: "main", Buffers: bufs, MaxSteps: 200000, TraceAccesses: true, NumWorkgroups: [3]uint32{1, 1, 1}})
				}()
				var o xrt.Outcome
				select {
				case o = <-done:
				case <-time.After(60 * time.Second):
					t.Fatalf("%s: executor hangs", tag)
				}
				switch {
				case o.OK():
					counts[ver.name+": compute executed"]++
				case o.Trap != "":
					counts[ver.name+": compute trapped"]++
					k := "trap: " + numRe.ReplaceAllString(reasonClass(o.Trap), "N")
					reasons[k]++
					if examples[k] == "" {
						examples[k] = tag
					}
				default:
					counts[ver.name+": compute skipped"]++
					k := "skip: " + reasonClass(o.Skip)
					reasons[k]++
					if examples[k] == "" {
						examples[k] = tag
					}
					if strings.HasPrefix(o.Skip, "internal") {
						t.Errorf("%s: internal error: %s", tag, o.Skip)
					}
				}
			}
		}
	}
	t.Logf("files lowered: %d, entry points: %d (compute: %d)", nFiles, nEP, nCompute)
	var ks []string
	for k := range counts {
		ks = append(ks, k)
	}
	sort.Strings(ks)
	for _, k := range ks {
		t.Logf("%-40s %d", k, counts[k])
	}
	ks = ks[:0]
	for k := range reasons {
		ks = append(ks, k)
	}
	sort.Strings(ks)
	for _, k := range ks {
		t.Logf("%4d  %s   [e.g. %s]", reasons[k], k, examples[k])
	}
}
