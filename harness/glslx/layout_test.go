package glslx

import (
	"fmt"
	"strings"
	"testing"
)

func blockOf(t *testing.T, src, name string) Block {
	t.Helper()
	u, err := Parse(src)
	if err != nil {
		t.Fatalf("parse: %v", err)
	}
	bs, err := u.BlocksErr()
	if err != nil {
		t.Fatalf("blocks: %v", err)
	}
	for _, b := range bs {
		if b.Name == name {
			return b
		}
	}
	t.Fatalf("block %s not found", name)
	return Block{}
}

// want entries: "name off size align arrayStride matrixStride"
func checkLayout(t *testing.T, b Block, size int, want ...string) {
	t.Helper()
	if len(b.Members) != len(want) {
		t.Fatalf("block %s: %d members, want %d", b.Name, len(b.Members), len(want))
	}
	for i, m := range b.Members {
		got := fmt.Sprintf("%s %d %d %d %d %d", m.Name, m.Offset, m.Size, m.Align, m.ArrayStride, m.MatrixStride)
		if got != want[i] {
			t.Errorf("block %s (%s) member %d: got %q, want %q", b.Name, b.Packing, i, got, want[i])
		}
	}
	if b.Size != size {
		t.Errorf("block %s (%s): size %d, want %d", b.Name, b.Packing, b.Size, size)
	}
}

// Hand-computed from the OpenGL 4.6 specification, section 7.6.2.2.
func TestLayoutStd430Tricky(t *testing.T) {
	members := `
    float f0;         // scalar
    vec3 v3;          // 16-aligned, 12 bytes
    float f1;         // fits in the vec3's tail
    vec2 v2;
    float fa[3];      // std140: stride 16; std430: stride 4
    vec3 va[2];       // stride 16 in both
    mat2x3 m23;       // 2 columns of vec3: stride 16
    mat3x3 m33;       // 3 columns of vec3: stride 16
    mat4x2 m42;       // 4 columns of vec2: std140 stride 16, std430 stride 8
    mat2x2 m22;       // std140 stride 16, std430 stride 8
    float tail;
`
	src := hdr + "layout(std430) buffer B430 {" + members + "} b430;\nvoid main() {}\n"
	checkLayout(t, blockOf(t, src, "B430"), 228,
		"f0 0 4 4 0 0",
		"v3 16 12 16 0 0",
		"f1 28 4 4 0 0",
		"v2 32 8 8 0 0",
		"fa 40 12 4 4 0",
		"va 64 32 16 16 0",
		"m23 96 32 16 0 16",
		"m33 128 48 16 0 16",
		"m42 176 32 8 0 8",
		"m22 208 16 8 0 8",
		"tail 224 4 4 0 0",
	)
}

func TestLayoutStd140Tricky(t *testing.T) {
	members := `
    float f0; vec3 v3; float f1; vec2 v2; float fa[3]; vec3 va[2]; mat2x3 m23; mat3x3 m33; mat4x2 m42; mat2x2 m22; float tail;
`
	src := hdr + "layout(std140) uniform B140 {" + members + "} b140;\nvoid main() {}\n"
	checkLayout(t, blockOf(t, src, "B140"), 308,
		"f0 0 4 4 0 0",
		"v3 16 12 16 0 0",
		"f1 28 4 4 0 0",
		"v2 32 8 8 0 0",
		"fa 48 48 16 16 0", // rule 4: element alignment rounded up to 16
		"va 96 32 16 16 0",
		"m23 128 32 16 0 16",
		"m33 160 48 16 0 16",
		"m42 208 64 16 0 16", // 4 columns at stride 16
		"m22 272 32 16 0 16",
		"tail 304 4 4 0 0",
	)
}

func TestLayoutNestedStructs(t *testing.T) {
	decl := `
struct Inner { float a; vec2 b; };           // std430: b@8, size 16, align 8.  std140: align 16, size 16
struct Mid { Inner i; float c; Inner arr[2]; vec3 d; };
// std430 Mid: i@0(16), c@16, arr@24 (stride 16, size 32) -> 56, d@64 (12) -> size 80, align 16
// std140 Mid: i@0(16), c@16, arr@32 (stride 16, size 32) -> 64, d@64 -> size 80, align 16
struct Small { float x; };                   // std430: size 4 align 4.  std140: size 16 align 16
`
	members := `
    float head;
    Mid m;
    float after;
    Small s[3];
    float after2;
    Inner last;
`
	src := hdr + decl + "layout(std430) buffer B430 {" + members + "} b430;\nlayout(std140) uniform B140 {" + members + "} b140;\nvoid main() {}\n"
	b := blockOf(t, src, "B430")
	checkLayout(t, b, 136,
		"head 0 4 4 0 0",
		"m 16 80 16 0 0",
		"after 96 4 4 0 0",
		"s 100 12 4 4 0",
		"after2 112 4 4 0 0",
		"last 120 16 8 0 0",
	)
	mid := b.Members[1].Layout
	got := ""
	for _, k := range mid.Members {
		got += fmt.Sprintf("%d/%d ", k.Offset, k.Size)
	}
	if got != "0/16 16/4 24/32 64/12 " {
		t.Errorf("std430 Mid members: %s", got)
	}
	if mid.Members[2].ArrayStride != 16 || mid.Members[0].Members[1].Offset != 8 {
		t.Errorf("std430 Inner: stride %d, b offset %d", mid.Members[2].ArrayStride, mid.Members[0].Members[1].Offset)
	}
	b = blockOf(t, src, "B140")
	checkLayout(t, b, 192,
		"head 0 4 4 0 0",
		"m 16 80 16 0 0",
		"after 96 4 4 0 0",
		"s 112 48 16 16 0",
		"after2 160 4 4 0 0",
		"last 176 16 16 0 0",
	)
	mid = b.Members[1].Layout
	got = ""
	for _, k := range mid.Members {
		got += fmt.Sprintf("%d/%d ", k.Offset, k.Size)
	}
	if got != "0/16 16/4 32/32 64/12 " {
		t.Errorf("std140 Mid members: %s", got)
	}
}

func TestLayoutRowMajorOffsetAlignUnsized(t *testing.T) {
	src := "#version 450 core\nlayout(local_size_x=1) in;\n" + `
struct P { vec3 pos; float w; };
layout(std430, binding = 3) readonly buffer Data {
    layout(row_major) mat2x3 rm;          // 3 rows of vec2: stride 8, size 24, align 8
    mat2x3 cm;                            // @32: 2 columns of vec3, stride 16
    layout(offset = 128) float f;         // explicit offset
    layout(align = 32) float g;           // next multiple of 32: 160
    float h;                              // 164
    mat3x3 ma[2];                         // @176: array stride 48, matrix stride 16
    P ps[];                               // @272: stride 16
} _group_2_binding_7_cs;
layout(std140, row_major) uniform RM { mat3x2 m; float z; } rmu;   // row_major mat3x2: 2 rows of vec3 -> stride 16, size 32
void main() {}
`
	b := blockOf(t, src, "Data")
	checkLayout(t, b, 272,
		"rm 0 24 8 0 8",
		"cm 32 32 16 0 16",
		"f 128 4 4 0 0",
		"g 160 4 4 0 0",
		"h 164 4 4 0 0",
		"ma 176 96 16 48 16",
		"ps 272 0 16 16 0",
	)
	if !b.Members[0].RowMajor || b.Members[1].RowMajor {
		t.Errorf("row_major flags wrong")
	}
	if b.Binding != 3 || !b.ReadOnly || b.Storage != "buffer" || b.Instance != "_group_2_binding_7_cs" {
		t.Errorf("block header: %+v", b)
	}
	if strings.Join(b.SlotKeys, ",") != "2.7,binding=3" {
		t.Errorf("slot keys %v", b.SlotKeys)
	}
	if fmt.Sprint(b.Members[6].ArraySizes) != "[-1]" || fmt.Sprint(b.Members[5].ArraySizes) != "[2]" {
		t.Errorf("array sizes: %v %v", b.Members[6].ArraySizes, b.Members[5].ArraySizes)
	}
	checkLayout(t, blockOf(t, src, "RM"), 36, "m 0 32 16 0 16", "z 32 4 4 0 0")
}

// The computed layout is what loads and stores use.
func TestLayoutDrivesAccesses(t *testing.T) {
	src := hdr + `
struct P { vec3 pos; float w; };
layout(std430) buffer Data {
    layout(row_major) mat2x3 rm;   // element (col c,row r) at r*8 + c*4
    float k;                       // @24
    float fa[3];                   // @28 stride 4
    P ps[];                        // @48 stride 16
} _group_0_binding_0_cs;
layout(std140) uniform U { float fa[3]; mat2x2 m; } _group_0_binding_1_cs;   // fa stride 16; m@48 stride 16
void main() {
    vec3 c1 = _group_0_binding_0_cs.rm[1];                 // column 1 = (rm[1][0], rm[1][1], rm[1][2]) = bytes 4, 12, 20
    _group_0_binding_0_cs.k = c1.x * 100.0 + c1.y * 10.0 + c1.z;
    _group_0_binding_0_cs.rm[0][2] = 9.0;                  // byte 16
    _group_0_binding_0_cs.fa[2] = _group_0_binding_1_cs.fa[1] + _group_0_binding_1_cs.m[1].y;   // u bytes 16 and 48+16+4
    _group_0_binding_0_cs.ps[_group_0_binding_0_cs.ps.length() - 1].w = float(_group_0_binding_0_cs.ps.length());
}`
	d := zeros(20) // 80 bytes: ps has (80-48)/16 = 2 elements
	copy(d, words(1.0, 2.0, 3.0, 4.0, 5.0, 6.0))
	u := zeros(20)
	copy(u[16:], words(7.0))
	copy(u[68:], words(0.5))
	o := Run(src, xrtInput(bufMap{"0.0": d, "0.1": u}, true))
	if !o.OK() {
		t.Fatalf("%+v", o)
	}
	// column 1 = (2, 4, 6) -> 246
	expectWords(t, "data", d, 1.0, 2.0, 3.0, 4.0, 9.0, 6.0, 246.0, 0.0, 0.0, 7.5, 0, 0, 0, 0, 0, 0, 0, 0, 0, 2.0)
	var got []string
	for _, a := range o.Accesses {
		rw := "r"
		if a.Write {
			rw = "w"
		}
		got = append(got, fmt.Sprintf("%s:%s%d+%d", a.Slot, rw, a.Offset, a.Size))
	}
	want := "0.0:r4+4 0.0:r12+4 0.0:r20+4 0.0:w24+4 0.0:w16+4 0.1:r16+4 0.1:r68+4 0.0:w36+4 0.0:w76+4"
	if strings.Join(got, " ") != want {
		t.Errorf("accesses:\n got %s\nwant %s", strings.Join(got, " "), want)
	}
}

func TestSlotKeyLookup(t *testing.T) {
	src := hdr + `
layout(std430, binding = 5) buffer A { int x; } _group_1_binding_2_cs;
layout(std430, binding = 6) buffer B { int y; };
void main() { _group_1_binding_2_cs.x = 11; y = 22; }`
	// "<G>.<B>" is preferred, "binding=N" is the fallback
	a1, a2, b := zeros(1), zeros(1), zeros(1)
	o := Run(src, xrtInput(bufMap{"1.2": a1, "binding=5": a2, "binding=6": b}, false))
	if !o.OK() {
		t.Fatalf("%+v", o)
	}
	expectWords(t, "a1", a1, 11)
	expectWords(t, "a2", a2, 0)
	expectWords(t, "b", b, 22)
	o = Run(src, xrtInput(bufMap{"binding=5": a2}, false))
	if !strings.Contains(o.Skip, "no buffer bound for block B") {
		t.Errorf("want missing-buffer skip, got %+v", o)
	}
	expectWords(t, "a2", a2, 11)
}
