package glslx

import (
	"encoding/binary"
	"fmt"
	"math"
	"strings"
	"testing"

	"github.com/gogpu/naga/glsl"

	"verif/harness/xrt"
)

type verCase struct {
	name string
	v    glsl.Version
}

var allVers = []verCase{{"430", glsl.Version430}, {"450", glsl.Version450}, {"es310", glsl.VersionES310}}

// words builds a little-endian byte buffer from int / int32 / uint32 / float32 / float64(→float32) values.
func words(vals ...any) []byte {
	out := make([]byte, 0, 4*len(vals))
	for _, v := range vals {
		var w uint32
		switch x := v.(type) {
		case int:
			if x < math.MinInt32 || x > math.MaxUint32 {
				panic("words: out of range")
			}
			w = uint32(int64(x))
		case int32:
			w = uint32(x)
		case uint32:
			w = x
		case float32:
			w = math.Float32bits(x)
		case float64:
			w = math.Float32bits(float32(x))
		default:
			panic(fmt.Sprintf("words: unsupported %T", v))
		}
		out = binary.LittleEndian.AppendUint32(out, w)
	}
	return out
}

func zeros(nWords int) []byte { return make([]byte, 4*nWords) }

func describeWord(w uint32) string {
	return fmt.Sprintf("0x%08X (i=%d f=%v)", w, int32(w), math.Float32frombits(w))
}

// expectWords compares a buffer word by word; `nil` entries in want are not compared.
func expectWords(t *testing.T, label string, got []byte, want ...any) {
	t.Helper()
	if len(got) < 4*len(want) {
		t.Errorf("%s: buffer has %d bytes, want at least %d", label, len(got), 4*len(want))
		return
	}
	for i, v := range want {
		if v == nil {
			continue
		}
		ww := binary.LittleEndian.Uint32(words(v))
		gw := binary.LittleEndian.Uint32(got[4*i:])
		if ww != gw {
			t.Errorf("%s: word %d = %s, want %s", label, i, describeWord(gw), describeWord(ww))
		}
	}
}

// runWGSL compiles with real naga for the given version and executes main().
func runWGSL(t *testing.T, wgsl string, ver glsl.Version, in xrt.Input) (xrt.Outcome, string) {
	t.Helper()
	entry := in.Entry
	if entry == "" {
		entry = "main"
	}
	src, err := compileWGSL(wgsl, entry, ver)
	if err != nil {
		t.Fatalf("naga: %v", err)
	}
	in.Entry = "main"
	return Run(src, in), src
}

type bufMap = map[string][]byte

func cloneBufs(b bufMap) bufMap {
	out := bufMap{}
	for k, v := range b {
		out[k] = append([]byte(nil), v...)
	}
	return out
}

// e2e runs the WGSL under every GLSL version and checks that execution is OK
// and the buffers hold the expected words.
func e2e(t *testing.T, wgsl string, in xrt.Input, bufs bufMap, want map[string][]any) {
	t.Helper()
	e2eVers(t, allVers, wgsl, in, bufs, want)
}

func e2eVers(t *testing.T, vers []verCase, wgsl string, in xrt.Input, bufs bufMap, want map[string][]any) {
	t.Helper()
	for _, vc := range vers {
		b := cloneBufs(bufs)
		in2 := in
		in2.Buffers = b
		o, src := runWGSL(t, wgsl, vc.v, in2)
		if !o.OK() {
			t.Errorf("[%s] trap=%q skip=%q\n%s", vc.name, o.Trap, o.Skip, numbered(src))
			continue
		}
		for slot, w := range want {
			expectWords(t, fmt.Sprintf("[%s] slot %s", vc.name, slot), b[slot], w...)
		}
		if t.Failed() {
			t.Logf("[%s] GLSL:\n%s", vc.name, numbered(src))
			return
		}
	}
}

// e2eOutcome runs under every version and requires the outcome (trap or skip) to contain the fragment.
func e2eOutcome(t *testing.T, vers []verCase, wgsl string, in xrt.Input, bufs bufMap, kind, fragment string) {
	t.Helper()
	for _, vc := range vers {
		in2 := in
		in2.Buffers = cloneBufs(bufs)
		o, src := runWGSL(t, wgsl, vc.v, in2)
		got := o.Trap
		if kind == "skip" {
			got = o.Skip
		}
		if !strings.Contains(got, fragment) {
			t.Errorf("[%s] want %s containing %q, got trap=%q skip=%q\n%s", vc.name, kind, fragment, o.Trap, o.Skip, numbered(src))
		}
	}
}

func numbered(src string) string {
	var sb strings.Builder
	for i, l := range strings.Split(src, "\n") {
		fmt.Fprintf(&sb, "%3d  %s\n", i+1, l)
	}
	return sb.String()
}

// runGLSL executes hand-written GLSL.
func runGLSL(src string, bufs bufMap) xrt.Outcome {
	return Run(src, xrt.Input{Entry: "main", Buffers: bufs})
}

const hdr = "#version 430 core\nlayout(local_size_x = 1, local_size_y = 1, local_size_z = 1) in;\n"
const hdrES = "#version 310 es\nprecision highp float;\nprecision highp int;\nlayout(local_size_x = 1, local_size_y = 1, local_size_z = 1) in;\n"

func xrtInput(b bufMap, trace bool) xrt.Input {
	return xrt.Input{Entry: "main", Buffers: b, TraceAccesses: trace}
}
