package glslx

import (
	"strings"
	"testing"

	"verif/harness/xrt"
)

func TestE2E_VectorOps(t *testing.T) {
	src := `
@group(0) @binding(0) var<storage, read> a: array<i32, 8>;
@group(0) @binding(1) var<storage, read_write> o: array<i32, 24>;
@compute @workgroup_size(1) fn main() {
  let v = vec3<i32>(a[0], a[1], a[2]);        // (1, -2, 3)
  let w = v * 2 + vec3<i32>(10);              // (12, 6, 16)
  o[0] = w.x; o[1] = w.y; o[2] = w.z;
  let s = w.zyx;                              // (16, 6, 12)
  o[3] = s.x; o[4] = s.y; o[5] = s.z;
  let q = vec4<i32>(v.xy, w.yz) - 1;          // (0, -3, 5, 15)
  o[6] = q.x; o[7] = q.y; o[8] = q.z; o[9] = q.w;
  o[10] = dot(v, w);                          // 12 - 12 + 48 = 48
  var m = vec4<i32>(0);
  m.y = 7; m[a[2]] = 9;                       // (0, 7, 0, 9)
  m.x += 5;                                   // (5, 7, 0, 9)
  o[11] = m.x; o[12] = m.y; o[13] = m.z; o[14] = m.w;
  o[15] = v[a[0]];                            // v[1] = -2
  let c = v < vec3<i32>(2);                   // (true, true, false)
  o[16] = select(0, 1, all(c)) + select(0, 2, any(c));   // 0 + 2
  let n = -v;                                 // (-1, 2, -3)
  o[17] = n.x + n.y * n.z;                    // -1 + -6 = -7
  let d = w / vec3<i32>(5, 4, -3);            // (2, 1, -5)
  o[18] = d.x; o[19] = d.y; o[20] = d.z;
  let sh = vec2<i32>(1, -16) << vec2<u32>(4u, 1u);   // (16, -32)
  o[21] = sh.x; o[22] = sh.y;
}`
	e2e(t, src, xrt.Input{}, bufMap{
		"0.0": words(1, -2, 3, 0, 0, 0, 0, 0),
		"0.1": zeros(24),
	}, map[string][]any{"0.1": {12, 6, 16, 16, 6, 12, 0, -3, 5, 15, 48, 5, 7, 0, 9, -2, 2, -7, 2, 1, -5, 16, -32}})
}

func TestE2E_VectorSelect(t *testing.T) {
	// select() with a vector condition: GLSL's ?: needs a scalar bool condition,
	// so `bvec ? a : b` is not valid GLSL (mix(b, a, cond) would be).
	src := `
@group(0) @binding(0) var<storage, read_write> o: array<i32, 4>;
@compute @workgroup_size(1) fn main() {
  let v = vec2<i32>(o[0], o[1]);
  let r = select(vec2<i32>(1), vec2<i32>(2), v < vec2<i32>(1, -1));
  o[2] = r.x; o[3] = r.y;
}`
	for _, vc := range allVers {
		b := bufMap{"0.0": zeros(4)}
		o, glslSrc := runWGSL(t, src, vc.v, xrt.Input{Buffers: b})
		t.Logf("[%s] outcome: trap=%q skip=%q", vc.name, o.Trap, o.Skip)
		switch {
		case o.OK():
			// if naga emits something valid the result must be right: v=(0,0): (0<1, 0<-1) = (t,f) -> (2,1)
			expectWords(t, vc.name, b["0.0"], 0, 0, 2, 1)
		case o.Skip != "":
			if !strings.Contains(o.Skip, "condition of ?: must be a scalar bool") {
				t.Errorf("[%s] unexpected skip %q\n%s", vc.name, o.Skip, numbered(glslSrc))
			}
		default:
			t.Errorf("[%s] unexpected trap %q", vc.name, o.Trap)
		}
	}
}

func TestE2E_Vec3PaddingAndStructOffsets(t *testing.T) {
	// WGSL layout: a@0 (vec3, size 12), b@12, c@16 (vec3<u32>), d@28, in@32 {p@32 (vec2), q@40, r@48 (vec4)}, e@64; size 80
	src := `
struct In { p: vec2<f32>, q: i32, r: vec4<f32> }
struct S { a: vec3<f32>, b: f32, c: vec3<u32>, d: u32, inner: In, e: i32 }
@group(0) @binding(0) var<storage, read_write> s: S;
@compute @workgroup_size(1) fn main() {
  s.b = s.a.x + s.a.y + s.a.z;     // 1+2+3 = 6
  s.d = s.c.x + s.c.y + s.c.z;     // 60
  s.inner.q = s.e;                 // 77
  s.inner.r = vec4<f32>(s.inner.p, 8.0, 9.0);
  s.a.z = -1.0;
  s.inner.p.y = 5.0;
}`
	in := zeros(20)
	copy(in[0:], words(1.0, 2.0, 3.0, 0.0, 10, 20, 30, 0, 0.5, 0.25))
	copy(in[64:], words(77))
	e2e(t, src, xrt.Input{}, bufMap{"0.0": in}, map[string][]any{"0.0": {
		1.0, 2.0, -1.0, 6.0, // a, b
		10, 20, 30, 60, // c, d
		0.5, 5.0, 77, 0, // p, q, pad
		0.5, 0.25, 8.0, 9.0, // r
		77, 0, 0, 0, // e, pad
	}})
}

func TestE2E_ArrayOfVec3AndStructs(t *testing.T) {
	// array<vec3<f32>,3>: stride 16.  array<P,2> with P {v: vec3<i32>, k: i32}: stride 16, k at +12.
	src := `
struct P { v: vec3<i32>, k: i32 }
struct S { arr: array<vec3<f32>, 3>, ps: array<P, 2> }
@group(0) @binding(0) var<storage, read_write> s: S;
@compute @workgroup_size(1) fn main() {
  s.arr[1] = s.arr[0] + s.arr[2];          // (1,2,3)+(10,20,30)
  s.ps[1].k = s.ps[0].v.z + s.ps[0].k;     // 3 + 4
  s.ps[1].v = s.ps[0].v.zyx;
  var p = s.ps[0];
  p.k = p.k * 10;
  s.ps[0] = p;
}`
	in := zeros(20)
	copy(in[0:], words(1.0, 2.0, 3.0, 99.0))
	copy(in[32:], words(10.0, 20.0, 30.0, 98.0))
	copy(in[48:], words(1, 2, 3, 4))
	e2e(t, src, xrt.Input{}, bufMap{"0.0": in}, map[string][]any{"0.0": {
		1.0, 2.0, 3.0, 99.0,
		11.0, 22.0, 33.0, 0.0,
		10.0, 20.0, 30.0, 98.0,
		1, 2, 3, 40,
		3, 2, 1, 7,
	}})
}

func TestE2E_MatrixColumns(t *testing.T) {
	// mat3x3<f32> in a storage buffer: 3 columns of vec3 at stride 16 (size 48); v at 48; r at 64
	src := `
struct S { m: mat3x3<f32>, v: vec3<f32>, r: vec3<f32>, t: mat3x3<f32> }
@group(0) @binding(0) var<storage, read_write> s: S;
@compute @workgroup_size(1) fn main() {
  s.r = s.m * s.v;          // columns (1,2,3),(4,5,6),(7,8,9); v=(1,0,-1) -> col0 - col2 = (-6,-6,-6)
  s.t = transpose(s.m);
  s.m[1][2] = 60.0;
  s.m[2] = vec3<f32>(70.0, 80.0, 90.0);
}`
	in := zeros(32)
	copy(in[0:], words(1.0, 2.0, 3.0, 0.0, 4.0, 5.0, 6.0, 0.0, 7.0, 8.0, 9.0, 0.0))
	copy(in[48:], words(1.0, 0.0, -1.0))
	e2e(t, src, xrt.Input{}, bufMap{"0.0": in}, map[string][]any{"0.0": {
		1.0, 2.0, 3.0, 0.0, 4.0, 5.0, 60.0, 0.0, 70.0, 80.0, 90.0, 0.0,
		1.0, 0.0, -1.0, 0.0,
		-6.0, -6.0, -6.0, 0.0,
		1.0, 4.0, 7.0, 0.0, 2.0, 5.0, 8.0, 0.0, 3.0, 6.0, 9.0, 0.0,
	}})
}

func TestE2E_MatrixProducts(t *testing.T) {
	// mat2x2 in std430: column stride 8.  mat4x2 (4 columns of vec2): stride 8, size 32.  mat2x4: 2 columns of vec4.
	src := `
struct S { a: mat2x2<f32>, b: mat2x2<f32>, c: mat2x2<f32>, d: f32, w: vec2<f32>, m42: mat4x2<f32>, x4: vec4<f32>, y2: vec2<f32>, pad: vec2<f32>, m24: mat2x4<f32>, z2: vec2<f32> }
@group(0) @binding(0) var<storage, read_write> s: S;
@compute @workgroup_size(1) fn main() {
  s.c = s.a * s.b;            // a = cols (1,2),(3,4); b = cols (5,6),(7,8) -> cols (23,34),(31,46)
  s.d = determinant(s.a);     // 1*4 - 3*2 = -2
  s.w = vec2<f32>(1.0, 2.0) * s.a;   // (1*1+2*2, 1*3+2*4) = (5, 11)
  s.y2 = s.m42 * s.x4;        // cols (1,2),(3,4),(5,6),(7,8), x=(1,1,1,1) -> (16, 20)
  s.z2 = s.x4 * s.m24;        // m24 cols (1,2,3,4),(5,6,7,8); x=(1,1,1,1) -> (10, 26)
  let k: f32 = 2.0;
  s.a = s.a * k;              // (2,4),(6,8)
}`
	// offsets: a 0, b 16, c 32, d 48, w 56, m42 64, x4 96, y2 112, pad 120, m24 128, z2 160 ; size 168
	in := zeros(44)
	copy(in[0:], words(1.0, 2.0, 3.0, 4.0, 5.0, 6.0, 7.0, 8.0))
	copy(in[64:], words(1.0, 2.0, 3.0, 4.0, 5.0, 6.0, 7.0, 8.0))
	copy(in[96:], words(1.0, 1.0, 1.0, 1.0))
	copy(in[128:], words(1.0, 2.0, 3.0, 4.0, 5.0, 6.0, 7.0, 8.0))
	e2e(t, src, xrt.Input{}, bufMap{"0.0": in}, map[string][]any{"0.0": {
		2.0, 4.0, 6.0, 8.0, 5.0, 6.0, 7.0, 8.0, 23.0, 34.0, 31.0, 46.0,
		-2.0, 0.0, 5.0, 11.0,
		1.0, 2.0, 3.0, 4.0, 5.0, 6.0, 7.0, 8.0,
		1.0, 1.0, 1.0, 1.0,
		16.0, 20.0, 0.0, 0.0,
		1.0, 2.0, 3.0, 4.0, 5.0, 6.0, 7.0, 8.0,
		10.0, 26.0,
	}})
}

func TestE2E_RuntimeArrays(t *testing.T) {
	src := `
struct H { n: u32, k: u32, items: array<vec2<u32>> }
@group(0) @binding(0) var<storage, read_write> h: H;
@group(0) @binding(1) var<storage, read_write> flat: array<i32>;
@compute @workgroup_size(1) fn main() {
  h.n = arrayLength(&h.items);       // (40 - 8) / 8 = 4
  h.k = arrayLength(&flat);          // 28 / 4 = 7
  let last = arrayLength(&h.items) - 1u;
  h.items[last] = h.items[0] + vec2<u32>(1u, 2u);
  flat[6] = flat[0] - 1;
}`
	hb := zeros(10)
	copy(hb[8:], words(100, 200))
	fb := zeros(7)
	copy(fb, words(-2147483648))
	e2e(t, src, xrt.Input{}, bufMap{"0.0": hb, "0.1": fb}, map[string][]any{
		"0.0": {4, 7, 100, 200, 0, 0, 0, 0, 101, 202},
		"0.1": {-2147483648, 0, 0, 0, 0, 0, 2147483647},
	})
}

func TestE2E_UniformBuffer(t *testing.T) {
	// uniform (std140-compatible WGSL struct): f@0, v@16 (vec4), arr@32 (array<vec4,2>), m@64 (mat4x4), i@128
	src := `
struct U { f: f32, v: vec4<f32>, arr: array<vec4<f32>, 2>, m: mat4x4<f32>, i: vec3<i32> }
@group(0) @binding(0) var<uniform> u: U;
@group(1) @binding(3) var<storage, read_write> o: array<f32, 8>;
@compute @workgroup_size(1) fn main() {
  o[0] = u.f + u.v.w;                   // 0.5 + 4
  o[1] = u.arr[1].y;                    // 20
  let r = u.m * u.v;                    // cols (2,0,0,0),(0,2,0,0),(0,0,2,0),(1,1,1,1): (2,4,6,0)+4*(1,1,1,1) = (6,8,10,4)
  o[2] = r.x; o[3] = r.y; o[4] = r.z; o[5] = r.w;
  o[6] = f32(u.i.x + u.i.y + u.i.z);    // 6
  o[7] = u.m[3][2];
}`
	ub := zeros(36)
	copy(ub[0:], words(0.5))
	copy(ub[16:], words(1.0, 2.0, 3.0, 4.0))
	copy(ub[32:], words(9.0, 9.0, 9.0, 9.0, 10.0, 20.0, 30.0, 40.0))
	copy(ub[64:], words(2.0, 0.0, 0.0, 0.0, 0.0, 2.0, 0.0, 0.0, 0.0, 0.0, 2.0, 0.0, 1.0, 1.0, 1.0, 1.0))
	copy(ub[128:], words(1, 2, 3))
	e2e(t, src, xrt.Input{}, bufMap{"0.0": ub, "1.3": zeros(8)}, map[string][]any{
		"1.3": {4.5, 20.0, 6.0, 8.0, 10.0, 4.0, 6.0, 1.0},
	})
}

func TestE2E_Atomics(t *testing.T) {
	src := `
struct A { i: atomic<i32>, u: atomic<u32>, arr: array<atomic<u32>, 2> }
@group(0) @binding(0) var<storage, read_write> at: A;
@group(0) @binding(1) var<storage, read_write> o: array<i32, 16>;
@compute @workgroup_size(1) fn main() {
  o[0] = atomicAdd(&at.i, 5);            // old -3 -> 2
  o[1] = atomicSub(&at.i, 10);           // old 2 -> -8
  o[2] = atomicMax(&at.i, -20);          // old -8 -> -8 (signed)
  o[3] = atomicMin(&at.i, -20);          // old -8 -> -20
  o[4] = i32(atomicMax(&at.u, 7u));      // old 0xFFFFFFF0 stays (unsigned compare)
  o[5] = i32(atomicAnd(&at.u, 0xFFu));   // old 0xFFFFFFF0 -> 0xF0
  o[6] = i32(atomicOr(&at.u, 0x0Fu));    // old 0xF0 -> 0xFF
  o[7] = i32(atomicXor(&at.u, 0xF0u));   // old 0xFF -> 0x0F
  o[8] = i32(atomicExchange(&at.u, 42u));// old 0x0F -> 42
  let r1 = atomicCompareExchangeWeak(&at.u, 41u, 1u);    // fails: old 42
  o[9] = i32(r1.old_value); o[10] = select(0, 1, r1.exchanged);
  let r2 = atomicCompareExchangeWeak(&at.u, 42u, 43u);   // succeeds
  o[11] = i32(r2.old_value); o[12] = select(0, 1, r2.exchanged);
  atomicStore(&at.arr[1], atomicLoad(&at.u) + 1u);       // 44
  o[13] = i32(atomicAdd(&at.arr[1], 0xFFFFFFFFu));       // old 44 -> 43 (wraps)
  o[14] = atomicLoad(&at.i);
}`
	e2e(t, src, xrt.Input{}, bufMap{
		"0.0": words(-3, uint32(0xFFFFFFF0), 0, 0),
		"0.1": zeros(16),
	}, map[string][]any{
		"0.0": {-20, 43, 0, 43},
		"0.1": {-3, 2, -8, -8, -16, -16, 0xF0, 0xFF, 0x0F, 42, 0, 42, 1, 44, -20},
	})
}

func TestE2E_WorkgroupAndPrivate(t *testing.T) {
	src := `
var<workgroup> wg: array<i32, 4>;
var<workgroup> wc: atomic<u32>;
var<private> counter: i32 = 100;
var<private> pz: vec2<i32>;
@group(0) @binding(0) var<storage, read_write> o: array<i32, 8>;
fn bump(by: i32) -> i32 { counter = counter + by; return counter; }
@compute @workgroup_size(1) fn main() {
  o[0] = wg[2];                 // zero-initialised by WGSL semantics
  wg[1] = 11; wg[3] = wg[1] * 3;
  workgroupBarrier();
  o[1] = wg[1] + wg[3];         // 44
  o[2] = bump(1) + bump(10);    // 101 + 111 = 212
  o[3] = counter;               // 111
  o[4] = pz.x + pz.y;           // private vars are zero-initialised: 0
  atomicAdd(&wc, 5u);
  storageBarrier();
  o[5] = i32(atomicLoad(&wc));  // 5
}`
	e2e(t, src, xrt.Input{}, bufMap{"0.0": words(9, 9, 9, 9, 9, 9, 9, 9)}, map[string][]any{
		"0.0": {0, 44, 212, 111, 0, 5, 9, 9},
	})
}

func TestE2E_InvocationBuiltins(t *testing.T) {
	src := `
@group(0) @binding(0) var<storage, read_write> o: array<u32, 16>;
@compute @workgroup_size(2, 3, 4)
fn main(@builtin(local_invocation_id) lid: vec3<u32>, @builtin(local_invocation_index) li: u32,
        @builtin(global_invocation_id) gid: vec3<u32>, @builtin(workgroup_id) wid: vec3<u32>,
        @builtin(num_workgroups) nw: vec3<u32>) {
  o[0] = lid.x; o[1] = lid.y; o[2] = lid.z;
  o[3] = li;                               // 1 + 2*2 + 3*2*3 = 23
  o[4] = gid.x; o[5] = gid.y; o[6] = gid.z; // wid*size + lid = (5*2+1, 6*3+2, 7*4+3) = (11, 20, 31)
  o[7] = wid.x; o[8] = wid.y; o[9] = wid.z;
  o[10] = nw.x; o[11] = nw.y; o[12] = nw.z;
}`
	in := xrt.Input{LocalID: [3]uint32{1, 2, 3}, WorkgroupID: [3]uint32{5, 6, 7}, NumWorkgroups: [3]uint32{8, 9, 10}}
	e2e(t, src, in, bufMap{"0.0": zeros(16)}, map[string][]any{
		"0.0": {1, 2, 3, 23, 11, 20, 31, 5, 6, 7, 8, 9, 10},
	})
}

func TestE2E_MatrixTimesAbstractLiteral(t *testing.T) {
	// naga prints the abstract-float operand of `mat * 2.0` as the double literal
	// `2.0LF`: not valid in ESSL, and in desktop GLSL it would make the product a
	// dmat2.  The executor reports it instead of guessing.
	src := `
@group(0) @binding(0) var<storage, read_write> m: mat2x2<f32>;
@compute @workgroup_size(1) fn main() { m = m * 2.0; }`
	for _, vc := range allVers {
		b := bufMap{"0.0": words(1.0, 2.0, 3.0, 4.0)}
		o, glslSrc := runWGSL(t, src, vc.v, xrt.Input{Buffers: b})
		switch {
		case o.OK():
			expectWords(t, vc.name, b["0.0"], 2.0, 4.0, 6.0, 8.0)
		case !strings.Contains(o.Skip, "double-precision literal"):
			t.Errorf("[%s] trap=%q skip=%q\n%s", vc.name, o.Trap, o.Skip, numbered(glslSrc))
		}
	}
}
