package glslx

import "verif/harness/xrt"

// ---- syntax tree -----------------------------------------------------------

// LayoutQual is one entry of a layout(...) qualifier: name or name = value.
type LayoutQual struct {
	Name     string
	HasValue bool
	Value    Expr
	Pos      Pos
}

// Quals collects the qualifiers in front of a declaration.
type Quals struct {
	Layout    []LayoutQual
	Storage   string // "", const, in, out, inout, uniform, buffer, shared, attribute, varying
	ReadOnly  bool
	WriteOnly bool
	Coherent  bool
	Volatile  bool
	Restrict  bool
	Precision string // "", highp, mediump, lowp
	Interp    []string
	Invariant bool
	Precise   bool
	Pos       Pos
}

func (q *Quals) layout(name string) *LayoutQual {
	for i := range q.Layout {
		if q.Layout[i].Name == name {
			return &q.Layout[i]
		}
	}
	return nil
}

// TypeSpec is a type as written: name plus array dimensions (outermost first;
// a nil entry is an unsized dimension).  Struct is set for an inline struct
// specifier.
type TypeSpec struct {
	Name string
	Dims []Expr
	Pos  Pos
}

// Node is any top-level declaration.
type Node interface{ nodePos() Pos }

type StructField struct {
	Type TypeSpec // array dims from the declarator already appended
	Name string
	Pos  Pos
}

type StructDecl struct {
	Name   string
	Fields []StructField
	Pos    Pos
}

type VarDecl struct {
	Quals Quals
	Type  TypeSpec // declarator dims merged in (declarator dims are outermost)
	Name  string
	Init  Expr
	Pos   Pos // position of the name
}

type BlockMember struct {
	Quals Quals
	Type  TypeSpec
	Name  string
	Pos   Pos
}

type BlockDecl struct {
	Quals        Quals
	Name         string
	Members      []BlockMember
	Instance     string
	InstancePos  Pos
	InstanceDims []Expr
	Pos          Pos
}

type Param struct {
	Quals Quals
	Type  TypeSpec
	Name  string
	Pos   Pos
}

type FuncDecl struct {
	Ret    TypeSpec
	Name   string
	Params []Param
	Body   *BlockStmt // nil for a prototype
	Pos    Pos
}

type PrecisionDecl struct {
	Precision string
	Type      string
	Pos       Pos
}

// QualDecl is a declaration consisting of qualifiers only, e.g.
// `layout(local_size_x = 1) in;` or `invariant gl_Position;`.
type QualDecl struct {
	Quals Quals
	Names []string
	Pos   Pos
}

func (d *StructDecl) nodePos() Pos    { return d.Pos }
func (d *VarDecl) nodePos() Pos       { return d.Pos }
func (d *BlockDecl) nodePos() Pos     { return d.Pos }
func (d *FuncDecl) nodePos() Pos      { return d.Pos }
func (d *PrecisionDecl) nodePos() Pos { return d.Pos }
func (d *QualDecl) nodePos() Pos      { return d.Pos }

// ---- statements ------------------------------------------------------------

type Stmt interface{ stmtPos() Pos }

type BlockStmt struct {
	List []Stmt
	Pos  Pos
}
type DeclStmt struct {
	Vars   []*VarDecl
	Struct *StructDecl // local struct declaration (rare)
	Prec   *PrecisionDecl
	Pos    Pos
}
type ExprStmt struct {
	X   Expr
	Pos Pos
}
type IfStmt struct {
	Cond Expr
	Then Stmt
	Else Stmt
	Pos  Pos
}
type SwitchStmt struct {
	Tag  Expr
	Body []Stmt // CaseStmt markers interleaved with statements
	Pos  Pos
}
type CaseStmt struct {
	Default bool
	X       Expr
	Pos     Pos
}
type ForStmt struct {
	Init     Stmt     // DeclStmt, ExprStmt or nil
	Cond     Expr     // nil = true
	CondDecl *VarDecl // `for (; bool b = ...;)` form
	Post     Expr
	Body     Stmt
	Pos      Pos
}
type WhileStmt struct {
	Cond     Expr
	CondDecl *VarDecl
	Body     Stmt
	Pos      Pos
}
type DoStmt struct {
	Body Stmt
	Cond Expr
	Pos  Pos
}
type BreakStmt struct{ Pos Pos }
type ContinueStmt struct{ Pos Pos }
type DiscardStmt struct{ Pos Pos }
type ReturnStmt struct {
	X   Expr
	Pos Pos
}
type EmptyStmt struct{ Pos Pos }

func (s *BlockStmt) stmtPos() Pos    { return s.Pos }
func (s *DeclStmt) stmtPos() Pos     { return s.Pos }
func (s *ExprStmt) stmtPos() Pos     { return s.Pos }
func (s *IfStmt) stmtPos() Pos       { return s.Pos }
func (s *SwitchStmt) stmtPos() Pos   { return s.Pos }
func (s *CaseStmt) stmtPos() Pos     { return s.Pos }
func (s *ForStmt) stmtPos() Pos      { return s.Pos }
func (s *WhileStmt) stmtPos() Pos    { return s.Pos }
func (s *DoStmt) stmtPos() Pos       { return s.Pos }
func (s *BreakStmt) stmtPos() Pos    { return s.Pos }
func (s *ContinueStmt) stmtPos() Pos { return s.Pos }
func (s *DiscardStmt) stmtPos() Pos  { return s.Pos }
func (s *ReturnStmt) stmtPos() Pos   { return s.Pos }
func (s *EmptyStmt) stmtPos() Pos    { return s.Pos }

// ---- expressions -----------------------------------------------------------

type Expr interface{ exprPos() Pos }

type IntLit struct {
	Val      uint32
	Unsigned bool
	Pos      Pos
}
type FloatLit struct {
	Val float32
	Pos Pos
}
type BoolLit struct {
	Val bool
	Pos Pos
}
type Ident struct {
	Name string
	Pos  Pos
}
type BinaryExpr struct {
	Op   string
	L, R Expr
	Pos  Pos // position of the operator
}
type UnaryExpr struct {
	Op  string // + - ! ~ ++ --
	X   Expr
	Pos Pos
}
type PostfixExpr struct {
	Op  string // ++ --
	X   Expr
	Pos Pos
}
type AssignExpr struct {
	Op   string // = += -= ...
	L, R Expr
	Pos  Pos
}
type CondExpr struct {
	Cond, A, B Expr
	Pos        Pos
}
type CommaExpr struct {
	L, R Expr
	Pos  Pos
}

// CallExpr is a function call or a constructor.  For a constructor Ctor is set
// (its Dims describe an array constructor, a nil dim being `[]`).
type CallExpr struct {
	Name string
	Ctor *TypeSpec
	Args []Expr
	Pos  Pos
}
type IndexExpr struct {
	X, I Expr
	Pos  Pos
}
type FieldExpr struct {
	X    Expr
	Name string
	Pos  Pos // position of the field name
}

// MethodExpr is `x.length()`.
type MethodExpr struct {
	X    Expr
	Name string
	Pos  Pos
}

func (e *IntLit) exprPos() Pos      { return e.Pos }
func (e *FloatLit) exprPos() Pos    { return e.Pos }
func (e *BoolLit) exprPos() Pos     { return e.Pos }
func (e *Ident) exprPos() Pos       { return e.Pos }
func (e *BinaryExpr) exprPos() Pos  { return e.Pos }
func (e *UnaryExpr) exprPos() Pos   { return e.Pos }
func (e *PostfixExpr) exprPos() Pos { return e.Pos }
func (e *AssignExpr) exprPos() Pos  { return e.Pos }
func (e *CondExpr) exprPos() Pos    { return e.Pos }
func (e *CommaExpr) exprPos() Pos   { return e.Pos }
func (e *CallExpr) exprPos() Pos    { return e.Pos }
func (e *IndexExpr) exprPos() Pos   { return e.Pos }
func (e *FieldExpr) exprPos() Pos   { return e.Pos }
func (e *MethodExpr) exprPos() Pos  { return e.Pos }

// Unit is a parsed translation unit.
type Unit struct {
	Src        string
	Directives []Directive
	Nodes      []Node

	// Version / profile from the #version line: 430/"core", 310/"es", ...
	Version int
	Profile string
	ES      bool

	// LocalSize is the compute work-group size from layout(local_size_*) in;
	// HasLocalSize tells whether such a declaration was present.
	LocalSize    [3]uint32
	HasLocalSize bool

	// lazily computed by the resolver (Decls, Refs, Problems)
	resolved bool
	decls    []Decl
	refs     []Ref
	problems []string
	sev      []xrt.ScopeEv // declaration / reference event stream (C16, see ScopeEvents)
}
