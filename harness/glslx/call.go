package glslx

import "fmt"

func fmtInt(w uint32, k Kind) string {
	if k == KInt {
		return fmt.Sprintf("%d", int32(w))
	}
	return fmt.Sprintf("%du", w)
}

func (m *machine) call(e *CallExpr) Value {
	if e.Ctor != nil {
		return m.construct(e)
	}
	if fs, ok := m.funcs[e.Name]; ok {
		return m.callUserExpr(e, fs)
	}
	return m.callBuiltin(e)
}

func (m *machine) callUserExpr(e *CallExpr, fs []*FuncDecl) Value {
	var cands []*FuncDecl
	for _, f := range fs {
		if len(f.Params) == len(e.Args) {
			cands = append(cands, f)
		}
	}
	if len(cands) == 0 {
		m.invalidf(e.Pos, "no overload of %s takes %d arguments", e.Name, len(e.Args))
	}
	// evaluate arguments left to right: values for in/inout, references for out/inout
	type argv struct {
		v   Value
		ref *lval
		t   *Type
	}
	// overload choice needs argument types; choose by exact match when there are
	// several candidates, which requires evaluating first with the first candidate's
	// qualifiers.  naga never overloads, so keep this simple: qualifiers are taken
	// from the first candidate and all candidates must agree on them.
	f0 := cands[0]
	for _, c := range cands[1:] {
		for i := range c.Params {
			if c.Params[i].Quals.Storage != f0.Params[i].Quals.Storage {
				m.unsupportedf(e.Pos, "overloads of %s with different parameter qualifiers", e.Name)
			}
		}
	}
	args := make([]argv, len(e.Args))
	for i, a := range e.Args {
		switch f0.Params[i].Quals.Storage {
		case "out":
			r := m.lvalue(a)
			m.checkWritable(r, a.exprPos())
			args[i] = argv{ref: &r, t: r.T}
		case "inout":
			r := m.lvalue(a)
			m.checkWritable(r, a.exprPos())
			args[i] = argv{v: m.load(r, a.exprPos()), ref: &r, t: r.T}
		case "", "in", "const":
			v := m.eval(a)
			args[i] = argv{v: v, t: v.T}
		default:
			m.invalidf(f0.Params[i].Pos, "parameter qualifier %s", f0.Params[i].Quals.Storage)
		}
	}
	var chosen *FuncDecl
	for pass := 0; pass < 2 && chosen == nil; pass++ {
		for _, c := range cands {
			ok := true
			for i, p := range c.Params {
				pt := m.resolveType(p.Type)
				if sameType(pt, args[i].t) {
					continue
				}
				if pass == 1 && sameShape(pt, args[i].t) {
					from, to := args[i].t.base().Kind, pt.base().Kind
					st := p.Quals.Storage
					// in: argument converts to parameter; out: parameter converts to argument
					if (st == "" || st == "in" || st == "const") && m.implicitOK(from, to) {
						continue
					}
					if st == "out" && m.implicitOK(to, from) {
						continue
					}
				}
				ok = false
				break
			}
			if ok {
				chosen = c
				break
			}
		}
	}
	if chosen == nil {
		ts := ""
		for i, a := range args {
			if i > 0 {
				ts += ", "
			}
			ts += a.t.String()
		}
		m.invalidf(e.Pos, "no matching overload for %s(%s)", e.Name, ts)
	}
	if chosen.Body == nil {
		m.invalidf(e.Pos, "function %s is declared but never defined", e.Name)
	}
	vals := make([]Value, len(args))
	refs := make([]*lval, len(args))
	for i, p := range chosen.Params {
		pt := m.resolveType(p.Type)
		if args[i].v.T != nil {
			vals[i] = m.convertImplicit(args[i].v, pt, e.Args[i].exprPos(), "argument "+p.Name+" of "+e.Name)
		}
		if args[i].ref != nil {
			if !sameType(pt, args[i].t) {
				m.unsupportedf(e.Pos, "implicit conversion on an out parameter of %s", e.Name)
			}
			refs[i] = args[i].ref
		}
	}
	return m.callUser(chosen, vals, refs, e.Pos)
}

// ---- constructors ----------------------------------------------------------

func (m *machine) construct(e *CallExpr) Value {
	ts := *e.Ctor
	pos := e.Pos
	if len(ts.Dims) > 0 {
		// array constructor; the outermost dimension may be []
		inner := ts
		inner.Dims = ts.Dims[1:]
		et := m.resolveType(inner)
		n := len(e.Args)
		if ts.Dims[0] != nil {
			n = m.constInt(ts.Dims[0], "array size")
			if n != len(e.Args) {
				m.invalidf(pos, "array constructor %s[%d] given %d arguments", et, n, len(e.Args))
			}
		}
		if n == 0 {
			m.invalidf(pos, "array constructor without arguments")
		}
		at := arrayOf(et, n)
		out := Value{T: at, W: make([]uint32, 0, at.words)}
		for _, a := range e.Args {
			v := m.convertImplicit(m.eval(a), et, a.exprPos(), "array constructor element")
			out.W = append(out.W, v.W...)
		}
		return out
	}
	t := m.resolveTypeName(ts.Name, ts.Pos)
	args := make([]Value, len(e.Args))
	for i, a := range e.Args {
		args[i] = m.eval(a)
	}
	switch t.Kind {
	case KStruct:
		if len(args) != len(t.Fields) {
			m.invalidf(pos, "constructor of struct %s needs %d arguments, got %d", t.Name, len(t.Fields), len(args))
		}
		out := Value{T: t, W: make([]uint32, 0, t.words)}
		for i, f := range t.Fields {
			v := m.convertImplicit(args[i], f.T, e.Args[i].exprPos(), "member "+f.Name+" of "+t.Name)
			out.W = append(out.W, v.W...)
		}
		return out
	case KBool, KInt, KUint, KFloat:
		if len(args) != 1 {
			m.invalidf(pos, "constructor %s needs exactly one argument, got %d", t, len(args))
		}
		a := args[0]
		if !arithShapeOK(a.T) {
			m.invalidf(pos, "constructor %s applied to %s", t, a.T)
		}
		return scalarV(t, m.explicitWord(a.W[0], a.T.base().Kind, t.Kind, pos))
	case KVec:
		bk := t.Elem.Kind
		if len(args) == 0 {
			m.invalidf(pos, "constructor %s without arguments", t)
		}
		out := Value{T: t, W: make([]uint32, t.N)}
		if len(args) == 1 && args[0].T.isScalar() {
			w := m.explicitWord(args[0].W[0], args[0].T.Kind, bk, pos)
			for i := range out.W {
				out.W[i] = w
			}
			return out
		}
		k := 0
		for i, a := range args {
			if !arithShapeOK(a.T) {
				m.invalidf(e.Args[i].exprPos(), "constructor %s given an argument of type %s", t, a.T)
			}
			if k >= t.N {
				m.invalidf(e.Args[i].exprPos(), "constructor %s: too many arguments (argument %d is unused)", t, i+1)
			}
			for _, w := range a.W {
				if k < t.N {
					out.W[k] = m.explicitWord(w, a.T.base().Kind, bk, pos)
					k++
				}
			}
		}
		if k < t.N {
			m.invalidf(pos, "constructor %s: not enough components (%d of %d)", t, k, t.N)
		}
		return out
	case KMat:
		out := Value{T: t, W: make([]uint32, t.words)}
		if len(args) == 0 {
			m.invalidf(pos, "constructor %s without arguments", t)
		}
		if len(args) == 1 && args[0].T.isScalar() {
			w := m.explicitWord(args[0].W[0], args[0].T.Kind, KFloat, pos)
			for c := 0; c < t.Cols; c++ {
				if c < t.Rows {
					out.W[c*t.Rows+c] = w
				}
			}
			return out
		}
		if len(args) == 1 && args[0].T.Kind == KMat {
			s := args[0]
			for c := 0; c < t.Cols; c++ {
				for r := 0; r < t.Rows; r++ {
					switch {
					case c < s.T.Cols && r < s.T.Rows:
						out.W[c*t.Rows+r] = s.W[c*s.T.Rows+r]
					case c == r:
						out.W[c*t.Rows+r] = fbits(1)
					}
				}
			}
			return out
		}
		k := 0
		for i, a := range args {
			if !(a.T.isScalar() || a.T.Kind == KVec) {
				m.invalidf(e.Args[i].exprPos(), "constructor %s given an argument of type %s", t, a.T)
			}
			if k >= t.words {
				m.invalidf(e.Args[i].exprPos(), "constructor %s: too many arguments", t)
			}
			for _, w := range a.W {
				if k >= t.words {
					m.invalidf(e.Args[i].exprPos(), "constructor %s: too many components", t)
				}
				out.W[k] = m.explicitWord(w, a.T.base().Kind, KFloat, pos)
				k++
			}
		}
		if k < t.words {
			m.invalidf(pos, "constructor %s: not enough components (%d of %d)", t, k, t.words)
		}
		return out
	}
	m.unsupportedf(pos, "constructor of type %s", t)
	return Value{}
}
