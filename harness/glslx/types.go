package glslx

import (
	"fmt"
	"strings"
)

// Kind classifies a semantic type.
type Kind int

const (
	KVoid Kind = iota
	KBool
	KInt
	KUint
	KFloat
	KVec
	KMat
	KArray
	KStruct
	KOpaque // samplers, images, doubles, ...: can be declared, not executed
)

// Type is a semantic GLSL type.  Scalars, vectors and matrices are interned
// (pointer equality); arrays and structs are compared with sameType.
type Type struct {
	Kind    Kind
	Elem    *Type // vector: component type; matrix: float; array: element type
	N       int   // vector size; array length (-1 = unsized)
	Cols    int   // matrix columns
	Rows    int   // matrix rows
	Name    string
	Fields  []Field // struct members
	IsBlock bool    // pseudo-struct standing for an interface block instance
	words   int
}

// Field is a struct member.
type Field struct {
	Name string
	T    *Type
	woff int // offset in 32-bit words inside the flattened value
}

var (
	tVoid    = &Type{Kind: KVoid, Name: "void"}
	tBool    = &Type{Kind: KBool, Name: "bool", words: 1}
	tInt     = &Type{Kind: KInt, Name: "int", words: 1}
	tUint    = &Type{Kind: KUint, Name: "uint", words: 1}
	tFloat   = &Type{Kind: KFloat, Name: "float", words: 1}
	vecTypes [4][5]*Type // [scalar kind index][n]
	matTypes [5][5]*Type // [cols][rows]
)

func scalarIdx(k Kind) int {
	switch k {
	case KBool:
		return 0
	case KInt:
		return 1
	case KUint:
		return 2
	default:
		return 3
	}
}

func init() {
	for _, s := range []*Type{tBool, tInt, tUint, tFloat} {
		pre := map[Kind]string{KBool: "bvec", KInt: "ivec", KUint: "uvec", KFloat: "vec"}[s.Kind]
		for n := 2; n <= 4; n++ {
			vecTypes[scalarIdx(s.Kind)][n] = &Type{Kind: KVec, Elem: s, N: n, Name: fmt.Sprintf("%s%d", pre, n), words: n}
		}
	}
	for c := 2; c <= 4; c++ {
		for r := 2; r <= 4; r++ {
			matTypes[c][r] = &Type{Kind: KMat, Elem: tFloat, Cols: c, Rows: r, Name: fmt.Sprintf("mat%dx%d", c, r), words: c * r}
		}
	}
}

func vecOf(s *Type, n int) *Type {
	if n == 1 {
		return s
	}
	return vecTypes[scalarIdx(s.Kind)][n]
}
func matOf(c, r int) *Type { return matTypes[c][r] }

func arrayOf(elem *Type, n int) *Type {
	t := &Type{Kind: KArray, Elem: elem, N: n}
	if n >= 0 {
		t.words = n * elem.words
	}
	return t
}

func (t *Type) isScalar() bool  { return t.Kind >= KBool && t.Kind <= KFloat }
func (t *Type) isNumeric() bool { return t.Kind == KInt || t.Kind == KUint || t.Kind == KFloat }

// base returns the component type of a scalar, vector or matrix.
func (t *Type) base() *Type {
	switch t.Kind {
	case KVec, KMat:
		return t.Elem
	}
	return t
}

// comps is the number of scalar components of a scalar/vector/matrix.
func (t *Type) comps() int {
	switch t.Kind {
	case KVec:
		return t.N
	case KMat:
		return t.Cols * t.Rows
	}
	return 1
}

func (t *Type) String() string {
	switch t.Kind {
	case KArray:
		// GLSL writes the outermost dimension first
		dims := ""
		e := t
		for e.Kind == KArray {
			if e.N < 0 {
				dims += "[]"
			} else {
				dims += fmt.Sprintf("[%d]", e.N)
			}
			e = e.Elem
		}
		return e.String() + dims
	case KMat:
		if t.Cols == t.Rows {
			return fmt.Sprintf("mat%d", t.Cols)
		}
	}
	return t.Name
}

func sameType(a, b *Type) bool {
	if a == b {
		return true
	}
	if a.Kind != b.Kind {
		return false
	}
	switch a.Kind {
	case KArray:
		return a.N == b.N && sameType(a.Elem, b.Elem)
	case KStruct:
		return false // struct types are unique by declaration
	case KOpaque:
		return a.Name == b.Name
	}
	return false
}

// hasOpaque reports whether a type contains something that cannot be executed.
func (t *Type) hasOpaque() bool {
	switch t.Kind {
	case KOpaque:
		return true
	case KArray:
		return t.Elem.hasOpaque()
	case KStruct:
		for _, f := range t.Fields {
			if f.T.hasOpaque() {
				return true
			}
		}
	}
	return false
}

func (t *Type) hasUnsized() bool {
	switch t.Kind {
	case KArray:
		return t.N < 0 || t.Elem.hasUnsized()
	case KStruct:
		for _, f := range t.Fields {
			if f.T.hasUnsized() {
				return true
			}
		}
	}
	return false
}

// ---- std140 / std430 layout -------------------------------------------------

// Packing is the memory layout of an interface block.
type Packing int

const (
	Std140 Packing = iota
	Std430
	PackShared // `shared`/`packed`: implementation defined, not executable
)

func (p Packing) String() string {
	switch p {
	case Std140:
		return "std140"
	case Std430:
		return "std430"
	}
	return "shared"
}

// LNode is the computed byte layout of one object inside an interface block.
// Offsets are relative to the enclosing object (block, struct or array element).
type LNode struct {
	T            *Type
	Offset       int // byte offset relative to the parent
	Align        int // base alignment
	Size         int // bytes consumed, excluding trailing padding of the parent; 0 for an unsized array
	ArrayStride  int // arrays: distance between elements
	MatrixStride int // matrices: distance between columns (rows if RowMajor)
	RowMajor     bool
	Elem         *LNode   // arrays: layout of one element (Offset 0)
	Members      []*LNode // structs
}

func roundUp(x, a int) int {
	if a <= 1 {
		return x
	}
	return (x + a - 1) / a * a
}

// LayoutOf computes the layout of a type under the given packing following
// OpenGL 4.6 section 7.6.2.2 ("Standard Uniform Block Layout") rules 1-10, with
// the std430 relaxations (no rounding up to vec4 alignment in rules 4 and 9).
func LayoutOf(t *Type, pack Packing, rowMajor bool) (*LNode, error) {
	switch t.Kind {
	case KBool, KInt, KUint, KFloat:
		return &LNode{T: t, Align: 4, Size: 4}, nil // rule 1
	case KVec:
		switch t.N {
		case 2:
			return &LNode{T: t, Align: 8, Size: 8}, nil // rule 2
		case 3:
			return &LNode{T: t, Align: 16, Size: 12}, nil // rule 3
		default:
			return &LNode{T: t, Align: 16, Size: 16}, nil // rule 2
		}
	case KMat:
		// rules 5 and 7: an array of C column vectors (R row vectors if row_major)
		// laid out according to rule 4
		vecN, count := t.Rows, t.Cols
		if rowMajor {
			vecN, count = t.Cols, t.Rows
		}
		v, _ := LayoutOf(vecOf(tFloat, vecN), pack, false)
		al := v.Align
		if pack == Std140 {
			al = roundUp(al, 16)
		}
		stride := roundUp(v.Size, al)
		return &LNode{T: t, Align: al, Size: stride * count, MatrixStride: stride, RowMajor: rowMajor}, nil
	case KArray:
		el, err := LayoutOf(t.Elem, pack, rowMajor)
		if err != nil {
			return nil, err
		}
		al := el.Align
		if pack == Std140 {
			al = roundUp(al, 16) // rule 4 (and 6, 8, 10 via the element)
		}
		stride := roundUp(el.Size, al)
		n := &LNode{T: t, Align: al, ArrayStride: stride, Elem: el}
		if t.N >= 0 {
			n.Size = stride * t.N
		}
		return n, nil
	case KStruct:
		n := &LNode{T: t}
		off := 0
		al := 1
		for _, f := range t.Fields {
			m, err := LayoutOf(f.T, pack, rowMajor)
			if err != nil {
				return nil, err
			}
			off = roundUp(off, m.Align)
			m.Offset = off
			off += m.Size
			if m.T.Kind == KStruct || m.T.Kind == KArray {
				// rules 4 and 9: the member following an array / sub-structure starts
				// at the next multiple of that member's base alignment
				off = roundUp(off, m.Align)
			}
			if m.Align > al {
				al = m.Align
			}
			n.Members = append(n.Members, m)
		}
		if pack == Std140 {
			al = roundUp(al, 16) // rule 9
		}
		n.Align = al
		n.Size = roundUp(off, al)
		return n, nil
	}
	return nil, fmt.Errorf("type %s cannot be laid out in a buffer block", t)
}

// ---- public description of blocks ------------------------------------------

// MemberLayout is the public (flattened) description of a block member's layout.
type MemberLayout struct {
	Name         string
	Type         string // GLSL spelling, e.g. "vec3[2]"
	ArraySizes   []int  // outermost first, -1 = unsized
	Offset       int
	Size         int
	Align        int
	ArrayStride  int
	MatrixStride int
	RowMajor     bool
	Layout       *LNode // full tree (nested structs, arrays)
}

// Block describes a `buffer` or `uniform` interface block.
type Block struct {
	Name      string // block name
	Instance  string // instance name ("" if none)
	Storage   string // "buffer" or "uniform"
	Packing   string // "std140", "std430", "shared", "packed"
	Binding   int    // layout(binding=N), -1 if absent
	ReadOnly  bool
	WriteOnly bool
	RowMajor  bool
	Layout    []string // all layout qualifier names as written
	Members   []MemberLayout
	// SlotKeys are the keys looked up in Input.Buffers, in order.
	SlotKeys  []string
	Size      int // static size in bytes (unsized trailing array counted as 0 elements)
	Pos       Pos
	LayoutErr string // non-empty when the layout could not be computed
}

func typeDims(t *Type) []int {
	var d []int
	for t.Kind == KArray {
		d = append(d, t.N)
		t = t.Elem
	}
	return d
}

// slotFromName extracts "<G>.<B>" from `_group_<G>_binding_<B>_...`.
func slotFromName(name string) (string, bool) {
	const p1 = "_group_"
	if !strings.HasPrefix(name, p1) {
		return "", false
	}
	rest := name[len(p1):]
	i := 0
	for i < len(rest) && isDigit(rest[i]) {
		i++
	}
	if i == 0 {
		return "", false
	}
	g := rest[:i]
	rest = rest[i:]
	const p2 = "_binding_"
	if !strings.HasPrefix(rest, p2) {
		return "", false
	}
	rest = rest[len(p2):]
	j := 0
	for j < len(rest) && isDigit(rest[j]) {
		j++
	}
	if j == 0 {
		return "", false
	}
	if j < len(rest) && rest[j] != '_' {
		return "", false
	}
	return trimZeros(g) + "." + trimZeros(rest[:j]), true
}

func trimZeros(s string) string {
	for len(s) > 1 && s[0] == '0' {
		s = s[1:]
	}
	return s
}
