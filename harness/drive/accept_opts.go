package drive

// Option-set catalogue of property C08 (spec/Naga.tla, operator Catalogue).  It extends OptNames with the
// configurations of DESIGN.md appendix C that can influence whether a program is accepted.  The properties that
// decide expressibility (version, ES profile, pipeline constants supplied, restricted capabilities) are mirrored here
// and travel with every recorded call; NagaTrace.tla checks them against the specification's catalogue.

import (
	"fmt"

	"github.com/gogpu/naga/glsl"
	"github.com/gogpu/naga/hlsl"
	"github.com/gogpu/naga/ir"
	"github.com/gogpu/naga/msl"
	"github.com/gogpu/naga/spirv"
)

// AcceptOpt is one named option set with the properties Naga.tla models.
type AcceptOpt struct {
	Name string
	V    int    // version as an integer: SPIR-V 1.3 = 13, SM 5.1 = 51, MSL 2.1 = 21, GLSL 4.30 = 430, ES 3.10 = 310
	ES   bool   // GLSL ES profile
	PC   bool   // pipeline constants are supplied with the call
	Caps string // "all" | "basic" (spirv.Options.CapabilitiesAvailable restricted)
}

func ao(n string, v int) AcceptOpt { return AcceptOpt{Name: n, V: v, Caps: "all"} }
func es(n string, v int) AcceptOpt { return AcceptOpt{Name: n, V: v, ES: true, Caps: "all"} }

// AcceptBackends are the backends property C08 quantifies over.
var AcceptBackends = []string{"spv", "hlsl", "msl", "glsl"}

// AcceptOpts lists the catalogue of a backend (first = default).
func AcceptOpts(backend string) []AcceptOpt {
	switch backend {
	case "spv":
		return []AcceptOpt{ao("default", 11), ao("v1.0", 10), ao("v1.2", 12), ao("v1.3", 13), ao("v1.4", 14), ao("v1.6", 16),
			ao("debug", 11), ao("noloopbound", 11), ao("v1.5debug", 15), ao("onecall", 13), ao("caps", 11), ao("nostorage16", 11),
			ao("bounds_restrict", 11), ao("bounds_rzsw", 13), ao("pointsize_adjust", 11),
			{Name: "capsavail", V: 13, Caps: "basic"}}
	case "hlsl":
		return []AcceptOpt{ao("default", 51), ao("sm50", 50), ao("sm60", 60), ao("sm62", 62), ao("sm66", 66), ao("norestrict", 51),
			ao("noloopbound", 51), ao("nozero", 51), ao("bindmap", 51)}
	case "msl":
		return []AcceptOpt{ao("default", 21), ao("v1.2", 12), ao("v2.0", 20), ao("v2.3", 23), ao("v2.4", 24), ao("v3.0", 30), ao("v3.1", 31),
			ao("restrict", 21), ao("rzsw", 21), ao("unchecked", 21), ao("nozero", 21), ao("noloopbound", 21), ao("fake", 21),
			ao("pointsize", 21), {Name: "pc", V: 21, PC: true, Caps: "all"}}
	case "glsl":
		return []AcceptOpt{ao("330", 330), ao("400", 400), ao("420", 420), ao("430", 430), ao("450", 450), ao("460", 460),
			es("es300", 300), es("es310", 310), es("es320", 320),
			ao("bindmap", 430), ao("bases", 450), ao("flags", 430), es("lowp", 310), ao("bounds", 430),
			{Name: "pc", V: 430, PC: true, Caps: "all"}}
	}
	return nil
}

// RefOpts is the option set a corpus shader's own configuration file asks for (only the fields that can influence
// acceptance are read); zero fields mean "the backend's default".
type RefOpts struct {
	SpvVersion   [2]int
	SpvCaps      []spirv.Capability
	SpvDebug     bool
	MslVersion   [2]int
	MslFake      bool
	GlslVersion  int
	GlslES       bool
	HlslSM       int // 50, 51, 60 ...
	Constants    map[string]float64
	HasConstants bool
}

// RefOpt returns the catalogue-style description of the reference option set of a backend.
func (r *RefOpts) RefOpt(backend string) AcceptOpt {
	o := AcceptOpt{Name: "ref", Caps: "all", PC: r.HasConstants && (backend == "msl" || backend == "glsl")}
	switch backend {
	case "spv":
		o.V = 11
		if r.SpvVersion[0] != 0 {
			o.V = r.SpvVersion[0]*10 + r.SpvVersion[1]
		}
	case "hlsl":
		o.V = 51
		if r.HlslSM != 0 {
			o.V = r.HlslSM
		}
	case "msl":
		o.V = 21
		if r.MslVersion[0] != 0 {
			o.V = r.MslVersion[0]*10 + r.MslVersion[1]
		}
	case "glsl":
		o.V, o.ES = 330, false
		if r.GlslVersion != 0 {
			o.V, o.ES = r.GlslVersion, r.GlslES
		}
	}
	return o
}

var basicCaps = []spirv.Capability{spirv.CapabilityMatrix, spirv.CapabilityShader, spirv.CapabilityImageQuery,
	spirv.CapabilityDerivativeControl, spirv.CapabilitySampleRateShading, spirv.CapabilityImageGatherExtended,
	spirv.CapabilityStorageImageExtendedFormats, spirv.CapabilitySampled1D, spirv.CapabilityImage1D,
	spirv.CapabilitySampledCubeArray, spirv.CapabilityImageCubeArray, spirv.CapabilityClipDistance}

func acceptSpv(opt string, ref *RefOpts) spirv.Options {
	switch opt {
	case "onecall": // exactly what naga.CompileWithOptions(DefaultOptions()) passes
		return spirv.Options{Version: spirv.Version1_3}
	case "v1.2":
		o := spirv.DefaultOptions()
		o.Version = spirv.Version1_2
		return o
	case "caps":
		o := spirv.DefaultOptions()
		o.Capabilities = []spirv.Capability{spirv.CapabilityImageQuery, spirv.CapabilityDerivativeControl, spirv.CapabilitySampleRateShading}
		return o
	case "nostorage16":
		o := spirv.DefaultOptions()
		o.UseStorageInputOutput16 = false
		o.RayQueryInitTracking = false
		return o
	case "bounds_restrict":
		o := spirv.DefaultOptions()
		o.BoundsCheckPolicies = spirv.BoundsCheckPolicies{ImageLoad: spirv.BoundsCheckRestrict, ImageStore: spirv.BoundsCheckRestrict, Index: spirv.BoundsCheckRestrict}
		return o
	case "bounds_rzsw":
		o := spirv.DefaultOptions()
		o.Version = spirv.Version1_3
		o.BoundsCheckPolicies = spirv.BoundsCheckPolicies{ImageLoad: spirv.BoundsCheckReadZeroSkipWrite, ImageStore: spirv.BoundsCheckReadZeroSkipWrite, Index: spirv.BoundsCheckReadZeroSkipWrite}
		return o
	case "pointsize_adjust":
		o := spirv.DefaultOptions()
		o.ForcePointSize = true
		o.AdjustCoordinateSpace = true
		return o
	case "capsavail":
		o := spirv.DefaultOptions()
		o.Version = spirv.Version1_3
		o.CapabilitiesAvailable = map[spirv.Capability]struct{}{}
		for _, c := range basicCaps {
			o.CapabilitiesAvailable[c] = struct{}{}
		}
		return o
	case "ref":
		o := spirv.DefaultOptions()
		if ref != nil {
			if ref.SpvVersion[0] != 0 {
				o.Version = spirv.Version{Major: uint8(ref.SpvVersion[0]), Minor: uint8(ref.SpvVersion[1])}
			}
			o.Capabilities = ref.SpvCaps
			o.Debug = ref.SpvDebug
		}
		return o
	}
	return SpvOptions(opt)
}

func acceptHlsl(opt, entry string, ref *RefOpts) *hlsl.Options {
	o := HlslOptions(opt)
	switch opt {
	case "sm62":
		o.ShaderModel = hlsl.ShaderModel6_2
	case "bindmap":
		// a permuted, sparse map: (g, b) -> space g+1, register 3*b+1
		for g := uint32(0); g < 4; g++ {
			for b := uint32(0); b < 16; b++ {
				o.BindingMap[hlsl.ResourceBinding{Group: g, Binding: b}] = hlsl.BindTarget{Space: uint8(g + 1), Register: 3*b + 1}
			}
		}
	case "ref":
		if ref != nil && ref.HlslSM != 0 {
			sm := map[int]hlsl.ShaderModel{50: hlsl.ShaderModel5_0, 51: hlsl.ShaderModel5_1, 60: hlsl.ShaderModel6_0, 61: hlsl.ShaderModel6_1,
				62: hlsl.ShaderModel6_2, 63: hlsl.ShaderModel6_3, 64: hlsl.ShaderModel6_4, 65: hlsl.ShaderModel6_5, 66: hlsl.ShaderModel6_6, 67: hlsl.ShaderModel6_7}
			if v, ok := sm[ref.HlslSM]; ok {
				o.ShaderModel = v
			}
		}
	}
	o.EntryPoint = entry
	return o
}

func acceptMsl(opt string, consts map[string]float64, ref *RefOpts) msl.Options {
	switch opt {
	case "v2.0":
		o := msl.DefaultOptions()
		o.LangVersion = msl.Version2_0
		return o
	case "v2.3":
		o := msl.DefaultOptions()
		o.LangVersion = msl.Version2_3
		return o
	case "v3.0":
		o := msl.DefaultOptions()
		o.LangVersion = msl.Version3_0
		return o
	case "pointsize":
		o := msl.DefaultOptions()
		o.AllowAndForcePointSize = true
		return o
	case "pc":
		o := msl.DefaultOptions()
		o.PipelineConstants = map[string]float64{}
		for k, v := range consts {
			o.PipelineConstants[k] = v
		}
		return o
	case "ref":
		o := msl.DefaultOptions()
		if ref != nil {
			if ref.MslVersion[0] != 0 {
				o.LangVersion = msl.Version{Major: uint8(ref.MslVersion[0]), Minor: uint8(ref.MslVersion[1])}
			}
			o.FakeMissingBindings = ref.MslFake
			if ref.HasConstants {
				o.PipelineConstants = map[string]float64{}
				for k, v := range ref.Constants {
					o.PipelineConstants[k] = v
				}
			}
		}
		return o
	}
	return MslOptions(opt)
}

func acceptGlsl(opt, entry string, consts map[string]float64, ref *RefOpts) glsl.Options {
	o := glsl.DefaultOptions()
	o.EntryPoint = entry
	switch opt {
	case "400":
		o.LangVersion = glsl.Version400
	case "420":
		o.LangVersion = glsl.Version420
	case "bindmap":
		o.LangVersion = glsl.Version430
		o.BindingMap = map[glsl.BindingMapKey]uint8{}
		for g := uint32(0); g < 4; g++ {
			for b := uint32(0); b < 16; b++ {
				o.BindingMap[glsl.BindingMapKey{Group: g, Binding: b}] = uint8(g*16 + (15 - b))
			}
		}
	case "bases":
		o.LangVersion = glsl.Version450
		o.SamplerBindingBase, o.TextureBindingBase, o.UniformBindingBase, o.StorageBindingBase = 8, 16, 24, 32
	case "flags":
		o.LangVersion = glsl.Version430
		o.WriterFlags = glsl.WriterFlagAdjustCoordinateSpace | glsl.WriterFlagForcePointSize | glsl.WriterFlagTextureShadowLod | glsl.WriterFlagDebugInfo
	case "lowp":
		o.LangVersion = glsl.VersionES310
		o.ForceHighPrecision = false
	case "bounds":
		o.LangVersion = glsl.Version430
		o.BoundsCheckPolicies = glsl.BoundsCheckPolicies{ImageLoad: glsl.BoundsCheckRestrict, ImageStore: glsl.BoundsCheckReadZeroSkipWrite}
	case "pc":
		o.LangVersion = glsl.Version430
		o.PipelineConstants = ir.PipelineConstants{}
		for k, v := range consts {
			o.PipelineConstants[k] = v
		}
	case "ref":
		if ref != nil {
			if ref.GlslVersion != 0 {
				o.LangVersion = glsl.Version{Major: uint8(ref.GlslVersion / 100), Minor: uint8(ref.GlslVersion % 100), ES: ref.GlslES}
			}
			if ref.HasConstants {
				o.PipelineConstants = ir.PipelineConstants{}
				for k, v := range ref.Constants {
					o.PipelineConstants[k] = v
				}
			}
		}
	default:
		return GlslOptions(opt, entry)
	}
	return o
}

// AcceptCompile runs one backend under a catalogue option set.  entry = "*" translates the whole module (spv, hlsl,
// msl); otherwise the named entry point is selected (glsl always needs one).  consts are the pipeline constants of
// the program (option sets with PC).  Panics are returned as errors whose text starts with "panic:".
func AcceptCompile(backend, opt string, m *ir.Module, entry string, stage ir.ShaderStage, consts map[string]float64, ref *RefOpts) (out []byte, err error) {
	defer func() {
		if r := recover(); r != nil {
			out, err = nil, fmt.Errorf("panic: %v", r)
		}
	}()
	switch backend {
	case "spv":
		return spirv.NewBackend(acceptSpv(opt, ref)).Compile(m)
	case "hlsl":
		e := entry
		if e == "*" {
			e = ""
		}
		s, _, err := hlsl.Compile(m, acceptHlsl(opt, e, ref))
		return []byte(s), err
	case "msl":
		po := msl.PipelineOptions{}
		if entry != "*" {
			po.EntryPoint = &msl.EntryPointSelector{Stage: stage, Name: entry}
		}
		s, _, err := msl.CompileWithPipeline(m, acceptMsl(opt, consts, ref), po)
		return []byte(s), err
	case "glsl":
		s, _, err := glsl.Compile(m, acceptGlsl(opt, entry, consts, ref))
		return []byte(s), err
	}
	return nil, fmt.Errorf("unknown backend %q", backend)
}
