package drive

import (
	"fmt"

	"github.com/gogpu/naga/dxil"
	"github.com/gogpu/naga/glsl"
	"github.com/gogpu/naga/hlsl"
	"github.com/gogpu/naga/ir"
	"github.com/gogpu/naga/msl"
	"github.com/gogpu/naga/spirv"
)

// Backends lists the backend names.
var Backends = []string{"spv", "hlsl", "msl", "glsl", "dxil"}

// OptNames lists the option-set names of a backend (DESIGN.md appendix C); the
// first is the default.  meaningPreserving selects only those that must not
// change what the program computes.
func OptNames(backend string) []string {
	switch backend {
	case "spv":
		return []string{"default", "v1.0", "v1.3", "v1.4", "v1.6", "debug", "noloopbound", "v1.5debug"}
	case "hlsl":
		return []string{"default", "sm50", "sm60", "sm66", "norestrict", "noloopbound", "nozero"}
	case "msl":
		return []string{"default", "v1.2", "v2.4", "v3.1", "restrict", "rzsw", "nozero", "noloopbound", "fake"}
	case "glsl":
		return []string{"430", "450", "460", "es310", "es320"}
	case "dxil":
		return []string{"default", "sm66", "bypass"}
	}
	return nil
}

// SpvOptions returns the spirv.Options of a named option set.
func SpvOptions(opt string) spirv.Options {
	o := spirv.DefaultOptions()
	switch opt {
	case "v1.0":
		o.Version = spirv.Version1_0
	case "v1.3":
		o.Version = spirv.Version1_3
	case "v1.4":
		o.Version = spirv.Version1_4
	case "v1.6":
		o.Version = spirv.Version1_6
	case "debug":
		o.Debug = true
	case "noloopbound":
		o.ForceLoopBounding = false
	case "v1.5debug":
		o.Version = spirv.Version1_5
		o.Debug = true
		o.ForceLoopBounding = false
	}
	return o
}

// HlslOptions returns the hlsl.Options of a named option set.
func HlslOptions(opt string) *hlsl.Options {
	o := hlsl.DefaultOptions()
	switch opt {
	case "sm50":
		o.ShaderModel = hlsl.ShaderModel5_0
	case "sm60":
		o.ShaderModel = hlsl.ShaderModel6_0
	case "sm66":
		o.ShaderModel = hlsl.ShaderModel6_6
	case "norestrict":
		o.RestrictIndexing = false
	case "noloopbound":
		o.ForceLoopBounding = false
	case "nozero":
		o.ZeroInitializeWorkgroupMemory = false
	}
	return o
}

// MslOptions returns the msl.Options of a named option set.
func MslOptions(opt string) msl.Options {
	o := msl.DefaultOptions()
	switch opt {
	case "fake":
		o.FakeMissingBindings = true
	case "pc":
		o.PipelineConstants = map[string]float64{"scale": 5, "0": 3, "gain": 2}
	case "v1.2":
		o.LangVersion = msl.Version1_2
	case "v2.4":
		o.LangVersion = msl.Version2_4
	case "v3.1":
		o.LangVersion = msl.Version3_1
	case "restrict":
		o.BoundsCheckPolicies.Index = msl.BoundsCheckRestrict
		o.BoundsCheckPolicies.Buffer = msl.BoundsCheckRestrict
	case "rzsw":
		o.BoundsCheckPolicies.Index = msl.BoundsCheckReadZeroSkipWrite
		o.BoundsCheckPolicies.Buffer = msl.BoundsCheckReadZeroSkipWrite
	case "unchecked":
		o.BoundsCheckPolicies.Index = msl.BoundsCheckUnchecked
		o.BoundsCheckPolicies.Buffer = msl.BoundsCheckUnchecked
	case "nozero":
		o.ZeroInitializeWorkgroupMemory = false
	case "noloopbound":
		o.ForceLoopBounding = false
	}
	return o
}

// GlslOptions returns the glsl.Options of a named option set for one entry point.
func GlslOptions(opt, entry string) glsl.Options {
	o := glsl.DefaultOptions()
	o.EntryPoint = entry
	switch opt {
	case "430":
		o.LangVersion = glsl.Version430
	case "450":
		o.LangVersion = glsl.Version450
	case "460":
		o.LangVersion = glsl.Version460
	case "es310":
		o.LangVersion = glsl.VersionES310
	case "es320":
		o.LangVersion = glsl.VersionES320
	case "330":
		o.LangVersion = glsl.Version330
	case "es300":
		o.LangVersion = glsl.VersionES300
	case "pc":
		o.LangVersion = glsl.Version430
		o.PipelineConstants = ir.PipelineConstants{"scale": 5, "0": 3, "gain": 2}
	}
	return o
}

// DxilOptions returns the dxil.Options of a named option set.
func DxilOptions(opt string) dxil.Options {
	o := dxil.DefaultOptions()
	switch opt {
	case "sm66":
		o.ShaderModel = dxil.SM6_6
	case "bypass":
		o.UseBypassHash = true
	}
	return o
}

// Compile runs one backend on a module.  For glsl, entry selects the entry
// point; the other backends translate the whole module.  Panics are returned
// as errors whose text starts with "panic:".
func Compile(backend, opt string, m *ir.Module, entry string) (out []byte, err error) {
	defer func() {
		if r := recover(); r != nil {
			out, err = nil, fmt.Errorf("panic: %v", r)
		}
	}()
	switch backend {
	case "spv":
		return spirv.NewBackend(SpvOptions(opt)).Compile(m)
	case "hlsl":
		s, _, err := hlsl.Compile(m, HlslOptions(opt))
		return []byte(s), err
	case "msl":
		s, _, err := msl.Compile(m, MslOptions(opt))
		return []byte(s), err
	case "glsl":
		s, _, err := glsl.Compile(m, GlslOptions(opt, entry))
		return []byte(s), err
	case "dxil":
		return dxil.Compile(m, DxilOptions(opt))
	}
	return nil, fmt.Errorf("unknown backend %q", backend)
}
