// Package drive calls gogpu/naga's public API (the code under test).
package drive

import (
	"fmt"

	"github.com/gogpu/naga"
	"github.com/gogpu/naga/ir"
)

// Front runs tokenize+parse and lowering.  stage is "" on success, else "parse" or "lower".
func Front(src string) (m *ir.Module, stage string, err error) {
	defer func() {
		if r := recover(); r != nil {
			m, stage, err = nil, "panic", fmt.Errorf("panic: %v", r)
		}
	}()
	ast, err := naga.Parse(src)
	if err != nil {
		return nil, "parse", err
	}
	m, err = naga.LowerWithSource(ast, src)
	if err != nil {
		return nil, "lower", err
	}
	return m, "", nil
}

// FindType returns the handle of the named type.
func FindType(m *ir.Module, name string) (ir.TypeHandle, bool) {
	for i, t := range m.Types {
		if t.Name == name {
			return ir.TypeHandle(i), true
		}
	}
	return 0, false
}
