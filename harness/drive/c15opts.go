package drive

// Protective option sets of the backends (property C15).  The names are the policy combinations of spec/Policy.tla
// (PolTable / OptPolicy): the first letter is the buffer policy, the second the index policy.
//
//	spv   "UU"  defaults: integer div/mod wrappers, workgroup zero-initialisation polyfill (no option switches them)
//	      "RR"  + BoundsCheckPolicies.Index = Restrict        "ZZ"  + Index = ReadZeroSkipWrite
//	hlsl  "HR"  defaults (RestrictIndexing, ZeroInitializeWorkgroupMemory) + a binding map that sets
//	            BindTarget.RestrictIndexing on every uniform buffer (the per-binding switch needsRestrictIndexing reads)
//	msl   "RR" "ZZ" "RZ" "ZR"  BoundsCheckPolicies{Buffer, Index} = Restrict / ReadZeroSkipWrite; zero-init on
//	      "UU"  both Unchecked
//	glsl  "UU"  version 430 (the backend has no index policy and no zero-init switch; zero-init is unconditional)

import (
	"fmt"

	"github.com/gogpu/naga/glsl"
	"github.com/gogpu/naga/hlsl"
	"github.com/gogpu/naga/ir"
	"github.com/gogpu/naga/msl"
	"github.com/gogpu/naga/spirv"
)

// ProtectiveOpts lists the protective option sets of a backend; the first is the one used for the operator and
// zero-initialisation families.
func ProtectiveOpts(backend string) []string {
	switch backend {
	case "spv":
		return []string{"UU", "RR", "ZZ"}
	case "hlsl":
		return []string{"HR"}
	case "msl":
		return []string{"RR", "ZZ", "RZ", "ZR"}
	case "glsl":
		return []string{"UU"}
	}
	return nil
}

func mslPolicy(c byte) msl.BoundsCheckPolicy {
	switch c {
	case 'R':
		return msl.BoundsCheckRestrict
	case 'Z':
		return msl.BoundsCheckReadZeroSkipWrite
	}
	return msl.BoundsCheckUnchecked
}

// CompileProtective compiles m with the protective option set `pol` of the backend.
func CompileProtective(backend, pol string, m *ir.Module, entry string) (out []byte, err error) {
	defer func() {
		if r := recover(); r != nil {
			out, err = nil, fmt.Errorf("panic: %v", r)
		}
	}()
	if len(pol) != 2 {
		return nil, fmt.Errorf("bad policy name %q", pol)
	}
	switch backend {
	case "spv":
		o := spirv.DefaultOptions()
		switch pol {
		case "RR":
			o.BoundsCheckPolicies.Index = spirv.BoundsCheckRestrict
		case "ZZ":
			o.BoundsCheckPolicies.Index = spirv.BoundsCheckReadZeroSkipWrite
		case "UU":
		default:
			return nil, fmt.Errorf("spv has no option set %q", pol)
		}
		return spirv.NewBackend(o).Compile(m)
	case "hlsl":
		if pol != "HR" {
			return nil, fmt.Errorf("hlsl has no option set %q", pol)
		}
		o := hlsl.DefaultOptions()
		o.RestrictIndexing = true
		o.ZeroInitializeWorkgroupMemory = true
		for _, gv := range m.GlobalVariables {
			if gv.Binding == nil {
				continue
			}
			bt := hlsl.BindTarget{Space: uint8(gv.Binding.Group), Register: gv.Binding.Binding}
			if gv.Space == ir.SpaceUniform {
				bt.RestrictIndexing = true
			}
			o.BindingMap[hlsl.ResourceBinding{Group: gv.Binding.Group, Binding: gv.Binding.Binding}] = bt
		}
		s, _, err := hlsl.Compile(m, o)
		return []byte(s), err
	case "msl":
		o := msl.DefaultOptions()
		o.ZeroInitializeWorkgroupMemory = true
		o.BoundsCheckPolicies.Buffer = mslPolicy(pol[0])
		o.BoundsCheckPolicies.Index = mslPolicy(pol[1])
		s, _, err := msl.Compile(m, o)
		return []byte(s), err
	case "glsl":
		if pol != "UU" {
			return nil, fmt.Errorf("glsl has no option set %q", pol)
		}
		o := glsl.DefaultOptions()
		o.EntryPoint = entry
		o.LangVersion = glsl.Version430
		s, _, err := glsl.Compile(m, o)
		return []byte(s), err
	}
	return nil, fmt.Errorf("unknown backend %q", backend)
}
