package dxbc

import (
	"fmt"
	"math"
)

// LLVM 3.7 bitcode block ids (LLVMBitCodes.h).
const (
	blkModule       = 8
	blkParamAttr    = 9
	blkParamAttrGrp = 10
	blkConstants    = 11
	blkFunction     = 12
	blkValueSymtab  = 14
	blkMetadata     = 15
	blkMetadataAtt  = 16
	blkTypeNew      = 17
	blkUseList      = 18
)

// BlockName gives a readable name for the LLVM 3.7 block ids.
func BlockName(id uint32) string {
	switch id {
	case BlockInfoID:
		return "BLOCKINFO"
	case blkModule:
		return "MODULE"
	case blkParamAttr:
		return "PARAMATTR"
	case blkParamAttrGrp:
		return "PARAMATTR_GROUP"
	case blkConstants:
		return "CONSTANTS"
	case blkFunction:
		return "FUNCTION"
	case blkValueSymtab:
		return "VALUE_SYMTAB"
	case blkMetadata:
		return "METADATA"
	case blkMetadataAtt:
		return "METADATA_ATTACHMENT"
	case blkTypeNew:
		return "TYPE_NEW"
	case blkUseList:
		return "USELIST"
	}
	return fmt.Sprintf("BLOCK%d", id)
}

type irType struct {
	kind      string
	width     uint64
	elem      int
	addrspace uint64
	count     uint64
	ret       int
	params    []int
	elems     []int
	vararg    bool
	packed    bool
	name      string
}

type irVal struct {
	kind   string // global, func, alias, arg, const, inst
	ty     int    // type index of the value, -1 when unknown
	ckind  string
	ival   int64
	hasInt bool
	fnTy   int // for functions: resolved function type index or -1
	isDecl bool
}

type irMD struct {
	kind string // string, value, node, distinct_node, location, old_node, other
	str  string
	ty   int
	val  int
	ops  []int // decoded operand node indices, -1 = null
}

type irNamed struct {
	name string
	ops  []int
}

type irDecoder struct {
	s    *sink
	part string

	types    []*irType
	synth    []*irType // types that values have but the type table lacks
	numEntry uint64
	haveNum  bool
	vals     []irVal
	mds      []irMD
	named    []irNamed
	names    map[int]string

	version  uint64
	relative bool
	eqBudget int

	bodies    []int // value indices of functions with a body, in declaration order
	nextBody  int
	nGlobals  int
	nFuncs    int
	nAliases  int
	nBodies   int
	nErrors   int
	moduleBit uint64
}

func (d *irDecoder) errAt(at uint64, format string, a ...any) {
	d.nErrors++
	d.s.err("ir", d.part, at, fmt.Sprintf(format, a...))
}

// irEvents runs the semantic pass over every MODULE block of the tree.
func irEvents(s *sink, part string, root *Block) {
	if root == nil {
		return
	}
	for _, it := range root.Items {
		if it.Sub != nil && it.Sub.ID == blkModule {
			d := &irDecoder{s: s, part: part, names: map[int]string{}}
			d.module(it.Sub)
		}
	}
}

// synthBase is the internal index space of synthetic types: types that some
// value provably has (e.g. the pointer type of a global declared with an
// explicit value type) although the TYPE table has no entry for them. LLVM's
// reader builds such types on demand, so their absence is legal; tracking them
// keeps result-type propagation going. Events render them as -2.
const synthBase = 1 << 30

func (d *irDecoder) typeOK(i int) bool { return i >= 0 && i < len(d.types) }

func (d *irDecoder) typ(i int) *irType {
	if d.typeOK(i) {
		return d.types[i]
	}
	if i >= synthBase && i-synthBase < len(d.synth) {
		return d.synth[i-synthBase]
	}
	return nil
}

// tyOut renders an internal type index for an event: real index, -1 unknown,
// -2 synthetic (not present in the type table).
func tyOut(i int) int {
	if i >= synthBase {
		return -2
	}
	return i
}

func (d *irDecoder) findType(pred func(*irType) bool) int {
	for i, t := range d.types {
		if pred(t) {
			return i
		}
	}
	for i, t := range d.synth {
		if pred(t) {
			return synthBase + i
		}
	}
	return -1
}

func (d *irDecoder) findOrSynth(pred func(*irType) bool, mk func() *irType) int {
	if i := d.findType(pred); i >= 0 {
		return i
	}
	d.synth = append(d.synth, mk())
	return synthBase + len(d.synth) - 1
}

func (d *irDecoder) findPtr(elem int, as uint64) int {
	if d.typ(elem) == nil {
		return -1
	}
	return d.findOrSynth(func(t *irType) bool { return t.kind == "pointer" && t.elem == elem && t.addrspace == as },
		func() *irType { return &irType{kind: "pointer", elem: elem, addrspace: as, ret: -1} })
}

func (d *irDecoder) findInt(width uint64) int {
	return d.findOrSynth(func(t *irType) bool { return t.kind == "int" && t.width == width },
		func() *irType { return &irType{kind: "int", width: width, elem: -1, ret: -1} })
}

func (d *irDecoder) findVec(count uint64, elem int) int {
	if d.typ(elem) == nil {
		return -1
	}
	return d.findOrSynth(func(t *irType) bool { return t.kind == "vector" && t.count == count && t.elem == elem },
		func() *irType { return &irType{kind: "vector", count: count, elem: elem, ret: -1} })
}

func (d *irDecoder) findStruct2(a, b int) int {
	if d.typ(a) == nil || d.typ(b) == nil {
		return -1
	}
	return d.findOrSynth(func(t *irType) bool {
		return t.kind == "struct" && t.name == "" && len(t.elems) == 2 && t.elems[0] == a && t.elems[1] == b
	}, func() *irType { return &irType{kind: "struct", elems: []int{a, b}, elem: -1, ret: -1} })
}

func (d *irDecoder) valType(v int) int {
	if v >= 0 && v < len(d.vals) {
		return d.vals[v].ty
	}
	return -1
}

// tyArg reads operand i as a type/value index. Indices at or above synthBase
// cannot be real (the stream would need 2^30 records) and are rejected so they
// can never alias the synthetic index space.
func tyArg(r *Record, i int) (int, bool) {
	if i >= len(r.Ops) || r.Ops[i] >= synthBase {
		return -1, false
	}
	return int(r.Ops[i]), true
}

func raw32(r *Record, i int) int {
	if i >= len(r.Ops) {
		return -1
	}
	if fitsInt32(r.Ops[i]) {
		return int(r.Ops[i])
	}
	return -1
}

// ---- module ------------------------------------------------------------------

func (d *irDecoder) module(b *Block) {
	d.moduleBit = b.StartBit
	d.s.add("ir_module_begin", "part", d.part, "bit", fit32(b.StartBit), "closed", b.Closed)
	// Pre-pass: module-level value names, so calls can be annotated with the
	// callee name regardless of whether the VST precedes the function bodies.
	for _, it := range b.Items {
		if it.Sub != nil && it.Sub.ID == blkValueSymtab {
			for _, e := range it.Sub.Items {
				if e.Rec != nil && (e.Rec.Code == 1 || e.Rec.Code == 3) && len(e.Rec.Ops) >= 1 && fitsInt32(e.Rec.Ops[0]) {
					skip := 1
					if e.Rec.Code == 3 {
						skip = 2
					}
					if len(e.Rec.Ops) >= skip {
						d.names[int(e.Rec.Ops[0])] = opsString(e.Rec.Ops[skip:])
					}
				}
			}
		}
	}
	for _, it := range b.Items {
		switch {
		case it.Rec != nil:
			d.moduleRecord(it.Rec)
		case it.Sub != nil:
			sb := it.Sub
			switch sb.ID {
			case blkTypeNew:
				d.typeTable(sb)
			case blkParamAttrGrp, blkParamAttr:
				d.attrs(sb)
			case blkConstants:
				d.constants(sb, -1)
			case blkMetadata:
				d.metadata(sb, -1)
			case blkValueSymtab:
				d.vst(sb, -1)
			case blkFunction:
				d.function(sb)
			case BlockInfoID:
			default:
				d.s.add("ir_unknown_block", "id", s32(sb.ID), "bit", fit32(sb.StartBit), "scope", "module")
			}
		}
	}
	defined := 0
	for _, v := range d.vals {
		if v.kind == "func" && !v.isDecl {
			defined++
		}
	}
	d.dxSemantics()
	d.s.add("ir_module_end", "part", d.part, "types", len(d.types), "globals", d.nGlobals, "functions", d.nFuncs,
		"aliases", d.nAliases, "defined_functions", defined, "bodies", d.nBodies, "bodies_match", defined == d.nBodies,
		"module_values", len(d.vals), "md_nodes", len(d.mds), "named_md", len(d.named), "errors", d.nErrors)
}

func (d *irDecoder) moduleRecord(r *Record) {
	switch r.Code {
	case 1:
		v := uint64(0)
		if len(r.Ops) > 0 {
			v = r.Ops[0]
		}
		d.version = v
		d.relative = v >= 1
		d.s.add("ir_version", "version", fit32(v), "relative_ids", d.relative, "nops", len(r.Ops), "known", v <= 1)
	case 2:
		d.s.add("ir_triple", "str", opsString(r.Ops))
	case 3:
		d.s.add("ir_datalayout", "str", opsString(r.Ops))
	case 4, 5, 6, 11:
		d.s.add("ir_module_str", "code", int(r.Code), "str", opsString(r.Ops))
	case 7:
		d.globalVar(r)
	case 8:
		d.funcDecl(r)
	case 9, 14:
		idx := len(d.vals)
		ty, _ := tyArg(r, 0)
		d.vals = append(d.vals, irVal{kind: "alias", ty: ty, fnTy: -1})
		d.nAliases++
		ops, wide := opsPrefix(r.Ops, 16)
		d.s.add("ir_alias", "value", idx, "ty", ty, "ty_in_range", d.typeOK(ty), "ops", ops, "wide", wide)
	default:
		ops, wide := opsPrefix(r.Ops, 16)
		d.s.add("ir_module_record", "code", fit32(r.Code), "nops", len(r.Ops), "ops", ops, "wide", wide, "bit", fit32(r.BitPos))
	}
}

func (d *irDecoder) globalVar(r *Record) {
	idx := len(d.vals)
	ops, wide := opsPrefix(r.Ops, 16)
	e := d.s.add("ir_global", "value", idx, "nops", len(r.Ops), "ops", ops, "wide", wide, "bit", fit32(r.BitPos), "name", d.names[idx])
	v := irVal{kind: "global", ty: -1, fnTy: -1}
	if len(r.Ops) < 6 {
		d.vals = append(d.vals, v)
		d.nGlobals++
		d.errAt(r.BitPos, "MODULE_CODE_GLOBALVAR with %d operands, need at least 6", len(r.Ops))
		return
	}
	ty, _ := tyArg(r, 0)
	flags := r.Ops[1]
	explicit := flags&2 != 0
	as := uint64(0)
	valueTy := ty
	if explicit {
		as = flags >> 2
		valueTy = d.findPtr(ty, as)
	} else if t := d.typ(ty); t != nil && t.kind == "pointer" {
		as = t.addrspace
	}
	v.ty = valueTy
	init := -1
	if r.Ops[2] > 0 && fitsInt32(r.Ops[2]) {
		init = int(r.Ops[2] - 1)
	}
	v.isDecl = r.Ops[2] == 0
	e["ty"] = ty
	e["ty_in_range"] = d.typeOK(ty)
	e["explicit_type"] = explicit
	e["is_const"] = flags&1 != 0
	e["addrspace"] = fit32(as)
	e["value_ty"] = tyOut(valueTy)
	e["init"] = init
	e["is_decl"] = v.isDecl
	e["linkage"] = raw32(r, 3)
	e["align"] = raw32(r, 4)
	e["section"] = raw32(r, 5)
	d.vals = append(d.vals, v)
	d.nGlobals++
}

func (d *irDecoder) funcDecl(r *Record) {
	idx := len(d.vals)
	ops, wide := opsPrefix(r.Ops, 16)
	e := d.s.add("ir_function", "value", idx, "nops", len(r.Ops), "ops", ops, "wide", wide, "bit", fit32(r.BitPos), "name", d.names[idx])
	v := irVal{kind: "func", ty: -1, fnTy: -1, isDecl: true}
	if len(r.Ops) < 8 {
		d.vals = append(d.vals, v)
		d.nFuncs++
		d.errAt(r.BitPos, "MODULE_CODE_FUNCTION with %d operands, need at least 8", len(r.Ops))
		return
	}
	ty, _ := tyArg(r, 0)
	fnTy := ty
	viaPtr := false
	if t := d.typ(ty); t != nil && t.kind == "pointer" {
		fnTy = t.elem
		viaPtr = true
		v.ty = ty
	} else {
		v.ty = d.findPtr(ty, 0)
	}
	ft := d.typ(fnTy)
	if ft == nil || ft.kind != "function" {
		fnTy = -1
	}
	v.fnTy = fnTy
	v.isDecl = r.Ops[2] != 0
	e["ty"] = ty
	e["ty_in_range"] = d.typeOK(ty)
	e["ty_via_pointer"] = viaPtr
	e["fn_ty"] = fnTy
	e["value_ty"] = tyOut(v.ty)
	e["cc"] = raw32(r, 1)
	e["is_decl"] = v.isDecl
	e["linkage"] = raw32(r, 3)
	e["paramattr"] = raw32(r, 4)
	e["align"] = raw32(r, 5)
	e["section"] = raw32(r, 6)
	e["visibility"] = raw32(r, 7)
	if fnTy >= 0 {
		e["nparams"] = len(d.types[fnTy].params)
		e["ret_ty"] = d.types[fnTy].ret
	}
	d.vals = append(d.vals, v)
	d.nFuncs++
	if !v.isDecl {
		d.bodies = append(d.bodies, idx)
	}
}

// ---- attributes ----------------------------------------------------------------

func (d *irDecoder) attrs(b *Block) {
	n := 0
	for _, it := range b.Items {
		if it.Rec == nil {
			continue
		}
		r := it.Rec
		ops, wide := opsPrefix(r.Ops, 16)
		if b.ID == blkParamAttrGrp {
			d.s.add("ir_attr_group", "code", fit32(r.Code), "id", raw32(r, 0), "slot", s32(uint32(opOr0(r, 1))), "nops", len(r.Ops), "ops", ops, "wide", wide)
		} else {
			n++
			d.s.add("ir_attr_set", "code", fit32(r.Code), "index", n, "groups", ops, "nops", len(r.Ops), "wide", wide)
		}
	}
}

func opOr0(r *Record, i int) uint64 {
	if i < len(r.Ops) {
		return r.Ops[i]
	}
	return 0
}

// ---- types ---------------------------------------------------------------------

func (d *irDecoder) typeTable(b *Block) {
	pendingName := ""
	havePending := false
	for _, it := range b.Items {
		if it.Rec == nil {
			if it.Sub != nil {
				d.s.add("ir_unknown_block", "id", s32(it.Sub.ID), "bit", fit32(it.Sub.StartBit), "scope", "types")
			}
			continue
		}
		r := it.Rec
		if r.Code == 1 { // NUMENTRY
			d.numEntry, d.haveNum = opOr0(r, 0), true
			d.s.add("ir_type_numentry", "n", fit32(d.numEntry), "nops", len(r.Ops))
			continue
		}
		if r.Code == 19 { // STRUCT_NAME
			pendingName, havePending = opsString(r.Ops), true
			d.s.add("ir_type_name", "name", pendingName, "for_idx", len(d.types))
			continue
		}
		idx := len(d.types)
		t := &irType{elem: -1, ret: -1}
		var refs []int
		ref := func(i int) int {
			v, ok := tyArg(r, i)
			if !ok {
				v = -1
				if i < len(r.Ops) {
					v = math.MaxInt32
				}
			}
			refs = append(refs, v)
			return v
		}
		short := false
		need := func(n int) bool {
			if len(r.Ops) < n {
				short = true
				return false
			}
			return true
		}
		switch r.Code {
		case 2:
			t.kind = "void"
		case 3:
			t.kind = "float"
		case 4:
			t.kind = "double"
		case 5:
			t.kind = "label"
		case 6:
			t.kind = "opaque"
			if havePending {
				t.name, havePending = pendingName, false
			}
		case 7:
			t.kind = "int"
			if need(1) {
				t.width = r.Ops[0]
			}
		case 8:
			t.kind = "pointer"
			if need(1) {
				t.elem = ref(0)
				t.addrspace = opOr0(r, 1)
			}
		case 9:
			t.kind = "function"
			if need(3) {
				t.vararg = r.Ops[0] != 0
				t.ret = ref(2)
				for i := 3; i < len(r.Ops); i++ {
					t.params = append(t.params, ref(i))
				}
			}
		case 10:
			t.kind = "half"
		case 11, 12:
			t.kind = "array"
			if r.Code == 12 {
				t.kind = "vector"
			}
			if need(2) {
				t.count = r.Ops[0]
				t.elem = ref(1)
			}
		case 13:
			t.kind = "x86_fp80"
		case 14:
			t.kind = "fp128"
		case 15:
			t.kind = "ppc_fp128"
		case 16:
			t.kind = "metadata"
		case 17:
			t.kind = "x86_mmx"
		case 18, 20:
			t.kind = "struct"
			if need(1) {
				t.packed = r.Ops[0] != 0
				for i := 1; i < len(r.Ops); i++ {
					t.elems = append(t.elems, ref(i))
				}
			}
			if r.Code == 20 && havePending {
				t.name, havePending = pendingName, false
			}
		case 21:
			t.kind = "function"
			if need(2) {
				t.vararg = r.Ops[0] != 0
				t.ret = ref(1)
				for i := 2; i < len(r.Ops); i++ {
					t.params = append(t.params, ref(i))
				}
			}
		case 22:
			t.kind = "token"
		default:
			t.kind = fmt.Sprintf("unknown%d", r.Code)
		}
		d.types = append(d.types, t)
		fwd := false
		maxRef := -1
		for _, x := range refs {
			if x >= idx {
				fwd = true
			}
			if x > maxRef {
				maxRef = x
			}
		}
		ops, wide := opsPrefix(r.Ops, 16)
		if refs == nil {
			refs = []int{}
		}
		e := d.s.add("ir_type", "idx", idx, "code", fit32(r.Code), "kind", t.kind, "nops", len(r.Ops), "ops", ops, "wide", wide,
			"refs", refs, "fwd", fwd, "max_ref", maxRef, "short", short, "bit", fit32(r.BitPos),
			"named_struct", r.Code == 20 || r.Code == 6)
		switch t.kind {
		case "int":
			e["width"] = fit32(t.width)
		case "pointer":
			e["addrspace"] = fit32(t.addrspace)
		case "array", "vector":
			e["count"] = fit32(t.count)
			e["count_wide"] = !fitsInt32(t.count)
		case "function":
			e["vararg"] = t.vararg
			e["nparams"] = len(t.params)
		case "struct", "opaque":
			e["packed"] = t.packed
			e["name"] = t.name
		}
		// dup_of: first earlier table entry that is structurally the same type
		// (LLVM's writer never emits one; named-struct duplicates would be
		// renamed by the reader).
		dup := -1
		if (t.kind != "opaque" || t.name != "") && idx < 4096 {
			for j := 0; j < idx; j++ {
				if d.typeEq(j, idx) {
					dup = j
					break
				}
			}
		}
		e["dup_of"] = dup
		if short {
			d.errAt(r.BitPos, "type record %d (code %d, %s) has only %d operands", idx, r.Code, t.kind, len(r.Ops))
		}
	}
	d.s.add("ir_types_end", "count", len(d.types), "numentry", fit32(d.numEntry), "have_numentry", d.haveNum,
		"match", d.haveNum && d.numEntry == uint64(len(d.types)), "dangling_name", havePending)
}

// ---- constants -----------------------------------------------------------------

var constKindNames = map[uint64]string{
	2: "null", 3: "undef", 4: "int", 5: "wide_int", 6: "float", 7: "aggregate", 8: "string", 9: "cstring",
	10: "ce_binop", 11: "ce_cast", 12: "ce_gep", 13: "ce_select", 14: "ce_extractelt", 15: "ce_insertelt",
	16: "ce_shufflevec", 17: "ce_cmp", 18: "inlineasm_old", 19: "ce_shufvec_ex", 20: "ce_inbounds_gep",
	21: "blockaddress", 22: "data", 23: "inlineasm",
}

func decodeSignedVBR(v uint64) int64 {
	if v&1 == 0 {
		return int64(v >> 1)
	}
	if v != 1 {
		return -int64(v >> 1)
	}
	return math.MinInt64
}

func (d *irDecoder) constants(b *Block, fn int) {
	curTy := d.findType(func(t *irType) bool { return t.kind == "int" && t.width == 32 })
	haveSet := false
	first := len(d.vals)
	d.s.add("ir_consts_begin", "fn", fn, "first_value", first, "bit", fit32(b.StartBit))
	for _, it := range b.Items {
		if it.Rec == nil {
			continue
		}
		r := it.Rec
		if r.Code == 1 {
			ty, _ := tyArg(r, 0)
			curTy, haveSet = ty, true
			d.s.add("ir_settype", "fn", fn, "ty", ty, "in_range", d.typeOK(ty), "ntypes", len(d.types), "nops", len(r.Ops))
			continue
		}
		idx := len(d.vals)
		kind, known := constKindNames[r.Code]
		if !known {
			kind = fmt.Sprintf("unknown%d", r.Code)
		}
		v := irVal{kind: "const", ty: curTy, ckind: kind, fnTy: -1}
		var refs, trefs []int
		vref := func(i int) {
			if i < len(r.Ops) {
				if fitsInt32(r.Ops[i]) {
					refs = append(refs, int(r.Ops[i]))
				} else {
					refs = append(refs, math.MaxInt32)
				}
			}
		}
		tref := func(i int) {
			if i < len(r.Ops) {
				t, ok := tyArg(r, i)
				if !ok {
					t = math.MaxInt32
				}
				trefs = append(trefs, t)
			}
		}
		ops, wide := opsPrefix(r.Ops, 16)
		e := d.s.add("ir_const", "fn", fn, "value", idx, "ty", curTy, "ty_in_range", d.typeOK(curTy), "ty_set", haveSet,
			"code", fit32(r.Code), "kind", kind, "nops", len(r.Ops), "ops", ops, "wide", wide, "bit", fit32(r.BitPos))
		if t := d.typ(curTy); t != nil {
			e["ty_kind"] = t.kind
		}
		switch r.Code {
		case 2:
			// null of an integer type is the integer 0; metadata such as
			// dx.version minor = 0 is written this way by LLVM.
			if t := d.typ(curTy); t != nil && t.kind == "int" {
				v.ival, v.hasInt = 0, true
				e["int"] = 0
			}
		case 4:
			if len(r.Ops) >= 1 {
				sv := decodeSignedVBR(r.Ops[0])
				v.ival, v.hasInt = sv, true
				e["lo"] = s32(uint32(uint64(sv)))
				e["hi"] = s32(uint32(uint64(sv) >> 32))
				e["fits"] = sv >= math.MinInt32 && sv <= math.MaxInt32
				if sv >= math.MinInt32 && sv <= math.MaxInt32 {
					e["int"] = int(sv)
				}
			}
		case 6:
			if len(r.Ops) >= 1 {
				e["lo"] = s32(uint32(r.Ops[0]))
				e["hi"] = s32(uint32(r.Ops[0] >> 32))
			}
		case 7:
			for i := range r.Ops {
				vref(i)
			}
		case 10:
			vref(1)
			vref(2)
		case 11:
			tref(1)
			vref(2)
		case 12, 20:
			i := 0
			if len(r.Ops)%2 == 1 {
				tref(0)
				i = 1
			}
			for ; i+1 < len(r.Ops); i += 2 {
				tref(i)
				vref(i + 1)
			}
		case 13, 16:
			vref(0)
			vref(1)
			vref(2)
		case 14:
			tref(0)
			vref(1)
			if len(r.Ops) == 4 {
				tref(2)
				vref(3)
			} else {
				vref(2)
			}
		case 15:
			vref(0)
			vref(1)
			if len(r.Ops) == 4 {
				tref(2)
				vref(3)
			} else {
				vref(2)
			}
		case 17:
			tref(0)
			vref(1)
			vref(2)
		case 19:
			tref(0)
			vref(1)
			vref(2)
			vref(3)
		case 21:
			tref(0)
			vref(1)
		}
		if refs == nil {
			refs = []int{}
		}
		if trefs == nil {
			trefs = []int{}
		}
		fwd := false
		for _, x := range refs {
			if x >= idx {
				fwd = true
			}
		}
		if len(refs) > 64 {
			e["refs_truncated"] = len(refs)
			refs = refs[:64]
		}
		e["refs"] = refs
		e["type_refs"] = trefs
		e["fwd"] = fwd
		d.vals = append(d.vals, v)
	}
	d.s.add("ir_consts_end", "fn", fn, "first_value", first, "count", len(d.vals)-first, "next_value", len(d.vals))
}

// ---- metadata ------------------------------------------------------------------

func (d *irDecoder) metadata(b *Block, fn int) {
	pendingName := ""
	havePending := false
	for _, it := range b.Items {
		if it.Rec == nil {
			continue
		}
		r := it.Rec
		switch r.Code {
		case 4: // NAME
			pendingName, havePending = opsString(r.Ops), true
		case 10: // NAMED_NODE
			ops := make([]int, 0, len(r.Ops))
			for _, o := range r.Ops {
				if fitsInt32(o) {
					ops = append(ops, int(o))
				} else {
					ops = append(ops, math.MaxInt32)
				}
			}
			d.named = append(d.named, irNamed{name: pendingName, ops: ops})
			shown := ops
			if len(shown) > 64 {
				shown = shown[:64]
			}
			d.s.add("ir_named_md", "name", pendingName, "have_name", havePending, "nops", len(ops), "ops", shown, "md_count", len(d.mds), "fn", fn)
			havePending = false
		case 6: // KIND
			name := ""
			if len(r.Ops) > 1 {
				name = opsString(r.Ops[1:])
			}
			d.s.add("ir_md_kind", "id", raw32(r, 0), "name", name)
		case 11: // ATTACHMENT inside a METADATA block (not expected)
			ops, wide := opsPrefix(r.Ops, 16)
			d.s.add("ir_md_attach", "fn", fn, "nops", len(r.Ops), "ops", ops, "wide", wide, "in_metadata_block", true)
		default:
			idx := len(d.mds)
			m := irMD{ty: -1, val: -1}
			e := d.s.add("ir_md", "idx", idx, "code", fit32(r.Code), "fn", fn, "nops", len(r.Ops), "bit", fit32(r.BitPos))
			switch r.Code {
			case 1:
				m.kind = "string"
				m.str = opsString(r.Ops)
				e["str"] = m.str
			case 2:
				m.kind = "value"
				m.ty, _ = tyArg(r, 0)
				m.val, _ = tyArg(r, 1)
				e["ty"] = m.ty
				e["val"] = m.val
				e["ty_in_range"] = d.typeOK(m.ty)
				e["val_in_range"] = m.val >= 0 && m.val < len(d.vals)
				e["nvalues"] = len(d.vals)
				if m.val >= 0 && m.val < len(d.vals) {
					e["val_ty"] = tyOut(d.vals[m.val].ty)
					e["val_kind"] = d.vals[m.val].kind
					if d.vals[m.val].hasInt {
						iv := d.vals[m.val].ival
						if iv >= math.MinInt32 && iv <= math.MaxInt32 {
							e["int"] = int(iv)
						}
					}
				}
				if len(r.Ops) != 2 {
					e["short"] = true
				}
			case 3, 5:
				m.kind = "node"
				if r.Code == 5 {
					m.kind = "distinct_node"
				}
				fwd := false
				for _, o := range r.Ops {
					switch {
					case o == 0:
						m.ops = append(m.ops, -1)
					case fitsInt32(o - 1):
						m.ops = append(m.ops, int(o-1))
						if int(o-1) >= idx {
							fwd = true
						}
					default:
						m.ops = append(m.ops, math.MaxInt32)
						fwd = true
					}
				}
				shown := m.ops
				if shown == nil {
					shown = []int{}
				}
				if len(shown) > 64 {
					e["ops_truncated"] = len(shown)
					shown = shown[:64]
				}
				e["ops"] = shown
				e["fwd"] = fwd
			case 7:
				m.kind = "location"
				ops, wide := opsPrefix(r.Ops, 16)
				e["raw"] = ops
				e["wide"] = wide
			case 8, 9:
				m.kind = "old_node"
				ops, wide := opsPrefix(r.Ops, 16)
				e["raw"] = ops
				e["wide"] = wide
			default:
				m.kind = "other"
				ops, wide := opsPrefix(r.Ops, 16)
				e["raw"] = ops
				e["wide"] = wide
				e["known_code"] = r.Code >= 12 && r.Code <= 30
			}
			e["kind"] = m.kind
			d.mds = append(d.mds, m)
		}
	}
	if havePending {
		d.s.add("ir_md_dangling_name", "name", pendingName, "fn", fn)
	}
}

// ---- value symbol tables -------------------------------------------------------

func (d *irDecoder) vst(b *Block, fn int) {
	for _, it := range b.Items {
		if it.Rec == nil {
			continue
		}
		r := it.Rec
		kind := "entry"
		skip := 1
		switch r.Code {
		case 1:
		case 2:
			kind = "bbentry"
		case 3:
			kind, skip = "fnentry", 2
		default:
			kind = fmt.Sprintf("unknown%d", r.Code)
		}
		name := ""
		if len(r.Ops) >= skip {
			name = opsString(r.Ops[skip:])
		}
		id := raw32(r, 0)
		e := d.s.add("ir_vst", "fn", fn, "kind", kind, "id", id, "name", name, "abbrev", int(r.AbbrevID), "nops", len(r.Ops))
		if kind == "entry" || kind == "fnentry" {
			e["in_range"] = id >= 0 && id < len(d.vals)
			if id >= 0 && id < len(d.vals) {
				e["value_kind"] = d.vals[id].kind
			}
		}
	}
}
