package dxbc

import (
	"encoding/binary"
	"math/rand"
	"testing"
	"time"

	"github.com/gogpu/naga/dxil"
)

// run decodes with a watchdog: Events must neither panic nor hang.
func run(t *testing.T, what string, bin []byte) []Event {
	t.Helper()
	done := make(chan []Event, 1)
	go func() {
		defer func() {
			if r := recover(); r != nil {
				t.Errorf("%s: PANIC %v", what, r)
				done <- nil
			}
		}()
		evs := Events(bin)
		_ = FormatEvents(evs)
		_ = Lint(evs)
		done <- evs
	}()
	select {
	case evs := <-done:
		for _, e := range evs {
			if e["ev"] == "error" && e["layer"] == "internal" {
				t.Errorf("%s: internal decoder fault: %v", what, e["msg"])
			}
		}
		return evs
	case <-time.After(20 * time.Second):
		t.Fatalf("%s: decoder did not terminate within 20s", what)
		return nil
	}
}

func corpusSeeds(t *testing.T) map[string][]byte {
	seeds := goldenFiles(t)
	for _, n := range []string{"small_compute_buffers", "small_control_flow", "small_texture"} {
		bs, _ := compileAll(t, n, smallShaders[n], dxil.DefaultOptions())
		for _, b := range bs {
			seeds[b.name] = b.bin
		}
	}
	return seeds
}

// dxilBitcode returns the absolute byte offset and length of the DXIL bitcode.
func dxilBitcode(t *testing.T, bin []byte) (int, int) {
	t.Helper()
	c, err := ParseContainer(bin)
	if err != nil {
		t.Fatal(err)
	}
	p := c.FindPart("DXIL")
	if p == nil {
		t.Fatal("no DXIL part")
	}
	h := parseProgramHeader(p.Data)
	return int(p.DataStart + h.BCStart), len(h.Bitcode)
}

func clone(b []byte) []byte { return append([]byte(nil), b...) }

func hasError(evs []Event, layer string) bool {
	for _, e := range evs {
		if e["ev"] == "error" && (layer == "" || e["layer"] == layer) {
			return true
		}
	}
	return false
}

func TestCorruptEveryTruncation(t *testing.T) {
	for name, bin := range goldenFiles(t) {
		for n := 0; n < len(bin); n++ {
			evs := run(t, name+" truncated", bin[:n])
			if !hasError(evs, "") && len(Lint(evs)) == 0 {
				t.Fatalf("%s truncated to %d of %d bytes: no error event and no inconsistent fact", name, n, len(bin))
			}
		}
	}
}

func TestCorruptBlockLengthWord(t *testing.T) {
	for name, bin := range corpusSeeds(t) {
		base, _ := dxilBitcode(t, bin)
		evs := Events(bin)
		n := 0
		for _, e := range evs {
			if e["ev"] != "enter_block" {
				continue
			}
			n++
			lenBit := e["len_bit"].(int)
			if lenBit%8 != 0 {
				t.Fatalf("%s: length word at bit %d is not byte aligned", name, lenBit)
			}
			mut := clone(bin)
			at := base + lenBit/8
			old := binary.LittleEndian.Uint32(mut[at:])
			binary.LittleEndian.PutUint32(mut[at:], old+1)
			mevs := run(t, name+" length+1", mut)
			found := false
			for _, me := range mevs {
				if me["ev"] == "exit_block" && me["bit"] != nil && me["match"] == false && me["declared_words"] == s32(old+1) {
					found = true
				}
			}
			if !found {
				t.Errorf("%s: bumping the length word of block %v at bit %d was not reported as an exit_block mismatch", name, e["id"], lenBit)
			}
			// the hash must notice as well
			for _, me := range mevs {
				if me["ev"] == "digest_check" && me["match"] != false {
					t.Errorf("%s: container digest still matches after corruption", name)
				}
				if me["ev"] == "hash_part" && me["match_bitcode"] != false {
					t.Errorf("%s: HASH part still matches after corrupting the bitcode", name)
				}
			}
			binary.LittleEndian.PutUint32(mut[at:], 0xFFFFFFFF)
			run(t, name+" length=max", mut)
		}
		if n == 0 {
			t.Errorf("%s: no blocks", name)
		}
	}
}

// The abbreviation width of the MODULE block is the vbr4 at bits 42..45 of the
// stream (2-bit ENTER_SUBBLOCK id, vbr8 block id = 8). Every other value must
// produce an error event (or, at the very least, inconsistent facts).
func TestCorruptAbbrevWidth(t *testing.T) {
	for name, bin := range corpusSeeds(t) {
		base, _ := dxilBitcode(t, bin)
		word := binary.LittleEndian.Uint32(bin[base+4:])
		orig := (word >> 10) & 0xF
		if orig&8 != 0 || (word&3) != 1 || ((word>>2)&0xFF) != 8 {
			t.Fatalf("%s: unexpected first word %#x", name, word)
		}
		for w := uint32(0); w < 8; w++ {
			if w == orig {
				continue
			}
			mut := clone(bin)
			binary.LittleEndian.PutUint32(mut[base+4:], word&^(0xF<<10)|w<<10)
			evs := run(t, name+" width", mut)
			if !hasError(evs, "bitstream") && !hasError(evs, "ir") && len(Lint(evs)) < 2 {
				t.Errorf("%s: abbrev width %d instead of %d went unnoticed", name, w, orig)
			}
		}
	}
}

func TestCorruptContainerFields(t *testing.T) {
	for name, bin := range goldenFiles(t) {
		check := func(what string, mut []byte, pred func([]Event) bool) {
			evs := run(t, name+" "+what, mut)
			if !pred(evs) {
				t.Errorf("%s: %s not reported\n%s", name, what, FormatEvents(evs[:min(len(evs), 12)]))
			}
		}
		// digest
		m := clone(bin)
		m[7] ^= 1
		check("digest flip", m, func(evs []Event) bool {
			for _, e := range evs {
				if e["ev"] == "digest_check" {
					return e["match"] == false && e["stored_kind"] == "other"
				}
			}
			return false
		})
		// zero digest
		m = clone(bin)
		for i := 4; i < 20; i++ {
			m[i] = 0
		}
		check("zero digest", m, func(evs []Event) bool {
			for _, e := range evs {
				if e["ev"] == "digest_check" {
					return e["match"] == false && e["stored_kind"] == "zero"
				}
			}
			return false
		})
		// declared total size
		m = clone(bin)
		binary.LittleEndian.PutUint32(m[24:], uint32(len(bin)+4))
		check("declared size", m, func(evs []Event) bool {
			return evs[0]["size_match"] == false && evs[0]["declared_size"] == len(bin)+4
		})
		// absurd part count
		m = clone(bin)
		binary.LittleEndian.PutUint32(m[28:], 0xFFFFFFFF)
		check("part count", m, func(evs []Event) bool { return hasError(evs, "container") && evs[0]["part_count"] == -1 })
		// part size beyond the file
		c, _ := ParseContainer(bin)
		last := c.Parts[len(c.Parts)-1]
		m = clone(bin)
		binary.LittleEndian.PutUint32(m[last.Offset+4:], last.DeclaredSize+64)
		check("part size", m, func(evs []Event) bool {
			for _, e := range evs {
				if e["ev"] == "part" && e["i"] == last.Index {
					return e["in_bounds"] == false && hasError(evs, "container")
				}
			}
			return false
		})
		// part offset pointing outside
		m = clone(bin)
		binary.LittleEndian.PutUint32(m[32:], uint32(len(bin)-4))
		check("part offset", m, func(evs []Event) bool {
			for _, e := range evs {
				if e["ev"] == "part" && e["i"] == 0 {
					return e["header_ok"] == false
				}
			}
			return false
		})
		// program header: bitcode size larger than the part
		d := c.FindPart("DXIL")
		m = clone(bin)
		binary.LittleEndian.PutUint32(m[d.DataStart+20:], d.DeclaredSize)
		check("bitcode size", m, func(evs []Event) bool {
			for _, e := range evs {
				if e["ev"] == "program_header" && e["part"] == "DXIL" {
					return e["bc_in_bounds"] == false && hasError(evs, "program")
				}
			}
			return false
		})
		// bitcode magic
		m = clone(bin)
		base, _ := dxilBitcode(t, bin)
		m[base] = 'X'
		check("bc magic", m, func(evs []Event) bool {
			for _, e := range evs {
				if e["ev"] == "bc_magic" {
					return e["magic_ok"] == false
				}
			}
			return false
		})
		// signature element count
		if sg := c.FindPart("OSG1"); sg != nil {
			m = clone(bin)
			binary.LittleEndian.PutUint32(m[sg.DataStart:], 1000)
			check("sig count", m, func(evs []Event) bool { return hasError(evs, "sig") })
		}
		// PSV0 runtime info size
		if pv := c.FindPart("PSV0"); pv != nil {
			m = clone(bin)
			binary.LittleEndian.PutUint32(m[pv.DataStart:], 4000)
			check("psv info size", m, func(evs []Event) bool { return hasError(evs, "psv") })
		}
	}
}

// Seeded random mutation of real containers: byte flips, word overwrites and
// bit flips concentrated in the bitcode. The only assertions are "terminates"
// and "does not panic"; the decoder's findings are not judged here.
func TestCorruptRandomMutations(t *testing.T) {
	rng := rand.New(rand.NewSource(20260923))
	iters := 500
	if testing.Short() {
		iters = 200
	}
	for name, bin := range corpusSeeds(t) {
		base, n := dxilBitcode(t, bin)
		for it := 0; it < iters; it++ {
			mut := clone(bin)
			for k := 0; k <= rng.Intn(4); k++ {
				switch rng.Intn(4) {
				case 0:
					mut[rng.Intn(len(mut))] = byte(rng.Intn(256))
				case 1:
					mut[base+rng.Intn(n)] ^= 1 << uint(rng.Intn(8))
				case 2:
					at := rng.Intn(len(mut)-4) &^ 3
					vals := []uint32{0, 1, 0xFFFFFFFF, 0x7FFFFFFF, 0x80000000, uint32(len(mut)), uint32(rng.Int31())}
					binary.LittleEndian.PutUint32(mut[at:], vals[rng.Intn(len(vals))])
				case 3:
					mut[base+rng.Intn(n)] = byte(rng.Intn(256))
				}
			}
			run(t, name+" random", mut)
		}
	}
}

func FuzzEvents(f *testing.F) {
	for _, b := range goldenFiles(f) {
		f.Add(b)
	}
	f.Add([]byte("DXBC"))
	f.Fuzz(func(t *testing.T, bin []byte) {
		evs := Events(bin)
		for _, e := range evs {
			if e["ev"] == "error" && e["layer"] == "internal" {
				t.Fatalf("internal fault: %v", e["msg"])
			}
		}
		_ = Lint(evs)
	})
}

func FuzzBitstream(f *testing.F) {
	for _, b := range goldenFiles(f) {
		c, _ := ParseContainer(b)
		f.Add(parseProgramHeader(c.FindPart("DXIL").Data).Bitcode)
	}
	f.Fuzz(func(t *testing.T, bc []byte) {
		s := &sink{}
		st := ParseStream(bc)
		bitstreamEvents(s, "DXIL", st, bc)
		irEvents(s, "DXIL", st.Root)
	})
}
