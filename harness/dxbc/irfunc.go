package dxbc

import (
	"fmt"
	"math"
)

var funcCodeNames = map[uint64]string{
	1: "declareblocks", 2: "binop", 3: "cast", 4: "gep_old", 5: "select", 6: "extractelt", 7: "insertelt",
	8: "shufflevec", 9: "cmp", 10: "ret", 11: "br", 12: "switch", 13: "invoke", 15: "unreachable", 16: "phi",
	19: "alloca", 20: "load", 23: "vaarg", 24: "store_old", 26: "extractval", 27: "insertval", 28: "cmp2",
	29: "vselect", 30: "inbounds_gep_old", 31: "indirectbr", 33: "debug_loc_again", 34: "call", 35: "debug_loc",
	36: "fence", 37: "cmpxchg_old", 38: "atomicrmw", 39: "resume", 40: "landingpad_old", 41: "loadatomic",
	42: "storeatomic_old", 43: "gep", 44: "store", 45: "storeatomic", 46: "cmpxchg", 47: "landingpad",
}

// instCtx reads the operands of one instruction record, resolving LLVM's
// relative value numbering (absolute = InstNum - relative, in 32-bit wrapping
// arithmetic exactly as BitcodeReader does).
type instCtx struct {
	d        *irDecoder
	r        *Record
	pos      int
	vn       int // InstNum: the value number the instruction would define
	vals     []int
	types    []int
	targets  []int
	fwd      bool
	short    bool // ran out of operands
	trunc    bool // a value operand did not fit 32 bits
	fwdTypes map[int]int
}

func (c *instCtx) left() int { return len(c.r.Ops) - c.pos }

func (c *instCtx) raw() uint64 {
	if c.pos >= len(c.r.Ops) {
		c.short = true
		return 0
	}
	v := c.r.Ops[c.pos]
	c.pos++
	return v
}

func (c *instCtx) raw32() int {
	v := c.raw()
	if !fitsInt32(v) {
		return -1
	}
	return int(v)
}

func (c *instCtx) typ() int {
	v := c.raw()
	t := math.MaxInt32
	if v < synthBase {
		t = int(v)
	}
	if !c.short {
		c.types = append(c.types, t)
	}
	return t
}

func (c *instCtx) bb() int {
	v := c.raw()
	t := math.MaxInt32
	if fitsInt32(v) {
		t = int(v)
	}
	if !c.short {
		c.targets = append(c.targets, t)
	}
	return t
}

func (c *instCtx) resolve(v uint64, signed bool) int {
	if v > 0xFFFFFFFF && !signed {
		c.trunc = true
	}
	var abs uint32
	switch {
	case signed:
		sv := decodeSignedVBR(v)
		if sv > math.MaxInt32 || sv < math.MinInt32 {
			c.trunc = true
		}
		if c.d.relative {
			abs = uint32(c.vn) - uint32(int32(sv))
		} else {
			abs = uint32(int32(sv))
		}
	case c.d.relative:
		abs = uint32(c.vn) - uint32(v)
	default:
		abs = uint32(v)
	}
	a := s32(abs)
	if a < 0 || a >= c.vn {
		c.fwd = true
	}
	return a
}

// val reads a relative value operand with no type (getValue / popValue).
func (c *instCtx) val() int {
	v := c.raw()
	if c.short {
		return -1
	}
	a := c.resolve(v, false)
	c.vals = append(c.vals, a)
	return a
}

// sval reads a signed-VBR relative operand (phi incoming values).
func (c *instCtx) sval() int {
	v := c.raw()
	if c.short {
		return -1
	}
	a := c.resolve(v, true)
	c.vals = append(c.vals, a)
	return a
}

// absVal reads an absolute value id (alloca size, switch case values).
func (c *instCtx) absVal() int {
	v := c.raw()
	if c.short {
		return -1
	}
	a := math.MaxInt32
	if fitsInt32(v) {
		a = int(v)
	}
	if a >= c.vn {
		c.fwd = true
	}
	c.vals = append(c.vals, a)
	return a
}

// pair reads getValueTypePair: a relative value, followed by a type id iff the
// value is a forward reference. It returns the value id and its type.
func (c *instCtx) pair() (int, int) {
	a := c.val()
	if c.short {
		return -1, -1
	}
	if a >= 0 && a < c.vn {
		return a, c.d.valType(a)
	}
	t := c.typ()
	if c.short {
		return a, -1
	}
	if _, ok := c.fwdTypes[a]; !ok {
		c.fwdTypes[a] = t
	}
	return a, t
}

func (c *instCtx) tyOf(a int) int {
	if a >= 0 && a < c.vn {
		return c.d.valType(a)
	}
	if t, ok := c.fwdTypes[a]; ok {
		return t
	}
	return -1
}

func isTerminator(code uint64) bool {
	switch code {
	case 10, 11, 12, 13, 15, 31, 39:
		return true
	}
	return false
}

// ptrFacts records, for a memory instruction, whether the address operand's
// type is a pointer at all and whether its pointee agrees with the accessed
// value type (by table index, and structurally).
func (d *irDecoder) ptrFacts(e Event, pt, accessTy int) {
	t := d.typ(pt)
	e["ptr_ty"] = tyOut(pt)
	if t == nil {
		e["ptr_ty_known"] = false
		return
	}
	e["ptr_ty_known"] = true
	e["ptr_kind"] = t.kind
	e["ptr_is_pointer"] = t.kind == "pointer"
	if t.kind == "pointer" {
		e["pointee"] = tyOut(t.elem)
		e["addrspace"] = fit32(t.addrspace)
		if d.typ(accessTy) != nil {
			e["pointee_matches"] = t.elem == accessTy
			e["pointee_equiv"] = d.typeEq(t.elem, accessTy)
		}
	}
}

// indexInRange reports whether a constant aggregate index is valid for ty.
func (d *irDecoder) indexInRange(ty int, ix uint64) bool {
	t := d.typ(ty)
	if t == nil {
		return false
	}
	switch t.kind {
	case "array", "vector":
		return ix < t.count
	case "struct":
		return ix < uint64(len(t.elems))
	}
	return false
}

// typeEq is structural type equality: table index equality, or the same
// shape with named structs compared by name. It exists because a producer may
// emit duplicate table entries for one type, which LLVM's own writer never
// does; index inequality alone would then be a false alarm.
func (d *irDecoder) typeEq(a, b int) bool {
	d.eqBudget = 4096 // bounds the work on adversarial, highly shared type graphs
	return d.typeEqDepth(a, b, 0)
}

func (d *irDecoder) typeEqDepth(a, b, depth int) bool {
	if a == b {
		return a >= 0
	}
	d.eqBudget--
	ta, tb := d.typ(a), d.typ(b)
	if ta == nil || tb == nil || ta.kind != tb.kind || depth > 16 || d.eqBudget < 0 {
		return false
	}
	switch ta.kind {
	case "int":
		return ta.width == tb.width
	case "pointer":
		return ta.addrspace == tb.addrspace && d.typeEqDepth(ta.elem, tb.elem, depth+1)
	case "array", "vector":
		return ta.count == tb.count && d.typeEqDepth(ta.elem, tb.elem, depth+1)
	case "struct":
		if ta.name != tb.name || ta.packed != tb.packed || len(ta.elems) != len(tb.elems) {
			return false
		}
		for i := range ta.elems {
			if !d.typeEqDepth(ta.elems[i], tb.elems[i], depth+1) {
				return false
			}
		}
		return true
	case "function":
		if ta.vararg != tb.vararg || len(ta.params) != len(tb.params) || !d.typeEqDepth(ta.ret, tb.ret, depth+1) {
			return false
		}
		for i := range ta.params {
			if !d.typeEqDepth(ta.params[i], tb.params[i], depth+1) {
				return false
			}
		}
		return true
	case "opaque":
		return ta.name == tb.name
	}
	return true // void, float, double, half, label, metadata, ...
}

// indexType steps one GEP/extractvalue index into an aggregate type.
func (d *irDecoder) indexType(ty int, constIdx int64, haveConst bool) int {
	t := d.typ(ty)
	if t == nil {
		return -1
	}
	switch t.kind {
	case "array", "vector":
		return t.elem
	case "struct":
		if haveConst && constIdx >= 0 && constIdx < int64(len(t.elems)) {
			return t.elems[constIdx]
		}
	}
	return -1
}

func (d *irDecoder) function(b *Block) {
	fn := -1
	if d.nextBody < len(d.bodies) {
		fn = d.bodies[d.nextBody]
	}
	d.nextBody++
	d.nBodies++
	base := len(d.vals)
	mdBase := len(d.mds)
	defer func() {
		d.vals = d.vals[:base]
		d.mds = d.mds[:mdBase]
	}()

	nargs := 0
	fnTy := -1
	if fn >= 0 {
		fnTy = d.vals[fn].fnTy
		if ft := d.typ(fnTy); ft != nil {
			for _, p := range ft.params {
				d.vals = append(d.vals, irVal{kind: "arg", ty: p, fnTy: -1})
				nargs++
			}
		}
	}
	begin := d.s.add("ir_func_begin", "fn", fn, "name", d.names[fn], "fn_ty", fnTy, "nargs", nargs, "first_value", base,
		"bit", fit32(b.StartBit), "declared_blocks", -1, "have_body_decl", fn >= 0)
	if fn < 0 {
		d.errAt(b.StartBit, "FUNCTION_BLOCK #%d has no matching function declaration with a body (%d declared)", d.nextBody, len(d.bodies))
	}

	declared := -1
	curBB := 0
	nInst, nTerm, nDef, nConst := 0, 0, 0, 0
	maxUsed := -1
	fwdTypes := map[int]int{}
	fwdSeen := map[int]bool{}
	aborted := false
	lastDefined := -1

	for _, it := range b.Items {
		if it.Sub != nil {
			sb := it.Sub
			switch sb.ID {
			case blkConstants:
				before := len(d.vals)
				d.constants(sb, fn)
				nConst += len(d.vals) - before
			case blkMetadata:
				d.metadata(sb, fn)
			case blkValueSymtab:
				d.vst(sb, fn)
			case blkMetadataAtt:
				for _, ai := range sb.Items {
					if ai.Rec != nil {
						ops, wide := opsPrefix(ai.Rec.Ops, 16)
						d.s.add("ir_md_attach", "fn", fn, "nops", len(ai.Rec.Ops), "ops", ops, "wide", wide,
							"on_inst", len(ai.Rec.Ops)%2 == 1, "in_metadata_block", false)
					}
				}
			case blkUseList:
				d.s.add("ir_uselist", "fn", fn, "records", len(sb.Items))
			case BlockInfoID:
			default:
				d.s.add("ir_unknown_block", "id", s32(sb.ID), "bit", fit32(sb.StartBit), "scope", "function")
			}
			continue
		}
		if it.Rec == nil || aborted {
			continue
		}
		r := it.Rec
		switch r.Code {
		case 1:
			declared = raw32(r, 0)
			begin["declared_blocks"] = declared
			d.s.add("ir_declareblocks", "fn", fn, "n", declared, "nops", len(r.Ops), "after_insts", nInst)
			continue
		case 33, 35:
			ops, wide := opsPrefix(r.Ops, 16)
			d.s.add("ir_debug_loc", "fn", fn, "code", int(r.Code), "ops", ops, "wide", wide, "after_inst", nInst-1)
			continue
		}
		c := &instCtx{d: d, r: r, vn: len(d.vals), fwdTypes: fwdTypes}
		name, known := funcCodeNames[r.Code]
		if !known {
			name = fmt.Sprintf("unknown%d", r.Code)
		}
		e := Event{"ev": "ir_inst", "fn": fn, "i": nInst, "bb": curBB, "code": fit32(r.Code), "op": name,
			"nops": len(r.Ops), "vn": c.vn, "bit": fit32(r.BitPos), "abbrev": int(r.AbbrevID)}
		resTy, defines, defKnown := d.decodeInst(c, e)
		term := isTerminator(r.Code)
		vals, types, targets := c.vals, c.types, c.targets
		if vals == nil {
			vals = []int{}
		}
		if types == nil {
			types = []int{}
		}
		if targets == nil {
			targets = []int{}
		}
		for _, v := range vals {
			if v > maxUsed {
				maxUsed = v
			}
			if v < 0 || v >= c.vn {
				fwdSeen[v] = true
			}
		}
		if len(vals) > 64 {
			e["vals_truncated"] = len(vals)
			vals = vals[:64]
		}
		if len(targets) > 64 {
			e["targets_truncated"] = len(targets)
			targets = targets[:64]
		}
		e["vals"] = vals
		e["types"] = types
		e["targets"] = targets
		e["fwd"] = c.fwd
		e["term"] = term
		e["defines"] = defines
		e["value"] = -1
		e["ty"] = tyOut(resTy)
		e["short"] = c.short
		e["trunc"] = c.trunc
		e["extra_ops"] = c.left()
		if defines {
			e["value"] = c.vn
			if ft, ok := fwdTypes[c.vn]; ok {
				e["was_fwd_referenced"] = true
				e["fwd_type_conflict"] = resTy >= 0 && ft != resTy
			}
			d.vals = append(d.vals, irVal{kind: "inst", ty: resTy, fnTy: -1})
			lastDefined = c.vn
			nDef++
		}
		d.s.evs = append(d.s.evs, e)
		nInst++
		if term {
			nTerm++
			curBB++
		}
		if c.short {
			d.errAt(r.BitPos, "function %d inst %d (%s): record has %d operands, decoder needed more", fn, nInst-1, name, len(r.Ops))
		}
		if !defKnown {
			d.errAt(r.BitPos, "function %d inst %d (%s, code %d): cannot determine whether it defines a value; value numbering of the rest of the function is unreliable, stopping this function",
				fn, nInst-1, name, r.Code)
			aborted = true
		}
	}
	unresolved := 0
	for v := range fwdSeen {
		if v < 0 || v >= len(d.vals) {
			unresolved++
		}
	}
	_ = lastDefined
	d.s.add("ir_func_end", "fn", fn, "declared_blocks", declared, "terminators", nTerm, "blocks_match", declared == nTerm,
		"insts", nInst, "defined", nDef, "nargs", nargs, "nconsts", nConst, "first_value", base, "next_value", len(d.vals),
		"max_value_used", maxUsed, "unresolved_fwd", unresolved, "aborted", aborted, "closed", b.Closed,
		"ends_with_terminator", nInst > 0 && curBB == nTerm && lastWasTerminator(b))
}

func lastWasTerminator(b *Block) bool {
	for i := len(b.Items) - 1; i >= 0; i-- {
		if r := b.Items[i].Rec; r != nil {
			if r.Code == 33 || r.Code == 35 {
				continue
			}
			return isTerminator(r.Code)
		}
	}
	return false
}

// decodeInst reads the operands of one instruction record into c and returns
// the result type (or -1), whether a value is defined, and whether that is
// known for certain.
func (d *irDecoder) decodeInst(c *instCtx, e Event) (resTy int, defines bool, defKnown bool) {
	r := c.r
	resTy = -1
	defKnown = true
	switch r.Code {
	case 2: // BINOP
		_, t := c.pair()
		c.val()
		e["opcode"] = c.raw32()
		if c.left() > 0 {
			e["flags"] = c.raw32()
		}
		return t, true, true
	case 3: // CAST
		c.pair()
		t := c.typ()
		e["opcode"] = c.raw32()
		return t, true, true
	case 43, 4, 30: // GEP
		srcTy := -1
		if r.Code == 43 {
			e["inbounds"] = c.raw32()
			srcTy = c.typ()
		}
		_, pt := c.pair()
		cur := -1
		as := uint64(0)
		e["base_ty"] = tyOut(pt)
		e["base_is_pointer"] = false
		if t := d.typ(pt); t != nil {
			e["base_kind"] = t.kind
		}
		if t := d.typ(pt); t != nil && t.kind == "pointer" {
			cur, as = t.elem, t.addrspace
			e["base_is_pointer"] = true
			e["base_pointee"] = tyOut(t.elem)
			if r.Code == 43 {
				e["src_ty_matches"] = t.elem == srcTy
				e["src_ty_equiv"] = d.typeEq(t.elem, srcTy)
			}
		}
		first := true
		for c.left() > 0 && !c.short {
			a, _ := c.pair()
			if first {
				first = false
				continue
			}
			hv := a >= 0 && a < len(d.vals) && d.vals[a].hasInt
			iv := int64(0)
			if hv {
				iv = d.vals[a].ival
			}
			cur = d.indexType(cur, iv, hv)
		}
		e["result_pointee"] = tyOut(cur)
		return d.findPtr(cur, as), true, true
	case 5: // SELECT
		_, t := c.pair()
		c.val()
		c.val()
		return t, true, true
	case 29: // VSELECT
		_, t := c.pair()
		c.val()
		c.pair()
		return t, true, true
	case 6: // EXTRACTELT
		_, t := c.pair()
		c.pair()
		if vt := d.typ(t); vt != nil && vt.kind == "vector" {
			resTy = vt.elem
		}
		return resTy, true, true
	case 7: // INSERTELT
		_, t := c.pair()
		c.val()
		c.pair()
		return t, true, true
	case 8: // SHUFFLEVEC
		_, t := c.pair()
		c.val()
		_, mt := c.pair()
		if vt, m := d.typ(t), d.typ(mt); vt != nil && m != nil && vt.kind == "vector" && m.kind == "vector" {
			resTy = d.findVec(m.count, vt.elem)
		}
		return resTy, true, true
	case 9, 28: // CMP, CMP2
		_, t := c.pair()
		c.val()
		e["pred"] = c.raw32()
		if c.left() > 0 {
			e["flags"] = c.raw32()
		}
		i1 := d.findInt(1)
		if vt := d.typ(t); vt != nil && vt.kind == "vector" {
			resTy = d.findVec(vt.count, i1)
		} else {
			resTy = i1
		}
		return resTy, true, true
	case 10: // RET
		if c.left() > 0 {
			c.pair()
		}
		return -1, false, true
	case 11: // BR
		c.bb()
		if c.left() > 0 {
			c.bb()
			c.val()
			e["conditional"] = true
		} else {
			e["conditional"] = false
		}
		return -1, false, true
	case 12: // SWITCH
		if len(r.Ops) > 0 && r.Ops[0]>>16 == 0x4B5 {
			e["case_range_format"] = true
			return -1, false, true
		}
		c.typ()
		c.val()
		c.bb()
		n := 0
		for c.left() >= 2 {
			c.absVal()
			c.bb()
			n++
		}
		e["cases"] = n
		return -1, false, true
	case 15: // UNREACHABLE
		return -1, false, true
	case 39: // RESUME
		c.pair()
		return -1, false, true
	case 31: // INDIRECTBR
		c.typ()
		c.val()
		for c.left() > 0 {
			c.bb()
		}
		return -1, false, true
	case 16: // PHI
		t := c.typ()
		n := 0
		for c.left() >= 2 {
			c.sval()
			c.bb()
			n++
		}
		e["incoming"] = n
		return t, true, true
	case 19: // ALLOCA
		it := c.typ()
		c.typ()
		c.absVal()
		al := c.raw()
		e["align_raw"] = fit32(al)
		e["explicit_type"] = al&(1<<6) != 0
		e["inalloca"] = al&(1<<5) != 0
		if al&(1<<6) != 0 {
			resTy = d.findPtr(it, 0)
		} else {
			resTy = it
		}
		return resTy, true, true
	case 20, 41: // LOAD, LOADATOMIC
		_, pt := c.pair()
		tailN := 2
		if r.Code == 41 {
			tailN = 4
		}
		explicit := c.left() == tailN+1
		if explicit {
			resTy = c.typ()
		} else if t := d.typ(pt); t != nil && t.kind == "pointer" {
			resTy = t.elem
		}
		e["explicit_type"] = explicit
		d.ptrFacts(e, pt, resTy)
		e["align_raw"] = c.raw32()
		e["volatile"] = c.raw32()
		if r.Code == 41 {
			e["ordering"] = c.raw32()
			e["scope"] = c.raw32()
		}
		return resTy, true, true
	case 23: // VAARG
		c.typ()
		c.val()
		t := c.typ()
		return t, true, true
	case 44, 45, 24, 42: // STORE family
		_, pt := c.pair()
		vt := -1
		if r.Code == 44 || r.Code == 45 {
			_, vt = c.pair()
		} else {
			a := c.val()
			vt = c.tyOf(a)
		}
		d.ptrFacts(e, pt, vt)
		e["align_raw"] = c.raw32()
		e["volatile"] = c.raw32()
		if r.Code == 45 || r.Code == 42 {
			e["ordering"] = c.raw32()
			e["scope"] = c.raw32()
		}
		return -1, false, true
	case 36: // FENCE
		e["ordering"] = c.raw32()
		e["scope"] = c.raw32()
		return -1, false, true
	case 46, 37: // CMPXCHG
		_, cpt := c.pair()
		ct := -1
		if r.Code == 46 {
			_, ct = c.pair()
		} else {
			a := c.val()
			ct = c.tyOf(a)
		}
		c.val()
		d.ptrFacts(e, cpt, ct)
		tail := c.left()
		e["tail_ops"] = tail
		e["volatile"] = c.raw32()
		e["ordering"] = c.raw32()
		e["scope"] = c.raw32()
		if c.left() > 0 {
			e["failure_ordering"] = c.raw32()
		}
		if c.left() > 0 {
			e["weak"] = c.raw32()
		}
		// LLVM 3.7: records with fewer than 8 operands predate {ty,i1}
		// results and yield the loaded value only.
		e["old_result_form"] = len(r.Ops) < 8
		if len(r.Ops) < 8 {
			resTy = ct
		} else {
			resTy = d.findStruct2(ct, d.findInt(1))
		}
		return resTy, true, true
	case 38: // ATOMICRMW
		_, pt := c.pair()
		av := c.val()
		e["opcode"] = c.raw32()
		e["volatile"] = c.raw32()
		e["ordering"] = c.raw32()
		e["scope"] = c.raw32()
		d.ptrFacts(e, pt, c.tyOf(av))
		if t := d.typ(pt); t != nil && t.kind == "pointer" {
			resTy = t.elem
		}
		return resTy, true, true
	case 26: // EXTRACTVAL
		_, t := c.pair()
		cur := t
		e["agg_ty"] = tyOut(t)
		idxs := []int{}
		ok := true
		for c.left() > 0 {
			ix := c.raw()
			idxs = append(idxs, fit32(ix))
			if !d.indexInRange(cur, ix) {
				ok = false
			}
			cur = d.indexType(cur, int64(ix), fitsInt32(ix))
		}
		if len(idxs) > 16 {
			idxs = idxs[:16]
		}
		e["indices"] = idxs
		e["index_ok"] = ok
		return cur, true, true
	case 27: // INSERTVAL
		_, t := c.pair()
		_, et := c.pair()
		cur := t
		e["agg_ty"] = tyOut(t)
		idxs := []int{}
		ok := true
		for c.left() > 0 {
			ix := c.raw()
			idxs = append(idxs, fit32(ix))
			if !d.indexInRange(cur, ix) {
				ok = false
			}
			cur = d.indexType(cur, int64(ix), fitsInt32(ix))
		}
		if len(idxs) > 16 {
			idxs = idxs[:16]
		}
		e["indices"] = idxs
		e["index_ok"] = ok
		e["elem_ty_equiv"] = d.typeEq(cur, et)
		return t, true, true
	case 34: // CALL
		e["paramattr"] = c.raw32()
		cc := c.raw()
		e["cc"] = fit32(cc)
		explicit := cc&(1<<15) != 0
		e["explicit_type"] = explicit
		fnTy := -1
		if explicit {
			fnTy = c.typ()
		}
		callee, ct := c.pair()
		e["callee"] = callee
		if callee >= 0 && callee < len(d.vals) {
			e["callee_kind"] = d.vals[callee].kind
			if n, ok := d.names[callee]; ok && d.vals[callee].kind != "inst" && d.vals[callee].kind != "arg" && d.vals[callee].kind != "const" {
				e["callee_name"] = n
			}
		}
		if t := d.typ(ct); t != nil && t.kind == "pointer" {
			if !explicit {
				fnTy = t.elem
			} else {
				e["callee_ty_matches"] = t.elem == fnTy
				e["callee_ty_equiv"] = d.typeEq(t.elem, fnTy)
			}
		}
		ft := d.typ(fnTy)
		e["fn_ty"] = fnTy
		if ft == nil || ft.kind != "function" {
			// Unknown callee type: cannot tell how many fixed params exist
			// or whether the result is void.
			for c.left() > 0 {
				c.val()
			}
			return -1, false, false
		}
		firstArg := -1
		for i, p := range ft.params {
			if c.left() == 0 {
				c.short = true
				break
			}
			if pt := d.typ(p); pt != nil && pt.kind == "label" {
				c.bb()
				continue
			}
			a := c.val()
			if i == 0 {
				firstArg = a
			}
		}
		nvar := 0
		for ft.vararg && c.left() > 0 && !c.short {
			c.pair()
			nvar++
		}
		e["nparams"] = len(ft.params)
		e["varargs"] = nvar
		if firstArg >= 0 && firstArg < len(d.vals) && d.vals[firstArg].hasInt {
			if iv := d.vals[firstArg].ival; iv >= math.MinInt32 && iv <= math.MaxInt32 {
				e["arg0_int"] = int(iv)
			}
		}
		rt := d.typ(ft.ret)
		if rt == nil {
			return -1, false, false
		}
		if rt.kind == "void" {
			return -1, false, true
		}
		return ft.ret, true, true
	}
	// invoke, landingpad and anything unknown: not decodable with certainty.
	return -1, false, false
}

// ---- DXIL metadata semantics ---------------------------------------------------

func (d *irDecoder) mdInt(i int) (int64, bool) {
	if i < 0 || i >= len(d.mds) || d.mds[i].kind != "value" {
		return 0, false
	}
	v := d.mds[i].val
	if v < 0 || v >= len(d.vals) || !d.vals[v].hasInt {
		return 0, false
	}
	return d.vals[v].ival, true
}

func (d *irDecoder) mdStr(i int) (string, bool) {
	if i < 0 || i >= len(d.mds) || d.mds[i].kind != "string" {
		return "", false
	}
	return d.mds[i].str, true
}

func (d *irDecoder) mdOps(i int) []int {
	if i < 0 || i >= len(d.mds) || (d.mds[i].kind != "node" && d.mds[i].kind != "distinct_node") {
		return nil
	}
	return d.mds[i].ops
}

func opAt(ops []int, i int) int {
	if i < len(ops) {
		return ops[i]
	}
	return -1
}

func (d *irDecoder) putInt(e Event, key string, md int) {
	if v, ok := d.mdInt(md); ok {
		e[key] = s32(uint32(uint64(v)))
		e[key+"_ok"] = true
	} else {
		e[key] = -1
		e[key+"_ok"] = false
	}
}

// dxSemantics decodes the DXIL-defined named metadata into dx_* events so that
// rules can relate the module to the container parts (program header, PSV0,
// signatures) without re-deriving LLVM metadata structure.
func (d *irDecoder) dxSemantics() {
	for _, nm := range d.named {
		switch nm.name {
		case "dx.version", "dx.valver":
			for _, n := range nm.ops {
				ops := d.mdOps(n)
				e := d.s.add("dx_version", "which", nm.name, "node", n, "nops", len(ops))
				d.putInt(e, "major", opAt(ops, 0))
				d.putInt(e, "minor", opAt(ops, 1))
			}
		case "dx.shaderModel":
			for _, n := range nm.ops {
				ops := d.mdOps(n)
				kind, ok := d.mdStr(opAt(ops, 0))
				e := d.s.add("dx_shader_model", "node", n, "nops", len(ops), "kind", kind, "kind_ok", ok)
				d.putInt(e, "major", opAt(ops, 1))
				d.putInt(e, "minor", opAt(ops, 2))
			}
		case "dx.resources":
			for _, n := range nm.ops {
				d.dxResources(n, "module")
			}
		case "dx.entryPoints":
			for k, n := range nm.ops {
				d.dxEntry(k, n)
			}
		}
	}
}

var resClassNames = []string{"srv", "uav", "cbv", "sampler"}

func (d *irDecoder) dxResources(n int, scope string) {
	ops := d.mdOps(n)
	counts := []int{0, 0, 0, 0}
	e := d.s.add("dx_resources", "scope", scope, "node", n, "nops", len(ops))
	total := 0
	for cls := 0; cls < 4 && cls < len(ops); cls++ {
		list := d.mdOps(ops[cls])
		counts[cls] = len(list)
		total += len(list)
		for k, rn := range list {
			ro := d.mdOps(rn)
			name, _ := d.mdStr(opAt(ro, 2))
			re := d.s.add("dx_resource", "scope", scope, "class", cls, "class_name", resClassNames[cls], "k", k, "node", rn, "nops", len(ro), "name", name)
			d.putInt(re, "id", opAt(ro, 0))
			d.putInt(re, "space", opAt(ro, 3))
			d.putInt(re, "lower", opAt(ro, 4))
			d.putInt(re, "range", opAt(ro, 5))
			lo, ok1 := d.mdInt(opAt(ro, 4))
			rg, ok2 := d.mdInt(opAt(ro, 5))
			if ok1 && ok2 {
				// DXC: UpperBound = RangeSize == UINT_MAX ? UINT_MAX : Lower+Range-1
				if uint32(uint64(rg)) == 0xFFFFFFFF {
					re["upper"] = -1
				} else {
					re["upper"] = s32(uint32(uint64(lo)) + uint32(uint64(rg)) - 1)
				}
				re["unbounded"] = uint32(uint64(rg)) == 0xFFFFFFFF
			}
			if cls == 0 || cls == 1 {
				d.putInt(re, "shape", opAt(ro, 6))
			}
			gv := opAt(ro, 1)
			if gv >= 0 && gv < len(d.mds) && d.mds[gv].kind == "value" {
				re["symbol_value"] = d.mds[gv].val
				if v := d.mds[gv].val; v >= 0 && v < len(d.vals) {
					re["symbol_kind"] = d.vals[v].kind
					re["symbol_const_kind"] = d.vals[v].ckind
				}
			}
		}
	}
	e["srv"], e["uav"], e["cbv"], e["sampler"] = counts[0], counts[1], counts[2], counts[3]
	e["total"] = total
}

func (d *irDecoder) dxEntry(k, n int) {
	ops := d.mdOps(n)
	name, nameOK := d.mdStr(opAt(ops, 1))
	e := d.s.add("dx_entry", "k", k, "node", n, "nops", len(ops), "name", name, "name_ok", nameOK,
		"sigs", opAt(ops, 2), "resources", opAt(ops, 3), "props", opAt(ops, 4), "fn", -1)
	if f := opAt(ops, 0); f >= 0 && f < len(d.mds) && d.mds[f].kind == "value" {
		v := d.mds[f].val
		e["fn"] = v
		if v >= 0 && v < len(d.vals) {
			e["fn_kind"] = d.vals[v].kind
			e["fn_is_decl"] = d.vals[v].isDecl
			e["fn_name"] = d.names[v]
			e["fn_name_matches"] = d.names[v] == name
		}
	}
	// signatures: !{inputs, outputs, patch-constant/primitive}
	for w, sn := range d.mdOps(opAt(ops, 2)) {
		which := []string{"in", "out", "pc"}
		if w >= len(which) {
			break
		}
		for j, en := range d.mdOps(sn) {
			eo := d.mdOps(en)
			nm, _ := d.mdStr(opAt(eo, 1))
			se := d.s.add("dx_sig_elem", "entry", k, "which", which[w], "k", j, "node", en, "nops", len(eo), "name", nm)
			d.putInt(se, "id", opAt(eo, 0))
			d.putInt(se, "comp_type", opAt(eo, 2))
			d.putInt(se, "semantic_kind", opAt(eo, 3))
			d.putInt(se, "interp", opAt(eo, 5))
			d.putInt(se, "rows", opAt(eo, 6))
			d.putInt(se, "cols", opAt(eo, 7))
			d.putInt(se, "start_row", opAt(eo, 8))
			d.putInt(se, "start_col", opAt(eo, 9))
			idxs := []int{}
			for _, in := range d.mdOps(opAt(eo, 4)) {
				if v, ok := d.mdInt(in); ok {
					idxs = append(idxs, s32(uint32(uint64(v))))
				} else {
					idxs = append(idxs, -1)
				}
			}
			if len(idxs) > 32 {
				idxs = idxs[:32]
			}
			se["sem_indexes"] = idxs
		}
	}
	if rn := opAt(ops, 3); rn >= 0 {
		d.dxResources(rn, fmt.Sprintf("entry%d", k))
	}
	// properties: flat tag/value list
	props := d.mdOps(opAt(ops, 4))
	for i := 0; i+1 < len(props); i += 2 {
		pe := d.s.add("dx_entry_prop", "entry", k, "tag_node", props[i], "value_node", props[i+1])
		d.putInt(pe, "tag", props[i])
		if v, ok := d.mdInt(props[i+1]); ok {
			pe["lo"] = s32(uint32(uint64(v)))
			pe["hi"] = s32(uint32(uint64(v) >> 32))
		}
		if tag, ok := d.mdInt(props[i]); ok && tag == 4 { // kDxilNumThreadsTag
			t := d.mdOps(props[i+1])
			d.putInt(pe, "threads_x", opAt(t, 0))
			d.putInt(pe, "threads_y", opAt(t, 1))
			d.putInt(pe, "threads_z", opAt(t, 2))
		}
	}
	if len(props)%2 == 1 {
		e["props_odd"] = true
	}
}
