package dxbc

import (
	"encoding/binary"
	"fmt"
)

// PSV0 layout (DxilPipelineStateValidation.h), all little-endian, every
// section 4-byte aligned:
//
//	u32 RuntimeInfoSize ; RuntimeInfo[RuntimeInfoSize]
//	    Info0 (24): 16-byte per-stage union, u32 MinWaveLanes, u32 MaxWaveLanes
//	    Info1 (+12 = 36): u8 ShaderStage, u8 UsesViewID, u16 stage union
//	        (GS MaxVertexCount | HS/DS u8 SigPatchConstOrPrimVectors | MS u8
//	        SigPrimVectors,u8 MeshOutputTopology), u8 SigInputElements,
//	        u8 SigOutputElements, u8 SigPatchConstOrPrimElements,
//	        u8 SigInputVectors, u8 SigOutputVectors[4]
//	    Info2 (+12 = 48): u32 NumThreadsX,Y,Z
//	    Info3 (+4  = 52): u32 EntryFunctionName (string table offset)
//	u32 ResourceCount
//	if ResourceCount > 0: u32 BindInfoSize ; BindInfo[ResourceCount]
//	    BindInfo0 (16): u32 ResType, Space, LowerBound, UpperBound
//	    BindInfo1 (+8 = 24): u32 ResKind, ResFlags
//	if RuntimeInfoSize >= 36:
//	    u32 StringTableSize (multiple of 4) ; bytes
//	    u32 SemanticIndexTableEntries ; u32[entries]
//	    if any Sig*Elements > 0: u32 SigElementSize ; elements (in, out, pc/prim)
//	        Element0 (16): u32 SemanticName, u32 SemanticIndexes, u8 Rows,
//	        u8 StartRow, u8 ColsAndStart, u8 SemanticKind, u8 ComponentType,
//	        u8 InterpolationMode, u8 DynamicMaskAndStream, u8 Reserved
//	    if UsesViewID: per stream with SigOutputVectors[i] > 0 a view-id output
//	        mask of ceil(vectors/8) dwords; for HS (and MS) one more for
//	        SigPatchConstOrPrimVectors
//	    per stream with in>0 && out[i]>0: input->output table of
//	        ceil(out[i]/8) * in * 4 dwords
//	    HS: input->patch-constant table; DS: patch-constant->output table
const (
	psvInfo0Size = 24
	psvInfo1Size = 36
	psvInfo2Size = 48
	psvInfo3Size = 52
)

type psvReader struct {
	d   []byte
	pos uint64
}

func (r *psvReader) u32() (uint32, bool) {
	if r.pos+4 > uint64(len(r.d)) {
		return 0, false
	}
	v := binary.LittleEndian.Uint32(r.d[r.pos:])
	r.pos += 4
	return v, true
}

func (r *psvReader) take(n uint64) ([]byte, bool) {
	if n > uint64(len(r.d))-r.pos {
		return nil, false
	}
	b := r.d[r.pos : r.pos+n]
	r.pos += n
	return b, true
}

func maskDwords(vectors uint64) uint64 { return (vectors + 7) >> 3 }

func psvEvents(s *sink, p *Part) {
	r := &psvReader{d: p.Data}
	fail := func(what string) {
		s.err("psv", p.FourCC, p.DataStart+r.pos, fmt.Sprintf("PSV0: %s at payload offset %d runs past the %d-byte payload", what, r.pos, len(p.Data)))
	}
	infoSize, ok := r.u32()
	if !ok {
		fail("runtime info size")
		return
	}
	infoAt := r.pos
	info, ok := r.take(uint64(infoSize))
	if !ok {
		fail(fmt.Sprintf("runtime info of %d bytes", infoSize))
		return
	}
	e := s.add("psv", "i", p.Index, "size", len(p.Data), "info_size", s32(infoSize), "info_at", fit32(infoAt),
		"info_aligned4", infoSize%4 == 0,
		"info_version", psvInfoVersion(infoSize),
		"info_known_size", infoSize == psvInfo0Size || infoSize == psvInfo1Size || infoSize == psvInfo2Size || infoSize == psvInfo3Size)
	var stage, usesViewID uint8
	var sigIn, sigOut, sigPC, inVec uint8
	var outVec [4]uint8
	var pcVec uint8
	if len(info) >= psvInfo0Size {
		union := make([]int, 16)
		for i := 0; i < 16; i++ {
			union[i] = int(info[i])
		}
		e["union"] = union
		e["union_w0"] = s32(binary.LittleEndian.Uint32(info[0:]))
		e["union_w1"] = s32(binary.LittleEndian.Uint32(info[4:]))
		e["union_w2"] = s32(binary.LittleEndian.Uint32(info[8:]))
		e["union_w3"] = s32(binary.LittleEndian.Uint32(info[12:]))
		e["min_wave"] = s32(binary.LittleEndian.Uint32(info[16:]))
		e["max_wave"] = s32(binary.LittleEndian.Uint32(info[20:]))
	}
	if len(info) >= psvInfo1Size {
		stage, usesViewID = info[24], info[25]
		sigIn, sigOut, sigPC, inVec = info[28], info[29], info[30], info[31]
		copy(outVec[:], info[32:36])
		e["stage"] = int(stage)
		e["stage_name"] = ShaderKindName(uint32(stage))
		e["uses_view_id"] = int(usesViewID)
		e["stage_union_lo"] = int(info[26])
		e["stage_union_hi"] = int(info[27])
		e["sig_in_elems"] = int(sigIn)
		e["sig_out_elems"] = int(sigOut)
		e["sig_pc_elems"] = int(sigPC)
		e["sig_in_vectors"] = int(inVec)
		e["sig_out_vectors"] = []int{int(outVec[0]), int(outVec[1]), int(outVec[2]), int(outVec[3])}
		// HS(3)/DS(4): byte 26 is SigPatchConstOrPrimVectors; MS(13): SigPrimVectors.
		if stage == 3 || stage == 4 || stage == 13 {
			pcVec = info[26]
		}
	}
	if len(info) >= psvInfo2Size {
		e["threads_x"] = s32(binary.LittleEndian.Uint32(info[36:]))
		e["threads_y"] = s32(binary.LittleEndian.Uint32(info[40:]))
		e["threads_z"] = s32(binary.LittleEndian.Uint32(info[44:]))
	}
	entryNameOff := uint32(0)
	haveEntryName := false
	if len(info) >= psvInfo3Size {
		entryNameOff = binary.LittleEndian.Uint32(info[48:])
		haveEntryName = true
		e["entry_name_offset"] = s32(entryNameOff)
	}
	if len(info) > psvInfo3Size {
		e["info_extra_bytes"] = len(info) - psvInfo3Size
	}

	resCount, ok := r.u32()
	if !ok {
		fail("resource count")
		return
	}
	e["resource_count"] = s32(resCount)
	if resCount > 0 {
		bindSize, ok := r.u32()
		if !ok {
			fail("resource bind info size")
			return
		}
		e["bind_size"] = s32(bindSize)
		e["bind_size_known"] = bindSize == 16 || bindSize == 24
		if bindSize == 0 {
			s.err("psv", p.FourCC, p.DataStart+r.pos, "PSV0: resource bind info size is 0; not iterating the resources")
			return
		}
		for k := uint64(0); k < uint64(resCount); k++ {
			at := r.pos
			b, ok := r.take(uint64(bindSize))
			if !ok {
				fail(fmt.Sprintf("resource %d of %d (record size %d)", k, resCount, bindSize))
				return
			}
			re := s.add("psv_res", "k", fit32(k), "at", fit32(at))
			if len(b) >= 16 {
				re["type"] = s32(binary.LittleEndian.Uint32(b[0:]))
				re["space"] = s32(binary.LittleEndian.Uint32(b[4:]))
				re["lower"] = s32(binary.LittleEndian.Uint32(b[8:]))
				re["upper"] = s32(binary.LittleEndian.Uint32(b[12:]))
			}
			if len(b) >= 24 {
				re["kind"] = s32(binary.LittleEndian.Uint32(b[16:]))
				re["flags"] = s32(binary.LittleEndian.Uint32(b[20:]))
			}
		}
	}
	if len(info) < psvInfo1Size {
		s.add("psv_end", "pos", fit32(r.pos), "size", len(p.Data), "trailing", len(p.Data)-fit32(r.pos),
			"trailing_zero", allZero(p.Data[r.pos:]))
		return
	}

	stSize, ok := r.u32()
	if !ok {
		fail("string table size")
		return
	}
	stAt := r.pos
	strtab, ok := r.take(uint64(stSize))
	if !ok {
		fail(fmt.Sprintf("string table of %d bytes", stSize))
		return
	}
	se := s.add("psv_strtab", "size", s32(stSize), "at", fit32(stAt), "aligned4", stSize%4 == 0)
	if haveEntryName {
		name, inb := cstringAt(strtab, uint64(entryNameOff))
		se["entry_name"] = name
		se["entry_name_in_bounds"] = inb
	}
	nIdx, ok := r.u32()
	if !ok {
		fail("semantic index table entry count")
		return
	}
	idxAt := r.pos
	idxBytes, ok := r.take(4 * uint64(nIdx))
	if !ok {
		fail(fmt.Sprintf("semantic index table of %d entries", nIdx))
		return
	}
	idxPrefix := []int{}
	for k := 0; k+4 <= len(idxBytes) && k < 64; k += 4 {
		idxPrefix = append(idxPrefix, s32(binary.LittleEndian.Uint32(idxBytes[k:])))
	}
	s.add("psv_semidx", "entries", s32(nIdx), "at", fit32(idxAt), "first", idxPrefix)

	nElems := uint64(sigIn) + uint64(sigOut) + uint64(sigPC)
	if nElems > 0 {
		elSize, ok := r.u32()
		if !ok {
			fail("signature element size")
			return
		}
		s.add("psv_sig_size", "size", s32(elSize), "known", elSize == 16, "count", fit32(nElems))
		if elSize == 0 {
			s.err("psv", p.FourCC, p.DataStart+r.pos, "PSV0: signature element size is 0; not iterating further")
			return
		}
		for k := uint64(0); k < nElems; k++ {
			at := r.pos
			b, ok := r.take(uint64(elSize))
			if !ok {
				fail(fmt.Sprintf("signature element %d of %d (record size %d)", k, nElems, elSize))
				return
			}
			which, wk := "in", k
			switch {
			case k >= uint64(sigIn)+uint64(sigOut):
				which, wk = "pc", k-uint64(sigIn)-uint64(sigOut)
			case k >= uint64(sigIn):
				which, wk = "out", k-uint64(sigIn)
			}
			ee := s.add("psv_sig", "which", which, "k", fit32(wk), "at", fit32(at))
			if len(b) >= 16 {
				nameOff := binary.LittleEndian.Uint32(b[0:])
				semIdx := binary.LittleEndian.Uint32(b[4:])
				name, inb := cstringAt(strtab, uint64(nameOff))
				rows := b[8]
				ee["name_offset"] = s32(nameOff)
				ee["name"] = name
				ee["name_in_bounds"] = inb
				ee["sem_indexes"] = s32(semIdx)
				ee["sem_indexes_in_bounds"] = uint64(semIdx)+uint64(rows) <= uint64(nIdx)
				ee["rows"] = int(rows)
				ee["start_row"] = int(b[9])
				ee["cols"] = int(b[10] & 0xF)
				ee["start_col"] = int(b[10]>>4) & 3
				ee["allocated"] = int(b[10]>>6) & 1
				ee["cols_and_start"] = int(b[10])
				ee["semantic_kind"] = int(b[11])
				ee["comp_type"] = int(b[12])
				ee["interp"] = int(b[13])
				ee["dyn_mask"] = int(b[14] & 0xF)
				ee["stream"] = int(b[14]>>4) & 3
				ee["dyn_mask_and_stream"] = int(b[14])
				ee["reserved"] = int(b[15])
			}
		}
	}

	// Dependency tables. Sizes are fully determined by the header fields.
	dep := func(name string, dwords uint64) bool {
		if dwords == 0 {
			return true
		}
		at := r.pos
		b, ok := r.take(4 * dwords)
		if !ok {
			s.add("psv_table", "name", name, "dwords", fit32(dwords), "at", fit32(at), "fits", false)
			fail(fmt.Sprintf("%s table of %d dwords", name, dwords))
			return false
		}
		s.add("psv_table", "name", name, "dwords", fit32(dwords), "at", fit32(at), "fits", true, "all_zero", allZero(b))
		return true
	}
	if usesViewID != 0 {
		for i := 0; i < 4; i++ {
			if !dep(fmt.Sprintf("viewid_out%d", i), maskDwords(uint64(outVec[i]))) {
				return
			}
		}
		if (stage == 3 || stage == 13) && pcVec > 0 {
			if !dep("viewid_pc", maskDwords(uint64(pcVec))) {
				return
			}
		}
	}
	for i := 0; i < 4; i++ {
		if inVec > 0 && outVec[i] > 0 {
			if !dep(fmt.Sprintf("in_to_out%d", i), maskDwords(uint64(outVec[i]))*uint64(inVec)*4) {
				return
			}
		}
	}
	if stage == 3 && pcVec > 0 && inVec > 0 {
		if !dep("in_to_pc", maskDwords(uint64(pcVec))*uint64(inVec)*4) {
			return
		}
	}
	if stage == 4 && outVec[0] > 0 && pcVec > 0 {
		if !dep("pc_to_out", maskDwords(uint64(outVec[0]))*uint64(pcVec)*4) {
			return
		}
	}
	s.add("psv_end", "pos", fit32(r.pos), "size", len(p.Data), "trailing", len(p.Data)-fit32(r.pos),
		"trailing_zero", allZero(p.Data[r.pos:]))
}

func psvInfoVersion(size uint32) int {
	switch {
	case size >= psvInfo3Size:
		return 3
	case size >= psvInfo2Size:
		return 2
	case size >= psvInfo1Size:
		return 1
	case size >= psvInfo0Size:
		return 0
	}
	return -1
}

func allZero(b []byte) bool {
	for _, c := range b {
		if c != 0 {
			return false
		}
	}
	return true
}
