package dxbc

import (
	"encoding/binary"
	"fmt"
)

// Container is the decoded DXBC container header and part table. Every field
// is the raw stored value; nothing is corrected.
type Container struct {
	Bin          []byte
	Magic        [4]byte
	Digest       [16]byte
	VerMajor     uint16
	VerMinor     uint16
	DeclaredSize uint32
	PartCount    uint32
	// PartOffsets holds as many offset-table entries as physically fit.
	PartOffsets []uint32
	// OffsetTableEnd is 32 + 4*PartCount computed in 64 bits.
	OffsetTableEnd uint64
	Parts          []*Part
}

// Part is one container part located through the offset table.
type Part struct {
	Index        int
	Offset       uint32 // offset-table entry: position of the fourcc
	HeaderOK     bool   // the 8-byte part header lies inside the file
	FourCC       string // 4 raw bytes as a string ("" when !HeaderOK)
	FourCCRaw    uint32
	DeclaredSize uint32
	DataStart    uint64 // Offset+8
	End          uint64 // Offset+8+DeclaredSize, in 64 bits
	InBounds     bool   // End <= len(file)
	// Data is the part payload clamped to the file (shorter than DeclaredSize
	// when !InBounds).
	Data []byte
}

// ContainerHeaderSize is the fixed header size (through PartCount).
const ContainerHeaderSize = 32

// ParseContainer decodes the header and the part table. It fails only when the
// fixed 32-byte header is not present; everything else is reported as facts.
func ParseContainer(bin []byte) (*Container, error) {
	c := &Container{Bin: bin}
	if len(bin) < ContainerHeaderSize {
		copy(c.Magic[:], bin)
		return c, fmt.Errorf("container of %d bytes is shorter than the %d-byte header", len(bin), ContainerHeaderSize)
	}
	copy(c.Magic[:], bin[0:4])
	copy(c.Digest[:], bin[4:20])
	c.VerMajor = binary.LittleEndian.Uint16(bin[20:])
	c.VerMinor = binary.LittleEndian.Uint16(bin[22:])
	c.DeclaredSize = binary.LittleEndian.Uint32(bin[24:])
	c.PartCount = binary.LittleEndian.Uint32(bin[28:])
	c.OffsetTableEnd = ContainerHeaderSize + 4*uint64(c.PartCount)
	for i := uint64(0); i < uint64(c.PartCount); i++ {
		at := ContainerHeaderSize + 4*i
		if at+4 > uint64(len(bin)) {
			break
		}
		c.PartOffsets = append(c.PartOffsets, binary.LittleEndian.Uint32(bin[at:]))
	}
	for i, off := range c.PartOffsets {
		p := &Part{Index: i, Offset: off}
		o := uint64(off)
		if o+8 <= uint64(len(bin)) {
			p.HeaderOK = true
			p.FourCC = string(bin[o : o+4])
			p.FourCCRaw = binary.LittleEndian.Uint32(bin[o:])
			p.DeclaredSize = binary.LittleEndian.Uint32(bin[o+4:])
			p.DataStart = o + 8
			p.End = o + 8 + uint64(p.DeclaredSize)
			p.InBounds = p.End <= uint64(len(bin))
			end := p.End
			if end > uint64(len(bin)) {
				end = uint64(len(bin))
			}
			p.Data = bin[p.DataStart:end]
		} else {
			p.DataStart = o + 8
			p.End = o + 8
		}
		c.Parts = append(c.Parts, p)
	}
	return c, nil
}

// FindPart returns the first part with the given fourcc, or nil.
func (c *Container) FindPart(fourcc string) *Part {
	for _, p := range c.Parts {
		if p.HeaderOK && p.FourCC == fourcc {
			return p
		}
	}
	return nil
}

// ProgramHeader is the DxilProgramHeader that prefixes the bitcode inside
// DXIL / ILDB / STAT parts.
//
//	u32 ProgramVersion   (kind<<16 | major<<4 | minor)
//	u32 SizeInUint32     (whole part payload, in dwords)
//	u32 DxilMagic        ('D','X','I','L' = 0x4C495844)
//	u32 DxilVersion      (major<<8 | minor)
//	u32 BitcodeOffset    (from the DxilMagic field, i.e. payload offset 8)
//	u32 BitcodeSize      (bytes)
type ProgramHeader struct {
	OK             bool // 24 header bytes were present
	ProgramVersion uint32
	Kind           uint32
	Major, Minor   uint32
	SizeDwords     uint32
	Magic          uint32
	DxilVersion    uint32
	BitcodeOffset  uint32
	BitcodeSize    uint32
	BCStart, BCEnd uint64 // payload-relative byte range of the bitcode (64-bit)
	BCInBounds     bool
	// Bitcode is the bitcode range clamped to the payload.
	Bitcode []byte
}

// ProgramHeaderSize is the size of DxilProgramHeader.
const ProgramHeaderSize = 24

// DxilMagic is "DXIL" read as a little-endian u32.
const DxilMagic = 0x4C495844

func parseProgramHeader(data []byte) ProgramHeader {
	var h ProgramHeader
	if len(data) < ProgramHeaderSize {
		return h
	}
	h.OK = true
	h.ProgramVersion = binary.LittleEndian.Uint32(data[0:])
	h.Kind = h.ProgramVersion >> 16
	h.Major = (h.ProgramVersion >> 4) & 0xF
	h.Minor = h.ProgramVersion & 0xF
	h.SizeDwords = binary.LittleEndian.Uint32(data[4:])
	h.Magic = binary.LittleEndian.Uint32(data[8:])
	h.DxilVersion = binary.LittleEndian.Uint32(data[12:])
	h.BitcodeOffset = binary.LittleEndian.Uint32(data[16:])
	h.BitcodeSize = binary.LittleEndian.Uint32(data[20:])
	h.BCStart = 8 + uint64(h.BitcodeOffset)
	h.BCEnd = h.BCStart + uint64(h.BitcodeSize)
	h.BCInBounds = h.BCEnd <= uint64(len(data))
	s, e := h.BCStart, h.BCEnd
	if s > uint64(len(data)) {
		s = uint64(len(data))
	}
	if e > uint64(len(data)) {
		e = uint64(len(data))
	}
	h.Bitcode = data[s:e]
	return h
}

// ShaderKindName maps the DXIL ShaderKind enum (== D3D11_SHADER_VERSION_TYPE
// for the classic stages) to the short names used in dx.shaderModel.
func ShaderKindName(k uint32) string {
	names := []string{"ps", "vs", "gs", "hs", "ds", "cs", "lib", "raygeneration",
		"intersection", "anyhit", "closesthit", "miss", "callable", "ms", "as", "node"}
	if int(k) < len(names) {
		return names[k]
	}
	return fmt.Sprintf("kind%d", k)
}

// SigElement is one DxilProgramSignatureElement (32 bytes).
type SigElement struct {
	Stream       uint32
	NameOffset   uint32
	Name         string
	NameInBounds bool // offset inside the part and NUL terminated inside it
	SemIndex     uint32
	SystemValue  uint32
	CompType     uint32
	Register     uint32
	Mask         uint8
	RWMask       uint8
	Pad          uint16
	MinPrecision uint32
}

// Signature is a decoded ISG1/OSG1/PSG1 payload.
type Signature struct {
	HeaderOK    bool
	ParamCount  uint32
	ParamOffset uint32
	ElemsEnd    uint64 // ParamOffset + 32*ParamCount
	ElemsFit    bool
	Elems       []SigElement
}

// SigElementSize is sizeof(DxilProgramSignatureElement).
const SigElementSize = 32

func parseSignature(data []byte) Signature {
	var s Signature
	if len(data) < 8 {
		return s
	}
	s.HeaderOK = true
	s.ParamCount = binary.LittleEndian.Uint32(data[0:])
	s.ParamOffset = binary.LittleEndian.Uint32(data[4:])
	s.ElemsEnd = uint64(s.ParamOffset) + SigElementSize*uint64(s.ParamCount)
	s.ElemsFit = s.ElemsEnd <= uint64(len(data))
	for i := uint64(0); i < uint64(s.ParamCount); i++ {
		at := uint64(s.ParamOffset) + SigElementSize*i
		if at+SigElementSize > uint64(len(data)) {
			break
		}
		e := data[at:]
		el := SigElement{
			Stream:       binary.LittleEndian.Uint32(e[0:]),
			NameOffset:   binary.LittleEndian.Uint32(e[4:]),
			SemIndex:     binary.LittleEndian.Uint32(e[8:]),
			SystemValue:  binary.LittleEndian.Uint32(e[12:]),
			CompType:     binary.LittleEndian.Uint32(e[16:]),
			Register:     binary.LittleEndian.Uint32(e[20:]),
			Mask:         e[24],
			RWMask:       e[25],
			Pad:          binary.LittleEndian.Uint16(e[26:]),
			MinPrecision: binary.LittleEndian.Uint32(e[28:]),
		}
		el.Name, el.NameInBounds = cstringAt(data, uint64(el.NameOffset))
		s.Elems = append(s.Elems, el)
	}
	return s
}

// cstringAt reads a NUL-terminated string; ok is false when the offset is out
// of range or no terminator exists before the end of data (the unterminated
// prefix is still returned).
func cstringAt(data []byte, off uint64) (string, bool) {
	if off >= uint64(len(data)) {
		return "", false
	}
	for i := off; i < uint64(len(data)); i++ {
		if data[i] == 0 {
			return string(data[off:i]), true
		}
	}
	return string(data[off:]), false
}
