package dxbc

import (
	"encoding/binary"
	"fmt"
)

// Bitstream abbreviation IDs fixed by the LLVM bitstream container format.
const (
	abbrevEndBlock      = 0
	abbrevEnterSubblock = 1
	abbrevDefineAbbrev  = 2
	abbrevUnabbrevRec   = 3
	firstUserAbbrev     = 4
)

// Abbreviation operand encodings (the 3-bit "encoding" field of DEFINE_ABBREV).
// OpLiteral is not an on-disk encoding value: literal operands are flagged by
// a separate 1-bit field.
const (
	OpLiteral = 0
	OpFixed   = 1
	OpVBR     = 2
	OpArray   = 3
	OpChar6   = 4
	OpBlob    = 5
)

// OpKindName gives the short name used in events for an abbreviation operand kind.
func OpKindName(k int) string {
	switch k {
	case OpLiteral:
		return "lit"
	case OpFixed:
		return "fixed"
	case OpVBR:
		return "vbr"
	case OpArray:
		return "array"
	case OpChar6:
		return "char6"
	case OpBlob:
		return "blob"
	}
	return fmt.Sprintf("enc%d", k)
}

// BlockInfoID is the id of the standard BLOCKINFO block.
const BlockInfoID = 0

// TopLevelID is the pseudo block id of the root returned by ParseBitstream.
const TopLevelID = 0xFFFFFFFF

// maxBlockDepth bounds recursion for hostile input. LLVM itself has no limit;
// exceeding it is reported as an error rather than silently accepted.
const maxBlockDepth = 128

// maxZeroWidthArray bounds the element count of arrays whose elements occupy
// zero bits (literal / fixed(0) / vbr(0) elements), which would otherwise let
// a 6-bit-per-chunk length field demand unbounded memory. zeroWidthBudget
// bounds the total over a whole stream.
const (
	maxZeroWidthArray = 1 << 16
	zeroWidthBudget   = 1 << 20
)

// AbbrevOp is one operand of an abbreviation definition. For OpLiteral, Value
// is the literal; for OpFixed/OpVBR it is the bit width; otherwise unused.
type AbbrevOp struct {
	Kind  int
	Value uint64
}

// Abbrev is an abbreviation definition as it appeared in the stream.
type Abbrev struct {
	Ops    []AbbrevOp
	BitPos uint64 // position of the DEFINE_ABBREV abbrev id
	// ForBlock is the block id the abbreviation is registered for: the
	// enclosing block, or the SETBID target when defined inside BLOCKINFO.
	ForBlock uint32
	// InBlockInfo is true when the definition sits in a BLOCKINFO block.
	InBlockInfo bool
	// NoSetBID is true for a BLOCKINFO definition that precedes any SETBID.
	NoSetBID bool
}

// Record is one data record with its abbreviation already resolved.
type Record struct {
	AbbrevID uint32
	Code     uint64
	Ops      []uint64
	Blob     []byte // payload of a trailing blob operand, if the abbreviation had one
	BitPos   uint64 // position of the abbrev id that starts the record
	EndBit   uint64
}

// Item is one entry of a block body, in stream order. Exactly one field is set.
type Item struct {
	Rec *Record
	Sub *Block
	Def *Abbrev
}

// Block is a bitstream block. All positions are bit offsets from the start of
// the byte slice handed to ParseBitstream (so the magic occupies bits 0..31).
type Block struct {
	ID            uint32
	AbbrevWidth   uint32 // abbrev id width used INSIDE this block
	DeclaredWords uint32 // the 32-bit length word of ENTER_SUBBLOCK
	StartBit      uint64 // position of the ENTER_SUBBLOCK abbrev id
	LenWordBit    uint64 // position of the (aligned) length word
	BodyBit       uint64 // first bit of the body (after the length word)
	EndBlockBit   uint64 // position of the END_BLOCK abbrev id
	EndBit        uint64 // first bit after END_BLOCK's 32-bit alignment
	Closed        bool   // END_BLOCK was seen
	Depth         int    // 0 for blocks directly at the top level
	Items         []Item
	Parent        *Block
	// Abbrevs is the abbreviation list in effect at the end of the block:
	// BLOCKINFO-registered ones first, then locally defined ones. Abbrev id
	// k (k >= 4) refers to Abbrevs[k-4].
	Abbrevs []*Abbrev
	// NumInherited is how many leading entries of Abbrevs came from BLOCKINFO.
	NumInherited int
}

// ComputedWords is the body length in 32-bit words implied by the actual
// position of END_BLOCK (valid when Closed). The division is exact only when
// both ends are 32-bit aligned; ComputedAligned reports that.
func (b *Block) ComputedWords() uint64 { return (b.EndBit - b.BodyBit) / 32 }

// ComputedAligned reports whether body start and end are both 32-bit aligned.
func (b *Block) ComputedAligned() bool { return b.BodyBit%32 == 0 && b.EndBit%32 == 0 }

// BitError is a decoding failure at a bit position.
type BitError struct {
	Bit uint64
	Msg string
}

func (e *BitError) Error() string { return fmt.Sprintf("bit %d: %s", e.Bit, e.Msg) }

// Stream carries whole-stream facts gathered by ParseBitstream.
type Stream struct {
	Root        *Block
	Magic       uint32 // first 32 bits (0xDEC04342 for 'B','C',0xC0,0xDE)
	HaveMagic   bool
	TotalBits   uint64
	Consumed    uint64 // bits consumed when the walk stopped
	TrailingAll bool   // every bit from Consumed to the end is zero
	Err         *BitError
}

type bitReader struct {
	data []byte
	pos  uint64
	end  uint64
}

func (r *bitReader) remaining() uint64 { return r.end - r.pos }

func (r *bitReader) read(n uint32) (uint64, *BitError) {
	if n == 0 {
		return 0, nil
	}
	if n > 64 {
		return 0, &BitError{r.pos, fmt.Sprintf("read width %d exceeds 64", n)}
	}
	if uint64(n) > r.remaining() {
		return 0, &BitError{r.pos, fmt.Sprintf("read of %d bits runs past end of stream (%d bits left)", n, r.remaining())}
	}
	var v uint64
	got := uint32(0)
	for got < n {
		byteIdx := r.pos >> 3
		bitOff := uint32(r.pos & 7)
		take := 8 - bitOff
		if take > n-got {
			take = n - got
		}
		chunk := (uint64(r.data[byteIdx]) >> bitOff) & ((1 << take) - 1)
		v |= chunk << got
		got += take
		r.pos += uint64(take)
	}
	return v, nil
}

func (r *bitReader) vbr(n uint32) (uint64, *BitError) {
	start := r.pos
	if n < 2 {
		return 0, &BitError{start, fmt.Sprintf("vbr width %d is not usable", n)}
	}
	if n > 32 {
		return 0, &BitError{start, fmt.Sprintf("vbr width %d exceeds 32", n)}
	}
	hi := uint64(1) << (n - 1)
	var v uint64
	shift := uint32(0)
	for {
		c, err := r.read(n)
		if err != nil {
			return 0, err
		}
		if shift < 64 {
			v |= (c & (hi - 1)) << shift
		}
		if c&hi == 0 {
			return v, nil
		}
		shift += n - 1
		if shift >= 64+n {
			return 0, &BitError{start, "vbr value does not terminate within 64 bits"}
		}
	}
}

func (r *bitReader) align32() *BitError {
	np := (r.pos + 31) &^ 31
	if np > r.end {
		return &BitError{r.pos, "32-bit alignment runs past end of stream"}
	}
	r.pos = np
	return nil
}

type bsParser struct {
	r *bitReader
	// blockInfo maps block id -> abbreviations registered through BLOCKINFO.
	blockInfo map[uint32][]*Abbrev
	zeroWidth uint64 // zero-width array elements materialised so far
}

const char6Table = "abcdefghijklmnopqrstuvwxyzABCDEFGHIJKLMNOPQRSTUVWXYZ0123456789._"

// ParseBitstream decodes a generic LLVM bitstream (magic included) into a
// block tree. The returned root is a pseudo block (ID TopLevelID, abbrev width
// 2) whose Items are the top-level blocks. On malformed input the tree decoded
// so far is returned together with a *BitError; blocks that were open at the
// failure point have Closed == false.
func ParseBitstream(bc []byte) (*Block, error) {
	s := ParseStream(bc)
	if s.Err != nil {
		return s.Root, s.Err
	}
	return s.Root, nil
}

// ParseStream is ParseBitstream plus the whole-stream facts.
func ParseStream(bc []byte) *Stream {
	s := &Stream{TotalBits: uint64(len(bc)) * 8}
	root := &Block{ID: TopLevelID, AbbrevWidth: 2, Depth: -1}
	s.Root = root
	r := &bitReader{data: bc, end: s.TotalBits}
	p := &bsParser{r: r, blockInfo: map[uint32][]*Abbrev{}}
	defer func() {
		s.Consumed = r.pos
		s.TrailingAll = allZeroBits(bc, r.pos)
	}()
	if len(bc) < 4 {
		s.Err = &BitError{0, fmt.Sprintf("stream of %d bytes is too short for the 32-bit magic", len(bc))}
		return s
	}
	s.Magic = binary.LittleEndian.Uint32(bc)
	s.HaveMagic = true
	r.pos = 32
	root.BodyBit = 32
	for {
		// A well-formed stream ends exactly at a word boundary after the
		// last top-level END_BLOCK. Anything left is either zero padding
		// (reported through TrailingAll) or more top-level items.
		if r.remaining() < 32 || allZeroBits(bc, r.pos) {
			break
		}
		at := r.pos
		id, err := r.read(2)
		if err != nil {
			s.Err = err
			return s
		}
		if id != abbrevEnterSubblock {
			r.pos = at
			s.Err = &BitError{at, fmt.Sprintf("top-level abbrev id %d is not ENTER_SUBBLOCK", id)}
			return s
		}
		sub, err := p.enterBlock(root, at)
		if sub != nil {
			root.Items = append(root.Items, Item{Sub: sub})
		}
		if err != nil {
			s.Err = err
			return s
		}
	}
	root.EndBit = r.pos
	root.Closed = true
	return s
}

func allZeroBits(data []byte, from uint64) bool {
	total := uint64(len(data)) * 8
	if from >= total {
		return true
	}
	bi := from >> 3
	if off := from & 7; off != 0 {
		if data[bi]>>off != 0 {
			return false
		}
		bi++
	}
	for ; bi < uint64(len(data)); bi++ {
		if data[bi] != 0 {
			return false
		}
	}
	return true
}

// enterBlock is called just after an ENTER_SUBBLOCK abbrev id was read at bit `at`.
func (p *bsParser) enterBlock(parent *Block, at uint64) (*Block, *BitError) {
	r := p.r
	id, err := r.vbr(8)
	if err != nil {
		return nil, err
	}
	width, err := r.vbr(4)
	if err != nil {
		return nil, err
	}
	b := &Block{StartBit: at, Parent: parent, Depth: parent.Depth + 1}
	b.ID = uint32(id)
	b.AbbrevWidth = uint32(width)
	if id > 0xFFFFFFFF {
		return nil, &BitError{at, fmt.Sprintf("block id %d does not fit 32 bits", id)}
	}
	if err := r.align32(); err != nil {
		return b, err
	}
	b.LenWordBit = r.pos
	lw, err := r.read(32)
	if err != nil {
		return b, err
	}
	b.DeclaredWords = uint32(lw)
	b.BodyBit = r.pos
	if width == 0 || width > 32 {
		return b, &BitError{at, fmt.Sprintf("block %d: new abbrev width %d is not in 1..32", b.ID, width)}
	}
	if b.Depth >= maxBlockDepth {
		return b, &BitError{at, fmt.Sprintf("block nesting deeper than %d", maxBlockDepth)}
	}
	inherited := p.blockInfo[b.ID]
	b.Abbrevs = append(b.Abbrevs, inherited...)
	b.NumInherited = len(inherited)

	curBID := uint32(0)
	haveBID := false
	for {
		pos := r.pos
		aid, err := r.read(b.AbbrevWidth)
		if err != nil {
			return b, err
		}
		switch aid {
		case abbrevEndBlock:
			b.EndBlockBit = pos
			if err := r.align32(); err != nil {
				return b, err
			}
			b.EndBit = r.pos
			b.Closed = true
			return b, nil
		case abbrevEnterSubblock:
			sub, err := p.enterBlock(b, pos)
			if sub != nil {
				b.Items = append(b.Items, Item{Sub: sub})
			}
			if err != nil {
				return b, err
			}
		case abbrevDefineAbbrev:
			ab, err := p.defineAbbrev(pos)
			if ab != nil {
				if b.ID == BlockInfoID {
					ab.InBlockInfo = true
					ab.ForBlock = curBID
					ab.NoSetBID = !haveBID
					if haveBID && err == nil {
						p.blockInfo[curBID] = append(p.blockInfo[curBID], ab)
					}
				} else {
					ab.ForBlock = b.ID
					if err == nil {
						b.Abbrevs = append(b.Abbrevs, ab)
					}
				}
				b.Items = append(b.Items, Item{Def: ab})
			}
			if err != nil {
				return b, err
			}
		case abbrevUnabbrevRec:
			rec, err := p.unabbrevRecord(pos)
			if rec != nil {
				b.Items = append(b.Items, Item{Rec: rec})
			}
			if err != nil {
				return b, err
			}
			if b.ID == BlockInfoID && rec.Code == 1 && len(rec.Ops) >= 1 && rec.Ops[0] <= 0xFFFFFFFF {
				curBID, haveBID = uint32(rec.Ops[0]), true
			}
		default:
			idx := aid - firstUserAbbrev
			if idx >= uint64(len(b.Abbrevs)) {
				r.pos = pos
				return b, &BitError{pos, fmt.Sprintf("block %d: abbrev id %d used but only %d abbreviations are defined (ids 4..%d)", b.ID, aid, len(b.Abbrevs), 3+len(b.Abbrevs))}
			}
			rec, err := p.abbrevRecord(pos, uint32(aid), b.Abbrevs[idx])
			if rec != nil {
				b.Items = append(b.Items, Item{Rec: rec})
			}
			if err != nil {
				return b, err
			}
			if b.ID == BlockInfoID && rec.Code == 1 && len(rec.Ops) >= 1 && rec.Ops[0] <= 0xFFFFFFFF {
				curBID, haveBID = uint32(rec.Ops[0]), true
			}
		}
	}
}

func (p *bsParser) defineAbbrev(at uint64) (*Abbrev, *BitError) {
	r := p.r
	n, err := r.vbr(5)
	if err != nil {
		return nil, err
	}
	// every operand costs at least 2 bits
	if n > r.remaining()/2 {
		return nil, &BitError{at, fmt.Sprintf("DEFINE_ABBREV declares %d operands with only %d bits left", n, r.remaining())}
	}
	ab := &Abbrev{BitPos: at}
	for i := uint64(0); i < n; i++ {
		lit, err := r.read(1)
		if err != nil {
			return ab, err
		}
		if lit == 1 {
			v, err := r.vbr(8)
			if err != nil {
				return ab, err
			}
			ab.Ops = append(ab.Ops, AbbrevOp{Kind: OpLiteral, Value: v})
			continue
		}
		enc, err := r.read(3)
		if err != nil {
			return ab, err
		}
		op := AbbrevOp{Kind: int(enc)}
		switch enc {
		case OpFixed, OpVBR:
			w, err := r.vbr(5)
			if err != nil {
				return ab, err
			}
			op.Value = w
		case OpArray, OpChar6, OpBlob:
		default:
			ab.Ops = append(ab.Ops, op)
			return ab, &BitError{at, fmt.Sprintf("DEFINE_ABBREV operand %d has unknown encoding %d", i, enc)}
		}
		ab.Ops = append(ab.Ops, op)
	}
	// Structural rules of the format: array must be second to last, blob last.
	for i, op := range ab.Ops {
		switch op.Kind {
		case OpArray:
			if i != len(ab.Ops)-2 {
				return ab, &BitError{at, fmt.Sprintf("DEFINE_ABBREV: array operand at position %d of %d is not second to last", i, len(ab.Ops))}
			}
			if k := ab.Ops[i+1].Kind; k == OpArray || k == OpBlob {
				return ab, &BitError{at, fmt.Sprintf("DEFINE_ABBREV: array element type is %s", OpKindName(k))}
			}
		case OpBlob:
			if i != len(ab.Ops)-1 {
				return ab, &BitError{at, fmt.Sprintf("DEFINE_ABBREV: blob operand at position %d of %d is not last", i, len(ab.Ops))}
			}
		case OpFixed, OpVBR:
			if op.Value > 64 {
				return ab, &BitError{at, fmt.Sprintf("DEFINE_ABBREV: %s width %d exceeds 64", OpKindName(op.Kind), op.Value)}
			}
		}
	}
	if len(ab.Ops) == 0 {
		return ab, &BitError{at, "DEFINE_ABBREV with no operands"}
	}
	return ab, nil
}

func (p *bsParser) unabbrevRecord(at uint64) (*Record, *BitError) {
	r := p.r
	code, err := r.vbr(6)
	if err != nil {
		return nil, err
	}
	n, err := r.vbr(6)
	if err != nil {
		return nil, err
	}
	rec := &Record{AbbrevID: abbrevUnabbrevRec, Code: code, BitPos: at}
	if n > r.remaining()/6 {
		rec.EndBit = r.pos
		return rec, &BitError{at, fmt.Sprintf("UNABBREV_RECORD declares %d operands with only %d bits left", n, r.remaining())}
	}
	rec.Ops = make([]uint64, 0, n)
	for i := uint64(0); i < n; i++ {
		v, err := r.vbr(6)
		if err != nil {
			rec.EndBit = r.pos
			return rec, err
		}
		rec.Ops = append(rec.Ops, v)
	}
	rec.EndBit = r.pos
	return rec, nil
}

func (p *bsParser) scalar(op AbbrevOp) (uint64, *BitError) {
	r := p.r
	switch op.Kind {
	case OpLiteral:
		return op.Value, nil
	case OpFixed:
		// fixed(0) reads nothing and yields 0 (LLVM treats it as literal zero)
		return r.read(uint32(op.Value))
	case OpVBR:
		if op.Value == 0 {
			return 0, nil
		}
		return r.vbr(uint32(op.Value))
	case OpChar6:
		c, err := r.read(6)
		if err != nil {
			return 0, err
		}
		return uint64(char6Table[c]), nil
	}
	return 0, &BitError{r.pos, fmt.Sprintf("operand kind %s is not scalar", OpKindName(op.Kind))}
}

func opMinBits(op AbbrevOp) uint64 {
	switch op.Kind {
	case OpFixed:
		return op.Value
	case OpVBR:
		return op.Value
	case OpChar6:
		return 6
	}
	return 0
}

func (p *bsParser) abbrevRecord(at uint64, aid uint32, ab *Abbrev) (*Record, *BitError) {
	r := p.r
	rec := &Record{AbbrevID: aid, BitPos: at}
	var vals []uint64
	fail := func(err *BitError) (*Record, *BitError) {
		if len(vals) > 0 {
			rec.Code = vals[0]
			rec.Ops = vals[1:]
		}
		rec.EndBit = r.pos
		return rec, err
	}
	for i := 0; i < len(ab.Ops); i++ {
		op := ab.Ops[i]
		switch op.Kind {
		case OpArray:
			n, err := r.vbr(6)
			if err != nil {
				return fail(err)
			}
			if i+1 >= len(ab.Ops) {
				return fail(&BitError{at, "array operand without element type"})
			}
			el := ab.Ops[i+1]
			if mb := opMinBits(el); mb > 0 {
				if n > r.remaining()/mb {
					return fail(&BitError{at, fmt.Sprintf("array of %d elements of >=%d bits with only %d bits left", n, mb, r.remaining())})
				}
			} else if n > maxZeroWidthArray || p.zeroWidth+n > zeroWidthBudget {
				return fail(&BitError{at, fmt.Sprintf("array of %d zero-width elements exceeds decoder limit (%d per record, %d per stream)", n, maxZeroWidthArray, zeroWidthBudget)})
			} else {
				p.zeroWidth += n
			}
			for k := uint64(0); k < n; k++ {
				v, err := p.scalar(el)
				if err != nil {
					return fail(err)
				}
				vals = append(vals, v)
			}
			i++ // element type consumed
		case OpBlob:
			n, err := r.vbr(6)
			if err != nil {
				return fail(err)
			}
			if err := r.align32(); err != nil {
				return fail(err)
			}
			if n > r.remaining()/8 {
				return fail(&BitError{at, fmt.Sprintf("blob of %d bytes with only %d bits left", n, r.remaining())})
			}
			start := r.pos >> 3
			rec.Blob = p.r.data[start : start+n]
			r.pos += n * 8
			if err := r.align32(); err != nil {
				return fail(err)
			}
		default:
			v, err := p.scalar(op)
			if err != nil {
				return fail(err)
			}
			vals = append(vals, v)
		}
	}
	if len(vals) == 0 {
		return fail(&BitError{at, "abbreviated record has no code operand"})
	}
	rec.Code = vals[0]
	rec.Ops = vals[1:]
	rec.EndBit = r.pos
	return rec, nil
}
