package dxbc

import (
	"fmt"
)

// Lint is a Go-side convenience pass over an event stream that lists every
// fact that looks inconsistent with the DXBC/DXIL/LLVM-3.7 format rules. It is
// NOT the authority (the TLA+ trace specification is); it exists so tests and
// reports can show, in one place, which facts a rule would trip over. Each
// finding is "<event>: <fact>".
func Lint(evs []Event) []string {
	var out []string
	add := func(format string, a ...any) { out = append(out, fmt.Sprintf(format, a...)) }
	geti := func(e Event, k string) int {
		if v, ok := e[k].(int); ok {
			return v
		}
		return -1
	}
	getb := func(e Event, k string) (bool, bool) {
		v, ok := e[k].(bool)
		return v, ok
	}
	isFalse := func(e Event, k string) bool {
		v, ok := getb(e, k)
		return ok && !v
	}
	isTrue := func(e Event, k string) bool {
		v, ok := getb(e, k)
		return ok && v
	}
	gets := func(e Event, k string) string {
		v, _ := e[k].(string)
		return v
	}
	getl := func(e Event, k string) []int {
		v, _ := e[k].([]int)
		return v
	}

	var progDXIL, psv Event
	var dxSM, dxVer Event
	sigCounts := map[string]int{}
	sigElems := map[string][]Event{}
	dxSig := map[string][]Event{}
	var psvRes, dxRes []Event
	var psvSigs []Event
	var dxResTotal = -1
	var dxEntries []Event
	var psvStrtab Event
	var dxThreads Event
	ntypes := -1
	dupTypes := 0
	dupNamed := map[string]int{}
	fnDeclared := -1
	var fnInsts []Event
	curPart := ""

	flushFn := func(end Event) {
		next := geti(end, "next_value")
		for _, e := range fnInsts {
			for _, v := range getl(e, "vals") {
				if v < 0 || v >= next {
					add("ir_inst fn=%d i=%d op=%s: operand value %d outside 0..%d", geti(e, "fn"), geti(e, "i"), gets(e, "op"), v, next-1)
				}
			}
			for _, t := range getl(e, "targets") {
				if fnDeclared >= 0 && (t < 0 || t >= fnDeclared) {
					add("ir_inst fn=%d i=%d op=%s: branch target bb %d outside 0..%d", geti(e, "fn"), geti(e, "i"), gets(e, "op"), t, fnDeclared-1)
				}
			}
		}
		fnInsts = nil
	}

	for _, e := range evs {
		switch gets(e, "ev") {
		case "error":
			add("error[%s/%s] at %d: %s", gets(e, "layer"), gets(e, "part"), geti(e, "at"), gets(e, "msg"))
		case "header":
			if isFalse(e, "magic_ok") {
				add("header: magic %q is not DXBC", gets(e, "magic"))
			}
			if isFalse(e, "size_match") {
				add("header: declared size %d != actual %d", geti(e, "declared_size"), geti(e, "actual_size"))
			}
			if isTrue(e, "complete") && (geti(e, "ver_major") != 1 || geti(e, "ver_minor") != 0) {
				add("header: container version %d.%d is not 1.0", geti(e, "ver_major"), geti(e, "ver_minor"))
			}
			if isFalse(e, "offset_table_fits") {
				add("header: offset table for %d parts does not fit", geti(e, "part_count"))
			}
		case "digest_check":
			if isFalse(e, "match") {
				add("digest_check: stored digest (%s) != computed %s", gets(e, "stored_kind"), gets(e, "computed_hex"))
			}
		case "part_offset":
			if isFalse(e, "aligned4") || isFalse(e, "after_table") || isFalse(e, "header_in_file") {
				add("part_offset i=%d offset=%d: aligned4=%v after_table=%v header_in_file=%v", geti(e, "i"), geti(e, "offset"), e["aligned4"], e["after_table"], e["header_in_file"])
			}
		case "part":
			curPart = gets(e, "fourcc")
			if isFalse(e, "in_bounds") {
				add("part %d %s: declared size %d ends at %d beyond file", geti(e, "i"), curPart, geti(e, "size"), geti(e, "end"))
			}
			if isFalse(e, "aligned4") || isFalse(e, "size_aligned4") {
				add("part %d %s: offset/size not 4-byte aligned (offset %d size %d)", geti(e, "i"), curPart, geti(e, "offset"), geti(e, "size"))
			}
			if isFalse(e, "contiguous") {
				add("part %d %s: offset %d does not follow the previous part", geti(e, "i"), curPart, geti(e, "offset"))
			}
		case "parts_end":
			if isFalse(e, "covers_file") {
				add("parts_end: last part ends at %d, file is %d bytes", geti(e, "last_end"), geti(e, "actual_size"))
			}
		case "program_header":
			p := gets(e, "part")
			if p == "DXIL" {
				progDXIL = e
			}
			for _, k := range []string{"size_match", "magic_ok", "bc_in_bounds", "bc_offset_is_16"} {
				if isFalse(e, k) {
					add("program_header %s: %s=false (size_dwords=%d actual_bytes=%d bc_offset=%d bc_size=%d)", p, k,
						geti(e, "size_dwords"), geti(e, "actual_bytes"), geti(e, "bc_offset"), geti(e, "bc_size"))
				}
			}
			if geti(e, "bc_pad") < 0 || geti(e, "bc_pad") > 3 {
				add("program_header %s: %d bytes between bitcode end and part end", p, geti(e, "bc_pad"))
			}
			if geti(e, "dxil_major") != 1 {
				add("program_header %s: DXIL version major %d", p, geti(e, "dxil_major"))
			}
		case "stat_bitstream":
			if isFalse(e, "ok") || isFalse(e, "magic_ok") {
				add("stat_bitstream: ok=%v magic_ok=%v", e["ok"], e["magic_ok"])
			}
		case "bc_magic":
			if isFalse(e, "magic_ok") {
				add("bc_magic %s: bytes %d %d %d %d", gets(e, "part"), geti(e, "b0"), geti(e, "b1"), geti(e, "b2"), geti(e, "b3"))
			}
		case "exit_block":
			if isFalse(e, "match") {
				add("exit_block id=%d bit=%d: computed %d words, declared %d", geti(e, "id"), geti(e, "bit"), geti(e, "computed_words"), geti(e, "declared_words"))
			}
		case "end":
			if isFalse(e, "ok") {
				add("end %s: bitstream walk failed at bit %d of %d", gets(e, "part"), geti(e, "consumed"), geti(e, "total"))
			} else if geti(e, "trailing_bits") != 0 {
				add("end %s: %d trailing bits after the last block (all zero: %v)", gets(e, "part"), geti(e, "trailing_bits"), e["trailing_zero"])
			}
			if geti(e, "top_blocks") != 1 {
				add("end %s: %d top-level blocks", gets(e, "part"), geti(e, "top_blocks"))
			}
		case "hash_part":
			if isFalse(e, "match_bitcode") {
				add("hash_part: stored %s != md5(bitcode) %s (matched=%s)", gets(e, "digest_hex"), gets(e, "md5_bitcode_hex"), gets(e, "matched"))
			}
			if geti(e, "flags") != 0 {
				add("hash_part: flags=%d", geti(e, "flags"))
			}
		case "sfi":
			if isFalse(e, "size_is_8") {
				add("sfi: payload is %d bytes", geti(e, "size"))
			}
		case "sig":
			sigCounts[gets(e, "part")] = geti(e, "count")
			if isFalse(e, "elems_fit") || isFalse(e, "offset_is_8") {
				add("sig %s: count=%d offset=%d elems_end=%d size=%d", gets(e, "part"), geti(e, "count"), geti(e, "offset"), geti(e, "elems_end"), geti(e, "size"))
			}
		case "sig_elem":
			p := gets(e, "part")
			sigElems[p] = append(sigElems[p], e)
			if isFalse(e, "name_in_bounds") || isFalse(e, "name_after_elems") {
				add("sig_elem %s k=%d: name offset %d (in_bounds=%v after_elems=%v)", p, geti(e, "k"), geti(e, "name_offset"), e["name_in_bounds"], e["name_after_elems"])
			}
			if geti(e, "pad") != 0 {
				add("sig_elem %s k=%d: pad=%d", p, geti(e, "k"), geti(e, "pad"))
			}
			if geti(e, "mask")&^15 != 0 || geti(e, "rw_mask")&^15 != 0 {
				add("sig_elem %s k=%d: mask=%d rw_mask=%d exceed 4 bits", p, geti(e, "k"), geti(e, "mask"), geti(e, "rw_mask"))
			}
		case "psv":
			psv = e
			if isFalse(e, "info_known_size") {
				add("psv: runtime info size %d is not 24/36/48/52", geti(e, "info_size"))
			}
		case "psv_res":
			psvRes = append(psvRes, e)
		case "psv_strtab":
			psvStrtab = e
			if isFalse(e, "aligned4") {
				add("psv_strtab: size %d not 4-byte aligned", geti(e, "size"))
			}
			if isFalse(e, "entry_name_in_bounds") {
				add("psv_strtab: entry name offset out of bounds")
			}
		case "psv_sig_size":
			if isFalse(e, "known") {
				add("psv_sig_size: element size %d", geti(e, "size"))
			}
		case "psv_sig":
			psvSigs = append(psvSigs, e)
			if isFalse(e, "name_in_bounds") || isFalse(e, "sem_indexes_in_bounds") {
				add("psv_sig %s k=%d: name_in_bounds=%v sem_indexes_in_bounds=%v", gets(e, "which"), geti(e, "k"), e["name_in_bounds"], e["sem_indexes_in_bounds"])
			}
		case "psv_end":
			if geti(e, "trailing") != 0 {
				add("psv_end: %d trailing bytes (zero: %v)", geti(e, "trailing"), e["trailing_zero"])
			}
		case "ir_types_end":
			ntypes = geti(e, "count")
			if isFalse(e, "match") {
				add("ir_types_end: %d types defined, NUMENTRY says %d", geti(e, "count"), geti(e, "numentry"))
			}
		case "ir_type":
			if geti(e, "dup_of") >= 0 {
				dupTypes++
				if gets(e, "kind") == "struct" && gets(e, "name") != "" {
					dupNamed[gets(e, "name")]++
				}
			}
			if isTrue(e, "fwd") {
				add("ir_type idx=%d kind=%s: forward/self type reference %v", geti(e, "idx"), gets(e, "kind"), getl(e, "refs"))
			}
		case "ir_version":
			if isFalse(e, "known") {
				add("ir_version: %d", geti(e, "version"))
			}
		case "ir_global", "ir_function":
			if isFalse(e, "ty_in_range") {
				add("%s value=%d: type %d out of range", gets(e, "ev"), geti(e, "value"), geti(e, "ty"))
			}
			if gets(e, "ev") == "ir_function" && geti(e, "fn_ty") < 0 {
				add("ir_function value=%d: type %d is not a function type", geti(e, "value"), geti(e, "ty"))
			}
		case "ir_settype":
			if isFalse(e, "in_range") {
				add("ir_settype: type %d out of range (%d types)", geti(e, "ty"), geti(e, "ntypes"))
			}
		case "ir_const":
			if isFalse(e, "ty_set") {
				add("ir_const value=%d: no SETTYPE before it", geti(e, "value"))
			}
			for _, t := range getl(e, "type_refs") {
				if ntypes >= 0 && t >= ntypes {
					add("ir_const value=%d: type ref %d out of range", geti(e, "value"), t)
				}
			}
		case "ir_md":
			if gets(e, "kind") == "value" {
				if isFalse(e, "ty_in_range") || isFalse(e, "val_in_range") {
					add("ir_md idx=%d: value ref ty=%d val=%d out of range", geti(e, "idx"), geti(e, "ty"), geti(e, "val"))
				} else if vt, ok := e["val_ty"].(int); ok && vt != geti(e, "ty") {
					add("ir_md idx=%d: METADATA_VALUE type %d != type %d of value %d", geti(e, "idx"), geti(e, "ty"), vt, geti(e, "val"))
				}
			}
		case "ir_vst":
			if isFalse(e, "in_range") {
				add("ir_vst fn=%d: value id %d out of range (%s)", geti(e, "fn"), geti(e, "id"), gets(e, "name"))
			}
		case "ir_func_begin":
			fnDeclared = -1
			fnInsts = nil
		case "ir_declareblocks":
			fnDeclared = geti(e, "n")
			if geti(e, "after_insts") != 0 {
				add("ir_declareblocks fn=%d: appears after %d instructions", geti(e, "fn"), geti(e, "after_insts"))
			}
		case "ir_inst":
			fnInsts = append(fnInsts, e)
			id := fmt.Sprintf("ir_inst fn=%d i=%d op=%s", geti(e, "fn"), geti(e, "i"), gets(e, "op"))
			if geti(e, "extra_ops") != 0 {
				add("%s: %d unconsumed operands of %d", id, geti(e, "extra_ops"), geti(e, "nops"))
			}
			for _, k := range []string{"pointee_equiv", "src_ty_equiv", "callee_ty_equiv", "elem_ty_equiv", "base_is_pointer", "ptr_is_pointer", "index_ok"} {
				if isFalse(e, k) {
					add("%s: %s=false", id, k)
				}
			}
			if isTrue(e, "fwd_type_conflict") || isTrue(e, "trunc") {
				add("%s: fwd_type_conflict=%v trunc=%v", id, e["fwd_type_conflict"], e["trunc"])
			}
			for _, t := range getl(e, "types") {
				if ntypes >= 0 && (t < 0 || t >= ntypes) {
					add("%s: type ref %d out of range", id, t)
				}
			}
			if isTrue(e, "defines") && geti(e, "ty") < 0 {
				add("%s: result type could not be found in the type table", id)
			}
		case "ir_func_end":
			flushFn(e)
			if isFalse(e, "blocks_match") {
				add("ir_func_end fn=%d: DECLAREBLOCKS %d but %d terminators", geti(e, "fn"), geti(e, "declared_blocks"), geti(e, "terminators"))
			}
			if geti(e, "unresolved_fwd") != 0 {
				add("ir_func_end fn=%d: %d forward references never defined", geti(e, "fn"), geti(e, "unresolved_fwd"))
			}
			if isFalse(e, "ends_with_terminator") {
				add("ir_func_end fn=%d: last instruction is not a terminator", geti(e, "fn"))
			}
		case "ir_module_end":
			if isFalse(e, "bodies_match") {
				add("ir_module_end: %d function bodies for %d defined functions", geti(e, "bodies"), geti(e, "defined_functions"))
			}
		case "dx_shader_model":
			dxSM = e
		case "dx_version":
			if gets(e, "which") == "dx.version" {
				dxVer = e
			}
		case "dx_resources":
			if gets(e, "scope") == "module" {
				dxResTotal = geti(e, "total")
			}
		case "dx_resource":
			if gets(e, "scope") == "module" {
				dxRes = append(dxRes, e)
			}
		case "dx_entry":
			dxEntries = append(dxEntries, e)
			if isFalse(e, "fn_name_matches") {
				add("dx_entry %d: entry name %q != function name %q", geti(e, "k"), gets(e, "name"), gets(e, "fn_name"))
			}
			if isTrue(e, "fn_is_decl") {
				add("dx_entry %d: entry function %d has no body", geti(e, "k"), geti(e, "fn"))
			}
		case "dx_sig_elem":
			w := gets(e, "which")
			dxSig[w] = append(dxSig[w], e)
		case "dx_entry_prop":
			if geti(e, "tag") == 4 {
				dxThreads = e
			}
		}
	}

	if dupTypes > 0 {
		add("ir_types: %d type-table entries duplicate an earlier entry", dupTypes)
	}
	for n, c := range dupNamed {
		add("ir_types: named struct %q is defined %d times", n, c+1)
	}
	// ---- cross-part relations ------------------------------------------------
	if progDXIL != nil && dxSM != nil {
		if gets(dxSM, "kind") != gets(progDXIL, "kind_name") || geti(dxSM, "major") != geti(progDXIL, "major") || geti(dxSM, "minor") != geti(progDXIL, "minor") {
			add("cross: program header %s_%d_%d but dx.shaderModel %s_%d_%d", gets(progDXIL, "kind_name"), geti(progDXIL, "major"), geti(progDXIL, "minor"),
				gets(dxSM, "kind"), geti(dxSM, "major"), geti(dxSM, "minor"))
		}
	}
	if progDXIL != nil && dxVer != nil {
		if geti(dxVer, "major") != geti(progDXIL, "dxil_major") || geti(dxVer, "minor") != geti(progDXIL, "dxil_minor") {
			add("cross: program header DXIL version %d.%d but dx.version %d.%d", geti(progDXIL, "dxil_major"), geti(progDXIL, "dxil_minor"), geti(dxVer, "major"), geti(dxVer, "minor"))
		}
	}
	if progDXIL != nil && dxSM == nil {
		add("cross: no dx.shaderModel named metadata")
	}
	if psv != nil && progDXIL != nil {
		if st, ok := psv["stage"].(int); ok && st != geti(progDXIL, "kind") {
			add("cross: PSV0 stage %d but program header kind %d", st, geti(progDXIL, "kind"))
		}
	}
	if psv != nil {
		if dxResTotal >= 0 && geti(psv, "resource_count") != dxResTotal {
			add("cross: PSV0 resource_count %d but dx.resources lists %d", geti(psv, "resource_count"), dxResTotal)
		}
		if dxResTotal < 0 && geti(psv, "resource_count") > 0 {
			add("cross: PSV0 resource_count %d but no dx.resources", geti(psv, "resource_count"))
		}
		if _, ok := psv["sig_in_elems"]; ok {
			for _, c := range []struct {
				k, part, which string
			}{{"sig_in_elems", "ISG1", "in"}, {"sig_out_elems", "OSG1", "out"}, {"sig_pc_elems", "PSG1", "pc"}} {
				n := geti(psv, c.k)
				if sc, ok := sigCounts[c.part]; ok && sc != n {
					add("cross: PSV0 %s=%d but %s count=%d", c.k, n, c.part, sc)
				}
				if len(dxEntries) == 1 && len(dxSig[c.which]) != n {
					add("cross: PSV0 %s=%d but entry metadata lists %d %s signature elements", c.k, n, len(dxSig[c.which]), c.which)
				}
			}
		}
		if psvStrtab != nil && len(dxEntries) == 1 {
			if en, ok := psvStrtab["entry_name"].(string); ok && en != gets(dxEntries[0], "name") {
				add("cross: PSV0 entry name %q but dx.entryPoints name %q", en, gets(dxEntries[0], "name"))
			}
		}
		if dxThreads != nil {
			if _, ok := psv["threads_x"]; ok {
				if geti(psv, "threads_x") != geti(dxThreads, "threads_x") || geti(psv, "threads_y") != geti(dxThreads, "threads_y") || geti(psv, "threads_z") != geti(dxThreads, "threads_z") {
					add("cross: PSV0 numthreads %d,%d,%d but entry property %d,%d,%d", geti(psv, "threads_x"), geti(psv, "threads_y"), geti(psv, "threads_z"),
						geti(dxThreads, "threads_x"), geti(dxThreads, "threads_y"), geti(dxThreads, "threads_z"))
				}
			}
		}
	}
	// every PSV0 resource must correspond to a dx.resources record with the same space/lower/upper
	for _, pr := range psvRes {
		found := false
		for _, dr := range dxRes {
			if geti(dr, "space") == geti(pr, "space") && geti(dr, "lower") == geti(pr, "lower") {
				if up, ok := dr["upper"].(int); ok && up == geti(pr, "upper") {
					found = true
				}
			}
		}
		if !found {
			add("cross: PSV0 resource k=%d (type %d space %d [%d,%d]) has no dx.resources record with the same range", geti(pr, "k"), geti(pr, "type"), geti(pr, "space"), geti(pr, "lower"), geti(pr, "upper"))
		}
	}
	// container signatures vs metadata signatures: same names/rows in order is
	// not required (one metadata element of N rows expands to N container
	// elements), so only compare total row counts.
	for _, c := range []struct{ part, which string }{{"ISG1", "in"}, {"OSG1", "out"}, {"PSG1", "pc"}} {
		if _, ok := sigCounts[c.part]; !ok || len(dxEntries) != 1 {
			continue
		}
		rows := 0
		want := map[string]int{}
		for _, de := range dxSig[c.which] {
			rows += geti(de, "rows")
			for _, si := range getl(de, "sem_indexes") {
				want[fmt.Sprintf("%s#%d", gets(de, "name"), si)]++
			}
		}
		if rows != len(sigElems[c.part]) {
			add("cross: %s has %d elements but entry metadata %s signature totals %d rows", c.part, len(sigElems[c.part]), c.which, rows)
		}
		for _, se := range sigElems[c.part] {
			k := fmt.Sprintf("%s#%d", gets(se, "name"), geti(se, "sem_index"))
			if want[k] == 0 {
				add("cross: %s element %q index %d has no counterpart in the entry metadata %s signature", c.part, gets(se, "name"), geti(se, "sem_index"), c.which)
			} else {
				want[k]--
			}
		}
	}
	_ = psvSigs
	return out
}
