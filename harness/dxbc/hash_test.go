package dxbc

import (
	"bytes"
	"crypto/md5"
	"os"
	"path/filepath"
	"testing"
)

const goldenDir = "/repo/internal/dxcvalidator/bitcheck/testdata/golden-dxc"

func goldenFiles(t testing.TB) map[string][]byte {
	t.Helper()
	m := map[string][]byte{}
	files, _ := filepath.Glob(filepath.Join(goldenDir, "*.dxil"))
	for _, f := range files {
		b, err := os.ReadFile(f)
		if err != nil {
			t.Fatal(err)
		}
		m[filepath.Base(f)] = b
	}
	if len(m) == 0 {
		t.Fatalf("no DXC-built golden containers found under %s", goldenDir)
	}
	return m
}

func TestMD5CompressAgainstCryptoMD5(t *testing.T) {
	buf := make([]byte, 300)
	for i := range buf {
		buf[i] = byte(i*7 + 3)
	}
	for n := 0; n <= len(buf); n++ {
		if got, want := plainMD5(buf[:n]), md5.Sum(buf[:n]); got != want {
			t.Fatalf("len %d: own md5 %x != crypto/md5 %x", n, got, want)
		}
	}
}

func TestContainerHashMatchesDXC(t *testing.T) {
	for name, bin := range goldenFiles(t) {
		got := ContainerHash(bin)
		if !bytes.Equal(got[:], bin[4:20]) {
			t.Errorf("%s: computed %x stored %x", name, got, bin[4:20])
		}
	}
}
