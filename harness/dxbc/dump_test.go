package dxbc

import (
	"os"
	"path/filepath"
	"sort"
	"strings"
	"testing"

	"github.com/gogpu/naga/dxil"
)

// Development aids:
//
//	DXBC_DUMP=<container file>        dump a container file
//	DXBC_SHADER=<snapshot name|small_*> [DXBC_ENTRY=<name>] [DXBC_OUT=<dir>]  compile with naga and dump
//	DXBC_FINDOP=<ir_inst op name>     list every such instruction in the snapshot corpus (TestFindOp)
func TestDump(t *testing.T) {
	if f := os.Getenv("DXBC_DUMP"); f != "" {
		b, err := os.ReadFile(f)
		if err != nil {
			t.Fatal(err)
		}
		os.Stdout.WriteString(Summary(b))
		return
	}
	sh := os.Getenv("DXBC_SHADER")
	if sh == "" {
		t.Skip("set DXBC_DUMP or DXBC_SHADER")
	}
	src, ok := smallShaders[sh]
	if !ok {
		b, err := os.ReadFile(filepath.Join(snapshotIn, sh+".wgsl"))
		if err != nil {
			t.Fatal(err)
		}
		src = string(b)
	}
	bs, fails := compileAll(t, sh, src, dxil.DefaultOptions())
	for _, f := range fails {
		t.Log(f)
	}
	for _, b := range bs {
		if e := os.Getenv("DXBC_ENTRY"); e != "" && !strings.Contains(b.name, "/"+e+"@") {
			continue
		}
		os.Stdout.WriteString("#### " + b.name + "\n" + Summary(b.bin))
		if d := os.Getenv("DXBC_OUT"); d != "" {
			os.WriteFile(filepath.Join(d, strings.NewReplacer("/", "_", "@", "_").Replace(b.name)+".dxil"), b.bin, 0o644)
		}
	}
}

// TestFindOp lists every ir_inst with the op named by DXBC_FINDOP across the
// naga-compiled snapshot corpus.
func TestFindOp(t *testing.T) {
	want := os.Getenv("DXBC_FINDOP")
	if want == "" {
		t.Skip()
	}
	files, _ := filepath.Glob(filepath.Join(snapshotIn, "*.wgsl"))
	sort.Strings(files)
	for _, f := range files {
		src, _ := os.ReadFile(f)
		bs, _ := compileAll(t, strings.TrimSuffix(filepath.Base(f), ".wgsl"), string(src), dxil.DefaultOptions())
		for _, b := range bs {
			for _, e := range Events(b.bin) {
				if e["ev"] == "ir_inst" && e["op"] == want {
					t.Logf("%s: %s", b.name, FormatEvents([]Event{e}))
				}
			}
		}
	}
}
