package dxbc

import (
	"crypto/md5" //nolint:gosec // format-mandated digest, not a security primitive
	"encoding/binary"
	"math"
	"math/bits"
)

// md5K is the MD5 additive-constant table, derived from its definition in
// RFC 1321 section 3.4 (K[i] = floor(2^32 * |sin(i+1)|)) rather than copied.
var md5K [64]uint32

// md5S is the per-round rotation schedule of RFC 1321.
var md5S = [64]uint8{
	7, 12, 17, 22, 7, 12, 17, 22, 7, 12, 17, 22, 7, 12, 17, 22,
	5, 9, 14, 20, 5, 9, 14, 20, 5, 9, 14, 20, 5, 9, 14, 20,
	4, 11, 16, 23, 4, 11, 16, 23, 4, 11, 16, 23, 4, 11, 16, 23,
	6, 10, 15, 21, 6, 10, 15, 21, 6, 10, 15, 21, 6, 10, 15, 21,
}

func init() {
	for i := range md5K {
		md5K[i] = uint32(uint64(math.Floor(math.Abs(math.Sin(float64(i+1))) * 4294967296.0)))
	}
}

// md5Init is the RFC 1321 initial chaining value.
var md5Init = [4]uint32{0x67452301, 0xefcdab89, 0x98badcfe, 0x10325476}

// md5Compress applies the RFC 1321 compression function to one 64-byte block.
func md5Compress(st *[4]uint32, block []byte) {
	var m [16]uint32
	for i := 0; i < 16; i++ {
		m[i] = binary.LittleEndian.Uint32(block[i*4:])
	}
	a, b, c, d := st[0], st[1], st[2], st[3]
	for i := 0; i < 64; i++ {
		var f uint32
		var g int
		switch {
		case i < 16:
			f = (b & c) | (^b & d)
			g = i
		case i < 32:
			f = (d & b) | (^d & c)
			g = (5*i + 1) & 15
		case i < 48:
			f = b ^ c ^ d
			g = (3*i + 5) & 15
		default:
			f = c ^ (b | ^d)
			g = (7 * i) & 15
		}
		f = f + a + md5K[i] + m[g]
		a = d
		d = c
		c = b
		b = b + bits.RotateLeft32(f, int(md5S[i]))
	}
	st[0] += a
	st[1] += b
	st[2] += c
	st[3] += d
}

func md5Out(st [4]uint32) [16]byte {
	var out [16]byte
	for i, w := range st {
		binary.LittleEndian.PutUint32(out[i*4:], w)
	}
	return out
}

// plainMD5 is standard MD5 built on md5Compress. It exists only so the tests
// can prove md5Compress against crypto/md5; production callers use MD5.
func plainMD5(data []byte) [16]byte {
	st := md5Init
	n := len(data)
	full := n / 64
	for i := 0; i < full; i++ {
		md5Compress(&st, data[i*64:])
	}
	var tail [128]byte
	rem := copy(tail[:], data[full*64:])
	tail[rem] = 0x80
	tl := 64
	if rem >= 56 {
		tl = 128
	}
	binary.LittleEndian.PutUint64(tail[tl-8:], uint64(n)*8)
	for i := 0; i < tl; i += 64 {
		md5Compress(&st, tail[i:])
	}
	return md5Out(st)
}

// MD5 is plain RFC 1321 MD5 (crypto/md5). It is the digest the HASH part
// stores over the shader bitcode.
func MD5(b []byte) [16]byte { return md5.Sum(b) } //nolint:gosec // format-mandated

// HashStart is the first byte covered by the container checksum: the digest
// field itself (bytes 4..19) and the magic are excluded.
const HashStart = 20

// ContainerHash computes the DXBC container checksum the way the D3D runtime
// and DXC do: MD5's compression function run over bin[20:], but with a
// non-standard finalisation. All complete 64-byte blocks are compressed
// normally. Let n be the byte count, rem = n mod 64, L = n*8 (mod 2^32):
//
//   - rem < 56: the final block is  L(le32) | rem bytes | 0x80 | zeros |
//     (L>>2 | 1)(le32)  — i.e. the length word is moved to the FRONT of the
//     block and the last word is 2n|1 instead of the high length word.
//   - rem >= 56: the tail is padded  rem bytes | 0x80 | zeros  to 64 bytes and
//     compressed, then a final block  L | 56 zero bytes | (L>>2 | 1).
//
// A container shorter than 20 bytes hashes as if the covered range were empty.
func ContainerHash(bin []byte) [16]byte {
	var data []byte
	if len(bin) > HashStart {
		data = bin[HashStart:]
	}
	return dxbcChecksum(data)
}

func dxbcChecksum(data []byte) [16]byte {
	st := md5Init
	n := len(data)
	full := n / 64
	for i := 0; i < full; i++ {
		md5Compress(&st, data[i*64:])
	}
	tail := data[full*64:]
	rem := len(tail)
	lbits := uint32(uint64(n) * 8)
	last := lbits>>2 | 1
	var blk [64]byte
	if rem >= 56 {
		copy(blk[:], tail)
		blk[rem] = 0x80
		md5Compress(&st, blk[:])
		blk = [64]byte{}
		binary.LittleEndian.PutUint32(blk[0:], lbits)
		binary.LittleEndian.PutUint32(blk[60:], last)
		md5Compress(&st, blk[:])
	} else {
		binary.LittleEndian.PutUint32(blk[0:], lbits)
		copy(blk[4:], tail)
		blk[4+rem] = 0x80
		binary.LittleEndian.PutUint32(blk[60:], last)
		md5Compress(&st, blk[:])
	}
	return md5Out(st)
}
