package dxbc

import (
	"encoding/json"
	"testing"
)

func evNames(evs []Event) map[string]int {
	m := map[string]int{}
	for _, e := range evs {
		m[e["ev"].(string)]++
	}
	return m
}

// assertJSONSafe checks the Event contract: JSON-serialisable, and every
// integer (scalar or in a list) fits a signed 32-bit int.
func assertJSONSafe(t *testing.T, name string, evs []Event) {
	t.Helper()
	for i, e := range evs {
		if _, ok := e["ev"].(string); !ok {
			t.Fatalf("%s: event %d has no ev field: %v", name, i, e)
		}
		for k, v := range e {
			switch x := v.(type) {
			case string, bool:
			case int:
				if x > 2147483647 || x < -2147483648 {
					t.Fatalf("%s: event %d (%v) field %s=%d exceeds int32", name, i, e["ev"], k, x)
				}
			case []int:
				for _, y := range x {
					if y > 2147483647 || y < -2147483648 {
						t.Fatalf("%s: event %d (%v) field %s has %d exceeding int32", name, i, e["ev"], k, y)
					}
				}
			default:
				t.Fatalf("%s: event %d (%v) field %s has unsupported type %T", name, i, e["ev"], k, v)
			}
		}
		if _, err := json.Marshal(e); err != nil {
			t.Fatalf("%s: event %d does not marshal: %v", name, i, err)
		}
	}
}

// The DXC-built containers are the ground truth for this decoder: everything
// must decode with no error events and no lint findings at all.
func TestGoldenDXCDecodeClean(t *testing.T) {
	for name, bin := range goldenFiles(t) {
		evs := Events(bin)
		assertJSONSafe(t, name, evs)
		n := evNames(evs)
		if n["error"] != 0 {
			t.Errorf("%s: %d error events\n%s", name, n["error"], FormatEvents(filter(evs, "error")))
		}
		for _, must := range []string{"header", "digest_check", "part", "program_header", "bc_magic", "enter_block", "exit_block",
			"define_abbrev", "blockinfo", "record", "end", "ir_version", "ir_type", "ir_function", "ir_const", "ir_md", "ir_named_md",
			"ir_func_begin", "ir_inst", "ir_func_end", "ir_vst", "sig", "psv", "sfi", "hash_part", "dx_shader_model", "dx_entry", "stat_bitstream"} {
			if n[must] == 0 {
				t.Errorf("%s: no %q event", name, must)
			}
		}
		if n["enter_block"] != n["exit_block"] {
			t.Errorf("%s: %d enter_block vs %d exit_block", name, n["enter_block"], n["exit_block"])
		}
		for _, e := range evs {
			switch e["ev"] {
			case "digest_check":
				if e["match"] != true || e["stored_kind"] != "other" {
					t.Errorf("%s: digest_check %v", name, e)
				}
			case "exit_block":
				if e["match"] != true || e["aligned32"] != true {
					t.Errorf("%s: exit_block %v", name, e)
				}
			case "end":
				if e["ok"] != true || e["consumed"] != e["total"] {
					t.Errorf("%s: end %v", name, e)
				}
			case "hash_part":
				if e["match_bitcode"] != true {
					t.Errorf("%s: HASH part is not md5(bitcode): %v", name, e)
				}
			case "ir_func_end":
				if e["blocks_match"] != true || e["unresolved_fwd"] != 0 || e["aborted"] != false {
					t.Errorf("%s: ir_func_end %v", name, e)
				}
			case "ir_inst":
				if e["extra_ops"] != 0 || e["short"] != false {
					t.Errorf("%s: ir_inst %v", name, e)
				}
			}
		}
		if l := Lint(evs); len(l) != 0 {
			t.Errorf("%s: lint findings on a DXC-built container (decoder bug or wrong rule):\n%v", name, l)
		}
		if s := Summary(bin); len(s) == 0 {
			t.Errorf("%s: empty summary", name)
		}
	}
}

func filter(evs []Event, name string) []Event {
	var out []Event
	for _, e := range evs {
		if e["ev"] == name {
			out = append(out, e)
		}
	}
	return out
}

func TestGoldenTreeAPI(t *testing.T) {
	for name, bin := range goldenFiles(t) {
		c, err := ParseContainer(bin)
		if err != nil {
			t.Fatalf("%s: %v", name, err)
		}
		d := c.FindPart("DXIL")
		if d == nil {
			t.Fatalf("%s: no DXIL part", name)
		}
		h := parseProgramHeader(d.Data)
		root, err := ParseBitstream(h.Bitcode)
		if err != nil {
			t.Fatalf("%s: %v", name, err)
		}
		if len(root.Items) != 1 || root.Items[0].Sub == nil || root.Items[0].Sub.ID != 8 {
			t.Fatalf("%s: expected exactly one top-level MODULE block", name)
		}
		var check func(b *Block)
		check = func(b *Block) {
			if !b.Closed || b.ComputedWords() != uint64(b.DeclaredWords) || !b.ComputedAligned() {
				t.Errorf("%s: block %d at bit %d: closed=%v computed=%d declared=%d", name, b.ID, b.StartBit, b.Closed, b.ComputedWords(), b.DeclaredWords)
			}
			for _, it := range b.Items {
				if it.Sub != nil {
					if it.Sub.Parent != b {
						t.Errorf("%s: bad parent link", name)
					}
					check(it.Sub)
				}
			}
		}
		check(root.Items[0].Sub)
	}
}
