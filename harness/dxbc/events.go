package dxbc

import (
	"encoding/binary"
	"encoding/hex"
	"fmt"
	"math"
	"sort"
	"strings"
)

// Event is one JSON-serialisable fact record. See the package documentation
// for the schema.
type Event map[string]any

// ---- integer conventions -------------------------------------------------

// s32 renders a stored u32 as a two's-complement int32, so every integer in
// an event fits a Java/TLC int. A negative value therefore means "the stored
// unsigned value is >= 2^31".
func s32(v uint32) int { return int(int32(v)) }

// fit32 converts a 64-bit quantity that is expected to be small (positions,
// counts). Values above MaxInt32 saturate; callers that care emit a flag.
func fit32(v uint64) int {
	if v > math.MaxInt32 {
		return math.MaxInt32
	}
	return int(v)
}

func fitsInt32(v uint64) bool { return v <= math.MaxInt32 }

// words4 renders a 16-byte digest as four little-endian u32 words in s32 form.
func words4(d [16]byte) []int {
	out := make([]int, 4)
	for i := range out {
		out[i] = s32(binary.LittleEndian.Uint32(d[i*4:]))
	}
	return out
}

func hex16(d [16]byte) string { return hex.EncodeToString(d[:]) }

// opsPrefix renders up to max operands; an operand outside 0..MaxInt32 is
// rendered as -1 and reported through the second result.
func opsPrefix(ops []uint64, max int) ([]int, bool) {
	n := len(ops)
	if n > max {
		n = max
	}
	out := make([]int, n)
	wide := false
	for i := 0; i < n; i++ {
		if fitsInt32(ops[i]) {
			out[i] = int(ops[i])
		} else {
			out[i] = -1
			wide = true
		}
	}
	return out, wide
}

func printable4(b []byte) string {
	var sb strings.Builder
	for _, c := range b {
		if c >= 0x20 && c < 0x7f {
			sb.WriteByte(c)
		} else {
			fmt.Fprintf(&sb, "\\x%02x", c)
		}
	}
	return sb.String()
}

// ---- sink ------------------------------------------------------------------

type sink struct {
	evs []Event
}

func (s *sink) add(name string, kv ...any) Event {
	e := Event{"ev": name}
	for i := 0; i+1 < len(kv); i += 2 {
		e[kv[i].(string)] = kv[i+1]
	}
	s.evs = append(s.evs, e)
	return e
}

func (s *sink) err(layer, part string, at uint64, msg string) {
	s.add("error", "layer", layer, "part", part, "at", fit32(at), "msg", msg)
}

// Sentinel digests defined by the validator-hashing proposal (INF-0004).
var (
	bypassDigest        = [16]byte{1, 1, 1, 1, 1, 1, 1, 1, 1, 1, 1, 1, 1, 1, 1, 1}
	previewBypassDigest = [16]byte{2, 2, 2, 2, 2, 2, 2, 2, 2, 2, 2, 2, 2, 2, 2, 2}
)

var knownParts = map[string]bool{
	"DXIL": true, "ILDB": true, "ILDN": true, "SFI0": true, "HASH": true, "ISG1": true,
	"OSG1": true, "PSG1": true, "PSV0": true, "RTS0": true, "STAT": true, "RDAT": true,
	"VERS": true, "SRCI": true, "PDBI": true, "PRIV": true, "XNAM": true, "XHSH": true,
	"SHDR": true, "SHEX": true, "ISGN": true, "OSGN": true, "PCSG": true, "RDEF": true,
	"COMP": true,
}

// Events decodes a whole container into the flat event stream. It never panics:
// an internal fault is itself reported as an error event (layer "internal").
func Events(bin []byte) (out []Event) {
	s := &sink{}
	defer func() {
		if r := recover(); r != nil {
			s.err("internal", "", 0, fmt.Sprintf("decoder fault: %v", r))
		}
		out = s.evs
	}()
	containerEvents(s, bin)
	return s.evs
}

func containerEvents(s *sink, bin []byte) {
	c, err := ParseContainer(bin)
	if err != nil {
		s.add("header", "magic", printable4(c.Magic[:min(4, len(bin))]), "magic_ok", string(c.Magic[:]) == "DXBC",
			"actual_size", len(bin), "complete", false)
		s.err("container", "", uint64(len(bin)), err.Error())
		return
	}
	s.add("header",
		"complete", true,
		"magic", printable4(c.Magic[:]), "magic_ok", string(c.Magic[:]) == "DXBC",
		"digest", words4(c.Digest), "digest_hex", hex16(c.Digest),
		"ver_major", int(c.VerMajor), "ver_minor", int(c.VerMinor),
		"declared_size", s32(c.DeclaredSize), "actual_size", len(bin),
		"size_match", uint64(c.DeclaredSize) == uint64(len(bin)),
		"part_count", s32(c.PartCount),
		"offset_table_end", fit32(c.OffsetTableEnd),
		"offset_table_fits", c.OffsetTableEnd <= uint64(len(bin)),
		"offsets_read", len(c.PartOffsets))

	computed := ContainerHash(bin)
	kind := "other"
	switch c.Digest {
	case [16]byte{}:
		kind = "zero"
	case bypassDigest:
		kind = "bypass"
	case previewBypassDigest:
		kind = "preview_bypass"
	}
	s.add("digest_check",
		"stored_kind", kind,
		"match", computed == c.Digest,
		"computed", words4(computed), "computed_hex", hex16(computed),
		"hashed_from", HashStart, "hashed_len", max(0, len(bin)-HashStart))

	if uint64(len(c.PartOffsets)) < uint64(c.PartCount) {
		s.err("container", "", ContainerHeaderSize+4*uint64(len(c.PartOffsets)),
			fmt.Sprintf("offset table declares %d parts but only %d entries fit in the file", c.PartCount, len(c.PartOffsets)))
	}
	for i, off := range c.PartOffsets {
		s.add("part_offset", "i", i, "offset", s32(off),
			"aligned4", off%4 == 0,
			"after_table", uint64(off) >= c.OffsetTableEnd,
			"header_in_file", uint64(off)+8 <= uint64(len(bin)))
	}

	prevEnd := c.OffsetTableEnd
	for _, p := range c.Parts {
		if !p.HeaderOK {
			s.add("part", "i", p.Index, "header_ok", false, "offset", s32(p.Offset),
				"fourcc", "", "size", 0, "data_start", fit32(p.DataStart), "end", fit32(p.End),
				"in_bounds", false, "aligned4", p.Offset%4 == 0, "size_aligned4", false,
				"contiguous", uint64(p.Offset) == prevEnd, "known", false)
			s.err("container", "", uint64(p.Offset), fmt.Sprintf("part %d: 8-byte part header at offset %d lies outside the %d-byte file", p.Index, p.Offset, len(bin)))
			continue
		}
		s.add("part", "i", p.Index, "header_ok", true,
			"fourcc", printable4([]byte(p.FourCC)), "offset", s32(p.Offset),
			"size", s32(p.DeclaredSize), "data_start", fit32(p.DataStart), "end", fit32(p.End),
			"in_bounds", p.InBounds, "aligned4", p.Offset%4 == 0, "size_aligned4", p.DeclaredSize%4 == 0,
			"contiguous", uint64(p.Offset) == prevEnd, "known", knownParts[p.FourCC])
		prevEnd = p.End
		partEvents(s, c, p)
	}
	s.add("parts_end", "last_end", fit32(prevEnd), "actual_size", len(bin),
		"declared_size", s32(c.DeclaredSize), "covers_file", prevEnd == uint64(len(bin)))
}

func partEvents(s *sink, c *Container, p *Part) {
	if !p.InBounds {
		s.err("container", p.FourCC, p.DataStart, fmt.Sprintf("part %d %q declares %d bytes ending at %d, beyond the %d-byte file; decoding the %d bytes present",
			p.Index, p.FourCC, p.DeclaredSize, p.End, len(c.Bin), len(p.Data)))
	}
	switch p.FourCC {
	case "DXIL", "ILDB":
		programPartEvents(s, c, p, true)
	case "STAT":
		programPartEvents(s, c, p, false)
	case "ISG1", "OSG1", "PSG1":
		signatureEvents(s, p)
	case "PSV0":
		psvEvents(s, p)
	case "SFI0":
		if len(p.Data) < 8 {
			s.err("sfi", p.FourCC, p.DataStart, fmt.Sprintf("SFI0 payload is %d bytes, need 8", len(p.Data)))
			return
		}
		lo := binary.LittleEndian.Uint32(p.Data[0:])
		hi := binary.LittleEndian.Uint32(p.Data[4:])
		s.add("sfi", "i", p.Index, "flags_lo", s32(lo), "flags_hi", s32(hi), "size", len(p.Data), "size_is_8", len(p.Data) == 8)
	case "HASH":
		hashPartEvents(s, c, p)
	case "ILDN":
		if len(p.Data) < 4 {
			s.err("ildn", p.FourCC, p.DataStart, "ILDN payload shorter than 4 bytes")
			return
		}
		flags := binary.LittleEndian.Uint16(p.Data[0:])
		nl := binary.LittleEndian.Uint16(p.Data[2:])
		name, ok := cstringAt(p.Data, 4)
		s.add("ildn", "i", p.Index, "flags", int(flags), "name_len", int(nl), "name", name,
			"terminated", ok, "len_match", int(nl) == len(name), "size", len(p.Data))
	}
}

func hashPartEvents(s *sink, c *Container, p *Part) {
	if len(p.Data) < 20 {
		s.err("hash", p.FourCC, p.DataStart, fmt.Sprintf("HASH payload is %d bytes, need 20", len(p.Data)))
		return
	}
	flags := binary.LittleEndian.Uint32(p.Data[0:])
	var stored [16]byte
	copy(stored[:], p.Data[4:20])
	e := s.add("hash_part", "i", p.Index, "flags", s32(flags), "size", len(p.Data), "size_is_20", len(p.Data) == 20,
		"digest", words4(stored), "digest_hex", hex16(stored), "digest_zero", stored == [16]byte{})
	d := c.FindPart("DXIL")
	e["have_dxil"] = d != nil
	if d == nil {
		return
	}
	h := parseProgramHeader(d.Data)
	// Candidate ranges, so that the rule "HASH.digest = MD5(bitcode)" can be
	// stated against facts instead of being baked into the decoder:
	//   bitcode : payload[8+BitcodeOffset .. +BitcodeSize)   (what DXC hashes)
	//   tail    : payload[8+BitcodeOffset .. end of part)    (bitcode + padding)
	//   payload : the whole DXIL part payload (program header included)
	//   part    : fourcc + size + payload
	cand := []struct {
		name string
		b    []byte
	}{
		{"bitcode", h.Bitcode},
		{"tail", tailFrom(d.Data, h.BCStart)},
		{"payload", d.Data},
		{"part", c.Bin[d.Offset:min(uint64(len(c.Bin)), d.End)]},
	}
	matched := "none"
	for _, cd := range cand {
		m := MD5(cd.b)
		e["md5_"+cd.name] = words4(m)
		e["md5_"+cd.name+"_hex"] = hex16(m)
		e["match_"+cd.name] = m == stored
		if m == stored && matched == "none" {
			matched = cd.name
		}
	}
	e["matched"] = matched
	e["bitcode_range_ok"] = h.OK && h.BCInBounds
}

func tailFrom(data []byte, from uint64) []byte {
	if from > uint64(len(data)) {
		return nil
	}
	return data[from:]
}

func signatureEvents(s *sink, p *Part) {
	sg := parseSignature(p.Data)
	if !sg.HeaderOK {
		s.err("sig", p.FourCC, p.DataStart, fmt.Sprintf("%s payload is %d bytes, need 8 for the header", p.FourCC, len(p.Data)))
		return
	}
	s.add("sig", "part", p.FourCC, "i", p.Index, "count", s32(sg.ParamCount), "offset", s32(sg.ParamOffset),
		"size", len(p.Data), "elems_end", fit32(sg.ElemsEnd), "elems_fit", sg.ElemsFit,
		"offset_is_8", sg.ParamOffset == 8, "decoded", len(sg.Elems))
	for k, el := range sg.Elems {
		s.add("sig_elem", "part", p.FourCC, "k", k,
			"name", el.Name, "name_offset", s32(el.NameOffset), "name_in_bounds", el.NameInBounds,
			"name_after_elems", uint64(el.NameOffset) >= sg.ElemsEnd,
			"sem_index", s32(el.SemIndex), "system_value", s32(el.SystemValue), "comp_type", s32(el.CompType),
			"register", s32(el.Register), "mask", int(el.Mask), "rw_mask", int(el.RWMask), "pad", int(el.Pad),
			"stream", s32(el.Stream), "min_precision", s32(el.MinPrecision))
	}
	if !sg.ElemsFit {
		s.err("sig", p.FourCC, p.DataStart+uint64(len(p.Data)),
			fmt.Sprintf("%s declares %d elements at offset %d (end %d) but the payload is %d bytes", p.FourCC, sg.ParamCount, sg.ParamOffset, sg.ElemsEnd, len(p.Data)))
	}
}

// programPartEvents handles DXIL / ILDB (full = true: bitstream and IR events)
// and STAT (full = false: program header and a one-event bitstream summary).
func programPartEvents(s *sink, c *Container, p *Part, full bool) {
	h := parseProgramHeader(p.Data)
	if !h.OK {
		s.err("program", p.FourCC, p.DataStart, fmt.Sprintf("%s payload is %d bytes, need %d for the program header", p.FourCC, len(p.Data), ProgramHeaderSize))
		return
	}
	plen := uint64(len(p.Data))
	s.add("program_header", "part", p.FourCC, "i", p.Index,
		"program_version", s32(h.ProgramVersion), "kind", int(h.Kind), "kind_name", ShaderKindName(h.Kind),
		"major", int(h.Major), "minor", int(h.Minor),
		"size_dwords", s32(h.SizeDwords), "actual_bytes", len(p.Data), "actual_dwords", len(p.Data)/4,
		"size_match", uint64(h.SizeDwords)*4 == plen, "declared_part_size", s32(p.DeclaredSize),
		"size_match_declared", uint64(h.SizeDwords)*4 == uint64(p.DeclaredSize),
		"magic", s32(h.Magic), "magic_ok", h.Magic == DxilMagic,
		"dxil_version", s32(h.DxilVersion), "dxil_major", int(h.DxilVersion>>8), "dxil_minor", int(h.DxilVersion&0xFF),
		"bc_offset", s32(h.BitcodeOffset), "bc_offset_is_16", h.BitcodeOffset == 16,
		"bc_size", s32(h.BitcodeSize), "bc_size_aligned4", h.BitcodeSize%4 == 0,
		"bc_start", fit32(h.BCStart), "bc_end", fit32(h.BCEnd), "bc_in_bounds", h.BCInBounds,
		"bc_fills_part", h.BCEnd == plen, "bc_pad", fit32(plen)-fit32(h.BCEnd),
		"bc_abs", fit32(p.DataStart+h.BCStart))
	if !h.BCInBounds {
		s.err("program", p.FourCC, p.DataStart+16, fmt.Sprintf("bitcode range [%d,%d) exceeds the %d-byte payload; decoding the %d bytes present", h.BCStart, h.BCEnd, plen, len(h.Bitcode)))
	}
	st := ParseStream(h.Bitcode)
	if !full {
		nb, nr := 0, 0
		countTree(st.Root, &nb, &nr)
		e := s.add("stat_bitstream", "i", p.Index, "ok", st.Err == nil, "blocks", nb, "records", nr,
			"consumed", fit32(st.Consumed), "total", fit32(st.TotalBits), "trailing_zero", st.TrailingAll,
			"magic_ok", st.HaveMagic && st.Magic == 0xDEC04342)
		if d := c.FindPart("DXIL"); d != nil {
			dh := parseProgramHeader(d.Data)
			e["same_as_dxil"] = string(dh.Bitcode) == string(h.Bitcode)
		}
		if st.Err != nil {
			s.err("bitstream", p.FourCC, st.Err.Bit, st.Err.Msg)
		}
		return
	}
	bitstreamEvents(s, p.FourCC, st, h.Bitcode)
	irEvents(s, p.FourCC, st.Root)
}

func countTree(b *Block, nb, nr *int) {
	if b == nil {
		return
	}
	for _, it := range b.Items {
		switch {
		case it.Rec != nil:
			*nr++
		case it.Sub != nil:
			*nb++
			countTree(it.Sub, nb, nr)
		}
	}
}

var blockInfoCodeNames = map[uint64]string{1: "SETBID", 2: "BLOCKNAME", 3: "SETRECORDNAME"}

func bitstreamEvents(s *sink, part string, st *Stream, bc []byte) {
	if st.HaveMagic {
		s.add("bc_magic", "part", part, "magic_ok", st.Magic == 0xDEC04342,
			"b0", int(bc[0]), "b1", int(bc[1]), "b2", int(bc[2]), "b3", int(bc[3]), "total_bits", fit32(st.TotalBits))
	}
	var walk func(b *Block)
	walk = func(b *Block) {
		parent := -1
		if b.Parent != nil && b.Parent.ID != TopLevelID {
			parent = s32(b.Parent.ID)
		}
		s.add("enter_block", "id", s32(b.ID), "width", int(b.AbbrevWidth), "declared_words", s32(b.DeclaredWords),
			"bit", fit32(b.StartBit), "len_bit", fit32(b.LenWordBit), "body_bit", fit32(b.BodyBit),
			"depth", b.Depth, "parent", parent, "inherited_abbrevs", b.NumInherited)
		curBID, haveBID := -1, false
		localDefs := map[uint32]int{}
		for _, it := range b.Items {
			switch {
			case it.Sub != nil:
				walk(it.Sub)
			case it.Def != nil:
				ab := it.Def
				kinds := make([]int, len(ab.Ops))
				vals := make([]int, len(ab.Ops))
				names := make([]string, len(ab.Ops))
				wide := false
				for i, op := range ab.Ops {
					kinds[i] = op.Kind
					names[i] = OpKindName(op.Kind)
					if fitsInt32(op.Value) {
						vals[i] = int(op.Value)
					} else {
						vals[i], wide = -1, true
					}
				}
				e := s.add("define_abbrev", "block", s32(b.ID), "for_block", s32(ab.ForBlock),
					"in_blockinfo", ab.InBlockInfo, "nops", len(ab.Ops), "kinds", kinds, "vals", vals,
					"kind_names", strings.Join(names, ","), "wide", wide, "bit", fit32(ab.BitPos), "depth", b.Depth)
				if ab.InBlockInfo {
					e["no_setbid"] = ab.NoSetBID
				} else {
					e["abbrev_id"] = firstUserAbbrev + b.NumInherited + localDefs[b.ID]
					localDefs[b.ID]++
				}
			case it.Rec != nil:
				r := it.Rec
				ops, wide := opsPrefix(r.Ops, 16)
				name := "record"
				if b.ID == BlockInfoID {
					name = "blockinfo"
				}
				code, codeWide := -1, true
				if fitsInt32(r.Code) {
					code, codeWide = int(r.Code), false
				}
				e := s.add(name, "block", s32(b.ID), "depth", b.Depth, "abbrev", int(r.AbbrevID),
					"code", code, "code_wide", codeWide, "nops", len(r.Ops), "ops", ops, "wide", wide,
					"bit", fit32(r.BitPos), "end_bit", fit32(r.EndBit))
				if r.Blob != nil {
					e["blob_len"] = len(r.Blob)
				}
				if b.ID == BlockInfoID {
					kn, ok := blockInfoCodeNames[r.Code]
					if !ok {
						kn = "UNKNOWN"
					}
					e["kind"] = kn
					switch r.Code {
					case 1:
						if len(r.Ops) >= 1 && fitsInt32(r.Ops[0]) {
							curBID, haveBID = int(r.Ops[0]), true
						}
					case 2, 3:
						e["name"] = opsString(r.Ops)
					}
					e["bid"] = curBID
					e["have_bid"] = haveBID
				}
			}
		}
		if b.Closed {
			s.add("exit_block", "id", s32(b.ID), "depth", b.Depth, "bit", fit32(b.EndBlockBit), "end_bit", fit32(b.EndBit),
				"computed_words", fit32(b.ComputedWords()), "declared_words", s32(b.DeclaredWords),
				"match", b.ComputedWords() == uint64(b.DeclaredWords) && b.ComputedAligned(),
				"aligned32", b.EndBit%32 == 0, "body_aligned32", b.BodyBit%32 == 0, "nitems", len(b.Items))
		}
	}
	top := 0
	for _, it := range st.Root.Items {
		if it.Sub != nil {
			top++
			walk(it.Sub)
		}
	}
	if st.Err != nil {
		s.err("bitstream", part, st.Err.Bit, st.Err.Msg)
	}
	s.add("end", "part", part, "ok", st.Err == nil, "consumed", fit32(st.Consumed), "total", fit32(st.TotalBits),
		"trailing_bits", fit32(st.TotalBits-st.Consumed), "trailing_zero", st.TrailingAll, "top_blocks", top,
		"total_aligned32", st.TotalBits%32 == 0)
}

func opsString(ops []uint64) string {
	b := make([]byte, len(ops))
	for i, v := range ops {
		b[i] = byte(v)
	}
	return string(b)
}

// ---- Summary -----------------------------------------------------------------

// Summary renders the event stream of a container as one line per event, with
// fields in a stable (alphabetical) order. Intended for replay files and diffs.
func Summary(bin []byte) string {
	return FormatEvents(Events(bin))
}

// FormatEvents renders an event list the way Summary does.
func FormatEvents(evs []Event) string {
	var sb strings.Builder
	depth := 0
	for _, e := range evs {
		name, _ := e["ev"].(string)
		if name == "exit_block" && depth > 0 {
			depth--
		}
		sb.WriteString(strings.Repeat("  ", depth))
		sb.WriteString(name)
		keys := make([]string, 0, len(e))
		for k := range e {
			if k != "ev" {
				keys = append(keys, k)
			}
		}
		sort.Strings(keys)
		for _, k := range keys {
			fmt.Fprintf(&sb, " %s=%s", k, fmtVal(e[k]))
		}
		sb.WriteByte('\n')
		if name == "enter_block" {
			depth++
		}
		if name == "end" {
			depth = 0
		}
	}
	return sb.String()
}

func fmtVal(v any) string {
	switch x := v.(type) {
	case string:
		return fmt.Sprintf("%q", x)
	case []int:
		parts := make([]string, len(x))
		for i, n := range x {
			parts[i] = fmt.Sprint(n)
		}
		return "[" + strings.Join(parts, ",") + "]"
	default:
		return fmt.Sprint(x)
	}
}
