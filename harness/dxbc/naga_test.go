package dxbc

import (
	"fmt"
	"os"
	"path/filepath"
	"sort"
	"strings"
	"testing"

	"github.com/gogpu/naga"
	"github.com/gogpu/naga/dxil"
	"github.com/gogpu/naga/ir"
)

const snapshotIn = "/repo/snapshot/testdata/in"

type built struct {
	name string // shader/entry@sm
	bin  []byte
}

// compileAll lowers src and compiles every entry point with the given options.
// Compile errors are returned as strings (naga does not support everything).
func compileAll(t testing.TB, shader, src string, opts dxil.Options) (out []built, fails []string) {
	t.Helper()
	ast, err := naga.Parse(src)
	if err != nil {
		return nil, []string{fmt.Sprintf("%s: parse: %v", shader, err)}
	}
	m, err := naga.LowerWithSource(ast, src)
	if err != nil {
		return nil, []string{fmt.Sprintf("%s: lower: %v", shader, err)}
	}
	for k := range m.EntryPoints {
		single := *m
		single.EntryPoints = []ir.EntryPoint{m.EntryPoints[k]}
		name := fmt.Sprintf("%s/%s@%d.%d", shader, m.EntryPoints[k].Name, opts.ShaderModel.Major, opts.ShaderModel.Minor)
		bin, err := func() (b []byte, err error) {
			defer func() {
				if r := recover(); r != nil {
					err = fmt.Errorf("PANIC in dxil.Compile: %v", r)
				}
			}()
			return dxil.Compile(&single, opts)
		}()
		if err != nil {
			fails = append(fails, fmt.Sprintf("%s: compile: %v", name, err))
			continue
		}
		out = append(out, built{name, bin})
	}
	return out, fails
}

// decoderChecks asserts what must hold for ANY input the decoder accepts,
// independent of whether the producer is correct.
func decoderChecks(t *testing.T, name string, evs []Event) {
	t.Helper()
	assertJSONSafe(t, name, evs)
	n := evNames(evs)
	for _, e := range evs {
		if e["ev"] == "error" && e["layer"] == "internal" {
			t.Errorf("%s: decoder fault: %v", name, e["msg"])
		}
	}
	if n["header"] != 1 || n["digest_check"] > 1 {
		t.Errorf("%s: header events: %v", name, n)
	}
}

var smallShaders = map[string]string{
	"small_vertex": `
struct VOut { @builtin(position) pos: vec4<f32>, @location(0) uv: vec2<f32> }
@vertex fn vmain(@builtin(vertex_index) vi: u32, @location(0) p: vec3<f32>) -> VOut {
  var o: VOut;
  o.pos = vec4<f32>(p, 1.0) * f32(vi);
  o.uv = p.xy;
  return o;
}`,
	"small_fragment": `
@fragment fn fmain(@location(0) uv: vec2<f32>, @builtin(position) fc: vec4<f32>) -> @location(0) vec4<f32> {
  if (uv.x > 0.5) { return vec4<f32>(uv, fc.x, 1.0); }
  return vec4<f32>(0.0, 0.0, 0.0, 1.0);
}`,
	"small_compute_buffers": `
struct P { a: u32, b: f32 }
@group(0) @binding(0) var<storage, read_write> data: array<u32>;
@group(0) @binding(1) var<uniform> params: P;
@group(1) @binding(0) var<storage, read> src: array<f32>;
@compute @workgroup_size(8, 4, 2) fn cmain(@builtin(global_invocation_id) gid: vec3<u32>) {
  let i = gid.x;
  if (i < arrayLength(&data)) {
    data[i] = data[i] * params.a + u32(src[i] * params.b);
  }
}`,
	"small_control_flow": `
@group(0) @binding(0) var<storage, read_write> out: array<i32>;
fn helper(x: i32, n: i32) -> i32 {
  var acc = 0;
  for (var i = 0; i < n; i = i + 1) {
    if (i % 3 == 0) { continue; }
    if (acc > 1000) { break; }
    acc = acc + x * i;
  }
  return acc;
}
@compute @workgroup_size(64) fn cmain(@builtin(local_invocation_index) li: u32) {
  var v = helper(i32(li), 17);
  switch (v & 3) {
    case 0: { v = v + 1; }
    case 1, 2: { v = v * 2; }
    default: { v = -v; }
  }
  var k = 0u;
  loop {
    if (k >= li) { break; }
    v = v ^ i32(k);
    continuing { k = k + 1u; }
  }
  out[li] = v;
}`,
	"small_matrices": `
struct U { m: mat4x4<f32>, n: mat3x3<f32>, s: mat2x2<f32> }
@group(0) @binding(0) var<uniform> u: U;
@vertex fn vmain(@location(0) p: vec4<f32>) -> @builtin(position) vec4<f32> {
  let t = transpose(u.m) * p;
  let q = u.n * t.xyz;
  let r = u.s * q.xy;
  return vec4<f32>(r, q.z, t.w);
}`,
	"small_texture": `
@group(0) @binding(0) var tex: texture_2d<f32>;
@group(0) @binding(1) var samp: sampler;
@fragment fn fmain(@location(0) uv: vec2<f32>) -> @location(0) vec4<f32> {
  return textureSample(tex, samp, uv) + textureLoad(tex, vec2<i32>(1, 2), 0);
}`,
	"small_workgroup_atomics": `
var<workgroup> tile: array<u32, 64>;
var<workgroup> counter: atomic<u32>;
@group(0) @binding(0) var<storage, read_write> result: array<atomic<u32>>;
@compute @workgroup_size(64) fn cmain(@builtin(local_invocation_index) li: u32) {
  tile[li] = li * li;
  workgroupBarrier();
  let old = atomicAdd(&counter, tile[63u - li]);
  atomicMax(&result[li], old);
}`,
}

func allSMs() []dxil.ShaderModel {
	return []dxil.ShaderModel{dxil.SM6_0, dxil.SM6_1, dxil.SM6_2, dxil.SM6_3, dxil.SM6_4, dxil.SM6_5, dxil.SM6_6}
}

type corpusStats struct {
	containers int
	fails      []string
	findings   map[string][]string // container -> lint findings
	hashTails  map[int]int         // (len-20)%64 >= 56 coverage
	ops        map[string]int      // ir_inst opcode histogram (decoder coverage)
}

func runCorpus(t *testing.T, st *corpusStats, shader, src string, opts dxil.Options) {
	bs, fails := compileAll(t, shader, src, opts)
	st.fails = append(st.fails, fails...)
	for _, b := range bs {
		st.containers++
		evs := Events(b.bin)
		decoderChecks(t, b.name, evs)
		if (len(b.bin)-20)%64 >= 56 {
			st.hashTails[1]++
		} else {
			st.hashTails[0]++
		}
		if l := Lint(evs); len(l) > 0 {
			st.findings[b.name] = l
		}
		for _, e := range evs {
			if e["ev"] == "ir_inst" {
				st.ops[e["op"].(string)]++
			}
		}
		if s := Summary(b.bin); !strings.Contains(s, "header") {
			t.Errorf("%s: summary lacks header", b.name)
		}
	}
}

func reportCorpus(t *testing.T, st *corpusStats, label string) {
	t.Logf("%s: %d containers decoded, %d compile failures, %d containers with findings; hash finalisation single-block=%d two-block=%d",
		label, st.containers, len(st.fails), len(st.findings), st.hashTails[0], st.hashTails[1])
	t.Logf("%s: instruction coverage %v", label, st.ops)
	// group findings by normalised text
	groups := map[string][]string{}
	for name, fs := range st.findings {
		for _, f := range fs {
			groups[normaliseFinding(f)] = append(groups[normaliseFinding(f)], name+": "+f)
		}
	}
	keys := make([]string, 0, len(groups))
	for k := range groups {
		keys = append(keys, k)
	}
	sort.Strings(keys)
	var sb strings.Builder
	for _, k := range keys {
		g := groups[k]
		sort.Strings(g)
		fmt.Fprintf(&sb, "== %s  (%d occurrences)\n", k, len(g))
		for i, x := range g {
			if i >= 6 {
				fmt.Fprintf(&sb, "     ... %d more\n", len(g)-i)
				break
			}
			fmt.Fprintf(&sb, "     %s\n", x)
		}
	}
	sort.Strings(st.fails)
	if path := os.Getenv("DXBC_REPORT"); path != "" {
		f, err := os.OpenFile(path, os.O_APPEND|os.O_CREATE|os.O_WRONLY, 0o644)
		if err == nil {
			fmt.Fprintf(f, "######## %s: %d containers, %d with findings\n%s\n-- compile failures (%d)\n%s\n", label, st.containers, len(st.findings), sb.String(), len(st.fails), strings.Join(st.fails, "\n"))
			f.Close()
		}
	} else if testing.Verbose() {
		t.Log("\n" + sb.String())
	}
}

func normaliseFinding(f string) string {
	// strip digits so that findings group by shape
	var sb strings.Builder
	prevDigit := false
	for _, c := range f {
		if c >= '0' && c <= '9' {
			if !prevDigit {
				sb.WriteByte('#')
			}
			prevDigit = true
			continue
		}
		prevDigit = false
		sb.WriteRune(c)
	}
	s := sb.String()
	if len(s) > 110 {
		s = s[:110]
	}
	return s
}

func newStats() *corpusStats {
	return &corpusStats{findings: map[string][]string{}, hashTails: map[int]int{}, ops: map[string]int{}}
}

// Naga-built containers for the hand-written spread, at every shader model.
func TestNagaSmallShadersAllShaderModels(t *testing.T) {
	st := newStats()
	names := make([]string, 0, len(smallShaders))
	for n := range smallShaders {
		names = append(names, n)
	}
	sort.Strings(names)
	for _, n := range names {
		for _, sm := range allSMs() {
			o := dxil.DefaultOptions()
			o.ShaderModel = sm
			runCorpus(t, st, n, smallShaders[n], o)
		}
	}
	if st.containers < len(smallShaders)*len(allSMs()) {
		t.Errorf("only %d containers built; failures:\n%s", st.containers, strings.Join(st.fails, "\n"))
	}
	reportCorpus(t, st, "small shaders x SM6.0-6.6")
}

// The whole snapshot corpus at the default shader model, and a slice of it at
// every shader model.
func TestNagaSnapshotCorpus(t *testing.T) {
	files, _ := filepath.Glob(filepath.Join(snapshotIn, "*.wgsl"))
	if len(files) == 0 {
		t.Skip("no snapshot inputs")
	}
	sort.Strings(files)
	st := newStats()
	for _, f := range files {
		src, err := os.ReadFile(f)
		if err != nil {
			t.Fatal(err)
		}
		runCorpus(t, st, strings.TrimSuffix(filepath.Base(f), ".wgsl"), string(src), dxil.DefaultOptions())
	}
	if st.containers < 100 {
		t.Errorf("only %d containers built from %d shaders", st.containers, len(files))
	}
	reportCorpus(t, st, "snapshot corpus @ default SM")

	if testing.Short() {
		return
	}
	st2 := newStats()
	for i, f := range files {
		if i%6 != 0 {
			continue
		}
		src, _ := os.ReadFile(f)
		for _, sm := range allSMs()[1:] {
			o := dxil.DefaultOptions()
			o.ShaderModel = sm
			runCorpus(t, st2, strings.TrimSuffix(filepath.Base(f), ".wgsl"), string(src), o)
		}
	}
	reportCorpus(t, st2, "snapshot corpus slice x SM6.1-6.6")
}

// UseBypassHash must be reported as the bypass sentinel, not as a mismatch of
// unknown kind.
func TestNagaBypassHashReported(t *testing.T) {
	o := dxil.DefaultOptions()
	o.UseBypassHash = true
	bs, fails := compileAll(t, "small_fragment", smallShaders["small_fragment"], o)
	if len(bs) != 1 {
		t.Fatalf("compile: %v", fails)
	}
	for _, e := range Events(bs[0].bin) {
		if e["ev"] == "digest_check" {
			if e["stored_kind"] != "bypass" || e["match"] != false {
				t.Errorf("digest_check for bypass container: %v", e)
			}
			return
		}
	}
	t.Error("no digest_check event")
}
