// Package dxbc is an independent decoder for DXBC containers that carry DXIL
// (LLVM 3.7 bitcode), written from the format definitions and not from naga's
// writer: the DXBC container layout and checksum, DXC's DxilContainer.h /
// DxilPipelineStateValidation.h part layouts, DXIL.rst, and the LLVM 3.7
// bitstream (BitCodeFormat) and bitcode record definitions (LLVMBitCodes.h,
// BitcodeReader.cpp). Its ground truth is the set of DXC-built containers
// shipped in the naga repository.
//
// It produces two views of the same bytes:
//
//   - a tree: ParseContainer (header, parts) and ParseBitstream / ParseStream
//     (blocks, abbreviations, records with bit positions);
//   - a flat, JSON-serialisable EVENT LIST (Events) that a TLA+ trace
//     specification checks against the format rules. Summary / FormatEvents
//     render that list as text; Lint is a non-authoritative Go-side rule pass
//     used by tests and reports.
//
// # Decoder stance
//
// The decoder reports raw facts and never repairs input. Where a declared
// quantity and an observed quantity can differ it reports BOTH (declared part
// size and actual end, declared block length and the position of END_BLOCK,
// declared element counts and the number that fit, stored digests and
// recomputed digests, ...) plus a precomputed boolean for the comparison
// (computed in 64-bit arithmetic, so it is right even when the integers below
// wrap). Malformed input never panics: decoding stops at the scope that broke
// and an
//
//	{ev:"error", layer, part, at, msg}
//
// event is appended. Errors are scoped, not global: a broken PSV0 part does
// not stop the DXIL part from being decoded, and an undecodable function body
// does not stop the next function. layer is one of "container", "program",
// "bitstream", "ir", "sig", "psv", "sfi", "hash", "ildn", "internal"
// ("internal" = a fault inside the decoder itself, always a bug here). at is a
// byte offset in the container, except for layers "bitstream" and "ir" where
// it is a bit offset from the start of the bitcode (bit 0 = first bit of the
// 'BC' magic).
//
// # Integer convention
//
// Event values are strings, bools, ints and []int. Every int fits a signed
// 32-bit integer (TLC ints are Java ints):
//
//   - stored u32 fields are rendered in two's complement (s32): a NEGATIVE value
//     means the stored unsigned value is >= 2^31 (e.g. register 0xFFFFFFFF is
//     -1). Sizes/offsets that are negative are therefore out of bounds for any
//     real container.
//   - 64-bit quantities are split into *_hi / *_lo halves, each in s32 form.
//   - 16-byte digests are given as four little-endian s32 words and as a hex
//     string (*_hex).
//   - positions and counts produced by the decoder saturate at 2^31-1.
//   - bitstream record operands that do not fit 0..2^31-1 are rendered as -1
//     and flagged by wide:true.
//   - type / value / metadata indices: -1 = absent or unknown, -2 (types only) =
//     "synthetic": a type some value provably has although the TYPE table has
//     no entry for it (LLVM readers build such types on demand, so this is legal,
//     merely not what LLVM's own writer produces). 2^31-1 = an index in the
//     stream that is absurdly large (>= 2^30).
//
// # Event stream, in emission order
//
// Container level:
//
//	header        complete, magic (printable), magic_ok, digest[4], digest_hex,
//	              ver_major, ver_minor, declared_size, actual_size, size_match,
//	              part_count, offset_table_end (=32+4*part_count), offset_table_fits,
//	              offsets_read
//	digest_check  stored_kind ("zero" | "bypass" 16x0x01 | "preview_bypass" 16x0x02 |
//	              "other"), match (stored == computed), computed[4], computed_hex,
//	              hashed_from (=20), hashed_len
//	part_offset   i, offset, aligned4, after_table, header_in_file     (one per table entry)
//	part          i, header_ok, fourcc, offset, size (declared), data_start, end
//	              (offset+8+size), in_bounds, aligned4, size_aligned4, contiguous
//	              (offset == previous part's end, or the end of the offset table),
//	              known (fourcc is one DXC defines)
//	  ... the part's own events follow immediately ...
//	parts_end     last_end, actual_size, declared_size, covers_file
//
// SFI0 / HASH / ILDN / signatures:
//
//	sfi           i, flags_lo, flags_hi, size, size_is_8
//	hash_part     i, flags, size, size_is_20, digest[4], digest_hex, digest_zero,
//	              have_dxil, bitcode_range_ok, and for each candidate range R in
//	              {bitcode, tail, payload, part}: md5_R[4], md5_R_hex, match_R;
//	              matched (first matching R or "none").
//	              bitcode = DXIL payload[8+BitcodeOffset, +BitcodeSize) (DXC's rule:
//	              MD5 of the program bitcode); tail = from bitcode start to the end of
//	              the part; payload = whole DXIL part payload; part = with fourcc+size.
//	ildn          i, flags, name_len, name, terminated, len_match, size
//	sig           part (ISG1|OSG1|PSG1), i, count, offset, size, elems_end
//	              (offset+32*count), elems_fit, offset_is_8, decoded
//	sig_elem      part, k, name, name_offset, name_in_bounds (inside the part and NUL
//	              terminated), name_after_elems, sem_index, system_value (D3D_NAME),
//	              comp_type, register, mask, rw_mask, pad, stream, min_precision
//
// PSV0 (layout in psv.go):
//
//	psv           i, size, info_size, info_at, info_aligned4, info_version (0..3 by
//	              size, -1 too small), info_known_size (24/36/48/52), union[16] bytes,
//	              union_w0..w3, min_wave, max_wave, [>=36:] stage, stage_name,
//	              uses_view_id, stage_union_lo/hi, sig_in_elems, sig_out_elems,
//	              sig_pc_elems, sig_in_vectors, sig_out_vectors[4], [>=48:] threads_x/y/z,
//	              [>=52:] entry_name_offset, [>52:] info_extra_bytes; resource_count,
//	              [count>0:] bind_size, bind_size_known (16/24)
//	psv_res       k, at, type, space, lower, upper, [24-byte records:] kind, flags
//	psv_strtab    size, at, aligned4, entry_name, entry_name_in_bounds
//	psv_semidx    entries, at, first (up to 16 entries)
//	psv_sig_size  size, known (==16), count
//	psv_sig       which (in|out|pc), k, at, name_offset, name, name_in_bounds,
//	              sem_indexes, sem_indexes_in_bounds, rows, start_row, cols, start_col,
//	              allocated, cols_and_start, semantic_kind, comp_type, interp, dyn_mask,
//	              stream, dyn_mask_and_stream, reserved
//	psv_table     name (viewid_out0..3, viewid_pc, in_to_out0..3, in_to_pc, pc_to_out),
//	              dwords (size implied by the header), at, fits, all_zero
//	psv_end       pos, size, trailing (bytes after the last decoded section), trailing_zero
//
// Program parts (DXIL, ILDB fully; STAT header + summary):
//
//	program_header part, i, program_version, kind, kind_name, major, minor,
//	              size_dwords (declared), actual_bytes, actual_dwords, size_match
//	              (size_dwords*4 == payload), declared_part_size, size_match_declared,
//	              magic, magic_ok, dxil_version, dxil_major, dxil_minor, bc_offset,
//	              bc_offset_is_16, bc_size, bc_size_aligned4, bc_start (=8+bc_offset,
//	              payload relative), bc_end, bc_in_bounds, bc_fills_part, bc_pad,
//	              bc_abs (container offset of the bitcode)
//	stat_bitstream (STAT only) i, ok, blocks, records, consumed, total, trailing_zero,
//	              magic_ok, same_as_dxil
//	bc_magic      part, magic_ok, b0..b3, total_bits
//
// Bitstream walk (all bit positions relative to the bitcode start):
//
//	enter_block   id, width (abbrev id width inside), declared_words, bit (of the
//	              ENTER_SUBBLOCK id), len_bit, body_bit, depth (0 = top level), parent
//	              (id or -1), inherited_abbrevs (count registered via BLOCKINFO)
//	define_abbrev block (enclosing), for_block (block it registers for), in_blockinfo,
//	              nops, kinds[] (0 lit,1 fixed,2 vbr,3 array,4 char6,5 blob), vals[]
//	              (literal value / width), kind_names, wide, bit, depth, and either
//	              abbrev_id (the id it receives) or no_setbid (BLOCKINFO only)
//	blockinfo     a record inside BLOCKINFO: all `record` fields plus kind (SETBID |
//	              BLOCKNAME | SETRECORDNAME | UNKNOWN), bid (current SETBID target, -1
//	              none), have_bid, name
//	record        block, depth, abbrev (3 = UNABBREV_RECORD, >=4 abbreviation), code,
//	              code_wide, nops, ops[<=16], wide, bit, end_bit, [blob_len]
//	exit_block    id, depth, bit (of END_BLOCK), end_bit (after 32-bit alignment),
//	              computed_words ((end_bit-body_bit)/32), declared_words, match,
//	              aligned32, body_aligned32, nitems. Not emitted for a block that was
//	              still open when decoding failed.
//	end           part, ok, consumed, total, trailing_bits, trailing_zero, top_blocks,
//	              total_aligned32
//
// LLVM IR semantic layer (second pass over the tree; value indices are the
// module-wide LLVM value numbering: globals/functions/aliases in record order,
// then module constants; inside a function: arguments, function constants,
// then each value-producing instruction):
//
//	ir_module_begin part, bit, closed
//	ir_version      version, relative_ids, nops, known
//	ir_triple / ir_datalayout  str;   ir_module_str code, str;   ir_module_record (other)
//	ir_attr_group   code, id, slot, nops, ops;   ir_attr_set code, index (1-based), groups
//	ir_type_numentry n;  ir_type_name name, for_idx (STRUCT_NAME)
//	ir_type         idx, code, kind (void float double label opaque int pointer function
//	                half array vector metadata struct ...), nops, ops, wide, refs[] (type
//	                indices it references), fwd (some ref >= idx: forward or self
//	                reference), max_ref, short, bit, named_struct, dup_of (earlier
//	                structurally identical entry or -1), and per kind: width |
//	                addrspace | count,count_wide | vararg,nparams | packed,name
//	ir_types_end    count, numentry, have_numentry, match, dangling_name
//	ir_global       value, ty, ty_in_range, explicit_type, is_const, addrspace, value_ty
//	                (pointer type of the value), init (value index or -1), is_decl,
//	                linkage, align, section, name, nops, ops, wide, bit
//	ir_function     value, ty, ty_in_range, ty_via_pointer, fn_ty, value_ty, cc, is_decl,
//	                linkage, paramattr, align, section, visibility, nparams, ret_ty, name
//	ir_alias        value, ty, ty_in_range, ops
//	ir_consts_begin fn (-1 module level), first_value, bit
//	ir_settype      fn, ty, in_range, ntypes
//	ir_const        fn, value (index assigned), ty, ty_in_range, ty_set, ty_kind, code, kind
//	                (null undef int wide_int float aggregate string cstring data ce_*
//	                ...), refs[] (ABSOLUTE value indices it uses), type_refs[], fwd (some
//	                ref >= value: legal forward reference), nops, ops, wide, bit; ints:
//	                lo, hi, fits, [int]; floats: lo, hi (raw bits)
//	ir_consts_end   fn, first_value, count, next_value
//	ir_md           idx, code, fn, kind (string value node distinct_node location
//	                old_node other), nops, bit; string: str; value: ty, val,
//	                ty_in_range, val_in_range, nvalues, val_ty, val_kind, [int]; node:
//	                ops[] ALREADY DECODED (stored operand-1; -1 = null), fwd
//	ir_named_md     name, have_name, nops, ops[] (node indices, stored as-is), md_count, fn
//	ir_md_kind      id, name;   ir_md_attach fn, ops, on_inst;   ir_uselist
//	ir_vst          fn (-1 module), kind (entry bbentry fnentry), id, name, in_range,
//	                value_kind
//	ir_func_begin   fn (value index of the function, -1 if no declaration is left),
//	                name, fn_ty, nargs, first_value, declared_blocks (-1 if no
//	                DECLAREBLOCKS), bit
//	ir_declareblocks fn, n, after_insts
//	ir_inst         fn, i (ordinal), bb (index of the block it is in = terminators seen),
//	                code, op, nops, abbrev, bit, vn (the value number the instruction
//	                would define = number of values defined before it), vals[] (ABSOLUTE
//	                value indices of all value operands: vn - relative, 32-bit wrapping
//	                as in BitcodeReader; phi operands via signed VBR; alloca size and
//	                switch case values are absolute in the format), types[] (type
//	                indices read from the record), targets[] (basic block indices), fwd
//	                (some operand >= vn or negative: forward reference, reported not
//	                judged), term, defines, value (vn or -1), ty (result type), short
//	                (record ended early), trunc (operand needed more than 32 bits),
//	                extra_ops (unconsumed operands), and per op: opcode, flags, pred,
//	                align_raw, volatile, ordering, scope, explicit_type, inbounds,
//	                conditional, cases, incoming, indices/index_ok/agg_ty (extract/insert
//	                value), base_ty/base_is_pointer/base_pointee/result_pointee/
//	                src_ty_matches/src_ty_equiv (gep), ptr_ty/ptr_is_pointer/pointee/
//	                pointee_matches/pointee_equiv/addrspace (memory ops), callee,
//	                callee_kind, callee_name, fn_ty, nparams, varargs, arg0_int (the DXIL
//	                opcode of a dx.op call), callee_ty_matches/_equiv, was_fwd_referenced,
//	                fwd_type_conflict. *_matches compare type-table indices, *_equiv
//	                compare structurally.
//	ir_debug_loc    fn, code, ops, after_inst
//	ir_func_end     fn, declared_blocks, terminators, blocks_match, insts, defined, nargs,
//	                nconsts, first_value, next_value, max_value_used, unresolved_fwd
//	                (forward references never defined), aborted, closed,
//	                ends_with_terminator
//	ir_unknown_block id, bit, scope
//
// DXIL metadata decoded through the named metadata (emitted after the last
// function, before ir_module_end):
//
//	dx_version      which (dx.version | dx.valver), node, major, minor (+ *_ok)
//	dx_shader_model node, kind ("ps", "vs", "cs", ...), major, minor
//	dx_entry        k, node, name, fn, fn_kind, fn_is_decl, fn_name, fn_name_matches,
//	                sigs, resources, props (metadata node indices)
//	dx_sig_elem     entry, which (in|out|pc), k, node, name, id, comp_type, semantic_kind,
//	                interp, rows, cols, start_row, start_col, sem_indexes[]
//	dx_resources    scope ("module" = !dx.resources, "entryN"), node, srv, uav, cbv,
//	                sampler, total
//	dx_resource     scope, class, class_name, k, node, name, id, space, lower, range,
//	                upper (DXC rule: 0xFFFFFFFF when range is 0xFFFFFFFF), unbounded,
//	                shape, symbol_value, symbol_kind
//	dx_entry_prop   entry, tag, lo, hi, [tag 4:] threads_x/y/z
//	ir_module_end   part, types, globals, functions, aliases, defined_functions, bodies,
//	                bodies_match, module_values, md_nodes, named_md, errors
package dxbc
