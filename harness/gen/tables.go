// Package gen builds the program families of DESIGN.md section 5.1 as program
// records (wg.N) with their input rows.  What the programs *mean* is decided
// by the TLA+ specification (WgslSem.tla), never here.
package gen

import (
	"fmt"
	"math"
	"math/rand"

	"verif/harness/wg"
)

// Case is a generated program with input rows (see checks.SemCase).
type Case struct {
	Family string
	Desc   string
	Prog   wg.N
	Inputs [][][]int32 // row -> global -> words
}

// IntGrid is the boundary grid for 32-bit integer operands (bit patterns).
var IntGrid = []int32{0, 1, -1, 2, -2, 3, 7, -7, 31, 32, 33, 255, 65535, 65536, 46340, 46341,
	math.MaxInt32, math.MaxInt32 - 1, math.MinInt32, math.MinInt32 + 1, 1 << 30, -(1 << 30), 0x12345678, -19088744}

func fb(f float32) int32 { return int32(math.Float32bits(f)) }

// FloatGrid is the boundary grid for f32 operands (finite, normal or zero: the decided domain).
var FloatGrid = []int32{fb(0), fb(float32(math.Copysign(0, -1))), fb(1), fb(-1), fb(0.5), fb(1.5), fb(2), fb(3), fb(-2.5), fb(7),
	fb(0.1), fb(100), fb(8388608), fb(16777215), fb(1e20), fb(1e-20), fb(65536), fb(-65535), fb(0.75), fb(1024), fb(3.5), fb(-3.5),
	fb(1.0 / 3.0), fb(255)}

// SmallFloatGrid holds small integer-valued floats (exact sums of products).
var SmallFloatGrid = []int32{fb(0), fb(1), fb(-1), fb(2), fb(3), fb(-4), fb(5), fb(7), fb(-8), fb(10), fb(16), fb(-3)}

// BoolGrid for bool operands.
var BoolGrid = []int32{0, 1}

func gridFor(k string) []int32 {
	switch k {
	case "f32":
		return FloatGrid
	case "bool":
		return BoolGrid
	}
	return IntGrid
}

func scalarT(k string) wg.N {
	switch k {
	case "i32":
		return wg.I32
	case "u32":
		return wg.U32
	case "f32":
		return wg.F32
	}
	return wg.Bool
}

// bufElem is the buffer element type used to carry operands of kind k (bool travels as u32).
func bufElem(k string) wg.N {
	if k == "bool" {
		return wg.U32
	}
	return scalarT(k)
}

// builder assembles a compute program with an input and an output buffer.
type builder struct {
	inK, outK string // element kinds of inp / out
	nIn, nOut int
	body      []wg.N
	fns       []wg.N
	structs   []wg.N
	consts    []wg.N
	extraG    []wg.N
}

func (b *builder) in(i int) wg.N {
	if i >= b.nIn {
		b.nIn = i + 1
	}
	return wg.Load(wg.RIdx(wg.RVar("inp", wg.Arr(bufElem(b.inK), 0)), wg.LitI(int32(i)), bufElem(b.inK)))
}

// operand loads operand number i of kind k from the input buffer (bool: != 0).
func (b *builder) operand(i int, k string) wg.N {
	e := b.in(i)
	if k == "bool" {
		return wg.Bin("!=", wg.Bool, e, wg.LitU(0))
	}
	return e
}

// vecOperand builds a vecN from n consecutive input words starting at i.
func (b *builder) vecOperand(i, n int, k string) wg.N {
	args := make([]wg.N, n)
	for j := 0; j < n; j++ {
		args[j] = b.operand(i+j, k)
	}
	return wg.Ctor(wg.Vec(n, scalarT(k)), args...)
}

// out stores a scalar of kind k into out[i] (bool: converted with u32()).
func (b *builder) out(i int, k string, e wg.N) {
	if i >= b.nOut {
		b.nOut = i + 1
	}
	if k == "bool" {
		e = wg.Cast(scalarT(b.outK), e)
	} else if k != b.outK {
		e = wg.Bitcast(scalarT(b.outK), e)
	}
	b.body = append(b.body, wg.Asg(wg.RIdx(wg.RVar("out", wg.Arr(scalarT(b.outK), 0)), wg.LitI(int32(i)), scalarT(b.outK)), e))
}

// outVal stores a scalar or vector result (named by a let) component by component starting at out[base].
func (b *builder) outVal(base int, t wg.N, e wg.N) int {
	switch wg.K(t) {
	case "vec":
		n := wg.I(t, "n")
		name := fmt.Sprintf("r%d", base)
		b.body = append(b.body, wg.Let(name, e))
		for j := 0; j < n; j++ {
			b.out(base+j, wg.K(wg.Sub(t, "e")), wg.Swz(wg.Sub(t, "e"), wg.Id(name, t), j))
		}
		return n
	case "mat":
		c, r := wg.I(t, "c"), wg.I(t, "r")
		name := fmt.Sprintf("r%d", base)
		b.body = append(b.body, wg.Let(name, e))
		col := wg.Vec(r, wg.F32)
		for ci := 0; ci < c; ci++ {
			for ri := 0; ri < r; ri++ {
				b.out(base+ci*r+ri, "f32", wg.Swz(wg.F32, wg.Idx(col, wg.Id(name, t), wg.LitI(int32(ci))), ri))
			}
		}
		return c * r
	}
	b.out(base, wg.K(t), e)
	return 1
}

func (b *builder) program() wg.N {
	nIn, nOut := max(b.nIn, 1), max(b.nOut, 1)
	globals := []wg.N{
		wg.Global("inp", "storage", "r", wg.Arr(bufElem(b.inK), nIn), 0, 0, wg.None),
		wg.Global("out", "storage", "rw", wg.Arr(scalarT(b.outK), nOut), 0, 1, wg.None),
	}
	globals = append(globals, b.extraG...)
	fixArr(b.body, nIn, nOut)
	for _, f := range b.fns {
		fixArr(wg.L(f, "body"), nIn, nOut)
	}
	fns := append(append([]wg.N{}, b.fns...), wg.Entry("main", nil, b.body))
	return wg.Program(b.structs, b.consts, globals, fns)
}

// fixArr patches the (yet unknown when built) lengths of inp/out array types in references.
func fixArr(x any, nIn, nOut int) {
	switch v := x.(type) {
	case []wg.N:
		for _, e := range v {
			fixArr(e, nIn, nOut)
		}
	case wg.N:
		if wg.K(v) == "rvar" {
			if t := wg.Sub(v, "t"); wg.K(t) == "arr" && wg.I(t, "n") == 0 {
				switch wg.S(v, "n") {
				case "inp":
					v["t"] = wg.Arr(wg.Sub(t, "e"), nIn)
				case "out":
					v["t"] = wg.Arr(wg.Sub(t, "e"), nOut)
				}
			}
		}
		for _, f := range v {
			fixArr(f, nIn, nOut)
		}
	}
}

// rows builds input rows for `arity` operand slots of `lanes` lanes each from the grid:
// every ordered pair of grid values appears in lane 0 (exhaustive pairs), other lanes are rotated.
func pairRows(gridA, gridB []int32, lanes int, arity int, nOut int, rng *rand.Rand, limit int) [][][]int32 {
	var rows [][][]int32
	type pr struct{ a, b int }
	var pairs []pr
	for i := range gridA {
		for j := range gridB {
			pairs = append(pairs, pr{i, j})
		}
	}
	if limit > 0 && len(pairs) > limit {
		rng.Shuffle(len(pairs), func(i, j int) { pairs[i], pairs[j] = pairs[j], pairs[i] })
		pairs = pairs[:limit]
	}
	for _, p := range pairs {
		in := make([]int32, lanes*arity)
		for l := 0; l < lanes; l++ {
			in[l] = gridA[(p.a+l*5)%len(gridA)]
			if arity > 1 {
				in[lanes+l] = gridB[(p.b+l*7)%len(gridB)]
			}
			for a := 2; a < arity; a++ {
				in[a*lanes+l] = gridB[(p.a+p.b+l*3+a)%len(gridB)]
			}
		}
		rows = append(rows, [][]int32{in, make([]int32, nOut)})
	}
	return rows
}

// ShiftGrid is the grid of shift counts (u32).
var ShiftGrid = []int32{0, 1, 5, 16, 31, 32, 33, 63, -1, 1 << 30}

// BinOps generates the BinOp family: one program per (operator, scalar kind, shape).
// limit bounds the number of operand pairs per program (0 = all).
func BinOps(rng *rand.Rand, limit int) []Case {
	type opk struct {
		op    string
		kinds []string
		cmp   bool
	}
	ops := []opk{
		{"+", []string{"i32", "u32", "f32"}, false}, {"-", []string{"i32", "u32", "f32"}, false},
		{"*", []string{"i32", "u32", "f32"}, false}, {"/", []string{"i32", "u32", "f32"}, false},
		{"%", []string{"i32", "u32", "f32"}, false},
		{"&", []string{"i32", "u32", "bool"}, false}, {"|", []string{"i32", "u32", "bool"}, false}, {"^", []string{"i32", "u32"}, false},
		{"<<", []string{"i32", "u32"}, false}, {">>", []string{"i32", "u32"}, false},
		{"==", []string{"i32", "u32", "f32", "bool"}, true}, {"!=", []string{"i32", "u32", "f32", "bool"}, true},
		{"<", []string{"i32", "u32", "f32"}, true}, {"<=", []string{"i32", "u32", "f32"}, true},
		{">", []string{"i32", "u32", "f32"}, true}, {">=", []string{"i32", "u32", "f32"}, true},
		{"&&", []string{"bool"}, false}, {"||", []string{"bool"}, false},
	}
	shapes := []string{"s", "v2", "v3", "v4", "sv", "vs"}
	var out []Case
	for _, o := range ops {
		for _, k := range o.kinds {
			for _, sh := range shapes {
				if (o.op == "&&" || o.op == "||") && sh != "s" {
					continue
				}
				if (sh == "sv" || sh == "vs") && (o.cmp || k == "bool" || o.op == "<<" || o.op == ">>" || o.op == "&" || o.op == "|" || o.op == "^") {
					continue // WGSL has scalar-vector mixing only for arithmetic operators
				}
				n := 1
				switch sh {
				case "v2":
					n = 2
				case "v3", "sv", "vs":
					n = 3
				case "v4":
					n = 4
				}
				bk := k
				if o.op == "<<" || o.op == ">>" {
					bk = "u32"
				}
				b := &builder{inK: k, outK: "u32"}
				if k == "bool" {
					b.inK = "u32"
				}
				if !o.cmp && (k == "i32" || k == "f32") {
					b.outK = k
				}
				// operands: slot A = words [0, n), slot B = words [n, 2n); a shift count travels bit-cast in the same buffer
				ld := func(slot int, kind string, vec bool) wg.N {
					mk := func(i int) wg.N {
						e := b.in(slot*n + i)
						switch {
						case kind == "bool":
							return wg.Bin("!=", wg.Bool, e, wg.LitU(0))
						case kind != k:
							return wg.Bitcast(scalarT(kind), e)
						}
						return e
					}
					if !vec {
						return mk(0)
					}
					args := make([]wg.N, n)
					for i := range args {
						args[i] = mk(i)
					}
					return wg.Ctor(wg.Vec(n, scalarT(kind)), args...)
				}
				var ea, eb wg.N
				var ta, tb wg.N
				switch sh {
				case "s":
					ea, eb, ta, tb = ld(0, k, false), ld(1, bk, false), scalarT(k), scalarT(bk)
				case "sv":
					ea, eb, ta, tb = ld(0, k, false), ld(1, bk, true), scalarT(k), wg.Vec(n, scalarT(bk))
				case "vs":
					ea, eb, ta, tb = ld(0, k, true), ld(1, bk, false), wg.Vec(n, scalarT(k)), scalarT(bk)
				default:
					ea, eb, ta, tb = ld(0, k, true), ld(1, bk, true), wg.Vec(n, scalarT(k)), wg.Vec(n, scalarT(bk))
				}
				_ = tb
				rk := k
				if o.cmp {
					rk = "bool"
				}
				var rt wg.N = scalarT(rk)
				if wg.K(ta) == "vec" || wg.K(tb) == "vec" {
					rt = wg.Vec(n, scalarT(rk))
				}
				nOut := b.outVal(0, rt, wg.Bin(o.op, rt, ea, eb))
				gb := gridFor(k)
				if bk != k {
					gb = ShiftGrid
				}
				c := Case{Family: "binop", Desc: fmt.Sprintf("%s %s %s", o.op, k, sh), Prog: b.program()}
				c.Inputs = pairRows(gridFor(k), gb, n, 2, nOut, rng, limit)
				out = append(out, c)
			}
		}
	}
	return out
}
