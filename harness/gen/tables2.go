package gen

import (
	"fmt"
	"math/rand"

	"verif/harness/wg"
)

func vecOrScalar(n int, k string) wg.N {
	if n == 1 {
		return scalarT(k)
	}
	return wg.Vec(n, scalarT(k))
}

// loadOperand loads an n-lane operand of kind k from slot `slot` (lanes words per slot) of a buffer whose elements are of kind bk.
func (b *builder) loadOperand(slot, lanes, n int, k string) wg.N {
	mk := func(i int) wg.N {
		e := b.in(slot*lanes + i)
		switch {
		case k == "bool":
			return wg.Bin("!=", wg.Bool, e, wg.Lit(bufElem(b.inK), 0))
		case k != b.inK:
			return wg.Bitcast(scalarT(k), e)
		}
		return e
	}
	if n == 1 {
		return mk(0)
	}
	args := make([]wg.N, n)
	for i := range args {
		args[i] = mk(i)
	}
	return wg.Ctor(wg.Vec(n, scalarT(k)), args...)
}

func singleRows(grid []int32, lanes, slots, nOut int, rng *rand.Rand, limit int) [][][]int32 {
	var rows [][][]int32
	idx := make([]int, len(grid))
	for i := range idx {
		idx[i] = i
	}
	if limit > 0 && len(idx) > limit {
		rng.Shuffle(len(idx), func(i, j int) { idx[i], idx[j] = idx[j], idx[i] })
		idx = idx[:limit]
	}
	for _, p := range idx {
		in := make([]int32, lanes*slots)
		for s := 0; s < slots; s++ {
			for l := 0; l < lanes; l++ {
				in[s*lanes+l] = grid[(p+l*5+s*11)%len(grid)]
			}
		}
		rows = append(rows, [][]int32{in, make([]int32, nOut)})
	}
	return rows
}

// UnOpsConv generates unary operators, conversions and bitcasts.
func UnOpsConv(rng *rand.Rand, limit int) []Case {
	var out []Case
	add := func(desc string, inK, outK string, lanes int, grid []int32, mk func(b *builder) (wg.N, wg.N)) {
		b := &builder{inK: inK, outK: outK}
		t, e := mk(b)
		nOut := b.outVal(0, t, e)
		out = append(out, Case{Family: "unconv", Desc: desc, Prog: b.program(), Inputs: singleRows(grid, lanes, 1, nOut, rng, limit)})
	}
	for _, n := range []int{1, 2, 3, 4} {
		n := n
		for _, k := range []string{"i32", "f32"} {
			k := k
			add(fmt.Sprintf("neg %s x%d", k, n), k, k, n, gridFor(k), func(b *builder) (wg.N, wg.N) {
				t := vecOrScalar(n, k)
				return t, wg.Un("-", t, b.loadOperand(0, n, n, k))
			})
		}
		for _, k := range []string{"i32", "u32"} {
			k := k
			add(fmt.Sprintf("not %s x%d", k, n), k, k, n, IntGrid, func(b *builder) (wg.N, wg.N) {
				t := vecOrScalar(n, k)
				return t, wg.Un("~", t, b.loadOperand(0, n, n, k))
			})
		}
		add(fmt.Sprintf("lnot bool x%d", n), "u32", "u32", n, []int32{0, 1, 2, -1}, func(b *builder) (wg.N, wg.N) {
			t := vecOrScalar(n, "bool")
			return t, wg.Un("!", t, b.loadOperand(0, n, n, "bool"))
		})
		// conversions
		kinds := []string{"i32", "u32", "f32", "bool"}
		for _, from := range kinds {
			for _, to := range kinds {
				if from == to {
					continue
				}
				from, to := from, to
				inK := from
				if from == "bool" {
					inK = "u32"
				}
				outK := to
				if to == "bool" {
					outK = "u32"
				}
				grid := gridFor(from)
				if from == "f32" {
					grid = append(append([]int32{}, FloatGrid...), fb(2147483520), fb(2147483648), fb(-2147483648), fb(4294967040), fb(4294967296), fb(-0.5), fb(0.99), fb(-1e10), fb(1e10), fb(16777216))
				}
				if from == "bool" {
					grid = []int32{0, 1, 2, -1}
				}
				add(fmt.Sprintf("cast %s->%s x%d", from, to, n), inK, outK, n, grid, func(b *builder) (wg.N, wg.N) {
					t := vecOrScalar(n, to)
					return t, wg.Cast(t, b.loadOperand(0, n, n, from))
				})
			}
		}
		for _, p := range [][2]string{{"i32", "u32"}, {"u32", "i32"}, {"f32", "u32"}, {"u32", "f32"}, {"i32", "f32"}, {"f32", "i32"}, {"f32", "f32"}} {
			from, to := p[0], p[1]
			grid := IntGrid
			if from == "f32" {
				grid = FloatGrid
			} else if to == "f32" {
				grid = FloatGrid // bit patterns of finite floats, carried as integers
			}
			add(fmt.Sprintf("bitcast %s->%s x%d", from, to, n), from, to, n, grid, func(b *builder) (wg.N, wg.N) {
				t := vecOrScalar(n, to)
				return t, wg.Bitcast(t, b.loadOperand(0, n, n, from))
			})
		}
	}
	return out
}

// Builtins generates the builtin-function family.
func Builtins(rng *rand.Rand, limit int) []Case {
	var out []Case
	type bi struct {
		f     string
		kinds []string
		arity int
		ret   string // "" = same as operand; else scalar kind
	}
	list := []bi{
		{"abs", []string{"i32", "u32", "f32"}, 1, ""}, {"sign", []string{"i32", "f32"}, 1, ""},
		{"floor", []string{"f32"}, 1, ""}, {"ceil", []string{"f32"}, 1, ""}, {"trunc", []string{"f32"}, 1, ""}, {"round", []string{"f32"}, 1, ""},
		{"fract", []string{"f32"}, 1, ""}, {"sqrt", []string{"f32"}, 1, ""}, {"saturate", []string{"f32"}, 1, ""},
		{"countOneBits", []string{"i32", "u32"}, 1, ""}, {"countLeadingZeros", []string{"i32", "u32"}, 1, ""},
		{"countTrailingZeros", []string{"i32", "u32"}, 1, ""}, {"reverseBits", []string{"i32", "u32"}, 1, ""},
		{"firstLeadingBit", []string{"i32", "u32"}, 1, ""}, {"firstTrailingBit", []string{"i32", "u32"}, 1, ""},
		{"min", []string{"i32", "u32", "f32"}, 2, ""}, {"max", []string{"i32", "u32", "f32"}, 2, ""}, {"step", []string{"f32"}, 2, ""},
		{"clamp", []string{"i32", "u32", "f32"}, 3, ""}, {"fma", []string{"f32"}, 3, ""},
	}
	floatGridX := append(append([]int32{}, FloatGrid...), fb(2.5), fb(-0.5), fb(0.49999997), fb(4), fb(9), fb(0.25), fb(6.25), fb(-7.75), fb(8388607.5), fb(1e-3))
	for _, bdef := range list {
		for _, k := range bdef.kinds {
			for _, n := range []int{1, 2, 3, 4} {
				bdef, k, n := bdef, k, n
				b := &builder{inK: k, outK: k}
				t := vecOrScalar(n, k)
				args := make([]wg.N, bdef.arity)
				for a := range args {
					args[a] = b.loadOperand(a, n, n, k)
				}
				nOut := b.outVal(0, t, wg.Bi(bdef.f, t, args...))
				grid := gridFor(k)
				if k == "f32" {
					grid = floatGridX
					if bdef.f == "fma" {
						grid = SmallFloatGrid
					}
				}
				var rows [][][]int32
				if bdef.arity == 1 {
					rows = singleRows(grid, n, 1, nOut, rng, limit)
				} else {
					rows = pairRows(grid, grid, n, bdef.arity, nOut, rng, limit)
				}
				out = append(out, Case{Family: "builtin", Desc: fmt.Sprintf("%s %s x%d", bdef.f, k, n), Prog: b.program(), Inputs: rows})
			}
		}
	}
	// select (scalar and vector condition), all/any, dot, cross, extractBits/insertBits, transpose
	for _, k := range []string{"i32", "u32", "f32"} {
		for _, n := range []int{1, 2, 3, 4} {
			for _, vc := range []bool{false, true} {
				if n == 1 && vc {
					continue
				}
				b := &builder{inK: k, outK: k}
				t := vecOrScalar(n, k)
				fa, ta := b.loadOperand(0, n, n, k), b.loadOperand(1, n, n, k)
				var cond wg.N
				if vc {
					cond = b.loadOperand(2, n, n, "bool")
				} else {
					cond = b.loadOperand(2, n, 1, "bool")
				}
				nOut := b.outVal(0, t, wg.Bi("select", t, fa, ta, cond))
				grid := gridFor(k)
				rows := pairRows(grid, grid, n, 3, nOut, rng, limit)
				for i, r := range rows { // condition lanes: make them 0/1-ish from the row index
					for l := 0; l < n; l++ {
						r[0][2*n+l] = int32((i >> l) & 1)
						if k == "f32" && r[0][2*n+l] == 1 {
							r[0][2*n+l] = fb(1)
						}
					}
				}
				out = append(out, Case{Family: "builtin", Desc: fmt.Sprintf("select %s x%d veccond=%v", k, n, vc), Prog: b.program(), Inputs: rows})
			}
		}
	}
	for _, f := range []string{"all", "any"} {
		for _, n := range []int{2, 3, 4} {
			b := &builder{inK: "u32", outK: "u32"}
			nOut := b.outVal(0, wg.Bool, wg.Bi(f, wg.Bool, b.loadOperand(0, n, n, "bool")))
			var rows [][][]int32
			for m := 0; m < 1<<n; m++ {
				in := make([]int32, n)
				for l := 0; l < n; l++ {
					in[l] = int32((m >> l) & 1 * (l + 1))
				}
				rows = append(rows, [][]int32{in, make([]int32, nOut)})
			}
			out = append(out, Case{Family: "builtin", Desc: fmt.Sprintf("%s x%d", f, n), Prog: b.program(), Inputs: rows})
		}
	}
	for _, k := range []string{"i32", "u32", "f32"} {
		for _, n := range []int{2, 3, 4} {
			b := &builder{inK: k, outK: k}
			nOut := b.outVal(0, scalarT(k), wg.Bi("dot", scalarT(k), b.loadOperand(0, n, n, k), b.loadOperand(1, n, n, k)))
			grid := gridFor(k)
			if k == "f32" {
				grid = SmallFloatGrid
			}
			out = append(out, Case{Family: "builtin", Desc: fmt.Sprintf("dot %s x%d", k, n), Prog: b.program(), Inputs: pairRows(grid, grid, n, 2, nOut, rng, limit)})
		}
	}
	{
		b := &builder{inK: "f32", outK: "f32"}
		t := wg.Vec(3, wg.F32)
		nOut := b.outVal(0, t, wg.Bi("cross", t, b.loadOperand(0, 3, 3, "f32"), b.loadOperand(1, 3, 3, "f32")))
		out = append(out, Case{Family: "builtin", Desc: "cross", Prog: b.program(), Inputs: pairRows(SmallFloatGrid, SmallFloatGrid, 3, 2, nOut, rng, limit)})
	}
	for _, k := range []string{"i32", "u32"} {
		for _, n := range []int{1, 3} {
			b := &builder{inK: k, outK: k}
			t := vecOrScalar(n, k)
			off := b.loadOperand(1, n, 1, "u32")
			cnt := b.loadOperand(2, n, 1, "u32")
			nOut := b.outVal(0, t, wg.Bi("extractBits", t, b.loadOperand(0, n, n, k), off, cnt))
			rows := pairRows(IntGrid, []int32{0, 1, 4, 8, 16, 31, 32, 33, 40, -1}, n, 3, nOut, rng, limit)
			out = append(out, Case{Family: "builtin", Desc: fmt.Sprintf("extractBits %s x%d", k, n), Prog: b.program(), Inputs: rows})

			b2 := &builder{inK: k, outK: k}
			nOut2 := b2.outVal(0, t, wg.Bi("insertBits", t, b2.loadOperand(0, n, n, k), b2.loadOperand(1, n, n, k),
				b2.loadOperand(2, n, 1, "u32"), b2.loadOperand(3, n, 1, "u32")))
			rows2 := pairRows(IntGrid, IntGrid, n, 4, nOut2, rng, limit)
			cg := []int32{0, 1, 4, 8, 16, 31, 32, 33, 40, -1}
			for i, r := range rows2 {
				r[0][2*n] = cg[i%len(cg)]
				r[0][3*n] = cg[(i/len(cg)+i)%len(cg)]
			}
			out = append(out, Case{Family: "builtin", Desc: fmt.Sprintf("insertBits %s x%d", k, n), Prog: b2.program(), Inputs: rows2})
		}
	}
	return out
}

// MatOps generates matrix arithmetic on small integer-valued floats.
func MatOps(rng *rand.Rand, limit int) []Case {
	var out []Case
	matOperand := func(b *builder, base, c, r int) wg.N {
		cols := make([]wg.N, c)
		for ci := 0; ci < c; ci++ {
			args := make([]wg.N, r)
			for ri := 0; ri < r; ri++ {
				args[ri] = b.in(base + ci*r + ri)
			}
			cols[ci] = wg.Ctor(wg.Vec(r, wg.F32), args...)
		}
		return wg.Ctor(wg.Mat(c, r, wg.F32), cols...)
	}
	vecOperand := func(b *builder, base, n int) wg.N {
		args := make([]wg.N, n)
		for i := range args {
			args[i] = b.in(base + i)
		}
		return wg.Ctor(wg.Vec(n, wg.F32), args...)
	}
	mkRows := func(nIn, nOut int) [][][]int32 {
		n := 24
		if limit > 0 && limit < n {
			n = limit
		}
		var rows [][][]int32
		for i := 0; i < n; i++ {
			in := make([]int32, nIn)
			for j := range in {
				in[j] = SmallFloatGrid[rng.Intn(len(SmallFloatGrid))]
			}
			rows = append(rows, [][]int32{in, make([]int32, nOut)})
		}
		return rows
	}
	for c := 2; c <= 4; c++ {
		for r := 2; r <= 4; r++ {
			mt := wg.Mat(c, r, wg.F32)
			{ // mat * vec
				b := &builder{inK: "f32", outK: "f32"}
				t := wg.Vec(r, wg.F32)
				nOut := b.outVal(0, t, wg.Bin("*", t, matOperand(b, 0, c, r), vecOperand(b, c*r, c)))
				out = append(out, Case{Family: "mat", Desc: fmt.Sprintf("mat%dx%d*vec", c, r), Prog: b.program(), Inputs: mkRows(c*r+c, nOut)})
			}
			{ // vec * mat
				b := &builder{inK: "f32", outK: "f32"}
				t := wg.Vec(c, wg.F32)
				nOut := b.outVal(0, t, wg.Bin("*", t, vecOperand(b, c*r, r), matOperand(b, 0, c, r)))
				out = append(out, Case{Family: "mat", Desc: fmt.Sprintf("vec*mat%dx%d", c, r), Prog: b.program(), Inputs: mkRows(c*r+r, nOut)})
			}
			{ // mat + mat, mat - mat, mat * scalar, scalar * mat, transpose, -mat
				for _, op := range []string{"+", "-"} {
					b := &builder{inK: "f32", outK: "f32"}
					nOut := b.outVal(0, mt, wg.Bin(op, mt, matOperand(b, 0, c, r), matOperand(b, c*r, c, r)))
					out = append(out, Case{Family: "mat", Desc: fmt.Sprintf("mat%dx%d%smat", c, r, op), Prog: b.program(), Inputs: mkRows(2*c*r, nOut)})
				}
				b := &builder{inK: "f32", outK: "f32"}
				nOut := b.outVal(0, mt, wg.Bin("*", mt, matOperand(b, 0, c, r), b.in(c*r)))
				out = append(out, Case{Family: "mat", Desc: fmt.Sprintf("mat%dx%d*scalar", c, r), Prog: b.program(), Inputs: mkRows(c*r+1, nOut)})
				b = &builder{inK: "f32", outK: "f32"}
				nOut = b.outVal(0, mt, wg.Bin("*", mt, b.in(c*r), matOperand(b, 0, c, r)))
				out = append(out, Case{Family: "mat", Desc: fmt.Sprintf("scalar*mat%dx%d", c, r), Prog: b.program(), Inputs: mkRows(c*r+1, nOut)})
				b = &builder{inK: "f32", outK: "f32"}
				tt := wg.Mat(r, c, wg.F32)
				nOut = b.outVal(0, tt, wg.Bi("transpose", tt, matOperand(b, 0, c, r)))
				out = append(out, Case{Family: "mat", Desc: fmt.Sprintf("transpose mat%dx%d", c, r), Prog: b.program(), Inputs: mkRows(c*r, nOut)})
				b = &builder{inK: "f32", outK: "f32"}
				nOut = b.outVal(0, mt, wg.Un("-", mt, matOperand(b, 0, c, r)))
				out = append(out, Case{Family: "mat", Desc: fmt.Sprintf("neg mat%dx%d", c, r), Prog: b.program(), Inputs: mkRows(c*r, nOut)})
			}
			for c2 := 2; c2 <= 4; c2++ { // (c x r) * (c2 x c) -> c2 x r
				b := &builder{inK: "f32", outK: "f32"}
				t := wg.Mat(c2, r, wg.F32)
				nOut := b.outVal(0, t, wg.Bin("*", t, matOperand(b, 0, c, r), matOperand(b, c*r, c2, c)))
				out = append(out, Case{Family: "mat", Desc: fmt.Sprintf("mat%dx%d*mat%dx%d", c, r, c2, c), Prog: b.program(), Inputs: mkRows(c*r+c2*c, nOut)})
			}
		}
	}
	return out
}
