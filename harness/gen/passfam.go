package gen

import (
	"fmt"
	"math/rand"

	"verif/harness/wg"
)

// PassProgs generates the program family used by C13 (IR-to-IR passes): compute programs assembled from templates that
// give each pass something to do - helper functions with value and pointer parameters, early returns (also inside loops
// and switches), helpers touching globals, call chains, calls in conditions / arguments / continuing blocks (inliner);
// struct locals accessed by member, stored and loaded whole (SROA); scalar locals stored in branches, switch cases and
// loops and read afterwards (mem2reg); unused lets, dead stores, unused locals (DCE, compaction); one expression of
// every kind (handle remapping in the compaction passes); private / workgroup / atomic / runtime-sized globals.
// What the programs mean is decided by the specifications, never here.
func PassProgs(rng *rand.Rand, n int) []Case {
	var out []Case
	for i := 0; i < n; i++ {
		out = append(out, passProg(rng, i))
	}
	return out
}

const (
	pfIn  = 8
	pfOut = 16
)

var (
	tInp = wg.Arr(wg.I32, pfIn)
	tOut = wg.Arr(wg.I32, pfOut)
	tI   = wg.I32
	tB   = wg.Bool
)

type pfCtx struct {
	rng     *rand.Rand
	id      int
	fns     []wg.N
	structs []wg.N
	body    []wg.N
	o       int // next free out slot
	tags    []string
	useRec  bool
	useCnt  bool
	useRt   bool
	usePriv bool
}

func li(v int) wg.N                  { return wg.LitI(int32(v)) }
func inp(i int) wg.N                 { return wg.Load(wg.RIdx(wg.RVar("inp", tInp), li(i), tI)) }
func inpDyn(e wg.N) wg.N             { return wg.Load(wg.RIdx(wg.RVar("inp", tInp), e, tI)) }
func outRef(i int) wg.N              { return wg.RIdx(wg.RVar("out", tOut), li(i), tI) }
func ibin(op string, a, b wg.N) wg.N { return wg.Bin(op, tI, a, b) }
func icmp(op string, a, b wg.N) wg.N { return wg.Bin(op, tB, a, b) }
func lv(n string) wg.N               { return wg.Load(wg.RVar(n, tI)) }
func rv(n string) wg.N               { return wg.RVar(n, tI) }
func idI(n string) wg.N              { return wg.Id(n, tI) }

func (c *pfCtx) name(p string) string { c.id++; return fmt.Sprintf("%s%d", p, c.id) }
func (c *pfCtx) in() int              { return c.rng.Intn(pfIn) }
func (c *pfCtx) k() int               { return c.rng.Intn(9) - 2 }
func (c *pfCtx) emit(e wg.N) {
	if c.o >= pfOut {
		// fold into the last slot so that every result stays observable
		c.body = append(c.body, wg.Asg(outRef(pfOut-1), ibin("+", ibin("*", wg.Load(outRef(pfOut-1)), li(31)), e)))
		return
	}
	c.body = append(c.body, wg.Asg(outRef(c.o), e))
	c.o++
}
func (c *pfCtx) add(s ...wg.N) { c.body = append(c.body, s...) }

// ---- templates ----------------------------------------------------------------

func (c *pfCtx) tEarlyRet() {
	f := c.name("er")
	x := idI("x")
	body := []wg.N{wg.If(icmp(">", x, li(c.k()+2)), []wg.N{wg.Ret(li(c.k() + 40))}, nil)}
	if c.rng.Intn(2) == 0 {
		body = append(body, wg.If(icmp("<", x, li(-3)), []wg.N{wg.Ret(ibin("-", li(0), x))}, []wg.N{}))
	}
	if c.rng.Intn(2) == 0 {
		body = append(body, wg.Var("y", tI, ibin("*", x, li(3))), wg.CAsg("+", rv("y"), li(c.k())), wg.Ret(lv("y")))
	} else {
		body = append(body, wg.Ret(ibin("+", ibin("*", x, li(c.k()+3)), li(1))))
	}
	c.fns = append(c.fns, wg.Fn(f, []wg.N{wg.Param("x", tI)}, tI, body))
	c.emit(wg.Call(f, tI, inp(c.in())))
	if c.rng.Intn(2) == 0 {
		c.emit(ibin("+", wg.Call(f, tI, li(c.k())), wg.Call(f, tI, inp(c.in()))))
	}
}

func (c *pfCtx) tPtr() {
	f := c.name("pp")
	pt := wg.Ptr("function", tI)
	q := wg.Id("q", pt)
	body := []wg.N{wg.Asg(wg.RDeref(q), ibin("+", wg.Load(wg.RDeref(q)), idI("d")))}
	ret := wg.Void
	if c.rng.Intn(2) == 0 {
		body = append(body, wg.If(icmp(">", wg.Load(wg.RDeref(q)), li(10)), []wg.N{wg.Asg(wg.RDeref(q), li(10)), wg.Ret(li(1))}, nil), wg.Ret(li(0)))
		ret = tI
	}
	c.fns = append(c.fns, wg.Fn(f, []wg.N{wg.Param("q", pt), wg.Param("d", tI)}, ret, body))
	a := c.name("a")
	c.add(wg.Var(a, tI, inp(c.in())))
	if wg.K(ret) == "void" {
		c.add(wg.CallS(f, wg.Addr(rv(a), "function"), li(c.k()+3)), wg.CallS(f, wg.Addr(rv(a), "function"), inp(c.in())))
		c.emit(lv(a))
	} else {
		r := c.name("r")
		c.add(wg.Let(r, wg.Call(f, tI, wg.Addr(rv(a), "function"), inp(c.in()))))
		c.emit(ibin("+", ibin("*", idI(r), li(100)), lv(a)))
	}
}

func (c *pfCtx) tLoopRet() {
	f := c.name("lr")
	nE := idI("n")
	var body []wg.N
	switch c.rng.Intn(3) {
	case 0: // for loop with return inside
		body = []wg.N{
			wg.Var("s", tI, li(0)),
			wg.For(wg.Var("i", tI, li(0)), icmp("<", lv("i"), li(4)), wg.Inc(rv("i")), []wg.N{
				wg.If(icmp("==", lv("i"), nE), []wg.N{wg.Ret(ibin("+", lv("s"), li(100)))}, nil),
				wg.CAsg("+", rv("s"), ibin("+", ibin("*", lv("i"), li(c.k()+3)), li(1))),
			}),
			wg.Ret(lv("s")),
		}
	case 1: // loop with continuing and a return inside a switch
		body = []wg.N{
			wg.Var("s", tI, li(1)), wg.Var("i", tI, li(0)),
			wg.Loop([]wg.N{
				wg.If(icmp(">=", lv("i"), li(3)), []wg.N{wg.Break()}, nil),
				wg.Switch(ibin("+", lv("i"), nE),
					wg.Case([]int{2}, false, []wg.N{wg.Ret(ibin("*", lv("s"), li(7)))}),
					wg.Case([]int{4, 5}, false, []wg.N{wg.CAsg("+", rv("s"), li(10))}),
					wg.Case(nil, true, []wg.N{wg.CAsg("*", rv("s"), li(2))})),
			}, []wg.N{wg.Inc(rv("i"))}, wg.None),
			wg.Ret(ibin("-", lv("s"), li(1))),
		}
	default: // while with continue and return
		body = []wg.N{
			wg.Var("s", tI, li(0)), wg.Var("i", tI, li(0)),
			wg.While(icmp("<", lv("i"), li(5)), []wg.N{
				wg.Inc(rv("i")),
				wg.If(icmp("==", lv("i"), li(2)), []wg.N{wg.Continue()}, nil),
				wg.If(icmp(">", ibin("+", lv("s"), nE), li(6)), []wg.N{wg.Ret(ibin("+", lv("s"), lv("i")))}, nil),
				wg.CAsg("+", rv("s"), lv("i")),
			}),
			wg.Ret(ibin("*", lv("s"), li(2))),
		}
	}
	c.fns = append(c.fns, wg.Fn(f, []wg.N{wg.Param("n", tI)}, tI, body))
	c.emit(wg.Call(f, tI, inp(c.in())))
	if c.rng.Intn(2) == 0 { // a call inside a loop of the caller
		a := c.name("acc")
		j := c.name("j")
		c.add(wg.Var(a, tI, li(0)),
			wg.For(wg.Var(j, tI, li(0)), icmp("<", lv(j), li(3)), wg.Inc(rv(j)), []wg.N{wg.CAsg("+", rv(a), wg.Call(f, tI, lv(j)))}))
		c.emit(lv(a))
	}
}

func (c *pfCtx) tGlob() {
	gw, gr := c.name("gw"), c.name("gr")
	slot := c.o
	if slot >= pfOut-1 {
		slot = pfOut - 2
	}
	c.o = slot + 1
	c.fns = append(c.fns,
		wg.Fn(gr, nil, tI, []wg.N{wg.Ret(ibin("*", inp(c.in()), li(c.k()+2)))}),
		wg.Fn(gw, []wg.N{wg.Param("v", tI)}, wg.Void, []wg.N{wg.Asg(outRef(slot), ibin("+", idI("v"), inp(c.in())))}))
	c.add(wg.CallS(gw, ibin("+", wg.N{"k": "call", "f": gr, "t": tI, "args": []wg.N{}}, li(c.k()))))
}

func (c *pfCtx) tChain() {
	f1, f2, f3 := c.name("ca"), c.name("cb"), c.name("cc")
	c.fns = append(c.fns,
		wg.Fn(f1, []wg.N{wg.Param("x", tI)}, tI, []wg.N{wg.Ret(ibin("+", idI("x"), li(c.k()+1)))}),
		wg.Fn(f2, []wg.N{wg.Param("x", tI), wg.Param("y", tI)}, tI, []wg.N{
			wg.If(icmp(">", idI("x"), idI("y")), []wg.N{wg.Ret(wg.Call(f1, tI, idI("x")))}, nil),
			wg.Ret(ibin("-", wg.Call(f1, tI, idI("y")), idI("x")))}),
		wg.Fn(f3, []wg.N{wg.Param("x", tI)}, tI, []wg.N{
			wg.Var("t", tI, wg.Call(f2, tI, idI("x"), li(2))),
			wg.CAsg("+", rv("t"), wg.Call(f2, tI, wg.Call(f1, tI, idI("x")), lv("t"))),
			wg.Ret(lv("t"))}))
	switch c.rng.Intn(3) {
	case 0: // call in a condition
		v := c.name("v")
		c.add(wg.Var(v, tI, li(0)),
			wg.If(icmp(">", wg.Call(f3, tI, inp(c.in())), li(3)), []wg.N{wg.Asg(rv(v), wg.Call(f1, tI, inp(c.in())))}, []wg.N{wg.Asg(rv(v), li(c.k()))}))
		c.emit(lv(v))
	case 1: // call in an argument
		c.emit(wg.Call(f2, tI, wg.Call(f3, tI, inp(c.in())), wg.Call(f1, tI, inp(c.in()))))
	default: // call in a continuing block and in break-if
		i, s := c.name("i"), c.name("s")
		c.add(wg.Var(i, tI, li(0)), wg.Var(s, tI, inp(c.in())),
			wg.Loop([]wg.N{wg.CAsg("+", rv(s), ibin("*", lv(i), li(2)))},
				[]wg.N{wg.Asg(rv(i), wg.Call(f1, tI, lv(i)))}, icmp(">=", lv(i), li(4))))
		c.emit(ibin("+", lv(s), lv(i)))
	}
}

func (c *pfCtx) tSroa() {
	sn := c.name("S")
	st := wg.StructT(sn)
	v2 := wg.Vec(2, tI)
	withVec := c.rng.Intn(2) == 0
	ms := []wg.N{wg.Member("a", tI), wg.Member("b", tI)}
	if withVec {
		ms = append(ms, wg.Member("c", v2))
	}
	c.structs = append(c.structs, wg.StructDecl(sn, ms...))
	s := c.name("s")
	sr := wg.RVar(s, st)
	ma := wg.RMem(sr, 0, "a", tI)
	mb := wg.RMem(sr, 1, "b", tI)
	full := func(a, b wg.N) wg.N {
		if withVec {
			return wg.Ctor(st, a, b, wg.Ctor(v2, li(c.k()), inp(c.in())))
		}
		return wg.Ctor(st, a, b)
	}
	switch c.rng.Intn(4) {
	case 0: // member stores and loads only
		c.add(wg.Var(s, st, wg.None), wg.Asg(ma, inp(c.in())), wg.Asg(mb, li(c.k()+5)), wg.CAsg("+", ma, wg.Load(mb)))
	case 1: // whole-struct store after a member store
		c.add(wg.Var(s, st, wg.None), wg.Asg(ma, inp(c.in())), wg.Asg(sr, full(inp(c.in()), li(c.k()))))
	case 2: // constant initialiser, then a member store
		c.add(wg.Var(s, st, full(li(c.k()+1), li(c.k()+2))), wg.Asg(mb, inp(c.in())))
	default: // member store inside a branch
		c.add(wg.Var(s, st, wg.None), wg.Asg(ma, li(c.k())), wg.If(icmp(">", inp(c.in()), li(0)), []wg.N{wg.Asg(mb, inp(c.in()))}, nil))
	}
	if c.rng.Intn(3) == 0 { // whole-struct load into a copy
		t := c.name("t")
		c.add(wg.Var(t, st, wg.Load(sr)))
		c.emit(ibin("-", wg.Load(wg.RMem(wg.RVar(t, st), 1, "b", tI)), wg.Load(wg.RMem(wg.RVar(t, st), 0, "a", tI))))
	}
	e := ibin("+", ibin("*", wg.Load(ma), li(3)), wg.Load(mb))
	if withVec {
		e = ibin("+", e, wg.Load(wg.RIdx(wg.RMem(sr, 2, "c", v2), li(1), tI)))
	}
	c.emit(e)
}

func (c *pfCtx) tM2rIf() {
	x := c.name("x")
	c.add(wg.Var(x, tI, li(c.k())))
	if c.rng.Intn(2) == 0 {
		c.add(wg.Asg(rv(x), inp(c.in())))
	}
	switch c.rng.Intn(4) {
	case 0:
		c.add(wg.If(icmp(">", inp(c.in()), li(0)), []wg.N{wg.Asg(rv(x), inp(c.in()))}, []wg.N{wg.Asg(rv(x), li(c.k()))}))
	case 1: // store in one branch only
		c.add(wg.If(icmp(">", inp(c.in()), li(1)), []wg.N{wg.CAsg("+", rv(x), li(5))}, nil))
	case 2: // nested
		c.add(wg.If(icmp(">", inp(c.in()), li(0)),
			[]wg.N{wg.If(icmp(">", inp(c.in()), li(2)), []wg.N{wg.Asg(rv(x), li(21))}, []wg.N{wg.CAsg("*", rv(x), li(2))})},
			[]wg.N{wg.Asg(rv(x), ibin("-", lv(x), li(1)))}))
	default: // load inside the branches, a second variable
		y := c.name("y")
		c.add(wg.Var(y, tI, li(0)),
			wg.If(icmp("<", inp(c.in()), li(3)), []wg.N{wg.Asg(rv(y), ibin("+", lv(x), li(1))), wg.Asg(rv(x), li(9))}, []wg.N{wg.Asg(rv(y), ibin("*", lv(x), li(2)))}))
		c.emit(lv(y))
	}
	c.emit(lv(x))
}

func (c *pfCtx) tM2rSwitch() {
	x := c.name("x")
	c.add(wg.Var(x, tI, li(c.k())))
	if c.rng.Intn(2) == 0 {
		c.add(wg.Asg(rv(x), ibin("+", inp(c.in()), li(1))))
	}
	var c2 []wg.N
	switch c.rng.Intn(3) {
	case 0:
		c2 = []wg.N{wg.Asg(rv(x), inp(c.in()))}
	case 1: // a break in the middle of a case
		c2 = []wg.N{wg.Asg(rv(x), inp(c.in())), wg.If(icmp(">", inp(c.in()), li(0)), []wg.N{wg.Break()}, nil), wg.Asg(rv(x), li(77))}
	default:
		c2 = []wg.N{wg.CAsg("+", rv(x), li(3))}
	}
	def := []wg.N{}
	if c.rng.Intn(2) == 0 {
		def = []wg.N{wg.Asg(rv(x), li(c.k()-10))}
	}
	c.add(wg.Switch(inp(c.in()),
		wg.Case([]int{1}, false, []wg.N{wg.Asg(rv(x), li(4))}),
		wg.Case([]int{2, 3}, false, c2),
		wg.Case(nil, true, def)))
	c.emit(lv(x))
}

func (c *pfCtx) tM2rLoop() {
	x, n := c.name("x"), c.name("n")
	c.add(wg.Var(x, tI, li(c.k())))
	switch c.rng.Intn(3) {
	case 0: // stored before the loop and in it
		c.add(wg.Asg(rv(x), inp(c.in())), wg.Var(n, tI, li(0)),
			wg.Loop([]wg.N{wg.If(icmp(">=", lv(n), li(3)), []wg.N{wg.Break()}, nil), wg.CAsg("+", rv(x), lv(n))}, []wg.N{wg.Inc(rv(n))}, wg.None))
	case 1: // stored before the loop, only read in it
		s := c.name("s")
		c.add(wg.Asg(rv(x), inp(c.in())), wg.Var(s, tI, li(0)),
			wg.For(wg.Var(n, tI, li(0)), icmp("<", lv(n), li(3)), wg.Inc(rv(n)), []wg.N{wg.CAsg("+", rv(s), ibin("*", lv(x), lv(n)))}))
		c.emit(lv(s))
	default: // declared inside the loop body: re-initialised every iteration
		s := c.name("s")
		c.add(wg.Var(s, tI, li(0)),
			wg.For(wg.Var(n, tI, li(0)), icmp("<", lv(n), li(3)), wg.Inc(rv(n)), []wg.N{
				wg.Var("w", tI, li(1)), wg.CAsg("+", rv("w"), ibin("+", lv(n), inp(c.in()))), wg.CAsg("+", rv(s), lv("w"))}))
		c.emit(lv(s))
	}
	c.emit(lv(x))
}

func (c *pfCtx) tDead() {
	d, u := c.name("d"), c.name("u")
	c.add(wg.Let(d, ibin("*", inp(c.in()), li(3))), wg.Var(u, tI, li(5)), wg.Asg(rv(u), inp(c.in())))
	if c.rng.Intn(2) == 0 {
		c.add(wg.Phony(ibin("+", inp(c.in()), li(1))))
	}
	c.constAny()
	if c.rng.Intn(2) == 0 { // dead store followed by a live one
		w := c.name("w")
		c.add(wg.Var(w, tI, li(1)), wg.Asg(rv(w), li(2)), wg.Asg(rv(w), ibin("+", inp(c.in()), li(c.k()))))
		c.emit(lv(w))
	}
}

// constAny: a relational function of constants - folded by the front end, which leaves an Emit for DeduplicateEmits to tidy up.
func (c *pfCtx) constAny() {
	g := c.name("g")
	vb := wg.Vec(3, tB)
	c.add(wg.Var(g, tB, wg.Bi("any", tB, wg.Ctor(vb, wg.LitB(false), wg.LitB(c.rng.Intn(2) == 0), wg.LitB(false)))))
	c.emit(wg.Cast(tI, wg.Load(wg.RVar(g, tB))))
}

func (c *pfCtx) tExpr() {
	v3 := wg.Vec(3, tI)
	v4 := wg.Vec(4, tI)
	a, b := c.in(), c.in()
	switch c.rng.Intn(8) {
	case 0: // select
		c.emit(wg.Bi("select", tI, inp(a), inp(b), icmp(">", inp(c.in()), li(0))))
	case 1: // compose, swizzle, splat, vector arithmetic, dot
		v := c.name("v")
		c.add(wg.Let(v, wg.Ctor(v3, inp(a), li(c.k()), inp(b))))
		w := wg.Bin("+", v3, wg.Swz(v3, wg.Id(v, v3), 2, 0, 1), wg.Ctor(v3, li(c.k()+1)))
		c.emit(wg.Bi("dot", tI, w, wg.Id(v, v3)))
		c.emit(wg.Swz(tI, wg.Bin("*", v3, wg.Id(v, v3), li(2)), 1))
	case 2: // integer builtins
		c.emit(wg.Bi("clamp", tI, inp(a), li(-2), li(5)))
		c.emit(ibin("+", wg.Bi("min", tI, inp(a), inp(b)), wg.Bi("abs", tI, wg.Bi("max", tI, inp(b), li(c.k())))))
		c.emit(wg.Bitcast(tI, wg.Bi("countOneBits", wg.U32, wg.Bitcast(wg.U32, inp(a)))))
	case 3: // conversions
		c.emit(wg.Cast(tI, wg.Bin("*", wg.F32, wg.Cast(wg.F32, wg.Bi("clamp", tI, inp(a), li(-50), li(50))), wg.LitF(2))))
		c.emit(wg.Cast(tI, icmp("!=", inp(b), li(0))))
		c.emit(wg.Bitcast(tI, wg.Bin(">>", wg.U32, wg.Cast(wg.U32, inp(a)), wg.LitU(1))))
	case 4: // any / all on a comparison of vectors
		v := c.name("v")
		c.add(wg.Let(v, wg.Ctor(v4, inp(a), inp(b), li(1), li(c.k()))))
		cm := wg.Bin(">", wg.Vec(4, tB), wg.Id(v, v4), wg.Ctor(v4, li(0)))
		c.emit(ibin("+", wg.Cast(tI, wg.Bi("any", tB, cm)), ibin("*", wg.Cast(tI, wg.Bi("all", tB, cm)), li(2))))
	case 5: // local array: dynamic index through a pointer and on a value
		ar := c.name("ar")
		at := wg.Arr(tI, 4)
		c.add(wg.Var(ar, at, wg.Ctor(at, li(c.k()), inp(a), li(3), inp(b))),
			wg.Asg(wg.RIdx(wg.RVar(ar, at), ibin("&", inp(c.in()), li(3)), tI), li(50)))
		c.emit(wg.Load(wg.RIdx(wg.RVar(ar, at), ibin("&", inp(c.in()), li(3)), tI)))
		l := c.name("l")
		c.add(wg.Let(l, wg.Load(wg.RVar(ar, at))))
		c.emit(wg.Idx(tI, wg.Id(l, at), ibin("&", inp(c.in()), li(3))))
	case 6: // unary operators, shifts, bit operations
		c.emit(ibin("^", ibin("-", li(0), inp(a)), wg.Un("~", tI, inp(b))))
		c.emit(ibin("|", ibin("<<", inp(a), wg.LitU(3)), ibin("&", inp(b), li(255))))
		c.emit(wg.Cast(tI, wg.Un("!", tB, icmp("<", inp(a), inp(b)))))
	default: // matrix times vector on small integers, float compare
		m := wg.Mat(2, 2, wg.F32)
		v2 := wg.Vec(2, wg.F32)
		fa := wg.Cast(wg.F32, wg.Bi("clamp", tI, inp(a), li(-8), li(8)))
		fb := wg.Cast(wg.F32, wg.Bi("clamp", tI, inp(b), li(-8), li(8)))
		r := c.name("r")
		c.add(wg.Let(r, wg.Bin("*", v2, wg.Ctor(m, wg.Ctor(v2, fa, wg.LitF(1)), wg.Ctor(v2, wg.LitF(2), fb)), wg.Ctor(v2, fb, wg.LitF(3)))))
		c.emit(wg.Cast(tI, wg.Swz(wg.F32, wg.Id(r, v2), 0)))
		c.emit(wg.Cast(tI, wg.Swz(wg.F32, wg.Id(r, v2), 1)))
	}
}

// tForUpdate: helpers that are called only from the update clause of a for loop / from a continuing block (reachable
// for CompactUnused through StmtLoop.Continuing only).
func (c *pfCtx) tForUpdate() {
	nx, wt := c.name("nx"), c.name("wt")
	c.fns = append(c.fns,
		wg.Fn(wt, []wg.N{wg.Param("x", tI), wg.Param("y", tI)}, tI, []wg.N{wg.Ret(ibin("+", ibin("*", idI("x"), li(3)), idI("y")))}),
		wg.Fn(nx, []wg.N{wg.Param("x", tI)}, tI, []wg.N{wg.Ret(ibin("+", idI("x"), li(1+c.rng.Intn(2))))}))
	i, s := c.name("i"), c.name("s")
	c.add(wg.Var(s, tI, li(c.k())),
		wg.For(wg.Var(i, tI, li(0)), icmp("<", lv(i), li(4)), wg.Asg(rv(i), wg.Call(nx, tI, lv(i))),
			[]wg.N{wg.Asg(rv(s), wg.Call(wt, tI, lv(s), ibin("+", lv(i), inp(c.in()))))}))
	c.emit(lv(s))
	if c.rng.Intn(2) == 0 { // the same in a hand-written continuing block, the helper of the body called nowhere else either
		j, t := c.name("j"), c.name("t")
		c.add(wg.Var(j, tI, li(0)), wg.Var(t, tI, inp(c.in())),
			wg.Loop([]wg.N{wg.If(icmp(">=", lv(j), li(3)), []wg.N{wg.Break()}, nil), wg.CAsg("+", rv(t), lv(j))},
				[]wg.N{wg.Asg(rv(j), wg.Call(nx, tI, lv(j)))}, wg.None))
		c.emit(ibin("+", lv(t), lv(j)))
	}
}

// tSelect: Select expressions whose operands come after expressions the compaction passes remove (a dead let, the
// templates the inliner leaves behind), scalar and vector conditions.
func (c *pfCtx) tSelect() {
	f := c.name("sl")
	c.fns = append(c.fns, wg.Fn(f, []wg.N{wg.Param("x", tI)}, tI, []wg.N{
		wg.Var("y", tI, ibin("*", idI("x"), li(c.k()+2))),
		wg.Ret(wg.Bi("select", tI, lv("y"), ibin("-", li(0), lv("y")), icmp("<", idI("x"), li(c.k()))))}))
	d := c.name("d")
	c.add(wg.Let(d, ibin("*", inp(c.in()), li(3))))
	c.emit(wg.Bi("select", tI, wg.Call(f, tI, inp(c.in())), ibin("+", inp(c.in()), li(100)), icmp(">", inp(c.in()), li(0))))
	v2 := wg.Vec(2, tI)
	w := c.name("w")
	c.add(wg.Let(w, wg.Bi("select", v2, wg.Ctor(v2, inp(c.in()), li(7)), wg.Ctor(v2, li(c.k()), wg.Call(f, tI, li(c.k()))),
		wg.Bin(">", wg.Vec(2, tB), wg.Ctor(v2, inp(c.in()), inp(c.in())), wg.Ctor(v2, li(0))))))
	c.emit(ibin("+", ibin("*", wg.Swz(tI, wg.Id(w, v2), 0), li(10)), wg.Swz(tI, wg.Id(w, v2), 1)))
}

func (c *pfCtx) tGlobals() {
	switch c.rng.Intn(4) {
	case 0: // private with initialiser, workgroup array
		c.usePriv = true
		wt := wg.Arr(tI, 4)
		c.add(wg.CAsg("+", rv("pv"), inp(c.in())),
			wg.Asg(wg.RIdx(wg.RVar("wv", wt), ibin("&", inp(c.in()), li(3)), tI), ibin("+", lv("pv"), li(1))))
		c.emit(ibin("+", lv("pv"), wg.Load(wg.RIdx(wg.RVar("wv", wt), li(1), tI))))
	case 1: // struct in a storage buffer
		c.useRec = true
		rt := wg.StructT("Rec")
		r := wg.RVar("rec", rt)
		c.add(wg.Asg(wg.RMem(r, 0, "a", tI), ibin("+", wg.Load(wg.RMem(r, 0, "a", tI)), inp(c.in()))),
			wg.Asg(wg.RIdx(wg.RMem(r, 2, "c", wg.Arr(tI, 3)), ibin("&", inp(c.in()), li(1)), tI), li(c.k()+20)),
			wg.Asg(wg.RMem(r, 1, "b", wg.Vec(2, tI)), wg.Ctor(wg.Vec(2, tI), inp(c.in()), li(c.k()))))
		c.emit(wg.Load(wg.RIdx(wg.RMem(r, 2, "c", wg.Arr(tI, 3)), li(0), tI)))
	case 2: // atomic counter
		c.useCnt = true
		at := wg.Atomic(tI)
		p := wg.Addr(wg.RVar("cnt", at), "storage")
		o := c.name("old")
		c.add(wg.Let(o, wg.Bi("atomicAdd", tI, p, inp(c.in()))), wg.BiStmt(wg.Bi("atomicMax", tI, p, li(c.k()))))
		c.emit(ibin("+", idI(o), wg.Bi("atomicLoad", tI, p)))
	default: // runtime-sized array
		c.useRt = true
		rt := wg.Arr(wg.U32, 0)
		c.emit(wg.Bitcast(tI, ibin2u("+", wg.Bi("arrayLength", wg.U32, wg.Addr(wg.RVar("rt", rt), "storage")), wg.Load(wg.RIdx(wg.RVar("rt", rt), wg.LitU(1), wg.U32)))))
	}
}

func ibin2u(op string, a, b wg.N) wg.N { return wg.Bin(op, wg.U32, a, b) }

func passProg(rng *rand.Rand, idx int) Case {
	c := &pfCtx{rng: rng}
	type tpl struct {
		tag string
		f   func()
	}
	tpls := []tpl{
		{"earlyret", c.tEarlyRet}, {"ptr", c.tPtr}, {"loopret", c.tLoopRet}, {"glob", c.tGlob}, {"chain", c.tChain},
		{"sroa", c.tSroa}, {"m2r-if", c.tM2rIf}, {"m2r-switch", c.tM2rSwitch}, {"m2r-loop", c.tM2rLoop}, {"dead", c.tDead},
		{"expr", c.tExpr}, {"globals", c.tGlobals}, {"select", c.tSelect}, {"for-update", c.tForUpdate},
	}
	n := 2 + rng.Intn(4)
	// the first template rotates so that every one is exercised even in a small sample
	first := idx % len(tpls)
	for i := 0; i < n; i++ {
		t := tpls[rng.Intn(len(tpls))]
		if i == 0 {
			t = tpls[first]
		}
		c.tags = append(c.tags, t.tag)
		t.f()
	}
	if idx%3 != 2 {
		c.tags = append(c.tags, "const-any")
		c.constAny()
	}
	if idx%4 == 0 {
		c.tags = append(c.tags, "sroa")
		c.tSroa()
	}
	globals := []wg.N{
		wg.Global("inp", "storage", "r", tInp, 0, 0, wg.None),
		wg.Global("out", "storage", "rw", tOut, 0, 1, wg.None),
	}
	nG := 2
	bufWords := []int{pfIn, pfOut}
	if c.useRec {
		c.structs = append(c.structs, wg.StructDecl("Rec", wg.Member("a", tI), wg.Member("b", wg.Vec(2, tI)), wg.Member("c", wg.Arr(tI, 3))))
		globals = append(globals, wg.Global("rec", "storage", "rw", wg.StructT("Rec"), 0, 2, wg.None))
		bufWords = append(bufWords, 8) // a:0 b:8..16 c:16..28 -> 32 bytes
		nG++
	}
	if c.useCnt {
		globals = append(globals, wg.Global("cnt", "storage", "rw", wg.Atomic(tI), 0, 3, wg.None))
		bufWords = append(bufWords, 1)
		nG++
	}
	if c.useRt {
		globals = append(globals, wg.Global("rt", "storage", "r", wg.Arr(wg.U32, 0), 0, 4, wg.None))
		bufWords = append(bufWords, 3+rng.Intn(3))
		nG++
	}
	if c.usePriv {
		globals = append(globals, wg.Global("pv", "private", "", tI, 0, 0, li(5)), wg.Global("wv", "workgroup", "", wg.Arr(tI, 4), 0, 0, wg.None))
		bufWords = append(bufWords, 0, 0)
	}
	fns := append(append([]wg.N{}, c.fns...), wg.Entry("main", nil, c.body))
	prog := wg.Program(c.structs, nil, globals, fns)
	desc := fmt.Sprintf("pass #%d", idx)
	for _, t := range c.tags {
		desc += " " + t
	}
	cs := Case{Family: "pass", Desc: desc, Prog: prog}
	small := []int32{0, 1, 2, 3, 4, 5, -1, -3, 7, 2, 1, 0}
	for r := 0; r < 6; r++ {
		row := make([][]int32, len(bufWords))
		for g, w := range bufWords {
			row[g] = make([]int32, w)
			if g == 1 {
				continue // out starts zeroed
			}
			for i := range row[g] {
				if r == 0 {
					row[g][i] = int32(i%5) - 1
				} else {
					row[g][i] = small[rng.Intn(len(small))]
				}
			}
		}
		cs.Inputs = append(cs.Inputs, row)
	}
	return cs
}
