package gen

// Random structured programs (DESIGN.md 5.1 "large random programs"): compositions of the table families inside one
// grammar - literal-only (foldable) sub-expressions next to run-time ones, every statement kind in every position
// (loop bodies, continuing blocks, for-updates, switch cases, nested blocks with shadowing), helper functions with value
// and pointer parameters, private globals, local arrays / vectors / matrices / structs with dynamic (in-range) indices.
// What a program MEANS is decided by WgslSem.tla; the generator only keeps programs inside the domain where WGSL pins
// the result (in-range indices, bounded loops, no const-expression errors) and outside the constructs for which a
// known finding is already recorded for the operator tables (shift counts are masked, no countLeadingZeros ...).

import (
	"fmt"
	"math"
	"math/rand"

	"verif/harness/wg"
)

const (
	randNIn  = 8
	randNOut = 24
)

type rVar struct {
	name  string
	t     wg.N
	isVar bool // declared with `var` (a reference) rather than let / parameter (a value)
}

type rFn struct {
	name   string
	params []wg.N // types
	ptrIdx int    // index of a ptr<function,i32> parameter or -1
	ret    wg.N
}

type rGen struct {
	rng      *rand.Rand
	scopes   [][]rVar
	fns      []wg.N
	sigs     []rFn
	globals  []wg.N
	gvars    []rVar
	structs  []wg.N
	ctr      int
	budget   int
	loops    int  // loop nesting depth at this point
	canCont  bool // `continue` is safe here (the loop's progress does not depend on the rest of the body)
	inCont   bool // inside a continuing block (no break / continue / return)
	inHelper bool
	retT     wg.N
	sw       int // switch nesting (break allowed)
	outNext  int
	useMat   bool
	// glslSafe keeps the program inside the operations GLSL defines (C05 excludes GLSL-undefined executions): no signed
	// `/` `%`, unsigned divisors forced non-zero.
	glslSafe bool
}

// divOperand adapts the right operand of an integer `/` or `%` to the dialect restrictions.
func (g *rGen) divOp(op string, t wg.N) (string, bool) {
	if !g.glslSafe || (op != "/" && op != "%") {
		return op, false
	}
	k := wg.K(t)
	if k == "vec" {
		k = wg.K(wg.Sub(t, "e"))
	}
	if k == "i32" {
		return []string{"+", "-", "*", "&", "|", "^"}[g.rng.Intn(6)], false
	}
	return op, true // unsigned: force a non-zero divisor
}

func nonZeroU(t wg.N, e wg.N) wg.N {
	if wg.K(t) == "vec" {
		return wg.Bin("|", t, e, wg.Ctor(t, wg.LitU(1)))
	}
	return wg.Bin("|", t, e, wg.LitU(1))
}

func (g *rGen) name(p string) string { g.ctr++; return fmt.Sprintf("%s%d", p, g.ctr) }
func (g *rGen) push()                { g.scopes = append(g.scopes, nil) }
func (g *rGen) pop()                 { g.scopes = g.scopes[:len(g.scopes)-1] }
func (g *rGen) declare(v rVar)       { g.scopes[len(g.scopes)-1] = append(g.scopes[len(g.scopes)-1], v) }
func (g *rGen) pct(p int) bool       { return g.rng.Intn(100) < p }

func sameT(a, b wg.N) bool {
	if wg.K(a) != wg.K(b) {
		return false
	}
	switch wg.K(a) {
	case "vec":
		return wg.I(a, "n") == wg.I(b, "n") && sameT(wg.Sub(a, "e"), wg.Sub(b, "e"))
	case "arr":
		return wg.I(a, "n") == wg.I(b, "n") && sameT(wg.Sub(a, "e"), wg.Sub(b, "e"))
	case "mat":
		return wg.I(a, "c") == wg.I(b, "c") && wg.I(a, "r") == wg.I(b, "r")
	case "struct":
		return wg.S(a, "name") == wg.S(b, "name")
	}
	return true
}

// visible returns the variables in scope (innermost declaration of a name wins), globals last.
func (g *rGen) visible() []rVar {
	seen := map[string]bool{}
	var out []rVar
	for i := len(g.scopes) - 1; i >= 0; i-- {
		sc := g.scopes[i]
		for j := len(sc) - 1; j >= 0; j-- {
			if !seen[sc[j].name] {
				seen[sc[j].name] = true
				out = append(out, sc[j])
			}
		}
	}
	for _, v := range g.gvars {
		if !seen[v.name] {
			out = append(out, v)
		}
	}
	return out
}

func (g *rGen) read(v rVar) wg.N {
	if v.isVar {
		return wg.Load(wg.RVar(v.name, v.t))
	}
	return wg.Id(v.name, v.t)
}

// rex is a generated expression with what the generator knows about it.
type rex struct {
	e     wg.N
	konst bool  // built from literals only (a const-expression)
	val   int64 // value when konst and scalar integer / bool
}

func (g *rGen) inpLoad() wg.N {
	k := g.rng.Intn(randNIn)
	return wg.Load(wg.RIdx(wg.RVar("inp", wg.Arr(wg.I32, randNIn)), wg.LitI(int32(k)), wg.I32))
}

func (g *rGen) runtimeLeaf(t wg.N) wg.N {
	switch wg.K(t) {
	case "i32":
		return g.inpLoad()
	case "u32":
		return wg.Bitcast(wg.U32, g.inpLoad())
	case "bool":
		return wg.Bin("!=", wg.Bool, wg.Bin("&", wg.I32, g.inpLoad(), wg.LitI(1)), wg.LitI(0))
	case "f32":
		return wg.Cast(wg.F32, wg.Bin("&", wg.I32, g.inpLoad(), wg.LitI(15)))
	case "vec":
		n := wg.I(t, "n")
		args := make([]wg.N, n)
		for i := range args {
			args[i] = g.runtimeLeaf(wg.Sub(t, "e"))
		}
		return wg.Ctor(t, args...)
	}
	return wg.Ctor(t)
}

func (g *rGen) lit(t wg.N) rex {
	switch wg.K(t) {
	case "i32":
		v := int64(g.rng.Intn(17) - 8)
		if g.pct(8) {
			v = []int64{math.MaxInt32, -math.MaxInt32, 65536, 255, -256, 46341}[g.rng.Intn(6)]
		}
		return rex{wg.LitI(int32(v)), true, v}
	case "u32":
		v := int64(g.rng.Intn(9))
		if g.pct(8) {
			v = []int64{math.MaxUint32, 1 << 31, 65535, 255, 65536}[g.rng.Intn(5)]
		}
		return rex{wg.LitU(uint32(v)), true, v}
	case "bool":
		b := g.pct(50)
		v := int64(0)
		if b {
			v = 1
		}
		return rex{wg.LitB(b), true, v}
	case "f32":
		v := g.rng.Intn(9)
		return rex{wg.LitF(float32(v)), true, int64(v)}
	}
	panic("lit: " + wg.K(t))
}

func inRange(k string, v int64) bool {
	if k == "u32" {
		return v >= 0 && v <= math.MaxUint32
	}
	return v >= math.MinInt32 && v <= math.MaxInt32
}

// index returns an in-range dynamic index expression for an object of n elements (i32 or u32 typed).
func (g *rGen) index(n, d int) wg.N {
	if g.pct(30) {
		return wg.LitI(int32(g.rng.Intn(n)))
	}
	if g.pct(50) {
		e := g.expr(wg.U32, d+1)
		return wg.Bin("%", wg.U32, e.e, wg.LitU(uint32(n)))
	}
	e := g.expr(wg.I32, d+1)
	if n&(n-1) == 0 {
		return wg.Bin("&", wg.I32, e.e, wg.LitI(int32(n-1)))
	}
	// (e & 0x7fffffff) % n
	return wg.Bin("%", wg.I32, wg.Bin("&", wg.I32, e.e, wg.LitI(math.MaxInt32)), wg.LitI(int32(n)))
}

// fromVars returns an expression of type t read out of a variable in scope (whole, component, element, member).
func (g *rGen) fromVars(t wg.N, d int) (wg.N, bool) {
	vs := g.visible()
	g.rng.Shuffle(len(vs), func(i, j int) { vs[i], vs[j] = vs[j], vs[i] })
	for _, v := range vs {
		if sameT(v.t, t) {
			return g.read(v), true
		}
		switch wg.K(v.t) {
		case "vec":
			et := wg.Sub(v.t, "e")
			n := wg.I(v.t, "n")
			if sameT(et, t) {
				if v.isVar && g.pct(50) {
					return wg.Load(wg.RIdx(wg.RVar(v.name, v.t), g.index(n, d), et)), true
				}
				if g.pct(30) {
					return wg.Idx(et, g.read(v), g.index(n, d)), true
				}
				return wg.Swz(et, g.read(v), g.rng.Intn(n)), true
			}
			if wg.K(t) == "vec" && sameT(et, wg.Sub(t, "e")) {
				m := wg.I(t, "n")
				s := make([]int, m)
				for i := range s {
					s[i] = g.rng.Intn(n)
				}
				return wg.Swz(t, g.read(v), s...), true
			}
		case "arr":
			if v.isVar && sameT(wg.Sub(v.t, "e"), t) {
				return wg.Load(wg.RIdx(wg.RVar(v.name, v.t), g.index(wg.I(v.t, "n"), d), t)), true
			}
		case "mat":
			// dynamic column, then a component, converted back to an integer
			if v.isVar && wg.K(t) == "i32" {
				c, r := wg.I(v.t, "c"), wg.I(v.t, "r")
				col := wg.Vec(r, wg.F32)
				ce := wg.Load(wg.RIdx(wg.RVar(v.name, v.t), g.index(c, d), col))
				return wg.Cast(wg.I32, wg.Swz(wg.F32, ce, g.rng.Intn(r))), true
			}
		case "struct":
			if v.isVar {
				for _, sd := range g.structs {
					if wg.S(sd, "name") != wg.S(v.t, "name") {
						continue
					}
					for mi, m := range wg.L(sd, "ms") {
						if sameT(wg.Sub(m, "ty"), t) {
							return wg.Load(wg.RMem(wg.RVar(v.name, v.t), mi, wg.S(m, "name"), t)), true
						}
					}
				}
			}
		}
	}
	return nil, false
}

var intArith = []string{"+", "-", "*", "/", "%", "&", "|", "^"}

func (g *rGen) expr(t wg.N, d int) rex {
	k := wg.K(t)
	leaf := d >= 4 || g.pct(22)
	if leaf {
		switch r := g.rng.Intn(10); {
		case r < 3:
			if k == "vec" {
				return g.vecCtor(t, d, true)
			}
			return g.lit(t)
		case r < 6:
			return rex{e: g.runtimeLeaf(t)}
		default:
			if e, ok := g.fromVars(t, d); ok {
				return rex{e: e}
			}
			return rex{e: g.runtimeLeaf(t)}
		}
	}
	switch k {
	case "i32", "u32":
		return g.intExpr(t, d)
	case "bool":
		return g.boolExpr(d)
	case "vec":
		return g.vecExpr(t, d)
	case "f32":
		return rex{e: g.runtimeLeaf(t)}
	}
	panic("expr: " + k)
}

// runtime forces a non-constant expression of type t.
func (g *rGen) runtime(t wg.N, d int) rex {
	if e, ok := g.fromVars(t, d); ok && g.pct(60) {
		return rex{e: e}
	}
	return rex{e: g.runtimeLeaf(t)}
}

func (g *rGen) intExpr(t wg.N, d int) rex {
	k := wg.K(t)
	switch r := g.rng.Intn(20); {
	case r < 9: // arithmetic / bitwise
		op := intArith[g.rng.Intn(len(intArith))]
		op, nz := g.divOp(op, t)
		a, b := g.expr(t, d+1), g.expr(t, d+1)
		if nz {
			return rex{e: wg.Bin(op, t, a.e, nonZeroU(t, g.runtime(t, d+1).e))}
		}
		if a.konst && b.konst {
			var v int64
			ok := true
			switch op {
			case "+":
				v = a.val + b.val
			case "-":
				v = a.val - b.val
			case "*":
				v = a.val * b.val
				if math.Abs(float64(a.val)*float64(b.val)) > 1e12 {
					ok = false
				}
			case "/":
				if b.val == 0 || (a.val == math.MinInt32 && b.val == -1) {
					ok = false
				} else {
					v = a.val / b.val
				}
			case "%":
				if b.val == 0 || (a.val == math.MinInt32 && b.val == -1) {
					ok = false
				} else {
					v = a.val % b.val
				}
			case "&":
				v = a.val & b.val
			case "|":
				v = a.val | b.val
			case "^":
				v = a.val ^ b.val
			}
			if ok && inRange(k, v) {
				return rex{wg.Bin(op, t, a.e, b.e), true, v}
			}
			b = g.runtime(t, d+1)
		}
		if (op == "/" || op == "%") && b.konst && b.val == 0 {
			b = g.runtime(t, d+1) // a literal zero divisor is left to the operator tables
		}
		return rex{e: wg.Bin(op, t, a.e, b.e)}
	case r < 11: // shifts: run-time left operand, count masked into range
		a := g.runtime(t, d+1)
		cnt := wg.Bin("&", wg.U32, g.expr(wg.U32, d+1).e, wg.LitU(31))
		op := "<<"
		if g.pct(50) {
			op = ">>"
		}
		return rex{e: wg.Bin(op, t, a.e, cnt)}
	case r < 12: // unary
		a := g.expr(t, d+1)
		if k == "i32" && g.pct(50) {
			if a.konst {
				if a.val == math.MinInt32 {
					a = g.runtime(t, d+1)
				} else {
					return rex{wg.Un("-", t, a.e), true, -a.val}
				}
			}
			return rex{e: wg.Un("-", t, a.e)}
		}
		return rex{e: wg.Un("~", t, g.runtime(t, d+1).e)}
	case r < 14: // select
		f, tr, c := g.expr(t, d+1), g.expr(t, d+1), g.boolExpr(d+1)
		return rex{e: wg.Bi("select", t, f.e, tr.e, c.e)}
	case r < 15: // conversion
		o := wg.I32
		if k == "i32" {
			o = wg.U32
		}
		a := g.runtime(o, d+1)
		if g.pct(50) {
			return rex{e: wg.Cast(t, a.e)}
		}
		return rex{e: wg.Bitcast(t, a.e)}
	case r < 16:
		return rex{e: wg.Cast(t, g.boolExpr(d+1).e)}
	case r < 18: // builtins
		switch g.rng.Intn(5) {
		case 0:
			return rex{e: wg.Bi("min", t, g.expr(t, d+1).e, g.expr(t, d+1).e)}
		case 1:
			return rex{e: wg.Bi("max", t, g.expr(t, d+1).e, g.expr(t, d+1).e)}
		case 2:
			lo := int32(g.rng.Intn(5))
			hi := lo + int32(g.rng.Intn(9))
			return rex{e: wg.Bi("clamp", t, g.expr(t, d+1).e, wg.Lit(t, lo), wg.Lit(t, hi))}
		case 3:
			if k == "i32" {
				return rex{e: wg.Bi("abs", t, g.runtime(t, d+1).e)}
			}
			return rex{e: wg.Bi("countOneBits", t, g.expr(t, d+1).e)}
		default:
			return rex{e: wg.Bi("reverseBits", t, g.runtime(t, d+1).e)}
		}
	default:
		if e, ok := g.call(t, d); ok {
			return rex{e: e}
		}
		return g.runtime(t, d)
	}
}

func (g *rGen) boolExpr(d int) rex {
	if d >= 4 {
		return rex{e: g.runtimeLeaf(wg.Bool)}
	}
	switch r := g.rng.Intn(12); {
	case r < 6:
		t := []wg.N{wg.I32, wg.U32}[g.rng.Intn(2)]
		op := []string{"==", "!=", "<", "<=", ">", ">="}[g.rng.Intn(6)]
		return rex{e: wg.Bin(op, wg.Bool, g.expr(t, d+1).e, g.expr(t, d+1).e)}
	case r < 8:
		op := []string{"&&", "||"}[g.rng.Intn(2)]
		return rex{e: wg.Bin(op, wg.Bool, g.boolExpr(d+1).e, g.boolExpr(d+1).e)}
	case r < 9:
		return rex{e: wg.Un("!", wg.Bool, g.boolExpr(d+1).e)}
	case r < 10:
		n := 2 + g.rng.Intn(3)
		f := []string{"all", "any"}[g.rng.Intn(2)]
		return rex{e: wg.Bi(f, wg.Bool, g.expr(wg.Vec(n, wg.Bool), d+1).e)}
	case r < 11:
		op := []string{"&", "|"}[g.rng.Intn(2)]
		return rex{e: wg.Bin(op, wg.Bool, g.boolExpr(d+1).e, g.boolExpr(d+1).e)}
	default:
		if e, ok := g.fromVars(wg.Bool, d); ok {
			return rex{e: e}
		}
		return rex{e: g.runtimeLeaf(wg.Bool)}
	}
}

// vecCtor builds a vector constructor; allConst asks for literal components (a foldable vector).
func (g *rGen) vecCtor(t wg.N, d int, allConst bool) rex {
	n := wg.I(t, "n")
	et := wg.Sub(t, "e")
	if g.pct(20) { // splat
		if allConst {
			return rex{e: wg.Ctor(t, g.lit(et).e), konst: true}
		}
		return rex{e: wg.Ctor(t, g.expr(et, d+1).e)}
	}
	args := make([]wg.N, 0, n)
	konst := true
	if !allConst && n >= 3 && g.pct(25) { // vecN(vec2, scalars...)
		sub := g.expr(wg.Vec(2, et), d+1)
		args = append(args, sub.e)
		konst = konst && sub.konst
		for i := 2; i < n; i++ {
			a := g.expr(et, d+1)
			args = append(args, a.e)
			konst = konst && a.konst
		}
		return rex{e: wg.Ctor(t, args...), konst: konst}
	}
	for i := 0; i < n; i++ {
		var a rex
		if allConst {
			a = g.lit(et)
		} else {
			a = g.expr(et, d+1)
		}
		args = append(args, a.e)
		konst = konst && a.konst
	}
	return rex{e: wg.Ctor(t, args...), konst: konst}
}

// foldPattern: `scalar OP vector`, `vector OP scalar`, `vector OP vector` over small non-zero literals (all foldable,
// no const-expression error possible).
func (g *rGen) foldPattern(t wg.N) rex {
	n := wg.I(t, "n")
	et := wg.Sub(t, "e")
	small := func() wg.N { return wg.Lit(et, int32(1+g.rng.Intn(9))) }
	vec := func() wg.N {
		args := make([]wg.N, n)
		for i := range args {
			args[i] = small()
		}
		return wg.Ctor(t, args...)
	}
	ops := []string{"+", "*", "/", "%"}
	if wg.K(et) == "i32" {
		ops = append(ops, "-")
	}
	op := ops[g.rng.Intn(len(ops))]
	switch g.rng.Intn(3) {
	case 0:
		s := wg.Lit(et, int32(10+g.rng.Intn(40)))
		return rex{e: wg.Bin(op, t, s, vec()), konst: true}
	case 1:
		return rex{e: wg.Bin(op, t, vec(), small()), konst: true}
	}
	if op == "-" {
		op = "+"
	}
	return rex{e: wg.Bin(op, t, vec(), vec()), konst: true}
}

func (g *rGen) vecExpr(t wg.N, d int) rex {
	n := wg.I(t, "n")
	et := wg.Sub(t, "e")
	ek := wg.K(et)
	if ek == "bool" {
		switch r := g.rng.Intn(6); {
		case r < 3:
			it := wg.Vec(n, []wg.N{wg.I32, wg.U32}[g.rng.Intn(2)])
			op := []string{"==", "!=", "<", "<=", ">", ">="}[g.rng.Intn(6)]
			return rex{e: wg.Bin(op, t, g.expr(it, d+1).e, g.expr(it, d+1).e)}
		case r < 4:
			return rex{e: wg.Un("!", t, g.expr(t, d+1).e)}
		case r < 5:
			op := []string{"&", "|"}[g.rng.Intn(2)]
			return rex{e: wg.Bin(op, t, g.expr(t, d+1).e, g.expr(t, d+1).e)}
		}
		return g.vecCtor(t, d, false)
	}
	switch r := g.rng.Intn(20); {
	case r < 3:
		return g.vecCtor(t, d, false)
	case r < 5:
		return g.foldPattern(t)
	case r < 11: // arithmetic: vec-vec, vec-scalar, scalar-vec
		op := intArith[g.rng.Intn(len(intArith))]
		op, nz := g.divOp(op, t)
		if nz {
			return rex{e: wg.Bin(op, t, g.expr(t, d+1).e, nonZeroU(t, g.runtime(t, d+1).e))}
		}
		shape := g.rng.Intn(3)
		if op == "&" || op == "|" || op == "^" {
			shape = 0
		}
		var a, b rex
		switch shape {
		case 0:
			a, b = g.expr(t, d+1), g.expr(t, d+1)
		case 1:
			a, b = g.expr(t, d+1), g.expr(et, d+1)
		default:
			a, b = g.expr(et, d+1), g.expr(t, d+1)
		}
		if a.konst && b.konst { // keep const-const arithmetic to foldPattern (no const-expression errors)
			if shape == 2 {
				a = g.runtime(et, d+1)
			} else {
				a = g.runtime(t, d+1)
			}
		}
		if (op == "/" || op == "%") && b.konst {
			if shape == 1 {
				b = g.runtime(et, d+1)
			} else {
				b = g.runtime(t, d+1)
			}
		}
		return rex{e: wg.Bin(op, t, a.e, b.e)}
	case r < 12:
		a := g.runtime(t, d+1)
		cnt := wg.Bin("&", wg.Vec(n, wg.U32), g.expr(wg.Vec(n, wg.U32), d+1).e, wg.Ctor(wg.Vec(n, wg.U32), wg.LitU(31)))
		return rex{e: wg.Bin([]string{"<<", ">>"}[g.rng.Intn(2)], t, a.e, cnt)}
	case r < 13:
		if ek == "i32" && g.pct(50) {
			return rex{e: wg.Un("-", t, g.runtime(t, d+1).e)}
		}
		return rex{e: wg.Un("~", t, g.runtime(t, d+1).e)}
	case r < 15: // select, scalar or vector condition
		var c wg.N
		if g.pct(50) {
			c = g.boolExpr(d + 1).e
		} else {
			c = g.expr(wg.Vec(n, wg.Bool), d+1).e
		}
		return rex{e: wg.Bi("select", t, g.expr(t, d+1).e, g.expr(t, d+1).e, c)}
	case r < 16:
		o := wg.I32
		if ek == "i32" {
			o = wg.U32
		}
		a := g.runtime(wg.Vec(n, o), d+1)
		if g.pct(50) {
			return rex{e: wg.Cast(t, a.e)}
		}
		return rex{e: wg.Bitcast(t, a.e)}
	case r < 18:
		f := []string{"min", "max"}[g.rng.Intn(2)]
		return rex{e: wg.Bi(f, t, g.expr(t, d+1).e, g.expr(t, d+1).e)}
	case r < 19:
		if e, ok := g.call(t, d); ok {
			return rex{e: e}
		}
		fallthrough
	default:
		if e, ok := g.fromVars(t, d); ok {
			return rex{e: e}
		}
		return g.vecCtor(t, d, false)
	}
}

// call builds a call of a helper returning t.
func (g *rGen) call(t wg.N, d int) (wg.N, bool) {
	if g.inCont && g.pct(50) {
		// calls are allowed in continuing blocks; keep some
	}
	var cands []rFn
	for _, s := range g.sigs {
		if s.ptrIdx < 0 && sameT(s.ret, t) {
			cands = append(cands, s)
		}
	}
	if len(cands) == 0 {
		return nil, false
	}
	s := cands[g.rng.Intn(len(cands))]
	args := make([]wg.N, len(s.params))
	for i, pt := range s.params {
		args[i] = g.expr(pt, d+1).e
	}
	return wg.Call(s.name, t, args...), true
}

var randTypes = []func() wg.N{
	func() wg.N { return wg.I32 }, func() wg.N { return wg.I32 }, func() wg.N { return wg.U32 }, func() wg.N { return wg.Bool },
	func() wg.N { return wg.Vec(2, wg.I32) }, func() wg.N { return wg.Vec(3, wg.I32) }, func() wg.N { return wg.Vec(4, wg.I32) },
	func() wg.N { return wg.Vec(2, wg.U32) }, func() wg.N { return wg.Vec(3, wg.U32) }, func() wg.N { return wg.Vec(4, wg.U32) },
	func() wg.N { return wg.Vec(2, wg.Bool) }, func() wg.N { return wg.Vec(3, wg.Bool) },
}

func (g *rGen) valueType() wg.N { return randTypes[g.rng.Intn(len(randTypes))]() }

// target picks an assignable place of integer scalar or integer vector type: (reference, type).
func (g *rGen) target(d int) (wg.N, wg.N, bool) {
	vs := g.visible()
	g.rng.Shuffle(len(vs), func(i, j int) { vs[i], vs[j] = vs[j], vs[i] })
	for _, v := range vs {
		if !v.isVar {
			continue
		}
		base := wg.RVar(v.name, v.t)
		switch wg.K(v.t) {
		case "i32", "u32", "bool":
			return base, v.t, true
		case "vec":
			if g.pct(40) {
				n := wg.I(v.t, "n")
				et := wg.Sub(v.t, "e")
				var ix wg.N = wg.LitI(int32(g.rng.Intn(n)))
				if g.pct(40) {
					ix = g.index(n, d)
				}
				return wg.RIdx(base, ix, et), et, true
			}
			return base, v.t, true
		case "arr":
			et := wg.Sub(v.t, "e")
			return wg.RIdx(base, g.index(wg.I(v.t, "n"), d), et), et, true
		case "struct":
			for _, sd := range g.structs {
				if wg.S(sd, "name") == wg.S(v.t, "name") {
					ms := wg.L(sd, "ms")
					mi := g.rng.Intn(len(ms))
					mt := wg.Sub(ms[mi], "ty")
					if wg.K(mt) == "arr" {
						et := wg.Sub(mt, "e")
						return wg.RIdx(wg.RMem(base, mi, wg.S(ms[mi], "name"), mt), g.index(wg.I(mt, "n"), d), et), et, true
					}
					return wg.RMem(base, mi, wg.S(ms[mi], "name"), mt), mt, true
				}
			}
		}
	}
	return nil, nil, false
}

func isIntT(t wg.N) bool {
	k := wg.K(t)
	if k == "vec" {
		k = wg.K(wg.Sub(t, "e"))
	}
	return k == "i32" || k == "u32"
}

func (g *rGen) outStore(e wg.N, t wg.N) []wg.N {
	var out []wg.N
	st := func(x wg.N, k string) {
		if g.outNext >= randNOut {
			return
		}
		switch k {
		case "u32":
			x = wg.Bitcast(wg.I32, x)
		case "bool":
			x = wg.Cast(wg.I32, x)
		case "f32":
			x = wg.Cast(wg.I32, x)
		}
		out = append(out, wg.Asg(wg.RIdx(wg.RVar("out", wg.Arr(wg.I32, randNOut)), wg.LitI(int32(g.outNext)), wg.I32), x))
		g.outNext++
	}
	switch wg.K(t) {
	case "vec":
		n := wg.I(t, "n")
		nm := g.name("o")
		out = append(out, wg.Let(nm, e))
		for i := 0; i < n; i++ {
			st(wg.Swz(wg.Sub(t, "e"), wg.Id(nm, t), i), wg.K(wg.Sub(t, "e")))
		}
	default:
		st(e, wg.K(t))
	}
	return out
}

// accumulate folds a value into an accumulator variable (so that stores inside loops stay observable).
func (g *rGen) accumulate(d int) (wg.N, bool) {
	vs := g.visible()
	for _, v := range vs {
		if v.isVar && wg.K(v.t) == "i32" && g.pct(60) {
			e := g.expr(wg.I32, d)
			for tries := 0; refRootIsGlobal(wg.RVar(v.name, v.t)) && hasCall(e.e); tries++ {
				e = g.expr(wg.I32, d+2)
				if tries > 6 {
					e = rex{e: g.runtimeLeaf(wg.I32)}
				}
			}
			op := []string{"+", "^", "-", "*", "|"}[g.rng.Intn(5)]
			return wg.CAsg(op, wg.RVar(v.name, v.t), e.e), true
		}
	}
	return nil, false
}

func (g *rGen) simpleStmt(d int) wg.N {
	for tries := 0; tries < 4; tries++ {
		switch r := g.rng.Intn(12); {
		case r < 4:
			ref, t, ok := g.target(d)
			if !ok {
				continue
			}
			return wg.Asg(ref, g.expr(t, d).e)
		case r < 8:
			ref, t, ok := g.target(d)
			if !ok || !isIntT(t) {
				continue
			}
			op := []string{"+", "-", "*", "/", "%", "&", "|", "^", "<<", ">>"}[g.rng.Intn(10)]
			op, nz := g.divOp(op, t)
			if nz {
				return wg.CAsg(op, ref, nonZeroU(t, g.runtimeLeaf(t)))
			}
			if op == "<<" || op == ">>" {
				var cnt wg.N
				for tries := 0; ; tries++ {
					if wg.K(t) == "vec" {
						n := wg.I(t, "n")
						cnt = wg.Bin("&", wg.Vec(n, wg.U32), g.expr(wg.Vec(n, wg.U32), d+1).e, wg.Ctor(wg.Vec(n, wg.U32), wg.LitU(31)))
					} else {
						cnt = wg.Bin("&", wg.U32, g.expr(wg.U32, d+1).e, wg.LitU(31))
					}
					if !(refRootIsGlobal(ref) && hasCall(cnt)) || tries > 6 {
						break
					}
				}
				if refRootIsGlobal(ref) && hasCall(cnt) {
					cnt = wg.LitU(3)
				}
				return wg.CAsg(op, ref, cnt)
			}
			e := g.expr(t, d)
			if (op == "/" || op == "%") && e.konst {
				e = g.runtime(t, d)
			}
			// `g op= f()` where f writes g has its own family (CasgOrder): keep calls out of compound assignments to globals
			for tries := 0; refRootIsGlobal(ref) && hasCall(e.e); tries++ {
				e = g.expr(t, d+2)
				if (op == "/" || op == "%") && e.konst || tries > 6 {
					e = rex{e: g.runtimeLeaf(t)}
				}
			}
			return wg.CAsg(op, ref, e.e)
		case r < 10:
			ref, t, ok := g.target(d)
			if !ok || wg.K(t) == "vec" || wg.K(t) == "bool" {
				continue
			}
			if g.pct(50) {
				return wg.Inc(ref)
			}
			return wg.Dec(ref)
		default:
			if s, ok := g.accumulate(d); ok {
				return s
			}
		}
	}
	return wg.Phony(g.expr(wg.I32, d).e)
}

func (g *rGen) declStmt(d int) wg.N {
	t := g.valueType()
	// deliberate shadowing of an outer name in nested scopes
	nm := g.name("v")
	if len(g.scopes) > 1 && g.pct(15) {
		if vs := g.visible(); len(vs) > 0 {
			cand := vs[g.rng.Intn(len(vs))]
			inner := false
			for _, v := range g.scopes[len(g.scopes)-1] {
				if v.name == cand.name {
					inner = true
				}
			}
			if !inner && (cand.name[0] == 'v' || cand.name[0] == 'p') {
				nm = cand.name
			}
		}
	}
	switch r := g.rng.Intn(10); {
	case r < 3:
		e := g.expr(t, d)
		if wg.K(e.e) == "load" && !wg.IsScalar(t) {
			// `let x = <composite variable>` followed by a store to the variable has its own family (LetCopy)
			g.declare(rVar{nm, t, true})
			return wg.Var(nm, t, e.e)
		}
		g.declare(rVar{nm, t, false})
		return wg.Let(nm, e.e)
	case r < 5: // var with a constant initialiser
		var e rex
		if wg.K(t) == "vec" {
			e = g.vecCtor(t, d, true)
		} else {
			e = g.lit(t)
		}
		g.declare(rVar{nm, t, true})
		return wg.Var(nm, t, e.e)
	case r < 6: // var initialised with the zero-value constructor (implicit zero-initialisation has its own family)
		g.declare(rVar{nm, t, true})
		return wg.Var(nm, t, wg.Ctor(t))
	case r < 7 && d == 0: // local array / struct / matrix
		switch g.rng.Intn(3) {
		case 0:
			at := wg.Arr([]wg.N{wg.I32, wg.U32}[g.rng.Intn(2)], 2+g.rng.Intn(3))
			if g.pct(50) {
				g.declare(rVar{nm, at, true})
				return wg.Var(nm, at, wg.Ctor(at))
			}
			n := wg.I(at, "n")
			args := make([]wg.N, n)
			for i := range args {
				args[i] = g.expr(wg.Sub(at, "e"), d+1).e
			}
			g.declare(rVar{nm, at, true})
			return wg.Var(nm, at, wg.Ctor(at, args...))
		case 1:
			if len(g.structs) > 0 {
				st := wg.StructT(wg.S(g.structs[0], "name"))
				g.declare(rVar{nm, st, true})
				return wg.Var(nm, st, wg.Ctor(st))
			}
			fallthrough
		default:
			c, r := 2+g.rng.Intn(3), 2+g.rng.Intn(3)
			mt := wg.Mat(c, r, wg.F32)
			args := make([]wg.N, c*r)
			for i := range args {
				args[i] = g.runtimeLeaf(wg.F32)
			}
			g.declare(rVar{nm, mt, true})
			return wg.Var(nm, mt, wg.Ctor(mt, args...))
		}
	default:
		e := g.expr(t, d)
		g.declare(rVar{nm, t, true})
		return wg.Var(nm, t, e.e)
	}
}

// block generates up to n statements in a new scope.  The last statement may be a jump.
func (g *rGen) block(n, d int) []wg.N {
	g.push()
	defer g.pop()
	return g.stmts(n, d)
}

func (g *rGen) stmts(n, d int) []wg.N {
	var out []wg.N
	for i := 0; i < n && g.budget > 0; i++ {
		g.budget--
		last := i == n-1
		switch r := g.rng.Intn(100); {
		case r < 22:
			out = append(out, g.declStmt(d))
		case r < 50:
			out = append(out, g.simpleStmt(d))
		case r < 58 && d < 3:
			c := g.boolExpr(1)
			a := g.block(1+g.rng.Intn(3), d+1)
			var b []wg.N
			if g.pct(50) {
				b = g.block(1+g.rng.Intn(3), d+1)
			}
			out = append(out, wg.If(c.e, a, b))
		case r < 64 && d < 3:
			out = append(out, g.switchStmt(d))
		case r < 76 && d < 2 && !g.inCont:
			out = append(out, g.loopStmt(d)...)
		case r < 80 && d < 3:
			out = append(out, wg.Block(g.block(1+g.rng.Intn(3), d+1)))
		case r < 84 && !g.inHelper && g.loops == 0 && g.sw == 0 && d == 0:
			e := g.expr(g.valueType(), 1)
			out = append(out, g.outStore(e.e, e.e["t"].(wg.N))...)
		case r < 88:
			if s, ok := g.callStmt(d); ok {
				out = append(out, s)
			} else {
				out = append(out, g.simpleStmt(d))
			}
		case r < 94 && last && !g.inCont && d > 0: // a jump at the end of a nested block
			switch {
			case g.loops > 0 && g.canCont && g.pct(40):
				out = append(out, wg.Continue())
			case (g.loops > 0 || g.sw > 0) && g.pct(60):
				out = append(out, wg.Break())
			case g.inHelper && g.pct(50):
				out = append(out, wg.Ret(g.retExpr(d)))
			default:
				out = append(out, g.simpleStmt(d))
			}
		default:
			out = append(out, g.simpleStmt(d))
		}
	}
	return out
}

func (g *rGen) retExpr(d int) wg.N {
	if wg.K(g.retT) == "void" {
		return wg.None
	}
	return g.expr(g.retT, d+1).e
}

func (g *rGen) switchStmt(d int) wg.N {
	t := []wg.N{wg.I32, wg.U32}[g.rng.Intn(2)]
	sel := wg.Bin("&", t, g.expr(t, 1).e, wg.Lit(t, 3))
	perm := g.rng.Perm(5) // values 0..4 (4 never occurs: exercises default)
	ncase := 1 + g.rng.Intn(3)
	defPos := g.rng.Intn(ncase + 1)
	var cases []wg.N
	vi := 0
	swPrev, contPrev := g.sw, g.canCont
	g.sw++
	for ci := 0; ci <= ncase; ci++ {
		body := g.block(1+g.rng.Intn(3), d+1)
		if ci == defPos {
			var sels []int
			if g.pct(30) && vi < len(perm) {
				sels = []int{perm[vi]}
				vi++
			}
			cases = append(cases, wg.Case(sels, true, body))
			continue
		}
		k := 1 + g.rng.Intn(2)
		var sels []int
		for j := 0; j < k && vi < len(perm); j++ {
			sels = append(sels, perm[vi])
			vi++
		}
		if len(sels) == 0 {
			continue
		}
		cases = append(cases, wg.Case(sels, false, body))
	}
	g.sw, g.canCont = swPrev, contPrev
	return wg.Switch(sel, cases...)
}

// loopStmt: bounded loops of every form.  Progress never depends on statements a `continue` could skip.
func (g *rGen) loopStmt(d int) []wg.N {
	iv := g.name("n")
	n := int32(1 + g.rng.Intn(4))
	ivT := []wg.N{wg.I32, wg.U32}[g.rng.Intn(2)]
	lit := func(v int32) wg.N { return wg.Lit(ivT, v) }
	ivRef := wg.RVar(iv, ivT)
	cond := wg.Bin("<", wg.Bool, wg.Load(ivRef), lit(n))
	loopsPrev, contPrev, swPrev := g.loops, g.canCont, g.sw
	defer func() { g.loops, g.canCont, g.sw = loopsPrev, contPrev, swPrev }()
	g.loops++
	g.sw = 0
	switch g.rng.Intn(4) {
	case 0: // loop { if !(i < n) { break; } body; continuing { cont; i++; [break if] } }
		g.push()
		g.declare(rVar{iv, ivT, false}) // visible as a value only: never assigned by generated statements
		g.scopes[len(g.scopes)-1][0].isVar = false
		g.canCont = true
		body := g.stmts(1+g.rng.Intn(4), d+1)
		g.pop()
		g.push()
		g.inCont = true
		cont := g.stmts(g.rng.Intn(3), d+1)
		if g.pct(50) { // a `var` with a constant initialiser inside continuing, modified afterwards
			cv := g.name("c")
			cont = append(cont, wg.Var(cv, wg.I32, wg.LitI(int32(1+g.rng.Intn(9)))))
			cops := []string{"+", "*", "/", "%"}
			if g.glslSafe {
				cops = []string{"+", "*", "-", "^"}
			}
			cont = append(cont, wg.CAsg(cops[g.rng.Intn(4)], wg.RVar(cv, wg.I32), g.runtime(wg.I32, d+1).e))
			if s, ok := g.accumulateWith(wg.Load(wg.RVar(cv, wg.I32))); ok {
				cont = append(cont, s)
			}
			cont = append(cont, wg.Inc(wg.RVar(cv, wg.I32)))
			if s, ok := g.accumulateWith(wg.Load(wg.RVar(cv, wg.I32))); ok {
				cont = append(cont, s)
			}
		}
		g.inCont = false
		g.pop()
		cont = append(cont, wg.Inc(ivRef))
		var brk wg.N = wg.None
		head := []wg.N{wg.If(wg.Un("!", wg.Bool, cond), []wg.N{wg.Break()}, nil)}
		if g.pct(40) {
			brk = wg.Bin(">=", wg.Bool, wg.Load(ivRef), lit(n))
			if g.pct(50) {
				head = nil // do-while shape: body runs at least once
			}
		}
		fixIv(body, iv, ivT)
		fixIv(cont, iv, ivT)
		return []wg.N{wg.Var(iv, ivT, lit(0)), wg.Loop(append(head, body...), cont, brk)}
	case 1: // for (var i = 0; i < n; update) { body }
		g.push()
		g.declare(rVar{iv, ivT, false})
		g.canCont = true
		body := g.stmts(1+g.rng.Intn(4), d+1)
		g.pop()
		fixIv(body, iv, ivT)
		var upd wg.N = wg.Inc(ivRef)
		if g.pct(30) {
			upd = wg.CAsg("+", ivRef, lit(1))
		}
		return []wg.N{wg.For(wg.Var(iv, ivT, lit(0)), cond, upd, body)}
	case 2: // for with an accumulator update clause containing / or % (the counter advances in the body head)
		vs := g.visible()
		var acc *rVar
		for i := range vs {
			if vs[i].isVar && wg.K(vs[i].t) == "i32" {
				acc = &vs[i]
				break
			}
		}
		if acc == nil {
			return []wg.N{g.simpleStmt(d)}
		}
		g.push()
		g.declare(rVar{iv, ivT, false})
		g.canCont = true
		body := g.stmts(1+g.rng.Intn(3), d+1)
		g.pop()
		fixIv(body, iv, ivT)
		uops := []string{"/", "%", "+", "*"}
		if g.glslSafe {
			uops = []string{"-", "^", "+", "*"}
		}
		upd := wg.CAsg(uops[g.rng.Intn(4)], wg.RVar(acc.name, acc.t), g.runtime(wg.I32, d+1).e)
		body = append([]wg.N{wg.Inc(ivRef)}, body...)
		return []wg.N{wg.Var(iv, ivT, lit(0)), wg.For(wg.None, cond, upd, body)}
	default: // while i < n { i++; body }
		g.push()
		g.declare(rVar{iv, ivT, false})
		g.canCont = true
		body := g.stmts(1+g.rng.Intn(4), d+1)
		g.pop()
		fixIv(body, iv, ivT)
		return []wg.N{wg.Var(iv, ivT, lit(0)), wg.While(cond, append([]wg.N{wg.Inc(ivRef)}, body...))}
	}
}

func (g *rGen) accumulateWith(e wg.N) (wg.N, bool) {
	for _, v := range g.visible() {
		if v.isVar && wg.K(v.t) == "i32" {
			return wg.CAsg([]string{"+", "^"}[g.rng.Intn(2)], wg.RVar(v.name, v.t), e), true
		}
	}
	return nil, false
}

// fixIv rewrites value reads `id iv` of the loop counter (declared as a value so that it is never assigned) into loads.
func fixIv(x any, iv string, t wg.N) {
	switch v := x.(type) {
	case []wg.N:
		for _, e := range v {
			fixIv(e, iv, t)
		}
	case wg.N:
		if wg.K(v) == "id" && wg.S(v, "n") == iv {
			r := wg.RVar(iv, t)
			for k := range v {
				delete(v, k)
			}
			v["k"], v["r"], v["t"] = "load", r, t
			return
		}
		for _, f := range v {
			fixIv(f, iv, t)
		}
	case []any:
		for _, e := range v {
			fixIv(e, iv, t)
		}
	}
}

func (g *rGen) callStmt(d int) (wg.N, bool) {
	if len(g.sigs) == 0 {
		return nil, false
	}
	s := g.sigs[g.rng.Intn(len(g.sigs))]
	args := make([]wg.N, len(s.params))
	for i, pt := range s.params {
		if i == s.ptrIdx {
			var tgt *rVar
			for _, v := range g.visible() {
				v := v
				local := false
				for _, sc := range g.scopes {
					for _, x := range sc {
						if x.name == v.name {
							local = true
						}
					}
				}
				if v.isVar && local && wg.K(v.t) == "i32" {
					tgt = &v
					break
				}
			}
			if tgt == nil {
				return nil, false
			}
			args[i] = wg.Addr(wg.RVar(tgt.name, tgt.t), "function")
			continue
		}
		args[i] = g.expr(pt, d+1).e
	}
	if wg.K(s.ret) == "void" {
		return wg.CallS(s.name, args...), true
	}
	if s.ptrIdx >= 0 {
		return wg.Phony(wg.Call(s.name, s.ret, args...)), true
	}
	return wg.Phony(wg.Call(s.name, s.ret, args...)), true
}

func (g *rGen) helper() {
	name := g.name("h")
	np := 1 + g.rng.Intn(3)
	var params []wg.N
	var ptypes []wg.N
	ptrIdx := -1
	g.scopes = [][]rVar{nil}
	for i := 0; i < np; i++ {
		pn := g.name("p")
		if ptrIdx < 0 && g.pct(20) {
			pt := wg.Ptr("function", wg.I32)
			params = append(params, wg.Param(pn, pt))
			ptypes = append(ptypes, pt)
			ptrIdx = i
			continue
		}
		t := g.valueType()
		params = append(params, wg.Param(pn, t))
		ptypes = append(ptypes, t)
		g.declare(rVar{pn, t, false})
	}
	ret := g.valueType()
	if ptrIdx >= 0 && g.pct(60) {
		ret = wg.Void
	}
	g.inHelper, g.retT = true, ret
	g.budget = 6 + g.rng.Intn(8)
	g.loops, g.sw, g.canCont, g.inCont = 0, 0, false, false
	var body []wg.N
	acc := g.name("a")
	body = append(body, wg.Var(acc, wg.I32, g.expr(wg.I32, 2).e))
	g.declare(rVar{acc, wg.I32, true})
	body = append(body, g.stmts(3+g.rng.Intn(5), 0)...)
	if ptrIdx >= 0 {
		pp := wg.Id(wg.S(params[ptrIdx], "name"), ptypes[ptrIdx])
		body = append(body, wg.Asg(wg.RDeref(pp), wg.Bin("+", wg.I32, wg.Load(wg.RDeref(pp)), wg.Load(wg.RVar(acc, wg.I32)))))
	}
	if wg.K(ret) != "void" {
		var e wg.N
		if wg.K(ret) == "i32" {
			e = wg.Bin("+", wg.I32, wg.Load(wg.RVar(acc, wg.I32)), g.expr(wg.I32, 2).e)
		} else {
			e = g.expr(ret, 1).e
		}
		body = append(body, wg.Ret(e))
	}
	g.inHelper = false
	g.fns = append(g.fns, wg.Fn(name, params, ret, body))
	g.sigs = append(g.sigs, rFn{name, ptypes, ptrIdx, ret})
}

// RandProgram generates one random program with `rows` input rows.
func RandProgram(rng *rand.Rand, id int, rows int) Case { return RandProgramFor(rng, id, rows, false) }

// RandProgramFor generates one random program; glslSafe keeps it inside the operations GLSL defines.
func RandProgramFor(rng *rand.Rand, id int, rows int, glslSafe bool) Case {
	// keep the dynamic cost bounded (nested loops calling helpers that loop ...): the specification evaluates every
	// program with TLC, a few 10^5 node evaluations per second
	for try := 0; ; try++ {
		c := randProgramOnce(rng, id, rows, glslSafe)
		if dynCost(c.Prog) <= 4000 || try > 30 {
			return c
		}
	}
}

// dynCost is a static upper estimate of the number of statements / calls one run of the entry point executes
// (every loop counted with 4 iterations, both branches of an if, the most expensive switch case).
// DynCost exports dynCost for development tools.
func DynCost(p wg.N) int { return dynCost(p) }

func dynCost(p wg.N) int {
	fnCost := map[string]int{}
	var cost func(x any) int
	cost = func(x any) int {
		switch v := x.(type) {
		case []wg.N:
			t := 0
			for _, e := range v {
				t += cost(e)
			}
			return t
		case []any:
			t := 0
			for _, e := range v {
				t += cost(e)
			}
			return t
		case wg.N:
			switch wg.K(v) {
			case "loop":
				return 4 * (cost(v["body"]) + cost(v["cont"]) + cost(v["brkif"]) + 1)
			case "for":
				return cost(v["init"]) + 4*(cost(v["c"])+cost(v["upd"])+cost(v["body"])+1)
			case "while":
				return 4 * (cost(v["c"]) + cost(v["body"]) + 1)
			case "switch":
				m := 0
				for _, c := range wg.L(v, "cases") {
					if k := cost(c["body"]); k > m {
						m = k
					}
				}
				return 1 + cost(v["e"]) + m
			case "call":
				return 1 + cost(v["args"]) + fnCost[wg.S(v, "f")]
			}
			t := 0
			if _, isStmt := v["k"]; isStmt {
				t = 1
			}
			for key, f := range v {
				if key == "t" {
					continue
				}
				t += cost(f)
			}
			return t
		}
		return 0
	}
	total := 0
	for _, f := range wg.L(p, "fns") {
		c := cost(f["body"])
		fnCost[wg.S(f, "name")] = c
		if wg.I(f, "entry") == 1 {
			total = c
		}
	}
	return total
}

func randProgramOnce(rng *rand.Rand, id int, rows int, glslSafe bool) Case {
	g := &rGen{rng: rng, glslSafe: glslSafe}
	// private globals and a struct type
	if g.pct(70) {
		g.globals = append(g.globals, wg.Global("g_a", "private", "", wg.I32, 0, 0, wg.None))
		g.gvars = append(g.gvars, rVar{"g_a", wg.I32, true})
	}
	if g.pct(40) {
		t := wg.Vec(2+rng.Intn(3), wg.U32)
		g.globals = append(g.globals, wg.Global("g_b", "private", "", t, 0, 0, wg.None))
		g.gvars = append(g.gvars, rVar{"g_b", t, true})
	}
	if g.pct(50) {
		g.structs = append(g.structs, wg.StructDecl("S0", wg.Member("a", wg.I32), wg.Member("b", wg.Vec(3, wg.U32)), wg.Member("c", wg.Arr(wg.I32, 3)), wg.Member("d", wg.U32)))
	}
	for i, n := 0, rng.Intn(4); i < n; i++ {
		g.helper()
	}
	g.scopes = [][]rVar{nil}
	g.budget = 22 + rng.Intn(20)
	var body []wg.N
	// private globals are assigned before any use (their initialisers / implicit zero have their own family)
	for _, v := range g.gvars {
		if wg.K(v.t) == "vec" {
			body = append(body, wg.Asg(wg.RVar(v.name, v.t), g.vecCtor(v.t, 3, true).e))
		} else {
			body = append(body, wg.Asg(wg.RVar(v.name, v.t), g.lit(v.t).e))
		}
	}
	body = append(body, wg.Var("acc", wg.I32, g.inpLoad()))
	g.declare(rVar{"acc", wg.I32, true})
	body = append(body, g.stmts(10+rng.Intn(10), 0)...)
	// make every top-level variable observable
	for _, v := range g.scopes[0] {
		switch wg.K(v.t) {
		case "i32", "u32", "bool", "vec":
			body = append(body, g.outStore(g.read(v), v.t)...)
		case "arr":
			for i := 0; i < wg.I(v.t, "n"); i++ {
				et := wg.Sub(v.t, "e")
				body = append(body, g.outStore(wg.Load(wg.RIdx(wg.RVar(v.name, v.t), wg.LitI(int32(i)), et)), et)...)
			}
		case "struct":
			for _, sd := range g.structs {
				if wg.S(sd, "name") == wg.S(v.t, "name") {
					for mi, m := range wg.L(sd, "ms") {
						mt := wg.Sub(m, "ty")
						if wg.K(mt) == "arr" {
							et := wg.Sub(mt, "e")
							for i := 0; i < wg.I(mt, "n"); i++ {
								body = append(body, g.outStore(wg.Load(wg.RIdx(wg.RMem(wg.RVar(v.name, v.t), mi, wg.S(m, "name"), mt), wg.LitI(int32(i)), et)), et)...)
							}
							continue
						}
						body = append(body, g.outStore(wg.Load(wg.RMem(wg.RVar(v.name, v.t), mi, wg.S(m, "name"), mt)), mt)...)
					}
				}
			}
		case "mat":
			c, r := wg.I(v.t, "c"), wg.I(v.t, "r")
			col := wg.Vec(r, wg.F32)
			for ci := 0; ci < c; ci++ {
				body = append(body, g.outStore(wg.Swz(wg.F32, wg.Load(wg.RIdx(wg.RVar(v.name, v.t), wg.LitI(int32(ci)), col)), (ci)%r), wg.F32)...)
			}
		}
	}
	for _, v := range g.gvars {
		body = append(body, g.outStore(g.read(v), v.t)...)
	}
	globals := []wg.N{
		wg.Global("inp", "storage", "r", wg.Arr(wg.I32, randNIn), 0, 0, wg.None),
		wg.Global("out", "storage", "rw", wg.Arr(wg.I32, randNOut), 0, 1, wg.None),
	}
	globals = append(globals, g.globals...)
	fns := append(append([]wg.N{}, g.fns...), wg.Entry("main", nil, body))
	c := Case{Family: "rand", Desc: fmt.Sprintf("rand #%d", id), Prog: wg.Program(g.structs, nil, globals, fns)}
	special := [][]int32{
		{0, 0, 0, 0, 0, 0, 0, 0}, {-1, -1, -1, -1, -1, -1, -1, -1},
		{math.MinInt32, -1, math.MinInt32, 0, math.MaxInt32, 1, -1, math.MinInt32},
		{1, 2, 3, 4, 5, 6, 7, 8},
	}
	for r := 0; r < rows; r++ {
		in := make([]int32, randNIn)
		if r < len(special) {
			copy(in, special[r])
		} else {
			for i := range in {
				in[i] = IntGrid[rng.Intn(len(IntGrid))]
			}
		}
		c.Inputs = append(c.Inputs, [][]int32{in, make([]int32, randNOut)})
	}
	for range g.globals {
		for r := range c.Inputs {
			c.Inputs[r] = append(c.Inputs[r], []int32{})
		}
	}
	return c
}

// RandPrograms generates n random programs.
func RandPrograms(rng *rand.Rand, n, rows int) []Case { return RandProgramsFor(rng, n, rows, false) }

// RandProgramsFor generates n random programs (see RandProgramFor).
func RandProgramsFor(rng *rand.Rand, n, rows int, glslSafe bool) []Case {
	out := make([]Case, n)
	for i := range out {
		out[i] = RandProgramFor(rng, i, rows, glslSafe)
	}
	return out
}

// ZeroInit is the family for initial values of variables: module-scope initialisers and the implicit zero value of
// private, function and workgroup variables declared without initialiser.
func ZeroInit() []Case {
	mk := func(desc string, structs, globals []wg.N, body []wg.N, nOut int) Case {
		gl := append([]wg.N{wg.Global("out", "storage", "rw", wg.Arr(wg.I32, nOut), 0, 0, wg.None)}, globals...)
		c := Case{Family: "zeroinit", Desc: "zeroinit " + desc, Prog: wg.Program(structs, nil, gl, []wg.N{wg.Entry("main", nil, body)})}
		row := [][]int32{make([]int32, nOut)}
		for i := range row[0] {
			row[0][i] = int32(0x5a5a0000 + i)
		}
		for range globals {
			row = append(row, []int32{})
		}
		c.Inputs = [][][]int32{row}
		return c
	}
	outT := func(n int) wg.N { return wg.Arr(wg.I32, n) }
	st := func(n, i int, e wg.N) wg.N { return wg.Asg(wg.RIdx(wg.RVar("out", outT(n)), wg.LitI(int32(i)), wg.I32), e) }
	v3 := wg.Vec(3, wg.U32)
	arr := wg.Arr(wg.I32, 3)
	sT := wg.StructT("Z")
	sDecl := wg.StructDecl("Z", wg.Member("a", wg.I32), wg.Member("v", wg.Vec(2, wg.I32)))
	var out []Case
	for _, sp := range []string{"private", "workgroup"} {
		g := func(n string, t wg.N, init wg.N) wg.N { return wg.Global(n, sp, "", t, 0, 0, init) }
		if sp == "private" {
			out = append(out, mk("private-init scalar", nil, []wg.N{g("p", wg.I32, wg.LitI(5))},
				[]wg.N{st(1, 0, wg.Load(wg.RVar("p", wg.I32)))}, 1))
			out = append(out, mk("private-init vector", nil, []wg.N{g("p", v3, wg.Ctor(v3, wg.LitU(1), wg.LitU(2), wg.LitU(3)))},
				[]wg.N{st(3, 0, wg.Bitcast(wg.I32, wg.Swz(wg.U32, wg.Load(wg.RVar("p", v3)), 0))), st(3, 1, wg.Bitcast(wg.I32, wg.Swz(wg.U32, wg.Load(wg.RVar("p", v3)), 1))),
					st(3, 2, wg.Bitcast(wg.I32, wg.Swz(wg.U32, wg.Load(wg.RVar("p", v3)), 2)))}, 3))
		}
		out = append(out, mk(sp+"-noinit scalar", nil, []wg.N{g("p", wg.I32, wg.None)},
			[]wg.N{st(1, 0, wg.Load(wg.RVar("p", wg.I32)))}, 1))
		out = append(out, mk(sp+"-noinit vector", nil, []wg.N{g("p", v3, wg.None)},
			[]wg.N{st(2, 0, wg.Bitcast(wg.I32, wg.Swz(wg.U32, wg.Load(wg.RVar("p", v3)), 0))), st(2, 1, wg.Bitcast(wg.I32, wg.Swz(wg.U32, wg.Load(wg.RVar("p", v3)), 2)))}, 2))
		out = append(out, mk(sp+"-noinit array", nil, []wg.N{g("p", arr, wg.None)},
			[]wg.N{st(2, 0, wg.Load(wg.RIdx(wg.RVar("p", arr), wg.LitI(0), wg.I32))), st(2, 1, wg.Load(wg.RIdx(wg.RVar("p", arr), wg.LitI(2), wg.I32)))}, 2))
		out = append(out, mk(sp+"-noinit struct", []wg.N{sDecl}, []wg.N{g("p", sT, wg.None)},
			[]wg.N{st(2, 0, wg.Load(wg.RMem(wg.RVar("p", sT), 0, "a", wg.I32))),
				st(2, 1, wg.Swz(wg.I32, wg.Load(wg.RMem(wg.RVar("p", sT), 1, "v", wg.Vec(2, wg.I32))), 1))}, 2))
	}
	out = append(out, mk("function-noinit scalar", nil, nil,
		[]wg.N{wg.Var("l", wg.I32, wg.None), st(1, 0, wg.Load(wg.RVar("l", wg.I32)))}, 1))
	out = append(out, mk("function-noinit vector", nil, nil,
		[]wg.N{wg.Var("l", v3, wg.None), st(2, 0, wg.Bitcast(wg.I32, wg.Swz(wg.U32, wg.Load(wg.RVar("l", v3)), 0))), st(2, 1, wg.Bitcast(wg.I32, wg.Swz(wg.U32, wg.Load(wg.RVar("l", v3)), 2)))}, 2))
	out = append(out, mk("function-noinit array", nil, nil,
		[]wg.N{wg.Var("l", arr, wg.None), st(2, 0, wg.Load(wg.RIdx(wg.RVar("l", arr), wg.LitI(0), wg.I32))), st(2, 1, wg.Load(wg.RIdx(wg.RVar("l", arr), wg.LitI(2), wg.I32)))}, 2))
	out = append(out, mk("function-noinit struct", []wg.N{sDecl}, nil,
		[]wg.N{wg.Var("l", sT, wg.None), st(2, 0, wg.Load(wg.RMem(wg.RVar("l", sT), 0, "a", wg.I32))),
			st(2, 1, wg.Swz(wg.I32, wg.Load(wg.RMem(wg.RVar("l", sT), 1, "v", wg.Vec(2, wg.I32))), 1))}, 2))
	// a loop-local variable without initialiser must be zero again on every iteration
	out = append(out, mk("function-noinit in-loop", nil, nil, []wg.N{
		wg.Var("acc", wg.I32, wg.LitI(0)),
		wg.For(wg.Var("i", wg.I32, wg.LitI(0)), wg.Bin("<", wg.Bool, wg.Load(wg.RVar("i", wg.I32)), wg.LitI(3)), wg.Inc(wg.RVar("i", wg.I32)), []wg.N{
			wg.Var("l", wg.I32, wg.None),
			wg.CAsg("+", wg.RVar("l", wg.I32), wg.LitI(7)),
			wg.CAsg("+", wg.RVar("acc", wg.I32), wg.Load(wg.RVar("l", wg.I32))),
		}),
		st(1, 0, wg.Load(wg.RVar("acc", wg.I32)))}, 1))
	return out
}

// LetCopy is the family for value semantics of `let`: a let-bound copy of a composite variable must keep its value
// when the variable is written afterwards.
func LetCopy() []Case {
	var out []Case
	v4 := wg.Vec(4, wg.U32)
	arr := wg.Arr(wg.I32, 3)
	sT := wg.StructT("Z")
	sDecl := wg.StructDecl("Z", wg.Member("a", wg.I32), wg.Member("v", wg.Vec(2, wg.I32)))
	outA := wg.Arr(wg.I32, 2)
	inA := wg.Arr(wg.I32, 4)
	in := func(i int) wg.N { return wg.Load(wg.RIdx(wg.RVar("inp", inA), wg.LitI(int32(i)), wg.I32)) }
	st := func(i int, e wg.N) wg.N { return wg.Asg(wg.RIdx(wg.RVar("out", outA), wg.LitI(int32(i)), wg.I32), e) }
	rows := [][][]int32{{{1, 2, 3, 4}, {0, 0}}, {{-1, 7, 0, 9}, {0, 0}}}
	for _, sp := range []string{"private", "function"} {
		type shape struct {
			name string
			t    wg.N
			init wg.N
			mod  func(r wg.N) wg.N
			use  func(x wg.N) []wg.N
		}
		shapes := []shape{
			{"vector", v4, wg.Ctor(v4, wg.Bitcast(wg.U32, in(0)), wg.Bitcast(wg.U32, in(1)), wg.Bitcast(wg.U32, in(2)), wg.Bitcast(wg.U32, in(3))),
				func(r wg.N) wg.N { return wg.Asg(r, wg.Ctor(v4, wg.LitU(100))) },
				func(x wg.N) []wg.N {
					return []wg.N{st(0, wg.Bitcast(wg.I32, wg.Swz(wg.U32, x, 1))), st(1, wg.Bitcast(wg.I32, wg.Idx(wg.U32, x, wg.Bin("&", wg.I32, in(3), wg.LitI(3)))))}
				}},
			{"array", arr, wg.Ctor(arr, in(0), in(1), in(2)),
				func(r wg.N) wg.N { return wg.Asg(wg.RIdx(r, wg.LitI(1), wg.I32), wg.LitI(100)) },
				func(x wg.N) []wg.N { return []wg.N{st(0, wg.Idx(wg.I32, x, wg.LitI(1))), st(1, wg.Idx(wg.I32, x, wg.LitI(2)))} }},
			{"struct", sT, wg.Ctor(sT, in(0), wg.Ctor(wg.Vec(2, wg.I32), in(1), in(2))),
				func(r wg.N) wg.N { return wg.Asg(wg.RMem(r, 0, "a", wg.I32), wg.LitI(100)) },
				func(x wg.N) []wg.N {
					return []wg.N{st(0, wg.Mem(wg.I32, x, 0, "a")), st(1, wg.Swz(wg.I32, wg.Mem(wg.Vec(2, wg.I32), x, 1, "v"), 1))}
				}},
		}
		for _, sh := range shapes {
			var globals []wg.N
			var body []wg.N
			var structs []wg.N
			if sh.name == "struct" {
				structs = []wg.N{sDecl}
			}
			ref := wg.RVar("v", sh.t)
			if sp == "private" {
				globals = append(globals, wg.Global("v", "private", "", sh.t, 0, 0, wg.None))
				body = append(body, wg.Asg(ref, sh.init))
			} else {
				body = append(body, wg.Var("v", sh.t, sh.init))
			}
			body = append(body, wg.Let("c", wg.Load(ref)), sh.mod(ref))
			body = append(body, sh.use(wg.Id("c", sh.t))...)
			gl := append([]wg.N{wg.Global("inp", "storage", "r", inA, 0, 0, wg.None), wg.Global("out", "storage", "rw", outA, 0, 1, wg.None)}, globals...)
			c := Case{Family: "letcopy", Desc: "letcopy " + sp + " " + sh.name, Prog: wg.Program(structs, nil, gl, []wg.N{wg.Entry("main", nil, body)})}
			for _, r := range rows {
				row := [][]int32{r[0], r[1]}
				for range globals {
					row = append(row, []int32{})
				}
				c.Inputs = append(c.Inputs, row)
			}
			out = append(out, c)
		}
	}
	return out
}

// ContinuingOps is the family of operators whose ONLY occurrence in the module is inside a loop's continuing block
// or a for-loop update clause (backends that collect helper functions by scanning must look there too).
func ContinuingOps() []Case {
	var out []Case
	inA, outA := wg.Arr(wg.I32, 3), wg.Arr(wg.I32, 2)
	in := func(i int) wg.N { return wg.Load(wg.RIdx(wg.RVar("inp", inA), wg.LitI(int32(i)), wg.I32)) }
	st := func(i int, e wg.N) wg.N { return wg.Asg(wg.RIdx(wg.RVar("out", outA), wg.LitI(int32(i)), wg.I32), e) }
	hostile := []int32{0, -1, 1, 7, math.MinInt32, math.MaxInt32, -7, 2}
	for _, k := range []string{"i32", "u32"} {
		t := scalarT(k)
		val := func(e wg.N) wg.N {
			if k == "u32" {
				return wg.Bitcast(wg.U32, e)
			}
			return e
		}
		back := func(e wg.N) wg.N {
			if k == "u32" {
				return wg.Bitcast(wg.I32, e)
			}
			return e
		}
		for _, op := range []string{"/", "%"} {
			for _, where := range []string{"continuing", "for-update", "continuing-expr"} {
				acc := wg.RVar("acc", t)
				var loop wg.N
				i := wg.RVar("i", wg.I32)
				cond := wg.Bin("<", wg.Bool, wg.Load(i), wg.LitI(2))
				var pre []wg.N
				switch where {
				case "continuing":
					loop = wg.Loop([]wg.N{wg.If(wg.Un("!", wg.Bool, cond), []wg.N{wg.Break()}, nil)},
						[]wg.N{wg.CAsg(op, acc, val(in(1))), wg.Inc(i)}, wg.None)
					pre = []wg.N{wg.Var("i", wg.I32, wg.LitI(0))}
				case "continuing-expr":
					loop = wg.Loop([]wg.N{wg.If(wg.Un("!", wg.Bool, cond), []wg.N{wg.Break()}, nil)},
						[]wg.N{wg.Asg(acc, wg.Bin("+", t, wg.Bin(op, t, wg.Load(acc), val(in(1))), wg.Lit(t, 1))), wg.Inc(i)}, wg.None)
					pre = []wg.N{wg.Var("i", wg.I32, wg.LitI(0))}
				default:
					loop = wg.For(wg.Var("i", wg.I32, wg.LitI(0)), cond, wg.CAsg(op, acc, val(in(1))), []wg.N{wg.Inc(i)})
				}
				body := append([]wg.N{wg.Var("acc", t, val(in(0)))}, pre...)
				body = append(body, loop, st(0, back(wg.Load(acc))))
				globals := []wg.N{wg.Global("inp", "storage", "r", inA, 0, 0, wg.None), wg.Global("out", "storage", "rw", outA, 0, 1, wg.None)}
				c := Case{Family: "contop", Desc: fmt.Sprintf("contop %s %s %s", op, k, where), Prog: wg.Program(nil, nil, globals, []wg.N{wg.Entry("main", nil, body)})}
				for _, a := range hostile {
					for _, b := range hostile {
						c.Inputs = append(c.Inputs, [][]int32{{a, b, 0}, {0, 0}})
					}
				}
				out = append(out, c)
			}
		}
	}
	return out
}

func refRootIsGlobal(r wg.N) bool {
	for r != nil {
		switch wg.K(r) {
		case "rvar":
			n := wg.S(r, "n")
			return len(n) > 2 && n[:2] == "g_"
		case "rmem", "ridx":
			r = wg.Sub(r, "b")
		default:
			return false
		}
	}
	return false
}

func hasCall(x any) bool {
	switch v := x.(type) {
	case wg.N:
		if wg.K(v) == "call" {
			return true
		}
		for _, f := range v {
			if hasCall(f) {
				return true
			}
		}
	case []wg.N:
		for _, e := range v {
			if hasCall(e) {
				return true
			}
		}
	case []any:
		for _, e := range v {
			if hasCall(e) {
				return true
			}
		}
	}
	return false
}

// CasgOrder is the family for the evaluation order of compound assignment: `e1 op= e2` reads e1 before e2 is
// evaluated (WGSL: shorthand for { let p = &(e1); *p = *p op (e2); }), observable when e2 writes e1's variable.
func CasgOrder() []Case {
	var out []Case
	inA, outA := wg.Arr(wg.I32, 2), wg.Arr(wg.I32, 2)
	in := func(i int) wg.N { return wg.Load(wg.RIdx(wg.RVar("inp", inA), wg.LitI(int32(i)), wg.I32)) }
	st := func(i int, e wg.N) wg.N { return wg.Asg(wg.RIdx(wg.RVar("out", outA), wg.LitI(int32(i)), wg.I32), e) }
	g := wg.RVar("g", wg.I32)
	bump := wg.Fn("bump", nil, wg.I32, []wg.N{wg.Asg(g, wg.Bin("+", wg.I32, wg.Load(g), wg.LitI(10))), wg.Ret(wg.LitI(1))})
	for _, form := range []string{"casg", "inc-index", "binary"} {
		var body []wg.N
		globals := []wg.N{wg.Global("inp", "storage", "r", inA, 0, 0, wg.None), wg.Global("out", "storage", "rw", outA, 0, 1, wg.None),
			wg.Global("g", "private", "", wg.I32, 0, 0, wg.None)}
		body = append(body, wg.Asg(g, in(0)))
		switch form {
		case "casg":
			body = append(body, wg.CAsg("-", g, wg.Call("bump", wg.I32)))
		case "binary": // control: plain binary expression, left operand read first
			body = append(body, wg.Asg(g, wg.Bin("-", wg.I32, wg.Load(g), wg.Call("bump", wg.I32))))
		case "inc-index": // control: index evaluated once
			arr := wg.Arr(wg.I32, 4)
			body = append(body, wg.Var("a", arr, wg.Ctor(arr)), wg.CAsg("+", wg.RIdx(wg.RVar("a", arr), wg.Call("bump", wg.I32), wg.I32), wg.LitI(5)),
				st(1, wg.Load(wg.RIdx(wg.RVar("a", arr), wg.LitI(1), wg.I32))))
		}
		body = append(body, st(0, wg.Load(g)))
		c := Case{Family: "casgorder", Desc: "casgorder " + form, Prog: wg.Program(nil, nil, globals, []wg.N{bump, wg.Entry("main", nil, body)})}
		for _, a := range []int32{0, 5, -3} {
			c.Inputs = append(c.Inputs, [][]int32{{a, 0}, {0, 0}, {}})
		}
		out = append(out, c)
	}
	return out
}

// RzswPrec is the family for a bounds-checked dynamic access used as an operand of another operator: the guarded form
// a backend emits for it must bind tighter than the surrounding operator.
func RzswPrec() []Case {
	var out []Case
	inA, outA := wg.Arr(wg.I32, 4), wg.Arr(wg.I32, 2)
	in := func(i int) wg.N { return wg.Load(wg.RIdx(wg.RVar("inp", inA), wg.LitI(int32(i)), wg.I32)) }
	st := func(i int, e wg.N) wg.N { return wg.Asg(wg.RIdx(wg.RVar("out", outA), wg.LitI(int32(i)), wg.I32), e) }
	v3 := wg.Vec(3, wg.I32)
	arr := wg.Arr(wg.I32, 3)
	idx := wg.Bin("&", wg.I32, in(3), wg.LitI(1))
	mk := func(desc string, body []wg.N) {
		globals := []wg.N{wg.Global("inp", "storage", "r", inA, 0, 0, wg.None), wg.Global("out", "storage", "rw", outA, 0, 1, wg.None)}
		c := Case{Family: "rzswprec", Desc: "rzswprec " + desc, Prog: wg.Program(nil, nil, globals, []wg.N{wg.Entry("main", nil, body)})}
		for _, r := range [][]int32{{5, 6, 7, 0}, {5, 6, 7, 1}, {-1, 255, 3, 1}} {
			c.Inputs = append(c.Inputs, [][]int32{r, {0, 0}})
		}
		out = append(out, c)
	}
	vecv := wg.Ctor(v3, in(0), in(1), in(2))
	// let-bound vector value, dynamic index, result masked / multiplied
	mk("let-vector and", []wg.N{wg.Let("v", vecv), st(0, wg.Bin("&", wg.I32, wg.Idx(wg.I32, wg.Id("v", v3), idx), wg.LitI(3)))})
	mk("let-vector mul", []wg.N{wg.Let("v", vecv), st(0, wg.Bin("*", wg.I32, wg.Idx(wg.I32, wg.Id("v", v3), idx), wg.LitI(2)))})
	mk("var-vector add", []wg.N{wg.Var("v", v3, vecv), st(0, wg.Bin("+", wg.I32, wg.Load(wg.RIdx(wg.RVar("v", v3), idx, wg.I32)), wg.LitI(100)))})
	mk("var-array sub-right", []wg.N{wg.Var("a", arr, wg.Ctor(arr, in(0), in(1), in(2))),
		st(0, wg.Bin("-", wg.I32, wg.LitI(100), wg.Load(wg.RIdx(wg.RVar("a", arr), idx, wg.I32))))})
	mk("control plain", []wg.N{wg.Let("v", vecv), st(0, wg.Idx(wg.I32, wg.Id("v", v3), idx))})
	return out
}

// MatDyn is the family of dynamically indexed matrices in function and private space: every column of every matCxR
// shape is read and written through a run-time index (all in-range values).
func MatDyn() []Case {
	var out []Case
	for c := 2; c <= 4; c++ {
		for r := 2; r <= 4; r++ {
			for _, sp := range []string{"function", "private"} {
				mt := wg.Mat(c, r, wg.F32)
				col := wg.Vec(r, wg.F32)
				nIn, nOut := c*r+2, 2*r+1
				inA, outA := wg.Arr(wg.I32, nIn), wg.Arr(wg.I32, nOut)
				in := func(i int) wg.N { return wg.Load(wg.RIdx(wg.RVar("inp", inA), wg.LitI(int32(i)), wg.I32)) }
				st := func(i int, e wg.N) wg.N { return wg.Asg(wg.RIdx(wg.RVar("out", outA), wg.LitI(int32(i)), wg.I32), e) }
				args := make([]wg.N, c*r)
				for i := range args {
					args[i] = wg.Cast(wg.F32, in(i))
				}
				m := wg.RVar("m", mt)
				var globals []wg.N
				var body []wg.N
				if sp == "private" {
					globals = append(globals, wg.Global("m", "private", "", mt, 0, 0, wg.None))
					body = append(body, wg.Asg(m, wg.Ctor(mt, args...)))
				} else {
					body = append(body, wg.Var("m", mt, wg.Ctor(mt, args...)))
				}
				ri, wi := in(c*r), in(c*r+1) // read index, write index
				// read the column selected at run time
				body = append(body, wg.Let("rc", wg.Load(wg.RIdx(m, ri, col))))
				for j := 0; j < r; j++ {
					body = append(body, st(j, wg.Cast(wg.I32, wg.Swz(wg.F32, wg.Id("rc", col), j))))
				}
				// overwrite the column selected at run time, then read every element of that column back through a
				// second dynamic index
				wargs := make([]wg.N, r)
				for j := range wargs {
					wargs[j] = wg.LitF(float32(100 + j))
				}
				body = append(body, wg.Asg(wg.RIdx(m, wi, col), wg.Ctor(col, wargs...)))
				for j := 0; j < r; j++ {
					body = append(body, st(r+j, wg.Cast(wg.I32, wg.Load(wg.RIdx(wg.RIdx(m, ri, col), wg.LitI(int32(j)), wg.F32)))))
				}
				body = append(body, st(2*r, wg.Cast(wg.I32, wg.Load(wg.RIdx(wg.RIdx(m, wg.LitI(int32(c-1)), col), wg.LitI(int32(r-1)), wg.F32)))))
				gl := append([]wg.N{wg.Global("inp", "storage", "r", inA, 0, 0, wg.None), wg.Global("out", "storage", "rw", outA, 0, 1, wg.None)}, globals...)
				cs := Case{Family: "matdyn", Desc: fmt.Sprintf("matdyn mat%dx%d %s", c, r, sp), Prog: wg.Program(nil, nil, gl, []wg.N{wg.Entry("main", nil, body)})}
				for a := 0; a < c; a++ {
					for b := 0; b < c; b++ {
						row := make([]int32, nIn)
						for i := 0; i < c*r; i++ {
							row[i] = int32(i + 1)
						}
						row[c*r], row[c*r+1] = int32(a), int32(b)
						in := [][]int32{row, make([]int32, nOut)}
						for range globals {
							in = append(in, []int32{})
						}
						cs.Inputs = append(cs.Inputs, in)
					}
				}
				out = append(out, cs)
			}
		}
	}
	return out
}

// CtlNest is the family of jumps through nested loop / switch constructs: loop > switch > loop > switch { jump }, with
// every combination of loop form, single-body vs multi-case switch at each level, and continue / break at the innermost
// level (back ends that emulate switch with do-while, or forward `continue` through flags, must keep every level apart).
func CtlNest() []Case {
	var out []Case
	inA, outA := wg.Arr(wg.I32, 8), wg.Arr(wg.I32, 2)
	in := func(i int) wg.N { return wg.Load(wg.RIdx(wg.RVar("inp", inA), wg.LitI(int32(i)), wg.I32)) }
	st := func(i int, e wg.N) wg.N { return wg.Asg(wg.RIdx(wg.RVar("out", outA), wg.LitI(int32(i)), wg.I32), e) }
	acc, cnt := wg.RVar("acc", wg.I32), wg.RVar("cnt", wg.I32)
	bump := func(k int32) wg.N { return wg.Asg(acc, wg.Bin("+", wg.I32, wg.Bin("*", wg.I32, wg.Load(acc), wg.LitI(3)), wg.LitI(k))) }
	mkLoop := func(kind, iv string, n int32, body []wg.N) []wg.N {
		i := wg.RVar(iv, wg.I32)
		cond := wg.Bin("<", wg.Bool, wg.Load(i), wg.LitI(n))
		switch kind {
		case "for":
			return []wg.N{wg.For(wg.Var(iv, wg.I32, wg.LitI(0)), cond, wg.Inc(i), body)}
		case "while":
			return []wg.N{wg.Var(iv, wg.I32, wg.LitI(0)), wg.While(cond, append([]wg.N{wg.Inc(i)}, body...))}
		}
		return []wg.N{wg.Var(iv, wg.I32, wg.LitI(0)),
			wg.Loop(append([]wg.N{wg.If(wg.Un("!", wg.Bool, cond), []wg.N{wg.Break()}, nil)}, body...), []wg.N{wg.Inc(i)}, wg.None)}
	}
	mkSwitch := func(single bool, sel wg.N, body []wg.N) wg.N {
		if single {
			return wg.Switch(sel, wg.Case(nil, true, body))
		}
		return wg.Switch(sel, wg.Case([]int{0, 2}, false, body), wg.Case([]int{1}, false, []wg.N{bump(1)}), wg.Case(nil, true, []wg.N{bump(2)}))
	}
	for _, ok := range []string{"loop", "for", "while"} {
		for _, ik := range []string{"loop", "for", "while"} {
			for _, os := range []bool{true, false} {
				for _, is := range []bool{true, false} {
					for _, jump := range []string{"continue", "break"} {
						var j wg.N = wg.Continue()
						if jump == "break" {
							j = wg.Break()
						}
						// iv of the while form is incremented at the top of the body (value 1..n inside)
						innerSel := wg.Bin("&", wg.I32, wg.Bin("+", wg.I32, wg.Load(wg.RVar("j", wg.I32)), in(1)), wg.LitI(3))
						innerBody := []wg.N{
							wg.Inc(cnt),
							wg.If(wg.Bin("==", wg.Bool, wg.Bin("&", wg.I32, wg.Bin("^", wg.I32, wg.Load(wg.RVar("j", wg.I32)), in(2)), wg.LitI(1)), wg.LitI(1)), []wg.N{bump(5), j}, nil),
							bump(7),
						}
						inner := mkLoop(ik, "j", 3, []wg.N{mkSwitch(is, innerSel, innerBody), bump(11)})
						outerSel := wg.Bin("&", wg.I32, wg.Bin("+", wg.I32, wg.Load(wg.RVar("i", wg.I32)), in(0)), wg.LitI(3))
						// the outer clause jumps too (on other iterations than the inner one)
						var j2 wg.N = wg.Continue()
						if jump == "break" {
							j2 = wg.Break()
						}
						outerBody := append(append([]wg.N{}, inner...), bump(13),
							wg.If(wg.Bin("==", wg.Bool, wg.Bin("&", wg.I32, wg.Bin("^", wg.I32, wg.Load(wg.RVar("i", wg.I32)), in(4)), wg.LitI(1)), wg.LitI(1)), []wg.N{bump(19), j2}, nil),
							bump(23))
						outer := mkLoop(ok, "i", 3, []wg.N{mkSwitch(os, outerSel, outerBody), bump(17)})
						body := append([]wg.N{wg.Var("acc", wg.I32, in(3)), wg.Var("cnt", wg.I32, wg.LitI(0))}, outer...)
						body = append(body, st(0, wg.Load(acc)), st(1, wg.Load(cnt)))
						globals := []wg.N{wg.Global("inp", "storage", "r", inA, 0, 0, wg.None), wg.Global("out", "storage", "rw", outA, 0, 1, wg.None)}
						sw := func(b bool) string {
							if b {
								return "single"
							}
							return "multi"
						}
						c := Case{Family: "ctlnest", Desc: fmt.Sprintf("ctlnest %s>%s>%s>%s %s", ok, sw(os), ik, sw(is), jump),
							Prog: wg.Program(nil, nil, globals, []wg.N{wg.Entry("main", nil, body)})}
						for _, r := range [][]int32{{0, 0, 0, 1, 0, 0, 0, 0}, {1, 2, 1, 2, 1, 0, 0, 0}, {2, 1, 0, 3, 1, 0, 0, 0}, {3, 3, 1, 1, 0, 0, 0, 0}, {0, 1, 2, 7, 2, 0, 0, 0}} {
							c.Inputs = append(c.Inputs, [][]int32{r, {0, 0}})
						}
						out = append(out, c)
					}
				}
			}
		}
	}
	return out
}

// MemCopy is the family of whole-value loads of composite members of a storage buffer (`var p = buf.pts;`): arrays
// whose element stride differs from the element size (vec3 elements, arrays of small arrays), nested in a struct
// between scalars, copied to a local and read back element by element.
func MemCopy() []Case {
	var out []Case
	v3 := wg.Vec(3, wg.I32)
	mk := func(desc string, member wg.N, words int, reads func(p wg.N) []wg.N, nOut int) {
		sT := wg.StructT("B")
		sDecl := wg.StructDecl("B", wg.Member("a", wg.I32), wg.Member("pts", member), wg.Member("b", wg.I32))
		outA := wg.Arr(wg.I32, nOut+2)
		st := func(i int, e wg.N) wg.N { return wg.Asg(wg.RIdx(wg.RVar("out", outA), wg.LitI(int32(i)), wg.I32), e) }
		inp := wg.RVar("inp", sT)
		body := []wg.N{wg.Var("p", member, wg.Load(wg.RMem(inp, 1, "pts", member)))}
		for i, e := range reads(wg.RVar("p", member)) {
			body = append(body, st(i, e))
		}
		body = append(body, st(nOut, wg.Load(wg.RMem(inp, 0, "a", wg.I32))), st(nOut+1, wg.Load(wg.RMem(inp, 2, "b", wg.I32))))
		globals := []wg.N{wg.Global("inp", "storage", "r", sT, 0, 0, wg.None), wg.Global("out", "storage", "rw", outA, 0, 1, wg.None)}
		c := Case{Family: "memcopy", Desc: "memcopy " + desc, Prog: wg.Program([]wg.N{sDecl}, nil, globals, []wg.N{wg.Entry("main", nil, body)})}
		for r := 0; r < 2; r++ {
			in := make([]int32, words)
			for i := range in {
				in[i] = int32((r+1)*1000 + i) // every word distinct, padding words included
			}
			c.Inputs = append(c.Inputs, [][]int32{in, make([]int32, nOut+2)})
		}
		out = append(out, c)
	}
	// struct B { a: i32 @0, pts: array<vec3<i32>,4> @16 (stride 16), b: i32 @80 } : 96 bytes = 24 words
	arrV3 := wg.Arr(v3, 4)
	mk("array<vec3<i32>,4>", arrV3, 24, func(p wg.N) []wg.N {
		var es []wg.N
		for i := 0; i < 4; i++ {
			for j := 0; j < 3; j++ {
				es = append(es, wg.Load(wg.RIdx(wg.RIdx(p, wg.LitI(int32(i)), v3), wg.LitI(int32(j)), wg.I32)))
			}
		}
		return es
	}, 12)
	// struct B { a @0, pts: array<array<i32,2>,3> @4 (stride 8), b @28 } : 32 bytes = 8 words
	a2 := wg.Arr(wg.I32, 2)
	arrA2 := wg.Arr(a2, 3)
	mk("array<array<i32,2>,3>", arrA2, 8, func(p wg.N) []wg.N {
		var es []wg.N
		for i := 0; i < 3; i++ {
			for j := 0; j < 2; j++ {
				es = append(es, wg.Load(wg.RIdx(wg.RIdx(p, wg.LitI(int32(i)), a2), wg.LitI(int32(j)), wg.I32)))
			}
		}
		return es
	}, 6)
	// struct B { a @0, pts: array<vec3<u32>,2> @16, b @48 } : 64 bytes = 16 words
	v3u := wg.Vec(3, wg.U32)
	arrV3u := wg.Arr(v3u, 2)
	mk("array<vec3<u32>,2>", arrV3u, 16, func(p wg.N) []wg.N {
		var es []wg.N
		for i := 0; i < 2; i++ {
			for j := 0; j < 3; j++ {
				es = append(es, wg.Bitcast(wg.I32, wg.Load(wg.RIdx(wg.RIdx(p, wg.LitI(int32(i)), v3u), wg.LitI(int32(j)), wg.U32))))
			}
		}
		return es
	}, 6)
	return out
}

// PtrArg is the family of pointers to sub-objects passed to helper functions: a let-bound `&a[i]` / `&s.m` used for
// several calls with writes to the pointee in between, conditional calls, two element pointers in one call.
func PtrArg() []Case {
	var out []Case
	inA, outA := wg.Arr(wg.I32, 4), wg.Arr(wg.I32, 6)
	in := func(i int) wg.N { return wg.Load(wg.RIdx(wg.RVar("inp", inA), wg.LitI(int32(i)), wg.I32)) }
	st := func(i int, e wg.N) wg.N { return wg.Asg(wg.RIdx(wg.RVar("out", outA), wg.LitI(int32(i)), wg.I32), e) }
	pT := wg.Ptr("function", wg.I32)
	bump := wg.Fn("bump", []wg.N{wg.Param("p", pT)}, wg.Void, []wg.N{
		wg.Asg(wg.RDeref(wg.Id("p", pT)), wg.Bin("+", wg.I32, wg.Load(wg.RDeref(wg.Id("p", pT))), wg.LitI(100)))})
	swap := wg.Fn("swap", []wg.N{wg.Param("p", pT), wg.Param("q", pT)}, wg.Void, []wg.N{
		wg.Let("t", wg.Load(wg.RDeref(wg.Id("p", pT)))),
		wg.Asg(wg.RDeref(wg.Id("p", pT)), wg.Load(wg.RDeref(wg.Id("q", pT)))),
		wg.Asg(wg.RDeref(wg.Id("q", pT)), wg.Bin("+", wg.I32, wg.Id("t", wg.I32), wg.LitI(1)))})
	arr := wg.Arr(wg.I32, 4)
	a := wg.RVar("a", arr)
	sT := wg.StructT("P")
	sDecl := wg.StructDecl("P", wg.Member("x", wg.I32), wg.Member("y", wg.I32))
	idx := wg.Bin("&", wg.I32, in(3), wg.LitI(3))
	dump := func(body []wg.N) []wg.N {
		for i := 0; i < 4; i++ {
			body = append(body, st(i, wg.Load(wg.RIdx(a, wg.LitI(int32(i)), wg.I32))))
		}
		return body
	}
	initA := wg.Var("a", arr, wg.Ctor(arr, in(0), in(1), in(2), wg.LitI(1)))
	mk := func(desc string, structs []wg.N, fns []wg.N, body []wg.N) {
		globals := []wg.N{wg.Global("inp", "storage", "r", inA, 0, 0, wg.None), wg.Global("out", "storage", "rw", outA, 0, 1, wg.None)}
		c := Case{Family: "ptrarg", Desc: "ptrarg " + desc, Prog: wg.Program(structs, nil, globals, append(fns, wg.Entry("main", nil, body)))}
		for _, r := range [][]int32{{4, 7, 3, 1}, {4, 7, 3, 0}, {-1, 0, 9, 2}, {5, 5, 5, 3}} {
			c.Inputs = append(c.Inputs, [][]int32{r, {0, 0, 0, 0, 0, 0}})
		}
		out = append(out, c)
	}
	elem := func() wg.N { return wg.Addr(wg.RIdx(a, idx, wg.I32), "function") }
	// the same let-bound element pointer used for two calls with a write to the array in between
	mk("let-elem twice, write between", nil, []wg.N{bump}, dump([]wg.N{initA, wg.Let("p", elem()),
		wg.CallS("bump", wg.Id("p", pT)), wg.Asg(wg.RIdx(a, wg.LitI(1), wg.I32), wg.LitI(7)), wg.CallS("bump", wg.Id("p", pT))}))
	// first call conditional
	mk("let-elem, first call conditional", nil, []wg.N{bump}, dump([]wg.N{initA, wg.Let("p", elem()),
		wg.If(wg.Bin(">", wg.Bool, in(0), wg.LitI(0)), []wg.N{wg.CallS("bump", wg.Id("p", pT))}, nil),
		wg.CAsg("+", wg.RIdx(a, idx, wg.I32), wg.LitI(5)), wg.CallS("bump", wg.Id("p", pT))}))
	// fresh &a[i] at each call site, and write through the pointer directly between the calls
	mk("fresh elem each call, deref write between", nil, []wg.N{bump}, dump([]wg.N{initA, wg.Let("p", elem()),
		wg.CallS("bump", elem()), wg.Asg(wg.RDeref(wg.Id("p", pT)), wg.LitI(9)), wg.CallS("bump", elem())}))
	// two element pointers in one call, then again swapped
	mk("two elems one call", nil, []wg.N{swap}, dump([]wg.N{initA,
		wg.Let("p", wg.Addr(wg.RIdx(a, wg.LitI(0), wg.I32), "function")), wg.Let("q", wg.Addr(wg.RIdx(a, wg.LitI(2), wg.I32), "function")),
		wg.CallS("swap", wg.Id("p", pT), wg.Id("q", pT)), wg.CallS("swap", wg.Id("q", pT), wg.Id("p", pT))}))
	// loop: the pointer is taken once outside, the pointee changes in every iteration
	mk("let-elem in loop", nil, []wg.N{bump}, dump([]wg.N{initA, wg.Let("p", elem()),
		wg.For(wg.Var("i", wg.I32, wg.LitI(0)), wg.Bin("<", wg.Bool, wg.Load(wg.RVar("i", wg.I32)), wg.LitI(3)), wg.Inc(wg.RVar("i", wg.I32)),
			[]wg.N{wg.CallS("bump", wg.Id("p", pT)), wg.CAsg("*", wg.RIdx(a, idx, wg.I32), wg.LitI(2))})}))
	// struct member pointer
	s := wg.RVar("s", sT)
	mk("let-member twice, write between", []wg.N{sDecl}, []wg.N{bump}, []wg.N{
		wg.Var("s", sT, wg.Ctor(sT, in(0), in(1))), wg.Let("p", wg.Addr(wg.RMem(s, 1, "y", wg.I32), "function")),
		wg.CallS("bump", wg.Id("p", pT)), wg.Asg(wg.RMem(s, 1, "y", wg.I32), wg.LitI(7)), wg.CallS("bump", wg.Id("p", pT)),
		st(0, wg.Load(wg.RMem(s, 0, "x", wg.I32))), st(1, wg.Load(wg.RMem(s, 1, "y", wg.I32)))})
	return out
}
