package gen

// Policy family, second half: the hardened-operator grid (hostile operands) and variables read before any write.

import (
	"fmt"
	"math"
	"math/rand"
	"sort"
	"strings"

	"verif/harness/wg"
)

// hostile integer operands: dividends / left operands and divisors / right operands
var (
	hostA = []int32{0, 1, -1, 7, -7, math.MinInt32, math.MaxInt32, math.MinInt32 + 1, 2, 1 << 30, -(1 << 30), 65536}
	hostB = []int32{0, 1, -1, 2, -2, math.MinInt32, math.MaxInt32, 7, 65536}
	// shift counts
	hostCnt = []int32{0, 1, 31, 32, 33, 63, 64, -1, math.MinInt32, 1 << 30}
	// f32 operands of the conversions: finite in range, edges of both target ranges, beyond, infinities, NaNs, subnormals
	hostF = []int32{fb(0), fb(float32(math.Copysign(0, -1))), fb(1.5), fb(-1.5), fb(-0.5), fb(0.99), fb(16777216), fb(-16777216),
		fb(2147483520), fb(2147483648), fb(-2147483648), fb(-2147483904), fb(4294967040), fb(4294967296), fb(3e9), fb(-3e9),
		fb(1e20), fb(-1e20), fb(float32(math.Inf(1))), fb(float32(math.Inf(-1))), 0x7fc00000, -0x00400000, 0x7f800001, 1, -0x7fffffff, fb(-1)}
	// extractBits / insertBits offset and count
	hostOff = []int32{0, 1, 16, 31, 32, 33, 40, -1, math.MinInt32}
)

// opRowClass names the hazardous classes of one row of an operator program.  sh is the operand shape: in the mixed
// shapes the scalar operand occupies one word of its slot and meets EVERY lane of the vector operand ("sv": left operand
// scalar, "vs": right operand scalar).
func opRowClass(op, kind, sh string, lanes int, in []int32) string {
	var cl []string
	add := func(s string) {
		for _, x := range cl {
			if x == s {
				return
			}
		}
		cl = append(cl, s)
	}
	get := func(slot, l, slotLanes int) int32 {
		i := slot*lanes + l
		if slotLanes == 1 {
			i = slot * lanes
		}
		if i < len(in) {
			return in[i]
		}
		return 0
	}
	for l := 0; l < lanes; l++ {
		la, lb := lanes, lanes
		if sh == "sv" {
			la = 1
		}
		if sh == "vs" {
			lb = 1
		}
		a, b := get(0, l, la), get(1, l, lb)
		switch op {
		case "/", "%", "/=", "%=":
			if b == 0 {
				add("div0")
			}
			if kind == "i32" && a == math.MinInt32 && b == -1 {
				add("minint/-1")
			}
			if strings.HasPrefix(op, "%") && kind == "i32" && (a < 0 || b < 0) {
				add("negoperand")
			}
		case "<<", ">>":
			if uint32(b) >= 32 {
				add("cnt>=32")
			}
		case "neg", "abs":
			if a == math.MinInt32 {
				add("minint")
			}
		case "+", "-", "*", "dot":
			add("wrap")
		case "f2i", "f2u":
			v := float64(math.Float32frombits(uint32(a)))
			switch {
			case v != v:
				add("nan")
			case math.IsInf(v, 0):
				add("inf")
			case op == "f2i" && (v >= 2147483648 || v < -2147483648):
				add("oor")
			case op == "f2u" && (v >= 4294967296 || v <= -1):
				add("oor")
			case op == "f2u" && v < 0:
				add("negfrac") // -1 < v < 0: WGSL gives 0; some targets leave every negative input undefined
			case v != 0 && math.Abs(v) < 1.2e-38:
				add("subnormal")
			}
		case "extractBits", "insertBits":
			k := 1
			if op == "insertBits" {
				k = 2
			}
			off, cnt := uint64(uint32(get(k, 0, 1))), uint64(uint32(get(k+1, 0, 1)))
			if off+cnt > 32 {
				add("off+cnt>32")
			}
		}
	}
	if len(cl) == 0 {
		return "plain"
	}
	return strings.Join(cl, ",")
}

// PolicyOpCases builds the hardened-operator grid.  limit bounds the rows per program (0 = all).
func PolicyOpCases(rng *rand.Rand, limit int) []PolicyCase {
	var out []PolicyCase
	lanesOf := func(sh string) int {
		switch sh {
		case "v2":
			return 2
		case "v3", "sv", "vs":
			return 3
		case "v4":
			return 4
		}
		return 1
	}
	add := func(op, kind, sh string, b *builder, rows [][][]int32, clsOp string) {
		if limit > 0 && len(rows) > limit {
			// stratified by hazard class, round-robin: every class of the program keeps rows (INT_MIN / -1 is one pair in 108)
			rng.Shuffle(len(rows), func(i, j int) { rows[i], rows[j] = rows[j], rows[i] })
			byClass := map[string][][][]int32{}
			var order []string
			for _, r := range rows {
				cl := opRowClass(clsOp, kind, sh, lanesOf(sh), r[0])
				if _, ok := byClass[cl]; !ok {
					order = append(order, cl)
				}
				byClass[cl] = append(byClass[cl], r)
			}
			sort.Strings(order)
			var pick [][][]int32
			for len(pick) < limit {
				for _, cl := range order {
					if l := byClass[cl]; len(l) > 0 && len(pick) < limit {
						pick = append(pick, l[0])
						byClass[cl] = l[1:]
					}
				}
			}
			rows = pick
		}
		pc := PolicyCase{Kind: "op", Form: op + " " + kind, Op: sh}
		pc.Family = "policy"
		pc.Desc = fmt.Sprintf("%s %s %s", op, kind, sh)
		pc.Prog = b.program()
		pc.Inputs = rows
		for _, r := range rows {
			pc.RowClass = append(pc.RowClass, opRowClass(clsOp, kind, sh, lanesOf(sh), r[0]))
			pc.OOB = append(pc.OOB, false)
		}
		out = append(out, pc)
	}
	operand := func(b *builder, slot, lanes int, kind string, vec bool) wg.N {
		if !vec {
			return b.loadOperand(slot, lanes, 1, kind)
		}
		return b.loadOperand(slot, lanes, lanes, kind)
	}
	// binary operators
	for _, op := range []string{"/", "%", "<<", ">>", "+", "-", "*"} {
		for _, kind := range []string{"i32", "u32"} {
			for _, sh := range []string{"s", "v2", "v3", "v4", "sv", "vs"} {
				shift := op == "<<" || op == ">>"
				if (shift || op == "+" || op == "-" || op == "*") && (sh == "sv" || sh == "vs" || sh == "v2") {
					continue
				}
				n := lanesOf(sh)
				bk := kind
				if shift {
					bk = "u32"
				}
				b := &builder{inK: kind, outK: kind}
				ea := operand(b, 0, n, kind, sh != "s" && sh != "sv")
				eb := operand(b, 1, n, bk, sh != "s" && sh != "vs")
				var rt wg.N = scalarT(kind)
				if sh != "s" {
					rt = wg.Vec(n, scalarT(kind))
				}
				nOut := b.outVal(0, rt, wg.Bin(op, rt, ea, eb))
				gb := hostB
				if shift {
					gb = hostCnt
				}
				add(op, kind, sh, b, pairRows(hostA, gb, n, 2, nOut, rng, 0), op)
			}
		}
	}
	// compound assignment on a function variable and on a storage buffer element
	for _, op := range []string{"/", "%"} {
		for _, kind := range []string{"i32", "u32"} {
			for _, sh := range []string{"s", "v3"} {
				n := lanesOf(sh)
				b := &builder{inK: kind, outK: kind}
				var t wg.N = scalarT(kind)
				if n > 1 {
					t = wg.Vec(n, scalarT(kind))
				}
				b.body = append(b.body, wg.Var("acc", t, operand(b, 0, n, kind, n > 1)))
				b.body = append(b.body, wg.CAsg(op, wg.RVar("acc", t), operand(b, 1, n, kind, n > 1)))
				nOut := b.outVal(0, t, wg.Load(wg.RVar("acc", t)))
				add(op+"=", kind, sh, b, pairRows(hostA, hostB, n, 2, nOut, rng, 0), op)
			}
		}
	}
	// negation, abs
	for _, f := range []string{"neg", "abs"} {
		for _, sh := range []string{"s", "v2", "v3", "v4"} {
			n := lanesOf(sh)
			b := &builder{inK: "i32", outK: "i32"}
			t := vecOrScalar(n, "i32")
			a := b.loadOperand(0, n, n, "i32")
			var e wg.N
			if f == "neg" {
				e = wg.Un("-", t, a)
			} else {
				e = wg.Bi("abs", t, a)
			}
			nOut := b.outVal(0, t, e)
			add(f, "i32", sh, b, singleRows(hostA, n, 1, nOut, rng, 0), f)
		}
	}
	// f32 -> i32 / u32
	for _, to := range []string{"i32", "u32"} {
		for _, sh := range []string{"s", "v2", "v3", "v4"} {
			n := lanesOf(sh)
			b := &builder{inK: "f32", outK: to}
			t := vecOrScalar(n, to)
			nOut := b.outVal(0, t, wg.Cast(t, b.loadOperand(0, n, n, "f32")))
			cls := "f2i"
			if to == "u32" {
				cls = "f2u"
			}
			rows := singleRows(hostF, n, 1, nOut, rng, 0)
			if n > 1 {
				// vectors: additionally rows whose lanes are all pinned by the specification (so values are compared)
				pinned := []int32{fb(1.5), fb(-1.5), fb(-3e9), fb(-2147483648), fb(16777216), fb(0.99), fb(-1e20), fb(2147483520)}
				rows = append(rows, singleRows(pinned, n, 1, nOut, rng, 0)...)
			}
			add("cast f32->"+to, "f32", sh, b, rows, cls)
		}
	}
	// integer dot product (wrap-around), extractBits / insertBits (offset + count beyond 32)
	for _, kind := range []string{"i32", "u32"} {
		for _, n := range []int{2, 4} {
			b := &builder{inK: kind, outK: kind}
			nOut := b.outVal(0, scalarT(kind), wg.Bi("dot", scalarT(kind), b.loadOperand(0, n, n, kind), b.loadOperand(1, n, n, kind)))
			add("dot", kind, fmt.Sprintf("v%d", n), b, pairRows(hostA, hostA, n, 2, nOut, rng, 0), "dot")
		}
		for _, n := range []int{1, 3} {
			sh := "s"
			if n > 1 {
				sh = "v3"
			}
			b := &builder{inK: kind, outK: kind}
			t := vecOrScalar(n, kind)
			nOut := b.outVal(0, t, wg.Bi("extractBits", t, b.loadOperand(0, n, n, kind), b.loadOperand(1, n, 1, "u32"), b.loadOperand(2, n, 1, "u32")))
			rows := pairRows(hostA, hostOff, n, 3, nOut, rng, 0)
			for i, r := range rows {
				r[0][2*n] = hostOff[(i/3+i)%len(hostOff)]
			}
			add("extractBits", kind, sh, b, rows, "extractBits")
			b2 := &builder{inK: kind, outK: kind}
			nOut2 := b2.outVal(0, t, wg.Bi("insertBits", t, b2.loadOperand(0, n, n, kind), b2.loadOperand(1, n, n, kind),
				b2.loadOperand(2, n, 1, "u32"), b2.loadOperand(3, n, 1, "u32")))
			rows2 := pairRows(hostA, hostA, n, 4, nOut2, rng, 0)
			for i, r := range rows2 {
				r[0][2*n] = hostOff[i%len(hostOff)]
				r[0][3*n] = hostOff[(i/len(hostOff)+i)%len(hostOff)]
			}
			add("insertBits", kind, sh, b2, rows2, "insertBits")
		}
	}
	return out
}

// PolicyUninitCases builds programs that read workgroup / private / function variables before any write.
func PolicyUninitCases() []PolicyCase {
	var out []PolicyCase
	u := wg.StructDecl("U", wg.Member("a", wg.I32), wg.Member("v", wg.Vec(2, wg.U32)), wg.Member("m", wg.Mat(2, 2, wg.F32)),
		wg.Member("arr", wg.Arr(wg.Vec(2, wg.I32), 2)), wg.Member("f", wg.F32))
	type ty struct {
		name    string
		t       wg.N
		structs []wg.N
	}
	types := []ty{
		{"i32", wg.I32, nil}, {"vec3f", wg.Vec(3, wg.F32), nil}, {"arr5", wg.Arr(wg.I32, 5), nil},
		{"mat2x3", wg.Mat(2, 3, wg.F32), nil}, {"struct", wg.StructT("U"), []wg.N{u}}, {"arr2d", wg.Arr(wg.Arr(wg.U32, 2), 3), nil},
		{"arr300", wg.Arr(wg.I32, 300), nil}, // above the loop threshold of the workgroup zero-initialisers
	}
	mk := func(desc, space, form string, structs, globals []wg.N, fns []wg.N, body []wg.N, nOut int, rows [][]int32) {
		gl := append([]wg.N{wg.Global("inp", "storage", "r", wg.Arr(wg.I32, 2), 0, 0, wg.None),
			wg.Global("out", "storage", "rw", wg.Arr(wg.I32, nOut), 0, 1, wg.None)}, globals...)
		fixOutArr(body, nOut)
		for _, f := range fns {
			fixOutArr(wg.L(f, "body"), nOut)
		}
		pc := PolicyCase{Kind: "uninit", Form: form, Space: space, Op: "read"}
		pc.Family = "policy"
		pc.Desc = desc
		pc.Prog = wg.Program(structs, nil, gl, append(fns, wg.Entry("main", nil, body)))
		for _, r := range rows {
			row := [][]int32{r, make([]int32, nOut)}
			for range globals {
				row = append(row, []int32{})
			}
			pc.Inputs = append(pc.Inputs, row)
			pc.RowClass = append(pc.RowClass, "uninit")
			pc.OOB = append(pc.OOB, false)
		}
		out = append(out, pc)
	}
	outT := wg.Arr(wg.I32, 0)
	outRef := func(i int) wg.N { return wg.RIdx(wg.RVar("out", outT), wg.LitI(int32(i)), wg.I32) }
	inpT := wg.Arr(wg.I32, 2)
	inp := func(i int) wg.N { return wg.Load(wg.RIdx(wg.RVar("inp", inpT), wg.LitI(int32(i)), wg.I32)) }
	for _, t := range types {
		sd := structDefs{}
		for _, s := range t.structs {
			sd[wg.S(s, "name")] = s
		}
		leaves := staticLeaves(sd, t.t, nil)
		if len(leaves) > 40 { // large array: sample the leaves
			var ls []leaf
			for i := 0; i < len(leaves); i += 23 {
				ls = append(ls, leaves[i])
			}
			ls = append(ls, leaves[len(leaves)-1])
			leaves = ls
		}
		for _, space := range []string{"workgroup", "private", "function"} {
			root := wg.RVar("x", t.t)
			var globals, body []wg.N
			if space == "function" {
				body = append(body, wg.Var("x", t.t, wg.None))
			} else {
				globals = append(globals, wg.Global("x", space, "", t.t, 0, 0, wg.None))
			}
			// every leaf read before any write; then one leaf is written and all are read again
			for k, lf := range leaves {
				body = append(body, wg.Asg(outRef(k), toI32(wg.Load(refOf(sd, root, lf.path, nil)))))
			}
			first := refOf(sd, root, leaves[len(leaves)/2].path, nil)
			body = append(body, wg.Asg(first, tagLit(leaves[len(leaves)/2].ty, 6)))
			for k, lf := range leaves {
				body = append(body, wg.Asg(outRef(len(leaves)+k), toI32(wg.Load(refOf(sd, root, lf.path, nil)))))
			}
			mk(fmt.Sprintf("uninit %s %s", t.name, space), space, t.name, t.structs, globals, nil, body, 2*len(leaves), [][]int32{{0, 0}})
		}
	}
	// dynamic index (in range, from the buffer) into a never written array
	for _, space := range []string{"workgroup", "private", "function"} {
		at := wg.Arr(wg.I32, 4)
		root := wg.RVar("x", at)
		var globals, body []wg.N
		if space == "function" {
			body = append(body, wg.Var("x", at, wg.None))
		} else {
			globals = append(globals, wg.Global("x", space, "", at, 0, 0, wg.None))
		}
		body = append(body, wg.Asg(outRef(0), wg.Load(wg.RIdx(root, inp(0), wg.I32))))
		body = append(body, wg.Asg(wg.RIdx(root, inp(1), wg.I32), wg.LitI(9)))
		body = append(body, wg.Asg(outRef(1), wg.Load(wg.RIdx(root, inp(0), wg.I32))))
		mk("uninit dynidx "+space, space, "dynidx", nil, globals, nil, body, 2, [][]int32{{0, 0}, {1, 3}, {3, 3}, {2, 0}})
	}
	// a function-space variable is zero again on every call and on every loop iteration
	{
		at := wg.Arr(wg.I32, 4)
		h := wg.Fn("h", []wg.N{wg.Param("k", wg.I32)}, wg.I32, []wg.N{
			wg.Var("a", at, wg.None),
			wg.Var("s", wg.I32, wg.None),
			wg.Let("r", wg.Bin("+", wg.I32, wg.Load(wg.RIdx(wg.RVar("a", at), wg.Id("k", wg.I32), wg.I32)), wg.Load(wg.RVar("s", wg.I32)))),
			wg.Asg(wg.RIdx(wg.RVar("a", at), wg.Id("k", wg.I32), wg.I32), wg.LitI(7)),
			wg.Asg(wg.RVar("s", wg.I32), wg.LitI(3)),
			wg.Ret(wg.Id("r", wg.I32)),
		})
		body := []wg.N{
			wg.Asg(outRef(0), wg.Call("h", wg.I32, inp(0))),
			wg.Asg(outRef(1), wg.Call("h", wg.I32, inp(0))),
			wg.Asg(outRef(2), wg.Call("h", wg.I32, inp(1))),
		}
		mk("uninit function per-call", "function", "percall", nil, nil, []wg.N{h}, body, 3, [][]int32{{0, 0}, {2, 2}, {3, 1}})
	}
	{
		// var declared in a loop body: a fresh zero value on every iteration
		body := []wg.N{
			wg.Var("n", wg.I32, wg.LitI(0)),
			wg.Loop([]wg.N{
				wg.If(wg.Bin(">=", wg.Bool, wg.Load(wg.RVar("n", wg.I32)), wg.LitI(3)), []wg.N{wg.Break()}, nil),
				wg.Var("t", wg.I32, wg.None),
				wg.Var("w", wg.Vec(2, wg.I32), wg.None),
				wg.Asg(wg.RIdx(wg.RVar("out", outT), wg.Load(wg.RVar("n", wg.I32)), wg.I32),
					wg.Bin("+", wg.I32, wg.Load(wg.RVar("t", wg.I32)), wg.Swz(wg.I32, wg.Load(wg.RVar("w", wg.Vec(2, wg.I32))), 1))),
				wg.Asg(wg.RVar("t", wg.I32), wg.Bin("+", wg.I32, inp(0), wg.LitI(5))),
				wg.Asg(wg.RIdx(wg.RVar("w", wg.Vec(2, wg.I32)), wg.LitI(1), wg.I32), wg.LitI(11)),
				wg.Inc(wg.RVar("n", wg.I32)),
			}, nil, wg.None),
		}
		mk("uninit function per-iteration", "function", "periter", nil, nil, nil, body, 3, [][]int32{{0, 0}, {4, 0}})
	}
	out = append(out, multiEntryCases()...)
	return out
}

// multiEntryCases: modules with two or three compute entry points that reach a never written workgroup (or private)
// variable directly, only through a helper, or through a helper of a helper, in different orders.  Every entry point is
// executed on its own (one PolicyCase each): whichever way it reaches the variable, it must read zero.
func multiEntryCases() []PolicyCase {
	var out []PolicyCase
	at := wg.Arr(wg.I32, 4)
	outT := wg.Arr(wg.I32, 4)
	inpT := wg.Arr(wg.I32, 2)
	outRef := func(i int) wg.N { return wg.RIdx(wg.RVar("out", outT), wg.LitI(int32(i)), wg.I32) }
	type ep struct {
		name string
		body func(space string) []wg.N
	}
	// helpers: g touches w (reads element 1, then writes it), f calls g, h calls f; g2 touches the scalar w2
	helpers := func() []wg.N {
		w := wg.RIdx(wg.RVar("w", at), wg.LitI(1), wg.I32)
		g := wg.Fn("g", nil, wg.I32, []wg.N{wg.Let("r", wg.Load(w)), wg.Asg(w, wg.LitI(7)), wg.Ret(wg.Id("r", wg.I32))})
		f := wg.Fn("f", nil, wg.I32, []wg.N{wg.Ret(wg.Bin("+", wg.I32, wg.Call("g", wg.I32), wg.LitI(100)))})
		h := wg.Fn("h", nil, wg.I32, []wg.N{wg.Ret(wg.Bin("+", wg.I32, wg.Call("f", wg.I32), wg.LitI(1000)))})
		w2 := wg.RVar("w2", wg.I32)
		g2 := wg.Fn("g2", nil, wg.I32, []wg.N{wg.Let("r", wg.Load(w2)), wg.Asg(w2, wg.LitI(9)), wg.Ret(wg.Id("r", wg.I32))})
		f2 := wg.Fn("f2", nil, wg.I32, []wg.N{wg.Ret(wg.Bin("+", wg.I32, wg.Call("g2", wg.I32), wg.Call("g", wg.I32)))})
		return []wg.N{g, f, h, g2, f2}
	}
	call := func(i int, fn string) wg.N { return wg.Asg(outRef(i), wg.Call(fn, wg.I32)) }
	direct := func(i int) wg.N {
		return wg.Asg(outRef(i), wg.Load(wg.RIdx(wg.RVar("w", at), wg.LitI(int32(i)), wg.I32)))
	}
	direct2 := func(i int) wg.N { return wg.Asg(outRef(i), wg.Load(wg.RVar("w2", wg.I32))) }
	progs := []struct {
		name string
		eps  []ep
	}{
		// the first entry point calls g and then a helper that calls g too; the second reaches w only through that helper
		{"P1", []ep{
			{"first", func(string) []wg.N { return []wg.N{call(0, "g"), call(1, "f")} }},
			{"second", func(string) []wg.N { return []wg.N{call(0, "f")} }}}},
		{"P2", []ep{
			{"first", func(string) []wg.N { return []wg.N{direct(0), direct(1)} }},
			{"second", func(string) []wg.N { return []wg.N{call(0, "g")} }},
			{"third", func(string) []wg.N { return []wg.N{call(0, "h")} }}}},
		{"P3", []ep{
			{"first", func(string) []wg.N { return []wg.N{call(0, "f"), call(1, "g")} }},
			{"second", func(string) []wg.N { return []wg.N{call(0, "g")} }},
			{"third", func(string) []wg.N { return []wg.N{direct(1), direct(3)} }}}},
		{"P4", []ep{
			{"first", func(string) []wg.N { return []wg.N{call(0, "g"), call(1, "f"), call(2, "h")} }},
			{"second", func(string) []wg.N { return []wg.N{call(0, "h")} }},
			{"third", func(string) []wg.N { return []wg.N{call(0, "f")} }}}},
		// two variables: g2 touches w2, f2 calls g2 and g
		{"P5", []ep{
			{"first", func(string) []wg.N { return []wg.N{call(0, "g2"), call(1, "g"), call(2, "f2")} }},
			{"second", func(string) []wg.N { return []wg.N{call(0, "f2")} }},
			{"third", func(string) []wg.N { return []wg.N{direct2(0), call(1, "f")} }}}},
		{"P6", []ep{
			{"first", func(string) []wg.N { return []wg.N{call(0, "h"), call(1, "f2")} }},
			{"second", func(string) []wg.N { return []wg.N{call(0, "g2")} }},
			{"third", func(string) []wg.N { return []wg.N{call(0, "f2"), direct(1)} }}}},
	}
	for _, space := range []string{"workgroup", "private"} {
		for _, p := range progs {
			if space == "private" && p.name != "P1" && p.name != "P5" {
				continue
			}
			globals := []wg.N{wg.Global("inp", "storage", "r", inpT, 0, 0, wg.None), wg.Global("out", "storage", "rw", outT, 0, 1, wg.None),
				wg.Global("w", space, "", at, 0, 0, wg.None), wg.Global("w2", space, "", wg.I32, 0, 0, wg.None)}
			for active := range p.eps {
				mk := func(all bool) wg.N {
					fns := helpers()
					for i, e := range p.eps {
						if all || i == active {
							fns = append(fns, wg.Entry(e.name, nil, e.body(space)))
						} else {
							fns = append(fns, wg.Fn(e.name, nil, wg.Void, e.body(space)))
						}
					}
					return wg.Program(nil, nil, globals, fns)
				}
				pc := PolicyCase{Kind: "uninit", Form: "multiep-" + p.name, Space: space, Op: "read", Entry: p.eps[active].name}
				pc.Family = "policy"
				pc.Desc = fmt.Sprintf("uninit multiep %s %s %s", p.name, space, p.eps[active].name)
				pc.Prog = mk(false)
				pc.Source = mk(true)
				pc.Inputs = [][][]int32{{{0, 0}, {0, 0, 0, 0}, {}, {}}}
				pc.RowClass = []string{"uninit"}
				pc.OOB = []bool{false}
				out = append(out, pc)
			}
		}
	}
	return out
}
