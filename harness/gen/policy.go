package gen

// The `Policy` family of DESIGN.md 5.1 (property C15): programs whose dynamic indices and operands come from a buffer
// and are hostile.  What the programs mean under a bounds-check policy is decided by spec/Policy.tla (through
// WgslSem.tla), never here: this file only builds program records and input rows and names the class of every row so
// that known-finding predicates can be narrow.

import (
	"fmt"
	"math"
	"math/rand"
	"strings"

	"verif/harness/wg"
)

// PolicyCase is one program of the Policy family with its rows.
type PolicyCase struct {
	Case
	Kind  string // "index" | "op" | "uninit"
	Form  string // shape/path of the access, or the operator
	Space string // address space of the indexed object ("" for op)
	Op    string // access operation (read, write, casg, ...)
	IdxT  string // i32 | u32 index type
	// Entry is the WGSL entry point to execute ("" = main).  For modules with several entry points Prog (what the
	// specification runs) marks only Entry as the entry function, Source (what naga compiles) marks them all.
	Entry    string
	Source   wg.N
	RowClass []string // per row: class of the hostile value(s)
	OOB      []bool   // per row: some dynamic index is out of range
}

// ---- WGSL layout (for sizing buffers only; the specification computes the layout itself) ----

type structDefs map[string]wg.N

func (sd structDefs) alignOf(t wg.N) int {
	switch wg.K(t) {
	case "vec":
		if wg.I(t, "n") == 2 {
			return 8
		}
		return 16
	case "mat":
		return sd.alignOf(wg.Vec(wg.I(t, "r"), wg.F32))
	case "arr":
		return sd.alignOf(wg.Sub(t, "e"))
	case "struct":
		a := 4
		for _, m := range wg.L(sd[wg.S(t, "name")], "ms") {
			a = max(a, sd.alignOf(wg.Sub(m, "ty")))
		}
		return a
	}
	return 4
}

func roundUp(a, n int) int { return (n + a - 1) / a * a }

func (sd structDefs) sizeOf(t wg.N) int {
	switch wg.K(t) {
	case "vec":
		return 4 * wg.I(t, "n")
	case "mat":
		col := wg.Vec(wg.I(t, "r"), wg.F32)
		return wg.I(t, "c") * roundUp(sd.alignOf(col), sd.sizeOf(col))
	case "arr":
		n := wg.I(t, "n")
		if n == 0 {
			n = 1
		}
		return n * sd.strideOf(t)
	case "struct":
		off := 0
		for _, m := range wg.L(sd[wg.S(t, "name")], "ms") {
			mt := wg.Sub(m, "ty")
			off = roundUp(sd.alignOf(mt), off) + sd.sizeOf(mt)
		}
		return roundUp(sd.alignOf(t), off)
	}
	return 4
}

func (sd structDefs) strideOf(t wg.N) int {
	e := wg.Sub(t, "e")
	return roundUp(sd.alignOf(e), sd.sizeOf(e))
}

// runtimeTail returns (offset of the run-time sized array inside t, its stride) or (-1, 0).
func (sd structDefs) runtimeTail(t wg.N) (int, int) {
	switch wg.K(t) {
	case "arr":
		if wg.I(t, "n") == 0 {
			return 0, sd.strideOf(t)
		}
	case "struct":
		off := 0
		ms := wg.L(sd[wg.S(t, "name")], "ms")
		for i, m := range ms {
			mt := wg.Sub(m, "ty")
			off = roundUp(sd.alignOf(mt), off)
			if i == len(ms)-1 {
				if o, s := sd.runtimeTail(mt); o >= 0 {
					return off + o, s
				}
			}
			off += sd.sizeOf(mt)
		}
	}
	return -1, 0
}

// ---- access shapes ----

type pstep struct {
	kind string // "mem" | "const" | "dyn"
	m    int    // member index / constant index / operand number
	name string // member name
}

type pshape struct {
	name    string
	structs []wg.N
	ty      wg.N
	path    []pstep
	spaces  []string
	floaty  bool // buffer words are small floats (some leaf is f32)
}

var (
	allSpaces    = []string{"storage", "storage_r", "uniform", "workgroup", "private", "function"}
	nonUniform   = []string{"storage", "storage_r", "workgroup", "private", "function"}
	storageOnly  = []string{"storage", "storage_r"}
	atomicSpaces = []string{"storage", "workgroup"}
)

func dyn(k int) pstep              { return pstep{kind: "dyn", m: k} }
func cst(i int) pstep              { return pstep{kind: "const", m: i} }
func mem(i int, name string) pstep { return pstep{kind: "mem", m: i, name: name} }

func policyShapes() []pshape {
	v4i, v4f := wg.Vec(4, wg.I32), wg.Vec(4, wg.F32)
	_ = v4f
	in := wg.StructDecl("In", wg.Member("v", v4i), wg.Member("m", wg.Mat(2, 4, wg.F32)), wg.Member("w", wg.Arr(v4i, 2)))
	s := wg.StructDecl("S", wg.Member("a", wg.U32), wg.Member("arr", wg.Arr(wg.StructT("In"), 3)), wg.Member("tail", v4i))
	nested := []wg.N{in, s}
	r := wg.StructDecl("R", wg.Member("n", wg.U32), wg.Member("data", wg.Arr(wg.Vec(2, wg.I32), 0)))
	as := wg.StructDecl("AS", wg.Member("c", wg.Atomic(wg.U32)), wg.Member("a", wg.Arr(wg.Atomic(wg.I32), 3)), wg.Member("tail", wg.I32))
	return []pshape{
		{name: "arr4[i]", ty: wg.Arr(wg.I32, 4), path: []pstep{dyn(0)}, spaces: nonUniform},
		{name: "arrv4[i].y", ty: wg.Arr(v4i, 4), path: []pstep{dyn(0), cst(1)}, spaces: allSpaces},
		{name: "arrv4[i]", ty: wg.Arr(v4i, 4), path: []pstep{dyn(0)}, spaces: allSpaces},
		{name: "arrv4[i][j]", ty: wg.Arr(v4i, 4), path: []pstep{dyn(0), dyn(1)}, spaces: allSpaces},
		{name: "vec4i[i]", ty: v4i, path: []pstep{dyn(0)}, spaces: allSpaces},
		{name: "vec3f[i]", ty: wg.Vec(3, wg.F32), path: []pstep{dyn(0)}, spaces: allSpaces, floaty: true},
		{name: "vec2u[i]", ty: wg.Vec(2, wg.U32), path: []pstep{dyn(0)}, spaces: allSpaces},
		{name: "mat3x4[i]", ty: wg.Mat(3, 4, wg.F32), path: []pstep{dyn(0)}, spaces: allSpaces, floaty: true},
		{name: "mat3x4[i][j]", ty: wg.Mat(3, 4, wg.F32), path: []pstep{dyn(0), dyn(1)}, spaces: allSpaces, floaty: true},
		{name: "mat3x4[i][2]", ty: wg.Mat(3, 4, wg.F32), path: []pstep{dyn(0), cst(2)}, spaces: allSpaces, floaty: true},
		{name: "mat3x4[1][i]", ty: wg.Mat(3, 4, wg.F32), path: []pstep{cst(1), dyn(0)}, spaces: allSpaces, floaty: true},
		{name: "mat2x3[i][j]", ty: wg.Mat(2, 3, wg.F32), path: []pstep{dyn(0), dyn(1)}, spaces: allSpaces, floaty: true},
		{name: "mat4x2[i][j]", ty: wg.Mat(4, 2, wg.F32), path: []pstep{dyn(0), dyn(1)}, spaces: allSpaces, floaty: true},
		{name: "S.arr[i].v[j]", structs: nested, ty: wg.StructT("S"), path: []pstep{mem(1, "arr"), dyn(0), mem(0, "v"), dyn(1)}, spaces: allSpaces, floaty: true},
		{name: "S.arr[i].v", structs: nested, ty: wg.StructT("S"), path: []pstep{mem(1, "arr"), dyn(0), mem(0, "v")}, spaces: allSpaces, floaty: true},
		{name: "S.arr[i].m[j][k]", structs: nested, ty: wg.StructT("S"), path: []pstep{mem(1, "arr"), dyn(0), mem(1, "m"), dyn(1), dyn(2)}, spaces: allSpaces, floaty: true},
		{name: "S.arr[1].m[i][j]", structs: nested, ty: wg.StructT("S"), path: []pstep{mem(1, "arr"), cst(1), mem(1, "m"), dyn(0), dyn(1)}, spaces: allSpaces, floaty: true},
		{name: "S.arr[i].w[j].x", structs: nested, ty: wg.StructT("S"), path: []pstep{mem(1, "arr"), dyn(0), mem(2, "w"), dyn(1), cst(0)}, spaces: allSpaces, floaty: true},
		{name: "arr2d[i][j]", ty: wg.Arr(wg.Arr(wg.I32, 3), 2), path: []pstep{dyn(0), dyn(1)}, spaces: nonUniform},
		// the SAME index value at two levels whose extents differ (inner larger than outer and the reverse)
		{name: "mat3x4[i][i]", ty: wg.Mat(3, 4, wg.F32), path: []pstep{dyn(0), dyn(0)}, spaces: allSpaces, floaty: true},
		{name: "mat4x2[i][i]", ty: wg.Mat(4, 2, wg.F32), path: []pstep{dyn(0), dyn(0)}, spaces: allSpaces, floaty: true},
		{name: "a2d4x8[i][i]", ty: wg.Arr(wg.Arr(wg.I32, 8), 4), path: []pstep{dyn(0), dyn(0)}, spaces: nonUniform},
		{name: "a2d5x2[i][i]", ty: wg.Arr(wg.Arr(wg.I32, 2), 5), path: []pstep{dyn(0), dyn(0)}, spaces: nonUniform},
		{name: "S.arr[i].v[i]", structs: nested, ty: wg.StructT("S"), path: []pstep{mem(1, "arr"), dyn(0), mem(0, "v"), dyn(0)}, spaces: allSpaces, floaty: true},
		{name: "S.arr[i].m[i][j]", structs: nested, ty: wg.StructT("S"), path: []pstep{mem(1, "arr"), dyn(0), mem(1, "m"), dyn(0), dyn(1)}, spaces: allSpaces, floaty: true},
		{name: "rtarr[i]", ty: wg.Arr(wg.I32, 0), path: []pstep{dyn(0)}, spaces: storageOnly},
		{name: "R.data[i].y", structs: []wg.N{r}, ty: wg.StructT("R"), path: []pstep{mem(1, "data"), dyn(0), cst(1)}, spaces: storageOnly},
		{name: "R.data[i][j]", structs: []wg.N{r}, ty: wg.StructT("R"), path: []pstep{mem(1, "data"), dyn(0), dyn(1)}, spaces: storageOnly},
		{name: "R.data[i]", structs: []wg.N{r}, ty: wg.StructT("R"), path: []pstep{mem(1, "data"), dyn(0)}, spaces: storageOnly},
		{name: "aarr[i]", ty: wg.Arr(wg.Atomic(wg.I32), 4), path: []pstep{dyn(0)}, spaces: atomicSpaces},
		{name: "AS.a[i]", structs: []wg.N{as}, ty: wg.StructT("AS"), path: []pstep{mem(1, "a"), dyn(0)}, spaces: atomicSpaces},
		{name: "artarr[i]", ty: wg.Arr(wg.Atomic(wg.U32), 0), path: []pstep{dyn(0)}, spaces: []string{"storage"}},
	}
}

// stepType returns the type reached by one step and the length of the indexed object (0: member selection, -1: run-time).
func stepType(sd structDefs, t wg.N, st pstep) (wg.N, int) {
	switch wg.K(t) {
	case "struct":
		return wg.Sub(wg.L(sd[wg.S(t, "name")], "ms")[st.m], "ty"), 0
	case "arr":
		n := wg.I(t, "n")
		if n == 0 {
			n = -1
		}
		return wg.Sub(t, "e"), n
	case "mat":
		return wg.Vec(wg.I(t, "r"), wg.Sub(t, "e")), wg.I(t, "c")
	case "vec":
		return wg.Sub(t, "e"), wg.I(t, "n")
	}
	panic("stepType: " + wg.K(t))
}

// staticLeaves lists every scalar leaf of a fixed-size type as (path of const/mem steps, scalar type, atomic).
type leaf struct {
	path   []pstep
	ty     wg.N
	atomic bool
}

func staticLeaves(sd structDefs, t wg.N, pre []pstep) []leaf {
	cp := func(s pstep) []pstep { return append(append([]pstep{}, pre...), s) }
	switch wg.K(t) {
	case "struct":
		var out []leaf
		for i, m := range wg.L(sd[wg.S(t, "name")], "ms") {
			out = append(out, staticLeaves(sd, wg.Sub(m, "ty"), cp(mem(i, wg.S(m, "name"))))...)
		}
		return out
	case "arr", "mat", "vec":
		e, n := stepType(sd, t, cst(0))
		var out []leaf
		for i := 0; i < n; i++ {
			out = append(out, staticLeaves(sd, e, cp(cst(i)))...)
		}
		return out
	case "atomic":
		return []leaf{{path: pre, ty: wg.Sub(t, "e"), atomic: true}}
	}
	return []leaf{{path: pre, ty: t}}
}

// refOf builds the reference expression root<path>; idx gives the expression of operand k.
func refOf(sd structDefs, root wg.N, path []pstep, idx func(k int) wg.N) wg.N {
	r := root
	t := wg.Sub(root, "t")
	for _, st := range path {
		nt, _ := stepType(sd, t, st)
		switch st.kind {
		case "mem":
			r = wg.RMem(r, st.m, st.name, nt)
		case "const":
			r = wg.RIdx(r, wg.LitI(int32(st.m)), nt)
		case "dyn":
			r = wg.RIdx(r, idx(st.m), nt)
		}
		t = nt
	}
	return r
}

// valOf applies the path to a value expression.
func valOf(sd structDefs, v wg.N, path []pstep, idx func(k int) wg.N) wg.N {
	t := wg.Sub(v, "t")
	for _, st := range path {
		nt, _ := stepType(sd, t, st)
		switch st.kind {
		case "mem":
			v = wg.Mem(nt, v, st.m, st.name)
		case "const":
			v = wg.Idx(nt, v, wg.LitI(int32(st.m)))
		case "dyn":
			v = wg.Idx(nt, v, idx(st.m))
		}
		t = nt
	}
	return v
}

func hasAtomic(sd structDefs, t wg.N) bool {
	switch wg.K(t) {
	case "atomic":
		return true
	case "arr":
		return hasAtomic(sd, wg.Sub(t, "e"))
	case "struct":
		for _, m := range wg.L(sd[wg.S(t, "name")], "ms") {
			if hasAtomic(sd, wg.Sub(m, "ty")) {
				return true
			}
		}
	}
	return false
}

// tagCtor builds a value of type t whose k-th leaf (in staticLeaves order) holds tag k.
func tagCtor(sd structDefs, t wg.N, k *int) wg.N {
	switch wg.K(t) {
	case "struct":
		var args []wg.N
		for _, m := range wg.L(sd[wg.S(t, "name")], "ms") {
			args = append(args, tagCtor(sd, wg.Sub(m, "ty"), k))
		}
		return wg.Ctor(t, args...)
	case "arr", "mat", "vec":
		e, n := stepType(sd, t, cst(0))
		var args []wg.N
		for i := 0; i < n; i++ {
			args = append(args, tagCtor(sd, e, k))
		}
		return wg.Ctor(t, args...)
	}
	*k++
	return tagLit(t, *k-1)
}

func tagLit(t wg.N, k int) wg.N {
	if wg.K(t) == "f32" {
		return wg.LitF(float32(k + 1))
	}
	return wg.Lit(t, int32(0x100+k))
}

func toI32(e wg.N) wg.N {
	t := wg.Sub(e, "t")
	if wg.K(t) == "i32" {
		return e
	}
	return wg.Bitcast(wg.I32, e)
}

func ptrT(space string, t wg.N) wg.N {
	if space == "storage_r" {
		return wg.Ptr("storage", t)
	}
	p := wg.Ptr(space, t)
	if space == "storage" {
		p["access"] = "rw"
	}
	return p
}

// policyOps lists the operations applicable to a leaf type in a space.
func policyOps(leafT wg.N, space string, nd int) []string {
	ro := space == "uniform" || space == "storage_r"
	if wg.K(leafT) == "atomic" {
		return []string{"aload", "astore", "aadd", "amax", "axchg", "ptr_aadd"}
	}
	ops := []string{"read", "value", "ptr_read", "letptr_read"}
	if !ro {
		ops = append(ops, "write", "casg", "ptr_write", "letptr_write")
		if k := wg.K(leafT); k == "i32" || k == "u32" {
			ops = append(ops, "inc")
		}
	}
	return ops
}

// IndexGrid returns the hostile index words for an indexed object of length n (n >= 1) with their class names.
func IndexGrid(n int) ([]int32, []string) {
	vals := []int32{0, int32(n - 1), int32(n), int32(n + 1), -1, math.MaxInt32, math.MinInt32, 0x10000000, 0x40000000, 0x20000001, int32(n + 60)}
	cls := []string{"0", "len-1", "len", "len+1", "-1", "intmax", "intmin", "wrap28", "wrap30", "wrap29+1", "len+60"}
	if n > 2 {
		vals = append(vals, 1)
		cls = append(cls, "1")
	}
	return vals, cls
}

// IndexDesc names one program of the index half without building it.
type IndexDesc struct{ Shape, Space, Op, IdxT, Desc string }

// PolicyIndexDescs lists every program of the index half (for stratified sampling).
func PolicyIndexDescs() []IndexDesc {
	var out []IndexDesc
	for _, sh := range policyShapes() {
		sd := structDefs{}
		for _, s := range sh.structs {
			sd[wg.S(s, "name")] = s
		}
		t := sh.ty
		for _, st := range sh.path {
			t, _ = stepType(sd, t, st)
		}
		for _, space := range sh.spaces {
			for _, op := range policyOps(t, space, 0) {
				for _, idxT := range []string{"i32", "u32"} {
					out = append(out, IndexDesc{sh.name, space, op, idxT, fmt.Sprintf("%s %s %s %s", sh.name, space, op, idxT)})
				}
			}
		}
	}
	return out
}

// PolicyIndexCases enumerates the index half of the Policy family.  keep decides (by seeded sampling) which programs
// are built; pass nil for all.
func PolicyIndexCases(rng *rand.Rand, keep func(desc string) bool) []PolicyCase {
	var out []PolicyCase
	for _, sh := range policyShapes() {
		sd := structDefs{}
		for _, s := range sh.structs {
			sd[wg.S(s, "name")] = s
		}
		// leaf type and lengths at the dynamic steps
		t := sh.ty
		var lens []int
		for _, st := range sh.path {
			nt, n := stepType(sd, t, st)
			if st.kind == "dyn" {
				lens = append(lens, n)
			}
			t = nt
		}
		leafT := t
		for _, space := range sh.spaces {
			for _, op := range policyOps(leafT, space, len(lens)) {
				for _, idxT := range []string{"i32", "u32"} {
					desc := fmt.Sprintf("%s %s %s %s", sh.name, space, op, idxT)
					if keep != nil && !keep(desc) {
						continue
					}
					if pc, ok := buildIndexCase(rng, sh, sd, leafT, lens, space, op, idxT); ok {
						pc.Desc = desc
						out = append(out, pc)
					}
				}
			}
		}
	}
	return out
}

func buildIndexCase(rng *rand.Rand, sh pshape, sd structDefs, leafT wg.N, lens []int, space, op, idxT string) (PolicyCase, bool) {
	// operand number of every dynamic step (one operand may subscript several levels: `m[i][i]`) and the operand count
	var stepOp []int
	for _, st := range sh.path {
		if st.kind == "dyn" {
			stepOp = append(stepOp, st.m)
		}
	}
	nd := 0
	for _, o := range stepOp {
		nd = max(nd, o+1)
	}
	it := scalarT(idxT)
	isBuf := space == "storage" || space == "storage_r" || space == "uniform"
	inpT := wg.Arr(it, max(nd, 1))
	idxE := func(k int) wg.N { return wg.Id(fmt.Sprintf("i%d", k), it) }
	var body, fns []wg.N
	inpG := wg.Global("inp", "storage", "r", inpT, 0, 0, wg.None)
	root := wg.RVar("tgt", sh.ty)
	wspace := space
	if space == "storage_r" {
		wspace = "storage"
	}
	rt := hasRuntimeArr(sd, sh.ty)
	var leaves []leaf
	if !rt {
		leaves = staticLeaves(sd, sh.ty, nil)
	}
	// declaration of the target object
	var tgtG wg.N
	switch space {
	case "storage":
		tgtG = wg.Global("tgt", "storage", "rw", sh.ty, 0, 2, wg.None)
	case "storage_r":
		tgtG = wg.Global("tgt", "storage", "r", sh.ty, 0, 2, wg.None)
	case "uniform":
		tgtG = wg.Global("tgt", "uniform", "", sh.ty, 0, 2, wg.None)
	case "workgroup", "private":
		tgtG = wg.Global("tgt", space, "", sh.ty, 0, 0, wg.None)
	case "function":
		body = append(body, wg.Var("tgt", sh.ty, wg.None))
	}
	if !isBuf {
		if hasAtomic(sd, sh.ty) {
			for k, lf := range leaves {
				r := refOf(sd, root, lf.path, nil)
				if lf.atomic {
					body = append(body, wg.BiStmt(wg.Bi("atomicStore", wg.Void, wg.Addr(r, wspace), tagLit(lf.ty, k))))
				} else {
					body = append(body, wg.Asg(r, tagLit(lf.ty, k)))
				}
			}
		} else {
			k := 0
			body = append(body, wg.Asg(root, tagCtor(sd, sh.ty, &k))) // one store of a constructed value (leaf k holds tag k)
		}
	}
	for k := 0; k < nd; k++ {
		body = append(body, wg.Let(fmt.Sprintf("i%d", k), wg.Load(wg.RIdx(wg.RVar("inp", inpT), wg.LitI(int32(k)), it))))
	}
	nRes := 4
	outT := wg.Arr(wg.I32, 0) // patched below
	outRef := func(i int) wg.N { return wg.RIdx(wg.RVar("out", outT), wg.LitI(int32(i)), wg.I32) }
	// store a scalar or vector value into out[0..]
	emitRes := func(e wg.N) {
		t := wg.Sub(e, "t")
		if wg.K(t) == "vec" {
			body = append(body, wg.Let("res", e))
			for j := 0; j < wg.I(t, "n"); j++ {
				body = append(body, wg.Asg(outRef(j), toI32(wg.Swz(wg.Sub(t, "e"), wg.Id("res", t), j))))
			}
			return
		}
		body = append(body, wg.Asg(outRef(0), toI32(e)))
	}
	// the value written by stores
	wval := func() wg.N {
		mk := func(t wg.N, j int) wg.N {
			if wg.K(t) == "f32" {
				return wg.LitF(float32(77 + j))
			}
			return wg.Lit(t, int32(0x7771+j))
		}
		if wg.K(leafT) == "vec" {
			n := wg.I(leafT, "n")
			args := make([]wg.N, n)
			for j := range args {
				args[j] = mk(wg.Sub(leafT, "e"), j)
			}
			return wg.Ctor(leafT, args...)
		}
		return mk(leafT, 0)
	}
	cval := func() wg.N { // operand of the compound assignment
		mk := func(t wg.N) wg.N {
			if wg.K(t) == "f32" {
				return wg.LitF(1)
			}
			return wg.Lit(t, 5)
		}
		if wg.K(leafT) == "vec" {
			return wg.Ctor(leafT, mk(wg.Sub(leafT, "e")))
		}
		return mk(leafT)
	}
	ref := refOf(sd, root, sh.path, idxE)
	aT := wg.Sub(leafT, "e") // atomic's scalar
	idxParams := func() []wg.N {
		ps := []wg.N{wg.Param("p", ptrT(space, sh.ty))}
		for k := 0; k < nd; k++ {
			ps = append(ps, wg.Param(fmt.Sprintf("i%d", k), it))
		}
		return ps
	}
	idxArgs := func() []wg.N {
		as := []wg.N{wg.Addr(root, wspace)}
		as[0]["t"] = ptrT(space, sh.ty)
		for k := 0; k < nd; k++ {
			as = append(as, idxE(k))
		}
		return as
	}
	pref := func() wg.N { // the same access through the pointer parameter p
		return refOf(sd, wg.RDeref(wg.Id("p", ptrT(space, sh.ty))), sh.path, idxE)
	}
	switch op {
	case "read":
		emitRes(wg.Load(ref))
	case "value":
		// load the object in front of the first dynamic index as a value, index the value
		first := 0
		for first < len(sh.path) && sh.path[first].kind != "dyn" {
			first++
		}
		if rt {
			return PolicyCase{}, false // a run-time sized array cannot be loaded
		}
		pre := refOf(sd, root, sh.path[:first], idxE)
		if hasAtomic(sd, wg.Sub(pre, "t")) {
			return PolicyCase{}, false
		}
		body = append(body, wg.Let("val", wg.Load(pre)))
		emitRes(valOf(sd, wg.Id("val", wg.Sub(pre, "t")), sh.path[first:], idxE))
	case "write":
		body = append(body, wg.Asg(ref, wval()))
	case "casg":
		if wg.K(wg.ScalarOf(leafT)) == "f32" && wg.K(leafT) == "vec" {
			return PolicyCase{}, false
		}
		body = append(body, wg.CAsg("+", ref, cval()))
	case "inc":
		body = append(body, wg.Inc(ref))
	case "ptr_read":
		fns = append(fns, wg.Fn("rd", idxParams(), leafT, []wg.N{wg.Ret(wg.Load(pref()))}))
		emitRes(wg.Call("rd", leafT, idxArgs()...))
	case "ptr_write":
		fns = append(fns, wg.Fn("wr", idxParams(), wg.Void, []wg.N{wg.Asg(pref(), wval())}))
		body = append(body, wg.CallS("wr", idxArgs()...))
	case "letptr_read":
		a := wg.Addr(ref, wspace)
		a["t"] = ptrT(space, leafT)
		body = append(body, wg.Let("q", a))
		emitRes(wg.Load(wg.RDeref(wg.Id("q", ptrT(space, leafT)))))
	case "letptr_write":
		a := wg.Addr(ref, wspace)
		a["t"] = ptrT(space, leafT)
		body = append(body, wg.Let("q", a))
		body = append(body, wg.Asg(wg.RDeref(wg.Id("q", ptrT(space, leafT))), wval()))
	case "aload":
		emitRes(wg.Bi("atomicLoad", aT, wg.Addr(ref, wspace)))
	case "astore":
		body = append(body, wg.BiStmt(wg.Bi("atomicStore", wg.Void, wg.Addr(ref, wspace), wg.Lit(aT, 0x7771))))
	case "aadd":
		emitRes(wg.Bi("atomicAdd", aT, wg.Addr(ref, wspace), wg.Lit(aT, 5)))
	case "amax":
		emitRes(wg.Bi("atomicMax", aT, wg.Addr(ref, wspace), wg.Lit(aT, 0x7771)))
	case "axchg":
		emitRes(wg.Bi("atomicExchange", aT, wg.Addr(ref, wspace), wg.Lit(aT, 0x7771)))
	case "ptr_aadd":
		fns = append(fns, wg.Fn("at", idxParams(), aT, []wg.N{wg.Ret(wg.Bi("atomicAdd", aT, wg.Addr(pref(), wspace), wg.Lit(aT, 5)))}))
		emitRes(wg.Call("at", aT, idxArgs()...))
	default:
		return PolicyCase{}, false
	}
	if rt {
		// the run-time length is observable too
		var lenRef wg.N = root
		if wg.K(sh.ty) == "struct" {
			ms := wg.L(sd[wg.S(sh.ty, "name")], "ms")
			last := ms[len(ms)-1]
			lenRef = wg.RMem(root, len(ms)-1, wg.S(last, "name"), wg.Sub(last, "ty"))
		}
		a := wg.Addr(lenRef, "storage")
		body = append(body, wg.Asg(outRef(nRes), wg.Bitcast(wg.I32, wg.Bi("arrayLength", wg.U32, a))))
	}
	nOut := nRes + 1
	writes := op == "write" || op == "casg" || op == "inc" || op == "ptr_write" || op == "letptr_write" || op == "astore" ||
		op == "aadd" || op == "amax" || op == "axchg" || op == "ptr_aadd"
	if !isBuf && writes {
		// dump every leaf of the object
		for k, lf := range leaves {
			r := refOf(sd, root, lf.path, nil)
			var e wg.N
			if lf.atomic {
				e = wg.Bi("atomicLoad", lf.ty, wg.Addr(r, wspace))
			} else {
				e = wg.Load(r)
			}
			body = append(body, wg.Asg(outRef(nRes+1+k), toI32(e)))
		}
		nOut += len(leaves)
	}
	globals := []wg.N{inpG, wg.Global("out", "storage", "rw", wg.Arr(wg.I32, nOut), 0, 1, wg.None)}
	if tgtG != nil {
		globals = append(globals, tgtG)
	}
	fixOutArr(body, nOut)
	for _, f := range fns {
		fixOutArr(wg.L(f, "body"), nOut)
	}
	prog := wg.Program(sh.structs, nil, globals, append(fns, wg.Entry("main", nil, body)))
	pc := PolicyCase{Kind: "index", Form: sh.name, Space: space, Op: op, IdxT: idxT}
	pc.Family = "policy"
	pc.Prog = prog

	// rows
	type combo struct {
		v   []int32
		cls []string
		oob bool
		n   int // run-time element count
	}
	var combos []combo
	rtCounts := []int{0}
	if rt {
		rtCounts = []int{1, 3, 4}
	}
	for ci, rc := range rtCounts {
		ls := append([]int{}, lens...)
		for k := range ls {
			if ls[k] == -1 {
				ls[k] = rc
			}
		}
		// per operand: the hostile grid of every extent it subscripts (classes name the extent when there are several)
		grids := make([][]int32, nd)
		gcls := make([][]string, nd)
		minLen := make([]int, nd)
		for o := 0; o < nd; o++ {
			var exts []int
			for k, so := range stepOp {
				if so == o {
					dup := false
					for _, e := range exts {
						dup = dup || e == ls[k]
					}
					if !dup {
						exts = append(exts, ls[k])
					}
					if minLen[o] == 0 || ls[k] < minLen[o] {
						minLen[o] = ls[k]
					}
				}
			}
			seen := map[int32]bool{}
			for _, e := range exts {
				v, c := IndexGrid(e)
				for i := range v {
					if seen[v[i]] {
						continue
					}
					seen[v[i]] = true
					grids[o] = append(grids[o], v[i])
					if len(exts) > 1 {
						gcls[o] = append(gcls[o], fmt.Sprintf("%s/%d", c[i], e))
					} else {
						gcls[o] = append(gcls[o], c[i])
					}
				}
			}
			if len(exts) > 1 { // everything between the extents
				lo, hi := exts[0], exts[0]
				for _, e := range exts {
					lo, hi = min(lo, e), max(hi, e)
				}
				for x := lo; x < hi; x++ {
					if !seen[int32(x)] {
						seen[int32(x)] = true
						grids[o] = append(grids[o], int32(x))
						gcls[o] = append(gcls[o], "between")
					}
				}
			}
		}
		inr := func(o, salt int) int32 { return int32((salt + o) % minLen[o]) }
		for k := 0; k < nd; k++ {
			for gi, v := range grids[k] {
				if rt && ci > 0 && gi%2 == 1 {
					continue // thin out the repeated grids of the other run-time lengths
				}
				c := combo{v: make([]int32, nd), cls: make([]string, nd), n: rc}
				for j := 0; j < nd; j++ {
					if j == k {
						c.v[j], c.cls[j] = v, gcls[k][gi]
					} else {
						c.v[j] = inr(j, gi)
						c.cls[j] = "in"
					}
				}
				combos = append(combos, c)
			}
		}
		if nd > 1 { // several hostile indices at once
			for x := 0; x < 4; x++ {
				c := combo{v: make([]int32, nd), cls: make([]string, nd), n: rc}
				for j := 0; j < nd; j++ {
					gi := 2 + rng.Intn(len(grids[j])-2)
					c.v[j], c.cls[j] = grids[j][gi], gcls[j][gi]
				}
				combos = append(combos, c)
			}
		}
	}
	for _, c := range combos {
		ls := append([]int{}, lens...)
		for k := range ls {
			if ls[k] == -1 {
				ls[k] = c.n
			}
		}
		for k, o := range stepOp {
			if uint32(c.v[o]) >= uint32(ls[k]) {
				c.oob = true
			}
		}
		row := make([][]int32, len(globals))
		row[0] = make([]int32, max(nd, 1))
		copy(row[0], c.v)
		row[1] = make([]int32, nOut)
		if isBuf {
			bytes := sd.sizeOf(sh.ty)
			if rt {
				off, stride := sd.runtimeTail(sh.ty)
				bytes = off + c.n*stride
			}
			w := make([]int32, bytes/4)
			for i := range w {
				if sh.floaty {
					w[i] = fb(float32(i + 1))
				} else {
					w[i] = int32(0x100 + i)
				}
			}
			row[2] = w
		} else if len(row) > 2 {
			row[2] = []int32{}
		}
		pc.Inputs = append(pc.Inputs, row)
		pc.RowClass = append(pc.RowClass, strings.Join(c.cls, ","))
		pc.OOB = append(pc.OOB, c.oob)
	}
	return pc, true
}

func hasRuntimeArr(sd structDefs, t wg.N) bool {
	o, _ := sd.runtimeTail(t)
	return o >= 0
}

// fixOutArr patches the length of `out` in references.
func fixOutArr(x any, nOut int) {
	switch v := x.(type) {
	case []wg.N:
		for _, e := range v {
			fixOutArr(e, nOut)
		}
	case wg.N:
		if wg.K(v) == "rvar" && wg.S(v, "n") == "out" {
			v["t"] = wg.Arr(wg.I32, nOut)
		}
		for _, f := range v {
			fixOutArr(f, nOut)
		}
	}
}
