package mslx

import (
	"fmt"
	"strings"

	"verif/harness/xrt"
)

type ctl uint8

const (
	ctlNone ctl = iota
	ctlBreak
	ctlContinue
	ctlReturn
)

const maxCallDepth = 256

type interp struct {
	u        *Unit
	steps    int
	maxSteps int
	trace    bool
	accesses []xrt.Access
	globals  map[*Decl]*ref
	globalsB map[*Decl]bool // being initialised (cycle guard)
	depth    int
	ptrs     map[*region]map[int]*ref
}

type frame struct {
	fn   *FuncDecl
	vars map[*Decl]*ref
	ret  Value
}

func (it *interp) step() {
	it.steps++
	if it.steps > it.maxSteps {
		panic(skipErr{"fuel"})
	}
}

// maxObjectSize bounds the size of any single variable or temporary.
const maxObjectSize = 1 << 24

func newRegion(name, space string, size int, defined bool) *region {
	if size < 0 || size > maxObjectSize {
		skipf("object %s of %d bytes is larger than the supported %d bytes", name, size, maxObjectSize)
	}
	r := &region{name: name, space: space, b: make([]byte, size)}
	if !defined {
		r.def = make([]bool, size)
	}
	return r
}

func (r *region) describe() string {
	if r.slot != "" {
		return fmt.Sprintf("%s (%s)", r.slot, r.name)
	}
	return r.name
}

// access checks the byte range against the region and records the access.
func (it *interp) access(r *region, off, n int, write bool) {
	if off < 0 || off+n > len(r.b) {
		kind := "read"
		if write {
			kind = "write"
		}
		if r.bound {
			trapf("out-of-bounds %s of %d bytes at offset %d of %s (bound length %d bytes)", kind, n, off, r.describe(), len(r.b))
		}
		trapf("out-of-bounds %s of %d bytes at offset %d of %s (size %d bytes)", kind, n, off, r.describe(), len(r.b))
	}
	if r.bound && it.trace {
		it.accesses = append(it.accesses, xrt.Access{Slot: r.slot, Offset: off, Size: n, Write: write})
	}
}

func (it *interp) chkDef(r *region, off, n int) {
	if r.def == nil {
		return
	}
	for i := off; i < off+n; i++ {
		if !r.def[i] {
			if r.space == "threadgroup" {
				trapf("read of uninitialised threadgroup memory %s (byte offset %d)", r.name, i)
			}
			trapf("read of uninitialised variable %s (byte offset %d)", r.name, i)
		}
	}
}

// load reads the object designated by rf.
func (it *interp) load(rf *ref) Value {
	if rf.swz != nil {
		base := it.load(&ref{r: rf.r, off: rf.off, t: rf.t, ro: rf.ro})
		out := Value{T: it.u.tt.vector(rf.t.S, len(rf.swz), false), W: make([]uint64, len(rf.swz))}
		for i, j := range rf.swz {
			out.W[i] = base.W[j]
		}
		return out
	}
	t := rf.t
	r := rf.r
	switch t.Kind {
	case KScalar, KAtomic:
		it.access(r, rf.off, t.size, false)
		it.chkDef(r, rf.off, t.size)
		return Value{T: t, W: []uint64{getScalar(r.b[rf.off:], t.S)}}
	case KVector:
		es := t.S.size()
		it.access(r, rf.off, t.N*es, false)
		it.chkDef(r, rf.off, t.N*es)
		w := make([]uint64, t.N)
		for i := range w {
			w[i] = getScalar(r.b[rf.off+i*es:], t.S)
		}
		return Value{T: t, W: w}
	case KMatrix:
		es := t.S.size()
		w := make([]uint64, t.Cols*t.Rows)
		for c := 0; c < t.Cols; c++ {
			o := rf.off + c*t.Elem.size
			it.access(r, o, t.Rows*es, false)
			it.chkDef(r, o, t.Rows*es)
			for k := 0; k < t.Rows; k++ {
				w[c*t.Rows+k] = getScalar(r.b[o+k*es:], t.S)
			}
		}
		return Value{T: t, W: w}
	case KStruct, KArray:
		if t.Kind == KStruct && t.Struct.defaultConstructible {
			return Value{Lazy: true}
		}
		v := Value{T: t, B: make([]byte, t.size)}
		if r.def != nil {
			v.D = make([]bool, t.size)
		}
		walkLeaves(t, 0, func(o int, lt *Type) {
			n := leafBytes(lt)
			if lt.Kind == KPointer || lt.Kind == KOpaque {
				skipf("copy of an aggregate containing a %s", lt)
			}
			it.access(r, rf.off+o, n, false)
			copy(v.B[o:o+n], r.b[rf.off+o:])
			if v.D != nil {
				copy(v.D[o:o+n], r.def[rf.off+o:rf.off+o+n])
			}
		})
		if v.D != nil {
			all := true
			walkLeaves(t, 0, func(o int, lt *Type) {
				for i := o; i < o+leafBytes(lt); i++ {
					if !v.D[i] {
						all = false
					}
				}
			})
			if all {
				v.D = nil
			}
		}
		return v
	case KPointer:
		if m := it.ptrs[r]; m != nil {
			if p := m[rf.off]; p != nil {
				return Value{T: t, P: p}
			}
		}
		trapf("read of uninitialised pointer %s", r.name)
	case KOpaque:
		skipf("use of an object of opaque type %s", t)
	case KGeneric:
		skipf("use of an object of undeduced type")
	}
	skipf("cannot load a value of type %s", t)
	return Value{}
}

// store writes v (already converted to rf.t) to the object designated by rf.
func (it *interp) store(rf *ref, v Value) {
	r := rf.r
	if rf.ro || r.ro {
		skipf("store through a const access path to %s", r.describe())
	}
	if rf.swz != nil {
		es := rf.t.S.size()
		for i, j := range rf.swz {
			o := rf.off + j*es
			it.access(r, o, es, true)
			putScalar(r.b[o:], rf.t.S, v.W[i])
			markDef(r.def, o, es, true)
		}
		return
	}
	t := rf.t
	switch t.Kind {
	case KScalar, KAtomic:
		it.access(r, rf.off, t.size, true)
		putScalar(r.b[rf.off:], t.S, v.W[0])
		markDef(r.def, rf.off, t.size, true)
	case KVector:
		es := t.S.size()
		it.access(r, rf.off, t.N*es, true)
		for i := 0; i < t.N; i++ {
			putScalar(r.b[rf.off+i*es:], t.S, v.W[i])
		}
		markDef(r.def, rf.off, t.N*es, true)
	case KMatrix:
		es := t.S.size()
		for c := 0; c < t.Cols; c++ {
			o := rf.off + c*t.Elem.size
			it.access(r, o, t.Rows*es, true)
			for k := 0; k < t.Rows; k++ {
				putScalar(r.b[o+k*es:], t.S, v.W[c*t.Rows+k])
			}
			markDef(r.def, o, t.Rows*es, true)
		}
	case KStruct, KArray:
		if t.Kind == KStruct && t.Struct.defaultConstructible {
			return
		}
		walkLeaves(t, 0, func(o int, lt *Type) {
			n := leafBytes(lt)
			it.access(r, rf.off+o, n, true)
			copy(r.b[rf.off+o:rf.off+o+n], v.B[o:o+n])
			if r.def != nil {
				if v.D == nil {
					markDef(r.def, rf.off+o, n, true)
				} else {
					copy(r.def[rf.off+o:rf.off+o+n], v.D[o:o+n])
				}
			}
		})
	case KPointer:
		if it.ptrs[r] == nil {
			it.ptrs[r] = map[int]*ref{}
		}
		it.ptrs[r][rf.off] = v.P
		markDef(r.def, rf.off, t.size, true)
	default:
		skipf("cannot store a value of type %s", t)
	}
}

// ---------------------------------------------------------------------------
// statements

func (it *interp) execBlock(stmts []Stmt, fr *frame) ctl {
	for _, s := range stmts {
		if c := it.exec(s, fr); c != ctlNone {
			return c
		}
	}
	return ctlNone
}

func (it *interp) cond(e Expr, fr *frame) bool {
	v := it.eval(e, fr)
	if v.Lazy {
		return false
	}
	if v.T == nil || v.T.Kind != KScalar {
		skipf("%s: condition of type %s is not a scalar", e.pos(), v.T)
	}
	return convScalar(v.T.S, SBool, v.W[0]) != 0
}

func (it *interp) exec(s Stmt, fr *frame) ctl {
	it.step()
	switch x := s.(type) {
	case *Block:
		return it.execBlock(x.Stmts, fr)
	case *Empty:
		return ctlNone
	case *DeclStmt:
		for _, vd := range x.Vars {
			it.declareLocal(vd, fr)
		}
		return ctlNone
	case *ExprStmt:
		it.evalDiscard(x.X, fr)
		return ctlNone
	case *If:
		if it.cond(x.Cond, fr) {
			return it.exec(x.Then, fr)
		} else if x.Else != nil {
			return it.exec(x.Else, fr)
		}
		return ctlNone
	case *While:
		for {
			it.step()
			if !it.cond(x.Cond, fr) {
				return ctlNone
			}
			switch it.exec(x.Body, fr) {
			case ctlBreak:
				return ctlNone
			case ctlReturn:
				return ctlReturn
			}
		}
	case *DoWhile:
		for {
			it.step()
			switch it.exec(x.Body, fr) {
			case ctlBreak:
				return ctlNone
			case ctlReturn:
				return ctlReturn
			}
			if !it.cond(x.Cond, fr) {
				return ctlNone
			}
		}
	case *For:
		if x.Init != nil {
			if c := it.exec(x.Init, fr); c != ctlNone {
				return c
			}
		}
		for {
			it.step()
			if x.Cond != nil && !it.cond(x.Cond, fr) {
				return ctlNone
			}
			switch it.exec(x.Body, fr) {
			case ctlBreak:
				return ctlNone
			case ctlReturn:
				return ctlReturn
			}
			if x.Post != nil {
				it.evalDiscard(x.Post, fr)
			}
		}
	case *Break:
		return ctlBreak
	case *Continue:
		return ctlContinue
	case *Return:
		if x.X != nil {
			rt := fr.fn.retType
			if rt == nil || rt.Kind == KVoid {
				v := it.eval(x.X, fr)
				_ = v
				skipf("%s: return with a value in a void function", x.P)
			}
			fr.ret = it.evalInit(x.X, rt, fr, "return value")
		}
		return ctlReturn
	case *Switch:
		return it.execSwitch(x, fr)
	}
	skipf("%s: unsupported statement", s.spos())
	return ctlNone
}

func (it *interp) execSwitch(x *Switch, fr *frame) ctl {
	tag := it.eval(x.Tag, fr)
	if tag.T == nil || tag.T.Kind != KScalar || !(tag.T.S.isInt() || tag.T.S == SBool) {
		skipf("%s: switch on a value of type %s", x.P, tag.T)
	}
	k := promote(tag.T.S)
	tv := convScalar(tag.T.S, k, tag.W[0])
	start := -1
	def := -1
	for i, sec := range x.Sections {
		if sec.Default {
			def = i
		}
		for _, l := range sec.Labels {
			lv := it.eval(l, fr)
			if lv.T == nil || lv.T.Kind != KScalar {
				skipf("%s: case label is not a scalar constant", l.pos())
			}
			// the case value is converted to the promoted type of the condition
			if convScalar(lv.T.S, k, lv.W[0]) == tv {
				start = i
				break
			}
		}
		if start >= 0 {
			break
		}
	}
	if start < 0 {
		start = def
	}
	if start < 0 {
		return ctlNone
	}
	for i := start; i < len(x.Sections); i++ {
		switch it.execBlock(x.Sections[i].Body, fr) {
		case ctlBreak:
			return ctlNone
		case ctlContinue:
			return ctlContinue
		case ctlReturn:
			return ctlReturn
		}
	}
	return ctlNone
}

func (it *interp) declareLocal(vd *VarDecl, fr *frame) {
	t := vd.typ
	d := vd.decl
	if vd.Type.Ref || vd.Type.RRef {
		if vd.Init == nil {
			skipf("%s: reference %s without an initialiser", vd.P, vd.Name)
		}
		if it.isLvalueExpr(vd.Init) {
			fr.vars[d] = it.evalLValue(vd.Init, fr)
			return
		}
		v := it.eval(vd.Init, fr)
		fr.vars[d] = it.materialise(v, vd.Name)
		return
	}
	if t == nil {
		skipf("%s: variable %s has an unresolved type", vd.P, vd.Name)
	}
	if t.Kind == KOpaque {
		skipf("%s: local variable %s of opaque type %s", vd.P, vd.Name, t)
	}
	space := "thread"
	if vd.Type.Space == "threadgroup" {
		space = "threadgroup"
	}
	if t.Kind == KGeneric {
		if vd.Init == nil {
			skipf("%s: auto variable %s without an initialiser", vd.P, vd.Name)
		}
		v := it.eval(vd.Init, fr)
		if v.Lazy || v.T == nil {
			skipf("%s: cannot deduce the type of %s", vd.P, vd.Name)
		}
		v = it.unpackValue(v)
		fr.vars[d] = it.materialise(v, vd.Name)
		return
	}
	r := newRegion(vd.Name, space, t.size, false)
	rf := &ref{r: r, t: t}
	// the name is in scope in its own initialiser (C++ point of declaration)
	fr.vars[d] = rf
	switch {
	case vd.Init != nil:
		v := it.evalInit(vd.Init, t, fr, vd.Name)
		it.store(rf, v)
	case vd.HasCt:
		var args []Value
		for _, a := range vd.Ctor {
			args = append(args, it.eval(a, fr))
		}
		it.store(rf, it.construct(t, args, vd.P))
	default:
		// default-initialisation of a trivial type: indeterminate value
		if t.Kind == KStruct && t.Struct.defaultConstructible {
			r.def = nil
		}
	}
	if vd.Type.Const || vd.Type.Constexpr {
		rf.ro = true
	}
}

// materialise stores v in a fresh temporary and returns a ref to it.
func (it *interp) materialise(v Value, name string) *ref {
	if v.Lazy || v.T == nil {
		skipf("cannot materialise a DefaultConstructible() temporary of unknown type")
	}
	r := newRegion(name, "thread", v.T.size, false)
	rf := &ref{r: r, t: v.T}
	it.store(rf, v)
	return rf
}

func (it *interp) unpackValue(v Value) Value {
	if v.T != nil && v.T.Kind == KVector && v.T.Packed {
		return Value{T: it.u.tt.vector(v.T.S, v.T.N, false), W: v.W}
	}
	return v
}

// evalInit evaluates an initialiser for an object of type t (copy
// initialisation, or list initialisation for a bare brace list).
func (it *interp) evalInit(e Expr, t *Type, fr *frame, what string) Value {
	if il, ok := e.(*InitList); ok && il.T == nil {
		return it.buildFromList(t, il, fr)
	}
	v := it.eval(e, fr)
	return it.convert(v, t, false, e.pos())
}

// ---------------------------------------------------------------------------
// lvalues

func (it *interp) varRef(d *Decl, fr *frame, pos Pos) *ref {
	if fr != nil {
		if rf, ok := fr.vars[d]; ok {
			return rf
		}
	}
	if d.Kind == DeclGlobal {
		return it.globalRef(d)
	}
	skipf("%s: variable %s is not in scope at run time", pos, d.Name)
	return nil
}

func (it *interp) globalRef(d *Decl) *ref {
	if rf, ok := it.globals[d]; ok {
		return rf
	}
	if it.globalsB[d] {
		skipf("global %s depends on itself", d.Name)
	}
	it.globalsB[d] = true
	defer delete(it.globalsB, d)
	vd := d.vd
	t := vd.typ
	if t == nil || t.Kind == KOpaque || t.Kind == KGeneric {
		skipf("%s: global %s of unsupported type %s", vd.P, vd.Name, t)
	}
	if vd.Init == nil && !vd.HasCt {
		skipf("%s: global %s has no initialiser", vd.P, vd.Name)
	}
	r := newRegion(vd.Name, "constant", t.size, false)
	rf := &ref{r: r, t: t}
	gfr := &frame{vars: map[*Decl]*ref{}}
	if vd.HasCt {
		var args []Value
		for _, a := range vd.Ctor {
			args = append(args, it.eval(a, gfr))
		}
		it.store(rf, it.construct(t, args, vd.P))
	} else {
		it.store(rf, it.evalInit(vd.Init, t, gfr, vd.Name))
	}
	r.ro = true
	it.globals[d] = rf
	return rf
}

func stripParens(e Expr) Expr {
	for {
		p, ok := e.(*Paren)
		if !ok {
			return e
		}
		e = p.X
	}
}

// isLvalueExpr reports whether e designates an object in memory.
func (it *interp) isLvalueExpr(e Expr) bool {
	switch x := stripParens(e).(type) {
	case *Ident:
		return x.Decl != nil && (x.Decl.Kind == DeclGlobal || x.Decl.Kind == DeclLocal || x.Decl.Kind == DeclParam)
	case *Member:
		if x.Arrow {
			return true
		}
		return it.isLvalueExpr(x.X)
	case *Index:
		if it.isLvalueExpr(x.X) {
			return true
		}
		if t := it.u.etype[x.X]; t != nil && t.Kind == KPointer {
			return true
		}
		return false
	case *Unary:
		return x.Op == "*" || x.Op == "++" || x.Op == "--"
	case *Assign:
		return true
	case *Cond:
		// cond ? lvalue : lvalue of one type is an lvalue
		if it.isLvalueExpr(x.T) && it.isLvalueExpr(x.F) {
			a, b := it.u.etype[x.T], it.u.etype[x.F]
			return a != nil && a == b
		}
	}
	return false
}

func (it *interp) indexValue(e Expr, fr *frame) int64 {
	v := it.eval(e, fr)
	if v.Lazy || v.T == nil || v.T.Kind != KScalar || !(v.T.S.isInt() || v.T.S == SBool) {
		skipf("%s: subscript of type %s", e.pos(), v.T)
	}
	if v.T.S.isSigned() {
		return int64(v.W[0])
	}
	if v.W[0] > 1<<62 {
		return 1 << 62
	}
	return int64(v.W[0])
}

// arrayBound is the number of elements that may be indexed in the array
// object designated by rf.
func arrayBound(rf *ref) int {
	t := rf.t
	if t.Flexible && rf.r.bound {
		n := (len(rf.r.b) - rf.off) / t.Elem.size
		if n < 0 {
			n = 0
		}
		return n
	}
	return t.N
}

func (it *interp) evalLValue(e Expr, fr *frame) *ref {
	switch x := e.(type) {
	case *Paren:
		return it.evalLValue(x.X, fr)
	case *Ident:
		if x.Decl == nil {
			skipf("%s: %q does not name an object", x.P, x.Name)
		}
		switch x.Decl.Kind {
		case DeclGlobal, DeclLocal, DeclParam:
			return it.varRef(x.Decl, fr, x.P)
		}
		skipf("%s: %q does not name an object", x.P, x.Name)
	case *Member:
		var base *ref
		if x.Arrow {
			pv := it.eval(x.X, fr)
			if pv.T == nil || pv.T.Kind != KPointer || pv.P == nil {
				skipf("%s: -> applied to a non-pointer", x.P)
			}
			base = pv.P
		} else {
			base = it.evalLValue(x.X, fr)
		}
		return it.memberRef(base, x)
	case *Index:
		if !it.isLvalueExpr(x.X) {
			// pointer rvalue
			pv := it.eval(x.X, fr)
			if pv.T != nil && pv.T.Kind == KPointer && pv.P != nil {
				i := it.indexValue(x.I, fr)
				return &ref{r: pv.P.r, off: pv.P.off + int(i)*pv.T.Elem.size, t: pv.T.Elem, ro: pv.P.ro}
			}
			skipf("%s: subscript of a non-lvalue", x.P)
		}
		base := it.evalLValue(x.X, fr)
		i := it.indexValue(x.I, fr)
		if base.swz != nil {
			if i < 0 || i >= int64(len(base.swz)) {
				trapf("%s: vector component index %d out of range [0,%d) in %s", x.P, i, len(base.swz), base.r.describe())
			}
			return &ref{r: base.r, off: base.off + base.swz[i]*base.t.S.size(), t: it.u.tt.scalar(base.t.S), ro: base.ro}
		}
		return it.indexRef(base, i, x.P)
	case *Unary:
		switch x.Op {
		case "*":
			pv := it.eval(x.X, fr)
			if pv.T == nil || pv.T.Kind != KPointer || pv.P == nil {
				skipf("%s: unary * applied to a non-pointer", x.P)
			}
			return pv.P
		case "++", "--":
			rf := it.evalLValue(x.X, fr)
			it.incdec(rf, x.Op, x.P)
			return rf
		}
	case *Assign:
		return it.assign(x, fr)
	case *Cond:
		if it.isLvalueExpr(e) {
			if it.cond(x.C, fr) {
				return it.evalLValue(x.T, fr)
			}
			return it.evalLValue(x.F, fr)
		}
	}
	skipf("%s: expression is not an lvalue", e.pos())
	return nil
}

func (it *interp) indexRef(base *ref, i int64, pos Pos) *ref {
	t := base.t
	switch t.Kind {
	case KArray:
		n := arrayBound(base)
		if i < 0 || i >= int64(n) {
			if t.Flexible && base.r.bound {
				trapf("%s: index %d beyond the runtime array's real length %d in %s (bound length %d bytes)", pos, i, n, base.r.describe(), len(base.r.b))
			}
			trapf("%s: array index %d out of range [0,%d) in %s", pos, i, n, base.r.describe())
		}
		return &ref{r: base.r, off: base.off + int(i)*t.Elem.size, t: t.Elem, ro: base.ro}
	case KVector:
		if i < 0 || i >= int64(t.N) {
			trapf("%s: vector component index %d out of range [0,%d) in %s", pos, i, t.N, base.r.describe())
		}
		return &ref{r: base.r, off: base.off + int(i)*t.S.size(), t: it.u.tt.scalar(t.S), ro: base.ro}
	case KMatrix:
		if i < 0 || i >= int64(t.Cols) {
			trapf("%s: matrix column index %d out of range [0,%d) in %s", pos, i, t.Cols, base.r.describe())
		}
		return &ref{r: base.r, off: base.off + int(i)*t.Elem.size, t: t.Elem, ro: base.ro}
	case KPointer:
		pv := it.load(base)
		return &ref{r: pv.P.r, off: pv.P.off + int(i)*t.Elem.size, t: t.Elem, ro: pv.P.ro}
	}
	skipf("%s: subscript of a value of type %s", pos, t)
	return nil
}

func (it *interp) memberRef(base *ref, x *Member) *ref {
	if base.swz != nil {
		// swizzle of a swizzle: compose the component selections
		idx := swizzleIndices(x.Name, len(base.swz))
		if idx == nil {
			skipf("%s: bad vector component selector .%s", x.P, x.Name)
		}
		if len(idx) == 1 {
			return &ref{r: base.r, off: base.off + base.swz[idx[0]]*base.t.S.size(), t: it.u.tt.scalar(base.t.S), ro: base.ro}
		}
		out := &ref{r: base.r, off: base.off, t: base.t, ro: base.ro}
		for _, i := range idx {
			out.swz = append(out.swz, base.swz[i])
		}
		return out
	}
	t := base.t
	switch t.Kind {
	case KStruct:
		mi := t.Struct.byName[x.Name]
		if mi == nil {
			skipf("%s: no member %s in struct %s", x.P, x.Name, t.Name)
		}
		return &ref{r: base.r, off: base.off + mi.Offset, t: mi.T, ro: base.ro}
	case KVector:
		idx := swizzleIndices(x.Name, t.N)
		if idx == nil {
			skipf("%s: bad vector component selector .%s on %s", x.P, x.Name, t)
		}
		if len(idx) == 1 {
			return &ref{r: base.r, off: base.off + idx[0]*t.S.size(), t: it.u.tt.scalar(t.S), ro: base.ro}
		}
		return &ref{r: base.r, off: base.off, t: t, ro: base.ro, swz: idx}
	}
	skipf("%s: member access .%s on a value of type %s", x.P, x.Name, t)
	return nil
}

// ---------------------------------------------------------------------------
// expressions

func (it *interp) evalDiscard(e Expr, fr *frame) {
	switch x := e.(type) {
	case *Assign:
		it.assign(x, fr)
		return
	case *Postfix:
		rf := it.evalLValue(x.X, fr)
		it.incdec(rf, x.Op, x.P)
		return
	case *Call:
		it.call(x, fr, true)
		return
	}
	it.eval(e, fr)
}

func (it *interp) incdec(rf *ref, op string, pos Pos) Value {
	old := it.load(rf)
	if old.T.Kind != KScalar && old.T.Kind != KVector {
		skipf("%s: %s applied to a value of type %s", pos, op, old.T)
	}
	one := Value{T: it.u.tt.scalar(SInt), W: []uint64{1}}
	bop := "+"
	if op == "--" {
		bop = "-"
	}
	nv := it.binop(bop, old, one, pos)
	it.store(rf, it.convert(nv, rf.t, true, pos))
	return old
}

func (it *interp) assign(x *Assign, fr *frame) *ref {
	if x.Op == "=" {
		if il, ok := x.R.(*InitList); ok && il.T == nil {
			lv := it.evalLValue(x.L, fr)
			t := lv.t
			if lv.swz != nil {
				t = it.u.tt.vector(t.S, len(lv.swz), false)
			}
			it.store(lv, it.buildFromList(t, il, fr))
			return lv
		}
		v := it.eval(x.R, fr)
		lv := it.evalLValue(x.L, fr)
		t := lv.t
		if lv.swz != nil {
			t = it.u.tt.vector(t.S, len(lv.swz), false)
		}
		it.store(lv, it.convert(v, t, false, x.P))
		return lv
	}
	r := it.eval(x.R, fr)
	lv := it.evalLValue(x.L, fr)
	old := it.load(lv)
	op := strings.TrimSuffix(x.Op, "=")
	nv := it.binop(op, old, r, x.P)
	t := lv.t
	if lv.swz != nil {
		t = it.u.tt.vector(t.S, len(lv.swz), false)
	}
	// E1 op= E2 behaves as E1 = static_cast<T1>(E1 op E2)
	it.store(lv, it.convert(nv, t, true, x.P))
	return lv
}

func (it *interp) eval(e Expr, fr *frame) Value {
	tt := it.u.tt
	switch x := e.(type) {
	case *IntLit:
		switch {
		case x.Long && x.Unsigned:
			return scalarValue(tt.scalar(SULong), x.Val)
		case x.Long:
			return scalarValue(tt.scalar(SLong), x.Val)
		case x.Unsigned:
			return scalarValue(tt.scalar(SUInt), x.Val)
		}
		return scalarValue(tt.scalar(SInt), x.Val)
	case *FloatLit:
		if x.Half {
			return scalarValue(tt.scalar(SHalf), uint64(x.Bits))
		}
		return scalarValue(tt.scalar(SFloat), uint64(x.Bits))
	case *BoolLit:
		if x.Val {
			return scalarValue(tt.scalar(SBool), 1)
		}
		return scalarValue(tt.scalar(SBool), 0)
	case *StringLit:
		skipf("%s: string literal", x.P)
	case *Paren:
		return it.eval(x.X, fr)
	case *Comma:
		it.evalDiscard(x.L, fr)
		return it.eval(x.R, fr)
	case *Ident:
		if x.Decl == nil {
			if strings.HasPrefix(x.Name, "metal::") {
				// enumerators such as metal::memory_order_relaxed
				return Value{T: tt.opaque("enum " + x.Name)}
			}
			skipf("%s: use of undeclared identifier %q", x.P, x.Name)
		}
		switch x.Decl.Kind {
		case DeclGlobal, DeclLocal, DeclParam:
			return it.load(it.varRef(x.Decl, fr, x.P))
		}
		skipf("%s: %q used as a value", x.P, x.Name)
	case *Member, *Index:
		if it.isLvalueExpr(e) {
			return it.load(it.evalLValue(e, fr))
		}
		if m, ok := e.(*Member); ok {
			return it.memberOfValue(it.eval(m.X, fr), m)
		}
		ix := e.(*Index)
		base := it.eval(ix.X, fr)
		i := it.indexValue(ix.I, fr)
		return it.indexOfValue(base, i, ix.P)
	case *Unary:
		switch x.Op {
		case "&":
			rf := it.evalLValue(x.X, fr)
			if rf.swz != nil {
				skipf("%s: address of a swizzle", x.P)
			}
			return Value{T: tt.pointer(rf.t, rf.r.space, rf.ro), P: rf}
		case "*":
			return it.load(it.evalLValue(e, fr))
		case "++", "--":
			rf := it.evalLValue(x.X, fr)
			it.incdec(rf, x.Op, x.P)
			return it.load(rf)
		}
		return it.unop(x.Op, it.eval(x.X, fr), x.P)
	case *Postfix:
		rf := it.evalLValue(x.X, fr)
		return it.incdec(rf, x.Op, x.P)
	case *Binary:
		switch x.Op {
		case "&&", "||":
			l := it.eval(x.L, fr)
			if l.T != nil && l.T.Kind == KVector {
				// MSL: on vectors the logical operators work component-wise
				// and evaluate both operands.
				r := it.eval(x.R, fr)
				return it.vectorLogical(x.Op, l, r, x.P)
			}
			if l.T == nil || l.T.Kind != KScalar {
				skipf("%s: operand of %s has type %s (only scalars are supported)", x.P, x.Op, l.T)
			}
			lb := convScalar(l.T.S, SBool, l.W[0]) != 0
			if (x.Op == "&&" && !lb) || (x.Op == "||" && lb) {
				return scalarValue(tt.scalar(SBool), b2u(lb))
			}
			r := it.eval(x.R, fr)
			if r.T != nil && r.T.Kind == KVector {
				return it.vectorLogical(x.Op, l, r, x.P)
			}
			if r.T == nil || r.T.Kind != KScalar {
				skipf("%s: operand of %s has type %s (only scalars are supported)", x.P, x.Op, r.T)
			}
			return scalarValue(tt.scalar(SBool), convScalar(r.T.S, SBool, r.W[0]))
		}
		l := it.eval(x.L, fr)
		r := it.eval(x.R, fr)
		return it.binop(x.Op, l, r, x.P)
	case *Assign:
		return it.load(it.assign(x, fr))
	case *Cond:
		var v Value
		if it.cond(x.C, fr) {
			v = it.eval(x.T, fr)
		} else {
			v = it.eval(x.F, fr)
		}
		st := it.u.etype[e]
		if v.Lazy {
			if st != nil && st.Kind != KGeneric {
				return zeroValue(st)
			}
			return v
		}
		if st != nil && v.T != nil && st != v.T && (st.Kind == KScalar || st.Kind == KVector) && (v.T.Kind == KScalar || v.T.Kind == KVector) {
			return it.convert(v, st, false, x.P)
		}
		return v
	case *Call:
		return it.call(x, fr, false)
	case *MethodCall:
		skipf("%s: member function call .%s() is not supported", x.P, x.Name)
	case *Cast:
		t := it.typeOfExpr(x.T)
		v := it.eval(x.X, fr)
		switch x.Kind {
		case "static_cast", "c":
			return it.convert(v, t, true, x.P)
		case "as_type":
			return it.asType(v, t, x.P)
		}
		skipf("%s: %s is not supported", x.P, x.Kind)
	case *Construct:
		t := it.typeOfExpr(x.T)
		if t.Kind == KStruct && t.Struct.defaultConstructible && len(x.Args) == 0 {
			return Value{Lazy: true}
		}
		args := make([]Value, len(x.Args))
		for i, a := range x.Args {
			args[i] = it.eval(a, fr)
		}
		return it.construct(t, args, x.P)
	case *InitList:
		if x.T == nil {
			skipf("%s: brace list without a target type", x.P)
		}
		t := it.typeOfExpr(x.T)
		if t.Kind == KStruct && t.Struct.defaultConstructible {
			return Value{Lazy: true}
		}
		return it.buildFromList(t, x, fr)
	}
	skipf("%s: unsupported expression", e.pos())
	return Value{}
}

// vectorLogical evaluates && / || with at least one vector operand:
// component-wise, result boolN.
func (it *interp) vectorLogical(op string, l, r Value, pos Pos) Value {
	ok := func(v Value) bool {
		return !v.Lazy && v.T != nil && (v.T.Kind == KScalar || v.T.Kind == KVector)
	}
	if !ok(l) || !ok(r) {
		skipf("%s: operands of %s have types %s and %s", pos, op, l.T, r.T)
	}
	n := 0
	for _, v := range []Value{l, r} {
		if v.T.Kind == KVector {
			if n != 0 && n != v.T.N {
				skipf("%s: operands of %s have different vector sizes", pos, op)
			}
			n = v.T.N
		}
	}
	out := Value{T: it.u.tt.vector(SBool, n, false), W: make([]uint64, n)}
	for i := range out.W {
		a, b := l.W[0], r.W[0]
		if l.T.Kind == KVector {
			a = l.W[i]
		}
		if r.T.Kind == KVector {
			b = r.W[i]
		}
		a = convScalar(l.T.S, SBool, a)
		b = convScalar(r.T.S, SBool, b)
		if op == "&&" {
			out.W[i] = a & b
		} else {
			out.W[i] = a | b
		}
	}
	return out
}

func b2u(b bool) uint64 {
	if b {
		return 1
	}
	return 0
}

func (it *interp) typeOfExpr(te *TypeExpr) *Type {
	t := te.T
	if t == nil {
		skipf("%s: unresolved type %s", te.Pos, te.Name)
	}
	for i := 0; i < te.Ptr; i++ {
		t = it.u.tt.pointer(t, te.Space, te.Const)
	}
	return t
}

func (it *interp) memberOfValue(v Value, m *Member) Value {
	if v.Lazy || v.T == nil {
		skipf("%s: member of a DefaultConstructible() value", m.P)
	}
	if m.Arrow {
		if v.T.Kind != KPointer || v.P == nil {
			skipf("%s: -> applied to a non-pointer", m.P)
		}
		return it.load(it.memberRef(v.P, m))
	}
	switch v.T.Kind {
	case KStruct:
		mi := v.T.Struct.byName[m.Name]
		if mi == nil {
			skipf("%s: no member %s in struct %s", m.P, m.Name, v.T.Name)
		}
		return decodeFrom(v.B, v.D, mi.Offset, mi.T, v.T.Name+"."+m.Name)
	case KVector:
		idx := swizzleIndices(m.Name, v.T.N)
		if idx == nil {
			skipf("%s: bad vector component selector .%s on %s", m.P, m.Name, v.T)
		}
		if len(idx) == 1 {
			return scalarValue(it.u.tt.scalar(v.T.S), v.W[idx[0]])
		}
		out := Value{T: it.u.tt.vector(v.T.S, len(idx), false), W: make([]uint64, len(idx))}
		for i, j := range idx {
			out.W[i] = v.W[j]
		}
		return out
	}
	skipf("%s: member access .%s on a value of type %s", m.P, m.Name, v.T)
	return Value{}
}

func (it *interp) indexOfValue(v Value, i int64, pos Pos) Value {
	if v.Lazy || v.T == nil {
		skipf("%s: subscript of a DefaultConstructible() value", pos)
	}
	t := v.T
	switch t.Kind {
	case KArray:
		if i < 0 || i >= int64(t.N) {
			trapf("%s: array index %d out of range [0,%d)", pos, i, t.N)
		}
		return decodeFrom(v.B, v.D, int(i)*t.Elem.size, t.Elem, "array element")
	case KVector:
		if i < 0 || i >= int64(t.N) {
			trapf("%s: vector component index %d out of range [0,%d)", pos, i, t.N)
		}
		return scalarValue(it.u.tt.scalar(t.S), v.W[i])
	case KMatrix:
		if i < 0 || i >= int64(t.Cols) {
			trapf("%s: matrix column index %d out of range [0,%d)", pos, i, t.Cols)
		}
		return Value{T: t.Elem, W: append([]uint64(nil), v.W[int(i)*t.Rows:int(i+1)*t.Rows]...)}
	case KPointer:
		return it.load(&ref{r: v.P.r, off: v.P.off + int(i)*t.Elem.size, t: t.Elem, ro: v.P.ro})
	}
	skipf("%s: subscript of a value of type %s", pos, t)
	return Value{}
}

// ---------------------------------------------------------------------------
// operators

func (it *interp) unop(op string, v Value, pos Pos) Value {
	tt := it.u.tt
	if v.Lazy || v.T == nil {
		skipf("%s: unary %s applied to a DefaultConstructible() value", pos, op)
	}
	t := v.T
	if !t.isNumeric() {
		skipf("%s: unary %s applied to a value of type %s", pos, op, t)
	}
	k := t.S
	rk := k
	if t.Kind == KScalar {
		rk = promote(k)
	}
	out := Value{W: make([]uint64, len(v.W))}
	switch op {
	case "!":
		if t.Kind == KMatrix {
			skipf("%s: ! applied to a matrix", pos)
		}
		for i, w := range v.W {
			out.W[i] = 1 - convScalar(k, SBool, w)
		}
		if t.Kind == KVector {
			out.T = tt.vector(SBool, t.N, false)
		} else {
			out.T = tt.scalar(SBool)
		}
		return out
	case "+":
		for i, w := range v.W {
			out.W[i] = convScalar(k, rk, w)
		}
	case "-":
		for i, w := range v.W {
			w = convScalar(k, rk, w)
			switch {
			case rk.isFloat():
				out.W[i] = w ^ 0x80000000
			case rk.isSigned():
				lo, _ := signedRange(rk)
				if int64(w) == lo {
					trapf("%s: signed integer overflow: -(%d) (%s)", pos, lo, rk)
				}
				out.W[i] = uint64(-int64(w))
			case rk == SBool:
				skipf("%s: unary - on a bool vector", pos)
			default:
				out.W[i] = normInt(rk, -w)
			}
		}
	case "~":
		if !rk.isInt() {
			skipf("%s: ~ applied to a value of type %s", pos, t)
		}
		for i, w := range v.W {
			out.W[i] = normInt(rk, ^convScalar(k, rk, w))
		}
	default:
		skipf("%s: unsupported unary operator %s", pos, op)
	}
	switch t.Kind {
	case KScalar:
		out.T = tt.scalar(rk)
	case KVector:
		out.T = tt.vector(rk, t.N, false)
	default:
		out.T = t
	}
	return out
}

func (it *interp) binop(op string, l, r Value, pos Pos) Value {
	tt := it.u.tt
	if l.Lazy && r.Lazy {
		skipf("%s: both operands of %s are DefaultConstructible()", pos, op)
	}
	if l.Lazy {
		l = zeroValue(r.T)
	}
	if r.Lazy {
		r = zeroValue(l.T)
	}
	if l.T == nil || r.T == nil || !l.T.isNumeric() || !r.T.isNumeric() {
		skipf("%s: operator %s on operands of type %s and %s", pos, op, l.T, r.T)
	}
	if l.T.Kind == KMatrix || r.T.Kind == KMatrix {
		return it.matrixOp(op, l, r, pos)
	}
	rt := tt.binaryType(op, l.T, r.T)
	if rt == nil {
		skipf("%s: operator %s on operands of type %s and %s", pos, op, l.T, r.T)
	}
	// operation kind
	var k ScalarKind
	shift := op == "<<" || op == ">>"
	switch {
	case l.T.Kind == KVector && r.T.Kind == KVector:
		if l.T.S != r.T.S {
			if !shift || !(l.T.S.isInt() && r.T.S.isInt()) {
				skipf("%s: operator %s on vectors of different element types %s and %s", pos, op, l.T, r.T)
			}
		}
		k = l.T.S
	case l.T.Kind == KVector:
		k = l.T.S
	case r.T.Kind == KVector:
		k = r.T.S
		if shift {
			k = promote(l.T.S)
		}
	default:
		if shift {
			k = promote(l.T.S)
		} else {
			k = commonScalar(l.T.S, r.T.S)
		}
	}
	if shift && (!k.isInt() || !(r.T.S.isInt() || r.T.S == SBool)) {
		skipf("%s: shift on operands of type %s and %s", pos, l.T, r.T)
	}
	n := 1
	if rt.Kind == KVector {
		n = rt.N
	}
	out := Value{T: rt, W: make([]uint64, n)}
	for i := 0; i < n; i++ {
		lw := l.W[0]
		if l.T.Kind == KVector {
			lw = l.W[i]
		}
		rw := r.W[0]
		if r.T.Kind == KVector {
			rw = r.W[i]
		}
		lw = convScalar(l.T.S, k, lw)
		if !shift {
			rw = convScalar(r.T.S, k, rw)
		}
		out.W[i] = scalarBin(op, k, lw, rw)
	}
	return out
}

func (it *interp) matrixOp(op string, l, r Value, pos Pos) Value {
	tt := it.u.tt
	rt := tt.binaryType(op, unpack(tt, l.T), unpack(tt, r.T))
	if rt == nil {
		skipf("%s: operator %s on operands of type %s and %s", pos, op, l.T, r.T)
	}
	fk := func(t *Type) {
		if t.S != SFloat && t.S != SHalf {
			skipf("%s: matrix arithmetic on %s", pos, t)
		}
	}
	fk(l.T)
	rnd := func(f float32) uint64 {
		if rt.S == SHalf {
			f = roundHalf(f)
		}
		return wf32(f)
	}
	out := Value{T: rt, W: make([]uint64, rt.ncomp())}
	switch {
	case l.T.Kind == KMatrix && r.T.Kind == KMatrix && op == "*":
		// (R x K) * (K x C): result column c, row j = sum_k l[k][j] * r[c][k]
		fk(r.T)
		if l.T.S != r.T.S {
			skipf("%s: matrix product of %s and %s", pos, l.T, r.T)
		}
		K := l.T.Cols
		for c := 0; c < r.T.Cols; c++ {
			for j := 0; j < l.T.Rows; j++ {
				var acc float32
				for k := 0; k < K; k++ {
					p := float32(f32(l.W[k*l.T.Rows+j]) * f32(r.W[c*r.T.Rows+k]))
					if k == 0 {
						acc = p
					} else {
						acc = acc + p
					}
				}
				out.W[c*l.T.Rows+j] = rnd(acc)
			}
		}
	case l.T.Kind == KMatrix && r.T.Kind == KMatrix:
		if op != "+" && op != "-" {
			skipf("%s: operator %s on two matrices", pos, op)
		}
		for i := range out.W {
			out.W[i] = scalarBin(op, rt.S, l.W[i], r.W[i])
		}
	case l.T.Kind == KMatrix && r.T.Kind == KVector:
		// m * v: result row j = sum_c m[c][j] * v[c]
		if r.T.S != l.T.S {
			skipf("%s: product of %s and %s", pos, l.T, r.T)
		}
		for j := 0; j < l.T.Rows; j++ {
			var acc float32
			for c := 0; c < l.T.Cols; c++ {
				p := float32(f32(l.W[c*l.T.Rows+j]) * f32(r.W[c]))
				if c == 0 {
					acc = p
				} else {
					acc = acc + p
				}
			}
			out.W[j] = rnd(acc)
		}
	case l.T.Kind == KVector && r.T.Kind == KMatrix:
		// v * m: result component c = dot(v, m[c])
		fk(r.T)
		if r.T.S != l.T.S {
			skipf("%s: product of %s and %s", pos, l.T, r.T)
		}
		for c := 0; c < r.T.Cols; c++ {
			var acc float32
			for j := 0; j < r.T.Rows; j++ {
				p := float32(f32(l.W[j]) * f32(r.W[c*r.T.Rows+j]))
				if j == 0 {
					acc = p
				} else {
					acc = acc + p
				}
			}
			out.W[c] = rnd(acc)
		}
	case l.T.Kind == KMatrix && r.T.Kind == KScalar:
		if op != "*" && op != "/" {
			skipf("%s: operator %s on a matrix and a scalar", pos, op)
		}
		s := convScalar(r.T.S, l.T.S, r.W[0])
		for i := range out.W {
			out.W[i] = scalarBin(op, l.T.S, l.W[i], s)
		}
	case l.T.Kind == KScalar && r.T.Kind == KMatrix:
		fk(r.T)
		if op != "*" {
			skipf("%s: operator %s on a scalar and a matrix", pos, op)
		}
		s := convScalar(l.T.S, r.T.S, l.W[0])
		for i := range out.W {
			out.W[i] = scalarBin(op, r.T.S, s, r.W[i])
		}
	default:
		skipf("%s: operator %s on operands of type %s and %s", pos, op, l.T, r.T)
	}
	return out
}

// ---------------------------------------------------------------------------
// conversions and construction

// convert applies an implicit (explicit=false) or explicit conversion.
func (it *interp) convert(v Value, to *Type, explicit bool, pos Pos) Value {
	tt := it.u.tt
	if to == nil {
		skipf("%s: conversion to an unresolved type", pos)
	}
	if to.Kind == KGeneric {
		return v
	}
	if v.Lazy {
		if to.Kind == KStruct && to.Struct.defaultConstructible {
			return v
		}
		return zeroValue(to)
	}
	from := v.T
	if from == nil {
		skipf("%s: conversion of a value without a type", pos)
	}
	if from == to {
		return v
	}
	switch to.Kind {
	case KScalar:
		if from.Kind == KScalar {
			return scalarValue(to, convScalar(from.S, to.S, v.W[0]))
		}
	case KVector:
		switch from.Kind {
		case KScalar:
			out := Value{T: to, W: make([]uint64, to.N)}
			w := convScalar(from.S, to.S, v.W[0])
			for i := range out.W {
				out.W[i] = w
			}
			return out
		case KVector:
			if from.N != to.N {
				break
			}
			if from.S != to.S && !explicit {
				skipf("%s: no implicit conversion from %s to %s", pos, from, to)
			}
			out := Value{T: to, W: make([]uint64, to.N)}
			for i := range out.W {
				out.W[i] = convScalar(from.S, to.S, v.W[i])
			}
			return out
		}
	case KMatrix:
		if from.Kind == KMatrix && from.Cols == to.Cols && from.Rows == to.Rows && explicit {
			out := Value{T: to, W: make([]uint64, len(v.W))}
			for i := range out.W {
				out.W[i] = convScalar(from.S, to.S, v.W[i])
			}
			return out
		}
	case KPointer:
		if from.Kind == KPointer && (from.Elem == to.Elem || to.Elem.Kind == KGeneric) {
			return Value{T: to, P: v.P}
		}
	case KOpaque:
		if from.Kind == KOpaque {
			return v
		}
	}
	_ = tt
	skipf("%s: cannot convert a value of type %s to %s", pos, from, to)
	return Value{}
}

func (it *interp) asType(v Value, to *Type, pos Pos) Value {
	if v.Lazy || v.T == nil {
		skipf("%s: as_type of a DefaultConstructible() value", pos)
	}
	from := v.T
	ok := func(t *Type) bool { return t.Kind == KScalar || t.Kind == KVector }
	if !ok(from) || !ok(to) {
		skipf("%s: as_type between %s and %s", pos, from, to)
	}
	fs := from.ncomp() * from.S.size()
	ts := to.ncomp() * to.S.size()
	// Metal: as_type requires equal sizes; sizeof(vec3) == sizeof(vec4).
	if from.size != to.size || fs != ts {
		skipf("%s: as_type between types of different size (%s, %s)", pos, from, to)
	}
	if from.S == SBool || to.S == SBool {
		skipf("%s: as_type on bool", pos)
	}
	buf := make([]byte, fs)
	es := from.S.size()
	for i, w := range v.W {
		putScalar(buf[i*es:], from.S, w)
	}
	out := Value{T: to, W: make([]uint64, to.ncomp())}
	es = to.S.size()
	for i := range out.W {
		out.W[i] = getScalar(buf[i*es:], to.S)
	}
	return out
}

// construct evaluates the functional cast / constructor call T(args).
func (it *interp) construct(t *Type, args []Value, pos Pos) Value {
	for i, a := range args {
		if a.Lazy {
			skipf("%s: DefaultConstructible() as constructor argument %d of %s", pos, i, t)
		}
	}
	switch t.Kind {
	case KScalar:
		switch len(args) {
		case 0:
			return zeroValue(t)
		case 1:
			return it.convert(args[0], t, true, pos)
		}
	case KVector:
		if len(args) == 0 {
			return zeroValue(t)
		}
		if len(args) == 1 {
			a := args[0]
			if a.T.Kind == KScalar || (a.T.Kind == KVector && a.T.N == t.N) {
				return it.convert(a, t, true, pos)
			}
		}
		out := Value{T: t, W: make([]uint64, 0, t.N)}
		for _, a := range args {
			if a.T == nil || !(a.T.Kind == KScalar || a.T.Kind == KVector) {
				skipf("%s: constructor argument of type %s for %s", pos, a.T, t)
			}
			for _, w := range a.W {
				out.W = append(out.W, convScalar(a.T.S, t.S, w))
			}
		}
		if len(out.W) != t.N {
			skipf("%s: %s constructed from %d components", pos, t, len(out.W))
		}
		return out
	case KMatrix:
		if len(args) == 0 {
			return zeroValue(t)
		}
		out := Value{T: t, W: make([]uint64, 0, t.Cols*t.Rows)}
		if len(args) == 1 && args[0].T.Kind == KScalar {
			// a single scalar initialises the diagonal
			out.W = make([]uint64, t.Cols*t.Rows)
			w := convScalar(args[0].T.S, t.S, args[0].W[0])
			for c := 0; c < t.Cols && c < t.Rows; c++ {
				out.W[c*t.Rows+c] = w
			}
			return out
		}
		if len(args) == 1 && args[0].T.Kind == KMatrix {
			return it.convert(args[0], t, true, pos)
		}
		allVec := true
		for _, a := range args {
			if a.T == nil || a.T.Kind != KVector || a.T.N != t.Rows {
				allVec = false
			}
		}
		if allVec && len(args) == t.Cols {
			for _, a := range args {
				for _, w := range a.W {
					out.W = append(out.W, convScalar(a.T.S, t.S, w))
				}
			}
			return out
		}
		allScalar := true
		for _, a := range args {
			if a.T == nil || a.T.Kind != KScalar {
				allScalar = false
			}
		}
		if allScalar && len(args) == t.Cols*t.Rows {
			for _, a := range args {
				out.W = append(out.W, convScalar(a.T.S, t.S, a.W[0]))
			}
			return out
		}
		skipf("%s: unsupported constructor arguments for %s", pos, t)
	case KStruct:
		if len(args) == 0 {
			return zeroValue(t)
		}
		if len(args) == 1 && args[0].T == t {
			return args[0]
		}
	case KArray:
		if len(args) == 0 {
			return zeroValue(t)
		}
	}
	skipf("%s: unsupported construction of %s from %d arguments", pos, t, len(args))
	return Value{}
}

// buildFromList implements list-initialisation T{...} including aggregate
// initialisation with brace elision.
func (it *interp) buildFromList(t *Type, il *InitList, fr *frame) Value {
	if t == nil {
		skipf("%s: brace list for an unresolved type", il.P)
	}
	if il.Names != nil {
		skipf("%s: designated initialisers are not supported", il.P)
	}
	switch t.Kind {
	case KGeneric:
		if len(il.Elems) == 0 {
			return Value{Lazy: true}
		}
		skipf("%s: brace list for an undeduced type", il.P)
	case KScalar, KVector, KMatrix:
		if len(il.Elems) == 0 {
			return zeroValue(t)
		}
		args := make([]Value, len(il.Elems))
		for i, e := range il.Elems {
			if sub, ok := e.(*InitList); ok && sub.T == nil {
				skipf("%s: nested brace list initialising %s", sub.P, t)
			}
			args[i] = it.eval(e, fr)
		}
		if t.Kind == KScalar {
			if len(args) != 1 {
				skipf("%s: scalar initialised from %d values", il.P, len(args))
			}
			return it.convert(args[0], t, false, il.P)
		}
		return it.construct(t, args, il.P)
	case KStruct, KArray:
		if t.Kind == KStruct && t.Struct.defaultConstructible {
			return Value{Lazy: true}
		}
		if t.Kind == KStruct && t.Struct.hasMethods {
			skipf("%s: list-initialisation of struct %s that has member functions", il.P, t)
		}
		v := zeroValue(t)
		if len(il.Elems) == 0 {
			return v
		}
		// evaluate the initializer-clauses in order
		items := make([]initItem, len(il.Elems))
		for i, e := range il.Elems {
			if sub, ok := e.(*InitList); ok && sub.T == nil {
				items[i] = initItem{list: sub}
			} else {
				items[i] = initItem{val: it.eval(e, fr), pos: e.pos()}
			}
		}
		idx := 0
		it.fillAgg(t, v.B, 0, items, &idx, fr)
		if idx < len(items) {
			skipf("%s: too many initialisers for %s", il.P, t)
		}
		return v
	case KAtomic:
		if len(il.Elems) == 0 {
			return zeroValue(t)
		}
	}
	skipf("%s: list-initialisation of %s", il.P, t)
	return Value{}
}

type initItem struct {
	list *InitList
	val  Value
	pos  Pos
}

// fillAgg consumes initializer-clauses for the elements of the aggregate of
// type t at off (brace elision: a nested aggregate without braces takes as
// many clauses as it has elements).
func (it *interp) fillAgg(t *Type, b []byte, off int, items []initItem, idx *int, fr *frame) {
	type sub struct {
		t   *Type
		off int
	}
	var subs []sub
	if t.Kind == KArray {
		for i := 0; i < t.N; i++ {
			subs = append(subs, sub{t.Elem, off + i*t.Elem.size})
		}
	} else {
		for _, m := range t.Struct.Members {
			subs = append(subs, sub{m.T, off + m.Offset})
		}
	}
	for _, s := range subs {
		if *idx >= len(items) {
			return
		}
		item := items[*idx]
		if item.list != nil {
			*idx++
			v := it.buildFromList(s.t, item.list, fr)
			if v.Lazy {
				continue
			}
			encodeInto(b, nil, s.off, v)
			continue
		}
		if s.t.isAgg() {
			if item.val.Lazy || item.val.T == s.t {
				*idx++
				if !item.val.Lazy {
					if item.val.D != nil {
						skipf("%s: aggregate initialised from a partially uninitialised value", item.pos)
					}
					encodeInto(b, nil, s.off, item.val)
				}
				continue
			}
			if s.t.Kind == KStruct && s.t.Struct.hasMethods {
				skipf("%s: brace elision into struct %s", item.pos, s.t)
			}
			it.fillAgg(s.t, b, s.off, items, idx, fr)
			continue
		}
		*idx++
		if (s.t.Kind == KVector || s.t.Kind == KMatrix) && item.val.T != nil && item.val.T.Kind == KScalar {
			// clang treats vector types like aggregates here (consuming one
			// clause per component); naga never relies on it
			skipf("%s: scalar initialiser for a member of type %s (brace elision into a vector)", item.pos, s.t)
		}
		encodeInto(b, nil, s.off, it.convert(item.val, s.t, false, item.pos))
	}
}
