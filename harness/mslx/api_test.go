package mslx

import (
	"fmt"
	"strings"
	"testing"

	"github.com/gogpu/naga/msl"
)

func TestStructLayouts(t *testing.T) {
	src := `
#include <metal_stdlib>
using metal::uint;
struct T1 { float a; metal::float3 b; float c; };
struct T2 { float a; metal::packed_float3 b; float c; };
struct T3 { metal::float2x3 m; float x; };
struct T4 { float x; metal::float3x3 m; };
struct T5 { metal::float4x2 m; float x; };
struct T6 { char c; metal::half2 h; metal::half3 h3; half s; };
struct T7 { T2 inner; char _pad1[3]; metal::uint2 v; };
struct T8 { T1 arr[2]; bool flag; };
struct T9 { metal::atomic_uint a; metal::bool3 b3; metal::char3 c3; metal::short3 s3; long l; };
struct T10 { metal::packed_half3 ph; metal::packed_uint3 pu; uchar z; };
struct T11 { metal::long3 l3; metal::float2x2 m22; metal::half4x4 hm; };
struct Empty { };
typedef T2 RT[1];
struct T12 { uint n; char _pad1[12]; metal::float4 v; RT tail; char _pad3[8]; };
struct T13 { metal::float3x2 a; metal::float2x4 b; metal::float3x4 c; metal::float4x3 d; float e; };
struct T14 { int grid[2][3]; metal::bool2 b2; metal::bool4 b4; ushort u; };
`
	u, err := Parse(src)
	if err != nil {
		t.Fatal(err)
	}
	type m struct {
		name             string
		off, size, align int
	}
	want := map[string]struct {
		size, align int
		members     []m
	}{
		"T1":    {48, 16, []m{{"a", 0, 4, 4}, {"b", 16, 16, 16}, {"c", 32, 4, 4}}},
		"T2":    {20, 4, []m{{"a", 0, 4, 4}, {"b", 4, 12, 4}, {"c", 16, 4, 4}}},
		"T3":    {48, 16, []m{{"m", 0, 32, 16}, {"x", 32, 4, 4}}},
		"T4":    {64, 16, []m{{"x", 0, 4, 4}, {"m", 16, 48, 16}}},
		"T5":    {40, 8, []m{{"m", 0, 32, 8}, {"x", 32, 4, 4}}},
		"T6":    {24, 8, []m{{"c", 0, 1, 1}, {"h", 4, 4, 4}, {"h3", 8, 8, 8}, {"s", 16, 2, 2}}},
		"T7":    {32, 8, []m{{"inner", 0, 20, 4}, {"_pad1", 20, 3, 1}, {"v", 24, 8, 8}}},
		"T8":    {112, 16, []m{{"arr", 0, 96, 16}, {"flag", 96, 1, 1}}},
		"T9":    {32, 8, []m{{"a", 0, 4, 4}, {"b3", 4, 4, 4}, {"c3", 8, 4, 4}, {"s3", 16, 8, 8}, {"l", 24, 8, 8}}},
		"T10":   {24, 4, []m{{"ph", 0, 6, 2}, {"pu", 8, 12, 4}, {"z", 20, 1, 1}}},
		"T11":   {96, 32, []m{{"l3", 0, 32, 32}, {"m22", 32, 16, 8}, {"hm", 48, 32, 8}}},
		"Empty": {1, 1, nil},
		"T12":   {64, 16, []m{{"n", 0, 4, 4}, {"_pad1", 4, 12, 1}, {"v", 16, 16, 16}, {"tail", 32, 20, 4}, {"_pad3", 52, 8, 1}}},
		"T13":   {192, 16, []m{{"a", 0, 24, 8}, {"b", 32, 32, 16}, {"c", 64, 48, 16}, {"d", 112, 64, 16}, {"e", 176, 4, 4}}},
		"T14":   {36, 4, []m{{"grid", 0, 24, 4}, {"b2", 24, 2, 2}, {"b4", 28, 4, 4}, {"u", 32, 2, 2}}},
	}
	seen := 0
	for _, s := range u.Structs() {
		w, ok := want[s.Name]
		if !ok {
			t.Errorf("unexpected struct %s", s.Name)
			continue
		}
		seen++
		if s.Size != w.size || s.Align != w.align {
			t.Errorf("%s: size %d align %d, want %d %d", s.Name, s.Size, s.Align, w.size, w.align)
		}
		if len(s.Members) != len(w.members) {
			t.Errorf("%s: %d members", s.Name, len(s.Members))
			continue
		}
		for i, mm := range s.Members {
			wm := w.members[i]
			if mm.Name != wm.name || mm.Offset != wm.off || mm.Size != wm.size || mm.Align != wm.align {
				t.Errorf("%s.%s: offset %d size %d align %d, want %s %d %d %d", s.Name, mm.Name, mm.Offset, mm.Size, mm.Align, wm.name, wm.off, wm.size, wm.align)
			}
		}
	}
	if seen != len(want) {
		t.Errorf("saw %d structs, want %d", seen, len(want))
	}
}

// The layout computed from the emitted MSL must agree with the WGSL layout
// rules for host-shareable types (that is the property under test in the
// harness); checked here on a struct whose WGSL offsets were worked out by hand.
func TestStructLayoutOfNagaOutput(t *testing.T) {
	src := compileMSL(t, `
struct Inner { a: vec3<f32>, b: f32, c: vec3<u32> }
struct S { x: i32, @align(16) y: u32, m: mat2x3<f32>, n: mat3x2<f32>, arr: array<Inner, 2>, v: vec3<i32>, @size(32) z: f32, w: mat4x2<f32>, tail: array<u32> }
@group(0) @binding(0) var<storage, read_write> s: S;
@compute @workgroup_size(1) fn main() { s.x = 1; }`, msl.DefaultOptions())
	u, err := Parse(src)
	if err != nil {
		t.Fatal(err)
	}
	// WGSL: Inner: a@0 b@12 c@16 size 32 align 16
	// S: x@0 y@16 m@32(32) n@64(24) arr@96(64) v@160(12) z@172(32) w@208(align 8, 32) tail@240
	want := map[string]map[string]int{
		"Inner": {"a": 0, "b": 12, "c": 16},
		"S":     {"x": 0, "y": 16, "m": 32, "n": 64, "arr": 96, "v": 160, "z": 172, "w": 208, "tail": 240},
	}
	for _, s := range u.Structs() {
		w := want[s.Name]
		for _, m := range s.Members {
			if off, ok := w[m.Name]; ok && off != m.Offset {
				t.Errorf("%s.%s at %d, WGSL puts it at %d\n%s", s.Name, m.Name, m.Offset, off, src)
			}
		}
		if s.Name == "Inner" && s.Size != 32 {
			t.Errorf("Inner size %d", s.Size)
		}
	}
}

func TestEntryArgs(t *testing.T) {
	src := `
#include <metal_stdlib>
using metal::uint;
struct S { int a; };
struct VIn { metal::float4 p [[attribute(0)]]; };
struct VOut { metal::float4 pos [[position]]; float w [[user(loc0), flat]]; };
kernel void k(
  metal::uint3 gid [[thread_position_in_grid]]
, uint li [[thread_index_in_threadgroup]]
, device S& s [[buffer(2)]]
, constant S& c [[buffer(0)]]
, device S const* p [[buffer(7)]]
, threadgroup S& tg [[threadgroup(0)]]
, metal::texture2d<float, metal::access::sample> tex [[texture(1)]]
, metal::sampler smp [[sampler(3)]]
, constant S& fake [[user(fake0)]]
) { s.a = 1; }
vertex VOut v(VIn in [[stage_in]], uint vid [[vertex_id]], uint iid [[instance_id]]) { return VOut { in.p, 1.0 }; }
fragment metal::float4 f(VOut in [[stage_in]], bool ff [[front_facing]]) { return in.pos; }
`
	u, err := Parse(src)
	if err != nil {
		t.Fatal(err)
	}
	var lines []string
	for _, a := range u.EntryArgs() {
		lines = append(lines, fmt.Sprintf("%s/%s#%d %s:%s space=%q const=%v ref=%v ptr=%v buf=%d tex=%d smp=%d stage_in=%v builtin=%q",
			a.Stage, a.Entry, a.Index, a.Name, a.Type, a.AddressSpace, a.Const, a.Reference, a.Pointer, a.Buffer, a.Texture, a.Sampler, a.StageIn, a.Builtin))
	}
	want := []string{
		`kernel/k#0 gid:metal::uint3 space="" const=false ref=false ptr=false buf=-1 tex=-1 smp=-1 stage_in=false builtin="thread_position_in_grid"`,
		`kernel/k#1 li:uint space="" const=false ref=false ptr=false buf=-1 tex=-1 smp=-1 stage_in=false builtin="thread_index_in_threadgroup"`,
		`kernel/k#2 s:S space="device" const=false ref=true ptr=false buf=2 tex=-1 smp=-1 stage_in=false builtin=""`,
		`kernel/k#3 c:S space="constant" const=false ref=true ptr=false buf=0 tex=-1 smp=-1 stage_in=false builtin=""`,
		`kernel/k#4 p:S space="device" const=true ref=false ptr=true buf=7 tex=-1 smp=-1 stage_in=false builtin=""`,
		`kernel/k#5 tg:S space="threadgroup" const=false ref=true ptr=false buf=-1 tex=-1 smp=-1 stage_in=false builtin="threadgroup"`,
		`kernel/k#6 tex:metal::texture2d<float, metal::access::sample> space="" const=false ref=false ptr=false buf=-1 tex=1 smp=-1 stage_in=false builtin=""`,
		`kernel/k#7 smp:metal::sampler space="" const=false ref=false ptr=false buf=-1 tex=-1 smp=3 stage_in=false builtin=""`,
		`kernel/k#8 fake:S space="constant" const=false ref=true ptr=false buf=-1 tex=-1 smp=-1 stage_in=false builtin="user"`,
		`vertex/v#0 in:VIn space="" const=false ref=false ptr=false buf=-1 tex=-1 smp=-1 stage_in=true builtin=""`,
		`vertex/v#1 vid:uint space="" const=false ref=false ptr=false buf=-1 tex=-1 smp=-1 stage_in=false builtin="vertex_id"`,
		`vertex/v#2 iid:uint space="" const=false ref=false ptr=false buf=-1 tex=-1 smp=-1 stage_in=false builtin="instance_id"`,
		`fragment/f#0 in:VOut space="" const=false ref=false ptr=false buf=-1 tex=-1 smp=-1 stage_in=true builtin=""`,
		`fragment/f#1 ff:bool space="" const=false ref=false ptr=false buf=-1 tex=-1 smp=-1 stage_in=false builtin="front_facing"`,
	}
	if strings.Join(lines, "\n") != strings.Join(want, "\n") {
		t.Errorf("got:\n%s\nwant:\n%s", strings.Join(lines, "\n"), strings.Join(want, "\n"))
	}
	// member attributes survive
	for _, s := range u.Structs() {
		if s.Name == "VOut" {
			if fmt.Sprint(s.Members[1].Attrs) != "[user(loc0) flat]" || fmt.Sprint(s.Members[0].Attrs) != "[position]" {
				t.Errorf("VOut attrs %v %v", s.Members[0].Attrs, s.Members[1].Attrs)
			}
		}
	}
}

func TestDeclsAndRefs(t *testing.T) {
	src := `#include <metal_stdlib>
using metal::uint;
struct S { int a; int b; };
typedef S Alias;
constant int K = 3;
int f(int a, thread S& s) {
    int b = a + K;
    {
        int a = b;
        s.b = a;
        for (int i = 0; i < a; i++) {
            int b = i;
            s.a = b;
        }
    }
    return a + b;
}
int f(float a) { return 1; }
kernel void k(device S& s [[buffer(0)]]) {
    S local = S {1, 2};
    Alias other = local;
    int r = f(K, local);
    int q = f(1.5);
    s.a = r + other.b + metal::max(q, 0);
}
`
	u, err := Parse(src)
	if err != nil {
		t.Fatal(err)
	}
	if len(u.Notes) != 0 {
		t.Errorf("notes: %v", u.Notes)
	}
	var ds []string
	for _, d := range u.Decls() {
		ds = append(ds, fmt.Sprintf("%s %s@%d:%d depth=%d owner=%s type=%s", d.Kind, d.Name, d.Line, d.Col, d.Depth, d.Owner, d.Type))
	}
	wantDecls := []string{
		"using uint@2:7 depth=0 owner= type=metal::uint",
		"struct S@3:8 depth=0 owner= type=struct",
		"member a@3:16 depth=1 owner=S type=int",
		"member b@3:23 depth=1 owner=S type=int",
		"typedef Alias@4:11 depth=0 owner= type=S",
		"global K@5:14 depth=0 owner= type=constant int",
		"function f@6:5 depth=0 owner= type=int",
		"param a@6:11 depth=1 owner=f type=int",
		"param s@6:24 depth=1 owner=f type=thread S&",
		"local b@7:9 depth=1 owner=f type=int",
		"local a@9:13 depth=2 owner=f type=int",
		"local i@11:18 depth=3 owner=f type=int",
		"local b@12:17 depth=4 owner=f type=int",
		"function f@18:5 depth=0 owner= type=int",
		"param a@18:13 depth=1 owner=f type=float",
		"function k@19:13 depth=0 owner= type=void",
		"param s@19:25 depth=1 owner=k type=device S&",
		"local local@20:7 depth=1 owner=k type=S",
		"local other@21:11 depth=1 owner=k type=Alias",
		"local r@22:9 depth=1 owner=k type=int",
		"local q@23:9 depth=1 owner=k type=int",
	}
	if strings.Join(ds, "\n") != strings.Join(wantDecls, "\n") {
		t.Errorf("decls:\n%s\nwant:\n%s", strings.Join(ds, "\n"), strings.Join(wantDecls, "\n"))
	}
	// every reference, with the line of the declaration it resolves to
	var rs []string
	for _, r := range u.Refs() {
		target := "-"
		if r.Decl != nil {
			target = fmt.Sprintf("%s@%d:%d", r.Decl.Kind, r.Decl.Line, r.Decl.Col)
		} else if r.Builtin {
			target = "builtin"
		}
		rs = append(rs, fmt.Sprintf("%d:%d %s -> %s", r.Line, r.Col, r.Name, target))
	}
	wantRefs := []string{
		"3:12 int -> builtin", "3:19 int -> builtin",
		"4:9 S -> struct@3:8",
		"5:10 int -> builtin",
		"6:1 int -> builtin",
		"6:7 int -> builtin", "6:21 S -> struct@3:8",
		"7:5 int -> builtin", "7:13 a -> param@6:11", "7:17 K -> global@5:14",
		"9:9 int -> builtin", "9:17 b -> local@7:9",
		"10:9 s -> param@6:24", "10:11 b -> member@3:23", "10:15 a -> local@9:13",
		"11:14 int -> builtin", "11:25 i -> local@11:18", "11:29 a -> local@9:13", "11:32 i -> local@11:18",
		"12:13 int -> builtin", "12:21 i -> local@11:18",
		"13:13 s -> param@6:24", "13:15 a -> member@3:16", "13:19 b -> local@12:17",
		"16:12 a -> param@6:11", "16:16 b -> local@7:9",
		"18:1 int -> builtin", "18:7 float -> builtin",
		"19:8 void -> builtin", "19:22 S -> struct@3:8",
		"20:5 S -> struct@3:8", "20:15 S -> struct@3:8",
		"21:5 Alias -> typedef@4:11", "21:19 local -> local@20:7",
		"22:5 int -> builtin", "22:15 K -> global@5:14", "22:18 local -> local@20:7", "22:13 f -> function@6:5",
		"23:5 int -> builtin", "23:13 f -> function@18:5",
		"24:5 s -> param@19:25", "24:7 a -> member@3:16", "24:11 r -> local@22:9", "24:15 other -> local@21:11", "24:21 b -> member@3:23",
		"24:36 q -> local@23:9", "24:25 metal::max -> builtin",
	}
	if strings.Join(rs, "\n") != strings.Join(wantRefs, "\n") {
		t.Errorf("refs:\n%s\nwant:\n%s", strings.Join(rs, "\n"), strings.Join(wantRefs, "\n"))
	}
	// shadowing really is what the interpreter executes: f(3, local) -> b = 6, inner a = 6, returns outer a + b = 9;
	// other was copied before the call, so other.b = 2; q = 1: 9 + 2 + 1
	buf := i32s(0, 0)
	out := Run(src, xrtInput("k", map[string][]byte{"buffer(0)": buf}))
	if !out.OK() || getI32(buf, 0) != 12 {
		t.Errorf("%+v s.a = %d", out, getI32(buf, 0))
	}
}
