package mslx

import (
	"fmt"
	"math"
)

// trapErr / skipErr are raised with panic() inside the interpreter and turned
// into Outcome.Trap / Outcome.Skip by Run.
type trapErr struct{ msg string }
type skipErr struct{ msg string }

func trapf(format string, args ...interface{}) {
	panic(trapErr{fmt.Sprintf(format, args...)})
}

func skipf(format string, args ...interface{}) {
	panic(skipErr{fmt.Sprintf(format, args...)})
}

// region is a piece of memory: a bound buffer, a local/private variable, a
// threadgroup variable or a temporary.
type region struct {
	name  string
	slot  string // slot key for bound buffers
	space string // device / constant / threadgroup / thread
	b     []byte
	def   []bool // nil: every byte is defined
	bound bool   // a bound buffer: accesses are traced
	ro    bool
}

// ref designates an object in memory (an lvalue / a pointer target).
type ref struct {
	r   *region
	off int
	t   *Type
	ro  bool  // access path is const
	swz []int // multi-component swizzle of the vector at off (t is that vector's type)
}

// Value is an rvalue.
type Value struct {
	T *Type
	W []uint64 // scalar / vector / matrix components (column-major)
	B []byte   // struct / array bytes in C++ layout
	D []bool   // per-byte defined flags of B; nil = all defined
	P *ref     // pointer target
	// Lazy marks naga's `DefaultConstructible()`: a prvalue convertible to
	// T{} for every T.
	Lazy bool
}

// ---------------------------------------------------------------------------
// half <-> float

// f64ToHalf rounds to binary16 (round to nearest even).
func f64ToHalf(f float64) uint16 {
	b := math.Float64bits(f)
	sign := uint16(b>>48) & 0x8000
	if f != f {
		return sign | 0x7e00
	}
	a := math.Abs(f)
	if a >= 65520 { // rounds to infinity
		return sign | 0x7c00
	}
	if a < 5.9604644775390625e-08/2 { // below half the smallest subnormal
		return sign
	}
	// scale so that the result is an integer number of half ulps
	e := math.Ilogb(a)
	if e < -14 {
		e = -14
	}
	// ulp = 2^(e-10)
	m := math.Ldexp(a, 10-e) // in [1024,2048) for normals, [0,1024) for subnormals
	r := math.RoundToEven(m)
	mi := uint32(r)
	var bits uint32
	if e == -14 && mi < 1024 {
		bits = mi
	} else {
		if mi == 2048 {
			mi = 1024
			e++
		}
		bits = uint32(e+15)<<10 | (mi - 1024)
	}
	if bits >= 0x7c00 {
		bits = 0x7c00
	}
	return sign | uint16(bits)
}

func halfToFloat(h uint16) float32 {
	sign := uint32(h&0x8000) << 16
	exp := int(h>>10) & 0x1f
	man := uint32(h & 0x3ff)
	switch {
	case exp == 0x1f:
		if man != 0 {
			return math.Float32frombits(sign | 0x7fc00000 | man<<13)
		}
		return math.Float32frombits(sign | 0x7f800000)
	case exp == 0:
		f := float32(math.Ldexp(float64(man), -24))
		if sign != 0 {
			f = -f
		}
		return f
	}
	return math.Float32frombits(sign | uint32(exp+112)<<23 | man<<13)
}

func f32(w uint64) float32        { return math.Float32frombits(uint32(w)) }
func wf32(f float32) uint64       { return uint64(math.Float32bits(f)) }
func roundHalf(f float32) float32 { return halfToFloat(f64ToHalf(float64(f))) }

// normInt truncates v to the width of s and re-extends it (sign-extended
// for signed kinds), the canonical word representation of an integer.
func normInt(s ScalarKind, v uint64) uint64 {
	switch s {
	case SBool:
		if v != 0 {
			return 1
		}
		return 0
	case SChar:
		return uint64(int64(int8(v)))
	case SUChar:
		return uint64(uint8(v))
	case SShort:
		return uint64(int64(int16(v)))
	case SUShort:
		return uint64(uint16(v))
	case SInt:
		return uint64(int64(int32(v)))
	case SUInt:
		return uint64(uint32(v))
	}
	return v
}

func fmtScalar(s ScalarKind, w uint64) string {
	switch {
	case s == SBool:
		if w != 0 {
			return "true"
		}
		return "false"
	case s.isFloat():
		return fmt.Sprintf("%g", f32(w))
	case s.isSigned():
		return fmt.Sprintf("%d", int64(w))
	}
	return fmt.Sprintf("%d", w)
}

// convScalar converts one component between scalar kinds by the C++ rules.
// Out-of-range floating to integer conversions are undefined -> trap.
func convScalar(from, to ScalarKind, w uint64) uint64 {
	if from == to {
		return w
	}
	if from == SDouble || to == SDouble {
		skipf("double precision is not supported")
	}
	switch {
	case to == SBool:
		if from.isFloat() {
			if f32(w) != 0 {
				return 1
			}
			return 0
		}
		if w != 0 {
			return 1
		}
		return 0
	case to.isInt():
		if from.isFloat() {
			f := float64(f32(w))
			if f != f {
				trapf("float-to-int conversion of NaN to %s", to)
			}
			if math.IsInf(f, 0) {
				trapf("float-to-int conversion of %v to %s", f, to)
			}
			t := math.Trunc(f)
			bits := to.bits()
			if to.isSigned() {
				lim := math.Ldexp(1, int(bits)-1)
				if t < -lim || t >= lim {
					trapf("float-to-int conversion of out-of-range value %g to %s", f, to)
				}
				return normInt(to, uint64(int64(t)))
			}
			lim := math.Ldexp(1, int(bits))
			if t < 0 || t >= lim {
				trapf("float-to-int conversion of out-of-range value %g to %s", f, to)
			}
			return normInt(to, uint64(t))
		}
		return normInt(to, w)
	case to.isFloat():
		var f float32
		switch {
		case from.isFloat():
			f = f32(w)
		case from == SBool:
			if w != 0 {
				f = 1
			}
		case from.isSigned():
			if to == SHalf {
				return wf32(halfToFloat(f64ToHalf(float64(int64(w)))))
			}
			f = float32(int64(w))
		default:
			if to == SHalf {
				return wf32(halfToFloat(f64ToHalf(float64(w))))
			}
			f = float32(w)
		}
		if to == SHalf {
			f = roundHalf(f)
		}
		return wf32(f)
	}
	skipf("conversion from %s to %s is not supported", from, to)
	return 0
}

// ---------------------------------------------------------------------------
// memory encoding

func getScalar(b []byte, s ScalarKind) uint64 {
	switch s.size() {
	case 1:
		return normInt(s, uint64(b[0]))
	case 2:
		v := uint64(b[0]) | uint64(b[1])<<8
		if s == SHalf {
			return wf32(halfToFloat(uint16(v)))
		}
		return normInt(s, v)
	case 4:
		v := uint64(b[0]) | uint64(b[1])<<8 | uint64(b[2])<<16 | uint64(b[3])<<24
		if s == SFloat {
			return v
		}
		return normInt(s, v)
	case 8:
		var v uint64
		for i := 7; i >= 0; i-- {
			v = v<<8 | uint64(b[i])
		}
		return v
	}
	return 0
}

func putScalar(b []byte, s ScalarKind, w uint64) {
	switch s.size() {
	case 1:
		b[0] = byte(w)
	case 2:
		if s == SHalf {
			w = uint64(f64ToHalf(float64(f32(w))))
		}
		b[0], b[1] = byte(w), byte(w>>8)
	case 4:
		b[0], b[1], b[2], b[3] = byte(w), byte(w>>8), byte(w>>16), byte(w>>24)
	case 8:
		for i := 0; i < 8; i++ {
			b[i] = byte(w >> (8 * uint(i)))
		}
	}
}

// walkLeaves calls f for every leaf (scalar, vector, matrix column, atomic,
// pointer) of an object of type t placed at off.
func walkLeaves(t *Type, off int, f func(off int, lt *Type)) {
	switch t.Kind {
	case KMatrix:
		for c := 0; c < t.Cols; c++ {
			f(off+c*t.Elem.size, t.Elem)
		}
	case KArray:
		for i := 0; i < t.N; i++ {
			walkLeaves(t.Elem, off+i*t.Elem.size, f)
		}
	case KStruct:
		for _, m := range t.Struct.Members {
			walkLeaves(m.T, off+m.Offset, f)
		}
	case KVoid, KGeneric:
	default:
		f(off, t)
	}
}

// leafBytes is the number of bytes a leaf really occupies (a float3 is 12
// data bytes inside a 16-byte slot).
func leafBytes(t *Type) int {
	if t.Kind == KVector {
		return t.N * t.S.size()
	}
	return t.size
}

func zeroValue(t *Type) Value {
	switch t.Kind {
	case KScalar, KVector, KMatrix, KAtomic:
		return Value{T: t, W: make([]uint64, t.ncomp())}
	case KStruct, KArray:
		if t.size < 0 || t.size > maxObjectSize {
			skipf("object of type %s (%d bytes) is larger than the supported %d bytes", t, t.size, maxObjectSize)
		}
		return Value{T: t, B: make([]byte, t.size)}
	case KPointer:
		skipf("value-initialised (null) pointer")
	case KGeneric:
		return Value{Lazy: true}
	}
	skipf("cannot value-initialise an object of type %s", t)
	return Value{}
}

func scalarValue(t *Type, w uint64) Value { return Value{T: t, W: []uint64{w}} }

// encodeValue writes v (of numeric/aggregate type) into a fresh byte image
// in C++ layout, with defined flags.
func encodeInto(b []byte, d []bool, off int, v Value) {
	t := v.T
	switch t.Kind {
	case KScalar, KAtomic:
		putScalar(b[off:], t.S, v.W[0])
		markDef(d, off, t.size, true)
	case KVector:
		es := t.S.size()
		for i := 0; i < t.N; i++ {
			putScalar(b[off+i*es:], t.S, v.W[i])
		}
		markDef(d, off, t.N*es, true)
	case KMatrix:
		es := t.S.size()
		for c := 0; c < t.Cols; c++ {
			for r := 0; r < t.Rows; r++ {
				putScalar(b[off+c*t.Elem.size+r*es:], t.S, v.W[c*t.Rows+r])
			}
			markDef(d, off+c*t.Elem.size, t.Rows*es, true)
		}
	case KStruct, KArray:
		copy(b[off:off+t.size], v.B)
		if d != nil {
			if v.D == nil {
				markDef(d, off, t.size, true)
			} else {
				copy(d[off:off+t.size], v.D)
			}
		}
	default:
		skipf("cannot store a value of type %s in an aggregate", t)
	}
}

func markDef(d []bool, off, n int, v bool) {
	if d == nil {
		return
	}
	for i := off; i < off+n && i < len(d); i++ {
		d[i] = v
	}
}

// decodeFrom reads a value of type t from an aggregate byte image; it traps
// when a needed byte is undefined.
func decodeFrom(b []byte, d []bool, off int, t *Type, what string) Value {
	chk := func(o, n int) {
		if d == nil {
			return
		}
		for i := o; i < o+n; i++ {
			if !d[i] {
				trapf("read of uninitialised memory: %s (byte %d)", what, i)
			}
		}
	}
	switch t.Kind {
	case KScalar, KAtomic:
		chk(off, t.size)
		return Value{T: t, W: []uint64{getScalar(b[off:], t.S)}}
	case KVector:
		es := t.S.size()
		chk(off, t.N*es)
		w := make([]uint64, t.N)
		for i := range w {
			w[i] = getScalar(b[off+i*es:], t.S)
		}
		return Value{T: t, W: w}
	case KMatrix:
		es := t.S.size()
		w := make([]uint64, t.Cols*t.Rows)
		for c := 0; c < t.Cols; c++ {
			chk(off+c*t.Elem.size, t.Rows*es)
			for r := 0; r < t.Rows; r++ {
				w[c*t.Rows+r] = getScalar(b[off+c*t.Elem.size+r*es:], t.S)
			}
		}
		return Value{T: t, W: w}
	case KStruct, KArray:
		v := Value{T: t, B: append([]byte(nil), b[off:off+t.size]...)}
		if d != nil {
			all := true
			for _, x := range d[off : off+t.size] {
				if !x {
					all = false
					break
				}
			}
			if !all {
				v.D = append([]bool(nil), d[off:off+t.size]...)
			}
		}
		return v
	}
	skipf("cannot read a value of type %s from an aggregate", t)
	return Value{}
}
