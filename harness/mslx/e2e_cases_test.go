package mslx

import (
	"bytes"
	"fmt"
	"github.com/gogpu/naga/ir"
	"github.com/gogpu/naga/msl"
	"math"
	"testing"
	"verif/harness/xrt"
)

const (
	intMin = math.MinInt32
	intMax = math.MaxInt32
)

// Every expectation below was worked out by hand from the WGSL specification.

func TestE2E_I32Arithmetic(t *testing.T) {
	runE2E(t, e2eCase{
		wgsl: `
@group(0) @binding(0) var<storage, read_write> o: array<i32, 8>;
@group(0) @binding(1) var<storage, read> a: array<i32, 4>;
@compute @workgroup_size(1) fn main() {
  o[0] = a[0] + a[1];
  o[1] = a[2] - a[1];
  o[2] = a[0] * a[3];
  o[3] = -a[2];
  o[4] = a[2] / a[3];
  let x = a[1] - 8;
  o[5] = x / a[3];
  o[6] = x % a[3];
  o[7] = abs(a[2]);
}`,
		in: map[string][]byte{"o": zeros(32), "a": i32s(intMax, 1, intMin, 2)},
		// INT_MAX+1 wraps to INT_MIN; INT_MIN-1 wraps to INT_MAX; INT_MAX*2 = 0xFFFFFFFE;
		// -INT_MIN = INT_MIN; INT_MIN/2; -7/2 = -3 (truncation); -7%2 = -1; abs(INT_MIN) = INT_MIN
		want: map[string][]byte{"o": i32s(intMin, intMax, -2, intMin, -1073741824, -3, -1, intMin)},
	})
}

func TestE2E_DivisionEdgeCases(t *testing.T) {
	runE2E(t, e2eCase{
		wgsl: `
@group(0) @binding(0) var<storage, read_write> o: array<i32, 6>;
@group(0) @binding(1) var<storage, read> b: array<i32, 4>;
@group(0) @binding(2) var<storage, read_write> p: array<u32, 7>;
@group(0) @binding(3) var<storage, read> u: array<u32, 4>;
@compute @workgroup_size(1) fn main() {
  o[0] = b[3] / b[2];
  o[1] = b[3] % b[2];
  o[2] = b[0] / b[1];
  o[3] = b[0] % b[1];
  o[4] = b[3] % b[1];
  o[5] = (0 - b[3]) % 4;
  p[0] = u[0] / u[1];
  p[1] = u[0] % u[1];
  p[2] = u[2] / u[3];
  p[3] = u[2] % u[3];
  p[4] = u[0] + u[3];
  p[5] = u[1] - u[3];
  p[6] = u[0] * u[0];
}`,
		in: map[string][]byte{"o": zeros(24), "b": i32s(intMin, -1, 0, 7), "p": zeros(28), "u": u32s(0xFFFFFFFF, 0, 10, 3)},
		// WGSL: x/0 = x, x%0 = 0, INT_MIN/-1 = INT_MIN, INT_MIN%-1 = 0; 7 % -1 = 0; -7 % 4 = -3
		// unsigned: x/0 = x; x%0 = 0; 10/3 = 3; 10%3 = 1; 0xFFFFFFFF+3 = 2; 0-3 = 0xFFFFFFFD; (2^32-1)^2 mod 2^32 = 1
		want: map[string][]byte{
			"o": i32s(7, 0, intMin, 0, 0, -3),
			"p": u32s(0xFFFFFFFF, 0, 3, 1, 2, 0xFFFFFFFD, 1),
		},
	})
}

func TestE2E_Shifts(t *testing.T) {
	runE2E(t, e2eCase{
		wgsl: `
@group(0) @binding(0) var<storage, read_write> o: array<u32, 6>;
@group(0) @binding(1) var<storage, read> s: array<u32, 4>;
@compute @workgroup_size(1) fn main() {
  o[0] = s[0] << s[1];
  o[1] = s[3] >> s[1];
  o[2] = s[0] << s[2];
  o[3] = bitcast<u32>(bitcast<i32>(s[3]) >> s[1]);
  let m8 = bitcast<i32>(s[3]) / 268435456;
  o[4] = bitcast<u32>(m8 >> s[0]);
  o[5] = bitcast<u32>(bitcast<i32>(s[0]) << s[1]);
}`,
		in: map[string][]byte{"o": zeros(24), "s": u32s(1, 31, 33, 0x80000000)},
		// 1<<31; 0x80000000>>31 = 1; 1 << (33 mod 32) = 2; INT_MIN >> 31 = -1 (arithmetic);
		// INT_MIN / 2^28 = -8, -8 >> 1 = -4; i32 1 << 31 = INT_MIN
		want: map[string][]byte{"o": u32s(0x80000000, 1, 2, 0xFFFFFFFF, 0xFFFFFFFC, 0x80000000)},
	})
}

func TestE2E_BitOps(t *testing.T) {
	runE2E(t, e2eCase{
		wgsl: `
@group(0) @binding(0) var<storage, read_write> o: array<u32, 16>;
@group(0) @binding(1) var<storage, read> v: array<u32, 4>;
@group(0) @binding(2) var<storage, read_write> q: array<i32, 4>;
@compute @workgroup_size(1) fn main() {
  o[0] = countOneBits(v[0]);
  o[1] = countLeadingZeros(v[0]);
  o[2] = countTrailingZeros(v[0]);
  o[3] = reverseBits(v[0]);
  o[4] = countLeadingZeros(v[1]);
  o[5] = countTrailingZeros(v[1]);
  o[6] = firstLeadingBit(v[0]);
  o[7] = firstLeadingBit(v[1]);
  o[8] = firstTrailingBit(v[0]);
  o[9] = firstTrailingBit(v[1]);
  o[10] = ~v[0];
  o[11] = v[0] & v[3];
  o[12] = v[0] | v[3];
  o[13] = v[0] ^ v[2];
  o[14] = countOneBits(v[2]);
  o[15] = firstLeadingBit(v[3]);
  q[0] = firstLeadingBit(bitcast<i32>(v[2]));
  q[1] = firstLeadingBit(bitcast<i32>(v[3]));
  q[2] = firstLeadingBit(bitcast<i32>(v[0]));
  q[3] = countLeadingZeros(bitcast<i32>(v[3]));
}`,
		in: map[string][]byte{"o": zeros(64), "v": u32s(0x00F0F000, 0, 0xFFFFFFFF, 0x80000000), "q": zeros(16)},
		// 0x00F0F000 has 8 one bits, 8 leading zeros, 12 trailing zeros, bit-reversed 0x000F0F00;
		// clz(0) = ctz(0) = 32; firstLeadingBit(0x00F0F000) = 23, of 0 = -1; firstTrailingBit = 12, of 0 = -1
		// signed firstLeadingBit: -1 -> -1; INT_MIN -> 30 (highest 0 bit); positive 0x00F0F000 -> 23; clz(INT_MIN) = 0
		want: map[string][]byte{
			"o": u32s(8, 8, 12, 0x000F0F00, 32, 32, 23, 0xFFFFFFFF, 12, 0xFFFFFFFF, 0xFF0F0FFF, 0, 0x80F0F000, 0xFF0F0FFF, 32, 31),
			"q": i32s(-1, 30, 23, 0),
		},
	})
}

func TestE2E_ExtractInsertBits(t *testing.T) {
	runE2E(t, e2eCase{
		wgsl: `
@group(0) @binding(0) var<storage, read_write> o: array<u32, 7>;
@group(0) @binding(1) var<storage, read> v: array<u32, 6>;
@compute @workgroup_size(1) fn main() {
  o[0] = extractBits(v[0], v[2], v[3]);
  o[1] = bitcast<u32>(extractBits(bitcast<i32>(v[1]), v[3], v[2]));
  o[2] = insertBits(v[4], 0u, v[3], v[3]);
  o[3] = extractBits(v[0], 32u + v[5], v[5]);
  o[4] = extractBits(v[4] << 30u, 30u + v[5], 10u + v[5]);
  o[5] = insertBits(v[5], 255u, 28u + v[5], v[3]);
  o[6] = extractBits(v[0], v[5], 32u + v[5]);
}`,
		in: map[string][]byte{"o": zeros(28), "v": u32s(0xABCD1234, 0x00000800, 4, 8, 0xFFFFFFFF, 0)},
		// extractBits(0xABCD1234, 4, 8) = 0x23; signed field 0x8 at [8,12) sign-extends to -8;
		// insertBits(~0, 0, 8, 8) = 0xFFFF00FF; offset 32 count 0 -> 0; offset 30, count clamped to 2: 0xC0000000 -> 3;
		// insertBits(0, 0xFF, 28, count clamped to 4) = 0xF0000000; full-width extract = the value
		want: map[string][]byte{"o": u32s(0x23, 0xFFFFFFF8, 0xFFFF00FF, 0, 3, 0xF0000000, 0xABCD1234)},
	})
}

func TestE2E_F32Arithmetic(t *testing.T) {
	runE2E(t, e2eCase{
		wgsl: `
@group(0) @binding(0) var<storage, read_write> o: array<f32, 8>;
@group(0) @binding(1) var<storage, read> f: array<f32, 4>;
@compute @workgroup_size(1) fn main() {
  o[0] = f[0] + f[1];
  o[1] = f[0] * f[1];
  o[2] = f[0] / f[3];
  o[3] = f[1] - f[3];
  o[4] = -f[2];
  o[5] = 1.0 / f[3];
  o[6] = f[0] % f[3] ;
  o[7] = (0.0 - f[1]) % f[0];
}`,
		in: map[string][]byte{"o": zeros(32), "f": f32s(1.5, 2.25, float32(math.Copysign(0, -1)), 3.0)},
		// 3.75; 3.375; 0.5; -0.75; -(-0.0) = +0.0; 1/3 rounds to 0x3EAAAAAB; 1.5 % 3 = 1.5; -2.25 % 1.5 = -0.75 (truncated)
		want: map[string][]byte{"o": cat(f32s(3.75, 3.375, 0.5, -0.75, 0), u32s(0x3EAAAAAB), f32s(1.5, -0.75))},
	})
}

func TestE2E_FloatBuiltins(t *testing.T) {
	runE2E(t, e2eCase{
		wgsl: `
@group(0) @binding(0) var<storage, read_write> o: array<f32, 22>;
@group(0) @binding(1) var<storage, read> f: array<f32, 8>;
@compute @workgroup_size(1) fn main() {
  o[0] = floor(f[0]);
  o[1] = ceil(f[0]);
  o[2] = trunc(f[0]);
  o[3] = fract(f[1]);
  o[4] = abs(f[0]);
  o[5] = sign(f[0]);
  o[6] = min(f[0], f[2]);
  o[7] = max(f[0], f[2]);
  o[8] = clamp(f[3], f[4], f[5]);
  o[9] = saturate(f[0]);
  o[10] = sqrt(f[6]);
  o[11] = inverseSqrt(f[2]);
  o[12] = exp2(f[7]);
  o[13] = log2(f[6]);
  o[14] = pow(f[5] + f[5], f[7]);
  o[15] = fma(f[5] + f[5], f[7], f[2]);
  o[16] = mix(f[5], f[7], f[1] + 0.75);
  o[17] = step(f[5], f[7]);
  o[18] = step(f[7], f[5]);
  o[19] = smoothstep(f[4], f[5], f[1] + 0.75);
  o[20] = sign(f[4]);
  o[21] = saturate(f[3]);
}`,
		in: map[string][]byte{"o": zeros(88), "f": f32s(-1.5, -0.25, 4.0, 5.0, 0.0, 1.0, 16.0, 3.0)},
		// floor(-1.5) = -2; ceil = -1; trunc = -1; fract(-0.25) = 0.75; abs = 1.5; sign = -1; min = -1.5; max = 4;
		// clamp(5,0,1) = 1; saturate(-1.5) = 0; sqrt(16) = 4; 1/sqrt(4) = 0.5; 2^3 = 8; log2(16) = 4; 2^3 = 8;
		// fma(2,3,4) = 10; mix(1,3,0.5) = 2; step(1,3) = 1; step(3,1) = 0; smoothstep(0,1,0.5) = 0.5;
		// sign(0) = 0; saturate(5) = 1
		want: map[string][]byte{"o": f32s(-2, -1, -1, 0.75, 1.5, -1, -1.5, 4, 1, 0, 4, 0.5, 8, 4, 8, 10, 2, 1, 0, 0.5, 0, 1)},
	})
}

func TestE2E_Round(t *testing.T) {
	runE2E(t, e2eCase{
		wgsl: `
@group(0) @binding(0) var<storage, read_write> o: array<f32, 4>;
@group(0) @binding(1) var<storage, read> f: array<f32, 4>;
@compute @workgroup_size(1) fn main() {
  o[0] = round(f[0]);
  o[1] = round(f[1]);
  o[2] = round(f[2]);
  o[3] = round(f[3]);
}`,
		in: map[string][]byte{"o": zeros(16), "f": f32s(-1.5, 2.5, 0.5, 2.75)},
		// WGSL round: ties to even: -2, 2, 0, 3
		want: map[string][]byte{"o": f32s(-2, 2, 0, 3)},
		// naga emits metal::round, which rounds halfway cases away from zero
		nagaBug: "WGSL round() is emitted as metal::round (ties away from zero) instead of metal::rint",
		wantMSL: map[string][]byte{"o": f32s(-2, 3, 1, 3)},
	})
}

func TestE2E_VectorsSwizzlesVec3Padding(t *testing.T) {
	runE2E(t, e2eCase{
		wgsl: `
struct V { a: vec3<f32>, b: f32, c: vec2<f32>, d: vec4<f32>, e: vec3<i32> }
@group(0) @binding(0) var<storage, read_write> s: V;
@compute @workgroup_size(1) fn main() {
  s.d = s.a.zyxx + vec4<f32>(s.c, s.b, 1.0);
  s.c = s.d.wz * 2.0;
  s.a.y = s.b;
  s.b = dot(s.a, vec3<f32>(1.0, 1.0, 1.0));
  s.e = -s.e + vec3<i32>(10) * 2 - s.e.zzz;
}`,
		// layout: a@0 b@12 c@16 (pad 24..32) d@32 e@48 (pad 60..64), size 64
		in: map[string][]byte{"s": cat(f32s(1, 2, 3, 4, 5, 6, 0, 0, 7, 8, 9, 10), i32s(1, -2, 3, 0))},
		// d = (3,2,1,1)+(5,6,4,1) = (8,8,5,2); c = (2,5)*2 = (4,10); a.y = 4; b = 1+4+3 = 8;
		// e = (-1,2,-3)+(20,20,20)-(3,3,3) = (16,19,14)
		want: map[string][]byte{"s": cat(f32s(1, 4, 3, 8, 4, 10, 0, 0, 8, 8, 5, 2), i32s(16, 19, 14, 0))},
		mask: map[string][]byte{"s": padMask(64, [2]int{24, 32}, [2]int{60, 64})},
	})
}

func TestE2E_Matrices(t *testing.T) {
	runE2E(t, e2eCase{
		wgsl: `
struct M { m22: mat2x2<f32>, m23: mat2x3<f32>, m32: mat3x2<f32>, v2: vec2<f32>, v3: vec3<f32>, r: mat3x3<f32>, d: f32 }
@group(0) @binding(0) var<storage, read_write> s: M;
@compute @workgroup_size(1) fn main() {
  s.v2 = s.m22 * vec2<f32>(1.0, 2.0);
  let w = vec2<f32>(1.0, 2.0) * s.m22;
  s.v3 = s.m23 * w;
  s.r = s.m23 * s.m32;
  s.d = determinant(s.m22);
  s.m32 = transpose(s.m23);
  s.m22 = s.m22 * 2.0 + s.m22;
  s.m23[1] = s.m23[0] + vec3<f32>(s.m23[1].z);
}`,
		// layout: m22@0 (16) m23@16 (2 columns of 16) m32@48 (3 columns of 8) v2@72 v3@80 r@96 (3 columns of 16) d@144, size 160
		in: map[string][]byte{"s": cat(
			f32s(1, 2, 3, 4),
			f32s(1, 2, 3, 0, 4, 5, 6, 0),
			f32s(1, 2, 3, 4, 5, 6),
			f32s(0, 0), f32s(0, 0, 0, 0), zeros(48), f32s(0, 0, 0, 0))},
		// v2 = (1,2)*1 + (3,4)*2 = (7,10); w = (1*1+2*2, 1*3+2*4) = (5,11); v3 = (1,2,3)*5 + (4,5,6)*11 = (49,65,81)
		// r columns: m23*(1,2) = (9,12,15); m23*(3,4) = (19,26,33); m23*(5,6) = (29,40,51); det = 1*4-3*2 = -2
		// transpose(m23) = columns (1,4),(2,5),(3,6); m22*3 = (3,6),(9,12); m23[1] = (1,2,3)+(6,6,6) = (7,8,9)
		want: map[string][]byte{"s": cat(
			f32s(3, 6, 9, 12),
			f32s(1, 2, 3, 0, 7, 8, 9, 0),
			f32s(1, 4, 2, 5, 3, 6),
			f32s(7, 10), f32s(49, 65, 81, 0),
			f32s(9, 12, 15, 0, 19, 26, 33, 0, 29, 40, 51, 0),
			f32s(-2, 0, 0, 0))},
		mask: map[string][]byte{"s": padMask(160, [2]int{28, 32}, [2]int{44, 48}, [2]int{92, 96}, [2]int{108, 112}, [2]int{124, 128}, [2]int{140, 144}, [2]int{148, 160})},
	})
}

func TestE2E_NestedStructLayout(t *testing.T) {
	runE2E(t, e2eCase{
		wgsl: `
struct In { x: u32, @align(8) y: u32, z: vec2<u32> }
struct Out { a: u32, inner: In, @size(16) b: u32, arr: array<In, 2>, c: vec3<u32>, d: u32 }
@group(0) @binding(0) var<storage, read_write> s: Out;
@group(0) @binding(1) var<storage, read> idx: array<u32, 2>;
@compute @workgroup_size(1) fn main() {
  s.a = 1u;
  s.inner.x = 2u;
  s.inner.y = 3u;
  s.inner.z = vec2<u32>(4u, 5u);
  s.b = 6u;
  s.arr[1] = s.inner;
  s.arr[1].y = 7u;
  s.arr[idx[0]].z.y = 8u;
  s.c = vec3<u32>(9u, 10u, 11u);
  s.d = 12u;
}`,
		// In: x@0 y@8 z@16, size 24 align 8.  Out: a@0 inner@8 b@32 (size 16) arr@48 (2 x 24) c@96 d@108, size 112
		in: map[string][]byte{"s": zeros(112), "idx": u32s(0, 1)},
		want: map[string][]byte{"s": u32s(
			1, 0, // a, pad
			2, 0, 3, 0, 4, 5, // inner
			6, 0, 0, 0, // b + @size padding
			0, 0, 0, 0, 0, 8, // arr[0]
			2, 0, 7, 0, 4, 5, // arr[1]
			9, 10, 11, 12)},
		mask: map[string][]byte{"s": padMask(112, [2]int{4, 8}, [2]int{12, 16}, [2]int{20, 24}, [2]int{36, 48}, [2]int{52, 56}, [2]int{60, 64}, [2]int{76, 80}, [2]int{84, 88})},
	})
}

func TestE2E_RuntimeArraysAndArrayLength(t *testing.T) {
	runE2E(t, e2eCase{
		wgsl: `
struct R { n: u32, i: u32, data: array<vec2<u32>> }
@group(0) @binding(0) var<storage, read_write> r: R;
@group(0) @binding(1) var<storage, read_write> ra: array<u32>;
@group(0) @binding(2) var<storage, read_write> v3s: array<vec3<f32>>;
@compute @workgroup_size(1) fn main() {
  let i = r.i;
  r.n = arrayLength(&r.data);
  ra[0] = arrayLength(&ra);
  ra[1] = arrayLength(&v3s);
  r.data[4] = vec2<u32>(7u, 8u);
  ra[6] = 9u;
  r.data[i].x += 1u;
  v3s[1] = vec3<f32>(1.0, 2.0, 3.0);
}`,
		// r: 8 + 5*8 = 48 bytes -> 5 elements; ra: 28 bytes -> 7; v3s: 40 bytes, stride 16 -> floor(40/16) = 2
		in: map[string][]byte{"r": cat(u32s(0, 4), zeros(40)), "ra": zeros(28), "v3s": zeros(40)},
		want: map[string][]byte{
			"r":   cat(u32s(5, 4), zeros(32), u32s(8, 8)),
			"ra":  u32s(7, 2, 0, 0, 0, 0, 9),
			"v3s": cat(zeros(16), f32s(1, 2, 3), zeros(12)),
		},
		mask: map[string][]byte{"v3s": padMask(40, [2]int{12, 16}, [2]int{28, 40})},
	})
}

func TestE2E_Atomics(t *testing.T) {
	runE2E(t, e2eCase{
		wgsl: `
struct A { u: atomic<u32>, i: atomic<i32>, arr: array<atomic<u32>, 2> }
@group(0) @binding(0) var<storage, read_write> a: A;
@group(0) @binding(1) var<storage, read_write> o: array<u32, 16>;
var<workgroup> wa: atomic<i32>;
@compute @workgroup_size(1) fn main() {
  o[0] = atomicLoad(&a.u);
  atomicStore(&a.u, 10u);
  o[1] = atomicAdd(&a.u, 0xFFFFFFFFu);
  o[2] = atomicSub(&a.u, 10u);
  o[3] = atomicMax(&a.u, 3u);
  o[4] = atomicMin(&a.u, 3u);
  o[5] = atomicAnd(&a.u, 6u);
  o[6] = atomicOr(&a.u, 9u);
  o[7] = atomicXor(&a.u, 15u);
  o[8] = atomicExchange(&a.u, 77u);
  let r1 = atomicCompareExchangeWeak(&a.u, 77u, 78u);
  o[9] = r1.old_value;
  o[10] = u32(r1.exchanged);
  let r2 = atomicCompareExchangeWeak(&a.u, 1u, 2u);
  o[11] = r2.old_value;
  o[12] = u32(r2.exchanged);
  o[13] = bitcast<u32>(atomicMin(&a.i, -5));
  o[14] = bitcast<u32>(atomicAdd(&a.i, 2147483647));
  atomicStore(&wa, 4);
  o[15] = bitcast<u32>(atomicAdd(&wa, atomicLoad(&a.i)));
  atomicAdd(&a.arr[1], 1u);
}`,
		in: map[string][]byte{"a": cat(u32s(5), i32s(-3), u32s(0, 0)), "o": zeros(64)},
		// u: 5 ->10 ->9 (wrap add) ->0xFFFFFFFF (wrap sub) -> max stays -> min 3 -> and 2 -> or 11 -> xor 4 -> xchg 77 -> cas 78 -> cas fails
		// i: -3 -> min -5 -> add INT_MAX = 2147483642
		want: map[string][]byte{
			"a": cat(u32s(78), i32s(2147483642), u32s(0, 1)),
			"o": u32s(5, 10, 9, 0xFFFFFFFF, 0xFFFFFFFF, 3, 2, 11, 4, 77, 1, 78, 0, 0xFFFFFFFD, 0xFFFFFFFB, 4),
		},
	})
}

func TestE2E_ControlFlow(t *testing.T) {
	runE2E(t, e2eCase{
		wgsl: `
@group(0) @binding(0) var<storage, read_write> o: array<i32, 12>;
@group(0) @binding(1) var<storage, read> p: array<i32, 4>;
fn classify(x: i32) -> i32 {
  switch x {
    case 1, 2: { return 10; }
    default: { return 30; }
    case 3: { return 20; }
    case 4, 5, 6: { }
  }
  return 40;
}
fn find(limit: i32) -> i32 {
  var k = 0;
  while true { if k * k > limit { return k; } k++; }
  return -1;
}
fn rs(x: i32) -> i32 {
  for (var i = 0; i < 10; i++) {
    switch i + x { case 3: { return i * 100; } default: { } }
  }
  return -7;
}
@compute @workgroup_size(1) fn main() {
  o[0] = classify(p[0]);
  o[1] = classify(p[0] - 2);
  o[2] = classify(p[3]);
  o[3] = classify(p[0] + 2);
  var r = 0;
  if p[0] > 5 { r = 1; } else if p[0] > 2 { r = 2; } else { r = 3; }
  o[4] = r;
  var i = 0;
  var sum = 0;
  loop {
    if i == 2 { i++; continue; }
    sum += i;
    continuing { i++; break if i >= p[0] + 2; }
  }
  o[5] = sum;
  o[6] = i;
  var cnt = 0;
  for (var a = 0; a < 4; a++) {
    for (var b = 0; b < 4; b++) {
      if b == a { continue; }
      if b > 2 { break; }
      cnt += 10 * a + b;
    }
  }
  o[7] = cnt;
  o[8] = find(p[1]);
  var acc = 0;
  for (var j = 0; j < 5; j++) {
    switch j { case 1: { continue; } case 3: { break; } default: { acc += j; } }
    acc += 100;
  }
  o[9] = acc;
  o[10] = rs(p[2]);
  o[11] = rs(p[1]);
}`,
		in: map[string][]byte{"o": zeros(48), "p": i32s(3, 10, 0, 7)},
		// classify: 3->20, 1->10, 7->default 30, 5->empty case then 40; chain -> 2;
		// loop: sum = 0+1+4 = 5, i = 5; nested for: 3 + 22 + 41 + 93 = 159; find(10) = 4 (16 > 10);
		// switch in loop: 100, (continue), 202, 302, 406; rs(0) = 300; rs(10) = -7
		want: map[string][]byte{"o": i32s(20, 10, 30, 40, 2, 5, 5, 159, 4, 406, 300, -7)},
	})
}

func TestE2E_PointerParamsAndCallChains(t *testing.T) {
	runE2E(t, e2eCase{
		wgsl: `
var<private> pv: i32 = 5;
var<workgroup> wg: array<i32, 4>;
@group(0) @binding(0) var<storage, read_write> o: array<i32, 8>;
fn inc(p: ptr<function, i32>, by: i32) -> i32 { *p += by; return *p; }
fn incp(p: ptr<private, i32>) { *p = *p * 2; }
fn setw(p: ptr<workgroup, array<i32, 4>>, i: i32, v: i32) { (*p)[i] = v; }
fn third(a: i32) -> i32 { return a + 1; }
fn second(a: i32) -> i32 { return third(a) * 2; }
fn first(a: i32) -> i32 { return second(a) - 3; }
fn swap(a: ptr<function, vec2<i32>>) { let t = (*a).x; (*a).x = (*a).y; (*a).y = t; }
@compute @workgroup_size(1) fn main() {
  var x = 1;
  o[0] = inc(&x, 4);
  o[1] = inc(&x, inc(&x, 1));
  incp(&pv);
  o[2] = pv;
  setw(&wg, 2, 42);
  o[3] = wg[2];
  o[4] = wg[0];
  o[5] = first(o[0]);
  var v = vec2<i32>(1, 2);
  swap(&v);
  o[6] = v.x * 10 + v.y;
  if first(1) > 0 && inc(&x, 1) > 0 { o[7] = x; }
}`,
		in: map[string][]byte{"o": zeros(32)},
		// inc: 5; inner inc makes x 6 and returns 6, outer adds 6 -> 12; pv 10; wg[2] 42, wg[0] zero-initialised;
		// first(5) = (5+1)*2-3 = 9; swap -> (2,1) -> 21; first(1) = 1 > 0 so inc runs: x = 13
		want: map[string][]byte{"o": i32s(5, 12, 10, 42, 0, 9, 21, 13)},
	})
}

func TestE2E_BuiltinInputs(t *testing.T) {
	runE2E(t, e2eCase{
		wgsl: `
@group(0) @binding(0) var<storage, read_write> o: array<u32, 13>;
@compute @workgroup_size(2, 3, 4)
fn main(@builtin(local_invocation_id) l: vec3<u32>, @builtin(local_invocation_index) li: u32,
        @builtin(global_invocation_id) g: vec3<u32>, @builtin(workgroup_id) w: vec3<u32>,
        @builtin(num_workgroups) n: vec3<u32>) {
  o[0] = l.x; o[1] = l.y; o[2] = l.z;
  o[3] = li;
  o[4] = g.x; o[5] = g.y; o[6] = g.z;
  o[7] = w.x; o[8] = w.y; o[9] = w.z;
  o[10] = n.x; o[11] = n.y; o[12] = n.z;
}`,
		in:     map[string][]byte{"o": zeros(52)},
		lid:    [3]uint32{1, 2, 3},
		wid:    [3]uint32{2, 0, 1},
		nwg:    [3]uint32{3, 1, 2},
		wgSize: [3]uint32{2, 3, 4},
		// index = 1 + 2*2 + 3*2*3 = 23; global = wid*size + lid = (5, 2, 7)
		want: map[string][]byte{"o": u32s(1, 2, 3, 23, 5, 2, 7, 2, 0, 1, 3, 1, 2)},
	})
}

func TestE2E_Conversions(t *testing.T) {
	runE2E(t, e2eCase{
		wgsl: `
@group(0) @binding(0) var<storage, read_write> o: array<u32, 16>;
@group(0) @binding(1) var<storage, read> f: array<f32, 6>;
@group(0) @binding(2) var<storage, read> i: array<i32, 3>;
@group(0) @binding(3) var<storage, read> u: array<u32, 2>;
@compute @workgroup_size(1) fn main() {
  o[0] = bitcast<u32>(i32(f[0]));
  o[1] = bitcast<u32>(i32(f[1]));
  o[2] = bitcast<u32>(i32(f[2]));
  o[3] = u32(f[3]);
  o[4] = u32(f[4]);
  o[5] = bitcast<u32>(f32(i[0]));
  o[6] = bitcast<u32>(f32(u[0]));
  o[7] = u32(i[1]);
  o[8] = bitcast<u32>(i32(u[0]));
  o[9] = u32(bool(f[3]));
  o[10] = u32(bool(i[2]));
  o[11] = bitcast<u32>(f32(bool(i[1])));
  o[12] = bitcast<u32>(f[0]);
  o[13] = bitcast<u32>(bitcast<f32>(u[1]));
  o[14] = u32(vec2<f32>(f[0], f[5]).y);
  o[15] = bitcast<vec2<u32>>(vec2<f32>(f[0], f[5] - 6.1)).y;
}`,
		in: map[string][]byte{"o": zeros(64), "f": f32s(3.99, -3.99, -3e9, -5.0, 5e9, 8.1), "i": i32s(16777217, -1, 0), "u": u32s(0xFFFFFFFF, 0x40490FDB)},
		// truncation 3, -3; -3e9 clamps to INT_MIN; u32(-5.0) = 0; 5e9 clamps to the largest f32 below 2^32 = 4294967040;
		// f32(16777217) rounds to even 16777216 = 0x4B800000; f32(0xFFFFFFFF) = 2^32 = 0x4F800000;
		// u32(-1) = 0xFFFFFFFF; i32(0xFFFFFFFF) = -1; bool(-5.0) = true; bool(0) = false; f32(true) = 1.0;
		// 3.99f = 0x407F5C29; bit pattern round trip; u32(8.1) = 8; 8.1f - 6.1f: 8.1f = 0x4101999A = 8.10000038146973,
		// 6.1f = 0x40C33333 = 6.09999990463257, difference 2.00000047683716 = 0x40000002 exactly
		want: map[string][]byte{"o": u32s(3, 0xFFFFFFFD, 0x80000000, 0, 4294967040, 0x4B800000, 0x4F800000, 0xFFFFFFFF, 0xFFFFFFFF, 1, 0, 0x3F800000, 0x407F5C29, 0x40490FDB, 8, 0x40000002)},
	})
}

func TestE2E_PackUnpack(t *testing.T) {
	runE2E(t, e2eCase{
		wgsl: `
@group(0) @binding(0) var<storage, read_write> o: array<u32, 5>;
@group(0) @binding(1) var<storage, read_write> g: array<vec4<f32>, 6>;
@group(0) @binding(2) var<storage, read> f: array<f32, 6>;
@group(0) @binding(3) var<storage, read> u: array<u32, 7>;
@compute @workgroup_size(1) fn main() {
  o[0] = pack4x8snorm(vec4<f32>(f[0], f[1], f[2], f[3]));
  o[1] = pack4x8unorm(vec4<f32>(f[0], f[2], f[3], f[4]));
  o[2] = pack2x16snorm(vec2<f32>(f[1], f[0]));
  o[3] = pack2x16unorm(vec2<f32>(f[3], f[0]));
  o[4] = pack2x16float(vec2<f32>(f[0], f[5]));
  g[0] = unpack4x8snorm(u[0]);
  g[1] = unpack4x8unorm(u[1]);
  g[2] = vec4<f32>(unpack2x16unorm(u[2]), unpack2x16snorm(u[3]));
  g[3] = vec4<f32>(unpack2x16float(u[4]), unpack4x8snorm(u[5]).x, unpack4x8unorm(u[6]).x);
}`,
		in: map[string][]byte{"o": zeros(20), "g": zeros(96), "f": f32s(1.0, -1.0, 0.0, 0.5, 2.0, -2.0),
			"u": u32s(0x007F8100, 0xFF000000, 0xFFFF0000, 0x80017FFF, 0xC0003C00, 0x80, 0x33)},
		// snorm8: 127, -127 (0x81), 0, floor(0.5+63.5) = 64 -> 0x4000817F; unorm8: 255, 0, floor(0.5+127.5) = 128, clamp 255 -> 0xFF8000FF
		// snorm16: -32767 (0x8001), 32767 -> 0x7FFF8001; unorm16: floor(0.5+32767.5) = 32768, 65535 -> 0xFFFF8000
		// f16: 1.0 = 0x3C00, -2.0 = 0xC000 -> 0xC0003C00
		// unpack4x8snorm(0x007F8100) = (0, -1, 1, 0); unorm (0,0,0,1); unorm16 (0,1); snorm16 (1,-1); f16 (1,-2); -128 -> max(-128/127,-1) = -1; 51/255 = 0.2
		want: map[string][]byte{
			"o": u32s(0x4000817F, 0xFF8000FF, 0x7FFF8001, 0xFFFF8000, 0xC0003C00),
			"g": cat(f32s(0, -1, 1, 0), f32s(0, 0, 0, 1), f32s(0, 1, 1, -1), f32s(1, -2, -1, 0.2), zeros(32)),
		},
	})
}

func TestE2E_SelectCompareBoolVectors(t *testing.T) {
	runE2E(t, e2eCase{
		wgsl: `
@group(0) @binding(0) var<storage, read_write> o: array<u32, 12>;
@group(0) @binding(1) var<storage, read> a: vec4<i32>;
@group(0) @binding(2) var<storage, read> b: vec4<i32>;
@compute @workgroup_size(1) fn main() {
  let lt = a < b;
  let eq = a == b;
  o[0] = u32(all(lt));
  o[1] = u32(any(lt));
  o[2] = u32(all(eq | lt));
  o[3] = u32(any(eq & lt));
  let s = select(a, b, lt);
  o[4] = bitcast<u32>(s.x); o[5] = bitcast<u32>(s.y); o[6] = bitcast<u32>(s.z); o[7] = bitcast<u32>(s.w);
  o[8] = bitcast<u32>(select(a.x, b.x, a.w >= b.w));
  o[9] = u32(all(!lt == (a >= b)));
  let ne = a != b;
  o[10] = u32(ne.x) + 2u * u32(ne.y) + 4u * u32(ne.z) + 8u * u32(ne.w);
  o[11] = u32(all(vec2<bool>(true, a.x > 100)) || any(vec2<bool>(false, a.x < 100)));
}`,
		in: map[string][]byte{"o": zeros(48), "a": i32s(1, 5, -3, 7), "b": i32s(2, 5, -4, 7)},
		// lt = (T,F,F,F); eq = (F,T,F,T); all(lt) 0; any 1; eq|lt = (T,T,F,T) all 0; eq&lt all false: any 0
		// select(a,b,lt) = (2,5,-3,7); a.w>=b.w true -> b.x = 2; !lt == (a>=b) all true; ne = (T,F,T,F) -> 1+4 = 5; all(T,F)=F || any(F,T)=T -> 1
		want: map[string][]byte{"o": u32s(0, 1, 0, 0, 2, 5, 0xFFFFFFFD, 7, 2, 1, 5, 1)},
	})
}

func TestE2E_ShortCircuitAndCompoundAssignment(t *testing.T) {
	runE2E(t, e2eCase{
		wgsl: `
@group(0) @binding(0) var<storage, read_write> o: array<i32, 10>;
@group(0) @binding(1) var<storage, read> p: array<i32, 2>;
var<private> calls: i32;
fn side(v: bool) -> bool { calls += 1; return v; }
@compute @workgroup_size(1) fn main() {
  let t = p[0] > 0;
  let f = p[1] > 0;
  let r0 = f && side(true);
  o[0] = calls;
  let r1 = t || side(true);
  o[1] = calls;
  let r2 = t && side(false);
  o[2] = calls;
  let r3 = f || side(true);
  o[3] = calls;
  o[4] = i32(r0) + 2 * i32(r1) + 4 * i32(r2) + 8 * i32(r3);
  var x = 7;
  x += 3; x -= 1; x *= 5; x /= 2; x %= 7; x <<= 2u; x >>= 1u; x |= 16; x &= 26; x ^= 3;
  o[5] = x;
  var y = 5u;
  y++; y++; y--;
  o[6] = i32(y);
  var v = vec3<i32>(1, 2, 3);
  v += vec3<i32>(10);
  v *= 2;
  v.y -= 4;
  o[7] = v.x; o[8] = v.y; o[9] = v.z;
}`,
		in: map[string][]byte{"o": zeros(40), "p": i32s(1, 0)},
		// f&&side: not called (0); t||side: not called (0); t&&side(false): called (1) -> false; f||side(true): called (2) -> true
		// r = 0 + 2*1 + 0 + 8*1 = 10
		// x: 7+3=10, 9, 45, 22, 22%7=1, 1<<2=4, 4>>1=2, 2|16=18, 18&26=18, 18^3=17;  y = 6;  v = (11,12,13)*2 = (22,24,26), y-4 = 20
		want: map[string][]byte{"o": i32s(0, 0, 1, 2, 10, 17, 6, 22, 20, 26)},
	})
}

func TestE2E_NestedArraysDynamicIndexing(t *testing.T) {
	runE2E(t, e2eCase{
		wgsl: `
struct Cell { v: vec2<i32>, w: array<i32, 3> }
@group(0) @binding(0) var<storage, read_write> g: array<array<Cell, 2>, 2>;
@group(0) @binding(1) var<storage, read> ix: array<u32, 4>;
@group(0) @binding(2) var<storage, read_write> o: array<i32, 6>;
@compute @workgroup_size(1) fn main() {
  var loc: array<array<i32, 3>, 2>;
  for (var i = 0u; i < 2u; i++) { for (var j = 0u; j < 3u; j++) { loc[i][j] = i32(i * 10u + j); } }
  g[ix[0]][ix[1]].w[ix[2]] = loc[ix[1]][ix[2]];
  g[ix[1]][ix[0]].v[ix[1]] = 99;
  let c = g[ix[0]][ix[1]];
  o[0] = c.w[2];
  o[1] = loc[1][0];
  var m = mat2x2<f32>(1.0, 2.0, 3.0, 4.0);
  m[ix[1]][ix[0]] = 9.0;
  o[2] = i32(m[1].x);
  o[3] = i32(m[ix[0]][ix[1]]);
  let cst = array<i32, 4>(5, 6, 7, 8);
  o[4] = cst[ix[2]];
  var vv = vec4<i32>(1, 2, 3, 4);
  vv[ix[3]] = 40;
  o[5] = vv.w * 100 + vv[ix[1]];
}`,
		// Cell: v@0 (8) w@8 (12) size 24 align 8 -> g is 2x2x24 = 96 bytes
		in: map[string][]byte{"g": zeros(96), "ix": u32s(0, 1, 2, 3), "o": zeros(24)},
		// g[0][1].w[2] = loc[1][2] = 12: cell (0,1) at 24, w@8, element 2 -> byte 24+8+8 = 40
		// g[1][0].v[1] = 99: cell (1,0) at 48, v.y at 52
		// o = (12, 10, m[1].x = 9, m[0][1] = 2, cst[2] = 7, vv = (1,2,3,40): 4000+2)
		want: map[string][]byte{
			"g": cat(zeros(40), i32s(12), zeros(8), i32s(99), zeros(40)),
			"o": i32s(12, 10, 9, 2, 7, 4002),
		},
	})
}

func TestE2E_UniformPackedVec3(t *testing.T) {
	runE2E(t, e2eCase{
		wgsl: `
struct U { pos: vec3<f32>, scale: f32, dir: vec3<f32>, cnt: u32, m: mat3x3<f32>, tail: vec3<u32> }
@group(0) @binding(0) var<uniform> u: U;
@group(0) @binding(1) var<storage, read_write> o: array<f32, 10>;
@compute @workgroup_size(1) fn main() {
  let p = u.pos * u.scale + u.dir;
  o[0] = p.x; o[1] = p.y; o[2] = p.z;
  o[3] = f32(u.cnt);
  let q = u.m * u.dir;
  o[4] = q.x; o[5] = q.y; o[6] = q.z;
  o[7] = u.m[2][1];
  o[8] = f32(u.tail.z);
  o[9] = cross(u.pos, u.dir).z;
}`,
		// U: pos@0 scale@12 dir@16 cnt@28 m@32 (3 x 16) tail@80, size 96
		in: map[string][]byte{"u": cat(f32s(1, 2, 3, 2), f32s(1, 0, -1), u32s(7),
			f32s(1, 0, 0, 0, 0, 2, 0, 0, 0, 5, 3, 0), u32s(4, 5, 6, 0)), "o": zeros(40)},
		// p = (2,4,6)+(1,0,-1) = (3,4,5); m*dir = col0*1 + col2*-1 = (1,0,0) - (0,5,3) = (1,-5,-3); m[2][1] = 5; tail.z = 6
		// cross((1,2,3),(1,0,-1)).z = 1*0 - 2*1 = -2
		want: map[string][]byte{"o": f32s(3, 4, 5, 7, 1, -5, -3, 5, 6, -2)},
	})
}

func TestE2E_GeometricBuiltins(t *testing.T) {
	runE2E(t, e2eCase{
		wgsl: `
@group(0) @binding(0) var<storage, read_write> o: array<f32, 12>;
@group(0) @binding(1) var<storage, read> v: array<vec4<f32>, 2>;
@compute @workgroup_size(1) fn main() {
  let a = v[0].xyz;
  let b = v[1].xyz;
  o[0] = dot(a, b);
  o[1] = length(v[0].xy);
  o[2] = distance(v[0].xy, v[1].zw);
  let n = normalize(vec2<f32>(v[1].w, 0.0));
  o[3] = n.x; o[4] = n.y;
  let c = cross(a, b);
  o[5] = c.x; o[6] = c.y; o[7] = c.z;
  o[8] = dot(v[0], v[1]);
  o[9] = length(v[1].x);
  o[10] = max(v[0], v[1]).z;
  o[11] = dot(vec2<f32>(v[0].w), v[1].xy);
}`,
		in: map[string][]byte{"o": zeros(48), "v": f32s(3, 4, 0, 2, -1, 2, 6, 8)},
		// dot((3,4,0),(-1,2,6)) = 5; |(3,4)| = 5; |(3,4)-(6,8)| = 5; normalize((8,0)) = (1,0);
		// cross((3,4,0),(-1,2,6)) = (4*6-0*2, 0*-1-3*6, 3*2-4*-1) = (24,-18,10); dot4 = -3+8+0+16 = 21; length(-1) = 1; max z = 6; (2,2).(-1,2) = 2
		want: map[string][]byte{"o": f32s(5, 5, 5, 1, 0, 24, -18, 10, 21, 1, 6, 2)},
	})
}

func TestE2E_IntegerVectorsAndClamp(t *testing.T) {
	runE2E(t, e2eCase{
		wgsl: `
@group(0) @binding(0) var<storage, read_write> o: array<i32, 16>;
@group(0) @binding(1) var<storage, read> a: vec4<i32>;
@group(0) @binding(2) var<storage, read> b: vec4<i32>;
@group(0) @binding(3) var<storage, read_write> q: array<u32, 4>;
@compute @workgroup_size(1) fn main() {
  let d = a / b;
  o[0] = d.x; o[1] = d.y; o[2] = d.z; o[3] = d.w;
  let m = a % b;
  o[4] = m.x; o[5] = m.y; o[6] = m.z; o[7] = m.w;
  let s = 2 * a - b / 2;
  o[8] = s.x; o[9] = s.y; o[10] = s.z; o[11] = s.w;
  o[12] = clamp(a.x, -5, 5);
  o[13] = min(a.y, b.y) + max(a.z, b.z);
  let n = abs(-a);
  o[14] = n.y;
  o[15] = dot(a.xy, b.zw);
  let ua = vec2<u32>(7u, 0xFFFFFFFFu);
  let r = ua / vec2<u32>(q[0], 2u) + ua % vec2<u32>(4u, q[0]);
  q[1] = r.x; q[2] = r.y;
  q[3] = clamp(q[0] + 9u, 2u, 5u) + min(q[0], 3u) + max(q[0], 3u);
}`,
		in: map[string][]byte{"o": zeros(64), "a": i32s(intMin, -7, 9, 100), "b": i32s(-1, 2, 0, -8), "q": u32s(0, 0, 0, 0)},
		// a/b = (INT_MIN/-1 = INT_MIN, -3, 9/0 = 9, -12); a%b = (0, -1, 0, 4)
		// 2*a - b/2 = (0 - 0 [INT_MIN*2 wraps to 0; -1/2 = 0], -14-1 = -15, 18-0 = 18, 200+4 = 204)
		// clamp(INT_MIN,-5,5) = -5; min(-7,2) + max(9,0) = 2; abs(-a).y = 7; dot((INT_MIN,-7),(0,-8)) = 56
		// ua/(0,2) = (7, 0x7FFFFFFF); ua%(4,0) = (3, 0) -> (10, 0x7FFFFFFF); clamp(9,2,5)+min(0,3)+max(0,3) = 5+0+3 = 8
		want: map[string][]byte{
			"o": i32s(intMin, -3, 9, -12, 0, -1, 0, 4, 0, -15, 18, 204, -5, 2, 7, 56),
			"q": u32s(0, 10, 0x7FFFFFFF, 8),
		},
	})
}

func TestE2E_ModfFrexpLdexp(t *testing.T) {
	runE2E(t, e2eCase{
		wgsl: `
@group(0) @binding(0) var<storage, read_write> o: array<f32, 10>;
@group(0) @binding(1) var<storage, read> f: array<f32, 4>;
@group(0) @binding(2) var<storage, read> e: array<i32, 2>;
@compute @workgroup_size(1) fn main() {
  let m = modf(f[0]);
  o[0] = m.fract; o[1] = m.whole;
  let n = modf(vec2<f32>(f[1], f[2]));
  o[2] = n.fract.x; o[3] = n.whole.x; o[4] = n.fract.y; o[5] = n.whole.y;
  let fr = frexp(f[3]);
  o[6] = fr.fract; o[7] = f32(fr.exp);
  o[8] = ldexp(f[0], e[0]);
  o[9] = ldexp(f[2], e[1]);
}`,
		in: map[string][]byte{"o": zeros(40), "f": f32s(3.75, -2.5, 0.25, 48.0), "e": i32s(3, -2)},
		// modf(3.75) = (0.75, 3); modf(-2.5) = (-0.5, -2); modf(0.25) = (0.25, 0); frexp(48) = 0.75 * 2^6; ldexp(3.75,3) = 30; ldexp(0.25,-2) = 0.0625
		want: map[string][]byte{"o": f32s(0.75, 3, -0.5, -2, 0.25, 0, 0.75, 6, 30, 0.0625)},
	})
}

func TestE2E_StoragePointerHelpersAndLetPointers(t *testing.T) {
	runE2E(t, e2eCase{
		wgsl: `
struct S { head: i32, vals: array<i32> }
@group(0) @binding(0) var<storage, read_write> s: S;
@group(0) @binding(1) var<storage, read_write> o: array<i32, 6>;
fn total(n: u32) -> i32 {
  var t = 0;
  for (var k = 0u; k < n; k++) { t += s.vals[k]; }
  return t;
}
fn bump(p: ptr<storage, i32, read_write>, by: i32) { *p = *p + by; }
fn fill(p: ptr<function, array<i32, 3>>) { for (var k = 0; k < 3; k++) { (*p)[k] = k * k + 1; } }
@compute @workgroup_size(1) fn main() {
  o[0] = total(arrayLength(&s.vals));
  bump(&s.head, 5);
  s.vals[1] = s.vals[1] - 20;
  let p = &s.vals[2];
  *p = *p * 2;
  let q = &o[1];
  *q = s.head;
  var arr: array<i32, 3>;
  fill(&arr);
  let e = &arr[2];
  *e += 100;
  o[2] = arr[0]; o[3] = arr[1]; o[4] = arr[2];
  o[5] = total(2u);
}`,
		in: map[string][]byte{"s": i32s(1, 10, 20, 30), "o": zeros(24)},
		// total(3) = 60; head = 6; vals[1] = 0; vals[2] = 60; o[1] = 6; arr = (1,2,5), arr[2] += 100 -> 105; total(2) = 10 + 0 = 10
		want: map[string][]byte{"s": i32s(6, 10, 0, 60), "o": i32s(60, 6, 1, 2, 105, 10)},
	})
}

func TestE2E_PrivateAndWorkgroupVariables(t *testing.T) {
	runE2E(t, e2eCase{
		wgsl: `
struct P { a: i32, b: vec2<f32>, c: array<u32, 2> }
var<private> ps: P = P(3, vec2<f32>(1.5, 2.5), array<u32, 2>(7u, 8u));
var<private> pz: vec3<i32>;
var<private> pm: mat2x2<f32> = mat2x2<f32>(1.0, 0.0, 0.0, 1.0);
var<workgroup> ws: P;
var<workgroup> wm: array<vec3<f32>, 2>;
const K = 4;
const ARR = array<i32, 3>(10, 20, 30);
@group(0) @binding(0) var<storage, read_write> o: array<f32, 12>;
@group(0) @binding(1) var<storage, read> ix: array<u32, 2>;
fn use_private() -> i32 { pz.y += K; return pz.y; }
@compute @workgroup_size(1) fn main(@builtin(local_invocation_index) li: u32) {
  o[0] = f32(ps.a) + ps.b.y + f32(ps.c[1]);
  o[1] = f32(pz.x + pz.y + pz.z);
  o[2] = f32(use_private() + use_private());
  o[3] = f32(ws.a) + ws.b.x + f32(ws.c[ix[1]]);
  ws.b = ps.b * 2.0;
  ws.c[ix[1]] = 5u;
  workgroupBarrier();
  o[4] = ws.b.x + ws.b.y + f32(ws.c[1]);
  wm[1] = vec3<f32>(1.0, 2.0, 3.0);
  o[5] = wm[0].z + wm[1].y;
  pm[1] = pm[1] * 3.0;
  o[6] = pm[0].x + pm[1].y;
  o[7] = f32(ARR[ix[1]] + ARR[2]);
  var copy = ps;
  copy.c[0] = 1u;
  o[8] = f32(copy.c[0] + ps.c[0]);
  o[9] = f32(li);
  let w2 = ws;
  o[10] = w2.b.y;
  o[11] = f32(K * 2);
}`,
		in: map[string][]byte{"o": zeros(48), "ix": u32s(0, 1)},
		// 3+2.5+8 = 13.5; zero-initialised private 0; 4+8 = 12; zero workgroup 0; ws.b = (3,5), c[1] = 5 -> 13;
		// 0+2 = 2; 1+3 = 4; 20+30 = 50; 1+7 = 8; index 0; 5; 8
		want: map[string][]byte{"o": f32s(13.5, 0, 12, 0, 13, 2, 4, 50, 8, 0, 5, 8)},
	})
}

func TestE2E_Collatz(t *testing.T) {
	runE2E(t, e2eCase{
		wgsl: `
@group(0) @binding(0) var<storage, read_write> v: array<u32>;
fn collatz(n_base: u32) -> u32 {
  var n = n_base;
  var i = 0u;
  loop {
    if n <= 1u { break; }
    if n % 2u == 0u { n = n / 2u; } else { n = 3u * n + 1u; }
    i = i + 1u;
  }
  return i;
}
@compute @workgroup_size(1) fn main(@builtin(global_invocation_id) g: vec3<u32>) {
  v[g.x] = collatz(v[g.x]);
  v[g.x + 1u] = collatz(v[g.x + 1u]);
}`,
		in: map[string][]byte{"v": u32s(27, 97, 1)},
		// 27 takes 111 steps, 97 takes 118 steps
		want: map[string][]byte{"v": u32s(111, 118, 1)},
	})
}

// A pointer into a storage buffer passed to a helper that writes through it.
// Two naga defects show up in the emitted text, and the reader refuses both
// with a precise reason instead of guessing:
//   - the entry point declares the buffer `device S const&` although the helper
//     writes through the `device int&` it is handed (const-ness is dropped);
//   - under the ReadZeroSkipWrite policy the argument becomes
//     `cond ? s.vals[1] : DefaultConstructible()`, a prvalue that cannot bind
//     to a non-const reference (ill-formed C++).
func TestE2E_PointerToRuntimeArrayElementArgument(t *testing.T) {
	runE2E(t, e2eCase{
		wgsl: `
struct S { head: i32, vals: array<i32> }
@group(0) @binding(0) var<storage, read_write> s: S;
fn bump(p: ptr<storage, i32, read_write>, by: i32) { *p = *p + by; }
@compute @workgroup_size(1) fn main() {
  bump(&s.vals[1], -20);
}`,
		in:       map[string][]byte{"s": i32s(1, 10, 20, 30)},
		want:     map[string][]byte{"s": i32s(1, 10, 0, 30)},
		nagaBug:  "pointer argument into a storage buffer: buffer declared const / prvalue bound to a reference",
		wantSkip: "no matching function for call of bump|store through a const access path",
	})
}

const oobWGSL = `
@group(0) @binding(0) var<storage, read_write> a: array<i32, 4>;
@group(0) @binding(1) var<storage, read_write> r: array<i32>;
@group(0) @binding(2) var<storage, read> ix: array<i32, 3>;
@compute @workgroup_size(1) fn main() {
  var loc = array<i32, 4>(1, 2, 3, 4);
  a[0] = loc[ix[0]];
  a[ix[0]] = 9;
  a[1] = r[ix[0]];
  r[ix[0]] = 5;
  a[2] = loc[ix[1]] + 1;
  r[ix[2]] = a[ix[2]] + 40;
  var v = vec4<i32>(1, 2, 3, 4);
  a[3] = v[ix[0]];
}`

// Out-of-bounds indices under the ReadZeroSkipWrite policy: reads give zero,
// writes are dropped.
func TestE2E_OutOfBoundsReadZeroSkipWrite(t *testing.T) {
	runE2E(t, e2eCase{
		wgsl: oobWGSL,
		only: "default",
		in:   map[string][]byte{"a": i32s(100, 101, 102, 103), "r": i32s(10, 11, 12), "ix": i32s(7, -1, 2)},
		// a[0] = 0; a[7] skipped; a[1] = 0; r[7] skipped; a[2] = 0+1; r[2] = 1+40; a[3] = 0
		want: map[string][]byte{"a": i32s(0, 0, 1, 0), "r": i32s(10, 11, 41)},
	})
}

// The same program under the Restrict policy: indices are clamped into range.
func TestE2E_OutOfBoundsRestrict(t *testing.T) {
	runE2E(t, e2eCase{
		wgsl: oobWGSL,
		only: "restrict",
		in:   map[string][]byte{"a": i32s(100, 101, 102, 103), "r": i32s(10, 11, 12), "ix": i32s(7, -1, 2)},
		// loc[3] = 4; a[3] = 9; a[1] = r[2] = 12; r[2] = 5; loc[min(unsigned(-1),3)] + 1 = 5; r[2] = a[2] + 40 = 45; a[3] = v[3] = 4
		want: map[string][]byte{"a": i32s(4, 12, 5, 4), "r": i32s(10, 11, 45)},
		// naga leaves the index of a runtime-sized array that is the whole
		// buffer unclamped (`r[_e24]`), so the emitted text really is out of bounds
		nagaBug:  "Restrict policy does not clamp indices into a whole-buffer runtime-sized array",
		wantTrap: "index 7 beyond the runtime array's real length 3",
	})
}

// Restrict policy where naga does clamp: fixed arrays, vectors, matrices and
// a runtime-sized array that is the last member of a struct.
func TestE2E_OutOfBoundsRestrictClamped(t *testing.T) {
	runE2E(t, e2eCase{
		wgsl: `
struct R { n: i32, d: array<i32> }
@group(0) @binding(0) var<storage, read_write> a: array<i32, 4>;
@group(0) @binding(1) var<storage, read_write> r: R;
@group(0) @binding(2) var<storage, read> ix: array<i32, 3>;
@compute @workgroup_size(1) fn main() {
  var loc = array<i32, 4>(1, 2, 3, 4);
  a[0] = loc[ix[0]];
  a[ix[0]] = 9;
  a[1] = r.d[ix[0]];
  r.d[ix[0]] = 5;
  a[2] = loc[ix[1]] + 1;
  var m = mat2x2<f32>(1.0, 2.0, 3.0, 4.0);
  r.n = i32(m[ix[0]][ix[0]]);
}`,
		only: "restrict",
		in:   map[string][]byte{"a": i32s(100, 101, 102, 103), "r": i32s(0, 10, 11, 12), "ix": i32s(7, -1, 2)},
		// loc[3] = 4; a[3] = 9; a[1] = d[2] = 12; d[2] = 5; loc[3]+1 = 5; m[1][1] = 4
		want: map[string][]byte{"a": i32s(4, 12, 5, 9), "r": i32s(4, 10, 11, 5)},
	})
}

// Without a policy the out-of-range accesses are undefined behaviour in MSL:
// the reader traps at the first one.
func TestE2E_OutOfBoundsUnchecked(t *testing.T) {
	runE2E(t, e2eCase{
		wgsl:     oobWGSL,
		only:     "unchecked",
		in:       map[string][]byte{"a": i32s(100, 101, 102, 103), "r": i32s(10, 11, 12), "ix": i32s(7, -1, 2)},
		wantTrap: "array index 7 out of range [0,4) in loc",
	})
}

const wgReadWGSL = `
var<workgroup> w: array<u32, 4>;
var<workgroup> cnt: atomic<u32>;
@group(0) @binding(0) var<storage, read_write> o: array<u32, 3>;
@compute @workgroup_size(1) fn main() {
  o[0] = w[2] + 1u;
  w[1] = 5u;
  o[1] = w[1];
  o[2] = atomicAdd(&cnt, 3u) + atomicLoad(&cnt);
}`

// WGSL zero-initialises workgroup memory; naga does so when
// ZeroInitializeWorkgroupMemory is on.
func TestE2E_WorkgroupZeroInit(t *testing.T) {
	runE2E(t, e2eCase{
		wgsl: wgReadWGSL,
		in:   map[string][]byte{"o": u32s(9, 9, 9)},
		want: map[string][]byte{"o": u32s(1, 5, 3)},
	})
}

// With the option off the emitted kernel reads threadgroup memory nobody
// wrote: undefined in MSL, so the reader traps.
func TestE2E_WorkgroupNoZeroInitTraps(t *testing.T) {
	runE2E(t, e2eCase{
		wgsl:     wgReadWGSL,
		only:     "default",
		variant:  func(o *msl.Options) { o.ZeroInitializeWorkgroupMemory = false },
		in:       map[string][]byte{"o": u32s(9, 9, 9)},
		wantTrap: "read of uninitialised threadgroup memory w",
	})
}

// Only the invocation with local id 0 zeroes workgroup memory (the others wait
// at the barrier); an invocation with another id run on its own therefore sees
// it uninitialised.  Harnesses must run invocation (0,0,0) to judge such code.
func TestE2E_WorkgroupZeroInitOnlyByInvocationZero(t *testing.T) {
	runE2E(t, e2eCase{
		wgsl: `
var<workgroup> w: array<u32, 4>;
@group(0) @binding(0) var<storage, read_write> o: array<u32, 1>;
@compute @workgroup_size(2) fn main() { o[0] = w[2] + 1u; }`,
		only:     "default",
		lid:      [3]uint32{1, 0, 0},
		wgSize:   [3]uint32{2, 1, 1},
		in:       map[string][]byte{"o": u32s(9)},
		wantTrap: "read of uninitialised threadgroup memory w",
	})
}

func TestE2E_InfiniteLoopIsFuel(t *testing.T) {
	for _, bounding := range []bool{true, false} {
		src := compileMSL(t, `
@group(0) @binding(0) var<storage, read_write> o: array<u32, 1>;
@compute @workgroup_size(1) fn main() {
  loop { o[0] = o[0] + 1u; if o[0] == 0xFFFFFFFFu { break; } continuing { o[0] = o[0] & 7u; } }
}`, func() msl.Options { o := msl.DefaultOptions(); o.ForceLoopBounding = bounding; return o }())
		buf := u32s(0)
		out := Run(src, xrt.Input{Entry: "main_", Buffers: map[string][]byte{"buffer(0)": buf}, MaxSteps: 5000})
		if out.Skip != "fuel" {
			t.Fatalf("bounding=%v: want Skip fuel, got %+v", bounding, out)
		}
		if out.Steps < 5000 {
			t.Fatalf("steps = %d", out.Steps)
		}
	}
}

// Bounded loop: with ForceLoopBounding the loop_bound counter is a uint2
// decremented with borrow; the program's result must not change.
func TestE2E_LoopBoundingCounter(t *testing.T) {
	runE2E(t, e2eCase{
		wgsl: `
@group(0) @binding(0) var<storage, read_write> o: array<u32, 2>;
@compute @workgroup_size(1) fn main() {
  var n = 0u;
  var i = 0u;
  while i < 1000u { n += i; i++; }
  o[0] = n;
  var k = 10;
  loop { k -= 3; if k < 0 { break; } }
  o[1] = bitcast<u32>(k);
}`,
		in:   map[string][]byte{"o": zeros(8)},
		want: map[string][]byte{"o": u32s(499500, 0xFFFFFFFE)},
	})
}

// Integer pack/unpack and packed dot products take different code paths
// below MSL 2.1 (shifts and masks) and from 2.1 on (as_type of packed chars).
func TestE2E_Pack4xI8AndDot4(t *testing.T) {
	runE2E(t, e2eCase{
		wgsl: `
@group(0) @binding(0) var<storage, read_write> o: array<u32, 8>;
@group(0) @binding(1) var<storage, read> v: vec4<i32>;
@group(0) @binding(2) var<storage, read> u: array<u32, 2>;
@compute @workgroup_size(1) fn main() {
  o[0] = pack4xI8(v);
  o[1] = pack4xU8(vec4<u32>(v));
  o[2] = pack4xI8Clamp(v * 100);
  o[3] = pack4xU8Clamp(vec4<u32>(v * v * 40));
  let s = unpack4xI8(u[0]);
  o[4] = bitcast<u32>(s.x + s.y * 2 + s.z * 3 + s.w * 4);
  let w = unpack4xU8(u[0]);
  o[5] = w.x + w.y + w.z + w.w;
  o[6] = bitcast<u32>(dot4I8Packed(u[0], u[1]));
  o[7] = dot4U8Packed(u[0], u[1]);
}`,
		in: map[string][]byte{"o": zeros(32), "v": i32s(1, -2, 127, -128), "u": u32s(0x80FF7F01, 0x02020202)},
		// pack4xI8(1,-2,127,-128) = 01 FE 7F 80 -> 0x807FFE01; pack4xU8 of the same low bytes: 0x807FFE01
		// clamp(100,-200,12700,-12800 to [-128,127]) = 100,-128,127,-128 -> 0x807F8064
		// v*v*40 = 40,160,645160,655360 clamped to [0,255] = 40,160,255,255 -> 0xFFFFA028
		// unpack4xI8(0x80FF7F01) = (1,127,-1,-128): 1+254-3-512 = -260; unpack4xU8 = (1,127,255,128) sum 511
		// dot4I8 with (2,2,2,2) = 2*(1+127-1-128) = -2; dot4U8 = 2*511 = 1022
		want: map[string][]byte{"o": u32s(0x807FFE01, 0x807FFE01, 0x807F8064, 0xFFFFA028, 0xFFFFFEFC, 511, 0xFFFFFFFE, 1022)},
	})
}

// Several entry points, each using a subset of the runtime-sized buffers, with
// an explicit binding map: _mslBufferSizes has one member per runtime-sized
// global of the MODULE (size1, size2, size4 - the global indices), the kernels
// take only some of the buffers, and the reader must pair them up itself.
func TestE2E_BufferSizesAcrossEntryPoints(t *testing.T) {
	wgsl := `
struct H { n: u32, pad: u32, d: array<vec2<u32>> }
@group(0) @binding(0) var<uniform> cfg: vec4<u32>;
@group(0) @binding(1) var<storage, read_write> a: array<u32>;
@group(0) @binding(2) var<storage, read_write> b: array<vec4<f32>>;
var<private> unused_private: i32;
@group(1) @binding(0) var<storage, read_write> h: H;
@compute @workgroup_size(1) fn ea() { a[0] = arrayLength(&a) + cfg.x; a[cfg.y] = 77u; }
@compute @workgroup_size(1) fn eb() { h.n = arrayLength(&h.d) * 100u + arrayLength(&b); h.d[cfg.y].y = 5u; unused_private = 1; }
@compute @workgroup_size(1) fn ec() { a[1] = arrayLength(&h.d) + 10u * arrayLength(&a); }
`
	u8 := func(v uint8) *uint8 { return &v }
	rb := func(g, b uint32) ir.ResourceBinding { return ir.ResourceBinding{Group: g, Binding: b} }
	opts := msl.DefaultOptions()
	res := map[ir.ResourceBinding]msl.BindTarget{
		rb(0, 0): {Buffer: u8(3)},
		rb(0, 1): {Buffer: u8(6), Mutable: true},
		rb(0, 2): {Buffer: u8(4), Mutable: true},
		rb(1, 0): {Buffer: u8(0), Mutable: true},
	}
	opts.PerEntryPointMap = map[string]msl.EntryPointResources{
		"ea": {Resources: res, SizesBuffer: u8(9)},
		"eb": {Resources: res, SizesBuffer: u8(9)},
		"ec": {Resources: res, SizesBuffer: u8(12)},
	}
	src := compileMSL(t, wgsl, opts)
	u, err := Parse(src)
	if err != nil {
		t.Fatalf("%v\n%s", err, src)
	}
	if got := u.BufferSizeMembers(); fmt.Sprint(got) != "[1 2 4]" {
		t.Errorf("size members %v\n%s", got, src)
	}
	cfg := u32s(1000, 2, 0, 0)
	// ea: a has 5 elements
	a := u32s(0, 0, 0, 0, 0)
	out := u.Run(xrt.Input{Entry: "ea", Buffers: map[string][]byte{"buffer(3)": cfg, "buffer(6)": a}}, Config{})
	if !out.OK() || !bytes.Equal(a, u32s(1005, 0, 77, 0, 0)) {
		t.Errorf("ea: %+v a=% x\n%s", out, a, src)
	}
	// eb: h has 8 + 3*8 bytes -> 3 elements, b has 2 elements
	h := cat(u32s(0, 0), zeros(24))
	b := zeros(32)
	out = u.Run(xrt.Input{Entry: "eb", Buffers: map[string][]byte{"buffer(3)": cfg, "buffer(4)": b, "buffer(0)": h}}, Config{})
	if !out.OK() || !bytes.Equal(h, cat(u32s(302, 0), zeros(16), u32s(0, 5))) {
		t.Errorf("eb: %+v h=% x\n%s", out, h, src)
	}
	// ec: both a (7 elements) and h (1 element)
	a = zeros(28)
	h = zeros(16)
	out = u.Run(xrt.Input{Entry: "ec", Buffers: map[string][]byte{"buffer(6)": a, "buffer(0)": h}}, Config{})
	if !out.OK() || getU32(a, 4) != 71 {
		t.Errorf("ec: %+v a=% x\n%s", out, a, src)
	}
	// a sizes buffer supplied by the caller is used as given
	a = zeros(28)
	h = zeros(16)
	out = u.Run(xrt.Input{Entry: "ec", Buffers: map[string][]byte{"buffer(6)": a, "buffer(0)": h, "buffer(12)": u32s(12, 0, 32)}}, Config{})
	// size1 = 12 -> 3 elements of a; size4 = 32 -> (32-8)/8 = 3 elements of h.d
	if !out.OK() || getU32(a, 4) != 33 {
		t.Errorf("ec with caller sizes: %+v a=% x\n%s", out, a, src)
	}
}

func TestE2E_ArraysOfVec3StructsAndMatrices(t *testing.T) {
	runE2E(t, e2eCase{
		wgsl: `
struct E { p: vec3<f32>, k: f32 }
struct B { pts: array<vec3<f32>, 3>, es: array<E, 2>, ms: array<mat2x2<f32>, 2>, t: f32 }
@group(0) @binding(0) var<storage, read_write> b: B;
@group(0) @binding(1) var<storage, read> idx: array<u32, 2>;
@compute @workgroup_size(1) fn main() {
  let i = idx[0];
  let j = idx[1];
  b.pts[j] = b.pts[i] + b.pts[0];
  b.es[i].p = b.pts[j].zyx;
  b.es[i].k = b.es[0].k * 2.0;
  b.ms[i] = b.ms[0] * b.ms[0];
  b.t = b.ms[i][1][0] + b.pts[j][i];
  b.es[0] = b.es[1];
}`,
		// pts@0 (stride 16) es@48 (2 x 16) ms@80 (2 x 16) t@112, size 128
		in: map[string][]byte{
			"b":   cat(f32s(1, 2, 3, 0, 4, 5, 6, 0, 0, 0, 0, 0), f32s(0, 0, 0, 1.5, 0, 0, 0, 0), f32s(1, 2, 3, 4, 0, 0, 0, 0), f32s(0, 0, 0, 0)),
			"idx": u32s(1, 2),
		},
		// pts[2] = (5,7,9); es[1] = ((9,7,5), 3); ms[1] = m*m = columns (7,10),(15,22); t = 15 + 7; es[0] = es[1]
		want: map[string][]byte{
			"b": cat(f32s(1, 2, 3, 0, 4, 5, 6, 0, 5, 7, 9, 0), f32s(9, 7, 5, 3, 9, 7, 5, 3), f32s(1, 2, 3, 4, 7, 10, 15, 22), f32s(22, 0, 0, 0)),
		},
		mask: map[string][]byte{"b": padMask(128, [2]int{12, 16}, [2]int{28, 32}, [2]int{44, 48}, [2]int{116, 128})},
	})
}

func TestE2E_SwitchFormsAndCallsInLoopHeaders(t *testing.T) {
	runE2E(t, e2eCase{
		wgsl: `
@group(0) @binding(0) var<storage, read_write> o: array<u32, 8>;
@group(0) @binding(1) var<storage, read> x: array<u32, 4>;
var<private> ctr: u32;
fn sw(v: u32) -> u32 {
  var r = 0u;
  switch v {
    case 0u: { r = 1u; }
    case 1u, default: { r = 2u; }
    case 4294967295u: { r = 3u; }
  }
  return r;
}
fn next() -> u32 { ctr += 1u; return ctr; }
fn lt(a: u32, b: u32) -> bool { return a < b; }
@compute @workgroup_size(1) fn main() {
  o[0] = sw(x[0]); o[1] = sw(x[1]); o[2] = sw(x[2]); o[3] = sw(x[3]);
  var s = 0u;
  var i = 0u;
  loop {
    if !lt(i, 4u) { break; }
    s += i;
    continuing { i = next(); }
  }
  o[4] = s;
  o[5] = ctr;
  while lt(next(), 8u) { s += 10u; }
  o[6] = s;
  o[7] = ctr;
}`,
		in: map[string][]byte{"o": zeros(32), "x": u32s(0, 1, 7, 0xFFFFFFFF)},
		// sw: 1, 2, 2 (default), 3; loop sums 0+1+2+3 = 6 with ctr = 4; while: next() = 5,6,7 pass, 8 stops: s = 36, ctr = 8
		want: map[string][]byte{"o": u32s(1, 2, 2, 3, 6, 4, 36, 8)},
	})
}

func TestE2E_VectorBuiltinsWithBroadcast(t *testing.T) {
	runE2E(t, e2eCase{
		wgsl: `
@group(0) @binding(0) var<storage, read_write> o: array<f32, 12>;
@group(0) @binding(1) var<storage, read_write> q: array<i32, 12>;
@group(0) @binding(2) var<storage, read> f: vec4<f32>;
@compute @workgroup_size(1) fn main() {
  let m1 = mix(f.xy, f.zw, 0.5);
  let m2 = mix(f.xy, f.zw, vec2<f32>(0.0, 1.0));
  o[0] = m1.x; o[1] = m1.y; o[2] = m2.x; o[3] = m2.y;
  let c = clamp(vec3<f32>(-1.0, 0.5, 2.0) * f.y * 0.1, vec3<f32>(0.0), vec3<f32>(1.0));
  o[4] = c.x; o[5] = c.y; o[6] = c.z;
  let st = step(vec2<f32>(f.y * 0.1), vec2<f32>(0.5, 1.5));
  o[7] = st.x; o[8] = st.y;
  let sm = smoothstep(vec2<f32>(0.0), vec2<f32>(f.y), vec2<f32>(5.0, 20.0));
  o[9] = sm.x; o[10] = sm.y;
  o[11] = fma(f.xy, f.zw, vec2<f32>(1.0)).y;
  let bc = bitcast<vec2<i32>>(vec2<f32>(f.y * 0.1, f.y * -0.1));
  q[0] = bc.x; q[1] = bc.y;
  let a = abs(vec2<i32>(i32(f.x) - 3, 4));
  q[2] = a.x; q[3] = a.y;
  let mn = min(vec2<u32>(3u, 9u), vec2<u32>(u32(f.z) - 5u, 2u));
  q[4] = i32(mn.x); q[5] = i32(mn.y);
  let sg = sign(vec2<i32>(i32(f.x) - 5, i32(f.x)));
  q[6] = sg.x; q[7] = sg.y;
  q[8] = sign(i32(f.w));
  let sh = vec2<u32>(1u, 0x80000000u) << vec2<u32>(u32(f.w) + 11u, 1u);
  q[9] = bitcast<i32>(sh.x); q[10] = bitcast<i32>(sh.y);
  q[11] = (vec2<i32>(-16, 16) >> vec2<u32>(2u)).x;
}`,
		in: map[string][]byte{"o": zeros(48), "q": zeros(48), "f": f32s(0, 10, 10, 20)},
		// mix((0,10),(10,20),0.5) = (5,15); per-component (0,20); clamp((-1,0.5,2)) = (0,0.5,1); step(1, (0.5,1.5)) = (0,1)
		// smoothstep(0,10,(5,20)) = (0.5, 1); fma(10,20,1) = 201; bits of 1.0 / -1.0; abs(-3,4); min((3,9),(5,2)) = (3,2)
		// sign(-5,0) = (-1,0); sign(20) = 1; 1<<31, 0x80000000<<1 = 0; -16>>2 = -4
		want: map[string][]byte{
			"o": f32s(5, 15, 0, 20, 0, 0.5, 1, 0, 1, 0.5, 1, 201),
			"q": i32s(0x3F800000, -0x40800000, 3, 4, 3, 2, -1, 0, 1, intMin, 0, -4),
		},
	})
}

func TestE2E_StructValuesAndArrayCopies(t *testing.T) {
	runE2E(t, e2eCase{
		wgsl: `
struct In { a: i32, b: vec2<f32> }
struct Out { x: In, arr: array<In, 2>, n: i32 }
@group(0) @binding(0) var<storage, read_write> out: array<f32, 6>;
@group(0) @binding(1) var<storage, read> k: array<i32, 1>;
fn mk(a: i32) -> In { return In(a, vec2<f32>(f32(a), f32(a) * 0.5)); }
fn sum(o: Out) -> f32 { return f32(o.x.a) + o.arr[1].b.y + f32(o.n); }
@compute @workgroup_size(1) fn main() {
  var o = Out(mk(k[0]), array<In, 2>(mk(4), mk(6)), 8);
  o.arr[0] = o.x;
  o.x.b.x = 100.0;
  let c = o;
  o.n = 0;
  out[0] = sum(c);
  out[1] = c.arr[0].b.x;
  out[2] = c.x.b.x;
  out[3] = f32(o.n);
  var a2 = array<i32, 3>(1, 2, 3);
  var b2 = a2;
  b2[1] = 20;
  out[4] = f32(a2[1] + b2[1]);
  out[5] = sum(Out(In(1, vec2<f32>()), array<In, 2>(), 1));
}`,
		in: map[string][]byte{"out": zeros(24), "k": i32s(2)},
		// sum(c) = 2 + 3 + 8; arr[0] was copied from x before x.b.x changed: 2; c.x.b.x = 100; o.n = 0; 2 + 20; 1 + 0 + 1
		want: map[string][]byte{"out": f32s(13, 2, 100, 0, 22, 2)},
	})
}

func TestE2E_ScalarVectorMixing(t *testing.T) {
	runE2E(t, e2eCase{
		wgsl: `
@group(0) @binding(0) var<storage, read_write> o: array<i32, 9>;
@group(0) @binding(1) var<storage, read_write> g: array<f32, 6>;
@group(0) @binding(2) var<storage, read> k: array<i32, 2>;
@compute @workgroup_size(1) fn main() {
  let a = vec3<i32>(1, 2, 3) * k[0] + 1;
  o[0] = a.x; o[1] = a.y; o[2] = a.z;
  let b = 10 / vec2<i32>(k[0], -k[0]);
  o[3] = b.x; o[4] = b.y;
  let c = vec2<u32>(7u) % u32(k[1]);
  o[5] = i32(c.y);
  let d = k[0] - vec2<i32>(1, 5);
  o[6] = d.x; o[7] = d.y;
  o[8] = i32((vec2<i32>(k[0]) == vec2<i32>(3, 4)).x);
  let e = vec2<f32>(1.0, 2.0) / f32(k[1] / 2);
  g[0] = e.x; g[1] = e.y;
  let h = f32(k[1] / 2) / vec2<f32>(4.0, 8.0);
  g[2] = h.x; g[3] = h.y;
  let m = mat2x2<f32>(1.0, 2.0, 3.0, 4.0) * f32(k[0]);
  g[4] = m[1].y;
  g[5] = (f32(k[0]) * mat2x2<f32>(1.0, 2.0, 3.0, 4.0))[0].y;
}`,
		in:   map[string][]byte{"o": zeros(36), "g": zeros(24), "k": i32s(3, 4)},
		want: map[string][]byte{"o": i32s(4, 7, 10, 3, -3, 3, 2, -2, 1), "g": f32s(0.5, 1, 0.5, 0.25, 12, 6)},
	})
}
