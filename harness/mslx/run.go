package mslx

import (
	"fmt"
	"regexp"
	"sort"
	"strconv"
	"strings"

	"verif/harness/xrt"
)

// Config carries what the MSL text does not: Metal takes the threadgroup size
// from the dispatch call, not from the shader.
type Config struct {
	// ThreadgroupSize is threads_per_threadgroup; {0,0,0} means unknown.
	ThreadgroupSize [3]uint32
}

// Run executes one invocation of the kernel function in.Entry.  The
// threadgroup size is unknown, so built-ins that depend on it
// (thread_position_in_grid with a non-zero threadgroup position,
// thread_index_in_threadgroup with a non-zero y/z position, ...) make the run
// Skip; use RunSized to supply it.
func Run(src string, in xrt.Input) xrt.Outcome {
	return RunSized(src, in, Config{})
}

// RunSized is Run with the dispatch configuration.
func RunSized(src string, in xrt.Input, cfg Config) (out xrt.Outcome) {
	defer func() {
		if r := recover(); r != nil {
			out = xrt.Outcome{Skip: fmt.Sprintf("internal: %v", r)}
		}
	}()
	u, err := Parse(src)
	if err != nil {
		return xrt.Outcome{Skip: "parse: " + err.Error()}
	}
	return u.Run(in, cfg)
}

// Run executes one invocation of the kernel function in.Entry of a parsed unit.
func (u *Unit) Run(in xrt.Input, cfg Config) (out xrt.Outcome) {
	it := &interp{u: u, maxSteps: in.MaxSteps, trace: in.TraceAccesses,
		globals: map[*Decl]*ref{}, globalsB: map[*Decl]bool{}, ptrs: map[*region]map[int]*ref{}}
	if it.maxSteps <= 0 {
		it.maxSteps = 1_000_000
	}
	defer func() {
		out.Steps = it.steps
		if in.TraceAccesses {
			out.Accesses = it.accesses
		}
		if r := recover(); r != nil {
			switch e := r.(type) {
			case trapErr:
				out.Trap = e.msg
			case skipErr:
				out.Skip = e.msg
			default:
				out.Skip = fmt.Sprintf("internal: %v", r)
			}
		}
	}()
	var fn *FuncDecl
	for _, f := range u.funcs[in.Entry] {
		if f.Stage != "" {
			fn = f
		}
	}
	if fn == nil {
		if len(u.funcs[in.Entry]) > 0 {
			skipf("function %s is not an entry point", in.Entry)
		}
		skipf("entry point %s not found", in.Entry)
	}
	if fn.Stage != "kernel" {
		skipf("entry point %s is a %s function; only kernel functions are executed", in.Entry, fn.Stage)
	}
	if fn.Body == nil {
		skipf("entry point %s has no body", in.Entry)
	}
	fr := &frame{fn: fn, vars: map[*Decl]*ref{}}
	it.bindEntry(fn, fr, in, cfg)
	it.execBlock(fn.Body.Stmts, fr)
	return out
}

func slotKey(pd *VarDecl) string {
	for _, a := range pd.Attrs {
		switch a.Name {
		case "buffer", "texture", "sampler", "threadgroup":
			return a.Name + "(" + strings.TrimSpace(a.Args) + ")"
		}
	}
	return ""
}

// SlotKeys returns, for the kernel entry, the buffer slot keys of its
// device/constant parameters together with the byte size of the pointee type
// (for runtime-sized types: the size with one array element).
func (u *Unit) SlotKeys(entry string) map[string]int {
	out := map[string]int{}
	for _, f := range u.funcs[entry] {
		if f.Stage == "" {
			continue
		}
		for _, pd := range f.Params {
			if pd.Type.Space != "device" && pd.Type.Space != "constant" {
				continue
			}
			key := bufferKey(pd)
			t := pd.typ
			if t != nil && t.Kind == KPointer {
				t = t.Elem
			}
			if t != nil && t.Kind == KStruct && t.Struct.Name == "_mslBufferSizes" {
				continue // synthesised by Run
			}
			if t != nil {
				out[key] = t.size
			}
		}
	}
	return out
}

func bufferKey(pd *VarDecl) string {
	if k := slotKey(pd); k != "" {
		return k
	}
	return "arg:" + pd.Name
}

func (it *interp) bindEntry(fn *FuncDecl, fr *frame, in xrt.Input, cfg Config) {
	tt := it.u.tt
	nwg := in.NumWorkgroups
	if nwg == [3]uint32{} {
		nwg = [3]uint32{1, 1, 1}
	}
	size := cfg.ThreadgroupSize
	sizeKnown := size != [3]uint32{}
	type pending struct {
		pd *VarDecl
	}
	var sizesParam *VarDecl
	bound := map[*VarDecl]*region{}
	for _, pd := range fn.Params {
		t := pd.typ
		if t == nil {
			skipf("%s: parameter %s has an unresolved type", pd.P, pd.Name)
		}
		// built-in inputs
		builtin := ""
		for _, a := range pd.Attrs {
			switch a.Name {
			case "thread_position_in_grid", "thread_position_in_threadgroup", "thread_index_in_threadgroup",
				"threadgroup_position_in_grid", "threadgroups_per_grid", "threads_per_threadgroup", "threads_per_grid",
				"dispatch_threads_per_threadgroup", "grid_size", "grid_origin":
				builtin = a.Name
			case "thread_index_in_simdgroup", "simdgroup_index_in_threadgroup", "threads_per_simdgroup",
				"simdgroups_per_threadgroup", "thread_execution_width", "thread_index_in_quadgroup", "quadgroup_index_in_threadgroup":
				skipf("%s: SIMD-group built-in [[%s]] is not supported", pd.P, a.Name)
			}
		}
		if builtin != "" {
			var v [3]uint32
			needSize := func(why string) {
				if !sizeKnown {
					skipf("[[%s]] needs the threadgroup size (%s), which the MSL text does not carry; use RunSized", builtin, why)
				}
			}
			switch builtin {
			case "thread_position_in_threadgroup":
				v = in.LocalID
			case "threadgroup_position_in_grid":
				v = in.WorkgroupID
			case "threadgroups_per_grid":
				v = nwg
			case "threads_per_threadgroup", "dispatch_threads_per_threadgroup":
				needSize("it is the threadgroup size")
				v = size
			case "thread_position_in_grid":
				if in.WorkgroupID != [3]uint32{} {
					needSize("threadgroup position is non-zero")
				}
				for i := 0; i < 3; i++ {
					v[i] = in.WorkgroupID[i]*size[i] + in.LocalID[i]
				}
			case "thread_index_in_threadgroup":
				if in.LocalID[1] != 0 || in.LocalID[2] != 0 {
					needSize("thread position has a non-zero y or z")
				}
				v[0] = in.LocalID[0] + in.LocalID[1]*size[0] + in.LocalID[2]*size[0]*size[1]
			case "threads_per_grid", "grid_size":
				needSize("it is the grid size")
				for i := 0; i < 3; i++ {
					v[i] = nwg[i] * size[i]
				}
			case "grid_origin":
			}
			if pd.Type.Ref || pd.Type.Ptr > 0 || !(t.Kind == KScalar || t.Kind == KVector) || !t.S.isInt() || t.S.bits() < 16 {
				skipf("%s: built-in parameter %s of type %s", pd.P, pd.Name, t)
			}
			val := Value{T: t, W: make([]uint64, t.ncomp())}
			for i := range val.W {
				val.W[i] = normInt(t.S, uint64(v[i]))
			}
			fr.vars[pd.decl] = it.materialise(val, pd.Name)
			continue
		}
		switch pd.Type.Space {
		case "device", "constant":
			pt := t
			isPtr := false
			if t.Kind == KPointer {
				pt = t.Elem
				isPtr = true
			} else if !pd.Type.Ref {
				skipf("%s: %s parameter %s is neither a reference nor a pointer", pd.P, pd.Type.Space, pd.Name)
			}
			if pt.Kind == KStruct && pt.Struct.Name == "_mslBufferSizes" {
				if _, given := in.Buffers[bufferKey(pd)]; !given {
					sizesParam = pd
					continue
				}
			}
			key := bufferKey(pd)
			buf, ok := in.Buffers[key]
			if !ok {
				skipf("no buffer bound to %s (parameter %s of %s)", key, pd.Name, fn.Name)
			}
			r := &region{name: pd.Name, slot: key, space: pd.Type.Space, b: buf, bound: true,
				ro: pd.Type.Space == "constant" || pd.Type.Const}
			bound[pd] = r
			rf := &ref{r: r, t: pt, ro: r.ro}
			if isPtr {
				fr.vars[pd.decl] = it.materialise(Value{T: t, P: rf}, pd.Name)
			} else {
				fr.vars[pd.decl] = rf
			}
		case "threadgroup":
			pt := t
			if t.Kind == KPointer {
				pt = t.Elem
			}
			r := newRegion(pd.Name, "threadgroup", pt.size, false)
			rf := &ref{r: r, t: pt}
			if t.Kind == KPointer {
				fr.vars[pd.decl] = it.materialise(Value{T: t, P: rf}, pd.Name)
			} else {
				fr.vars[pd.decl] = rf
			}
		default:
			if t.Kind == KOpaque {
				skipf("%s: parameter %s of type %s (textures and samplers are not supported)", pd.P, pd.Name, t)
			}
			for _, a := range pd.Attrs {
				if a.Name == "stage_in" {
					skipf("%s: [[stage_in]] parameter in a kernel", pd.P)
				}
			}
			skipf("%s: parameter %s of type %s has no supported attribute", pd.P, pd.Name, typeExprString(pd.Type))
		}
	}
	if sizesParam != nil {
		it.bindBufferSizes(fn, fr, sizesParam, bound)
	}
	_ = tt
}

var sizeMemberRE = regexp.MustCompile(`^size([0-9]+)$`)

// flexInfo locates the runtime-sized array inside a buffer's type: its byte
// offset and element stride.
func flexInfo(t *Type) (off, stride int, ok bool) {
	if t.Kind == KArray && t.Flexible {
		return 0, t.Elem.size, true
	}
	if t.Kind == KStruct {
		for _, m := range t.Struct.Members {
			if m.T.Kind == KArray && m.T.Flexible {
				return m.Offset, m.T.Elem.size, true
			}
		}
	}
	return 0, 0, false
}

// bindBufferSizes synthesises the `_mslBufferSizes` argument: one `uint
// sizeN` member per runtime-sized buffer, N being naga's global-variable
// index.  The kernel's buffer parameters and the struct members are both in
// global-variable order, so the k-th runtime-sized parameter belongs to the
// k-th member when the counts agree.  When the struct has more members than
// the kernel has runtime-sized parameters (the module has further entry
// points), the members this kernel can reach are matched against the
// parameters using the order and the `(_buffer_sizes.sizeN - OFF - ELEM) /
// STRIDE` expressions naga emits next to each use.
func (it *interp) bindBufferSizes(fn *FuncDecl, fr *frame, sp *VarDecl, bound map[*VarDecl]*region) {
	st := sp.typ
	if st.Kind == KPointer {
		st = st.Elem
	}
	type cand struct {
		pd          *VarDecl
		off, stride int
	}
	var params []cand
	for _, pd := range fn.Params {
		r := bound[pd]
		if r == nil {
			continue
		}
		pt := pd.typ
		if pt.Kind == KPointer {
			pt = pt.Elem
		}
		if off, stride, ok := flexInfo(pt); ok {
			params = append(params, cand{pd, off, stride})
		}
	}
	var members []*MemberInfo
	for _, m := range st.Struct.Members {
		if sizeMemberRE.MatchString(m.Name) && m.T.Kind == KScalar && m.T.S == SUInt {
			members = append(members, m)
		}
	}
	r := newRegion(sp.Name, "constant", st.size, true)
	assign := map[*MemberInfo]cand{}
	switch {
	case len(params) == len(members):
		for i, m := range members {
			assign[m] = params[i]
		}
	case len(params) < len(members):
		used := it.u.sizeUses(fn)
		// enumerate order-preserving injections params -> members
		var sols [][]int
		var rec func(pi, mi int, cur []int)
		rec = func(pi, mi int, cur []int) {
			if pi == len(params) {
				// every member the kernel reads must be assigned
				got := map[string]bool{}
				for _, j := range cur {
					got[members[j].Name] = true
				}
				for name := range used {
					if !got[name] {
						return
					}
				}
				sols = append(sols, append([]int(nil), cur...))
				return
			}
			for j := mi; j < len(members); j++ {
				if sigs, ok := used[members[j].Name]; ok {
					match := len(sigs) == 0
					for _, s := range sigs {
						if s[0] == params[pi].off && s[1] == params[pi].stride {
							match = true
						}
					}
					if !match {
						continue
					}
				}
				rec(pi+1, j+1, append(cur, j))
			}
		}
		rec(0, 0, nil)
		// the solutions may differ only in members the kernel never reads
		var pick []int
		for _, s := range sols {
			if pick == nil {
				pick = s
				continue
			}
			for pi := range s {
				a, b := members[s[pi]].Name, members[pick[pi]].Name
				_, ua := used[a]
				_, ub := used[b]
				if a != b && (ua || ub) {
					skipf("cannot tell which _mslBufferSizes member belongs to which buffer of %s (supply the sizes buffer in Input.Buffers)", fn.Name)
				}
			}
		}
		if pick == nil {
			skipf("cannot match the _mslBufferSizes members to the runtime-sized buffers of %s", fn.Name)
		}
		for pi, j := range pick {
			assign[members[j]] = params[pi]
		}
	default:
		skipf("%s has %d runtime-sized buffers but _mslBufferSizes has only %d size members", fn.Name, len(params), len(members))
	}
	for m, c := range assign {
		n := len(bound[c.pd].b)
		putScalar(r.b[m.Offset:], SUInt, uint64(uint32(n)))
	}
	r.ro = true
	rf := &ref{r: r, t: st, ro: true}
	if sp.typ.Kind == KPointer {
		fr.vars[sp.decl] = it.materialise(Value{T: sp.typ, P: rf}, sp.Name)
	} else {
		fr.vars[sp.decl] = rf
	}
}

// sizeUses collects, over the functions reachable from fn, the
// `_mslBufferSizes` members read and the (offset, stride) pairs of the
// `(x.sizeN - OFF - ELEM) / STRIDE` expressions they appear in.
func (u *Unit) sizeUses(fn *FuncDecl) map[string][][2]int {
	out := map[string][][2]int{}
	seen := map[*FuncDecl]bool{}
	var visitFn func(f *FuncDecl)
	var walkE func(e Expr)
	var walkS func(s Stmt)
	isSizeMember := func(e Expr) (string, bool) {
		m, ok := stripParens(e).(*Member)
		if !ok || !sizeMemberRE.MatchString(m.Name) {
			return "", false
		}
		t := u.etype[m.X]
		if t != nil && t.Kind == KStruct && t.Struct.Name == "_mslBufferSizes" {
			return m.Name, true
		}
		return "", false
	}
	lit := func(e Expr) (int, bool) {
		if l, ok := stripParens(e).(*IntLit); ok {
			return int(l.Val), true
		}
		return 0, false
	}
	walkE = func(e Expr) {
		switch x := e.(type) {
		case nil:
		case *Paren:
			walkE(x.X)
		case *Unary:
			walkE(x.X)
		case *Postfix:
			walkE(x.X)
		case *Binary:
			// (size - OFF - ELEM) / STRIDE
			if x.Op == "/" {
				if stride, ok := lit(x.R); ok {
					if s1, ok := stripParens(x.L).(*Binary); ok && s1.Op == "-" {
						if s2, ok := stripParens(s1.L).(*Binary); ok && s2.Op == "-" {
							if name, ok := isSizeMember(s2.L); ok {
								if off, ok := lit(s2.R); ok {
									out[name] = append(out[name], [2]int{off, stride})
								}
							}
						}
					}
				}
			}
			walkE(x.L)
			walkE(x.R)
		case *Assign:
			walkE(x.L)
			walkE(x.R)
		case *Cond:
			walkE(x.C)
			walkE(x.T)
			walkE(x.F)
		case *Comma:
			walkE(x.L)
			walkE(x.R)
		case *Call:
			for _, a := range x.Args {
				walkE(a)
			}
			for _, c := range x.cands {
				visitFn(c)
			}
		case *MethodCall:
			walkE(x.Recv)
			for _, a := range x.Args {
				walkE(a)
			}
		case *Member:
			if name, ok := isSizeMember(x); ok {
				if _, have := out[name]; !have {
					out[name] = nil
				}
			}
			walkE(x.X)
		case *Index:
			walkE(x.X)
			walkE(x.I)
		case *Cast:
			walkE(x.X)
		case *Construct:
			for _, a := range x.Args {
				walkE(a)
			}
		case *InitList:
			for _, a := range x.Elems {
				walkE(a)
			}
		}
	}
	walkS = func(s Stmt) {
		switch x := s.(type) {
		case nil:
		case *Block:
			for _, st := range x.Stmts {
				walkS(st)
			}
		case *DeclStmt:
			for _, vd := range x.Vars {
				walkE(vd.Init)
				for _, a := range vd.Ctor {
					walkE(a)
				}
			}
		case *ExprStmt:
			walkE(x.X)
		case *If:
			walkE(x.Cond)
			walkS(x.Then)
			walkS(x.Else)
		case *Switch:
			walkE(x.Tag)
			for _, sec := range x.Sections {
				for _, st := range sec.Body {
					walkS(st)
				}
			}
		case *For:
			walkS(x.Init)
			walkE(x.Cond)
			walkE(x.Post)
			walkS(x.Body)
		case *While:
			walkE(x.Cond)
			walkS(x.Body)
		case *DoWhile:
			walkS(x.Body)
			walkE(x.Cond)
		case *Return:
			walkE(x.X)
		}
	}
	visitFn = func(f *FuncDecl) {
		if seen[f] || f.Body == nil {
			return
		}
		seen[f] = true
		walkS(f.Body)
	}
	visitFn(fn)
	return out
}

// BufferSizeMembers reports the `sizeN` members of `_mslBufferSizes` (N
// ascending as declared), for harnesses that want to build the sizes buffer
// themselves.
func (u *Unit) BufferSizeMembers() []int {
	var out []int
	for _, sd := range u.structs {
		if sd.Name != "_mslBufferSizes" {
			continue
		}
		for _, m := range sd.info.Members {
			if sm := sizeMemberRE.FindStringSubmatch(m.Name); sm != nil {
				n, _ := strconv.Atoi(sm[1])
				out = append(out, n)
			}
		}
	}
	sort.Ints(out)
	return out
}
