package mslx

import (
	"math/rand"
	"os"
	"path/filepath"
	"strings"
	"testing"
	"time"

	"verif/harness/xrt"
)

// TestMutatedSourcesNeverPanic feeds damaged MSL (truncated, tokens deleted,
// swapped or duplicated) to the reader: every outcome must be a clean Skip /
// Trap / result, never a panic (Run turns a panic into Skip "internal: ...",
// which this test rejects) and never a hang.
func TestMutatedSourcesNeverPanic(t *testing.T) {
	files, _ := filepath.Glob("/repo/snapshot/testdata/golden/msl/*.msl")
	if len(files) == 0 {
		t.Skip("goldens not available")
	}
	rng := rand.New(rand.NewSource(1))
	start := time.Now()
	n := 0
	for _, f := range files {
		b, err := os.ReadFile(f)
		if err != nil || len(b) > 40000 {
			continue
		}
		src := string(b)
		toks := strings.Fields(src)
		for k := 0; k < 12; k++ {
			var mut string
			switch k % 6 {
			case 0:
				mut = src[:rng.Intn(len(src))]
			case 1:
				i := rng.Intn(len(toks))
				mut = strings.Join(append(append([]string{}, toks[:i]...), toks[i+1:]...), " ")
			case 2:
				i, j := rng.Intn(len(toks)), rng.Intn(len(toks))
				c := append([]string{}, toks...)
				c[i], c[j] = c[j], c[i]
				mut = strings.Join(c, " ")
			case 3:
				i := rng.Intn(len(toks))
				c := append(append(append([]string{}, toks[:i]...), toks[i]), toks[i:]...)
				mut = strings.Join(c, " ")
			case 4:
				// replace a random byte
				bb := []byte(src)
				bb[rng.Intn(len(bb))] = "(){}[];,<>*&+-=0x. "[rng.Intn(19)]
				mut = string(bb)
			case 5:
				// change a number
				mut = strings.Replace(src, "1", "4294967295", 3)
			}
			n++
			u, err := Parse(mut)
			if err != nil {
				if strings.Contains(err.Error(), "internal") {
					t.Errorf("%s mutation %d: %v", filepath.Base(f), k, err)
				}
				continue
			}
			_ = u.Structs()
			_ = u.EntryArgs()
			names, stages := u.EntryPoints()
			for i, ep := range names {
				if stages[i] != "kernel" {
					continue
				}
				bufs := map[string][]byte{}
				for key := range u.SlotKeys(ep) {
					bufs[key] = make([]byte, 512)
				}
				out := u.Run(xrt.Input{Entry: ep, Buffers: bufs, MaxSteps: 3000}, Config{ThreadgroupSize: [3]uint32{1, 1, 1}})
				if strings.HasPrefix(out.Skip, "internal") {
					t.Errorf("%s mutation %d entry %s: %s", filepath.Base(f), k, ep, out.Skip)
				}
			}
		}
	}
	t.Logf("%d mutated sources in %v", n, time.Since(start))
}

func TestFuelBoundsRunningTime(t *testing.T) {
	src := mslPrelude + `
kernel void k(device Arr& o [[buffer(0)]]) {
    uint i = 0u;
    while (true) { i = i + 1u; o.inner[i & 3u] = int(i); }
}`
	start := time.Now()
	out := Run(src, xrt.Input{Entry: "k", Buffers: map[string][]byte{"buffer(0)": make([]byte, 16)}})
	if out.Skip != "fuel" || out.Steps < 1000000 {
		t.Fatalf("%+v", out)
	}
	if d := time.Since(start); d > 20*time.Second {
		t.Errorf("1M steps took %v", d)
	} else {
		t.Logf("1M steps in %v", d)
	}
}
