// Package mslx is an independent reader and interpreter for the Metal Shading
// Language text that naga's MSL backend emits.  It is one of the "hardware"
// executors of the verification harness: it tokenises and parses the text as
// C++14/MSL, computes every struct layout from the Metal data-type table,
// resolves names by the C++ scope rules and executes ONE invocation of a kernel
// function over byte buffers, strictly by the semantics of MSL 1.2 - 3.1 / C++14
// as written in the language specifications.  It never calls into naga.
//
// # API
//
//	Parse(src)                 tokenise + parse + resolve; *Unit
//	Run(src, in) / RunSized    execute in.Entry (a kernel) over in.Buffers
//	(*Unit).Run(in, cfg)       the same on a parsed unit
//	(*Unit).Structs()          struct definitions with computed offset/size/alignment
//	(*Unit).EntryArgs()        parameters of kernel/vertex/fragment functions with attributes
//	(*Unit).Decls(), Refs()    declarations and identifier references (innermost scope first)
//	(*Unit).SlotKeys(entry)    buffer slot keys of an entry point, BufferSizeMembers(), EntryPoints()
//
// Buffer slot keys are "buffer(<N>)" for `[[buffer(N)]]` parameters; a buffer
// parameter with another or no attribute (naga's FakeMissingBindings emits
// `[[user(fake0)]]`) is addressed as "arg:<parameter name>".
//
// Metal takes the threadgroup size from the dispatch, not from the shader, so
// the text does not contain it: Run works as long as the built-ins that need it
// are not used (thread_position_in_grid with a zero threadgroup position,
// thread_index_in_threadgroup with zero y/z position); RunSized takes it.
//
// # The _mslBufferSizes argument
//
// naga passes the byte lengths of buffers that hold runtime-sized arrays in a
// `constant _mslBufferSizes& _buffer_sizes` argument whose members are `uint
// sizeN`, N being the index of the WGSL global variable.  Run fills that struct
// itself from the lengths of the bound buffers (unless Input.Buffers has an
// entry for its slot, which is then used as given).  Kernel parameters and
// struct members are both in global-variable order; when the module has more
// runtime-sized globals than the kernel uses, the members the kernel can reach
// are paired with its parameters through that order and through the `(sizeN -
// OFFSET - ELEM) / STRIDE` expressions next to every use; an ambiguous pairing is
// a Skip.
//
// # Subset
//
// Types: bool, (u)char, (u)short, (u)int, (u)long, half, float (double is
// parsed and laid out, arithmetic on it is skipped); vectors metal::T2/3/4 and
// packed_T2/3/4 (also unqualified, and via `using metal::uint;`), with the
// implicit packed <-> non-packed conversion; matrices floatCxR / halfCxR as C
// columns of R-vectors (m[i] is column i; m*v, v*m, m*m, m*s, s*m, m+m, m-m);
// C arrays (also multi-dimensional), structs, typedef / using aliases,
// `typedef T name[1]` as the runtime-sized-array idiom (its real length comes
// from the bound buffer's byte length), atomic_int / atomic_uint (also
// atomic_long/ulong/float partially), references and pointers in the device,
// constant, threadgroup and thread address spaces, const / constexpr, auto,
// textures/samplers/acceleration structures as opaque types (parse only),
// template functions (type parameters, as naga's
// naga_atomic_compare_exchange_weak_explicit), template structs, the
// DefaultConstructible helper (`cond ? x : DefaultConstructible()` yields T{} of
// the other arm's type).
//
// Expressions: literals (unsuffixed floating literals are single precision:
// Metal has no double), all arithmetic, bitwise, shift, relational and logical
// operators with the integer promotions and usual arithmetic conversions,
// component-wise vector operators with scalar broadcast (comparisons give
// boolN; && || on vectors are component-wise and evaluate both operands; on
// scalars they short-circuit), ?: (one arm evaluated; an lvalue when both arms
// are), assignment and compound assignment, ++ --, comma, swizzles (read and
// write, nested), indexing, member access, & and *, static_cast, as_type,
// C-style and functional casts, constructors (splat, concatenation, matrix from
// columns/scalars/diagonal), brace initialisation with aggregate brace elision,
// overloaded functions (exact match, else the single viable candidate).
//
// Library: abs sign floor ceil trunc round rint fract fmod min max fmin fmax
// clamp mix step smoothstep saturate sqrt rsqrt pow powr exp exp2 exp10 log log2
// log10 sin cos tan asin acos atan atan2 sinh cosh tanh asinh acosh atanh fma
// copysign dot cross length length_squared distance distance_squared normalize
// reflect refract faceforward transpose determinant isnan isinf isfinite
// isnormal signbit all any select popcount clz ctz reverse_bits extract_bits
// insert_bits mulhi ldexp frexp modf pack_float_to_{s,u}norm{4x8,2x16}
// unpack_{s,u}norm{4x8,2x16}_to_float atomic_{load,store,exchange,
// fetch_add,fetch_sub,fetch_and,fetch_or,fetch_xor,fetch_min,fetch_max,
// compare_exchange_weak}_explicit atomic_min/max_explicit threadgroup_barrier
// simdgroup_barrier (no-ops).  Floats are IEEE binary32 computed with float32
// operations (no contraction); transcendental functions are float64 results
// rounded once; fma is exact.
//
// Statements: declarations, expression statements, blocks, if/else, switch with
// fall-through, for, while, do-while, break, continue, return.
//
// Entry points: `kernel void f(...)` with [[thread_position_in_grid]],
// [[thread_position_in_threadgroup]], [[thread_index_in_threadgroup]],
// [[threadgroup_position_in_grid]], [[threadgroups_per_grid]],
// [[threads_per_threadgroup]], device/constant buffer references or pointers,
// threadgroup parameters.  Vertex, fragment and mesh functions are parsed
// (Structs, EntryArgs, Decls, Refs work on them) but not executed.
//
// # Memory model
//
// Every variable is a byte region laid out by the C++ rules: device and constant
// parameters alias Input.Buffers (stores mutate the slices), so a wrong padding
// or packed-vec3 decision in the emitted structs shows up as a value in the
// wrong place.  `char _padN[k]` members are just char arrays.  Aggregates are
// copied member-wise: explicit members (including _pad arrays) are copied,
// implicit padding and the fourth lane of a 3-vector are not touched.  A
// float3 load/store accesses 12 bytes, a matrix is accessed column by column.
// Thread and threadgroup memory carries a per-byte "defined" flag.
//
// # Traps (undefined or unspecified behaviour -> Outcome.Trap)
//
//   - signed integer overflow in + - * and unary minus (plain signed arithmetic;
//     naga's as_type<uint> wrapping idiom is of course fine), also per component
//     of vectors; abs(INT_MIN) of the library function
//   - integer / and % by zero, signed and unsigned (MSL: "unspecified value"),
//     INT_MIN / -1 and INT_MIN % -1
//   - conversion of NaN, infinity or an out-of-range value from floating point to
//     an integer type (static_cast, functional/C cast, implicit)
//   - out-of-range index of a C array, vector or matrix (read or write), an index
//     at or beyond the real length of a runtime-sized array, any access outside
//     the bound buffer's byte length
//   - reading an uninitialised local (`int x;`), member, vector lane, or
//     threadgroup memory that was never written (also through references and
//     by atomics)
//   - metal::clamp with minval > maxval; extract_bits / insert_bits with
//     offset + bits beyond the operand width
//   - falling off the end of a non-void function
//
// Defined and therefore computed, not trapped: unsigned wrap-around; shifts (MSL
// takes the count modulo the bit width of the promoted left operand, for scalars
// and vectors; a negative left operand shifts as two's complement); unsigned ->
// signed narrowing (two's complement); atomic arithmetic wraps; clz/ctz of zero
// give the bit width; metal::select.
//
// # Skips
//
// Anything outside the subset is Outcome.Skip with a reason (texture and
// sampler parameters, SIMD-group functions, double arithmetic, member function
// calls, lambdas, goto, designated initialisers, ambiguous overloads, implicit
// conversions C++ does not have, stores through const access paths, ...), as
// are parse failures ("parse: ..."), exhausted fuel ("fuel") and internal
// errors ("internal: ...").  The reader never panics and never loops forever.
package mslx
