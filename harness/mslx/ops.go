package mslx

import (
	"math"
	"math/bits"
)

// promote applies the integer promotions to a scalar kind.
func promote(s ScalarKind) ScalarKind {
	switch s {
	case SBool, SChar, SUChar, SShort, SUShort:
		return SInt
	}
	return s
}

// commonScalar implements the usual arithmetic conversions for two scalar
// operands.
func commonScalar(a, b ScalarKind) ScalarKind {
	if a == SDouble || b == SDouble {
		return SDouble
	}
	if a == SFloat || b == SFloat {
		return SFloat
	}
	if a == SHalf || b == SHalf {
		return SHalf
	}
	a, b = promote(a), promote(b)
	if a == b {
		return a
	}
	// ranks: int < long; unsigned of same rank wins; long can represent uint.
	if a == SULong || b == SULong {
		return SULong
	}
	if a == SLong || b == SLong {
		return SLong
	}
	return SUInt
}

func isCompare(op string) bool {
	switch op {
	case "<", ">", "<=", ">=", "==", "!=":
		return true
	}
	return false
}

// binaryType computes the static result type of `l op r` (nil when the
// operand types are not combinable).
func (tt *typeTable) binaryType(op string, l, r *Type) *Type {
	if l == nil || r == nil {
		return nil
	}
	if op == "&&" || op == "||" {
		n := 0
		if l.Kind == KVector {
			n = l.N
		} else if r.Kind == KVector {
			n = r.N
		}
		if n > 0 {
			return tt.vector(SBool, n, false)
		}
		return tt.scalar(SBool)
	}
	if l.Kind == KMatrix || r.Kind == KMatrix {
		switch {
		case l.Kind == KMatrix && r.Kind == KMatrix:
			if op == "*" {
				if l.Cols != r.Rows {
					return nil
				}
				return tt.matrix(l.S, r.Cols, l.Rows)
			}
			if l == r {
				return l
			}
			return nil
		case l.Kind == KMatrix && r.Kind == KVector:
			if op == "*" && r.N == l.Cols {
				return tt.vector(l.S, l.Rows, false)
			}
			return nil
		case l.Kind == KVector && r.Kind == KMatrix:
			if op == "*" && l.N == r.Rows {
				return tt.vector(r.S, r.Cols, false)
			}
			return nil
		case l.Kind == KMatrix && r.Kind == KScalar:
			return l
		case l.Kind == KScalar && r.Kind == KMatrix:
			return r
		}
		return nil
	}
	if !(l.Kind == KScalar || l.Kind == KVector) || !(r.Kind == KScalar || r.Kind == KVector) {
		return nil
	}
	n := 0
	var k ScalarKind
	switch {
	case l.Kind == KVector && r.Kind == KVector:
		if l.N != r.N {
			return nil
		}
		n, k = l.N, l.S
	case l.Kind == KVector:
		n, k = l.N, l.S
	case r.Kind == KVector:
		n, k = r.N, r.S
		if op == "<<" || op == ">>" {
			k = promote(l.S)
		}
	default:
		if op == "<<" || op == ">>" {
			k = promote(l.S)
		} else {
			k = commonScalar(l.S, r.S)
		}
	}
	if isCompare(op) {
		k = SBool
	}
	if n == 0 {
		return tt.scalar(k)
	}
	return tt.vector(k, n, false)
}

func addOverflow64(a, b int64) (int64, bool) {
	c := a + b
	return c, (c > a) != (b > 0) && b != 0
}

func subOverflow64(a, b int64) (int64, bool) {
	c := a - b
	return c, (c < a) != (b > 0) && b != 0
}

func mulOverflow64(a, b int64) (int64, bool) {
	if a == 0 || b == 0 {
		return 0, false
	}
	c := a * b
	if (c < 0) != ((a < 0) != (b < 0)) || c/b != a {
		return c, true
	}
	if (a == -1 && b == math.MinInt64) || (b == -1 && a == math.MinInt64) {
		return c, true
	}
	return c, false
}

func signedRange(s ScalarKind) (lo, hi int64) {
	b := s.bits()
	return -(int64(1) << (b - 1)), int64(1)<<(b-1) - 1
}

// scalarBin evaluates x op y on components of kind k.  The result kind is k,
// or bool for comparisons.
func scalarBin(op string, k ScalarKind, x, y uint64) uint64 {
	b2w := func(b bool) uint64 {
		if b {
			return 1
		}
		return 0
	}
	if k.isFloat() {
		if k == SDouble {
			skipf("double precision is not supported")
		}
		a, b := f32(x), f32(y)
		var r float32
		switch op {
		case "+":
			r = a + b
		case "-":
			r = a - b
		case "*":
			r = a * b
		case "/":
			r = a / b
		case "<":
			return b2w(a < b)
		case ">":
			return b2w(a > b)
		case "<=":
			return b2w(a <= b)
		case ">=":
			return b2w(a >= b)
		case "==":
			return b2w(a == b)
		case "!=":
			return b2w(a != b)
		default:
			skipf("operator %s is not defined for floating-point operands", op)
		}
		if k == SHalf {
			r = roundHalf(r)
		}
		return wf32(r)
	}
	if k == SBool {
		switch op {
		case "&":
			return x & y
		case "|":
			return x | y
		case "^":
			return x ^ y
		case "==":
			return b2w(x == y)
		case "!=":
			return b2w(x != y)
		}
		skipf("operator %s is not supported on bool vectors", op)
	}
	signed := k.isSigned()
	switch op {
	case "<":
		if signed {
			return b2w(int64(x) < int64(y))
		}
		return b2w(x < y)
	case ">":
		if signed {
			return b2w(int64(x) > int64(y))
		}
		return b2w(x > y)
	case "<=":
		if signed {
			return b2w(int64(x) <= int64(y))
		}
		return b2w(x <= y)
	case ">=":
		if signed {
			return b2w(int64(x) >= int64(y))
		}
		return b2w(x >= y)
	case "==":
		return b2w(x == y)
	case "!=":
		return b2w(x != y)
	case "&":
		return normInt(k, x&y)
	case "|":
		return normInt(k, x|y)
	case "^":
		return normInt(k, x^y)
	case "<<", ">>":
		// MSL: the shift count is the low log2(N) bits of the right operand,
		// N the bit width of the (promoted) left operand.
		cnt := uint(y) & (k.bits() - 1)
		if op == "<<" {
			return normInt(k, x<<cnt)
		}
		if signed {
			return normInt(k, uint64(int64(x)>>cnt))
		}
		return normInt(k, x>>cnt)
	case "+", "-", "*":
		if !signed {
			switch op {
			case "+":
				return normInt(k, x+y)
			case "-":
				return normInt(k, x-y)
			}
			return normInt(k, x*y)
		}
		a, b := int64(x), int64(y)
		var r int64
		var ov bool
		switch op {
		case "+":
			r, ov = addOverflow64(a, b)
		case "-":
			r, ov = subOverflow64(a, b)
		default:
			r, ov = mulOverflow64(a, b)
		}
		lo, hi := signedRange(k)
		if ov || r < lo || r > hi {
			trapf("signed integer overflow: %d %s %d (%s)", a, op, b, k)
		}
		return uint64(r)
	case "/", "%":
		if y == 0 {
			if signed {
				trapf("signed integer division by zero: %d %s 0 (unspecified value in MSL)", int64(x), op)
			}
			trapf("unsigned integer division by zero: %d %s 0 (unspecified value in MSL)", x, op)
		}
		if signed {
			a, b := int64(x), int64(y)
			lo, _ := signedRange(k)
			if a == lo && b == -1 {
				trapf("signed integer overflow: %d %s -1 (%s)", a, op, k)
			}
			if op == "/" {
				return uint64(a / b)
			}
			return uint64(a % b)
		}
		if op == "/" {
			return x / y
		}
		return x % y
	}
	skipf("unsupported binary operator %s", op)
	return 0
}

// ---------------------------------------------------------------------------
// integer helpers

func clzN(x uint64, width uint) uint64 {
	if width == 64 {
		return uint64(bits.LeadingZeros64(x))
	}
	x &= (1 << width) - 1
	return uint64(bits.LeadingZeros64(x)) - uint64(64-width)
}

func ctzN(x uint64, width uint) uint64 {
	if width < 64 {
		x &= (1 << width) - 1
	}
	if x == 0 {
		return uint64(width)
	}
	return uint64(bits.TrailingZeros64(x))
}

func reverseN(x uint64, width uint) uint64 {
	return bits.Reverse64(x) >> (64 - width)
}

func maskN(width uint) uint64 {
	if width >= 64 {
		return ^uint64(0)
	}
	return (1 << width) - 1
}
