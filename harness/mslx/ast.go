package mslx

// Attr is a C++11 attribute `[[name(args)]]`.
type Attr struct {
	Name string // e.g. "buffer", "thread_position_in_grid", "user"
	Args string // raw argument text without parentheses, e.g. "3", "fake0", "loc0, flat"
}

func (a Attr) String() string {
	if a.Args == "" {
		return a.Name
	}
	return a.Name + "(" + a.Args + ")"
}

// TypeExpr is a type as written.
type TypeExpr struct {
	Pos       Pos
	NamePos   Pos    // position of the type name itself
	Name      string // qualified name as written, e.g. "metal::float3", "type_5", "uint"
	Space     string // device / constant / threadgroup / thread / ... or ""
	Const     bool
	Constexpr bool
	Static    bool
	Ptr       int  // number of '*'
	Ref       bool // '&'
	RRef      bool // '&&'
	TArgs     []TemplateArg
	Nested    string // "::result_type" after the template arguments
	Auto      bool
	// resolved
	T    *Type // the type named (without pointer/reference)
	decl *Decl // declaration of the named struct/typedef, if any
}

// TemplateArg is a type or a constant expression.
type TemplateArg struct {
	Type *TypeExpr
	Expr Expr
}

// Expr is an expression node.
type Expr interface {
	pos() Pos
}

type (
	IntLit struct {
		P        Pos
		Val      uint64
		Unsigned bool
		Long     bool
		Text     string
	}
	FloatLit struct {
		P    Pos
		Text string
		Half bool
		Bits uint32 // float32 bits (half literals: the half value widened)
	}
	BoolLit struct {
		P   Pos
		Val bool
	}
	StringLit struct {
		P    Pos
		Text string
	}
	// Ident is a (possibly qualified) name used as a value or function.
	Ident struct {
		P    Pos
		Name string // as written, e.g. "metal::min", "x"
		Decl *Decl  // resolved declaration (nil: builtin or unresolved)
	}
	Paren struct {
		P Pos
		X Expr
	}
	Unary struct {
		P  Pos
		Op string // - + ! ~ * & ++ --
		X  Expr
	}
	Postfix struct {
		P  Pos
		Op string // ++ --
		X  Expr
	}
	Binary struct {
		P    Pos
		Op   string
		L, R Expr
	}
	Assign struct {
		P    Pos
		Op   string // = += -= ...
		L, R Expr
	}
	Cond struct {
		P       Pos
		C, T, F Expr
	}
	// Call is f(args) where f is a name (user function or metal:: intrinsic).
	Call struct {
		P     Pos
		Fun   *Ident
		TArgs []TemplateArg
		Args  []Expr
		// resolved candidates (user functions with that name)
		cands []*FuncDecl
	}
	// MethodCall is recv.name(args) (textures etc.; parse only).
	MethodCall struct {
		P     Pos
		Recv  Expr
		Name  string
		TArgs []TemplateArg
		Args  []Expr
	}
	Member struct {
		P     Pos
		X     Expr
		Name  string
		Arrow bool
		NameP Pos
		decl  *Decl
	}
	Index struct {
		P    Pos
		X, I Expr
	}
	// Cast is static_cast<T>(x), as_type<T>(x), reinterpret_cast, const_cast, or (T)x.
	Cast struct {
		P    Pos
		Kind string // "static_cast", "as_type", "reinterpret_cast", "const_cast", "c"
		T    *TypeExpr
		X    Expr
	}
	// Construct is the functional cast / constructor call T(args).
	Construct struct {
		P    Pos
		T    *TypeExpr
		Args []Expr
	}
	// InitList is T{...} (T != nil) or a bare {...}.
	InitList struct {
		P     Pos
		T     *TypeExpr
		Elems []Expr
		Names []string // designators (.name = value), parallel to Elems when present
	}
	Comma struct {
		P    Pos
		L, R Expr
	}
)

func (e *IntLit) pos() Pos     { return e.P }
func (e *FloatLit) pos() Pos   { return e.P }
func (e *BoolLit) pos() Pos    { return e.P }
func (e *StringLit) pos() Pos  { return e.P }
func (e *Ident) pos() Pos      { return e.P }
func (e *Paren) pos() Pos      { return e.P }
func (e *Unary) pos() Pos      { return e.P }
func (e *Postfix) pos() Pos    { return e.P }
func (e *Binary) pos() Pos     { return e.P }
func (e *Assign) pos() Pos     { return e.P }
func (e *Cond) pos() Pos       { return e.P }
func (e *Call) pos() Pos       { return e.P }
func (e *MethodCall) pos() Pos { return e.P }
func (e *Member) pos() Pos     { return e.P }
func (e *Index) pos() Pos      { return e.P }
func (e *Cast) pos() Pos       { return e.P }
func (e *Construct) pos() Pos  { return e.P }
func (e *InitList) pos() Pos   { return e.P }
func (e *Comma) pos() Pos      { return e.P }

// Stmt is a statement node.
type Stmt interface {
	spos() Pos
}

// VarDecl is one declared variable (local, global, parameter or member).
type VarDecl struct {
	P     Pos
	Type  *TypeExpr
	Name  string
	Dims  []Expr // array declarator dimensions
	Attrs []Attr
	Init  Expr   // `= expr` or `{...}` (InitList with T == nil) or nil
	Ctor  []Expr // `name(args)` constructor syntax
	HasCt bool
	decl  *Decl
	typ   *Type // resolved type including array dims (reference stripped)
}

type (
	Block struct {
		P     Pos
		Stmts []Stmt
	}
	DeclStmt struct {
		P    Pos
		Vars []*VarDecl
	}
	ExprStmt struct {
		P Pos
		X Expr
	}
	If struct {
		P    Pos
		Cond Expr
		Then Stmt
		Else Stmt
	}
	SwitchSection struct {
		P       Pos
		Labels  []Expr // case values
		Default bool
		Body    []Stmt
	}
	Switch struct {
		P        Pos
		Tag      Expr
		Sections []*SwitchSection
	}
	For struct {
		P    Pos
		Init Stmt
		Cond Expr
		Post Expr
		Body Stmt
	}
	While struct {
		P    Pos
		Cond Expr
		Body Stmt
	}
	DoWhile struct {
		P    Pos
		Body Stmt
		Cond Expr
	}
	Break    struct{ P Pos }
	Continue struct{ P Pos }
	Return   struct {
		P Pos
		X Expr
	}
	Empty struct{ P Pos }
)

func (s *Block) spos() Pos    { return s.P }
func (s *DeclStmt) spos() Pos { return s.P }
func (s *ExprStmt) spos() Pos { return s.P }
func (s *If) spos() Pos       { return s.P }
func (s *Switch) spos() Pos   { return s.P }
func (s *For) spos() Pos      { return s.P }
func (s *While) spos() Pos    { return s.P }
func (s *DoWhile) spos() Pos  { return s.P }
func (s *Break) spos() Pos    { return s.P }
func (s *Continue) spos() Pos { return s.P }
func (s *Return) spos() Pos   { return s.P }
func (s *Empty) spos() Pos    { return s.P }

// Top-level declarations.

type StructDecl struct {
	P       Pos
	Name    string
	TParams []string
	tpDecls []*Decl
	Members []*VarDecl
	Methods int // number of member functions (bodies are skipped)
	info    *StructInfo
	decl    *Decl
}

type TypedefDecl struct {
	P    Pos
	Name string
	Type *TypeExpr
	Dims []Expr
	decl *Decl
	typ  *Type
}

type UsingDecl struct {
	P    Pos
	Name string // `using metal::uint;` -> "metal::uint"; alias: the new name
	// Alias is set for `using Name = Type;`
	Alias *TypeExpr
	decl  *Decl
	typ   *Type
}

type FuncDecl struct {
	P        Pos
	Stage    string // "kernel", "vertex", "fragment", "" (also [[mesh]] / [[object]] -> "mesh"/"object")
	Ret      *TypeExpr
	Name     string
	TParams  []string // template <typename A, ...>
	Params   []*VarDecl
	Attrs    []Attr // attributes after the parameter list / before the function
	Body     *Block // nil for a prototype
	Const    bool
	decl     *Decl
	tpDecls  []*Decl
	retType  *Type
	isCtExpr bool
}

// topDecl is one file-scope declaration in source order.
type topDecl struct {
	Struct  *StructDecl
	Typedef *TypedefDecl
	Using   *UsingDecl
	Func    *FuncDecl
	Var     *VarDecl
}
