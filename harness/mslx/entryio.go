package mslx

// EntryResult describes the result of one kernel / vertex / fragment function: the result type as written and the
// attributes written after the parameter list (a bare built-in result carries its attribute there).
type EntryResult struct {
	Entry string
	Stage string
	Type  string // "void", a struct name, or a value type such as "metal::float4"
	Attrs []Attr
}

// EntryResults lists the result of every entry-point function.
func (u *Unit) EntryResults() []EntryResult {
	var out []EntryResult
	for _, f := range u.funcList {
		if f.Stage == "" {
			continue
		}
		r := EntryResult{Entry: f.Name, Stage: f.Stage, Attrs: f.Attrs}
		if f.Ret != nil {
			r.Type = f.Ret.Name
		}
		out = append(out, r)
	}
	return out
}
