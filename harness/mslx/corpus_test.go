package mslx

import (
	"fmt"
	"os"
	"path/filepath"
	"sort"
	"strings"
	"testing"

	"github.com/gogpu/naga"
	"github.com/gogpu/naga/msl"
	"verif/harness/xrt"
)

// compileQuiet is compileMSL without failing the test (corpus files may be
// outside what naga accepts).
func compileQuiet(wgsl string, opts msl.Options) (src string, err error) {
	defer func() {
		if r := recover(); r != nil {
			err = fmt.Errorf("naga panic: %v", r)
		}
	}()
	ast, err := naga.Parse(wgsl)
	if err != nil {
		return "", err
	}
	m, err := naga.LowerWithSource(ast, wgsl)
	if err != nil {
		return "", err
	}
	src, _, err = msl.Compile(m, opts)
	return src, err
}

func normReason(s string) string {
	// drop positions and identifiers so that reasons aggregate
	if i := strings.Index(s, ": "); i > 0 && i < 12 && strings.ContainsAny(s[:i], "0123456789") {
		s = s[i+2:]
	}
	return s
}

type smokeStats struct {
	files, compiled, parsed, entries, ok, trapped, skipped int
	skipReasons, trapReasons, parseErrs                    map[string]int
	skipWhere                                              map[string][]string
}

func newSmokeStats() *smokeStats {
	return &smokeStats{skipReasons: map[string]int{}, trapReasons: map[string]int{}, parseErrs: map[string]int{}, skipWhere: map[string][]string{}}
}

func (st *smokeStats) runUnit(t *testing.T, name, src string) {
	u, err := Parse(src)
	if err != nil {
		st.parseErrs[name+": "+err.Error()]++
		return
	}
	st.parsed++
	_ = u.Structs()
	_ = u.EntryArgs()
	_ = u.Decls()
	_ = u.Refs()
	names, stages := u.EntryPoints()
	for i, ep := range names {
		if stages[i] != "kernel" {
			continue
		}
		st.entries++
		bufs := map[string][]byte{}
		for key, size := range u.SlotKeys(ep) {
			n := 4096
			if size+1024 > n {
				n = size + 1024
			}
			bufs[key] = make([]byte, n)
		}
		out := u.Run(xrt.Input{Entry: ep, Buffers: bufs, MaxSteps: 200000, TraceAccesses: true}, Config{ThreadgroupSize: [3]uint32{1, 1, 1}})
		switch {
		case out.Skip != "":
			st.skipped++
			st.skipReasons[normReason(out.Skip)]++
			st.skipWhere[normReason(out.Skip)] = append(st.skipWhere[normReason(out.Skip)], name+"/"+ep)
			if strings.HasPrefix(out.Skip, "internal") {
				t.Errorf("%s/%s: %s", name, ep, out.Skip)
			}
		case out.Trap != "":
			st.trapped++
			st.trapReasons[name+"/"+ep+": "+out.Trap]++
		default:
			st.ok++
		}
	}
}

func (st *smokeStats) report(t *testing.T, title string) {
	t.Logf("%s: files=%d compiled=%d parsed=%d kernel-entries=%d executed=%d trapped=%d skipped=%d",
		title, st.files, st.compiled, st.parsed, st.entries, st.ok, st.trapped, st.skipped)
	dump := func(label string, m map[string]int) {
		var keys []string
		for k := range m {
			keys = append(keys, k)
		}
		sort.Slice(keys, func(i, j int) bool {
			if m[keys[i]] != m[keys[j]] {
				return m[keys[i]] > m[keys[j]]
			}
			return keys[i] < keys[j]
		})
		for _, k := range keys {
			if label == "skip" && len(st.skipWhere[k]) <= 4 {
				t.Logf("  %s x%d: %s %v", label, m[k], k, st.skipWhere[k])
				continue
			}
			t.Logf("  %s x%d: %s", label, m[k], k)
		}
	}
	dump("parse-error", st.parseErrs)
	dump("skip", st.skipReasons)
	dump("trap", st.trapReasons)
}

// TestCorpusSmoke compiles every WGSL file of naga's snapshot corpus with the
// real backend and runs every compute entry point over zero-filled buffers.
func TestCorpusSmoke(t *testing.T) {
	files, _ := filepath.Glob("/repo/snapshot/testdata/in/*.wgsl")
	if len(files) == 0 {
		t.Skip("corpus not available")
	}
	optSets := map[string]msl.Options{"default": msl.DefaultOptions()}
	o := msl.DefaultOptions()
	o.LangVersion = msl.Version3_1
	o.BoundsCheckPolicies = msl.BoundsCheckPolicies{Index: msl.BoundsCheckRestrict, Buffer: msl.BoundsCheckRestrict, Image: msl.BoundsCheckRestrict}
	o.ZeroInitializeWorkgroupMemory = false
	o.ForceLoopBounding = false
	optSets["restrict-3.1"] = o
	o2 := msl.DefaultOptions()
	o2.LangVersion = msl.Version1_2
	o2.BoundsCheckPolicies = msl.BoundsCheckPolicies{}
	o2.FakeMissingBindings = true
	optSets["unchecked-1.2"] = o2
	var setNames []string
	for k := range optSets {
		setNames = append(setNames, k)
	}
	sort.Strings(setNames)
	for _, sn := range setNames {
		st := newSmokeStats()
		for _, f := range files {
			st.files++
			b, err := os.ReadFile(f)
			if err != nil {
				continue
			}
			src, err := compileQuiet(string(b), optSets[sn])
			if err != nil {
				continue
			}
			st.compiled++
			st.runUnit(t, filepath.Base(f), src)
		}
		st.report(t, "corpus["+sn+"]")
		if st.parsed < st.compiled*9/10 {
			t.Errorf("%s: only %d of %d compiled files parse", sn, st.parsed, st.compiled)
		}
	}
}

// TestGoldenSmoke parses every golden .msl file (all stages) and runs the
// kernels in them.
func TestGoldenSmoke(t *testing.T) {
	files, _ := filepath.Glob("/repo/snapshot/testdata/golden/msl/*.msl")
	more, _ := filepath.Glob("/repo/snapshot/testdata/reference/msl/*.msl")
	files = append(files, more...)
	if len(files) == 0 {
		t.Skip("goldens not available")
	}
	st := newSmokeStats()
	for _, f := range files {
		st.files++
		b, err := os.ReadFile(f)
		if err != nil {
			continue
		}
		st.compiled++
		st.runUnit(t, filepath.Base(f), string(b))
	}
	st.report(t, "goldens")
}
