package mslx

import (
	"math"
	"math/big"
	"math/bits"
	"strings"
)

// floatFn1 etc. are the componentwise float intrinsics computed in float64 and
// rounded once to float32.
var floatFn1 = map[string]func(float64) float64{
	"floor": math.Floor, "ceil": math.Ceil, "trunc": math.Trunc, "round": math.Round, "rint": math.RoundToEven,
	"sqrt": math.Sqrt, "rsqrt": func(x float64) float64 { return 1 / math.Sqrt(x) },
	"exp": math.Exp, "exp2": math.Exp2, "exp10": func(x float64) float64 { return math.Pow(10, x) },
	"log": math.Log, "log2": math.Log2, "log10": math.Log10,
	"sin": math.Sin, "cos": math.Cos, "tan": math.Tan, "asin": math.Asin, "acos": math.Acos, "atan": math.Atan,
	"sinh": math.Sinh, "cosh": math.Cosh, "tanh": math.Tanh, "asinh": math.Asinh, "acosh": math.Acosh, "atanh": math.Atanh,
	"fabs": math.Abs,
}

var floatFn2 = map[string]func(float64, float64) float64{
	"pow": math.Pow, "powr": math.Pow, "atan2": math.Atan2, "fmod": math.Mod, "copysign": math.Copysign,
	"fdim": func(x, y float64) float64 {
		if x > y {
			return x - y
		}
		return 0
	},
}

var intrinsicNames = map[string]bool{}

func init() {
	for n := range floatFn1 {
		intrinsicNames[n] = true
	}
	for n := range floatFn2 {
		intrinsicNames[n] = true
	}
	for _, n := range strings.Fields(`abs sign fract min max fmin fmax clamp mix step smoothstep saturate fma dot cross length
		length_squared distance distance_squared normalize reflect refract faceforward transpose determinant isnan isinf
		isfinite isnormal signbit popcount reverse_bits clz ctz extract_bits insert_bits all any select ldexp frexp modf
		pack_float_to_snorm4x8 pack_float_to_unorm4x8 pack_float_to_snorm2x16 pack_float_to_unorm2x16
		unpack_snorm4x8_to_float unpack_unorm4x8_to_float unpack_snorm2x16_to_float unpack_unorm2x16_to_float
		atomic_load_explicit atomic_store_explicit atomic_exchange_explicit atomic_fetch_add_explicit
		atomic_fetch_sub_explicit atomic_fetch_and_explicit atomic_fetch_or_explicit atomic_fetch_xor_explicit
		atomic_fetch_min_explicit atomic_fetch_max_explicit atomic_compare_exchange_weak_explicit atomic_min_explicit
		atomic_max_explicit threadgroup_barrier simdgroup_barrier discard_fragment mulhi rotate`) {
		intrinsicNames[n] = true
	}
}

func intrinsicBase(name string) string {
	base := stripMetal(name)
	base = strings.TrimPrefix(base, "precise::")
	base = strings.TrimPrefix(base, "fast::")
	return base
}

// isIntrinsicName reports whether an unqualified (or metal::-qualified) name
// is one of the Metal standard library functions the interpreter knows.
func isIntrinsicName(name string) bool { return intrinsicNames[intrinsicBase(name)] }

// intrinsicType gives the static result type of a library call where it is
// easy to tell (nil otherwise); used for `auto` and DefaultConstructible().
func intrinsicType(tt *typeTable, name string, at []*Type) *Type {
	base := intrinsicBase(name)
	widest := func() *Type {
		var w *Type
		for _, t := range at {
			if t == nil {
				return nil
			}
			t = unpack(tt, t)
			if w == nil || (t.Kind == KVector && w.Kind != KVector) {
				w = t
			}
		}
		return w
	}
	switch base {
	case "dot", "length", "length_squared", "distance", "distance_squared", "determinant":
		if len(at) > 0 && at[0] != nil {
			return tt.scalar(at[0].S)
		}
		return nil
	case "all", "any":
		return tt.scalar(SBool)
	case "isnan", "isinf", "isfinite", "isnormal", "signbit":
		if len(at) == 1 && at[0] != nil {
			if at[0].Kind == KVector {
				return tt.vector(SBool, at[0].N, false)
			}
			return tt.scalar(SBool)
		}
		return nil
	case "select":
		if len(at) == 3 {
			if at[0] != nil && at[0].Kind == KVector {
				return unpack(tt, at[0])
			}
			if at[1] != nil && at[1].Kind == KVector {
				return unpack(tt, at[1])
			}
			if at[0] != nil && at[2] != nil && at[2].Kind == KVector {
				return tt.vector(at[0].S, at[2].N, false)
			}
			return at[0]
		}
		return nil
	case "transpose":
		if len(at) == 1 && at[0] != nil && at[0].Kind == KMatrix {
			return tt.matrix(at[0].S, at[0].Rows, at[0].Cols)
		}
		return nil
	case "pack_float_to_snorm4x8", "pack_float_to_unorm4x8", "pack_float_to_snorm2x16", "pack_float_to_unorm2x16":
		return tt.scalar(SUInt)
	case "unpack_snorm4x8_to_float", "unpack_unorm4x8_to_float":
		return tt.vector(SFloat, 4, false)
	case "unpack_snorm2x16_to_float", "unpack_unorm2x16_to_float":
		return tt.vector(SFloat, 2, false)
	case "atomic_load_explicit", "atomic_exchange_explicit", "atomic_fetch_add_explicit", "atomic_fetch_sub_explicit",
		"atomic_fetch_and_explicit", "atomic_fetch_or_explicit", "atomic_fetch_xor_explicit", "atomic_fetch_min_explicit",
		"atomic_fetch_max_explicit":
		if len(at) > 0 && at[0] != nil && at[0].Kind == KPointer && at[0].Elem.Kind == KAtomic {
			return tt.scalar(at[0].Elem.S)
		}
		return nil
	case "atomic_compare_exchange_weak_explicit":
		return tt.scalar(SBool)
	case "atomic_store_explicit", "threadgroup_barrier", "simdgroup_barrier", "discard_fragment", "atomic_min_explicit", "atomic_max_explicit":
		return voidType
	case "cross", "normalize", "reflect", "refract", "faceforward":
		if len(at) > 0 {
			return unpack(tt, at[0])
		}
		return nil
	}
	if _, ok := floatFn1[base]; ok {
		return widest()
	}
	if _, ok := floatFn2[base]; ok {
		return widest()
	}
	switch base {
	case "abs", "sign", "fract", "min", "max", "fmin", "fmax", "clamp", "mix", "step", "smoothstep", "saturate", "fma",
		"popcount", "reverse_bits", "clz", "ctz", "extract_bits", "insert_bits", "ldexp", "frexp", "modf", "mulhi", "rotate":
		if base == "extract_bits" || base == "insert_bits" || base == "ldexp" || base == "frexp" || base == "modf" {
			if len(at) > 0 {
				return unpack(tt, at[0])
			}
			return nil
		}
		return widest()
	}
	return nil
}

// numArgs converts numeric arguments to a common element kind and width.
type numArgs struct {
	k ScalarKind
	n int // 0 = scalar result
	w [][]uint64
}

func (na *numArgs) comp(arg, i int) uint64 {
	w := na.w[arg]
	if len(w) == 1 {
		return w[0]
	}
	return w[i]
}

func (na *numArgs) count() int {
	if na.n == 0 {
		return 1
	}
	return na.n
}

func (it *interp) resultType(k ScalarKind, n int) *Type {
	if n == 0 {
		return it.u.tt.scalar(k)
	}
	return it.u.tt.vector(k, n, false)
}

// gather loads the arguments vals[from:to] and brings them to one kind.
// forceFloat converts integer arguments to float.
func (it *interp) gather(name string, vals []Value, forceFloat bool, pos Pos) *numArgs {
	na := &numArgs{}
	anyFloat, allHalf := false, true
	var vecKind ScalarKind
	var scalKind ScalarKind
	for i, v := range vals {
		if v.Lazy || v.T == nil || !(v.T.Kind == KScalar || v.T.Kind == KVector) {
			skipf("%s: argument %d of %s has type %s", pos, i+1, name, v.T)
		}
		if v.T.S == SDouble {
			skipf("%s: double precision argument of %s", pos, name)
		}
		if v.T.Kind == KVector {
			if na.n != 0 && na.n != v.T.N {
				skipf("%s: arguments of %s have different vector sizes", pos, name)
			}
			na.n = v.T.N
			if vecKind != SNone && vecKind != v.T.S && !v.T.S.isFloat() && !vecKind.isFloat() {
				skipf("%s: vector arguments of %s have different element types", pos, name)
			}
			if vecKind == SNone || v.T.S.isFloat() {
				vecKind = v.T.S
			}
		} else {
			if scalKind == SNone {
				scalKind = promote(v.T.S)
				if v.T.S.isFloat() || !v.T.S.isInt() {
					scalKind = v.T.S
				}
			} else {
				scalKind = commonScalar(scalKind, v.T.S)
			}
		}
		if v.T.S.isFloat() {
			anyFloat = true
			if v.T.S != SHalf {
				allHalf = false
			}
		}
	}
	switch {
	case anyFloat || forceFloat:
		na.k = SFloat
		if anyFloat && allHalf {
			na.k = SHalf
		}
	case vecKind != SNone:
		na.k = vecKind
	default:
		na.k = scalKind
	}
	for _, v := range vals {
		w := make([]uint64, len(v.W))
		for i, x := range v.W {
			w[i] = convScalar(v.T.S, na.k, x)
		}
		na.w = append(na.w, w)
	}
	return na
}

func (it *interp) argVals(args []*argv) []Value {
	out := make([]Value, len(args))
	for i, a := range args {
		out[i] = it.argValue(a)
	}
	return out
}

func needArgs(name string, args []*argv, n int, pos Pos) {
	if len(args) != n {
		skipf("%s: %s called with %d arguments (want %d)", pos, name, len(args), n)
	}
}

func fminf(a, b float32) float32 {
	if a != a {
		return b
	}
	if b != b {
		return a
	}
	if a == 0 && b == 0 {
		if math.Signbit(float64(a)) {
			return a
		}
		return b
	}
	if b < a {
		return b
	}
	return a
}

func fmaxf(a, b float32) float32 {
	if a != a {
		return b
	}
	if b != b {
		return a
	}
	if a == 0 && b == 0 {
		if math.Signbit(float64(a)) {
			return b
		}
		return a
	}
	if a < b {
		return b
	}
	return a
}

// fmaf computes a*b+c with a single rounding to float32.
func fmaf(a, b, c float32) float32 {
	fa, fb, fc := float64(a), float64(b), float64(c)
	if fa != fa || fb != fb || fc != fc || math.IsInf(fa, 0) || math.IsInf(fb, 0) || math.IsInf(fc, 0) {
		return float32(fa*fb + fc)
	}
	p := new(big.Float).SetPrec(2048).SetFloat64(fa)
	p.Mul(p, new(big.Float).SetPrec(2048).SetFloat64(fb))
	p.Add(p, new(big.Float).SetPrec(2048).SetFloat64(fc))
	if p.Sign() == 0 {
		// exact zero: sign by the IEEE rules for the sum of the product and c
		return float32(fa*fb) + c
	}
	r, _ := p.Float32()
	return r
}

func rneToInt(f float64) int64 { return int64(math.RoundToEven(f)) }

func (it *interp) intrinsic(name string, args []*argv, pos Pos) Value {
	tt := it.u.tt
	rnd := func(k ScalarKind, f float32) uint64 {
		if k == SHalf {
			f = roundHalf(f)
		}
		return wf32(f)
	}
	// componentwise float functions
	if f, ok := floatFn1[name]; ok {
		needArgs(name, args, 1, pos)
		na := it.gather(name, it.argVals(args), true, pos)
		out := Value{T: it.resultType(na.k, na.n), W: make([]uint64, na.count())}
		for i := range out.W {
			out.W[i] = rnd(na.k, float32(f(float64(f32(na.comp(0, i))))))
		}
		return out
	}
	if f, ok := floatFn2[name]; ok {
		needArgs(name, args, 2, pos)
		na := it.gather(name, it.argVals(args), true, pos)
		out := Value{T: it.resultType(na.k, na.n), W: make([]uint64, na.count())}
		for i := range out.W {
			out.W[i] = rnd(na.k, float32(f(float64(f32(na.comp(0, i))), float64(f32(na.comp(1, i))))))
		}
		return out
	}
	switch name {
	case "threadgroup_barrier", "simdgroup_barrier":
		return Value{T: voidType}
	case "discard_fragment":
		skipf("%s: discard_fragment() outside a fragment function", pos)
	case "abs", "sign", "fract", "saturate", "min", "max", "fmin", "fmax", "clamp", "mix", "step", "smoothstep", "fma":
		want := map[string]int{"abs": 1, "sign": 1, "fract": 1, "saturate": 1, "min": 2, "max": 2, "fmin": 2, "fmax": 2, "clamp": 3, "mix": 3, "step": 2, "smoothstep": 3, "fma": 3}[name]
		needArgs(name, args, want, pos)
		floatOnly := name != "abs" && name != "min" && name != "max" && name != "clamp"
		na := it.gather(name, it.argVals(args), false, pos)
		if floatOnly && !na.k.isFloat() {
			skipf("%s: %s is not defined for %s arguments", pos, name, na.k)
		}
		out := Value{T: it.resultType(na.k, na.n), W: make([]uint64, na.count())}
		for i := range out.W {
			if na.k.isFloat() {
				x := f32(na.comp(0, i))
				var y, z float32
				if want > 1 {
					y = f32(na.comp(1, i))
				}
				if want > 2 {
					z = f32(na.comp(2, i))
				}
				var r float32
				switch name {
				case "abs":
					r = math.Float32frombits(math.Float32bits(x) &^ 0x80000000)
				case "sign":
					switch {
					case x > 0:
						r = 1
					case x < 0:
						r = -1
					case x == 0:
						r = x
					default:
						r = 0
					}
				case "fract":
					r = fminf(x-float32(math.Floor(float64(x))), math.Float32frombits(0x3f7fffff))
				case "saturate":
					r = fminf(fmaxf(x, 0), 1)
				case "min", "fmin":
					r = fminf(x, y)
				case "max", "fmax":
					r = fmaxf(x, y)
				case "clamp":
					if y > z {
						trapf("%s: clamp(%g, %g, %g) with minval > maxval is undefined", pos, x, y, z)
					}
					r = fminf(fmaxf(x, y), z)
				case "mix":
					d := y - x
					p := float32(d * z)
					r = x + p
				case "step":
					if y < x {
						r = 0
					} else {
						r = 1
					}
				case "smoothstep":
					n := z - x
					d := y - x
					q := n / d
					t := fminf(fmaxf(q, 0), 1)
					tt2 := float32(t * t)
					m := float32(2 * t)
					s := 3 - m
					r = float32(tt2 * s)
				case "fma":
					r = fmaf(x, y, z)
				}
				out.W[i] = rnd(na.k, r)
				continue
			}
			if na.k == SBool {
				skipf("%s: %s on bool arguments", pos, name)
			}
			x := na.comp(0, i)
			signed := na.k.isSigned()
			less := func(a, b uint64) bool {
				if signed {
					return int64(a) < int64(b)
				}
				return a < b
			}
			switch name {
			case "abs":
				if signed && int64(x) < 0 {
					lo, _ := signedRange(na.k)
					if int64(x) == lo {
						trapf("%s: abs(%d) is not representable in %s", pos, lo, na.k)
					}
					x = uint64(-int64(x))
				}
				out.W[i] = x
			case "min":
				y := na.comp(1, i)
				if less(y, x) {
					x = y
				}
				out.W[i] = x
			case "max":
				y := na.comp(1, i)
				if less(x, y) {
					x = y
				}
				out.W[i] = x
			case "clamp":
				lo, hi := na.comp(1, i), na.comp(2, i)
				if less(hi, lo) {
					trapf("%s: clamp(%s, %s, %s) with minval > maxval is undefined", pos, fmtScalar(na.k, x), fmtScalar(na.k, lo), fmtScalar(na.k, hi))
				}
				if less(x, lo) {
					x = lo
				}
				if less(hi, x) {
					x = hi
				}
				out.W[i] = x
			}
		}
		return out
	case "isnan", "isinf", "isfinite", "isnormal", "signbit":
		needArgs(name, args, 1, pos)
		na := it.gather(name, it.argVals(args), true, pos)
		out := Value{T: it.resultType(SBool, na.n), W: make([]uint64, na.count())}
		for i := range out.W {
			x := float64(f32(na.comp(0, i)))
			var b bool
			switch name {
			case "isnan":
				b = x != x
			case "isinf":
				b = math.IsInf(x, 0)
			case "isfinite":
				b = !(x != x) && !math.IsInf(x, 0)
			case "isnormal":
				a := math.Abs(x)
				b = a >= 1.1754943508222875e-38 && !math.IsInf(x, 0)
			case "signbit":
				b = math.Signbit(x)
			}
			out.W[i] = b2u(b)
		}
		return out
	case "all", "any":
		needArgs(name, args, 1, pos)
		v := it.argValue(args[0])
		if v.Lazy || v.T == nil || v.T.S != SBool || !(v.T.Kind == KScalar || v.T.Kind == KVector) {
			skipf("%s: %s applied to a value of type %s", pos, name, v.T)
		}
		r := name == "all"
		for _, w := range v.W {
			if name == "all" && w == 0 {
				r = false
			}
			if name == "any" && w != 0 {
				r = true
			}
		}
		return scalarValue(tt.scalar(SBool), b2u(r))
	case "select":
		needArgs(name, args, 3, pos)
		vals := it.argVals(args)
		c := vals[2]
		if c.Lazy || c.T == nil || !(c.T.Kind == KScalar || c.T.Kind == KVector) {
			skipf("%s: select condition of type %s", pos, c.T)
		}
		na := it.gather(name, vals[:2], false, pos)
		n := na.n
		if c.T.Kind == KVector {
			if n != 0 && n != c.T.N {
				skipf("%s: select with a condition of a different vector size", pos)
			}
			n = c.T.N
		}
		cnt := n
		if cnt == 0 {
			cnt = 1
		}
		out := Value{T: it.resultType(na.k, n), W: make([]uint64, cnt)}
		for i := range out.W {
			cw := c.W[0]
			if c.T.Kind == KVector {
				cw = c.W[i]
			}
			// select(a, b, c) returns c ? b : a
			if convScalar(c.T.S, SBool, cw) != 0 {
				out.W[i] = na.comp(1, i)
			} else {
				out.W[i] = na.comp(0, i)
			}
		}
		return out
	case "dot", "length", "length_squared", "distance", "distance_squared", "normalize", "cross", "reflect", "refract", "faceforward":
		return it.geometric(name, it.argVals(args), pos)
	case "transpose":
		needArgs(name, args, 1, pos)
		m := it.argValue(args[0])
		if m.T == nil || m.T.Kind != KMatrix {
			skipf("%s: transpose of a value of type %s", pos, m.T)
		}
		rt := tt.matrix(m.T.S, m.T.Rows, m.T.Cols)
		out := Value{T: rt, W: make([]uint64, len(m.W))}
		for c := 0; c < m.T.Cols; c++ {
			for r := 0; r < m.T.Rows; r++ {
				out.W[r*rt.Rows+c] = m.W[c*m.T.Rows+r]
			}
		}
		return out
	case "determinant":
		needArgs(name, args, 1, pos)
		m := it.argValue(args[0])
		if m.T == nil || m.T.Kind != KMatrix || m.T.Cols != m.T.Rows || m.T.S != SFloat {
			skipf("%s: determinant of a value of type %s", pos, m.T)
		}
		n := m.T.Cols
		a := make([][]float32, n)
		for r := 0; r < n; r++ {
			a[r] = make([]float32, n)
			for c := 0; c < n; c++ {
				a[r][c] = f32(m.W[c*n+r])
			}
		}
		return scalarValue(tt.scalar(SFloat), wf32(det(a)))
	case "popcount", "clz", "ctz", "reverse_bits":
		needArgs(name, args, 1, pos)
		v := it.argValue(args[0])
		if v.Lazy || v.T == nil || !(v.T.Kind == KScalar || v.T.Kind == KVector) || !v.T.S.isInt() {
			skipf("%s: %s applied to a value of type %s", pos, name, v.T)
		}
		k := v.T.S
		width := k.bits()
		out := Value{T: unpack(tt, v.T), W: make([]uint64, len(v.W))}
		for i, w := range v.W {
			x := w & maskN(width)
			var r uint64
			switch name {
			case "popcount":
				r = uint64(bits.OnesCount64(x))
			case "clz":
				r = clzN(x, width)
			case "ctz":
				r = ctzN(x, width)
			case "reverse_bits":
				r = reverseN(x, width)
			}
			out.W[i] = normInt(k, r)
		}
		return out
	case "extract_bits", "insert_bits":
		return it.bitfield(name, it.argVals(args), pos)
	case "mulhi":
		needArgs(name, args, 2, pos)
		na := it.gather(name, it.argVals(args), false, pos)
		if !na.k.isInt() || na.k.bits() != 32 {
			skipf("%s: mulhi on %s", pos, na.k)
		}
		out := Value{T: it.resultType(na.k, na.n), W: make([]uint64, na.count())}
		for i := range out.W {
			if na.k.isSigned() {
				out.W[i] = normInt(na.k, uint64((int64(na.comp(0, i))*int64(na.comp(1, i)))>>32))
			} else {
				out.W[i] = normInt(na.k, (na.comp(0, i)*na.comp(1, i))>>32)
			}
		}
		return out
	case "ldexp":
		needArgs(name, args, 2, pos)
		vals := it.argVals(args)
		x, e := vals[0], vals[1]
		if x.T == nil || e.T == nil || !x.T.S.isFloat() || !e.T.S.isInt() || !x.T.isNumeric() || x.T.Kind == KMatrix {
			skipf("%s: ldexp(%s, %s)", pos, x.T, e.T)
		}
		if e.T.Kind == KVector && (x.T.Kind != KVector || e.T.N != x.T.N) {
			skipf("%s: ldexp(%s, %s)", pos, x.T, e.T)
		}
		out := Value{T: unpack(tt, x.T), W: make([]uint64, len(x.W))}
		for i := range out.W {
			ew := e.W[0]
			if e.T.Kind == KVector {
				ew = e.W[i]
			}
			ex := int64(ew)
			if ex > 4000 {
				ex = 4000
			}
			if ex < -4000 {
				ex = -4000
			}
			out.W[i] = rnd(x.T.S, float32(math.Ldexp(float64(f32(x.W[i])), int(ex))))
		}
		return out
	case "frexp", "modf":
		needArgs(name, args, 2, pos)
		x := it.argValue(args[0])
		if x.Lazy || x.T == nil || !(x.T.Kind == KScalar || x.T.Kind == KVector) || x.T.S != SFloat {
			skipf("%s: %s of a value of type %s", pos, name, x.T)
		}
		if args[1].rf == nil {
			skipf("%s: second argument of %s is not an lvalue", pos, name)
		}
		out := Value{T: unpack(tt, x.T), W: make([]uint64, len(x.W))}
		ot := it.argType(args[1])
		second := Value{T: unpack(tt, ot), W: make([]uint64, len(x.W))}
		if ot == nil || ot.ncomp() != len(x.W) {
			skipf("%s: %s out-parameter of type %s", pos, name, ot)
		}
		for i, w := range x.W {
			f := float64(f32(w))
			if name == "frexp" {
				if !ot.S.isInt() {
					skipf("%s: frexp exponent of type %s", pos, ot)
				}
				if f == 0 || f != f || math.IsInf(f, 0) {
					out.W[i] = w
					second.W[i] = 0
					continue
				}
				fr, ex := math.Frexp(f)
				out.W[i] = wf32(float32(fr))
				second.W[i] = normInt(ot.S, uint64(int64(ex)))
			} else {
				if ot.S != SFloat {
					skipf("%s: modf integral part of type %s", pos, ot)
				}
				ip := math.Trunc(f)
				var fr float64
				if math.IsInf(f, 0) {
					fr = math.Copysign(0, f)
				} else {
					fr = math.Copysign(f-ip, f)
				}
				out.W[i] = wf32(float32(fr))
				second.W[i] = wf32(float32(ip))
			}
		}
		it.store(args[1].rf, second)
		return out
	case "pack_float_to_snorm4x8", "pack_float_to_unorm4x8", "pack_float_to_snorm2x16", "pack_float_to_unorm2x16":
		needArgs(name, args, 1, pos)
		v := it.argValue(args[0])
		n, bitsPer := 4, uint(8)
		if strings.HasSuffix(name, "2x16") {
			n, bitsPer = 2, 16
		}
		if v.Lazy || v.T == nil || v.T.Kind != KVector || v.T.N != n || v.T.S != SFloat {
			skipf("%s: %s of a value of type %s", pos, name, v.T)
		}
		snorm := strings.Contains(name, "snorm")
		var r uint64
		for i, w := range v.W {
			x := f32(w)
			var q int64
			if snorm {
				scale := float32(int64(1)<<(bitsPer-1) - 1)
				c := fminf(fmaxf(x, -1), 1)
				q = rneToInt(float64(c * scale))
			} else {
				scale := float32(int64(1)<<bitsPer - 1)
				c := fminf(fmaxf(x, 0), 1)
				q = rneToInt(float64(c * scale))
			}
			r |= (uint64(q) & maskN(bitsPer)) << (uint(i) * bitsPer)
		}
		return scalarValue(tt.scalar(SUInt), r)
	case "unpack_snorm4x8_to_float", "unpack_unorm4x8_to_float", "unpack_snorm2x16_to_float", "unpack_unorm2x16_to_float":
		needArgs(name, args, 1, pos)
		v := it.argValue(args[0])
		if v.Lazy || v.T == nil || v.T.Kind != KScalar || !v.T.S.isInt() {
			skipf("%s: %s of a value of type %s", pos, name, v.T)
		}
		n, bitsPer := 4, uint(8)
		if strings.Contains(name, "2x16") {
			n, bitsPer = 2, 16
		}
		snorm := strings.Contains(name, "snorm")
		out := Value{T: tt.vector(SFloat, n, false), W: make([]uint64, n)}
		for i := 0; i < n; i++ {
			c := (v.W[0] >> (uint(i) * bitsPer)) & maskN(bitsPer)
			var f float32
			if snorm {
				s := int64(c<<(64-bitsPer)) >> (64 - bitsPer)
				f = fmaxf(float32(s)/float32(int64(1)<<(bitsPer-1)-1), -1)
			} else {
				f = float32(c) / float32(int64(1)<<bitsPer-1)
			}
			out.W[i] = wf32(f)
		}
		return out
	}
	if strings.HasPrefix(name, "atomic_") {
		return it.atomic(name, args, pos)
	}
	skipf("%s: unsupported library function metal::%s", pos, name)
	return Value{}
}

func det(a [][]float32) float32 {
	n := len(a)
	switch n {
	case 1:
		return a[0][0]
	case 2:
		p := float32(a[0][0] * a[1][1])
		q := float32(a[0][1] * a[1][0])
		return p - q
	}
	var acc float32
	for c := 0; c < n; c++ {
		minor := make([][]float32, 0, n-1)
		for r := 1; r < n; r++ {
			row := make([]float32, 0, n-1)
			for cc := 0; cc < n; cc++ {
				if cc != c {
					row = append(row, a[r][cc])
				}
			}
			minor = append(minor, row)
		}
		t := float32(a[0][c] * det(minor))
		if c%2 == 1 {
			t = -t
		}
		if c == 0 {
			acc = t
		} else {
			acc = acc + t
		}
	}
	return acc
}

func (it *interp) geometric(name string, vals []Value, pos Pos) Value {
	tt := it.u.tt
	kind := SFloat
	for i, v := range vals {
		if v.Lazy || v.T == nil || !(v.T.Kind == KVector || v.T.Kind == KScalar) || !(v.T.S == SFloat || v.T.S == SHalf) {
			skipf("%s: argument %d of %s has type %s (only float and half vectors are supported)", pos, i+1, name, v.T)
		}
		if i == 0 {
			kind = v.T.S
		} else if v.T.S != kind {
			skipf("%s: arguments of %s mix float and half", pos, name)
		}
	}
	if kind == SHalf {
		// half: computed in float and rounded to half at the end
		f32vals := make([]Value, len(vals))
		for i, v := range vals {
			t := tt.scalar(SFloat)
			if v.T.Kind == KVector {
				t = tt.vector(SFloat, v.T.N, false)
			}
			f32vals[i] = Value{T: t, W: v.W}
		}
		r := it.geometric(name, f32vals, pos)
		rt := tt.scalar(SHalf)
		if r.T.Kind == KVector {
			rt = tt.vector(SHalf, r.T.N, false)
		}
		out := Value{T: rt, W: make([]uint64, len(r.W))}
		for i, w := range r.W {
			out.W[i] = wf32(roundHalf(f32(w)))
		}
		return out
	}
	fl := func(v Value) []float32 {
		out := make([]float32, len(v.W))
		for i, w := range v.W {
			out[i] = f32(w)
		}
		return out
	}
	vec := func(t *Type, f []float32) Value {
		out := Value{T: unpack(tt, t), W: make([]uint64, len(f))}
		for i, x := range f {
			out.W[i] = wf32(x)
		}
		return out
	}
	dot32 := func(a, b []float32) float32 {
		var acc float32
		for i := range a {
			p := float32(a[i] * b[i])
			if i == 0 {
				acc = p
			} else {
				acc = acc + p
			}
		}
		return acc
	}
	sumsq := func(a []float32) float64 {
		var s float64
		for _, x := range a {
			s += float64(x) * float64(x)
		}
		return s
	}
	same := func(n int) {
		if len(vals) != n {
			skipf("%s: %s called with %d arguments", pos, name, len(vals))
		}
		for _, v := range vals[1:] {
			if name == "refract" && v.T.Kind == KScalar {
				continue
			}
			if len(v.W) != len(vals[0].W) {
				skipf("%s: arguments of %s have different sizes", pos, name)
			}
		}
	}
	fs := tt.scalar(SFloat)
	switch name {
	case "dot":
		same(2)
		return scalarValue(fs, wf32(dot32(fl(vals[0]), fl(vals[1]))))
	case "length":
		same(1)
		return scalarValue(fs, wf32(float32(math.Sqrt(sumsq(fl(vals[0]))))))
	case "length_squared":
		same(1)
		a := fl(vals[0])
		return scalarValue(fs, wf32(dot32(a, a)))
	case "distance", "distance_squared":
		same(2)
		a, b := fl(vals[0]), fl(vals[1])
		d := make([]float32, len(a))
		for i := range a {
			d[i] = a[i] - b[i]
		}
		if name == "distance_squared" {
			return scalarValue(fs, wf32(dot32(d, d)))
		}
		return scalarValue(fs, wf32(float32(math.Sqrt(sumsq(d)))))
	case "normalize":
		same(1)
		a := fl(vals[0])
		l := math.Sqrt(sumsq(a))
		out := make([]float32, len(a))
		for i := range a {
			out[i] = float32(float64(a[i]) / l)
		}
		return vec(vals[0].T, out)
	case "cross":
		same(2)
		a, b := fl(vals[0]), fl(vals[1])
		if len(a) != 3 {
			skipf("%s: cross of %s", pos, vals[0].T)
		}
		c := func(i, j int) float32 {
			p := float32(a[i] * b[j])
			q := float32(a[j] * b[i])
			return p - q
		}
		return vec(vals[0].T, []float32{c(1, 2), c(2, 0), c(0, 1)})
	case "reflect":
		same(2)
		i, n := fl(vals[0]), fl(vals[1])
		d := dot32(n, i)
		out := make([]float32, len(i))
		for k := range i {
			t := float32(2 * d)
			u := float32(t * n[k])
			out[k] = i[k] - u
		}
		return vec(vals[0].T, out)
	case "faceforward":
		same(3)
		n, i, nref := fl(vals[0]), fl(vals[1]), fl(vals[2])
		out := make([]float32, len(n))
		neg := !(dot32(nref, i) < 0)
		for k := range n {
			if neg {
				out[k] = -n[k]
			} else {
				out[k] = n[k]
			}
		}
		return vec(vals[0].T, out)
	case "refract":
		same(3)
		i, n := fl(vals[0]), fl(vals[1])
		if vals[2].T.Kind != KScalar {
			skipf("%s: refract eta of type %s", pos, vals[2].T)
		}
		eta := f32(vals[2].W[0])
		d := dot32(n, i)
		dd := float32(d * d)
		ee := float32(eta * eta)
		k := 1 - float32(ee*float32(1-dd))
		out := make([]float32, len(i))
		if k >= 0 {
			s := float32(eta*d) + float32(math.Sqrt(float64(k)))
			for j := range i {
				out[j] = float32(eta*i[j]) - float32(s*n[j])
			}
		}
		return vec(vals[0].T, out)
	}
	skipf("%s: unsupported library function metal::%s", pos, name)
	return Value{}
}

func (it *interp) bitfield(name string, vals []Value, pos Pos) Value {
	tt := it.u.tt
	want := 3
	if name == "insert_bits" {
		want = 4
	}
	if len(vals) != want {
		skipf("%s: %s called with %d arguments", pos, name, len(vals))
	}
	x := vals[0]
	if x.Lazy || x.T == nil || !(x.T.Kind == KScalar || x.T.Kind == KVector) || !x.T.S.isInt() {
		skipf("%s: %s of a value of type %s", pos, name, x.T)
	}
	offV, cntV := vals[want-2], vals[want-1]
	for _, v := range []Value{offV, cntV} {
		if v.Lazy || v.T == nil || v.T.Kind != KScalar || !(v.T.S.isInt()) {
			skipf("%s: %s offset/bits of type %s", pos, name, v.T)
		}
	}
	off, cnt := offV.W[0], cntV.W[0]
	if offV.T.S.isSigned() && int64(off) < 0 || cntV.T.S.isSigned() && int64(cnt) < 0 {
		trapf("%s: %s with negative offset or bit count", pos, name)
	}
	k := x.T.S
	width := uint64(k.bits())
	if off+cnt > width || off > width || cnt > width {
		trapf("%s: %s(offset=%d, bits=%d): offset+bits exceeds the %d-bit operand (undefined result)", pos, name, off, cnt, width)
	}
	out := Value{T: unpack(tt, x.T), W: make([]uint64, len(x.W))}
	var ins Value
	if name == "insert_bits" {
		ins = vals[1]
		if ins.Lazy || ins.T == nil || !(ins.T.Kind == KScalar || ins.T.Kind == KVector) {
			skipf("%s: insert_bits of a value of type %s", pos, ins.T)
		}
		if ins.T.Kind == KVector && len(ins.W) != len(x.W) {
			skipf("%s: insert_bits operands of different sizes", pos)
		}
	}
	for i, w := range x.W {
		w &= maskN(uint(width))
		if name == "extract_bits" {
			if cnt == 0 {
				out.W[i] = 0
				continue
			}
			f := (w >> off) & maskN(uint(cnt))
			if k.isSigned() && f&(1<<(cnt-1)) != 0 {
				f |= ^maskN(uint(cnt))
			}
			out.W[i] = normInt(k, f)
			continue
		}
		iw := ins.W[0]
		if ins.T.Kind == KVector {
			iw = ins.W[i]
		}
		iw = convScalar(ins.T.S, k, iw)
		if cnt == 0 {
			out.W[i] = normInt(k, w)
			continue
		}
		m := maskN(uint(cnt)) << off
		out.W[i] = normInt(k, (w&^m)|((iw<<off)&m))
	}
	return out
}

func (it *interp) atomic(name string, args []*argv, pos Pos) Value {
	tt := it.u.tt
	if len(args) < 2 {
		skipf("%s: %s called with %d arguments", pos, name, len(args))
	}
	pv := it.argValue(args[0])
	if pv.Lazy || pv.T == nil || pv.T.Kind != KPointer || pv.P == nil {
		skipf("%s: first argument of %s is not a pointer", pos, name)
	}
	obj := pv.P
	if obj.t.Kind != KAtomic {
		skipf("%s: %s on an object of type %s", pos, name, obj.t)
	}
	if obj.r.space != "device" && obj.r.space != "threadgroup" {
		skipf("%s: atomic object in the %s address space", pos, obj.r.space)
	}
	k := obj.t.S
	st := tt.scalar(k)
	operand := func(i int) uint64 {
		v := it.argValue(args[i])
		if v.Lazy {
			return 0
		}
		if v.T == nil || v.T.Kind != KScalar {
			skipf("%s: operand of %s has type %s", pos, name, v.T)
		}
		return convScalar(v.T.S, k, v.W[0])
	}
	switch name {
	case "atomic_load_explicit":
		return scalarValue(st, it.load(obj).W[0])
	case "atomic_store_explicit":
		it.store(obj, Value{T: obj.t, W: []uint64{operand(1)}})
		return Value{T: voidType}
	case "atomic_compare_exchange_weak_explicit":
		if len(args) < 3 {
			skipf("%s: %s called with %d arguments", pos, name, len(args))
		}
		ev := it.argValue(args[1])
		if ev.T == nil || ev.T.Kind != KPointer || ev.P == nil || ev.P.t.Kind != KScalar {
			skipf("%s: expected-value argument of %s is not a pointer to a scalar", pos, name)
		}
		exp := it.load(ev.P)
		desired := operand(2)
		cur := it.load(obj).W[0]
		// One invocation, no contention: the weak form is modelled as the
		// strong one (it never fails spuriously).
		if cur == convScalar(exp.T.S, k, exp.W[0]) {
			it.store(obj, Value{T: obj.t, W: []uint64{desired}})
			return scalarValue(tt.scalar(SBool), 1)
		}
		it.store(ev.P, it.convert(scalarValue(st, cur), ev.P.t, true, pos))
		return scalarValue(tt.scalar(SBool), 0)
	}
	var op string
	switch name {
	case "atomic_exchange_explicit":
		op = "xchg"
	case "atomic_fetch_add_explicit":
		op = "+"
	case "atomic_fetch_sub_explicit":
		op = "-"
	case "atomic_fetch_and_explicit":
		op = "&"
	case "atomic_fetch_or_explicit":
		op = "|"
	case "atomic_fetch_xor_explicit":
		op = "^"
	case "atomic_fetch_min_explicit", "atomic_min_explicit":
		op = "min"
	case "atomic_fetch_max_explicit", "atomic_max_explicit":
		op = "max"
	default:
		skipf("%s: unsupported library function metal::%s", pos, name)
	}
	v := operand(1)
	old := it.load(obj).W[0]
	var nv uint64
	switch op {
	case "xchg":
		nv = v
	case "+", "-":
		if k.isFloat() {
			nv = scalarBin(op, k, old, v)
		} else if op == "+" {
			// atomic arithmetic wraps (two's complement), also for signed types
			nv = normInt(k, old+v)
		} else {
			nv = normInt(k, old-v)
		}
	case "&", "|", "^":
		if !k.isInt() {
			skipf("%s: %s on %s", pos, name, k)
		}
		nv = scalarBin(op, k, old, v)
	case "min", "max":
		if !k.isInt() {
			skipf("%s: %s on %s", pos, name, k)
		}
		less := old < v
		if k.isSigned() {
			less = int64(old) < int64(v)
		}
		nv = old
		if (op == "min") != less {
			nv = v
		}
	}
	it.store(obj, Value{T: obj.t, W: []uint64{nv}})
	if name == "atomic_min_explicit" || name == "atomic_max_explicit" {
		return Value{T: voidType}
	}
	return scalarValue(st, old)
}
