package mslx

import (
	"fmt"
	"strconv"
	"strings"

	"verif/harness/xrt"
)

// DeclKind classifies a declaration.
type DeclKind string

const (
	DeclStruct        DeclKind = "struct"
	DeclMember        DeclKind = "member"
	DeclFunction      DeclKind = "function"
	DeclParam         DeclKind = "param"
	DeclGlobal        DeclKind = "global"
	DeclLocal         DeclKind = "local"
	DeclTypedef       DeclKind = "typedef"
	DeclUsing         DeclKind = "using"
	DeclTemplateParam DeclKind = "template-param"
)

// Decl is one declaration of the translation unit.
type Decl struct {
	Kind DeclKind
	Name string
	Line int
	Col  int
	// Depth is the scope depth: 0 file scope; 1 struct members, function and
	// template parameters and the outermost block of a function body (C++
	// puts parameters and that block in one scope); +1 for every nested
	// block, for-init or switch body.
	Depth int
	// Type is the declared type as written (functions: the return type).
	Type string
	// Owner is the enclosing struct (members) or function (params, locals).
	Owner string

	typ   *Type // resolved object type (reference stripped)
	isRef bool
	space string
	cnst  bool
	vd    *VarDecl
	fn    *FuncDecl
	tmpl  *StructDecl // struct template
	idx   int
}

// Ref is one use of an identifier.
type Ref struct {
	Name string
	Line int
	Col  int
	// Decl is the declaration the name resolves to by C++ scoping (innermost
	// scope first); nil for names of the metal:: library, built-in types and
	// names that resolve to nothing.
	Decl *Decl
	// Depth is the scope depth at the point of use.
	Depth int
	// Member is set for `x.name` / `x->name` member designators (resolved
	// through the static type of x, not by scope).
	Member bool
	// Builtin is set for names supplied by the Metal standard library or the
	// language (metal::float3, metal::min, uint, ...).
	Builtin bool
}

// MemberLayout is the computed layout of one struct member.
type MemberLayout struct {
	Name   string
	Type   string // as written, with array declarator, e.g. "char[12]", "metal::packed_float3"
	Canon  string // canonical resolved type name
	Offset int
	Size   int
	Align  int
	Attrs  []Attr
	Line   int
	Col    int
}

// StructLayout is a struct definition with its computed C++/Metal layout.
type StructLayout struct {
	Name    string
	Size    int
	Align   int
	Members []MemberLayout
	Line    int
	Col     int
}

// EntryArg describes one parameter of a kernel / vertex / fragment function.
type EntryArg struct {
	Entry string // function name
	Stage string // kernel / vertex / fragment / mesh / object
	Index int    // position in the parameter list
	Name  string
	Type  string // named type as written, e.g. "metal::uint3", "S", "type_10"
	Canon string // canonical resolved type
	// AddressSpace is device / constant / threadgroup / thread / "" (by value).
	AddressSpace string
	Const        bool
	Reference    bool
	Pointer      bool
	Attrs        []Attr
	// Attribute summary: the index of [[buffer(n)]] / [[texture(n)]] /
	// [[sampler(n)]] (-1 when absent), [[stage_in]], and the name of any
	// other attribute such as thread_position_in_grid.
	Buffer  int
	Texture int
	Sampler int
	StageIn bool
	Builtin string
	Line    int
	Col     int
}

// Unit is a parsed and resolved MSL translation unit.  A Unit may be run any
// number of times, but not from several goroutines at once (types are interned
// lazily).
type Unit struct {
	src      string
	tops     []topDecl
	tt       *typeTable
	structs  []*StructDecl
	funcs    map[string][]*FuncDecl
	funcList []*FuncDecl
	globals  []*VarDecl
	decls    []*Decl
	refs     []Ref
	sev      []xrt.ScopeEv // declaration / reference event stream (C16, see ScopeEvents)
	etype    map[Expr]*Type
	// Notes lists non-fatal resolution problems (unknown identifiers, ...).
	Notes []string
	// Language is the "// language: metalX.Y" header comment, if present.
	Language string

	dcType   *Type // DefaultConstructible
	usingAll bool
	usings   map[string]bool
}

// Parse tokenises, parses and resolves an MSL translation unit.
func Parse(src string) (u *Unit, err error) {
	defer func() {
		if r := recover(); r != nil {
			u = nil
			switch e := r.(type) {
			case skipErr:
				err = fmt.Errorf("mslx: %s", e.msg)
			case trapErr:
				err = fmt.Errorf("mslx: %s", e.msg)
			default:
				err = fmt.Errorf("mslx: internal error while parsing: %v", r)
			}
		}
	}()
	toks, err := lex(src)
	if err != nil {
		return nil, err
	}
	tt := newTypeTable()
	p := &parser{toks: toks, tt: tt, typeNames: map[string]bool{}, usingNames: map[string]bool{}}
	tops, err := p.parseUnit()
	if err != nil {
		return nil, err
	}
	u = &Unit{src: src, tops: tops, tt: tt, funcs: map[string][]*FuncDecl{}, etype: map[Expr]*Type{}, usings: map[string]bool{}}
	if i := strings.Index(src, "// language: "); i >= 0 && i < 8 {
		rest := src[i+len("// language: "):]
		if j := strings.IndexByte(rest, '\n'); j >= 0 {
			rest = rest[:j]
		}
		u.Language = strings.TrimSpace(rest)
	}
	rs := &resolver{u: u}
	if err := rs.run(); err != nil {
		return nil, err
	}
	return u, nil
}

// Decls returns every declaration in source order.
func (u *Unit) Decls() []Decl {
	out := make([]Decl, len(u.decls))
	for i, d := range u.decls {
		out[i] = *d
	}
	return out
}

// DeclPtrs returns the declarations as the pointers that Ref.Decl uses.
func (u *Unit) DeclPtrs() []*Decl { return u.decls }

// Refs returns every identifier reference in source order of resolution.
func (u *Unit) Refs() []Ref { return u.refs }

// Structs returns every struct definition with its computed layout.
func (u *Unit) Structs() []StructLayout {
	var out []StructLayout
	for _, sd := range u.structs {
		si := sd.info
		t := u.tt.byName["struct "+sd.Name]
		sl := StructLayout{Name: sd.Name, Line: sd.P.Line, Col: sd.P.Col}
		if t != nil {
			sl.Size, sl.Align = t.size, t.align
		}
		for i, m := range si.Members {
			vd := sd.Members[i]
			ty := typeExprString(vd.Type)
			for _, d := range vd.Dims {
				ty += "[" + exprText(d) + "]"
			}
			sl.Members = append(sl.Members, MemberLayout{
				Name: m.Name, Type: ty, Canon: m.T.Name, Offset: m.Offset, Size: m.T.size, Align: m.T.align,
				Attrs: m.Attrs, Line: vd.P.Line, Col: vd.P.Col,
			})
		}
		out = append(out, sl)
	}
	return out
}

// EntryPoints lists the names of the kernel / vertex / fragment functions.
func (u *Unit) EntryPoints() (names []string, stages []string) {
	for _, f := range u.funcList {
		if f.Stage != "" {
			names = append(names, f.Name)
			stages = append(stages, f.Stage)
		}
	}
	return
}

// EntryArgs lists the parameters of every entry-point function.
func (u *Unit) EntryArgs() []EntryArg {
	var out []EntryArg
	for _, f := range u.funcList {
		if f.Stage == "" {
			continue
		}
		for i, pd := range f.Params {
			ea := EntryArg{
				Entry: f.Name, Stage: f.Stage, Index: i, Name: pd.Name, Type: pd.Type.Name,
				AddressSpace: pd.Type.Space, Const: pd.Type.Const, Reference: pd.Type.Ref, Pointer: pd.Type.Ptr > 0,
				Attrs: pd.Attrs, Buffer: -1, Texture: -1, Sampler: -1, Line: pd.P.Line, Col: pd.P.Col,
			}
			if len(pd.Type.TArgs) > 0 {
				ea.Type = typeExprBase(pd.Type)
			}
			if pd.typ != nil {
				ea.Canon = pd.typ.Name
			}
			for _, a := range pd.Attrs {
				n, err := strconv.Atoi(strings.TrimSpace(a.Args))
				switch a.Name {
				case "buffer":
					if err == nil {
						ea.Buffer = n
					}
				case "texture":
					if err == nil {
						ea.Texture = n
					}
				case "sampler":
					if err == nil {
						ea.Sampler = n
					}
				case "stage_in":
					ea.StageIn = true
				default:
					if ea.Builtin == "" {
						ea.Builtin = a.Name
					}
				}
			}
			out = append(out, ea)
		}
	}
	return out
}

func typeExprBase(te *TypeExpr) string {
	s := te.Name
	if len(te.TArgs) > 0 {
		var parts []string
		for _, a := range te.TArgs {
			if a.Type != nil {
				parts = append(parts, typeExprString(a.Type))
			} else {
				parts = append(parts, exprText(a.Expr))
			}
		}
		s += "<" + strings.Join(parts, ", ") + ">"
	}
	return s + te.Nested
}

func typeExprString(te *TypeExpr) string {
	if te == nil {
		return ""
	}
	var sb strings.Builder
	if te.Constexpr {
		sb.WriteString("constexpr ")
	}
	if te.Space != "" {
		sb.WriteString(te.Space + " ")
	}
	sb.WriteString(typeExprBase(te))
	if te.Const {
		sb.WriteString(" const")
	}
	for i := 0; i < te.Ptr; i++ {
		sb.WriteString("*")
	}
	if te.Ref {
		sb.WriteString("&")
	}
	if te.RRef {
		sb.WriteString("&&")
	}
	return sb.String()
}

// exprText renders simple constant expressions (for attribute / array texts).
func exprText(e Expr) string {
	switch x := e.(type) {
	case *IntLit:
		return x.Text
	case *FloatLit:
		return x.Text
	case *BoolLit:
		if x.Val {
			return "true"
		}
		return "false"
	case *Ident:
		return x.Name
	case *Paren:
		return "(" + exprText(x.X) + ")"
	case *Binary:
		return exprText(x.L) + " " + x.Op + " " + exprText(x.R)
	case *Unary:
		return x.Op + exprText(x.X)
	}
	return "?"
}

// ---------------------------------------------------------------------------

type scope struct {
	names map[string]*Decl
	depth int
}

type resolver struct {
	u      *Unit
	scopes []*scope
	curFn  *FuncDecl
}

func (rs *resolver) push(depth int) {
	rs.scopes = append(rs.scopes, &scope{names: map[string]*Decl{}, depth: depth})
	kind := "body"
	if depth == 0 {
		kind = "unit"
	}
	rs.u.sev = append(rs.u.sev, xrt.ScopeEv{Op: "open", Kind: kind})
}

func (rs *resolver) pop() {
	rs.scopes = rs.scopes[:len(rs.scopes)-1]
	rs.u.sev = append(rs.u.sev, xrt.ScopeEv{Op: "close"})
}

// ScopeEvents is the declaration / reference event stream recorded by the
// resolver (consumed by spec/Scopes.tla, property C16).
func (u *Unit) ScopeEvents() []xrt.ScopeEv { return u.sev }

func (rs *resolver) depth() int { return rs.scopes[len(rs.scopes)-1].depth }

func (rs *resolver) note(pos Pos, format string, args ...interface{}) {
	rs.u.Notes = append(rs.u.Notes, fmt.Sprintf("%s: %s", pos, fmt.Sprintf(format, args...)))
}

func (rs *resolver) declare(d *Decl) {
	sc := rs.scopes[len(rs.scopes)-1]
	d.Depth = sc.depth
	d.idx = len(rs.u.decls)
	rs.u.decls = append(rs.u.decls, d)
	{
		sig := ""
		if d.Kind == DeclFunction && d.fn != nil {
			sig = "("
			for i, pd := range d.fn.Params {
				if i > 0 {
					sig += ","
				}
				sig += typeExprString(pd.Type)
				for range pd.Dims {
					sig += "[]"
				}
			}
			sig += ")"
		}
		rs.u.sev = append(rs.u.sev, xrt.ScopeEv{Op: "decl", Kind: string(d.Kind), Name: d.Name, Sig: sig, Line: d.Line, Col: d.Col, Decl: d.idx})
	}
	if d.Name == "" {
		return
	}
	if old, ok := sc.names[d.Name]; ok {
		if !(old.Kind == DeclFunction && d.Kind == DeclFunction) {
			rs.note(Pos{d.Line, d.Col}, "redeclaration of %q in the same scope (first at %d:%d)", d.Name, old.Line, old.Col)
		} else {
			return // overload set: the name keeps designating the first
		}
	}
	sc.names[d.Name] = d
}

func (rs *resolver) lookup(name string) *Decl {
	for i := len(rs.scopes) - 1; i >= 0; i-- {
		if d, ok := rs.scopes[i].names[name]; ok {
			return d
		}
	}
	return nil
}

func (rs *resolver) ref(name string, pos Pos, d *Decl, member, builtin bool) {
	rs.u.refs = append(rs.u.refs, Ref{Name: name, Line: pos.Line, Col: pos.Col, Decl: d, Depth: rs.depth(), Member: member, Builtin: builtin})
	{
		di, kind := -1, "var"
		if d != nil {
			di = d.idx
		}
		if member {
			kind = "member"
		}
		rs.u.sev = append(rs.u.sev, xrt.ScopeEv{Op: "ref", Kind: kind, Name: name, Line: pos.Line, Col: pos.Col, Decl: di, Builtin: builtin, Member: member})
	}
}

func (rs *resolver) run() error {
	u := rs.u
	rs.push(0)
	for i := range u.tops {
		td := &u.tops[i]
		switch {
		case td.Using != nil:
			ud := td.Using
			d := &Decl{Kind: DeclUsing, Name: ud.Name, Line: ud.P.Line, Col: ud.P.Col}
			if ud.Alias != nil {
				ud.typ = rs.resolveVarType(ud.Alias, nil, false)
				d.Type = typeExprString(ud.Alias)
				d.typ = ud.typ
				d.Kind = DeclTypedef
			} else if strings.HasPrefix(ud.Name, "namespace ") {
				if ud.Name == "namespace metal" {
					u.usingAll = true
				}
			} else {
				// using metal::uint; -> declares the unqualified name
				u.usings[ud.Name] = true
				d.Name = ud.Name[strings.LastIndex(ud.Name, ":")+1:]
				d.Type = ud.Name
				if t := u.tt.builtinType(stripMetal(ud.Name)); t != nil {
					d.typ = t
				}
			}
			ud.decl = d
			rs.declare(d)
		case td.Typedef != nil:
			tdef := td.Typedef
			base := rs.resolveVarType(tdef.Type, nil, false)
			t := base
			if len(tdef.Dims) > 0 {
				t = rs.applyDims(base, tdef.Dims, true)
			}
			tdef.typ = t
			d := &Decl{Kind: DeclTypedef, Name: tdef.Name, Line: tdef.P.Line, Col: tdef.P.Col, Type: typeExprString(tdef.Type), typ: t}
			for _, dm := range tdef.Dims {
				d.Type += "[" + exprText(dm) + "]"
			}
			tdef.decl = d
			rs.declare(d)
		case td.Struct != nil:
			rs.resolveStruct(td.Struct)
		case td.Var != nil:
			vd := td.Var
			d := rs.varDecl(vd, DeclGlobal, "")
			rs.declare(d)
			rs.resolveInit(vd)
			u.globals = append(u.globals, vd)
		case td.Func != nil:
			rs.resolveFunc(td.Func)
		}
	}
	u.sev = append(u.sev, xrt.ScopeEv{Op: "close"}) // the file scope stays on the resolver's stack; the event stream closes it
	return nil
}

// instantiate creates the struct type Name<args> of a struct template.
func (rs *resolver) instantiate(sd *StructDecl, te *TypeExpr) *Type {
	u := rs.u
	name := typeExprBase(te)
	if t, ok := u.tt.byName["struct "+name]; ok {
		return t
	}
	if len(te.TArgs) != len(sd.TParams) {
		skipf("%s: %s used with %d template arguments", te.Pos, sd.Name, len(te.TArgs))
	}
	si := &StructInfo{Name: name, byName: map[string]*MemberInfo{}, decl: sd.decl}
	t := &Type{Kind: KStruct, Name: name, Struct: si}
	u.tt.byName["struct "+name] = t
	rs.push(1)
	for i, tp := range sd.tpDecls {
		a := te.TArgs[i]
		if a.Type == nil {
			skipf("%s: non-type template argument for %s", te.Pos, sd.Name)
		}
		at := rs.resolveVarType(a.Type, nil, false)
		rs.scopes[len(rs.scopes)-1].names[tp.Name] = &Decl{Kind: DeclTemplateParam, Name: tp.Name, Line: tp.Line, Col: tp.Col, Depth: 1, typ: at}
	}
	nrefs := len(u.refs)
	for i, vd := range sd.Members {
		cp := *vd.Type
		cp.T = nil
		mt := rs.resolveVarType(&cp, nil, false)
		if len(vd.Dims) > 0 {
			mt = rs.applyDims(mt, vd.Dims, false)
		}
		mi := &MemberInfo{Name: vd.Name, T: mt, Attrs: vd.Attrs, decl: sd.info.Members[i].decl}
		si.Members = append(si.Members, mi)
		si.byName[vd.Name] = mi
	}
	u.refs = u.refs[:nrefs] // the template's own names were recorded once
	rs.pop()
	t.size, t.align = layoutStruct(si)
	return t
}

func (rs *resolver) resolveStruct(sd *StructDecl) {
	u := rs.u
	u.structs = append(u.structs, sd)
	si := sd.info
	if si == nil {
		si = &StructInfo{Name: sd.Name}
		sd.info = si
	}
	si.byName = map[string]*MemberInfo{}
	si.hasMethods = sd.Methods > 0
	t := &Type{Kind: KStruct, Name: sd.Name, Struct: si}
	d := &Decl{Kind: DeclStruct, Name: sd.Name, Line: sd.P.Line, Col: sd.P.Col, Type: "struct", typ: t}
	sd.decl = d
	si.decl = d
	rs.declare(d)
	u.tt.byName["struct "+sd.Name] = t
	if si.defaultConstructible {
		u.dcType = t
	}
	if len(sd.TParams) > 0 {
		d.tmpl = sd
	}
	rs.push(1)
	for _, tp := range sd.tpDecls {
		tp.typ = genericType
		rs.declare(tp)
	}
	for _, vd := range sd.Members {
		md := rs.varDecl(vd, DeclMember, sd.Name)
		rs.declare(md)
		mi := &MemberInfo{Name: vd.Name, T: vd.typ, Attrs: vd.Attrs, decl: md}
		if vd.Type.Ref || vd.typ == nil {
			skipf("struct %s: member %s has an unsupported type", sd.Name, vd.Name)
		}
		for et := vd.typ; et != nil; et = et.Elem {
			if et.Kind == KStruct && !et.Struct.complete && !et.Struct.defaultConstructible {
				skipf("struct %s: member %s has the incomplete type %s", sd.Name, vd.Name, et.Name)
			}
			if et.Kind != KArray {
				break
			}
		}
		si.Members = append(si.Members, mi)
		si.byName[vd.Name] = mi
		if vd.Init != nil {
			// default member initialiser: parsed and resolved, not executed
			rs.resolveInit(vd)
			si.hasMethods = true
		}
	}
	rs.pop()
	t.size, t.align = layoutStruct(si)
}

// varDecl resolves the declared type of a variable and creates its Decl.
func (rs *resolver) varDecl(vd *VarDecl, kind DeclKind, owner string) *Decl {
	t := rs.resolveVarType(vd.Type, vd, true)
	if len(vd.Dims) > 0 && t != nil {
		t = rs.applyDims(t, vd.Dims, false)
	}
	vd.typ = t
	ty := typeExprString(vd.Type)
	for _, dm := range vd.Dims {
		ty += "[" + exprText(dm) + "]"
	}
	d := &Decl{Kind: kind, Name: vd.Name, Line: vd.P.Line, Col: vd.P.Col, Type: ty, Owner: owner,
		typ: t, isRef: vd.Type.Ref || vd.Type.RRef, space: vd.Type.Space, cnst: vd.Type.Const || vd.Type.Constexpr, vd: vd}
	vd.decl = d
	return d
}

func (rs *resolver) applyDims(base *Type, dims []Expr, typedef bool) *Type {
	t := base
	for i := len(dims) - 1; i >= 0; i-- {
		n, ok := rs.constInt(dims[i])
		if !ok || n < 0 || n > 1<<28 {
			skipf("%s: array dimension is not a supported constant expression", dims[i].pos())
		}
		rs.expr(dims[i])
		flexible := typedef && len(dims) == 1 && n == 1
		t = rs.u.tt.array(t, int(n), flexible)
	}
	return t
}

func (rs *resolver) constInt(e Expr) (int64, bool) {
	switch x := e.(type) {
	case *IntLit:
		return int64(x.Val), true
	case *Paren:
		return rs.constInt(x.X)
	case *Binary:
		a, ok1 := rs.constInt(x.L)
		b, ok2 := rs.constInt(x.R)
		if !ok1 || !ok2 {
			return 0, false
		}
		switch x.Op {
		case "+":
			return a + b, true
		case "-":
			return a - b, true
		case "*":
			return a * b, true
		case "/":
			if b != 0 {
				return a / b, true
			}
		}
	case *Ident:
		if d := rs.lookup(x.Name); d != nil && d.Kind == DeclGlobal && d.vd != nil && d.vd.Init != nil && d.cnst || d != nil && d.Kind == DeclGlobal && d.space == "constant" && d.vd != nil && d.vd.Init != nil {
			return rs.constInt(d.vd.Init)
		}
	}
	return 0, false
}

// resolveVarType resolves a TypeExpr to the object type (pointer applied,
// reference stripped), recording references to the names it uses.
func (rs *resolver) resolveVarType(te *TypeExpr, vd *VarDecl, _ bool) *Type {
	t := rs.resolveNamedType(te)
	if t == nil {
		return nil
	}
	for i := 0; i < te.Ptr; i++ {
		t = rs.u.tt.pointer(t, te.Space, te.Const)
	}
	return t
}

func (rs *resolver) resolveNamedType(te *TypeExpr) *Type {
	if te.T != nil {
		return te.T
	}
	u := rs.u
	if te.Auto {
		te.T = genericType
		return te.T
	}
	for _, a := range te.TArgs {
		if a.Type != nil {
			rs.resolveVarType(a.Type, nil, false)
		} else if a.Expr != nil {
			rs.expr(a.Expr)
		}
	}
	if te.Nested != "" {
		rs.ref(te.Name, te.NamePos, rs.lookup(te.Name), false, rs.lookup(te.Name) == nil)
		te.T = u.tt.opaque(typeExprBase(te))
		return te.T
	}
	if d := rs.lookup(te.Name); d != nil {
		if d.Kind == DeclStruct && d.tmpl != nil {
			rs.ref(te.Name, te.NamePos, d, false, false)
			te.decl = d
			te.T = rs.instantiate(d.tmpl, te)
			return te.T
		}
		switch d.Kind {
		case DeclStruct, DeclTypedef, DeclTemplateParam:
			rs.ref(te.Name, te.NamePos, d, false, false)
			te.decl = d
			te.T = d.typ
			return te.T
		case DeclUsing:
			if d.typ != nil {
				rs.ref(te.Name, te.NamePos, d, false, false)
				te.decl = d
				te.T = d.typ
				return te.T
			}
		}
	}
	base := stripMetal(te.Name)
	if t := u.tt.builtinType(base); t != nil {
		rs.ref(te.Name, te.NamePos, nil, false, true)
		te.T = t
		return t
	}
	if base != te.Name && isOpaqueTypeName(base) {
		rs.ref(te.Name, te.NamePos, nil, false, true)
		te.T = u.tt.opaque(typeExprBase(te))
		return te.T
	}
	skipf("%s: unknown type %q", te.Pos, te.Name)
	return nil
}

func (rs *resolver) resolveInit(vd *VarDecl) {
	if vd.Init != nil {
		if il, ok := vd.Init.(*InitList); ok && il.T == nil {
			rs.initList(il, vd.typ)
		} else {
			rs.expr(vd.Init)
		}
		if vd.Type.Auto {
			if t := rs.u.etype[vd.Init]; t != nil {
				vd.typ = t
				vd.decl.typ = t
			}
		}
	}
	for _, a := range vd.Ctor {
		rs.expr(a)
	}
}

func (rs *resolver) resolveFunc(fd *FuncDecl) {
	u := rs.u
	u.funcs[fd.Name] = append(u.funcs[fd.Name], fd)
	u.funcList = append(u.funcList, fd)
	rs.push(1)
	for _, tp := range fd.tpDecls {
		tp.typ = genericType
		rs.declare(tp)
	}
	fd.retType = rs.resolveVarType(fd.Ret, nil, false)
	rs.pop()
	d := &Decl{Kind: DeclFunction, Name: fd.Name, Line: fd.P.Line, Col: fd.P.Col, Type: typeExprString(fd.Ret), fn: fd, typ: fd.retType}
	fd.decl = d
	rs.declare(d)
	rs.curFn = fd
	rs.push(1)
	for _, tp := range fd.tpDecls {
		rs.scopes[len(rs.scopes)-1].names[tp.Name] = tp
		// the template parameters are visible in the function's scope as well (scope events)
		rs.u.sev = append(rs.u.sev, xrt.ScopeEv{Op: "decl", Kind: string(tp.Kind), Name: tp.Name, Line: tp.Line, Col: tp.Col, Decl: tp.idx})
	}
	for _, pd := range fd.Params {
		d := rs.varDecl(pd, DeclParam, fd.Name)
		rs.declare(d)
	}
	if fd.Body != nil {
		for _, s := range fd.Body.Stmts {
			rs.stmt(s)
		}
	}
	rs.pop()
	rs.curFn = nil
}

func (rs *resolver) block(b *Block) {
	rs.push(rs.depth() + 1)
	for _, s := range b.Stmts {
		rs.stmt(s)
	}
	rs.pop()
}

func (rs *resolver) stmt(s Stmt) {
	switch x := s.(type) {
	case *Block:
		rs.block(x)
	case *DeclStmt:
		for _, vd := range x.Vars {
			d := rs.varDecl(vd, DeclLocal, rs.curFn.Name)
			rs.declare(d)
			rs.resolveInit(vd)
		}
	case *ExprStmt:
		rs.expr(x.X)
	case *If:
		rs.expr(x.Cond)
		rs.substmt(x.Then)
		if x.Else != nil {
			rs.substmt(x.Else)
		}
	case *Switch:
		rs.expr(x.Tag)
		rs.push(rs.depth() + 1)
		for _, sec := range x.Sections {
			for _, l := range sec.Labels {
				rs.expr(l)
			}
			for _, st := range sec.Body {
				rs.stmt(st)
			}
		}
		rs.pop()
	case *For:
		rs.push(rs.depth() + 1)
		if x.Init != nil {
			rs.stmt(x.Init)
		}
		if x.Cond != nil {
			rs.expr(x.Cond)
		}
		if x.Post != nil {
			rs.expr(x.Post)
		}
		rs.substmt(x.Body)
		rs.pop()
	case *While:
		rs.expr(x.Cond)
		rs.substmt(x.Body)
	case *DoWhile:
		rs.substmt(x.Body)
		rs.expr(x.Cond)
	case *Return:
		if x.X != nil {
			if il, ok := x.X.(*InitList); ok && il.T == nil && rs.curFn != nil {
				rs.initList(il, rs.curFn.retType)
			} else {
				rs.expr(x.X)
			}
		}
	}
}

// substmt resolves a statement that is the body of if/for/while: a non-block
// statement still gets its own scope in C++.
func (rs *resolver) substmt(s Stmt) {
	if b, ok := s.(*Block); ok {
		rs.block(b)
		return
	}
	rs.push(rs.depth() + 1)
	rs.stmt(s)
	rs.pop()
}

// initList resolves a brace list against the type it initialises (when known).
func (rs *resolver) initList(il *InitList, t *Type) {
	if il.T != nil {
		t = rs.resolveVarType(il.T, nil, false)
	}
	if t != nil {
		rs.u.etype[il] = t
	}
	for _, e := range il.Elems {
		if sub, ok := e.(*InitList); ok && sub.T == nil {
			rs.initList(sub, nil)
			continue
		}
		rs.expr(e)
	}
}

func (rs *resolver) setType(e Expr, t *Type) *Type {
	if t != nil {
		rs.u.etype[e] = t
	}
	return t
}

// expr resolves names in e and computes its static type (nil if unknown).
func (rs *resolver) expr(e Expr) *Type {
	u := rs.u
	tt := u.tt
	switch x := e.(type) {
	case *IntLit:
		switch {
		case x.Long && x.Unsigned:
			return rs.setType(e, tt.scalar(SULong))
		case x.Long:
			return rs.setType(e, tt.scalar(SLong))
		case x.Unsigned:
			return rs.setType(e, tt.scalar(SUInt))
		}
		return rs.setType(e, tt.scalar(SInt))
	case *FloatLit:
		if x.Half {
			return rs.setType(e, tt.scalar(SHalf))
		}
		return rs.setType(e, tt.scalar(SFloat))
	case *BoolLit:
		return rs.setType(e, tt.scalar(SBool))
	case *StringLit:
		return nil
	case *Ident:
		d := rs.lookup(x.Name)
		if d == nil && strings.HasPrefix(x.Name, "metal::") {
			rs.ref(x.Name, x.P, nil, false, true)
			return nil
		}
		if d == nil {
			if isIntrinsicName(x.Name) {
				rs.ref(x.Name, x.P, nil, false, true)
				return nil
			}
			rs.note(x.P, "use of undeclared identifier %q", x.Name)
			rs.ref(x.Name, x.P, nil, false, false)
			return nil
		}
		x.Decl = d
		rs.ref(x.Name, x.P, d, false, false)
		switch d.Kind {
		case DeclGlobal, DeclLocal, DeclParam:
			return rs.setType(e, d.typ)
		}
		return nil
	case *Paren:
		return rs.setType(e, rs.expr(x.X))
	case *Comma:
		rs.expr(x.L)
		return rs.setType(e, rs.expr(x.R))
	case *Unary:
		t := rs.expr(x.X)
		if t == nil {
			return nil
		}
		switch x.Op {
		case "!":
			if t.Kind == KVector {
				return rs.setType(e, tt.vector(SBool, t.N, false))
			}
			return rs.setType(e, tt.scalar(SBool))
		case "-", "+", "~":
			if t.Kind == KScalar {
				return rs.setType(e, tt.scalar(promote(t.S)))
			}
			return rs.setType(e, t)
		case "*":
			if t.Kind == KPointer {
				return rs.setType(e, t.Elem)
			}
			return nil
		case "&":
			return rs.setType(e, tt.pointer(t, "", false))
		}
		return rs.setType(e, t)
	case *Postfix:
		return rs.setType(e, rs.expr(x.X))
	case *Binary:
		l := rs.expr(x.L)
		r := rs.expr(x.R)
		if l != nil && r == nil && rs.isDC(x.R) {
			r = l
		}
		if r != nil && l == nil && rs.isDC(x.L) {
			l = r
		}
		return rs.setType(e, tt.binaryType(x.Op, unpack(tt, l), unpack(tt, r)))
	case *Assign:
		l := rs.expr(x.L)
		if il, ok := x.R.(*InitList); ok && il.T == nil {
			rs.initList(il, l)
		} else {
			rs.expr(x.R)
		}
		return rs.setType(e, l)
	case *Cond:
		rs.expr(x.C)
		t := rs.expr(x.T)
		f := rs.expr(x.F)
		switch {
		case rs.isDC(x.T):
			return rs.setType(e, f)
		case rs.isDC(x.F):
			return rs.setType(e, t)
		case t != nil && f != nil && t != f && t.Kind == KScalar && f.Kind == KScalar:
			return rs.setType(e, tt.scalar(commonScalar(t.S, f.S)))
		case t != nil:
			return rs.setType(e, unpack(tt, t))
		}
		return rs.setType(e, unpack(tt, f))
	case *Call:
		var at []*Type
		for _, a := range x.Args {
			if il, ok := a.(*InitList); ok && il.T == nil {
				rs.initList(il, nil)
				at = append(at, nil)
				continue
			}
			at = append(at, rs.expr(a))
		}
		d := rs.lookup(x.Fun.Name)
		if d != nil && d.Kind == DeclFunction {
			x.cands = u.funcs[x.Fun.Name]
			fn := pickOverloadStatic(x.cands, at)
			if fn != nil {
				x.Fun.Decl = fn.decl
				rs.ref(x.Fun.Name, x.Fun.P, fn.decl, false, false)
				if fn.retType != nil && fn.retType.Kind != KGeneric {
					return rs.setType(e, fn.retType)
				}
				return nil
			}
			x.Fun.Decl = d
			rs.ref(x.Fun.Name, x.Fun.P, d, false, false)
			return nil
		}
		if d != nil {
			// calling something that is not a function (e.g. a sampler variable)
			x.Fun.Decl = d
			rs.ref(x.Fun.Name, x.Fun.P, d, false, false)
			return nil
		}
		rs.ref(x.Fun.Name, x.Fun.P, nil, false, true)
		if !strings.HasPrefix(x.Fun.Name, "metal::") && !isIntrinsicName(x.Fun.Name) {
			rs.note(x.Fun.P, "call of undeclared function %q", x.Fun.Name)
		}
		return rs.setType(e, intrinsicType(tt, x.Fun.Name, at))
	case *MethodCall:
		rs.expr(x.Recv)
		for _, a := range x.Args {
			rs.expr(a)
		}
		return nil
	case *Member:
		t := rs.expr(x.X)
		if t == nil {
			rs.ref(x.Name, x.NameP, nil, true, false)
			return nil
		}
		if x.Arrow {
			if t.Kind != KPointer {
				rs.ref(x.Name, x.NameP, nil, true, false)
				return nil
			}
			t = t.Elem
		}
		switch t.Kind {
		case KStruct:
			if mi := t.Struct.byName[x.Name]; mi != nil {
				x.decl = mi.decl
				rs.ref(x.Name, x.NameP, mi.decl, true, false)
				return rs.setType(e, mi.T)
			}
			rs.note(x.NameP, "no member %q in struct %s", x.Name, t.Name)
			rs.ref(x.Name, x.NameP, nil, true, false)
			return nil
		case KVector:
			rs.ref(x.Name, x.NameP, nil, true, true)
			if idx := swizzleIndices(x.Name, t.N); idx != nil {
				if len(idx) == 1 {
					return rs.setType(e, tt.scalar(t.S))
				}
				return rs.setType(e, tt.vector(t.S, len(idx), false))
			}
			return nil
		}
		rs.ref(x.Name, x.NameP, nil, true, false)
		return nil
	case *Index:
		t := rs.expr(x.X)
		rs.expr(x.I)
		if t == nil {
			return nil
		}
		switch t.Kind {
		case KArray, KPointer:
			return rs.setType(e, t.Elem)
		case KVector:
			return rs.setType(e, tt.scalar(t.S))
		case KMatrix:
			return rs.setType(e, t.Elem)
		}
		return nil
	case *Cast:
		rs.expr(x.X)
		return rs.setType(e, rs.resolveVarType(x.T, nil, false))
	case *Construct:
		t := rs.resolveVarType(x.T, nil, false)
		for _, a := range x.Args {
			rs.expr(a)
		}
		return rs.setType(e, t)
	case *InitList:
		rs.initList(x, nil)
		return u.etype[x]
	}
	return nil
}

// unpack maps packed vector types to the corresponding non-packed type (the
// type arithmetic on packed vectors yields).
func unpack(tt *typeTable, t *Type) *Type {
	if t != nil && t.Kind == KVector && t.Packed {
		return tt.vector(t.S, t.N, false)
	}
	return t
}

func (rs *resolver) isDC(e Expr) bool {
	for {
		p, ok := e.(*Paren)
		if !ok {
			break
		}
		e = p.X
	}
	switch x := e.(type) {
	case *Construct:
		return x.T.T != nil && x.T.T == rs.u.dcType && len(x.Args) == 0
	case *InitList:
		return x.T != nil && x.T.T != nil && x.T.T == rs.u.dcType
	}
	return false
}

// pickOverloadStatic chooses the overload whose parameter types equal the
// (known) static argument types; with a single candidate of matching arity it
// is that candidate.
func pickOverloadStatic(cands []*FuncDecl, at []*Type) *FuncDecl {
	var arity []*FuncDecl
	for _, f := range cands {
		if len(f.Params) == len(at) {
			arity = append(arity, f)
		}
	}
	if len(arity) == 1 {
		return arity[0]
	}
	for _, f := range arity {
		ok := true
		for i, pd := range f.Params {
			if at[i] == nil || pd.typ == nil || !sameParamType(pd.typ, at[i]) {
				ok = false
				break
			}
		}
		if ok {
			return f
		}
	}
	return nil
}

func sameParamType(p, a *Type) bool {
	if p == a || p.Kind == KGeneric {
		return true
	}
	if p.Kind == KPointer && a.Kind == KPointer {
		return p.Elem == a.Elem || p.Elem.Kind == KGeneric
	}
	return false
}

var swizzleSets = []string{"xyzw", "rgba"}

// swizzleIndices decodes a vector component selector ("x", "zyx", "rgba");
// nil when it is not one, or selects a component beyond n.
func swizzleIndices(name string, n int) []int {
	if len(name) == 0 || len(name) > 4 {
		return nil
	}
	for _, set := range swizzleSets {
		var out []int
		ok := true
		for i := 0; i < len(name); i++ {
			j := strings.IndexByte(set, name[i])
			if j < 0 || j >= n {
				ok = false
				break
			}
			out = append(out, j)
		}
		if ok {
			return out
		}
	}
	return nil
}
