package mslx

import (
	"strings"
)

// argv is an evaluated call argument: either an lvalue (not yet loaded, so
// that an uninitialised out-parameter can be passed by reference) or a value.
type argv struct {
	e      Expr
	rf     *ref
	v      Value
	loaded bool
	list   *InitList
}

func (it *interp) argValue(a *argv) Value {
	if a.rf != nil && !a.loaded {
		a.v = it.load(a.rf)
		a.loaded = true
	}
	return a.v
}

func (it *interp) argType(a *argv) *Type {
	if a.rf != nil {
		if a.rf.swz != nil {
			return it.u.tt.vector(a.rf.t.S, len(a.rf.swz), false)
		}
		return a.rf.t
	}
	if a.v.Lazy {
		return nil
	}
	return a.v.T
}

func (it *interp) evalArgs(args []Expr, fr *frame) []*argv {
	out := make([]*argv, len(args))
	for i, e := range args {
		a := &argv{e: e}
		switch {
		case isBareList(e):
			a.list = e.(*InitList)
		case it.isLvalueExpr(e):
			a.rf = it.evalLValue(e, fr)
		default:
			a.v = it.eval(e, fr)
			a.loaded = true
		}
		out[i] = a
	}
	return out
}

func isBareList(e Expr) bool {
	il, ok := e.(*InitList)
	return ok && il.T == nil
}

func (it *interp) call(x *Call, fr *frame, discard bool) Value {
	it.step()
	name := x.Fun.Name
	if len(x.cands) > 0 {
		args := it.evalArgs(x.Args, fr)
		fn := it.pickOverload(x, args)
		return it.callUser(fn, args, fr, x.P)
	}
	if x.Fun.Decl != nil {
		skipf("%s: call of %q, which is not a function", x.P, name)
	}
	base := stripMetal(name)
	base = strings.TrimPrefix(base, "precise::")
	base = strings.TrimPrefix(base, "fast::")
	args := it.evalArgs(x.Args, fr)
	for _, a := range args {
		if a.list != nil {
			skipf("%s: brace list as an argument of %s", x.P, name)
		}
	}
	return it.intrinsic(base, args, x.P)
}

// paramMatch classifies how an argument fits a parameter: 2 exact, 1 through
// an implicit conversion, 0 not at all.
func (it *interp) paramMatch(pd *VarDecl, a *argv) int {
	pt := pd.typ
	if pt == nil {
		return 0
	}
	if a.list != nil {
		if pd.Type.Ref && !pd.Type.Const {
			return 0
		}
		return 1
	}
	at := it.argType(a)
	isRef := pd.Type.Ref
	if isRef && !pd.Type.Const && a.rf == nil {
		return 0 // a non-const lvalue reference needs an lvalue
	}
	if pd.Type.RRef && a.rf != nil {
		return 0
	}
	if at == nil { // DefaultConstructible()
		if isRef && !pd.Type.Const {
			return 0
		}
		return 1
	}
	if pt.Kind == KGeneric {
		return 2
	}
	if isRef {
		// address spaces must agree
		if pd.Type.Space != "" && a.rf != nil && a.rf.r.space != "" && pd.Type.Space != a.rf.r.space {
			return 0
		}
		if pt == at {
			return 2
		}
		if pd.Type.Const && canConvert(at, pt) {
			return 1
		}
		return 0
	}
	if pt.Kind == KPointer {
		if at.Kind != KPointer {
			return 0
		}
		if pt.Space != "" && at.Space != "" && pt.Space != at.Space {
			return 0
		}
		if pt.Elem == at.Elem || pt.Elem.Kind == KGeneric {
			return 2
		}
		return 0
	}
	if pt == at {
		return 2
	}
	if canConvert(at, pt) {
		return 1
	}
	return 0
}

// canConvert reports whether an implicit conversion from a to p exists.
func canConvert(a, p *Type) bool {
	if a == p {
		return true
	}
	switch p.Kind {
	case KScalar:
		return a.Kind == KScalar
	case KVector:
		if a.Kind == KScalar {
			return true
		}
		return a.Kind == KVector && a.N == p.N && a.S == p.S
	}
	return false
}

func (it *interp) pickOverload(x *Call, args []*argv) *FuncDecl {
	var exact, viable []*FuncDecl
	for _, f := range x.cands {
		if len(f.Params) != len(args) || f.Body == nil {
			continue
		}
		score := 2
		for i, pd := range f.Params {
			m := it.paramMatch(pd, args[i])
			if m < score {
				score = m
			}
			if score == 0 {
				break
			}
		}
		switch score {
		case 2:
			exact = append(exact, f)
		case 1:
			viable = append(viable, f)
		}
	}
	if len(exact) == 1 {
		return exact[0]
	}
	if len(exact) > 1 {
		skipf("%s: ambiguous call of overloaded function %s", x.P, x.Fun.Name)
	}
	if len(viable) == 1 {
		return viable[0]
	}
	if len(viable) > 1 {
		// prefer the candidate with the most exactly matching parameters
		best, bestN, tie := (*FuncDecl)(nil), -1, false
		for _, f := range viable {
			n := 0
			for i, pd := range f.Params {
				if it.paramMatch(pd, args[i]) == 2 {
					n++
				}
			}
			if n > bestN {
				best, bestN, tie = f, n, false
			} else if n == bestN {
				tie = true
			}
		}
		if !tie {
			return best
		}
		skipf("%s: ambiguous call of overloaded function %s", x.P, x.Fun.Name)
	}
	var ts []string
	for _, a := range args {
		ts = append(ts, it.argType(a).String())
	}
	skipf("%s: no matching function for call of %s(%s)", x.P, x.Fun.Name, strings.Join(ts, ", "))
	return nil
}

func (it *interp) callUser(fn *FuncDecl, args []*argv, caller *frame, pos Pos) Value {
	if it.depth >= maxCallDepth {
		skipf("%s: call depth exceeds %d (recursion?)", pos, maxCallDepth)
	}
	it.depth++
	defer func() { it.depth-- }()
	fr := &frame{fn: fn, vars: make(map[*Decl]*ref, len(fn.Params)+8)}
	for i, pd := range fn.Params {
		a := args[i]
		d := pd.decl
		pt := pd.typ
		switch {
		case pd.Type.Ref || pd.Type.RRef:
			if a.rf != nil && (pt.Kind == KGeneric || a.rf.t == pt) && a.rf.swz == nil {
				rf := a.rf
				if pd.Type.Const && !rf.ro {
					c := *rf
					c.ro = true
					rf = &c
				}
				fr.vars[d] = rf
				continue
			}
			// const reference bound to a temporary
			var v Value
			if a.list != nil {
				v = it.buildFromList(pt, a.list, caller)
			} else {
				v = it.convert(it.argValue(a), pt, false, pos)
			}
			fr.vars[d] = it.materialise(v, pd.Name)
		default:
			var v Value
			if a.list != nil {
				v = it.buildFromList(pt, a.list, caller)
			} else {
				v = it.convert(it.argValue(a), pt, false, pos)
			}
			if pt.Kind == KGeneric {
				v = it.unpackValue(v)
				fr.vars[d] = it.materialise(v, pd.Name)
				continue
			}
			r := newRegion(pd.Name, "thread", pt.size, false)
			rf := &ref{r: r, t: pt}
			it.store(rf, v)
			fr.vars[d] = rf
		}
	}
	c := it.execBlock(fn.Body.Stmts, fr)
	rt := fn.retType
	if rt == nil || rt.Kind == KVoid {
		return Value{T: voidType}
	}
	if c != ctlReturn {
		trapf("%s: control reaches the end of non-void function %s without a return", pos, fn.Name)
	}
	return fr.ret
}
