package mslx

import (
	"fmt"
	"strings"
)

// tokKind classifies a lexical token.
type tokKind uint8

const (
	tEOF tokKind = iota
	tIdent
	tInt
	tFloat
	tString
	tPunct
)

// Pos is a 1-based source position.
type Pos struct {
	Line, Col int
}

func (p Pos) String() string { return fmt.Sprintf("%d:%d", p.Line, p.Col) }

type token struct {
	kind tokKind
	text string
	pos  Pos
	// adj reports that the token starts immediately after the previous one
	// (no white space); used to recognise "[[" and "]]".
	adj bool
}

// parseError is a syntax error with a position.
type parseError struct {
	pos Pos
	msg string
}

func (e *parseError) Error() string { return fmt.Sprintf("mslx: %s: %s", e.pos, e.msg) }

var punct3 = []string{"<<=", ">>=", "...", "->*"}
var punct2 = []string{"::", "->", "++", "--", "<<", ">>", "<=", ">=", "==", "!=", "&&", "||", "+=", "-=", "*=", "/=", "%=", "&=", "|=", "^="}

func isIdentStart(c byte) bool {
	return c == '_' || (c >= 'a' && c <= 'z') || (c >= 'A' && c <= 'Z') || c >= 0x80
}

func isDigit(c byte) bool { return c >= '0' && c <= '9' }

func isHexDigit(c byte) bool {
	return isDigit(c) || (c >= 'a' && c <= 'f') || (c >= 'A' && c <= 'F')
}

// lex splits MSL source text into tokens.  Preprocessor lines and comments
// are dropped.
func lex(src string) ([]token, error) {
	var toks []token
	line, col := 1, 1
	i := 0
	n := len(src)
	lastEnd := -1
	atLineStart := true
	adv := func(k int) {
		for j := 0; j < k; j++ {
			if src[i] == '\n' {
				line++
				col = 1
			} else {
				col++
			}
			i++
		}
	}
	emit := func(kind tokKind, length int) {
		toks = append(toks, token{kind: kind, text: src[i : i+length], pos: Pos{line, col}, adj: i == lastEnd})
		adv(length)
		lastEnd = i
	}
	for i < n {
		c := src[i]
		switch {
		case c == '\n':
			adv(1)
			atLineStart = true
			continue
		case c == ' ' || c == '\t' || c == '\r' || c == '\f' || c == '\v':
			adv(1)
			continue
		case c == '#' && atLineStart:
			// preprocessor directive: skip the (possibly continued) line
			for i < n && src[i] != '\n' {
				if src[i] == '\\' && i+1 < n && src[i+1] == '\n' {
					adv(2)
					continue
				}
				adv(1)
			}
			continue
		case c == '/' && i+1 < n && src[i+1] == '/':
			for i < n && src[i] != '\n' {
				adv(1)
			}
			continue
		case c == '/' && i+1 < n && src[i+1] == '*':
			start := Pos{line, col}
			adv(2)
			closed := false
			for i < n {
				if src[i] == '*' && i+1 < n && src[i+1] == '/' {
					adv(2)
					closed = true
					break
				}
				adv(1)
			}
			if !closed {
				return nil, &parseError{start, "unterminated comment"}
			}
			continue
		}
		atLineStart = false
		switch {
		case isIdentStart(c):
			j := i
			for j < n && (isIdentStart(src[j]) || isDigit(src[j])) {
				j++
			}
			emit(tIdent, j-i)
		case isDigit(c) || (c == '.' && i+1 < n && isDigit(src[i+1])):
			j := i
			isFloat := false
			if c == '0' && j+1 < n && (src[j+1] == 'x' || src[j+1] == 'X') {
				j += 2
				for j < n && isHexDigit(src[j]) {
					j++
				}
			} else {
				for j < n && isDigit(src[j]) {
					j++
				}
				if j < n && src[j] == '.' {
					isFloat = true
					j++
					for j < n && isDigit(src[j]) {
						j++
					}
				}
				if j < n && (src[j] == 'e' || src[j] == 'E') {
					k := j + 1
					if k < n && (src[k] == '+' || src[k] == '-') {
						k++
					}
					if k < n && isDigit(src[k]) {
						isFloat = true
						j = k
						for j < n && isDigit(src[j]) {
							j++
						}
					}
				}
			}
			// suffix
			for j < n && (isIdentStart(src[j]) || isDigit(src[j])) {
				if !isFloat && (src[j] == 'f' || src[j] == 'F' || src[j] == 'h' || src[j] == 'H') &&
					!(c == '0' && i+1 < n && (src[i+1] == 'x' || src[i+1] == 'X')) {
					isFloat = true
				}
				j++
			}
			if isFloat {
				emit(tFloat, j-i)
			} else {
				emit(tInt, j-i)
			}
		case c == '"' || c == '\'':
			j := i + 1
			for j < n && src[j] != c && src[j] != '\n' {
				if src[j] == '\\' {
					j++
				}
				j++
			}
			if j >= n || src[j] != c {
				return nil, &parseError{Pos{line, col}, "unterminated string literal"}
			}
			emit(tString, j+1-i)
		default:
			matched := false
			for _, p := range punct3 {
				if strings.HasPrefix(src[i:], p) {
					emit(tPunct, 3)
					matched = true
					break
				}
			}
			if matched {
				break
			}
			for _, p := range punct2 {
				if strings.HasPrefix(src[i:], p) {
					emit(tPunct, 2)
					matched = true
					break
				}
			}
			if matched {
				break
			}
			if strings.IndexByte("{}()[];,.:?~!%^&*-+=|<>/", c) >= 0 {
				emit(tPunct, 1)
			} else {
				return nil, &parseError{Pos{line, col}, fmt.Sprintf("unexpected character %q", c)}
			}
		}
	}
	toks = append(toks, token{kind: tEOF, pos: Pos{line, col}})
	return toks, nil
}
