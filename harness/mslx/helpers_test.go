package mslx

import (
	"encoding/binary"
	"math"
	"testing"
	"verif/harness/xrt"

	"github.com/gogpu/naga"
	"github.com/gogpu/naga/msl"
)

// compileMSL runs the real naga front end and MSL backend.
func compileMSL(t testing.TB, wgsl string, opts msl.Options) string {
	t.Helper()
	ast, err := naga.Parse(wgsl)
	if err != nil {
		t.Fatalf("naga.Parse: %v", err)
	}
	m, err := naga.LowerWithSource(ast, wgsl)
	if err != nil {
		t.Fatalf("naga.Lower: %v", err)
	}
	src, _, err := msl.Compile(m, opts)
	if err != nil {
		t.Fatalf("msl.Compile: %v", err)
	}
	return src
}

func u32s(vals ...uint32) []byte {
	b := make([]byte, 4*len(vals))
	for i, v := range vals {
		binary.LittleEndian.PutUint32(b[4*i:], v)
	}
	return b
}

func i32s(vals ...int32) []byte {
	u := make([]uint32, len(vals))
	for i, v := range vals {
		u[i] = uint32(v)
	}
	return u32s(u...)
}

func f32s(vals ...float32) []byte {
	u := make([]uint32, len(vals))
	for i, v := range vals {
		u[i] = math.Float32bits(v)
	}
	return u32s(u...)
}

func getU32(b []byte, off int) uint32 { return binary.LittleEndian.Uint32(b[off:]) }
func getI32(b []byte, off int) int32  { return int32(getU32(b, off)) }
func getF32(b []byte, off int) float32 {
	return math.Float32frombits(getU32(b, off))
}

func xrtInput(entry string, bufs map[string][]byte) xrt.Input {
	return xrt.Input{Entry: entry, Buffers: bufs}
}
