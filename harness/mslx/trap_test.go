package mslx

import (
	"strings"
	"testing"

	"verif/harness/xrt"
)

const mslPrelude = `// language: metal2.1
#include <metal_stdlib>
#include <simd/simd.h>

using metal::uint;
struct DefaultConstructible {
    template<typename T>
    operator T() && {
        return T {};
    }
};
struct Arr { int inner[4]; };
typedef int RT[1];
struct WithRT { int head; RT tail; };
`

// runBody wraps statements in a kernel with
//
//	device Arr& o [[buffer(0)]], device Arr const& in [[buffer(1)]],
//	device WithRT& rt [[buffer(2)]], device float4& f [[buffer(3)]]
func runBody(body string, in1 []byte, extra ...string) (xrt.Outcome, map[string][]byte) {
	src := mslPrelude + strings.Join(extra, "\n") + `
kernel void k(
  device Arr& o [[buffer(0)]]
, device Arr const& in [[buffer(1)]]
, device WithRT& rt [[buffer(2)]]
, device metal::float4& f [[buffer(3)]]
) {
` + body + `
}
`
	bufs := map[string][]byte{
		"buffer(0)": make([]byte, 16),
		"buffer(1)": append([]byte(nil), in1...),
		"buffer(2)": i32s(9, 1, 2, 3),
		"buffer(3)": f32s(1, 2, 3, 4),
	}
	return Run(src, xrt.Input{Entry: "k", Buffers: bufs, TraceAccesses: true}), bufs
}

func TestTraps(t *testing.T) {
	in := i32s(intMax, intMin, 0, -1)
	type tcase struct{ name, body, trap, extra string }
	var cases []tcase
	for _, r := range [][]string{
		{"signed add overflow", `o.inner[0] = in.inner[0] + 1;`, "signed integer overflow: 2147483647 + 1"},
		{"signed sub overflow", `o.inner[0] = in.inner[1] - 1;`, "signed integer overflow: -2147483648 - 1"},
		{"signed mul overflow", `o.inner[0] = in.inner[0] * 2;`, "signed integer overflow: 2147483647 * 2"},
		{"negate INT_MIN", `o.inner[0] = -in.inner[1];`, "signed integer overflow: -(-2147483648)"},
		{"signed division by zero", `o.inner[0] = in.inner[0] / in.inner[2];`, "signed integer division by zero"},
		{"signed remainder by zero", `o.inner[0] = in.inner[0] % in.inner[2];`, "signed integer division by zero"},
		{"unsigned division by zero", `o.inner[0] = int(uint(in.inner[0]) / uint(in.inner[2]));`, "unsigned integer division by zero"},
		{"INT_MIN / -1", `o.inner[0] = in.inner[1] / in.inner[3];`, "signed integer overflow: -2147483648 / -1"},
		{"INT_MIN % -1", `o.inner[0] = in.inner[1] % in.inner[3];`, "signed integer overflow: -2147483648 % -1"},
		{"vector component overflow", `metal::int2 v = metal::int2(1, in.inner[0]); v = v + 1; o.inner[0] = v.y;`, "signed integer overflow"},
		{"float to int NaN", `float z = 0.0; o.inner[0] = static_cast<int>(z / z);`, "float-to-int conversion of NaN"},
		{"float to int inf", `float z = 0.0; o.inner[0] = int(1.0 / z);`, "float-to-int conversion of +Inf"},
		{"float to int range", `o.inner[0] = static_cast<int>(f.x * 3000000000.0);`, "float-to-int conversion of out-of-range value 3e+09"},
		{"float to uint negative", `o.inner[0] = int(static_cast<uint>(-f.x));`, "float-to-int conversion of out-of-range value -1 to uint"},
		{"array index high", `o.inner[in.inner[2] + 4] = 1;`, "array index 4 out of range [0,4)"},
		{"array index negative", `o.inner[0] = in.inner[in.inner[3]];`, "array index -1 out of range [0,4)"},
		{"local array index", `Arr a = {}; int i = 4; o.inner[0] = a.inner[i];`, "array index 4 out of range [0,4) in a"},
		{"vector index", `int i = 4; o.inner[0] = int(f[i]);`, "vector component index 4 out of range [0,4)"},
		{"vector index write", `metal::float3 v = metal::float3(0.0); int i = 3; v[i] = 1.0; o.inner[0] = 1;`, "vector component index 3 out of range [0,3)"},
		{"matrix column index", `metal::float2x2 m = metal::float2x2(metal::float2(1.0), metal::float2(2.0)); int i = 2; o.inner[0] = int(m[i].x);`, "matrix column index 2 out of range [0,2)"},
		{"runtime array beyond real length", `rt.tail[3] = 1;`, "index 3 beyond the runtime array's real length 3"},
		{"runtime array read beyond real length", `int i = 100; o.inner[0] = rt.tail[i];`, "index 100 beyond the runtime array's real length 3"},
		{"uninitialised local", `int x; o.inner[0] = x;`, "read of uninitialised variable x"},
		{"uninitialised member", `Arr a; a.inner[0] = 1; o.inner[0] = a.inner[1];`, "read of uninitialised variable a (byte offset 4)"},
		{"uninitialised vector lane", `metal::int2 v; v.x = 1; o.inner[0] = v.y;`, "read of uninitialised variable v"},
		{"uninitialised threadgroup", `threadgroup Arr w; o.inner[0] = w.inner[2];`, "read of uninitialised threadgroup memory w"},
		{"uninitialised threadgroup atomic", `threadgroup metal::atomic_int a; o.inner[0] = metal::atomic_load_explicit(&a, metal::memory_order_relaxed);`, "read of uninitialised threadgroup memory a"},
		{"uninitialised through reference", `int x; o.inner[0] = rd(x);`, "read of uninitialised variable x", `int rd(thread int& q) { return q; }`},
		{"self initialisation", `int x = x; o.inner[0] = x;`, "read of uninitialised variable x"},
		{"clamp lo > hi float", `o.inner[0] = int(metal::clamp(f.x, f.z, f.y));`, "clamp(1, 3, 2) with minval > maxval"},
		{"clamp lo > hi int", `o.inner[0] = metal::clamp(in.inner[2], 5, in.inner[3]);`, "clamp(0, 5, -1) with minval > maxval"},
		{"extract_bits beyond width", `o.inner[0] = metal::extract_bits(in.inner[0], 30u, 8u);`, "offset+bits exceeds the 32-bit operand"},
		{"insert_bits beyond width", `o.inner[0] = metal::insert_bits(in.inner[0], 1, 31u, 2u);`, "offset+bits exceeds the 32-bit operand"},
		{"missing return", `o.inner[0] = g(in.inner[2]);`, "control reaches the end of non-void function g", `int g(int a) { if (a > 0) { return 1; } }`},
		{"buffer shorter than the type", `o.inner[0] = int(f.w); rt.head = in.inner[0];`, "out-of-bounds"},
	} {
		c := tcase{name: r[0], body: r[1], trap: r[2]}
		if len(r) > 3 {
			c.extra = r[3]
		}
		cases = append(cases, c)
	}
	for _, c := range cases {
		t.Run(c.name, func(t *testing.T) {
			in1 := in
			if c.name == "buffer shorter than the type" {
				in1 = in[:0]
			}
			out, _ := runBody(c.body, in1, c.extra)
			if out.Skip != "" {
				t.Fatalf("skip: %s", out.Skip)
			}
			if !strings.Contains(out.Trap, c.trap) {
				t.Fatalf("trap = %q, want it to contain %q", out.Trap, c.trap)
			}
		})
	}
}

// Things MSL defines (or that every Metal compiler implements one way) must
// be computed, not trapped.
func TestDefinedBehaviourIsComputed(t *testing.T) {
	in := i32s(intMax, intMin, 0, -1)
	cases := []struct {
		name, body string
		want       []int32
		extra      string
	}{
		{"shift count is masked", `int c = 33; o.inner[0] = 1 << c; o.inner[1] = in.inner[1] >> 63; o.inner[2] = int(1u << uint(in.inner[3])); o.inner[3] = 8 >> -31;`, []int32{2, -1, intMin, 4}, ""},
		{"left shift of a negative value", `o.inner[0] = in.inner[3] << 4; o.inner[1] = in.inner[1] << 1; o.inner[2] = in.inner[0] << 1;`, []int32{-16, 0, -2, 0}, ""},
		{"unsigned wrap-around", `uint a = 4294967295u; o.inner[0] = int(a + 2u); o.inner[1] = int(0u - 1u == a); o.inner[2] = int(a * a); o.inner[3] = int(-a);`, []int32{1, 1, 1, 1}, ""},
		{"wrapping idiom", `o.inner[0] = as_type<int>(as_type<uint>(in.inner[0]) + as_type<uint>(1)); o.inner[1] = as_type<int>(-as_type<uint>(in.inner[1]));`, []int32{intMin, intMin, 0, 0}, ""},
		{"int/uint mix converts to uint", `o.inner[0] = int(in.inner[3] < 1u); o.inner[1] = int((in.inner[3] + 1u) == 0u); o.inner[2] = int(uint(in.inner[3]) / 2u == 2147483647u); o.inner[3] = -1 / 2;`, []int32{0, 1, 1, 0}, ""},
		{"bool arithmetic", `bool b = in.inner[0] > 0; o.inner[0] = b + b; o.inner[1] = int(b & false) + int(b | false) * 2; o.inner[2] = int(metal::uint2(b, 7u).x); o.inner[3] = true ? 3 : 4;`, []int32{2, 2, 1, 3}, ""},
		{"ternary evaluates one arm", `int i = 9; o.inner[0] = uint(i) < 4 ? in.inner[i] : DefaultConstructible(); o.inner[1] = uint(i) >= 4 ? 5 : in.inner[i]; o.inner[2] = (false && in.inner[i] > 0) ? 1 : 2; o.inner[3] = (true || in.inner[i] > 0) ? 1 : 2;`, []int32{0, 5, 2, 1}, ""},
		{"ternary precedence", `int a = in.inner[2]; o.inner[0] = (a > 5) ? 2 : 1 + 10; o.inner[1] = a > 5 ? 2 : 1 + 10; o.inner[2] = 1 + (a > 5 ? 2 : 1) + 10;`, []int32{11, 11, 12, 0}, ""},
		{"float to int truncation", `o.inner[0] = int(f.y * 1.9); o.inner[1] = int(-f.y * 1.9); o.inner[2] = int(uint(f.w * 1000000000.0)); o.inner[3] = static_cast<int>(-0.9);`, []int32{3, -3, -294967296, 0}, ""},
		{"atomics wrap", `threadgroup metal::atomic_int a; metal::atomic_store_explicit(&a, 2147483647, metal::memory_order_relaxed); o.inner[0] = metal::atomic_fetch_add_explicit(&a, 1, metal::memory_order_relaxed); o.inner[1] = metal::atomic_load_explicit(&a, metal::memory_order_relaxed);`, []int32{intMax, intMin, 0, 0}, ""},
		{"select and clz/ctz of zero", `o.inner[0] = metal::select(1, 2, in.inner[2] == 0); o.inner[1] = metal::clz(in.inner[2]); o.inner[2] = int(metal::ctz(0u)); o.inner[3] = metal::select(metal::int2(1, 2), metal::int2(3, 4), metal::bool2(true, false)).y;`, []int32{2, 32, 32, 2}, ""},
		{"switch fallthrough", `int r = 0; switch (in.inner[2]) { case 0: r += 1; case 1: r += 10; break; case 2: r += 100; default: r += 1000; } o.inner[0] = r; switch (in.inner[3]) { case 5: r = 7; break; default: r = 8; case 6: r += 1; } o.inner[1] = r;`, []int32{11, 9, 0, 0}, ""},
		{"do-while and for", `int n = 0; do { n += 3; } while (n < 10); o.inner[0] = n; int s = 0; for (int i = 0, j = 10; i < j; i++, j--) { s += j - i; } o.inner[1] = s; int k = 0; while (true) { if (++k > 4) break; else continue; } o.inner[2] = k; int q = k++; o.inner[3] = q + k;`, []int32{12, 30, 5, 11}, ""},
		{"references and pointers", `int x = 1; thread int& r = x; r = 5; thread int* p = &x; *p += 2; bump(x); bump2(&x); o.inner[0] = x; Arr a = {1, 2}; thread Arr& ra = a; ra.inner[3] = 9; o.inner[1] = a.inner[1] + a.inner[3] + a.inner[2];`, []int32{18, 11, 0, 0}, `void bump(thread int& q) { q = q * 2; } void bump2(thread int* q) { *q = *q + 4; }`},
		{"brace elision and value init", `Two t = {1, 2, metal::int2(3, 4), 5}; Two z = {}; Two p = Two {{7}, {{8, 9}}, 10}; o.inner[0] = t.a.inner[1] + t.b.v.y * 10 + t.c * 100; o.inner[1] = z.b.v.x + z.c; o.inner[2] = p.a.inner[0] + p.a.inner[1] + p.b.v.y + p.c; o.inner[3] = int(sizeof_probe().y);`, []int32{542, 0, 26, 2}, `struct Pair { int inner[2]; }; struct VV { metal::int2 v; }; struct Two { Pair a; VV b; int c; }; metal::float2 sizeof_probe() { return metal::float2 {1.0, 2.0}; }`},
		{"swizzles", `metal::int4 v = metal::int4(1, 2, 3, 4); v.xy = v.zw; v.w = v.x + v.y; metal::int3 q = v.wzy; o.inner[0] = v.x; o.inner[1] = v.w; o.inner[2] = q.x * 100 + q.y * 10 + q.z; o.inner[3] = metal::int2(v.xxyy.zw).y;`, []int32{3, 7, 734, 4}, ""},
		{"matrix conventions", `metal::float2x3 m = metal::float2x3(metal::float3(1.0, 2.0, 3.0), metal::float3(4.0, 5.0, 6.0)); metal::float3 a = m * metal::float2(1.0, 10.0); metal::float2 b = metal::float3(1.0, 10.0, 100.0) * m; metal::float3x3 mm = m * metal::transpose(m); o.inner[0] = int(a.z); o.inner[1] = int(b.y); o.inner[2] = int(mm[2].x); o.inner[3] = int(metal::float2x2(2.0)[1].y + metal::float2x2(2.0)[1].x);`, []int32{63, 654, 27, 2}, ""},
		{"packed vectors convert", `PK s = PK {metal::packed_float3(1.0, 2.0, 3.0), 4.0}; metal::float3 v = s.p; v = v * 2.0; s.p = v; s.p[1] = 9.0; o.inner[0] = int(s.p.z); o.inner[1] = int(s.p.y); o.inner[2] = int(metal::float3(s.p).x + s.q); o.inner[3] = int(metal::dot(metal::float3(s.p), v));`, []int32{6, 9, 6, 76}, `struct PK { metal::packed_float3 p; float q; };`},
		{"as_type reinterprets", `o.inner[0] = as_type<int>(1.0); o.inner[1] = int(as_type<float>(1073741824)); o.inner[2] = as_type<metal::int2>(metal::float2(2.0, -0.0)).y; o.inner[3] = int(as_type<uint>(metal::half2(1.0h, -2.0h)) >> 16);`, []int32{0x3F800000, 2, intMin, 0xC000}, ""},
		{"overloads", `o.inner[0] = pick(1); o.inner[1] = pick(1u); o.inner[2] = pick(1.5); o.inner[3] = pick(metal::int2(1, 2));`, []int32{10, 20, 30, 40}, `int pick(int a) { return 10; } int pick(uint a) { return 20; } int pick(float a) { return 30; } int pick(metal::int2 a) { return 40; }`},
		{"weak CAS does not fail spuriously", `threadgroup metal::atomic_uint a; metal::atomic_store_explicit(&a, 3u, metal::memory_order_relaxed); uint e = 3u; bool ok = metal::atomic_compare_exchange_weak_explicit(&a, &e, 9u, metal::memory_order_relaxed, metal::memory_order_relaxed); uint e2 = 1u; bool ok2 = metal::atomic_compare_exchange_weak_explicit(&a, &e2, 5u, metal::memory_order_relaxed, metal::memory_order_relaxed); o.inner[0] = int(ok); o.inner[1] = int(ok2); o.inner[2] = int(e2); o.inner[3] = int(metal::atomic_load_explicit(&a, metal::memory_order_relaxed));`, []int32{1, 0, 9, 9}, ""},
	}
	for _, c := range cases {
		t.Run(c.name, func(t *testing.T) {
			out, bufs := runBody(c.body, in, c.extra)
			if !out.OK() {
				t.Fatalf("trap=%q skip=%q", out.Trap, out.Skip)
			}
			got := bufs["buffer(0)"]
			for i, w := range c.want {
				if getI32(got, 4*i) != w {
					t.Errorf("o.inner[%d] = %d, want %d", i, getI32(got, 4*i), w)
				}
			}
		})
	}
}

// Constructs outside the subset are skipped with a reason, never guessed.
func TestSkips(t *testing.T) {
	cases := []struct{ name, body, skip, extra string }{
		{"texture method", `o.inner[0] = int(tex.get_width());`, "member function call .get_width() is not supported", ""},
		{"brace elision into a vector", `Two t = {1, 2, 3, 4, 5}; o.inner[0] = t.c;`, "brace elision into a vector", `struct Pair { int inner[2]; }; struct VV { metal::int2 v; }; struct Two { Pair a; VV b; int c; };`},
		{"unknown intrinsic", `o.inner[0] = int(metal::simd_sum(1u));`, "unsupported library function metal::simd_sum", ""},
		{"vector type mismatch", `metal::int2 a = metal::int2(1); metal::uint2 b = metal::uint2(1u); o.inner[0] = (a + b).x;`, "vectors of different element types", ""},
		{"implicit vector conversion", `metal::int2 a = metal::int2(1); metal::uint2 b = a; o.inner[0] = int(b.x);`, "no implicit conversion from int2 to uint2", ""},
		{"store through const", `in.inner[0] = 1;`, "store through a const access path", ""},
		{"double", `double d = 1.0; o.inner[0] = int(d);`, "double", ""},
		{"recursion", `o.inner[0] = rec(3);`, "call depth", `int rec(int a); int rec(int a) { return rec(a + 1); }`},
		{"lambda", `auto l = [&]() { return 1; }; o.inner[0] = l();`, "parse:", ""},
		{"goto", `goto x; x: o.inner[0] = 1;`, "parse:", ""},
		{"recursive struct", `o.inner[0] = 1;`, "incomplete type", `struct Rec { int a; Rec next[2]; };`},
		{"huge local", `Huge h = {}; o.inner[0] = h.inner[5];`, "larger than the supported", `struct Huge { int inner[100000000]; };`},
		{"absurd array", `o.inner[0] = 1;`, "too large", `struct Absurd { int inner[200000000][200000000]; };`},
		{"designated initialiser", `Arr a = { .inner = {1, 2, 3, 4} }; o.inner[0] = a.inner[0];`, "designated initialisers", ""},
	}
	for _, c := range cases {
		t.Run(c.name, func(t *testing.T) {
			out, _ := runBody(c.body, i32s(1, 2, 3, 4), c.extra)
			if out.Trap != "" || !strings.Contains(out.Skip, c.skip) {
				t.Fatalf("trap=%q skip=%q, want skip containing %q", out.Trap, out.Skip, c.skip)
			}
		})
	}
	// missing entry, non-kernel entry, missing buffer
	src := mslPrelude + `
struct VOut { metal::float4 p [[position]]; };
vertex VOut vmain(uint vi [[vertex_id]]) { return VOut { metal::float4(0.0) }; }
kernel void k(device Arr& o [[buffer(4)]]) { o.inner[0] = 1; }
`
	if out := Run(src, xrt.Input{Entry: "nope"}); !strings.Contains(out.Skip, "entry point nope not found") {
		t.Errorf("%+v", out)
	}
	if out := Run(src, xrt.Input{Entry: "vmain"}); !strings.Contains(out.Skip, "is a vertex function") {
		t.Errorf("%+v", out)
	}
	if out := Run(src, xrt.Input{Entry: "k"}); !strings.Contains(out.Skip, "no buffer bound to buffer(4)") {
		t.Errorf("%+v", out)
	}
	if out := Run("kernel void k( {", xrt.Input{Entry: "k"}); !strings.HasPrefix(out.Skip, "parse:") {
		t.Errorf("%+v", out)
	}
}

func TestAccessTrace(t *testing.T) {
	out, _ := runBody(`o.inner[1] = in.inner[2]; f.yz = f.xx; rt.tail[2] = rt.head; metal::float4 c = f;`, i32s(1, 2, 3, 4))
	if !out.OK() {
		t.Fatalf("%+v", out)
	}
	want := []xrt.Access{
		{Slot: "buffer(1)", Offset: 8, Size: 4, Write: false},
		{Slot: "buffer(0)", Offset: 4, Size: 4, Write: true},
		{Slot: "buffer(3)", Offset: 0, Size: 16, Write: false},
		{Slot: "buffer(3)", Offset: 4, Size: 4, Write: true},
		{Slot: "buffer(3)", Offset: 8, Size: 4, Write: true},
		{Slot: "buffer(2)", Offset: 0, Size: 4, Write: false},
		{Slot: "buffer(2)", Offset: 12, Size: 4, Write: true},
		{Slot: "buffer(3)", Offset: 0, Size: 16, Write: false},
	}
	if len(out.Accesses) != len(want) {
		t.Fatalf("accesses %+v", out.Accesses)
	}
	for i := range want {
		if out.Accesses[i] != want[i] {
			t.Errorf("access %d = %+v, want %+v", i, out.Accesses[i], want[i])
		}
	}
}
