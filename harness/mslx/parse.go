package mslx

import (
	"fmt"
	"math"
	"strconv"
	"strings"
)

type parser struct {
	toks []token
	i    int
	tt   *typeTable
	// typeNames holds user-declared type names (structs, typedefs, aliases,
	// template parameters currently in scope).
	typeNames map[string]bool
	// usingNames holds names made visible by `using metal::x;`.
	usingNames map[string]bool
	depth      int
}

const maxNesting = 400

var addrSpaces = map[string]bool{
	"device": true, "constant": true, "threadgroup": true, "thread": true,
	"threadgroup_imageblock": true, "ray_data": true, "object_data": true,
}

var declSpecifiers = map[string]bool{
	"const": true, "constexpr": true, "static": true, "volatile": true, "inline": true, "typename": true, "struct": true,
}

func (p *parser) cur() token { return p.toks[p.i] }
func (p *parser) peek(k int) token {
	if p.i+k < len(p.toks) {
		return p.toks[p.i+k]
	}
	return p.toks[len(p.toks)-1]
}

func (p *parser) errf(pos Pos, format string, args ...interface{}) error {
	return &parseError{pos, fmt.Sprintf(format, args...)}
}

func (p *parser) isP(s string) bool {
	t := p.cur()
	return t.kind == tPunct && t.text == s
}

func (p *parser) isPAt(k int, s string) bool {
	t := p.peek(k)
	return t.kind == tPunct && t.text == s
}

func (p *parser) isKw(s string) bool {
	t := p.cur()
	return t.kind == tIdent && t.text == s
}

func (p *parser) accept(s string) bool {
	if p.isP(s) {
		p.i++
		return true
	}
	return false
}

func (p *parser) acceptKw(s string) bool {
	if p.isKw(s) {
		p.i++
		return true
	}
	return false
}

func (p *parser) expect(s string) error {
	if p.isP(s) {
		p.i++
		return nil
	}
	t := p.cur()
	what := t.text
	if t.kind == tEOF {
		what = "end of file"
	}
	return p.errf(t.pos, "expected %q, found %q", s, what)
}

// expectCloseAngle consumes a '>' closing a template argument list, splitting
// a '>>' / '>=' / '>>=' token if necessary.
func (p *parser) expectCloseAngle() error {
	t := p.cur()
	if t.kind == tPunct && len(t.text) > 1 && t.text[0] == '>' {
		p.toks[p.i].text = t.text[1:]
		p.toks[p.i].pos.Col++
		return nil
	}
	return p.expect(">")
}

func (p *parser) ident() (string, Pos, error) {
	t := p.cur()
	if t.kind != tIdent {
		what := t.text
		if t.kind == tEOF {
			what = "end of file"
		}
		return "", t.pos, p.errf(t.pos, "expected identifier, found %q", what)
	}
	p.i++
	return t.text, t.pos, nil
}

// isAttrStart reports whether the current position starts `[[`.
func (p *parser) isAttrStart() bool {
	return p.isP("[") && p.isPAt(1, "[") && p.peek(1).adj
}

// parseAttrs parses zero or more [[...]] attribute specifiers.
func (p *parser) parseAttrs() ([]Attr, error) {
	var out []Attr
	for p.isAttrStart() {
		p.i += 2
		for {
			if p.isP("]") {
				break
			}
			name, _, err := p.qualifiedName()
			if err != nil {
				return nil, err
			}
			a := Attr{Name: name}
			if p.accept("(") {
				var sb strings.Builder
				depth := 1
				for depth > 0 {
					t := p.cur()
					if t.kind == tEOF {
						return nil, p.errf(t.pos, "unterminated attribute")
					}
					if t.kind == tPunct && t.text == "(" {
						depth++
					} else if t.kind == tPunct && t.text == ")" {
						depth--
						if depth == 0 {
							p.i++
							break
						}
					}
					sb.WriteString(t.text)
					if t.kind == tPunct && t.text == "," {
						sb.WriteByte(' ')
					}
					p.i++
				}
				a.Args = sb.String()
			}
			out = append(out, a)
			if !p.accept(",") && p.cur().kind != tIdent {
				break
			}
		}
		if err := p.expect("]"); err != nil {
			return nil, err
		}
		if err := p.expect("]"); err != nil {
			return nil, err
		}
	}
	return out, nil
}

// qualifiedName parses a::b::c (optionally with a leading ::).
func (p *parser) qualifiedName() (string, Pos, error) {
	pos := p.cur().pos
	var sb strings.Builder
	if p.isP("::") {
		p.i++
	}
	for {
		name, _, err := p.ident()
		if err != nil {
			return "", pos, err
		}
		sb.WriteString(name)
		if p.isP("::") && p.peek(1).kind == tIdent {
			p.i++
			sb.WriteString("::")
			continue
		}
		break
	}
	return sb.String(), pos, nil
}

// peekQualifiedName returns the qualified name starting at the current
// token without consuming it, and the number of tokens it spans.
func (p *parser) peekQualifiedName() (string, int) {
	k := 0
	if p.isPAt(k, "::") {
		k++
	}
	var sb strings.Builder
	for {
		t := p.peek(k)
		if t.kind != tIdent {
			return "", 0
		}
		sb.WriteString(t.text)
		k++
		if p.isPAt(k, "::") && p.peek(k+1).kind == tIdent {
			sb.WriteString("::")
			k++
			continue
		}
		break
	}
	return sb.String(), k
}

func stripMetal(name string) string {
	return strings.TrimPrefix(name, "metal::")
}

// isTypeName reports whether a qualified name denotes a type.
func (p *parser) isTypeName(name string) bool {
	if p.typeNames[name] {
		return true
	}
	base := stripMetal(name)
	if base == "void" || base == "auto" {
		return true
	}
	if p.tt.builtinType(base) != nil {
		return true
	}
	// opaque types (textures, samplers, ...) are recognised only when
	// qualified, so that user identifiers such as `texture_coords` stay names.
	return base != name && isOpaqueTypeName(base)
}

// atTypeStart reports whether a type (declaration specifier sequence) begins
// at the current token.
func (p *parser) atTypeStart() bool {
	t := p.cur()
	if t.kind != tIdent {
		return false
	}
	if declSpecifiers[t.text] || addrSpaces[t.text] || t.text == "auto" || t.text == "signed" {
		return true
	}
	name, _ := p.peekQualifiedName()
	return name != "" && p.isTypeName(name)
}

// parseType parses decl-specifiers, the type name with template arguments and
// pointer/reference declarator operators.
func (p *parser) parseType() (*TypeExpr, error) {
	te := &TypeExpr{Pos: p.cur().pos}
	for {
		t := p.cur()
		if t.kind != tIdent {
			break
		}
		switch {
		case t.text == "const":
			te.Const = true
		case t.text == "constexpr":
			te.Constexpr = true
		case t.text == "static":
			te.Static = true
		case t.text == "volatile" || t.text == "inline" || t.text == "typename" || t.text == "struct":
		case addrSpaces[t.text]:
			if te.Space != "" {
				return nil, p.errf(t.pos, "two address spaces in one type")
			}
			te.Space = t.text
		default:
			goto name
		}
		p.i++
	}
name:
	if p.isKw("unsigned") || p.isKw("signed") {
		// unsigned [int|char|short|long]
		sign := p.cur().text
		te.NamePos = p.cur().pos
		p.i++
		base := "int"
		if p.isKw("int") || p.isKw("char") || p.isKw("short") || p.isKw("long") {
			base = p.cur().text
			p.i++
		}
		if sign == "unsigned" {
			base = "u" + base
		}
		te.Name = base
	} else {
		name, pos, err := p.qualifiedName()
		if err != nil {
			return nil, err
		}
		te.Name = name
		te.NamePos = pos
		if name == "auto" {
			te.Auto = true
		} else if !p.isTypeName(name) {
			return nil, p.errf(pos, "unknown type name %q", name)
		}
		if p.isP("<") {
			targs, err := p.parseTemplateArgs()
			if err != nil {
				return nil, err
			}
			te.TArgs = targs
			// nested type of a class template: intersector<...>::result_type
			for p.isP("::") && p.peek(1).kind == tIdent {
				te.Nested += "::" + p.peek(1).text
				p.i += 2
			}
		}
	}
	for {
		switch {
		case p.isKw("const"):
			te.Const = true
			p.i++
		case p.isKw("volatile"):
			p.i++
		case p.isKw("device") || p.isKw("constant") || p.isKw("threadgroup") || p.isKw("thread"):
			// address space after the type name: `T device&`
			if te.Space != "" {
				return te, nil
			}
			te.Space = p.cur().text
			p.i++
		case p.isP("*"):
			te.Ptr++
			p.i++
		case p.isP("&"):
			te.Ref = true
			p.i++
		case p.isP("&&"):
			te.RRef = true
			p.i++
		default:
			return te, nil
		}
	}
}

func (p *parser) parseTemplateArgs() ([]TemplateArg, error) {
	if err := p.expect("<"); err != nil {
		return nil, err
	}
	var out []TemplateArg
	for {
		if p.isP(">") || p.isP(">>") {
			break
		}
		if p.atTypeStart() {
			te, err := p.parseType()
			if err != nil {
				return nil, err
			}
			out = append(out, TemplateArg{Type: te})
		} else {
			// constant expression; parse above the relational level so that
			// '>' terminates the list.
			e, err := p.parseBinary(9)
			if err != nil {
				return nil, err
			}
			out = append(out, TemplateArg{Expr: e})
		}
		if !p.accept(",") {
			break
		}
	}
	if err := p.expectCloseAngle(); err != nil {
		return nil, err
	}
	return out, nil
}

// ---------------------------------------------------------------------------
// Expressions

var binPrec = map[string]int{
	"*": 10, "/": 10, "%": 10,
	"+": 9, "-": 9,
	"<<": 8, ">>": 8,
	"<": 7, ">": 7, "<=": 7, ">=": 7,
	"==": 6, "!=": 6,
	"&":  5,
	"^":  4,
	"|":  3,
	"&&": 2,
	"||": 1,
}

var assignOps = map[string]bool{
	"=": true, "+=": true, "-=": true, "*=": true, "/=": true, "%=": true, "&=": true, "|=": true, "^=": true, "<<=": true, ">>=": true,
}

func (p *parser) enter() error {
	p.depth++
	if p.depth > maxNesting {
		return p.errf(p.cur().pos, "nesting too deep")
	}
	return nil
}

func (p *parser) leave() { p.depth-- }

// parseExpr parses a full expression (with comma operator).
func (p *parser) parseExpr() (Expr, error) {
	e, err := p.parseAssign()
	if err != nil {
		return nil, err
	}
	for p.isP(",") {
		pos := p.cur().pos
		p.i++
		r, err := p.parseAssign()
		if err != nil {
			return nil, err
		}
		e = &Comma{P: pos, L: e, R: r}
	}
	return e, nil
}

// parseAssign parses an assignment-expression.
func (p *parser) parseAssign() (Expr, error) {
	if err := p.enter(); err != nil {
		return nil, err
	}
	defer p.leave()
	if p.isP("{") {
		return p.parseBraceList(nil)
	}
	l, err := p.parseBinary(1)
	if err != nil {
		return nil, err
	}
	if p.isP("?") {
		pos := p.cur().pos
		p.i++
		t, err := p.parseExpr()
		if err != nil {
			return nil, err
		}
		if err := p.expect(":"); err != nil {
			return nil, err
		}
		f, err := p.parseAssign()
		if err != nil {
			return nil, err
		}
		return &Cond{P: pos, C: l, T: t, F: f}, nil
	}
	t := p.cur()
	if t.kind == tPunct && assignOps[t.text] {
		p.i++
		r, err := p.parseAssign()
		if err != nil {
			return nil, err
		}
		return &Assign{P: t.pos, Op: t.text, L: l, R: r}, nil
	}
	return l, nil
}

func (p *parser) parseBinary(minPrec int) (Expr, error) {
	l, err := p.parseUnary()
	if err != nil {
		return nil, err
	}
	for {
		t := p.cur()
		if t.kind != tPunct {
			return l, nil
		}
		prec, ok := binPrec[t.text]
		if !ok || prec < minPrec {
			return l, nil
		}
		p.i++
		r, err := p.parseBinary(prec + 1)
		if err != nil {
			return nil, err
		}
		l = &Binary{P: t.pos, Op: t.text, L: l, R: r}
	}
}

func (p *parser) parseUnary() (Expr, error) {
	if err := p.enter(); err != nil {
		return nil, err
	}
	defer p.leave()
	t := p.cur()
	if t.kind == tPunct {
		switch t.text {
		case "-", "+", "!", "~", "*", "&", "++", "--":
			p.i++
			x, err := p.parseUnary()
			if err != nil {
				return nil, err
			}
			return &Unary{P: t.pos, Op: t.text, X: x}, nil
		case "(":
			// C-style cast?
			save := p.i
			p.i++
			if p.atTypeStart() {
				te, err := p.parseType()
				if err == nil && p.isP(")") {
					p.i++
					nt := p.cur()
					if nt.kind == tIdent || nt.kind == tInt || nt.kind == tFloat || (nt.kind == tPunct && (nt.text == "(" || nt.text == "-" || nt.text == "!" || nt.text == "~" || nt.text == "+")) {
						x, err := p.parseUnary()
						if err != nil {
							return nil, err
						}
						return &Cast{P: t.pos, Kind: "c", T: te, X: x}, nil
					}
				}
			}
			p.i = save
		}
	}
	if t.kind == tIdent && t.text == "sizeof" {
		return nil, p.errf(t.pos, "sizeof is not supported")
	}
	return p.parsePostfix()
}

func (p *parser) parseArgs() ([]Expr, error) {
	if err := p.expect("("); err != nil {
		return nil, err
	}
	var args []Expr
	if p.accept(")") {
		return args, nil
	}
	for {
		a, err := p.parseAssign()
		if err != nil {
			return nil, err
		}
		args = append(args, a)
		if p.accept(",") {
			continue
		}
		break
	}
	if err := p.expect(")"); err != nil {
		return nil, err
	}
	return args, nil
}

func (p *parser) parseBraceList(te *TypeExpr) (Expr, error) {
	pos := p.cur().pos
	if te != nil {
		pos = te.Pos
	}
	if err := p.expect("{"); err != nil {
		return nil, err
	}
	il := &InitList{P: pos, T: te}
	for !p.isP("}") {
		desig := ""
		if p.isP(".") && p.peek(1).kind == tIdent && p.isPAt(2, "=") {
			desig = p.peek(1).text
			p.i += 3
		}
		e, err := p.parseAssign()
		if err != nil {
			return nil, err
		}
		il.Elems = append(il.Elems, e)
		if desig != "" || il.Names != nil {
			for len(il.Names) < len(il.Elems)-1 {
				il.Names = append(il.Names, "")
			}
			il.Names = append(il.Names, desig)
		}
		if !p.accept(",") {
			break
		}
	}
	if err := p.expect("}"); err != nil {
		return nil, err
	}
	return il, nil
}

func (p *parser) parsePostfix() (Expr, error) {
	e, err := p.parsePrimary()
	if err != nil {
		return nil, err
	}
	for {
		t := p.cur()
		if t.kind != tPunct {
			return e, nil
		}
		switch t.text {
		case "(":
			id, ok := e.(*Ident)
			if !ok {
				return nil, p.errf(t.pos, "call of a non-name expression is not supported")
			}
			args, err := p.parseArgs()
			if err != nil {
				return nil, err
			}
			e = &Call{P: id.P, Fun: id, Args: args}
		case "[":
			if p.isAttrStart() {
				return e, nil
			}
			p.i++
			idx, err := p.parseExpr()
			if err != nil {
				return nil, err
			}
			if err := p.expect("]"); err != nil {
				return nil, err
			}
			e = &Index{P: t.pos, X: e, I: idx}
		case ".", "->":
			p.i++
			p.acceptKw("template")
			name, npos, err := p.ident()
			if err != nil {
				return nil, err
			}
			if p.isP("(") {
				args, err := p.parseArgs()
				if err != nil {
					return nil, err
				}
				e = &MethodCall{P: t.pos, Recv: e, Name: name, Args: args}
			} else {
				e = &Member{P: t.pos, X: e, Name: name, Arrow: t.text == "->", NameP: npos}
			}
		case "++", "--":
			p.i++
			e = &Postfix{P: t.pos, Op: t.text, X: e}
		default:
			return e, nil
		}
	}
}

func parseIntLit(text string, pos Pos) (*IntLit, error) {
	s := text
	lit := &IntLit{P: pos, Text: text}
	for len(s) > 0 {
		c := s[len(s)-1]
		if c == 'u' || c == 'U' {
			lit.Unsigned = true
		} else if c == 'l' || c == 'L' {
			lit.Long = true
		} else {
			break
		}
		s = s[:len(s)-1]
	}
	s = strings.ReplaceAll(s, "'", "")
	var v uint64
	var err error
	hexOrOct := false
	switch {
	case strings.HasPrefix(s, "0x") || strings.HasPrefix(s, "0X"):
		v, err = strconv.ParseUint(s[2:], 16, 64)
		hexOrOct = true
	case len(s) > 1 && s[0] == '0':
		v, err = strconv.ParseUint(s[1:], 8, 64)
		hexOrOct = true
	default:
		v, err = strconv.ParseUint(s, 10, 64)
	}
	if err != nil {
		return nil, &parseError{pos, fmt.Sprintf("bad integer literal %q", text)}
	}
	lit.Val = v
	// C++ literal typing: decimal without suffix: int, long; hex/octal: int,
	// uint, long, ulong; with u: uint, ulong.
	if !lit.Long {
		if lit.Unsigned {
			if v > math.MaxUint32 {
				lit.Long = true
			}
		} else if hexOrOct {
			switch {
			case v <= math.MaxInt32:
			case v <= math.MaxUint32:
				lit.Unsigned = true
			case v <= math.MaxInt64:
				lit.Long = true
			default:
				lit.Long, lit.Unsigned = true, true
			}
		} else if v > math.MaxInt32 {
			lit.Long = true
			if v > math.MaxInt64 {
				lit.Unsigned = true
			}
		}
	} else if !lit.Unsigned && v > math.MaxInt64 {
		lit.Unsigned = true
	}
	return lit, nil
}

func parseFloatLit(text string, pos Pos) (*FloatLit, error) {
	s := text
	lit := &FloatLit{P: pos, Text: text}
	if n := len(s); n > 0 {
		switch s[n-1] {
		case 'f', 'F':
			s = s[:n-1]
		case 'h', 'H':
			s = s[:n-1]
			lit.Half = true
		}
	}
	if lit.Half {
		f, err := strconv.ParseFloat(s, 64)
		if err != nil && !isRangeErr(err) {
			return nil, &parseError{pos, fmt.Sprintf("bad float literal %q", text)}
		}
		lit.Bits = math.Float32bits(halfToFloat(f64ToHalf(f)))
		return lit, nil
	}
	// Metal has no double: an unsuffixed floating literal is single precision.
	f, err := strconv.ParseFloat(s, 32)
	if err != nil && !isRangeErr(err) {
		return nil, &parseError{pos, fmt.Sprintf("bad float literal %q", text)}
	}
	lit.Bits = math.Float32bits(float32(f))
	return lit, nil
}

func isRangeErr(err error) bool {
	ne, ok := err.(*strconv.NumError)
	return ok && ne.Err == strconv.ErrRange
}

func (p *parser) parsePrimary() (Expr, error) {
	t := p.cur()
	switch t.kind {
	case tInt:
		p.i++
		return parseIntLit(t.text, t.pos)
	case tFloat:
		p.i++
		return parseFloatLit(t.text, t.pos)
	case tString:
		p.i++
		return &StringLit{P: t.pos, Text: t.text}, nil
	case tPunct:
		switch t.text {
		case "(":
			p.i++
			x, err := p.parseExpr()
			if err != nil {
				return nil, err
			}
			if err := p.expect(")"); err != nil {
				return nil, err
			}
			return &Paren{P: t.pos, X: x}, nil
		case "{":
			return p.parseBraceList(nil)
		case "[":
			return nil, p.errf(t.pos, "lambda expressions are not supported")
		}
		return nil, p.errf(t.pos, "unexpected %q in expression", t.text)
	case tEOF:
		return nil, p.errf(t.pos, "unexpected end of file in expression")
	}
	// identifier
	switch t.text {
	case "true", "false":
		p.i++
		return &BoolLit{P: t.pos, Val: t.text == "true"}, nil
	case "static_cast", "as_type", "reinterpret_cast", "const_cast":
		if p.isPAt(1, "<") {
			p.i += 2
			te, err := p.parseType()
			if err != nil {
				return nil, err
			}
			if err := p.expectCloseAngle(); err != nil {
				return nil, err
			}
			if err := p.expect("("); err != nil {
				return nil, err
			}
			x, err := p.parseExpr()
			if err != nil {
				return nil, err
			}
			if err := p.expect(")"); err != nil {
				return nil, err
			}
			return &Cast{P: t.pos, Kind: t.text, T: te, X: x}, nil
		}
	case "nullptr":
		return nil, p.errf(t.pos, "nullptr is not supported")
	case "this":
		return nil, p.errf(t.pos, "'this' is not supported")
	}
	if p.atTypeStart() && !addrSpaces[t.text] {
		save := p.i
		te, err := p.parseType()
		if err != nil {
			return nil, err
		}
		switch {
		case p.isP("("):
			args, err := p.parseArgs()
			if err != nil {
				return nil, err
			}
			return &Construct{P: t.pos, T: te, Args: args}, nil
		case p.isP("{"):
			return p.parseBraceList(te)
		}
		// A type name used as a value (e.g. enum scope); fall back to a name.
		p.i = save
	}
	name, pos, err := p.qualifiedName()
	if err != nil {
		return nil, err
	}
	return &Ident{P: pos, Name: name}, nil
}

// ---------------------------------------------------------------------------
// Statements

func (p *parser) parseBlock() (*Block, error) {
	pos := p.cur().pos
	if err := p.expect("{"); err != nil {
		return nil, err
	}
	if err := p.enter(); err != nil {
		return nil, err
	}
	defer p.leave()
	b := &Block{P: pos}
	for !p.isP("}") {
		if p.cur().kind == tEOF {
			return nil, p.errf(p.cur().pos, "unexpected end of file in block (opened at %s)", pos)
		}
		s, err := p.parseStmt()
		if err != nil {
			return nil, err
		}
		b.Stmts = append(b.Stmts, s)
	}
	p.i++
	return b, nil
}

// looksLikeDecl decides, at a statement start where a type begins, whether
// the statement is a declaration (type followed by a declarator name).
func (p *parser) looksLikeDecl() bool {
	save := p.i
	defer func() { p.i = save }()
	_, err := p.parseType()
	if err != nil {
		return false
	}
	if p.cur().kind != tIdent {
		return false
	}
	// `T name` followed by = ; , ( { [ or attribute
	n := p.peek(1)
	if n.kind == tPunct {
		switch n.text {
		case "=", ";", ",", "(", "{", "[":
			return true
		}
	}
	return false
}

func (p *parser) parseDeclStmt() (*DeclStmt, error) {
	pos := p.cur().pos
	te, err := p.parseType()
	if err != nil {
		return nil, err
	}
	ds := &DeclStmt{P: pos}
	for {
		vd, err := p.parseDeclarator(te, true)
		if err != nil {
			return nil, err
		}
		ds.Vars = append(ds.Vars, vd)
		if p.accept(",") {
			// further declarators share the base type but not * / &
			base := *te
			base.Ptr, base.Ref, base.RRef = 0, false, false
			for p.isP("*") || p.isP("&") {
				if p.isP("*") {
					base.Ptr++
				} else {
					base.Ref = true
				}
				p.i++
			}
			te = &base
			continue
		}
		break
	}
	if err := p.expect(";"); err != nil {
		return nil, err
	}
	return ds, nil
}

// parseDeclarator parses `name [dims] [[attrs]] [= init | {init} | (args)]`.
func (p *parser) parseDeclarator(te *TypeExpr, allowInit bool) (*VarDecl, error) {
	name, pos, err := p.ident()
	if err != nil {
		return nil, err
	}
	vd := &VarDecl{P: pos, Type: te, Name: name}
	for p.isP("[") && !p.isAttrStart() {
		p.i++
		if p.isP("]") {
			return nil, p.errf(p.cur().pos, "unsized array declarator is not supported")
		}
		d, err := p.parseExpr()
		if err != nil {
			return nil, err
		}
		if err := p.expect("]"); err != nil {
			return nil, err
		}
		vd.Dims = append(vd.Dims, d)
	}
	attrs, err := p.parseAttrs()
	if err != nil {
		return nil, err
	}
	vd.Attrs = attrs
	if !allowInit {
		return vd, nil
	}
	switch {
	case p.isP("="):
		p.i++
		e, err := p.parseAssign()
		if err != nil {
			return nil, err
		}
		vd.Init = e
	case p.isP("{"):
		e, err := p.parseBraceList(nil)
		if err != nil {
			return nil, err
		}
		vd.Init = e
	case p.isP("("):
		args, err := p.parseArgs()
		if err != nil {
			return nil, err
		}
		vd.Ctor = args
		vd.HasCt = true
	}
	return vd, nil
}

func (p *parser) parseStmt() (Stmt, error) {
	if err := p.enter(); err != nil {
		return nil, err
	}
	defer p.leave()
	t := p.cur()
	if t.kind == tPunct {
		switch t.text {
		case "{":
			return p.parseBlock()
		case ";":
			p.i++
			return &Empty{P: t.pos}, nil
		}
	}
	if t.kind == tIdent {
		switch t.text {
		case "if":
			p.i++
			if err := p.expect("("); err != nil {
				return nil, err
			}
			c, err := p.parseExpr()
			if err != nil {
				return nil, err
			}
			if err := p.expect(")"); err != nil {
				return nil, err
			}
			th, err := p.parseStmt()
			if err != nil {
				return nil, err
			}
			s := &If{P: t.pos, Cond: c, Then: th}
			if p.acceptKw("else") {
				el, err := p.parseStmt()
				if err != nil {
					return nil, err
				}
				s.Else = el
			}
			return s, nil
		case "switch":
			return p.parseSwitch()
		case "for":
			p.i++
			if err := p.expect("("); err != nil {
				return nil, err
			}
			s := &For{P: t.pos}
			if p.isP(";") {
				p.i++
			} else if p.atTypeStart() && p.looksLikeDecl() {
				d, err := p.parseDeclStmt()
				if err != nil {
					return nil, err
				}
				s.Init = d
			} else {
				e, err := p.parseExpr()
				if err != nil {
					return nil, err
				}
				if err := p.expect(";"); err != nil {
					return nil, err
				}
				s.Init = &ExprStmt{P: e.pos(), X: e}
			}
			if !p.isP(";") {
				c, err := p.parseExpr()
				if err != nil {
					return nil, err
				}
				s.Cond = c
			}
			if err := p.expect(";"); err != nil {
				return nil, err
			}
			if !p.isP(")") {
				e, err := p.parseExpr()
				if err != nil {
					return nil, err
				}
				s.Post = e
			}
			if err := p.expect(")"); err != nil {
				return nil, err
			}
			body, err := p.parseStmt()
			if err != nil {
				return nil, err
			}
			s.Body = body
			return s, nil
		case "while":
			p.i++
			if err := p.expect("("); err != nil {
				return nil, err
			}
			c, err := p.parseExpr()
			if err != nil {
				return nil, err
			}
			if err := p.expect(")"); err != nil {
				return nil, err
			}
			body, err := p.parseStmt()
			if err != nil {
				return nil, err
			}
			return &While{P: t.pos, Cond: c, Body: body}, nil
		case "do":
			p.i++
			body, err := p.parseStmt()
			if err != nil {
				return nil, err
			}
			if !p.acceptKw("while") {
				return nil, p.errf(p.cur().pos, "expected 'while' after do body")
			}
			if err := p.expect("("); err != nil {
				return nil, err
			}
			c, err := p.parseExpr()
			if err != nil {
				return nil, err
			}
			if err := p.expect(")"); err != nil {
				return nil, err
			}
			if err := p.expect(";"); err != nil {
				return nil, err
			}
			return &DoWhile{P: t.pos, Body: body, Cond: c}, nil
		case "break":
			p.i++
			if err := p.expect(";"); err != nil {
				return nil, err
			}
			return &Break{P: t.pos}, nil
		case "continue":
			p.i++
			if err := p.expect(";"); err != nil {
				return nil, err
			}
			return &Continue{P: t.pos}, nil
		case "return":
			p.i++
			s := &Return{P: t.pos}
			if !p.isP(";") {
				e, err := p.parseExpr()
				if err != nil {
					return nil, err
				}
				s.X = e
			}
			if err := p.expect(";"); err != nil {
				return nil, err
			}
			return s, nil
		case "case", "default":
			return nil, p.errf(t.pos, "%s label outside the top level of a switch body is not supported", t.text)
		case "goto", "try", "throw", "asm":
			return nil, p.errf(t.pos, "%s statements are not supported", t.text)
		case "typedef", "using", "struct", "template", "namespace", "enum", "class":
			if !(t.text == "struct" && p.peek(2).kind == tIdent) {
				return nil, p.errf(t.pos, "local %s declarations are not supported", t.text)
			}
		}
		if p.atTypeStart() && p.looksLikeDecl() {
			return p.parseDeclStmt()
		}
	}
	e, err := p.parseExpr()
	if err != nil {
		return nil, err
	}
	if err := p.expect(";"); err != nil {
		return nil, err
	}
	return &ExprStmt{P: t.pos, X: e}, nil
}

func (p *parser) parseSwitch() (Stmt, error) {
	pos := p.cur().pos
	p.i++
	if err := p.expect("("); err != nil {
		return nil, err
	}
	tag, err := p.parseExpr()
	if err != nil {
		return nil, err
	}
	if err := p.expect(")"); err != nil {
		return nil, err
	}
	if err := p.expect("{"); err != nil {
		return nil, err
	}
	sw := &Switch{P: pos, Tag: tag}
	var sec *SwitchSection
	for !p.isP("}") {
		t := p.cur()
		if t.kind == tEOF {
			return nil, p.errf(t.pos, "unexpected end of file in switch")
		}
		if t.kind == tIdent && (t.text == "case" || t.text == "default") {
			if sec == nil || len(sec.Body) > 0 {
				sec = &SwitchSection{P: t.pos}
				sw.Sections = append(sw.Sections, sec)
			}
			p.i++
			if t.text == "case" {
				// a constant-expression; parse below the conditional level
				v, err := p.parseBinary(1)
				if err != nil {
					return nil, err
				}
				sec.Labels = append(sec.Labels, v)
			} else {
				sec.Default = true
			}
			if err := p.expect(":"); err != nil {
				return nil, err
			}
			continue
		}
		if sec == nil {
			return nil, p.errf(t.pos, "statement before the first case label in a switch")
		}
		s, err := p.parseStmt()
		if err != nil {
			return nil, err
		}
		sec.Body = append(sec.Body, s)
	}
	p.i++
	return sw, nil
}

// ---------------------------------------------------------------------------
// Top level

func (p *parser) parseUnit() ([]topDecl, error) {
	var out []topDecl
	for p.cur().kind != tEOF {
		if p.accept(";") {
			continue
		}
		d, err := p.parseTop()
		if err != nil {
			return nil, err
		}
		out = append(out, d...)
	}
	return out, nil
}

func (p *parser) parseTop() ([]topDecl, error) {
	t := p.cur()
	if t.kind != tIdent && !p.isAttrStart() {
		return nil, p.errf(t.pos, "unexpected %q at file scope", t.text)
	}
	switch t.text {
	case "using":
		p.i++
		if p.acceptKw("namespace") {
			name, _, err := p.qualifiedName()
			if err != nil {
				return nil, err
			}
			if err := p.expect(";"); err != nil {
				return nil, err
			}
			return []topDecl{{Using: &UsingDecl{P: t.pos, Name: "namespace " + name}}}, nil
		}
		name, npos, err := p.qualifiedName()
		if err != nil {
			return nil, err
		}
		if p.accept("=") {
			te, err := p.parseType()
			if err != nil {
				return nil, err
			}
			if err := p.expect(";"); err != nil {
				return nil, err
			}
			p.typeNames[name] = true
			return []topDecl{{Using: &UsingDecl{P: npos, Name: name, Alias: te}}}, nil
		}
		if err := p.expect(";"); err != nil {
			return nil, err
		}
		p.usingNames[name] = true
		return []topDecl{{Using: &UsingDecl{P: npos, Name: name}}}, nil
	case "typedef":
		p.i++
		te, err := p.parseType()
		if err != nil {
			return nil, err
		}
		vd, err := p.parseDeclarator(te, false)
		if err != nil {
			return nil, err
		}
		if err := p.expect(";"); err != nil {
			return nil, err
		}
		p.typeNames[vd.Name] = true
		return []topDecl{{Typedef: &TypedefDecl{P: vd.P, Name: vd.Name, Type: te, Dims: vd.Dims}}}, nil
	case "struct", "class":
		if p.peek(1).kind == tIdent && (p.isPAt(2, "{") || p.isPAt(2, ";")) {
			sd, err := p.parseStruct()
			if err != nil {
				return nil, err
			}
			return []topDecl{{Struct: sd}}, nil
		}
	case "namespace", "enum", "extern", "union":
		return nil, p.errf(t.pos, "%s declarations are not supported", t.text)
	}
	// function or variable, optionally preceded by template<...>, attributes
	// and a stage keyword.
	var tparams []string
	var tparamPos []Pos
	if p.isKw("template") {
		p.i++
		if err := p.expect("<"); err != nil {
			return nil, err
		}
		for !p.isP(">") {
			if !(p.acceptKw("typename") || p.acceptKw("class")) {
				return nil, p.errf(p.cur().pos, "only type template parameters are supported")
			}
			name, npos, err := p.ident()
			if err != nil {
				return nil, err
			}
			tparams = append(tparams, name)
			tparamPos = append(tparamPos, npos)
			if !p.accept(",") {
				break
			}
		}
		if err := p.expectCloseAngle(); err != nil {
			return nil, err
		}
		for _, n := range tparams {
			if !p.typeNames[n] {
				p.typeNames[n] = true
				defer delete(p.typeNames, n)
			}
		}
		if p.isKw("struct") {
			sd, err := p.parseStruct()
			if err != nil {
				return nil, err
			}
			sd.TParams = tparams
			for i := range tparams {
				sd.tpDecls = append(sd.tpDecls, &Decl{Kind: DeclTemplateParam, Name: tparams[i], Line: tparamPos[i].Line, Col: tparamPos[i].Col, Depth: 1, Owner: sd.Name})
			}
			return []topDecl{{Struct: sd}}, nil
		}
	}
	for _, n := range tparams {
		if !p.typeNames[n] {
			p.typeNames[n] = true
			defer delete(p.typeNames, n)
		}
	}
	attrs, err := p.parseAttrs()
	if err != nil {
		return nil, err
	}
	stage := ""
	switch p.cur().text {
	case "kernel", "vertex", "fragment":
		if p.cur().kind == tIdent {
			stage = p.cur().text
			p.i++
		}
	}
	for _, a := range attrs {
		switch a.Name {
		case "mesh", "object", "kernel", "vertex", "fragment", "visible", "intersection":
			if stage == "" {
				stage = a.Name
			}
		}
	}
	more, err := p.parseAttrs()
	if err != nil {
		return nil, err
	}
	attrs = append(attrs, more...)
	if !p.atTypeStart() {
		return nil, p.errf(p.cur().pos, "expected a declaration, found %q", p.cur().text)
	}
	te, err := p.parseType()
	if err != nil {
		return nil, err
	}
	if p.cur().kind == tIdent && p.isPAt(1, "(") {
		fd, err := p.parseFunction(te, stage, attrs)
		if err != nil {
			return nil, err
		}
		fd.TParams = tparams
		for i := range tparams {
			fd.tpDecls = append(fd.tpDecls, &Decl{Kind: DeclTemplateParam, Name: tparams[i], Line: tparamPos[i].Line, Col: tparamPos[i].Col, Depth: 1, Owner: fd.Name})
		}
		return []topDecl{{Func: fd}}, nil
	}
	if stage != "" || len(tparams) > 0 {
		return nil, p.errf(p.cur().pos, "expected a function declaration")
	}
	var out []topDecl
	for {
		vd, err := p.parseDeclarator(te, true)
		if err != nil {
			return nil, err
		}
		out = append(out, topDecl{Var: vd})
		if !p.accept(",") {
			break
		}
	}
	if err := p.expect(";"); err != nil {
		return nil, err
	}
	return out, nil
}

func (p *parser) parseFunction(ret *TypeExpr, stage string, attrs []Attr) (*FuncDecl, error) {
	name, pos, err := p.ident()
	if err != nil {
		return nil, err
	}
	fd := &FuncDecl{P: pos, Stage: stage, Ret: ret, Name: name, Attrs: attrs, isCtExpr: ret.Constexpr}
	if err := p.expect("("); err != nil {
		return nil, err
	}
	for !p.isP(")") {
		if p.isKw("void") && p.isPAt(1, ")") {
			p.i++
			break
		}
		pa, err := p.parseAttrs()
		if err != nil {
			return nil, err
		}
		te, err := p.parseType()
		if err != nil {
			return nil, err
		}
		var vd *VarDecl
		if p.cur().kind == tIdent {
			vd, err = p.parseDeclarator(te, false)
			if err != nil {
				return nil, err
			}
			if p.accept("=") {
				return nil, p.errf(p.cur().pos, "default arguments are not supported")
			}
		} else {
			vd = &VarDecl{P: p.cur().pos, Type: te}
			a, err := p.parseAttrs()
			if err != nil {
				return nil, err
			}
			vd.Attrs = a
		}
		vd.Attrs = append(pa, vd.Attrs...)
		fd.Params = append(fd.Params, vd)
		if !p.accept(",") {
			break
		}
	}
	if err := p.expect(")"); err != nil {
		return nil, err
	}
	if p.acceptKw("const") {
		fd.Const = true
	}
	more, err := p.parseAttrs()
	if err != nil {
		return nil, err
	}
	fd.Attrs = append(fd.Attrs, more...)
	if p.accept(";") {
		return fd, nil
	}
	body, err := p.parseBlock()
	if err != nil {
		return nil, err
	}
	fd.Body = body
	return fd, nil
}

// parseStruct parses `struct Name { members };`.  Member functions are
// skipped (their token ranges are examined only to recognise naga's
// DefaultConstructible helper).
func (p *parser) parseStruct() (*StructDecl, error) {
	p.i++ // struct
	name, pos, err := p.ident()
	if err != nil {
		return nil, err
	}
	sd := &StructDecl{P: pos, Name: name}
	p.typeNames[name] = true
	if p.accept(";") {
		return sd, nil
	}
	if err := p.expect("{"); err != nil {
		return nil, err
	}
	isDC := false
	for !p.isP("}") {
		t := p.cur()
		if t.kind == tEOF {
			return nil, p.errf(t.pos, "unexpected end of file in struct %s", name)
		}
		if p.isKw("template") || p.isKw("operator") || p.isKw("public") || p.isKw("private") {
			start := p.i
			if err := p.skipMember(); err != nil {
				return nil, err
			}
			sd.Methods++
			if isDefaultConstructibleOp(p.toks[start:p.i]) {
				isDC = true
			}
			continue
		}
		if !p.atTypeStart() {
			return nil, p.errf(t.pos, "unexpected %q in struct %s", t.text, name)
		}
		te, err := p.parseType()
		if err != nil {
			return nil, err
		}
		if p.cur().kind == tIdent && p.isPAt(1, "(") || p.isKw("operator") || p.isP("(") {
			// member function / constructor: skip
			if err := p.skipMember(); err != nil {
				return nil, err
			}
			sd.Methods++
			continue
		}
		for {
			vd, err := p.parseDeclarator(te, false)
			if err != nil {
				return nil, err
			}
			if p.accept("=") {
				e, err := p.parseAssign()
				if err != nil {
					return nil, err
				}
				vd.Init = e
			} else if p.isP("{") {
				e, err := p.parseBraceList(nil)
				if err != nil {
					return nil, err
				}
				vd.Init = e
			}
			if p.isP(":") {
				return nil, p.errf(p.cur().pos, "bit-fields are not supported")
			}
			sd.Members = append(sd.Members, vd)
			if !p.accept(",") {
				break
			}
		}
		if err := p.expect(";"); err != nil {
			return nil, err
		}
	}
	p.i++
	if err := p.expect(";"); err != nil {
		return nil, err
	}
	if isDC && len(sd.Members) == 0 {
		sd.info = &StructInfo{Name: name, defaultConstructible: true}
	}
	return sd, nil
}

// skipMember skips a member function definition or declaration: everything up
// to and including the matching top-level '}' of its body, or a ';'.
func (p *parser) skipMember() error {
	depth := 0
	for {
		t := p.cur()
		if t.kind == tEOF {
			return p.errf(t.pos, "unexpected end of file in member function")
		}
		if t.kind == tPunct {
			switch t.text {
			case "(", "[":
				depth++
			case ")", "]":
				depth--
			case ";":
				if depth == 0 {
					p.i++
					return nil
				}
			case "{":
				if depth == 0 {
					// body
					bd := 0
					for {
						t := p.cur()
						if t.kind == tEOF {
							return p.errf(t.pos, "unexpected end of file in member function body")
						}
						if t.kind == tPunct && t.text == "{" {
							bd++
						} else if t.kind == tPunct && t.text == "}" {
							bd--
							if bd == 0 {
								p.i++
								p.accept(";")
								return nil
							}
						}
						p.i++
					}
				}
			}
		}
		p.i++
	}
}

// isDefaultConstructibleOp recognises exactly
//
//	template<typename T> operator T() && { return T {}; }
func isDefaultConstructibleOp(toks []token) bool {
	want := []string{"template", "<", "typename", "T", ">", "operator", "T", "(", ")", "&&", "{", "return", "T", "{", "}", ";", "}"}
	if len(toks) != len(want) {
		return false
	}
	tp := toks[3].text
	for i, w := range want {
		if w == "T" {
			if toks[i].kind != tIdent || toks[i].text != tp {
				return false
			}
			continue
		}
		if toks[i].text != w {
			return false
		}
	}
	return true
}
