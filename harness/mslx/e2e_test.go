package mslx

import (
	"bytes"
	"fmt"
	"strings"
	"testing"

	"github.com/gogpu/naga/msl"
	"verif/harness/xrt"
)

// e2eCase is one end-to-end test: WGSL -> real naga -> MSL text -> mslx.
// Buffers are named by the WGSL variable; `want` was computed by hand from
// WGSL semantics.
type e2eCase struct {
	name  string
	wgsl  string
	entry string // WGSL entry point name (default "main")
	in    map[string][]byte
	want  map[string][]byte
	// mask, if present for a buffer, selects the bytes that are compared
	// (padding bytes are not).
	mask    map[string][]byte
	lid     [3]uint32
	wid     [3]uint32
	nwg     [3]uint32
	wgSize  [3]uint32
	variant func(o *msl.Options) // extra option tweak
	only    string               // run only with this option set
	// nagaBug marks a case where naga's translation is known to deviate from
	// WGSL; wantMSL is then what the emitted MSL text really computes.
	nagaBug  string
	wantMSL  map[string][]byte
	wantTrap string
	wantSkip string
}

type optSet struct {
	name string
	opts msl.Options
}

func allOptSets() []optSet {
	var sets []optSet
	sets = append(sets, optSet{"default", msl.DefaultOptions()})
	for _, v := range []msl.Version{msl.Version1_2, msl.Version2_4, msl.Version3_1} {
		o := msl.DefaultOptions()
		o.LangVersion = v
		sets = append(sets, optSet{"msl" + v.String(), o})
	}
	o := msl.DefaultOptions()
	o.BoundsCheckPolicies = msl.BoundsCheckPolicies{Index: msl.BoundsCheckRestrict, Buffer: msl.BoundsCheckRestrict, Image: msl.BoundsCheckRestrict, BindingArray: msl.BoundsCheckRestrict}
	sets = append(sets, optSet{"restrict", o})
	o = msl.DefaultOptions()
	o.BoundsCheckPolicies = msl.BoundsCheckPolicies{Index: msl.BoundsCheckReadZeroSkipWrite, Buffer: msl.BoundsCheckRestrict}
	sets = append(sets, optSet{"rzsw-index/restrict-buffer", o})
	o = msl.DefaultOptions()
	o.BoundsCheckPolicies = msl.BoundsCheckPolicies{}
	sets = append(sets, optSet{"unchecked", o})
	o = msl.DefaultOptions()
	o.ForceLoopBounding = false
	sets = append(sets, optSet{"no-loop-bound", o})
	o = msl.DefaultOptions()
	o.FakeMissingBindings = true
	o.PerEntryPointMap = map[string]msl.EntryPointResources{}
	sets = append(sets, optSet{"fake-bindings", o})
	return sets
}

// kernelFor finds the kernel emitted for a WGSL entry point name.
func kernelFor(u *Unit, entry string) string {
	names, stages := u.EntryPoints()
	for i, n := range names {
		if stages[i] == "kernel" && (n == entry || n == entry+"_") {
			return n
		}
	}
	for i, n := range names {
		if stages[i] == "kernel" && strings.HasPrefix(n, entry) {
			return n
		}
	}
	return ""
}

// bindByName maps WGSL variable names to the slot keys of the kernel.
func bindByName(t *testing.T, u *Unit, kernel string, bufs map[string][]byte) map[string][]byte {
	t.Helper()
	out := map[string][]byte{}
	used := map[string]bool{}
	for _, a := range u.EntryArgs() {
		if a.Entry != kernel || (a.AddressSpace != "device" && a.AddressSpace != "constant") {
			continue
		}
		name := a.Name
		b, ok := bufs[name]
		if !ok {
			b, ok = bufs[strings.TrimSuffix(name, "_")]
			name = strings.TrimSuffix(name, "_")
		}
		if !ok {
			continue
		}
		used[name] = true
		key := "arg:" + a.Name
		if a.Buffer >= 0 {
			key = fmt.Sprintf("buffer(%d)", a.Buffer)
		}
		out[key] = b
	}
	for n := range bufs {
		if !used[n] {
			t.Fatalf("buffer %q is not a parameter of kernel %s", n, kernel)
		}
	}
	return out
}

func cloneBufs(m map[string][]byte) map[string][]byte {
	out := map[string][]byte{}
	for k, v := range m {
		out[k] = append([]byte(nil), v...)
	}
	return out
}

func runE2E(t *testing.T, c e2eCase) {
	t.Helper()
	for _, os := range allOptSets() {
		if c.only != "" && c.only != os.name {
			continue
		}
		os := os
		t.Run(os.name, func(t *testing.T) {
			opts := os.opts
			if c.variant != nil {
				c.variant(&opts)
			}
			src := compileMSL(t, c.wgsl, opts)
			u, err := Parse(src)
			if err != nil {
				t.Fatalf("Parse: %v\n%s", err, src)
			}
			entry := c.entry
			if entry == "" {
				entry = "main"
			}
			k := kernelFor(u, entry)
			if k == "" {
				t.Fatalf("no kernel for %s\n%s", entry, src)
			}
			bufs := cloneBufs(c.in)
			in := xrt.Input{Entry: k, Buffers: bindByName(t, u, k, bufs), LocalID: c.lid, WorkgroupID: c.wid, NumWorkgroups: c.nwg, TraceAccesses: true}
			out := u.Run(in, Config{ThreadgroupSize: c.wgSize})
			if c.wantTrap != "" && c.nagaBug != "" && out.OK() && matches(bufs, c.want, c.mask) {
				t.Logf("known naga deviation is no longer present: %s", c.nagaBug)
				return
			}
			if c.wantTrap != "" {
				if c.nagaBug != "" {
					t.Logf("known naga defect: %s (%s)", c.nagaBug, out.Trap)
				}
				if !strings.Contains(out.Trap, c.wantTrap) {
					t.Fatalf("want trap containing %q, got trap=%q skip=%q\n%s", c.wantTrap, out.Trap, out.Skip, src)
				}
				return
			}
			if c.wantSkip != "" {
				if out.OK() && matches(bufs, c.want, c.mask) {
					t.Logf("known naga deviation is no longer present: %s", c.nagaBug)
					return
				}
				found := false
				for _, alt := range strings.Split(c.wantSkip, "|") {
					if strings.Contains(out.Skip, alt) {
						found = true
					}
				}
				if !found {
					t.Fatalf("want skip containing %q, got trap=%q skip=%q\n%s", c.wantSkip, out.Trap, out.Skip, src)
				}
				t.Logf("known naga defect: %s (%s)", c.nagaBug, out.Skip)
				return
			}
			if !out.OK() {
				t.Fatalf("trap=%q skip=%q\n%s", out.Trap, out.Skip, src)
			}
			want := c.want
			if c.nagaBug != "" {
				// accept the WGSL result too (naga fixed), else require what
				// the emitted text really computes
				if matches(bufs, c.want, c.mask) {
					t.Logf("known naga deviation is no longer present: %s", c.nagaBug)
					return
				}
				want = c.wantMSL
			}
			bad := false
			for name, w := range want {
				got := bufs[name]
				if got == nil {
					t.Fatalf("no buffer %q", name)
				}
				mask := c.mask[name]
				if len(got) != len(w) {
					t.Errorf("%s: length %d, want %d", name, len(got), len(w))
					bad = true
					continue
				}
				for i := range w {
					if mask != nil && mask[i] == 0 {
						continue
					}
					if got[i] != w[i] {
						j := i &^ 3
						end := j + 4
						if end > len(w) {
							end = len(w)
						}
						t.Errorf("%s: word at byte %d = % x, want % x", name, j, got[j:end], w[j:end])
						bad = true
						break
					}
				}
				if mask == nil && !bytes.Equal(got, w) && !bad {
					bad = true
				}
			}
			if bad {
				t.Logf("MSL:\n%s", src)
			}
			if c.nagaBug != "" {
				t.Logf("known naga deviation from WGSL: %s", c.nagaBug)
			}
		})
	}
}

func matches(bufs, want, mask map[string][]byte) bool {
	for name, w := range want {
		got := bufs[name]
		if len(got) != len(w) {
			return false
		}
		m := mask[name]
		for i := range w {
			if m != nil && m[i] == 0 {
				continue
			}
			if got[i] != w[i] {
				return false
			}
		}
	}
	return true
}

// padMask returns a compare mask of n bytes with the given [from,to) ranges
// (padding) excluded.
func padMask(n int, pads ...[2]int) []byte {
	m := bytes.Repeat([]byte{0xFF}, n)
	for _, p := range pads {
		for i := p[0]; i < p[1]; i++ {
			m[i] = 0
		}
	}
	return m
}

func cat(parts ...[]byte) []byte {
	var out []byte
	for _, p := range parts {
		out = append(out, p...)
	}
	return out
}

func zeros(n int) []byte { return make([]byte, n) }
