package mslx

import (
	"fmt"
	"strings"
)

// ScalarKind enumerates the Metal scalar types.
type ScalarKind uint8

const (
	SNone ScalarKind = iota
	SBool
	SChar
	SUChar
	SShort
	SUShort
	SInt
	SUInt
	SLong
	SULong
	SHalf
	SFloat
	SDouble
)

var scalarNames = [...]string{"void", "bool", "char", "uchar", "short", "ushort", "int", "uint", "long", "ulong", "half", "float", "double"}

func (s ScalarKind) String() string { return scalarNames[s] }

// size in bytes of a scalar (Metal data type table).
func (s ScalarKind) size() int {
	switch s {
	case SBool, SChar, SUChar:
		return 1
	case SShort, SUShort, SHalf:
		return 2
	case SInt, SUInt, SFloat:
		return 4
	case SLong, SULong, SDouble:
		return 8
	}
	return 0
}

func (s ScalarKind) isInt() bool    { return s >= SChar && s <= SULong }
func (s ScalarKind) isFloat() bool  { return s == SHalf || s == SFloat || s == SDouble }
func (s ScalarKind) isSigned() bool { return s == SChar || s == SShort || s == SInt || s == SLong }
func (s ScalarKind) bits() uint     { return uint(s.size() * 8) }

var scalarByName = map[string]ScalarKind{
	"bool": SBool, "char": SChar, "uchar": SUChar, "short": SShort, "ushort": SUShort,
	"int": SInt, "uint": SUInt, "long": SLong, "ulong": SULong, "half": SHalf, "float": SFloat, "double": SDouble,
	"int8_t": SChar, "uint8_t": SUChar, "int16_t": SShort, "uint16_t": SUShort, "int32_t": SInt, "uint32_t": SUInt,
	"int64_t": SLong, "uint64_t": SULong, "size_t": SULong, "ptrdiff_t": SLong, "unsigned": SUInt,
}

// TypeKind is the shape of a Type.
type TypeKind uint8

const (
	KVoid TypeKind = iota
	KScalar
	KVector
	KMatrix
	KArray
	KStruct
	KPointer
	KAtomic
	KOpaque  // textures, samplers, acceleration structures, ...
	KGeneric // template type parameter / auto
)

// Type is a resolved Metal type.  Types are interned per Unit, so pointer
// equality is type identity (except KPointer, compared structurally).
type Type struct {
	Kind   TypeKind
	Name   string
	S      ScalarKind // scalar, vector, matrix, atomic element kind
	N      int        // vector components / array length
	Cols   int        // matrix columns
	Rows   int        // matrix rows
	Packed bool       // packed_ vector
	Elem   *Type      // array element / pointer target
	// Flexible marks an array type introduced by `typedef T name[1];`, the
	// idiom for a runtime-sized array whose real length comes from the size
	// of the bound buffer.
	Flexible bool
	Struct   *StructInfo
	Space    string // pointer: address space of the target
	Const    bool   // pointer: target is const
	size     int
	align    int
}

// StructInfo is a struct definition with its computed layout.
type StructInfo struct {
	Name    string
	Members []*MemberInfo
	byName  map[string]*MemberInfo
	decl    *Decl
	// complete is set once the layout has been computed.
	complete bool
	// special marks naga's DefaultConstructible helper.
	defaultConstructible bool
	hasMethods           bool
}

// MemberInfo is one struct member with its computed C++ layout.
type MemberInfo struct {
	Name   string
	T      *Type
	Offset int
	Attrs  []Attr
	decl   *Decl
}

func (t *Type) String() string {
	if t == nil {
		return "<unknown>"
	}
	return t.Name
}

// Size returns sizeof(T) per the Metal data type size/alignment table.
func (t *Type) Size() int { return t.size }

// Align returns alignof(T).
func (t *Type) Align() int { return t.align }

func (t *Type) isScalar() bool { return t != nil && t.Kind == KScalar }
func (t *Type) isVector() bool { return t != nil && t.Kind == KVector }
func (t *Type) isMatrix() bool { return t != nil && t.Kind == KMatrix }
func (t *Type) isNumeric() bool {
	return t != nil && (t.Kind == KScalar || t.Kind == KVector || t.Kind == KMatrix)
}
func (t *Type) isAgg() bool { return t != nil && (t.Kind == KStruct || t.Kind == KArray) }

// ncomp is the number of scalar components of a scalar/vector/matrix.
func (t *Type) ncomp() int {
	switch t.Kind {
	case KScalar, KAtomic:
		return 1
	case KVector:
		return t.N
	case KMatrix:
		return t.Cols * t.Rows
	}
	return 0
}

// typeTable interns types.
type typeTable struct {
	byName map[string]*Type
}

func newTypeTable() *typeTable {
	tt := &typeTable{byName: map[string]*Type{}}
	return tt
}

var voidType = &Type{Kind: KVoid, Name: "void"}
var genericType = &Type{Kind: KGeneric, Name: "auto"}

func (tt *typeTable) scalar(s ScalarKind) *Type {
	name := s.String()
	if t, ok := tt.byName[name]; ok {
		return t
	}
	t := &Type{Kind: KScalar, Name: name, S: s, size: s.size(), align: s.size()}
	tt.byName[name] = t
	return t
}

func roundUp(x, a int) int {
	if a <= 1 {
		return x
	}
	return (x + a - 1) / a * a
}

// vector returns the (packed) vector type.  Metal table: a non-packed vecN<T>
// has size and alignment sizeof(T)*{2,4,4}[N]; a packed vector has size
// N*sizeof(T) and the alignment of T.
func (tt *typeTable) vector(s ScalarKind, n int, packed bool) *Type {
	name := fmt.Sprintf("%s%d", s, n)
	if packed {
		name = "packed_" + name
	}
	if t, ok := tt.byName[name]; ok {
		return t
	}
	t := &Type{Kind: KVector, Name: name, S: s, N: n, Packed: packed}
	if packed {
		t.size = n * s.size()
		t.align = s.size()
	} else {
		m := n
		if n == 3 {
			m = 4
		}
		t.size = m * s.size()
		t.align = t.size
	}
	tt.byName[name] = t
	return t
}

// matrix returns floatCxR / halfCxR: C columns, each a non-packed R-vector.
func (tt *typeTable) matrix(s ScalarKind, cols, rows int) *Type {
	name := fmt.Sprintf("%s%dx%d", s, cols, rows)
	if t, ok := tt.byName[name]; ok {
		return t
	}
	col := tt.vector(s, rows, false)
	t := &Type{Kind: KMatrix, Name: name, S: s, Cols: cols, Rows: rows, Elem: col, size: cols * col.size, align: col.align}
	tt.byName[name] = t
	return t
}

func (tt *typeTable) atomic(s ScalarKind) *Type {
	name := "atomic_" + s.String()
	if t, ok := tt.byName[name]; ok {
		return t
	}
	t := &Type{Kind: KAtomic, Name: name, S: s, size: s.size(), align: s.size()}
	tt.byName[name] = t
	return t
}

func (tt *typeTable) array(elem *Type, n int, flexible bool) *Type {
	name := fmt.Sprintf("%s[%d]", elem.Name, n)
	if flexible {
		name += "/*runtime*/"
	}
	if t, ok := tt.byName[name]; ok {
		return t
	}
	if n < 0 || (elem.size > 0 && n > (1<<40)/elem.size) {
		skipf("array type %s is too large", name)
	}
	t := &Type{Kind: KArray, Name: name, Elem: elem, N: n, Flexible: flexible, size: n * elem.size, align: elem.align}
	tt.byName[name] = t
	return t
}

func (tt *typeTable) pointer(elem *Type, space string, cnst bool) *Type {
	name := elem.Name + "*"
	if cnst {
		name = "const " + name
	}
	if space != "" {
		name = space + " " + name
	}
	if t, ok := tt.byName[name]; ok {
		return t
	}
	t := &Type{Kind: KPointer, Name: name, Elem: elem, Space: space, Const: cnst, size: 8, align: 8}
	tt.byName[name] = t
	return t
}

func (tt *typeTable) opaque(name string) *Type {
	key := "opaque:" + name
	if t, ok := tt.byName[key]; ok {
		return t
	}
	t := &Type{Kind: KOpaque, Name: name, size: 8, align: 8}
	tt.byName[key] = t
	return t
}

// builtinType resolves a (metal::-stripped) builtin type name such as
// "float3", "packed_uint3", "float4x3", "atomic_int"; nil when the name is not
// a builtin data type.
func (tt *typeTable) builtinType(name string) *Type {
	if name == "void" {
		return voidType
	}
	if s, ok := scalarByName[name]; ok {
		return tt.scalar(s)
	}
	base := name
	packed := false
	if strings.HasPrefix(base, "packed_") {
		packed = true
		base = base[len("packed_"):]
	}
	if strings.HasPrefix(base, "atomic_") && !packed {
		if s, ok := scalarByName[base[len("atomic_"):]]; ok {
			return tt.atomic(s)
		}
		return nil
	}
	// matrix: <scalar>CxR
	if l := len(base); l > 3 && base[l-2] == 'x' && base[l-1] >= '2' && base[l-1] <= '4' && base[l-3] >= '2' && base[l-3] <= '4' && !packed {
		if s, ok := scalarByName[base[:l-3]]; ok && s.isFloat() {
			return tt.matrix(s, int(base[l-3]-'0'), int(base[l-1]-'0'))
		}
		return nil
	}
	if l := len(base); l > 1 && base[l-1] >= '2' && base[l-1] <= '4' {
		if s, ok := scalarByName[base[:l-1]]; ok && base[:l-1] != "unsigned" && !strings.HasSuffix(base[:l-1], "_t") {
			return tt.vector(s, int(base[l-1]-'0'), packed)
		}
	}
	return nil
}

// opaqueTypeNames lists the metal:: names that denote opaque (non-data) types
// or class templates producing them.
var opaqueTypeNames = map[string]bool{
	"sampler": true, "array": true, "array_ref": true, "vec": true, "matrix": true, "atomic": true,
	"texture_buffer": true, "imageblock": true, "mesh": true, "mesh_grid_properties": true,
	"raytracing::intersector": true, "raytracing::intersection_result": true, "raytracing::ray": true,
	"raytracing::instance_acceleration_structure": true, "raytracing::primitive_acceleration_structure": true,
	"raytracing::acceleration_structure": true, "raytracing::intersection_type": true,
	"raytracing::intersection_params": true, "raytracing::intersection_query": true,
	"raytracing::intersection_function_table": true,
	"visible_function_table":                  true, "command_buffer": true, "render_pipeline_state": true, "compute_pipeline_state": true,
	"memory_order": true, "mem_flags": true, "access": true, "coord": true, "address": true, "filter": true,
	"mip_filter": true, "compare_func": true, "border_color": true, "topology": true,
}

func isOpaqueTypeName(name string) bool {
	if opaqueTypeNames[name] {
		return true
	}
	return strings.HasPrefix(name, "texture") || strings.HasPrefix(name, "depth2d") || strings.HasPrefix(name, "depthcube")
}

// layoutStruct computes member offsets, size and alignment of a struct by the
// C++ rules: each member is placed at the next multiple of its alignment, the
// struct's alignment is the largest member alignment and its size is rounded
// up to that alignment.  An empty struct has size 1.
func layoutStruct(si *StructInfo) (size, align int) {
	off := 0
	align = 1
	for _, m := range si.Members {
		a := m.T.align
		if a < 1 {
			a = 1
		}
		off = roundUp(off, a)
		m.Offset = off
		off += m.T.size
		if a > align {
			align = a
		}
	}
	size = roundUp(off, align)
	if size == 0 {
		size = 1
	}
	if size > 1<<40 {
		skipf("struct %s is too large", si.Name)
	}
	si.complete = true
	return size, align
}
