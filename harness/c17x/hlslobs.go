package c17x

import (
	"fmt"
	"regexp"
	"strings"

	"github.com/gogpu/naga/hlsl"

	"verif/harness/hlslx"
)

var hlslInterpMods = map[string]string{"nointerpolation": "nointerp", "noperspective": "nopersp", "centroid": "centroid", "sample": "sample"}

func hlslIO(ep, dir, sem string, mods []string) Obs {
	r := Obs{"k": "io", "ep": ep, "dir": dir, "key": sem, "nointerp": false, "nopersp": false, "centroid": false, "sample": false}
	for _, m := range mods {
		if f, ok := hlslInterpMods[m]; ok {
			r[f] = true
		}
	}
	return r
}

var reRegBinding = regexp.MustCompile(`^register\(([a-z])(\d+)(?:, space(\d+))?\)$`)

// HlslObserve extracts the binding artefacts of an HLSL translation unit and of the TranslationInfo returned with it:
// register(xN, spaceM) of every resource, the sampler heap indirection, the semantics of every entry-point input
// and output (flattened through parameter / result structs), [numthreads], and the reflection maps.
// entries lists the WGSL entry points with their stage.
func HlslObserve(src string, info *hlsl.TranslationInfo, entries map[string]string) ([]Obs, error) {
	u, err := hlslx.ParseWith(src, hlslx.Options{AllowArrayTypeSuffix: true})
	if err != nil {
		return nil, err
	}
	var out []Obs
	declared := map[string]Obs{}
	for _, r := range u.Resources() {
		if !r.HasRegister {
			out = append(out, Obs{"k": "res", "g": r.Name, "reg": "none", "n": -1, "space": -1})
			continue
		}
		space := 0
		if r.HasSpace {
			space = r.Space
		}
		switch {
		case r.Name == "nagaSamplerHeap" || r.Name == "nagaComparisonSamplerHeap":
			if string(r.RegLetter) != "s" {
				out = append(out, Obs{"k": "heap", "name": r.Name + " in register class " + string(r.RegLetter), "n": r.Reg, "space": space})
			} else {
				out = append(out, Obs{"k": "heap", "name": r.Name, "n": r.Reg, "space": space})
			}
		case strings.HasPrefix(r.Name, "nagaGroup") && strings.HasSuffix(r.Name, "SamplerIndexArray"):
			g := -1
			fmt.Sscanf(r.Name, "nagaGroup%dSamplerIndexArray", &g)
			out = append(out, Obs{"k": "sampidx", "group": g, "reg": string(r.RegLetter), "n": r.Reg, "space": space})
		default:
			o := Obs{"k": "res", "g": r.Name, "reg": string(r.RegLetter), "n": r.Reg, "space": space}
			declared[r.Name] = o
			out = append(out, o)
		}
	}
	// samplers: static const SamplerState name = heap[indexArray[N]];
	for _, v := range u.Globals {
		if v.Type == nil || (v.Type.Name != "SamplerState" && v.Type.Name != "SamplerComparisonState") || len(v.Dims) > 0 {
			continue
		}
		o := Obs{"k": "samp", "g": v.Name, "heap": "?", "group": -1, "index": -1}
		if ix, ok := v.Init.(*hlslx.IndexExpr); ok {
			if h, ok := ix.X.(*hlslx.Ident); ok {
				o["heap"] = h.Name
				if (h.Name == "nagaComparisonSamplerHeap") != (v.Type.Name == "SamplerComparisonState") {
					o["heap"] = h.Name + " for " + v.Type.Name
				}
			}
			if in, ok := ix.I.(*hlslx.IndexExpr); ok {
				if b, ok := in.X.(*hlslx.Ident); ok {
					g := -1
					fmt.Sscanf(b.Name, "nagaGroup%dSamplerIndexArray", &g)
					o["group"] = g
				}
				if n, ok := in.I.(*hlslx.IntLit); ok {
					o["index"] = int(n.Val)
				}
			}
		} else if v.Register != nil {
			o["heap"] = fmt.Sprintf("register(%c%d)", v.Register.Letter, v.Register.Num)
		}
		out = append(out, o)
	}
	structs := map[string]*hlslx.StructDecl{}
	for _, s := range u.Structs {
		structs[s.Name] = s
	}
	funcs := map[string]*hlslx.FuncDecl{}
	for _, f := range u.Funcs {
		if f.Body != nil {
			funcs[f.Name] = f
		}
	}
	// entry points through the reflection map
	for ep, stage := range entries {
		name, listed := info.EntryPointNames[ep]
		f := funcs[name]
		out = append(out, Obs{"k": "epname", "ep": ep, "intext": listed && f != nil})
		if f == nil {
			continue
		}
		seen := map[string]bool{}
		add := func(o Obs) {
			k := fmt.Sprint(o)
			if !seen[k] { // the flattened relation is a set
				seen[k] = true
				out = append(out, o)
			}
		}
		var flatten func(dir string, v *hlslx.VarDecl, depth int)
		flatten = func(dir string, v *hlslx.VarDecl, depth int) {
			if v.Semantic != "" {
				add(hlslIO(ep, dir, v.Semantic, v.Mods))
				return
			}
			if v.Type != nil && depth < 4 {
				if s := structs[v.Type.Name]; s != nil {
					for _, m := range s.Members {
						flatten(dir, m, depth+1)
					}
					return
				}
			}
			add(hlslIO(ep, dir, "no semantic on "+v.Name, nil))
		}
		for _, p := range f.Params {
			flatten("in", p, 0)
		}
		if f.RetSemantic != "" {
			add(hlslIO(ep, "out", f.RetSemantic, f.RetMods))
		} else if f.Ret != nil && f.Ret.Name != "void" {
			if s := structs[f.Ret.Name]; s != nil {
				for _, m := range s.Members {
					flatten("out", m, 1)
				}
			} else {
				add(hlslIO(ep, "out", "no semantic on result", nil))
			}
		}
		if nt, ok := u.NumThreads(name); ok {
			out = append(out, Obs{"k": "threads", "ep": ep, "x": nt[0], "y": nt[1], "z": nt[2]})
		} else if stage == "compute" {
			out = append(out, Obs{"k": "threads", "ep": ep, "x": -1, "y": -1, "z": -1})
		}
	}
	// RegisterBindings: name -> "register(b0, space1)"
	for name, s := range info.RegisterBindings {
		m := reRegBinding.FindStringSubmatch(s)
		o := Obs{"k": "regbind", "g": name, "reg": "?" + s, "n": -1, "space": -1}
		if m != nil {
			n, sp := 0, 0
			fmt.Sscan(m[2], &n)
			if m[3] != "" {
				fmt.Sscan(m[3], &sp)
			}
			o = Obs{"k": "regbind", "g": name, "reg": m[1], "n": n, "space": sp}
		}
		if _, ok := declared[name]; !ok {
			o["g"] = name + " (not declared in the text)"
		}
		out = append(out, o)
	}
	return out, nil
}
