package c17x

import (
	"fmt"
	"strings"

	"github.com/gogpu/naga/glsl"

	"verif/harness/glslx"
)

func glslLayoutInt(q *glslx.Quals, name string) int {
	for _, l := range q.Layout {
		if l.Name == name && l.HasValue {
			if n, ok := l.Value.(*glslx.IntLit); ok {
				return int(n.Val)
			}
			return -2
		}
	}
	return -1
}

func glslHasLayout(q *glslx.Quals, name string) bool {
	for _, l := range q.Layout {
		if l.Name == name {
			return true
		}
	}
	return false
}

func glslOpaqueBase(t string) string {
	for _, p := range []string{"sampler", "texture", "image"} {
		if strings.HasPrefix(t, p) {
			return p
		}
		if len(t) > 1 && (t[0] == 'u' || t[0] == 'i') && strings.HasPrefix(t[1:], p) {
			return p
		}
	}
	return ""
}

func isSamplerType(t string) bool { b := glslOpaqueBase(t); return b == "sampler" || b == "texture" }
func isImageType(t string) bool   { return glslOpaqueBase(t) == "image" }

// GlslObserve extracts the binding artefacts of one GLSL compilation (one entry point): uniform / buffer blocks with
// layout qualifiers, block and instance names, texture / image uniforms with layout(binding), in / out varyings with
// layout(location[, index]) and interpolation qualifiers, local_size, `invariant gl_Position`, and the reflection
// data of TranslationInfo checked against the text (intext = the named thing exists in the text).
func GlslObserve(src string, info glsl.TranslationInfo, ep string, stage string) ([]Obs, error) {
	u, err := glslx.Parse(src)
	if err != nil {
		return nil, err
	}
	var out []Obs
	blocks := map[string]bool{}
	texs := map[string]bool{}
	funcs := map[string]bool{}
	for _, n := range u.Nodes {
		switch d := n.(type) {
		case *glslx.BlockDecl:
			if d.Quals.Storage != "uniform" && d.Quals.Storage != "buffer" {
				continue
			}
			layout := "none"
			for _, l := range []string{"std140", "std430", "shared", "packed"} {
				if glslHasLayout(&d.Quals, l) {
					layout = l
				}
			}
			// the type of the (single) member identifies the resource; the instance name is the block's own
			// instance name or, for naga's { T name; } form, the member name
			ty, inst := "", d.Instance
			if len(d.Members) == 1 {
				ty = d.Members[0].Type.Name
				if inst == "" {
					inst = d.Members[0].Name
				}
			} else {
				ty = fmt.Sprintf("%d members", len(d.Members))
			}
			blocks[d.Name] = true
			out = append(out, Obs{"k": "block", "ty": ty, "storage": d.Quals.Storage, "layout": layout, "binding": glslLayoutInt(&d.Quals, "binding"),
				"block": d.Name, "inst": inst, "readonly": d.Quals.ReadOnly})
		case *glslx.VarDecl:
			switch {
			case d.Quals.Storage == "uniform" && (isSamplerType(d.Type.Name) || isImageType(d.Type.Name)):
				texs[d.Name] = true
				out = append(out, Obs{"k": "tex", "name": d.Name, "binding": glslLayoutInt(&d.Quals, "binding"), "image": isImageType(d.Type.Name)})
			case d.Quals.Storage == "in" || d.Quals.Storage == "out":
				loc := glslLayoutInt(&d.Quals, "location")
				has := loc >= 0
				if !has {
					// without a layout qualifier the location is carried by naga's variable name (..._location<N>)
					if i := strings.LastIndex(d.Name, "_location"); i >= 0 {
						fmt.Sscan(d.Name[i+len("_location"):], &loc)
					}
				}
				o := Obs{"k": "vary", "dir": d.Quals.Storage, "loc": loc, "index": glslLayoutInt(&d.Quals, "index"), "haslayout": has,
					"flat": false, "nopersp": false, "smooth": false, "centroid": false, "sample": false}
				for _, q := range d.Quals.Interp {
					switch q {
					case "flat":
						o["flat"] = true
					case "noperspective":
						o["nopersp"] = true
					case "smooth":
						o["smooth"] = true
					case "centroid":
						o["centroid"] = true
					case "sample":
						o["sample"] = true
					}
				}
				out = append(out, o)
			}
		case *glslx.QualDecl:
			if d.Quals.Invariant {
				for _, nm := range d.Names {
					out = append(out, Obs{"k": "io", "ep": ep, "dir": "out", "key": "invariant " + nm})
				}
			}
		case *glslx.FuncDecl:
			if d.Body != nil {
				funcs[d.Name] = true
			}
		}
	}
	if u.HasLocalSize || stage == "compute" {
		x, y, z := -1, -1, -1
		if u.HasLocalSize {
			x, y, z = int(u.LocalSize[0]), int(u.LocalSize[1]), int(u.LocalSize[2])
		}
		out = append(out, Obs{"k": "threads", "ep": ep, "x": x, "y": y, "z": z})
	}
	// ---- reflection
	for name, fn := range info.EntryPointNames {
		out = append(out, Obs{"k": "epname", "ep": name, "intext": funcs[fn]})
	}
	for _, ui := range info.Uniforms {
		out = append(out, Obs{"k": "r_uniform", "block": ui.BlockName, "group": int(ui.Binding.Group), "binding": int(ui.Binding.Binding),
			"isstorage": ui.IsStorage, "intext": blocks[ui.BlockName]})
	}
	for _, p := range info.TextureSamplerPairs {
		out = append(out, Obs{"k": "r_pair", "name": p, "intext": texs[p]})
	}
	for name, tm := range info.TextureMappings {
		o := Obs{"k": "r_texmap", "name": name, "tg": int(tm.TextureBinding.Group), "tb": int(tm.TextureBinding.Binding), "sg": -1, "sb": -1, "intext": texs[name]}
		if tm.SamplerBinding != nil {
			o["sg"], o["sb"] = int(tm.SamplerBinding.Group), int(tm.SamplerBinding.Binding)
		}
		out = append(out, o)
	}
	return out, nil
}
