package c17x

import (
	"fmt"
	"strings"

	"verif/harness/spv"
)

// Obs is one observed artefact record (a JSON object; Bindings.tla judges it).
type Obs = map[string]any

// Numeric values from the SPIR-V 1.6 specification, sections 3.3 (execution model), 3.6 (execution mode),
// 3.7 (storage class), 3.20 (decoration), 3.21 (BuiltIn).
var spvClassName = map[uint32]string{0: "UniformConstant", 1: "Input", 2: "Uniform", 3: "Output", 4: "Workgroup", 5: "CrossWorkgroup",
	6: "Private", 7: "Function", 8: "Generic", 9: "PushConstant", 10: "AtomicCounter", 11: "Image", 12: "StorageBuffer"}

var spvModelName = map[uint32]string{0: "Vertex", 1: "TessellationControl", 2: "TessellationEvaluation", 3: "Geometry", 4: "Fragment", 5: "GLCompute", 6: "Kernel"}

var spvModeName = map[uint32]string{0: "Invocations", 1: "SpacingEqual", 7: "OriginUpperLeft", 8: "OriginLowerLeft", 9: "EarlyFragmentTests",
	10: "PointMode", 11: "Xfb", 12: "DepthReplacing", 14: "DepthGreater", 15: "DepthLess", 16: "DepthUnchanged", 17: "LocalSize", 18: "LocalSizeHint", 38: "LocalSizeId"}

var spvBuiltInName = map[uint32]string{0: "Position", 1: "PointSize", 3: "ClipDistance", 4: "CullDistance", 5: "VertexId", 6: "InstanceId", 7: "PrimitiveId",
	8: "InvocationId", 9: "Layer", 10: "ViewportIndex", 15: "FragCoord", 16: "PointCoord", 17: "FrontFacing", 18: "SampleId", 19: "SamplePosition",
	20: "SampleMask", 22: "FragDepth", 23: "HelperInvocation", 24: "NumWorkgroups", 25: "WorkgroupSize", 26: "WorkgroupId", 27: "LocalInvocationId",
	28: "GlobalInvocationId", 29: "LocalInvocationIndex", 36: "SubgroupSize", 38: "NumSubgroups", 40: "SubgroupId", 41: "SubgroupLocalInvocationId",
	42: "VertexIndex", 43: "InstanceIndex", 4440: "ViewIndex"}

const (
	decBuiltIn       = 11
	decNoPerspective = 13
	decFlat          = 14
	decCentroid      = 16
	decSample        = 17
	decInvariant     = 18
	decNonWritable   = 24
	decNonReadable   = 25
	decLocation      = 30
	decIndex         = 32
	decBinding       = 33
	decDescriptorSet = 34
)

type decoSet map[uint32][]uint32

func decosOf(ds []spv.Decoration) decoSet {
	out := decoSet{}
	for _, d := range ds {
		out[d.Kind] = d.Operands
	}
	return out
}

func (d decoSet) has(k uint32) bool { _, ok := d[k]; return ok }
func (d decoSet) word(k uint32) int {
	if w, ok := d[k]; ok && len(w) > 0 {
		return int(w[0])
	}
	return -1
}

func spvName(m *spv.Module, id uint32) string {
	if n := m.Names[id]; n != "" {
		return n
	}
	return fmt.Sprintf("%%%d", id)
}

var spvDimName = map[uint32]string{0: "1D", 1: "2D", 2: "3D", 3: "Cube", 4: "Rect", 5: "Buffer", 6: "SubpassData"}

// typeSig identifies the value type of a module-scope variable without debug names: the length of the first
// fixed-size array found in it ("n<K>": the test modules give every buffer / workgroup / private variable its own K),
// the operands of OpTypeImage, or "sampler".
func typeSig(m *spv.Module, id uint32, depth int) string {
	t := m.Types[id]
	if t == nil || depth > 8 {
		return ""
	}
	switch t.Kind {
	case spv.KindPointer:
		return typeSig(m, t.Elem, depth+1)
	case spv.KindArray:
		return fmt.Sprintf("n%d", t.Count)
	case spv.KindStruct:
		for _, mt := range t.Members {
			if s := typeSig(m, mt, depth+1); s != "" {
				return s
			}
		}
		return ""
	case spv.KindSampler:
		return "sampler"
	case spv.KindSampledImage:
		return "sampledimage " + typeSig(m, t.Elem, depth+1)
	case spv.KindImage:
		if int(id) < len(m.DefInst) && m.DefInst[id] >= 0 {
			w := m.Insts[m.DefInst[id]].Words
			if len(w) >= 9 {
				comp := "?"
				if st := m.Types[w[2]]; st != nil {
					switch {
					case st.Kind == spv.KindFloat:
						comp = "float"
					case st.Kind == spv.KindInt && st.Signed:
						comp = "sint"
					case st.Kind == spv.KindInt:
						comp = "uint"
					}
				}
				return fmt.Sprintf("image %s %s depth%d arrayed%d ms%d sampled%d fmt%d", comp, spvDimName[w[3]], w[4], w[5], w[6], w[7], w[8])
			}
		}
		return "image ?"
	}
	return ""
}

// ioRecord flattens one decorated Input/Output variable or struct member.
func ioRecord(ep, dir string, d decoSet) Obs {
	key := "undecorated"
	if d.has(decBuiltIn) {
		b := uint32(d.word(decBuiltIn))
		key = spvBuiltInName[b]
		if key == "" {
			key = fmt.Sprintf("BuiltIn%d", b)
		}
	} else if d.has(decLocation) {
		key = fmt.Sprintf("Location%d", d.word(decLocation))
		if d.has(decIndex) {
			key += fmt.Sprintf(" Index%d", d.word(decIndex))
		}
	}
	return Obs{"k": "io", "ep": ep, "dir": dir, "key": key, "flat": d.has(decFlat), "nopersp": d.has(decNoPerspective),
		"centroid": d.has(decCentroid), "sample": d.has(decSample), "invariant": d.has(decInvariant)}
}

// SpvObserve extracts the binding artefacts of a SPIR-V binary: module-scope variables with storage class and
// DescriptorSet/Binding, entry points with execution model and modes, and the OpEntryPoint interface lists -
// Input/Output variables flattened to (direction, builtin | location) -> decorations, other variables by name.
func SpvObserve(bin []byte) ([]Obs, error) {
	m, err := spv.Decode(bin)
	if err != nil {
		return nil, err
	}
	var out []Obs
	vars := map[uint32]*spv.Variable{}
	listed := map[uint32]bool{}
	varRec := map[uint32]Obs{}
	count := map[string]int{}
	for _, g := range m.Globals {
		vars[g.ID] = g
		if g.Storage == spv.StorageInput || g.Storage == spv.StorageOutput {
			continue
		}
		d := decosOf(m.Decorations[g.ID])
		nw, nr := d.has(decNonWritable), d.has(decNonReadable)
		// NonWritable / NonReadable may also sit on every member of the block struct
		if pt := m.Types[g.PtrType]; pt != nil && pt.Kind == spv.KindPointer {
			if st := m.Types[pt.Elem]; st != nil && st.Kind == spv.KindStruct && len(st.Members) > 0 {
				allW, allR := true, true
				for i := range st.Members {
					md := decosOf(m.MemberDecorations[pt.Elem][uint32(i)])
					allW = allW && md.has(decNonWritable)
					allR = allR && md.has(decNonReadable)
				}
				nw, nr = nw || allW, nr || allR
			}
		}
		cls := spvClassName[g.Storage]
		if cls == "" {
			cls = fmt.Sprintf("class%d", g.Storage)
		}
		sig := typeSig(m, g.PtrType, 0)
		if sig == "" {
			sig = "other %" + fmt.Sprint(g.PtrType)
		}
		o := Obs{"k": "var", "sig": sig, "uniq": strings.HasPrefix(sig, "n"), "class": cls, "set": d.word(decDescriptorSet), "binding": d.word(decBinding),
			"nonwritable": nw, "nonreadable": nr}
		// identical records are numbered (multiset semantics)
		key := fmt.Sprint(o)
		o["dup"] = count[key]
		count[key]++
		varRec[g.ID] = o
		out = append(out, o)
	}
	for _, ep := range m.EntryPoints {
		icount := map[string]int{}
		model := spvModelName[ep.Model]
		if model == "" {
			model = fmt.Sprintf("model%d", ep.Model)
		}
		out = append(out, Obs{"k": "entry", "ep": ep.Name, "model": model})
		for _, md := range ep.Modes {
			name := spvModeName[md.Mode]
			if name == "" {
				name = fmt.Sprintf("mode%d", md.Mode)
			}
			args := []int{}
			for _, a := range md.Operands {
				args = append(args, int(a))
			}
			out = append(out, Obs{"k": "mode", "ep": ep.Name, "mode": name, "args": args})
		}
		for _, id := range ep.Interface {
			v := vars[id]
			if v == nil {
				out = append(out, Obs{"k": "iface", "ep": ep.Name, "sig": fmt.Sprintf("not-a-variable %%%d", id), "class": "", "set": -1, "binding": -1, "dup": 0})
				continue
			}
			listed[id] = true
			if v.Storage != spv.StorageInput && v.Storage != spv.StorageOutput {
				vr := varRec[id]
				o := Obs{"k": "iface", "ep": ep.Name, "sig": vr["sig"], "class": vr["class"], "set": vr["set"], "binding": vr["binding"]}
				key := fmt.Sprint(o)
				o["dup"] = icount[key]
				icount[key]++
				out = append(out, o)
				continue
			}
			dir := "in"
			if v.Storage == spv.StorageOutput {
				dir = "out"
			}
			d := decosOf(m.Decorations[id])
			flattened := false
			if !d.has(decBuiltIn) && !d.has(decLocation) {
				// an interface block: the members carry the decorations
				if pt := m.Types[v.PtrType]; pt != nil && pt.Kind == spv.KindPointer {
					if st := m.Types[pt.Elem]; st != nil && st.Kind == spv.KindStruct {
						for i := range st.Members {
							md := decosOf(m.MemberDecorations[pt.Elem][uint32(i)])
							for k, w := range d { // decorations of the variable apply to every member
								if _, ok := md[k]; !ok {
									md[k] = w
								}
							}
							out = append(out, ioRecord(ep.Name, dir, md))
							flattened = true
						}
					}
				}
			}
			if !flattened {
				out = append(out, ioRecord(ep.Name, dir, d))
			}
		}
	}
	// Input/Output variables that no entry point lists
	for _, g := range m.Globals {
		if (g.Storage == spv.StorageInput || g.Storage == spv.StorageOutput) && !listed[g.ID] {
			r := ioRecord("<no entry point>", map[bool]string{true: "in", false: "out"}[g.Storage == spv.StorageInput], decosOf(m.Decorations[g.ID]))
			out = append(out, r)
		}
	}
	return out, nil
}

// SpvVersion returns 10*major+minor of the binary's header.
func SpvVersion(bin []byte) int {
	m, err := spv.Decode(bin)
	if err != nil {
		return -1
	}
	return m.Major()*10 + m.Minor()
}
