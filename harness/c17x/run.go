package c17x

import (
	"fmt"
	"math/rand"
	"sort"

	"github.com/gogpu/naga/glsl"
	"github.com/gogpu/naga/hlsl"
	"github.com/gogpu/naga/ir"
	"github.com/gogpu/naga/msl"
	"github.com/gogpu/naga/spirv"
)

// Run is one backend call on a module: the option record handed to TLC, the outcome and the observed artefacts.
type Run struct {
	Backend string
	MapKind string
	Ep      string
	O       map[string]any
	OK      bool
	Err     string
	Obs     []Obs
	Text    string // emitted text (or a note for SPIR-V), kept for replay files
	Broken  string // extractor failure (never a violation)
}

// MapKinds are the binding-map shapes of DESIGN.md appendix C / the property's quantifier.
var MapKinds = []string{"identity", "permuted", "sparse", "absent-fake", "absent-nofake", "random", "nomap", "complete-nofake"}

type slotKey struct{ g, b int }

func resourceKeys(m *Module) []slotKey {
	seen := map[slotKey]bool{}
	var ks []slotKey
	for _, g := range m.Globals {
		if IsResource(g.Kind) {
			k := slotKey{g.Group, g.Binding}
			if !seen[k] {
				seen[k] = true
				ks = append(ks, k)
			}
		}
	}
	sort.Slice(ks, func(i, j int) bool { return ks[i].g < ks[j].g || (ks[i].g == ks[j].g && ks[i].b < ks[j].b) })
	return ks
}

// targets assigns one flat number to every key according to the map kind; absent keys are left out.
func targets(kind string, ks []slotKey, rng *rand.Rand, limit int) map[slotKey]int {
	out := map[slotKey]int{}
	switch kind {
	case "identity", "complete-nofake":
		for _, k := range ks {
			out[k] = k.b
		}
	case "permuted":
		p := rng.Perm(len(ks))
		for i, k := range ks {
			out[k] = ks[p[i]].b
		}
	case "sparse":
		for i, k := range ks {
			out[k] = (7 + 5*i + 3*k.b) % limit
		}
	case "random":
		for _, k := range ks {
			out[k] = rng.Intn(limit)
		}
	case "absent-fake", "absent-nofake":
		// at least one key absent (when there is one), the others at shifted slots
		drop := -1
		if len(ks) > 0 {
			drop = rng.Intn(len(ks))
		}
		for i, k := range ks {
			if i == drop || rng.Intn(3) == 0 {
				continue
			}
			out[k] = (k.b + 2) % limit
		}
	}
	return out
}

// SpvRun compiles with the SPIR-V backend (debug names on, so that variables can be identified).
func SpvRun(im *ir.Module, version [2]uint8) Run {
	r := Run{Backend: "spv", MapKind: fmt.Sprintf("v%d.%d", version[0], version[1])}
	o := spirv.DefaultOptions()
	o.Version = spirv.Version{Major: version[0], Minor: version[1]}
	o.Debug = true
	bin, err := safely(func() ([]byte, error) { return spirv.NewBackend(o).Compile(im) })
	r.O = map[string]any{"be": "spv", "ver": int(version[0])*10 + int(version[1])}
	if err != nil {
		r.Err = err.Error()
		r.Obs = []Obs{}
		return r
	}
	r.OK = true
	if v := SpvVersion(bin); v > 0 {
		r.O["ver"] = v // the rule depends on the version the module declares
	}
	obs, err := SpvObserve(bin)
	if err != nil {
		r.Broken = "spv decoder: " + err.Error()
	}
	r.Obs = obs
	r.Text = fmt.Sprintf("(SPIR-V binary, %d bytes)", len(bin))
	return r
}

func safely[T any](f func() (T, error)) (v T, err error) {
	defer func() {
		if p := recover(); p != nil {
			err = fmt.Errorf("panic: %v", p)
		}
	}()
	return f()
}

// HlslRun compiles with the HLSL backend under a binding map of the given kind.
func HlslRun(m *Module, im *ir.Module, kind string, rng *rand.Rand) Run {
	r := Run{Backend: "hlsl", MapKind: kind}
	ks := resourceKeys(m)
	o := hlsl.DefaultOptions()
	fake := kind != "absent-nofake" && kind != "complete-nofake"
	o.FakeMissingBindings = fake
	var mapRec, sbufRec []map[string]any
	if kind == "nomap" {
		o.BindingMap = nil
		mapRec = []map[string]any{}
	} else {
		tg := targets(kind, ks, rng, 64)
		o.BindingMap = map[hlsl.ResourceBinding]hlsl.BindTarget{}
		mapRec = []map[string]any{}
		for _, k := range ks {
			if reg, ok := tg[k]; ok {
				space := k.g
				switch kind {
				case "sparse":
					space = k.g + 2
				case "random":
					space = rng.Intn(8)
				case "permuted":
					space = (k.g + 1) % 4
				}
				o.BindingMap[hlsl.ResourceBinding{Group: uint32(k.g), Binding: uint32(k.b)}] = hlsl.BindTarget{Space: uint8(space), Register: uint32(reg)}
				mapRec = append(mapRec, map[string]any{"group": k.g, "binding": k.b, "space": space, "reg": reg})
			}
		}
	}
	sbufRec = []map[string]any{}
	if !fake {
		// the sampler index arrays need explicit targets when nothing is faked
		o.SamplerBufferBindingMap = map[uint32]hlsl.BindTarget{}
		groups := map[int]bool{}
		for _, g := range m.Globals {
			if ResClass(g.Kind) == "sampler" && !groups[g.Group] {
				groups[g.Group] = true
				o.SamplerBufferBindingMap[uint32(g.Group)] = hlsl.BindTarget{Space: 9, Register: uint32(20 + g.Group)}
				sbufRec = append(sbufRec, map[string]any{"group": g.Group, "space": 9, "reg": 20 + g.Group})
			}
		}
	}
	r.O = map[string]any{"be": "hlsl", "map": mapRec, "sbuf": sbufRec, "fake": fake}
	type res struct {
		s    string
		info *hlsl.TranslationInfo
	}
	v, err := safely(func() (res, error) { s, i, e := hlsl.Compile(im, o); return res{s, i}, e })
	r.Obs = []Obs{}
	if err != nil {
		r.Err = err.Error()
		return r
	}
	r.OK, r.Text = true, v.s
	entries := map[string]string{}
	for _, e := range m.Eps {
		entries[e.Name] = e.Stage
	}
	obs, err := HlslObserve(v.s, v.info, entries)
	if err != nil {
		r.Broken = "hlsl reader: " + err.Error()
	}
	r.Obs = append(r.Obs, obs...)
	return r
}

// MslRun compiles with the MSL backend under per-entry-point maps of the given kind.
func MslRun(m *Module, im *ir.Module, kind string, rng *rand.Rand) Run {
	r := Run{Backend: "msl", MapKind: kind}
	o := msl.DefaultOptions()
	fake := kind == "absent-fake" || (kind == "nomap" && rng.Intn(2) == 0)
	o.FakeMissingBindings = fake
	maps := []map[string]any{}
	if kind != "nomap" {
		o.PerEntryPointMap = map[string]msl.EntryPointResources{}
		for ei := range m.Eps {
			e := &m.Eps[ei]
			if (kind == "absent-fake" || kind == "absent-nofake") && len(m.Eps) > 1 && rng.Intn(4) == 0 {
				continue // no map at all for this entry point
			}
			// class of the resource this entry point uses at each key (any resource of the key when unused)
			class := map[slotKey]string{}
			for _, g := range m.Globals {
				if IsResource(g.Kind) {
					if _, ok := class[slotKey{g.Group, g.Binding}]; !ok {
						class[slotKey{g.Group, g.Binding}] = ResClass(g.Kind)
					}
				}
			}
			for gi := range m.Reach(e) {
				g := m.Globals[gi]
				if IsResource(g.Kind) {
					class[slotKey{g.Group, g.Binding}] = ResClass(g.Kind)
				}
			}
			ks := resourceKeys(m)
			tg := targets(kind, ks, rng, 31)
			res := map[ir.ResourceBinding]msl.BindTarget{}
			entries := []map[string]any{}
			for _, k := range ks {
				n, ok := tg[k]
				if !ok {
					continue
				}
				s := uint8(n)
				var bt msl.BindTarget
				switch class[k] {
				case "buffer":
					bt.Buffer = &s
				case "texture":
					bt.Texture = &s
				case "sampler":
					bt.Sampler = &msl.BindSamplerTarget{Slot: s}
				}
				res[ir.ResourceBinding{Group: uint32(k.g), Binding: uint32(k.b)}] = bt
				entries = append(entries, map[string]any{"group": k.g, "binding": k.b, "slot": n})
			}
			o.PerEntryPointMap[e.Name] = msl.EntryPointResources{Resources: res}
			maps = append(maps, map[string]any{"ep": e.Name, "entries": entries})
		}
	}
	r.O = map[string]any{"be": "msl", "fake": fake, "maps": maps}
	type res struct {
		s    string
		info msl.TranslationInfo
	}
	v, err := safely(func() (res, error) { s, i, e := msl.Compile(im, o); return res{s, i}, e })
	r.Obs = []Obs{}
	if err != nil {
		r.Err = err.Error()
		return r
	}
	r.OK, r.Text = true, v.s
	entries, resources := map[string]string{}, map[string]bool{}
	for _, e := range m.Eps {
		entries[e.Name] = e.Stage
	}
	for _, g := range m.Globals {
		if IsResource(g.Kind) {
			resources[g.Name] = true
		}
	}
	obs, err := MslObserve(v.s, v.info, entries, resources)
	if err != nil {
		r.Broken = "msl reader: " + err.Error()
	}
	r.Obs = append(r.Obs, obs...)
	return r
}

// GlslVersions lists the versions admissible for an entry point (storage buffers / images need 4.30 / ES 3.10).
func GlslVersions(m *Module, e *Entry) []glsl.Version {
	modern := []glsl.Version{glsl.Version430, glsl.Version450, glsl.Version460, glsl.VersionES310, glsl.VersionES320}
	if e.Stage == "compute" {
		return modern
	}
	for gi := range m.Reach(e) {
		switch m.Globals[gi].Kind {
		case "storage_ro", "storage_rw", "stexw", "texms":
			return modern
		}
	}
	return append(modern, glsl.Version330, glsl.VersionES300)
}

// GlslRun compiles one entry point with the GLSL backend.
func GlslRun(m *Module, im *ir.Module, e *Entry, ver glsl.Version, kind string, rng *rand.Rand) Run {
	r := Run{Backend: "glsl", MapKind: kind, Ep: e.Name}
	o := glsl.DefaultOptions()
	o.EntryPoint = e.Name
	o.LangVersion = ver
	mapRec := []map[string]any{}
	hasmap := kind != "nomap"
	if hasmap {
		o.BindingMap = map[glsl.BindingMapKey]uint8{}
		ks := resourceKeys(m)
		k2 := kind
		if kind == "absent-nofake" || kind == "complete-nofake" {
			k2 = "absent-fake" // GLSL has no FakeMissingBindings: an absent entry means no layout(binding)
			if kind == "complete-nofake" {
				k2 = "identity"
			}
		}
		tg := targets(k2, ks, rng, 200)
		for _, k := range ks {
			if n, ok := tg[k]; ok {
				o.BindingMap[glsl.BindingMapKey{Group: uint32(k.g), Binding: uint32(k.b)}] = uint8(n)
				mapRec = append(mapRec, map[string]any{"group": k.g, "binding": k.b, "slot": n})
			}
		}
	}
	r.O = map[string]any{"be": "glsl", "ep": e.Name, "ver": int(ver.Major)*100 + int(ver.Minor), "es": ver.ES, "hasmap": hasmap, "map": mapRec}
	type res struct {
		s    string
		info glsl.TranslationInfo
	}
	v, err := safely(func() (res, error) { s, i, e := glsl.Compile(im, o); return res{s, i}, e })
	r.Obs = []Obs{}
	if err != nil {
		r.Err = err.Error()
		return r
	}
	r.OK, r.Text = true, v.s
	obs, err := GlslObserve(v.s, v.info, e.Name, e.Stage)
	if err != nil {
		r.Broken = "glsl reader: " + err.Error()
	}
	r.Obs = append(r.Obs, obs...)
	return r
}
