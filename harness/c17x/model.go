// Package c17x holds the Go side of check C17: the module-interface description shared with
// spec/Bindings.tla (JSON), the WGSL renderer for such a description, and the extractors that turn
// what the real naga emitted (SPIR-V binary, HLSL / MSL / GLSL text, reflection structs) into the
// observation records that TLC validates against Bindings.Expected.  Nothing in this package decides
// what is correct: expectations come from the TLA+ specification only.
package c17x

import (
	"fmt"
	"strings"
)

// Global is one module-scope variable of the description (Bindings.tla: M.globals[i]).
type Global struct {
	Name    string `json:"name"`
	Kind    string `json:"kind"` // uniform storage_ro storage_rw tex2d tex2du texdepth texms stexw sampler sampler_cmp workgroup private
	Group   int    `json:"group"`
	Binding int    `json:"binding"`
	GForm   string `json:"gform"` // spelling of the @group argument: plain usuffix isuffix hex const expr
	BForm   string `json:"bform"`
	Rev     bool   `json:"rev"` // attribute ORDER in the text: false @group @binding, true @binding @group
}

// IO is one entry-point input or output (a bare parameter / result or a member of an IO struct).
type IO struct {
	Name      string `json:"name"`
	Ty        string `json:"ty"` // f32 vec2f vec4f i32 u32 vec2i vec4u vec3u bool
	B         string `json:"b"`  // builtin | location
	Builtin   string `json:"builtin"`
	Loc       int    `json:"loc"`
	LForm     string `json:"lform"`
	Interp    string `json:"interp"`   // none flat linear perspective
	Sampling  string `json:"sampling"` // none center centroid sample
	Invariant bool   `json:"invariant"`
	Blend     int    `json:"blend"` // -1 (no @blend_src) | 0 | 1
	BlForm    string `json:"blform"`
	// Rev is the attribute ORDER in the text (WGSL gives it no meaning): false = @builtin @invariant /
	// @location @blend_src @interpolate, true = the reverse (@invariant @builtin / @interpolate @blend_src @location)
	Rev bool `json:"rev"`
}

// Param is a parameter or a result: kind bare (one IO), struct (IO struct), none (no result).
type Param struct {
	Kind  string `json:"kind"`
	SName string `json:"sname"`
	IOs   []IO   `json:"ios"`
}

// Entry is one entry point.  Uses / Pairs / Calls are 1-based indices (TLA+ sequences) into
// Module.Globals / Module.Helpers.
type Entry struct {
	Name    string   `json:"name"`
	Stage   string   `json:"stage"` // vertex fragment compute
	Wg      []int    `json:"wg"`
	WgN     int      `json:"wgn"` // number of @workgroup_size arguments written (1..3)
	WgForms []string `json:"wgforms"`
	Params  []Param  `json:"params"`
	Result  Param    `json:"result"`
	Uses    []int    `json:"uses"`
	Pairs   [][]int  `json:"pairs"` // (texture, sampler) used together
	Calls   []int    `json:"calls"`
}

// Helper is a non-entry function: it uses globals and calls earlier helpers.
type Helper struct {
	Name  string  `json:"name"`
	Uses  []int   `json:"uses"`
	Pairs [][]int `json:"pairs"`
	Calls []int   `json:"calls"`
}

// Module is the module interface description.
type Module struct {
	Globals []Global `json:"globals"`
	Helpers []Helper `json:"helpers"`
	Eps     []Entry  `json:"eps"`
}

// NonPlain lists "attr:form" for every attribute argument not written as a plain decimal literal.
func (m *Module) NonPlain() []string {
	var out []string
	add := func(attr, form string) {
		if form != "" && form != "plain" {
			out = append(out, attr+":"+form)
		}
	}
	for _, g := range m.Globals {
		if IsResource(g.Kind) {
			add("group", g.GForm)
			add("binding", g.BForm)
		}
	}
	ios := func(p Param) {
		for _, io := range p.IOs {
			if io.B == "location" {
				add("location", io.LForm)
				if io.Blend >= 0 {
					add("blend_src", io.BlForm)
				}
			}
		}
	}
	for _, e := range m.Eps {
		if e.Stage == "compute" {
			for i := 0; i < e.WgN && i < len(e.WgForms); i++ {
				add("workgroup_size", e.WgForms[i])
			}
		}
		for _, p := range e.Params {
			ios(p)
		}
		ios(e.Result)
	}
	return out
}

// Plain returns a copy of the module with every attribute argument spelled as a plain decimal literal.
func (m *Module) Plain() *Module {
	c := *m
	c.Globals = append([]Global(nil), m.Globals...)
	for i := range c.Globals {
		c.Globals[i].GForm, c.Globals[i].BForm = "plain", "plain"
	}
	cp := func(p Param) Param {
		q := p
		q.IOs = append([]IO(nil), p.IOs...)
		for i := range q.IOs {
			q.IOs[i].LForm, q.IOs[i].BlForm = "plain", "plain"
		}
		return q
	}
	c.Eps = append([]Entry(nil), m.Eps...)
	for i := range c.Eps {
		e := c.Eps[i]
		e.WgForms = []string{"plain", "plain", "plain"}
		e.Params = append([]Param(nil), e.Params...)
		for j := range e.Params {
			e.Params[j] = cp(e.Params[j])
		}
		e.Result = cp(e.Result)
		c.Eps[i] = e
	}
	return &c
}

// Normalize replaces nil slices by empty ones (JSON null is not accepted by TLC's reader).
func (m *Module) Normalize() *Module {
	if m.Globals == nil {
		m.Globals = []Global{}
	}
	if m.Helpers == nil {
		m.Helpers = []Helper{}
	}
	if m.Eps == nil {
		m.Eps = []Entry{}
	}
	fix := func(p *Param) {
		if p.IOs == nil {
			p.IOs = []IO{}
		}
	}
	for i := range m.Helpers {
		h := &m.Helpers[i]
		if h.Uses == nil {
			h.Uses = []int{}
		}
		if h.Pairs == nil {
			h.Pairs = [][]int{}
		}
		if h.Calls == nil {
			h.Calls = []int{}
		}
	}
	for i := range m.Eps {
		e := &m.Eps[i]
		if e.Uses == nil {
			e.Uses = []int{}
		}
		if e.Pairs == nil {
			e.Pairs = [][]int{}
		}
		if e.Calls == nil {
			e.Calls = []int{}
		}
		if e.Params == nil {
			e.Params = []Param{}
		}
		for j := range e.Params {
			fix(&e.Params[j])
		}
		fix(&e.Result)
	}
	return m
}

// IsResource reports whether a global of this kind carries @group/@binding.
func IsResource(kind string) bool { return kind != "workgroup" && kind != "private" }

// ResClass is the slot class of a resource kind: buffer, texture or sampler.
func ResClass(kind string) string {
	switch kind {
	case "uniform", "storage_ro", "storage_rw":
		return "buffer"
	case "sampler", "sampler_cmp":
		return "sampler"
	case "workgroup", "private":
		return ""
	}
	return "texture"
}

// Reach returns the 0-based indices of the globals statically used by entry point e (through its call tree).
func (m *Module) Reach(e *Entry) map[int]bool {
	seen := map[int]bool{}
	hs := map[int]bool{}
	var visit func(h int)
	add := func(uses []int, pairs [][]int) {
		for _, u := range uses {
			seen[u-1] = true
		}
		for _, p := range pairs {
			seen[p[0]-1] = true
			seen[p[1]-1] = true
		}
	}
	visit = func(h int) {
		if hs[h] {
			return
		}
		hs[h] = true
		add(m.Helpers[h-1].Uses, m.Helpers[h-1].Pairs)
		for _, c := range m.Helpers[h-1].Calls {
			visit(c)
		}
	}
	add(e.Uses, e.Pairs)
	for _, c := range e.Calls {
		visit(c)
	}
	return seen
}

// ---------------------------------------------------------------- WGSL rendering

type renderer struct {
	b      strings.Builder
	consts []string
}

// attrArg spells the value v in the requested form; const forms add a module-scope constant.
func (r *renderer) attrArg(v int, form string) string {
	switch form {
	case "usuffix":
		return fmt.Sprintf("%du", v)
	case "isuffix":
		return fmt.Sprintf("%di", v)
	case "hex":
		return fmt.Sprintf("0x%x", v)
	case "const":
		name := fmt.Sprintf("K%s", letters(len(r.consts)))
		r.consts = append(r.consts, fmt.Sprintf("const %s = %d;", name, v))
		return name
	case "expr":
		if v == 0 {
			return "0+0"
		}
		return fmt.Sprintf("%d+1", v-1)
	}
	return fmt.Sprint(v)
}

func letters(i int) string {
	s := ""
	for {
		s = string(rune('A'+i%26)) + s
		i = i/26 - 1
		if i < 0 {
			return s
		}
	}
}

var wgslTy = map[string]string{"f32": "f32", "vec2f": "vec2<f32>", "vec4f": "vec4<f32>", "i32": "i32", "u32": "u32",
	"vec2i": "vec2<i32>", "vec4u": "vec4<u32>", "vec3u": "vec3<u32>", "bool": "bool"}

// toF32 converts an expression of IO type ty into an f32 expression.
func toF32(ty, x string) string {
	switch ty {
	case "f32":
		return x
	case "vec2f", "vec4f":
		return x + ".x"
	case "i32", "u32":
		return "f32(" + x + ")"
	case "vec2i", "vec4u", "vec3u":
		return "f32(" + x + ".x)"
	case "bool":
		return "select(0.0, 1.0, " + x + ")"
	}
	return "0.0"
}

// fromF32 builds a value of IO type ty from the f32 expression x.
func fromF32(ty, x string) string {
	switch ty {
	case "f32":
		return x
	case "vec2f", "vec4f":
		return wgslTy[ty] + "(" + x + ")"
	case "i32":
		return "i32(" + x + ")"
	case "u32":
		return "u32(" + x + ")"
	case "vec2i":
		return "vec2<i32>(i32(" + x + "))"
	case "vec4u", "vec3u":
		return wgslTy[ty] + "(u32(" + x + "))"
	}
	return x
}

func (r *renderer) ioAttrs(io IO) string {
	var a []string
	if io.B == "builtin" {
		a = append(a, "@builtin("+io.Builtin+")")
		if io.Invariant {
			a = append(a, "@invariant")
		}
	} else {
		a = append(a, "@location("+r.attrArg(io.Loc, io.LForm)+")")
		if io.Blend >= 0 {
			a = append(a, "@blend_src("+r.attrArg(io.Blend, io.BlForm)+")")
		}
		if io.Interp != "none" && io.Interp != "" {
			if io.Sampling != "none" && io.Sampling != "" {
				a = append(a, "@interpolate("+io.Interp+", "+io.Sampling+")")
			} else {
				a = append(a, "@interpolate("+io.Interp+")")
			}
		}
	}
	if io.Rev {
		for i, j := 0, len(a)-1; i < j; i, j = i+1, j-1 {
			a[i], a[j] = a[j], a[i]
		}
	}
	return strings.Join(a, " ")
}

func tyDecl(g Global, k int) (decl string) {
	switch g.Kind {
	case "uniform":
		return fmt.Sprintf("var<uniform> %s: T%s;", g.Name, g.Name)
	case "storage_ro":
		return fmt.Sprintf("var<storage, read> %s: T%s;", g.Name, g.Name)
	case "storage_rw":
		return fmt.Sprintf("var<storage, read_write> %s: T%s;", g.Name, g.Name)
	case "tex2d":
		return fmt.Sprintf("var %s: texture_2d<f32>;", g.Name)
	case "tex2du":
		return fmt.Sprintf("var %s: texture_2d<u32>;", g.Name)
	case "texdepth":
		return fmt.Sprintf("var %s: texture_depth_2d;", g.Name)
	case "texms":
		return fmt.Sprintf("var %s: texture_multisampled_2d<f32>;", g.Name)
	case "stexw":
		return fmt.Sprintf("var %s: texture_storage_2d<rgba8unorm, write>;", g.Name)
	case "sampler":
		return fmt.Sprintf("var %s: sampler;", g.Name)
	case "sampler_cmp":
		return fmt.Sprintf("var %s: sampler_comparison;", g.Name)
	case "workgroup":
		return fmt.Sprintf("var<workgroup> %s: array<u32, %d>;", g.Name, k)
	case "private":
		return fmt.Sprintf("var<private> %s: array<f32, %d>;", g.Name, k)
	}
	return "// ?" + g.Kind
}

// useStmts renders the statements by which a function body uses global g (reads add to acc, writes store acc).
func useStmts(g Global) []string {
	n := g.Name
	switch g.Kind {
	case "uniform", "storage_ro":
		return []string{"acc = acc + " + n + ".a.x;"}
	case "storage_rw":
		return []string{"acc = acc + " + n + ".a.x;", n + ".a.y = acc;"}
	case "tex2d":
		return []string{"acc = acc + textureLoad(" + n + ", vec2<i32>(0, 0), 0).x;"}
	case "tex2du":
		return []string{"acc = acc + f32(textureLoad(" + n + ", vec2<i32>(0, 0), 0).x);"}
	case "texdepth":
		return []string{"acc = acc + textureLoad(" + n + ", vec2<i32>(0, 0), 0);"}
	case "texms":
		return []string{"acc = acc + textureLoad(" + n + ", vec2<i32>(0, 0), 0).x;"}
	case "stexw":
		return []string{"textureStore(" + n + ", vec2<i32>(0, 0), vec4<f32>(acc));"}
	case "workgroup":
		return []string{n + "[0] = u32(acc);", "acc = acc + f32(" + n + "[1]);"}
	case "private":
		return []string{n + "[0] = " + n + "[0] + acc;", "acc = acc + " + n + "[1];"}
	}
	return nil
}

func pairStmt(t, s Global) string {
	if s.Kind == "sampler_cmp" {
		return "acc = acc + textureSampleCompareLevel(" + t.Name + ", " + s.Name + ", vec2<f32>(0.5, 0.5), 0.5);"
	}
	if t.Kind == "texdepth" {
		return "acc = acc + textureSampleLevel(" + t.Name + ", " + s.Name + ", vec2<f32>(0.5, 0.5), 0);"
	}
	return "acc = acc + textureSampleLevel(" + t.Name + ", " + s.Name + ", vec2<f32>(0.5, 0.5), 0.0).x;"
}

func (r *renderer) body(m *Module, uses []int, pairs [][]int, calls []int) {
	for _, u := range uses {
		for _, s := range useStmts(m.Globals[u-1]) {
			r.b.WriteString("  " + s + "\n")
		}
	}
	for _, p := range pairs {
		r.b.WriteString("  " + pairStmt(m.Globals[p[0]-1], m.Globals[p[1]-1]) + "\n")
	}
	for _, c := range calls {
		r.b.WriteString("  acc = acc + " + m.Helpers[c-1].Name + "(acc);\n")
	}
}

// Render prints the WGSL text of a module description.
func Render(m *Module) string {
	r := &renderer{}
	needDual := false
	// struct types of buffers, globals
	// every buffer / workgroup / private variable has its own shape: an array of K = (index of the global) + 1
	// elements, by which the SPIR-V decoder can tell the variables apart (naga emits no OpName for them)
	for i, g := range m.Globals {
		switch g.Kind {
		case "uniform", "storage_ro", "storage_rw":
			fmt.Fprintf(&r.b, "struct T%s { a: vec4<f32>, pad: array<vec4<f32>, %d> }\n", g.Name, i+2)
		}
	}
	for i, g := range m.Globals {
		if IsResource(g.Kind) {
			// (the arguments are spelled in group, binding order so that named constants keep their numbering)
			ga, ba := "@group("+r.attrArg(g.Group, g.GForm)+")", "@binding("+r.attrArg(g.Binding, g.BForm)+")"
			if g.Rev {
				ga, ba = ba, ga
			}
			fmt.Fprintf(&r.b, "%s %s %s\n", ga, ba, tyDecl(g, i+2))
		} else {
			r.b.WriteString(tyDecl(g, i+2) + "\n")
		}
	}
	for _, h := range m.Helpers {
		fmt.Fprintf(&r.b, "fn %s(x: f32) -> f32 {\n  var acc: f32 = x;\n", h.Name)
		r.body(m, h.Uses, h.Pairs, h.Calls)
		r.b.WriteString("  return acc;\n}\n")
	}
	for _, e := range m.Eps {
		// IO structs
		structs := append([]Param(nil), e.Params...)
		structs = append(structs, e.Result)
		for _, p := range structs {
			if p.Kind != "struct" {
				continue
			}
			fmt.Fprintf(&r.b, "struct %s {\n", p.SName)
			for _, io := range p.IOs {
				if io.Blend >= 0 {
					needDual = true
				}
				fmt.Fprintf(&r.b, "  %s %s: %s,\n", r.ioAttrs(io), io.Name, wgslTy[io.Ty])
			}
			r.b.WriteString("}\n")
		}
		switch e.Stage {
		case "compute":
			var a []string
			for i := 0; i < e.WgN; i++ {
				a = append(a, r.attrArg(e.Wg[i], e.WgForms[i]))
			}
			fmt.Fprintf(&r.b, "@compute @workgroup_size(%s)\n", strings.Join(a, ", "))
		default:
			fmt.Fprintf(&r.b, "@%s\n", e.Stage)
		}
		var ps, reads []string
		for i, p := range e.Params {
			if p.Kind == "bare" {
				io := p.IOs[0]
				ps = append(ps, fmt.Sprintf("%s %s: %s", r.ioAttrs(io), io.Name, wgslTy[io.Ty]))
				reads = append(reads, toF32(io.Ty, io.Name))
			} else {
				pn := fmt.Sprintf("p%s", letters(i))
				ps = append(ps, fmt.Sprintf("%s: %s", pn, p.SName))
				for _, io := range p.IOs {
					reads = append(reads, toF32(io.Ty, pn+"."+io.Name))
				}
			}
		}
		ret := ""
		switch e.Result.Kind {
		case "bare":
			io := e.Result.IOs[0]
			ret = fmt.Sprintf(" -> %s %s", r.ioAttrs(io), wgslTy[io.Ty])
		case "struct":
			ret = " -> " + e.Result.SName
		}
		fmt.Fprintf(&r.b, "fn %s(%s)%s {\n  var acc: f32 = 0.0;\n", e.Name, strings.Join(ps, ", "), ret)
		for _, x := range reads {
			r.b.WriteString("  acc = acc + " + x + ";\n")
		}
		r.body(m, e.Uses, e.Pairs, e.Calls)
		switch e.Result.Kind {
		case "bare":
			r.b.WriteString("  return " + fromF32(e.Result.IOs[0].Ty, "acc") + ";\n")
		case "struct":
			r.b.WriteString("  var res: " + e.Result.SName + ";\n")
			for _, io := range e.Result.IOs {
				r.b.WriteString("  res." + io.Name + " = " + fromF32(io.Ty, "acc") + ";\n")
			}
			r.b.WriteString("  return res;\n")
		}
		r.b.WriteString("}\n")
	}
	head := ""
	if needDual {
		head = "enable dual_source_blending;\n"
	}
	if len(r.consts) > 0 {
		head += strings.Join(r.consts, "\n") + "\n"
	}
	return head + r.b.String()
}
