package c17x

import (
	"encoding/json"
	"os"
	"reflect"
	"testing"

	"github.com/gogpu/naga/msl"

	"verif/harness/drive"
	"verif/harness/mslx"
)

// the declaration scanner and the full reader must agree wherever the full reader accepts the text
func TestMslScanAgreesWithReader(t *testing.T) {
	b, err := os.ReadFile("testdata/m1.json")
	if err != nil {
		t.Skip(err)
	}
	var m Module
	if err := json.Unmarshal(b, &m); err != nil {
		t.Fatal(err)
	}
	im, _, err := drive.Front(Render(&m))
	if err != nil {
		t.Fatal(err)
	}
	src, _, err := msl.Compile(im, msl.DefaultOptions())
	if err != nil {
		t.Fatal(err)
	}
	if _, err := mslx.Parse(src); err != nil {
		t.Fatal(err)
	}
	a, err := mslRead(src)
	if err != nil {
		t.Fatal(err)
	}
	s, err := mslScan(src)
	if err != nil {
		t.Fatal(err)
	}
	// the type of a parameter matters for [[stage_in]] parameters only
	norm := func(f mslFunc) mslFunc {
		ps := append([]mslParam(nil), f.params...)
		for i := range ps {
			stageIn := false
			for _, a := range ps[i].attrs {
				stageIn = stageIn || a.Name == "stage_in"
			}
			if !stageIn {
				ps[i].typ = ""
			}
		}
		f.params = ps
		return f
	}
	for name, f := range a.funcs {
		if !reflect.DeepEqual(norm(f), norm(s.funcs[name])) {
			t.Errorf("entry %s:\n reader  %+v\n scanner %+v", name, f, s.funcs[name])
		}
	}
	for name, ms := range a.structs {
		if name == "DefaultConstructible" {
			continue
		}
		if sm, ok := s.structs[name]; ok {
			for i := range ms {
				if i < len(sm) && len(ms[i])+len(sm[i]) > 0 && !reflect.DeepEqual(ms[i], sm[i]) {
					t.Errorf("struct %s member %d:\n reader  %+v\n scanner %+v", name, i, ms[i], sm[i])
				}
			}
			if len(ms) != len(sm) {
				t.Errorf("struct %s: %d members vs %d", name, len(ms), len(sm))
			}
		} else if len(ms) > 0 {
			t.Errorf("struct %s not found by the scanner", name)
		}
	}
}
