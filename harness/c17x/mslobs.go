package c17x

import (
	"fmt"
	"regexp"
	"strings"

	"github.com/gogpu/naga/msl"

	"verif/harness/mslx"
)

var mslInterpNames = map[string]bool{"flat": true, "center_perspective": true, "centroid_perspective": true, "sample_perspective": true,
	"center_no_perspective": true, "centroid_no_perspective": true, "sample_no_perspective": true}

// mslIO turns the attribute list of a parameter / struct member into a flattened io record.
func mslIO(ep, dir string, attrs []mslx.Attr) Obs {
	key, interp, inv := "", "", false
	for _, a := range attrs {
		s := strings.TrimSpace(a.String())
		switch {
		case mslInterpNames[a.Name] && a.Args == "":
			interp = a.Name
		case a.Name == "invariant":
			inv = true
		case a.Name == "index" && key != "":
			key += " " + s
		case key == "":
			key = s
		default:
			key += "," + s
		}
	}
	if key == "" {
		key = "no attribute"
	}
	return Obs{"k": "io", "ep": ep, "dir": dir, "key": key, "interp": interp, "invariant": inv}
}

// MslObserve extracts the binding artefacts of an MSL translation unit: [[buffer(n)]] / [[texture(n)]] / [[sampler(n)]]
// (or another attribute) of every resource parameter of every entry point, the attributes of inputs (parameters and
// [[stage_in]] struct members) and outputs (result struct members), and the entry-point names of TranslationInfo.
// resources is the set of WGSL resource names (parameters with those names are the resource arguments).
func MslObserve(src string, info msl.TranslationInfo, entries map[string]string, resources map[string]bool) ([]Obs, error) {
	ir, err := mslRead(src)
	if err != nil {
		return nil, err
	}
	var out []Obs
	stageKw := map[string]string{"vertex": "vertex", "fragment": "fragment", "compute": "kernel"}
	for ep, stage := range entries {
		name, listed := info.EntryPointNames[ep]
		fn, found := ir.funcs[name]
		out = append(out, Obs{"k": "epname", "ep": ep, "intext": listed && found && fn.stage == stageKw[stage], "stage": stage})
		if !found {
			continue
		}
		for _, a := range fn.params {
			slot, n := "", -1
			stageIn := false
			for _, at := range a.attrs {
				v := -1
				fmt.Sscan(strings.TrimSpace(at.Args), &v)
				switch at.Name {
				case "buffer", "texture", "sampler":
					slot, n = at.Name, v
				case "stage_in":
					stageIn = true
				case "user":
					if strings.HasPrefix(at.Args, "fake") {
						slot, n = "fake", -1
						fmt.Sscanf(at.Args, "fake%d", &n)
					}
				}
			}
			switch {
			case stageIn:
				ms, ok := ir.structs[a.typ]
				if !ok {
					out = append(out, mslIO(ep, "in", []mslx.Attr{{Name: "stage_in struct " + a.typ + " not found"}}))
					continue
				}
				for _, m := range ms {
					out = append(out, mslIO(ep, "in", m))
				}
			case resources[a.name]:
				if slot == "" {
					slot = "none"
				}
				out = append(out, Obs{"k": "arg", "ep": ep, "g": a.name, "slot": slot, "n": n})
			case slot == "buffer" || slot == "texture" || slot == "sampler":
				// a slot-bound parameter that is no WGSL resource (sizes buffer ...): reported as an argument
				out = append(out, Obs{"k": "arg", "ep": ep, "g": a.name, "slot": "extra", "n": n})
			case len(a.attrs) > 0:
				out = append(out, mslIO(ep, "in", a.attrs))
			default:
				if a.name != "_buffer_sizes" {
					out = append(out, mslIO(ep, "in", nil))
				}
			}
		}
		switch {
		case fn.ret == "void" || fn.ret == "":
		case len(fn.attrs) > 0:
			out = append(out, mslIO(ep, "out", fn.attrs))
		default:
			ms, ok := ir.structs[fn.ret]
			if !ok {
				out = append(out, mslIO(ep, "out", []mslx.Attr{{Name: "result " + fn.ret + " carries no attribute"}}))
				break
			}
			for _, m := range ms {
				out = append(out, mslIO(ep, "out", m))
			}
		}
	}
	return out, nil
}

// mslUnit is what the observer needs from an MSL text: the member attributes of every struct and the signature of
// every entry-point function.
type mslUnit struct {
	structs map[string][][]mslx.Attr
	funcs   map[string]mslFunc
}

type mslFunc struct {
	stage, ret string
	params     []mslParam
	attrs      []mslx.Attr
}

type mslParam struct {
	name, typ string
	attrs     []mslx.Attr
}

// mslRead reads the text with the full MSL reader (harness/mslx); when that reader rejects the text (a function body
// it cannot parse), the declarations are read by the declaration scanner below, which ignores bodies.
func mslRead(src string) (*mslUnit, error) {
	u, err := mslx.Parse(src)
	if err != nil {
		if s, err2 := mslScan(src); err2 == nil {
			return s, nil
		}
		return nil, err
	}
	out := &mslUnit{structs: map[string][][]mslx.Attr{}, funcs: map[string]mslFunc{}}
	for _, s := range u.Structs() {
		ms := [][]mslx.Attr{}
		for _, m := range s.Members {
			ms = append(ms, m.Attrs)
		}
		out.structs[s.Name] = ms
	}
	for _, r := range u.EntryResults() {
		out.funcs[r.Entry] = mslFunc{stage: r.Stage, ret: r.Type, attrs: r.Attrs}
	}
	for _, a := range u.EntryArgs() {
		f := out.funcs[a.Entry]
		f.params = append(f.params, mslParam{name: a.Name, typ: a.Type, attrs: a.Attrs})
		out.funcs[a.Entry] = f
	}
	return out, nil
}

var (
	reMslStruct = regexp.MustCompile(`(?m)^struct (\w+) \{\n((?:[^\n]*\n)*?)\};`)
	reMslEntry  = regexp.MustCompile(`(?m)^(vertex|fragment|kernel) (\S+) (\w+)\(\n((?:[^\n]*\n)*?)\) ?((?:\[\[[^\n]*\]\])?) ?\{`)
	reMslAttrs  = regexp.MustCompile(`\[\[([^\]]*)\]\]`)
	reMslAttr   = regexp.MustCompile(`^(\w+)(?:\((.*)\))?$`)
	reMslIdent  = regexp.MustCompile(`(\w+)\s*$`)
)

func mslParseAttrs(s string) []mslx.Attr {
	var out []mslx.Attr
	for _, m := range reMslAttrs.FindAllStringSubmatch(s, -1) {
		// attributes are separated by commas (outside parentheses) or, for `color(0) index(1)`, by blanks
		depth, start := 0, 0
		body := m[1]
		flush := func(end int) {
			t := strings.TrimSpace(body[start:end])
			if t == "" {
				return
			}
			if a := reMslAttr.FindStringSubmatch(t); a != nil {
				out = append(out, mslx.Attr{Name: a[1], Args: a[2]})
			} else {
				out = append(out, mslx.Attr{Name: t})
			}
		}
		for i, ch := range body {
			switch {
			case ch == '(':
				depth++
			case ch == ')':
				depth--
			case depth == 0 && (ch == ',' || ch == ' '):
				flush(i)
				start = i + 1
			}
		}
		flush(len(body))
	}
	return out
}

// mslScan reads struct declarations and entry-point signatures line by line (naga writes one member / parameter per line).
func mslScan(src string) (*mslUnit, error) {
	out := &mslUnit{structs: map[string][][]mslx.Attr{}, funcs: map[string]mslFunc{}}
	for _, m := range reMslStruct.FindAllStringSubmatch(src, -1) {
		ms := [][]mslx.Attr{}
		for _, line := range strings.Split(m[2], "\n") {
			line = strings.TrimSpace(line)
			if line == "" || !strings.HasSuffix(line, ";") || strings.Contains(line, "(") && !strings.Contains(line, "[[") {
				continue
			}
			ms = append(ms, mslParseAttrs(line))
		}
		out.structs[m[1]] = ms
	}
	for _, m := range reMslEntry.FindAllStringSubmatch(src, -1) {
		f := mslFunc{stage: m[1], ret: m[2], attrs: mslParseAttrs(m[5])}
		for _, line := range strings.Split(m[4], "\n") {
			line = strings.TrimSpace(strings.TrimPrefix(strings.TrimSpace(line), ","))
			if line == "" {
				continue
			}
			decl := line
			if i := strings.Index(line, "[["); i >= 0 {
				decl = line[:i]
			}
			p := mslParam{attrs: mslParseAttrs(line)}
			if id := reMslIdent.FindStringSubmatch(decl); id != nil {
				p.name = id[1]
				fields := strings.Fields(strings.TrimSpace(decl[:len(decl)-len(id[0])]))
				if len(fields) > 0 {
					p.typ = strings.TrimSuffix(fields[len(fields)-1], "&")
				}
			}
			f.params = append(f.params, p)
		}
		out.funcs[m[3]] = f
	}
	if len(out.funcs) == 0 {
		return nil, fmt.Errorf("no entry point found")
	}
	return out, nil
}
