package checks

import (
	"fmt"
	"math/rand"
	"os"
	"testing"

	"verif/harness/drive"
)

// TestC09ReorderShare: a share of the alias-centred modules must make ir.ReorderTypes permute the arena and move the
// pointee of an inline pointer type.
func TestC09ReorderShare(t *testing.T) {
	r := rand.New(rand.NewSource(5))
	n, ok, perm, moved := 120, 0, 0, 0
	for i := 0; i < n; i++ {
		src, _ := RandModuleWith(r, RandOpts{Aliases: true, Dual: i%2 == 0, AttrLast: i%4 == 0, Stages: []string{[]string{"vertex", "fragment", "compute"}[i%3]}})
		if _, _, err := drive.Front(src); err != nil {
			continue
		}
		ok++
		p, m := c09Reorder(src)
		if p {
			perm++
		}
		if m {
			moved++
			if d := os.Getenv("C09_DUMP_DIR"); d != "" {
				os.WriteFile(fmt.Sprintf("%s/mv%03d.wgsl", d, i), []byte(src), 0o644)
			}
		}
	}
	t.Logf("accepted %d of %d, ReorderTypes permutes %d, moved pointee %d", ok, n, perm, moved)
	if moved*10 < ok {
		t.Fatalf("too few modules exercise type reordering")
	}
}
