package checks

import (
	"fmt"
	"math"
	"strings"

	"github.com/gogpu/naga/ir"

	"verif/harness/drive"
	"verif/harness/spv"
	"verif/harness/xrt"
)

// ---- reading compile-time values out of the lowered IR (C06) ---------------------------------------------
//
// A "constant tree" of the IR is an expression built only from Literal, Constant, ZeroValue, Compose, Splat,
// Swizzle and AccessIndex nodes.  constEvalIR reads such a tree as a flat list of 32-bit words (one per scalar
// leaf) with the scalar kind; every other node kind means "naga left this for run time".  This is deliberately
// a reader, not an evaluator: it performs no arithmetic.

// irVal is a constant value read out of the IR.
type irVal struct {
	Kind  string  // i32 u32 f32 bool ai af (abstract literal that survived) or "" when mixed
	Words []int32 // one per scalar leaf; ai/af leaves are truncated to 32 bits and flagged by Kind
	Wide  bool    // an abstract / 64-bit literal did not fit in 32 bits
}

type irReader struct {
	m     *ir.Module
	exprs []ir.Expression // arena being read (function or global expressions)
	depth int
}

func litWords(v ir.LiteralValue) (string, int32, bool) {
	switch x := v.(type) {
	case ir.LiteralI32:
		return "i32", int32(x), false
	case ir.LiteralU32:
		return "u32", int32(uint32(x)), false
	case ir.LiteralF32:
		return "f32", int32(math.Float32bits(float32(x))), false
	case ir.LiteralBool:
		if bool(x) {
			return "bool", 1, false
		}
		return "bool", 0, false
	case ir.LiteralAbstractInt:
		return "ai", int32(int64(x)), int64(int32(int64(x))) != int64(x)
	case ir.LiteralAbstractFloat:
		return "af", int32(math.Float32bits(float32(float64(x)))), false
	case ir.LiteralI64:
		return "i64", int32(int64(x)), true
	case ir.LiteralU64:
		return "u64", int32(uint64(x)), true
	case ir.LiteralF64:
		return "f64", int32(math.Float32bits(float32(float64(x)))), true
	case ir.LiteralF16:
		return "f16", int32(math.Float32bits(float32(x))), false
	}
	return "?", 0, true
}

func kindName(k ir.ScalarKind) string {
	switch k {
	case ir.ScalarSint:
		return "i32"
	case ir.ScalarUint:
		return "u32"
	case ir.ScalarFloat:
		return "f32"
	case ir.ScalarBool:
		return "bool"
	case ir.ScalarAbstractInt:
		return "ai"
	case ir.ScalarAbstractFloat:
		return "af"
	}
	return "?"
}

// typeShape returns (scalar kind name, number of scalar leaves) of a scalar / vector / matrix type.
func irTypeShape(m *ir.Module, th ir.TypeHandle) (string, int, bool) {
	if int(th) >= len(m.Types) {
		return "", 0, false
	}
	switch t := m.Types[th].Inner.(type) {
	case ir.ScalarType:
		if t.Width != 4 && t.Kind != ir.ScalarBool && t.Kind != ir.ScalarAbstractInt && t.Kind != ir.ScalarAbstractFloat {
			return kindName(t.Kind) + fmt.Sprint(t.Width*8), 1, true
		}
		return kindName(t.Kind), 1, true
	case ir.VectorType:
		return kindName(t.Scalar.Kind), int(t.Size), true
	case ir.MatrixType:
		return kindName(t.Scalar.Kind), int(t.Columns) * int(t.Rows), true
	}
	return "", 0, false
}

func (r *irReader) merge(vs []irVal) irVal {
	var out irVal
	for i, v := range vs {
		if i == 0 {
			out.Kind = v.Kind
		} else if out.Kind != v.Kind {
			out.Kind = ""
		}
		out.Words = append(out.Words, v.Words...)
		out.Wide = out.Wide || v.Wide
	}
	return out
}

// constant reads module constant h.
func (r *irReader) constant(h ir.ConstantHandle) (irVal, string) {
	if int(h) >= len(r.m.Constants) {
		return irVal{}, "bad constant handle"
	}
	c := r.m.Constants[h]
	// prefer the canonical init expression in GlobalExpressions when it is readable, else the Value field
	if int(c.Init) < len(r.m.GlobalExpressions) && len(r.m.GlobalExpressions) > 0 {
		g := &irReader{m: r.m, exprs: r.m.GlobalExpressions, depth: r.depth + 1}
		if v, why := g.read(c.Init); why == "" {
			return v, ""
		}
	}
	return r.constValue(c.Value, c.Type)
}

func (r *irReader) constValue(v ir.ConstantValue, th ir.TypeHandle) (irVal, string) {
	switch x := v.(type) {
	case ir.ScalarValue:
		k := kindName(x.Kind)
		switch x.Kind {
		case ir.ScalarAbstractInt:
			return irVal{Kind: k, Words: []int32{int32(int64(x.Bits))}, Wide: int64(int32(int64(x.Bits))) != int64(x.Bits)}, ""
		case ir.ScalarAbstractFloat:
			return irVal{Kind: k, Words: []int32{int32(math.Float32bits(float32(math.Float64frombits(x.Bits))))}}, ""
		}
		return irVal{Kind: k, Words: []int32{int32(uint32(x.Bits))}, Wide: x.Bits>>32 != 0 && x.Kind != ir.ScalarSint}, ""
	case ir.CompositeValue:
		var vs []irVal
		for _, ch := range x.Components {
			cv, why := r.constant(ch)
			if why != "" {
				return irVal{}, why
			}
			vs = append(vs, cv)
		}
		return r.merge(vs), ""
	case ir.ZeroConstantValue:
		k, n, ok := irTypeShape(r.m, th)
		if !ok {
			return irVal{}, "zero value of a non-numeric type"
		}
		return irVal{Kind: k, Words: make([]int32, n)}, ""
	}
	return irVal{}, "constant without a value"
}

// read returns the constant tree rooted at h as words; why != "" names the first node that is not part of a constant tree.
func (r *irReader) read(h ir.ExpressionHandle) (irVal, string) {
	if r.depth > 64 || int(h) >= len(r.exprs) {
		return irVal{}, "bad handle"
	}
	r.depth++
	defer func() { r.depth-- }()
	switch e := r.exprs[h].Kind.(type) {
	case ir.Literal:
		k, w, wide := litWords(e.Value)
		return irVal{Kind: k, Words: []int32{w}, Wide: wide}, ""
	case ir.ExprConstant:
		return r.constant(e.Constant)
	case ir.ExprZeroValue:
		k, n, ok := irTypeShape(r.m, e.Type)
		if !ok {
			return irVal{}, "zero value of a non-numeric type"
		}
		return irVal{Kind: k, Words: make([]int32, n)}, ""
	case ir.ExprCompose:
		var vs []irVal
		for _, c := range e.Components {
			v, why := r.read(c)
			if why != "" {
				return irVal{}, why
			}
			vs = append(vs, v)
		}
		return r.merge(vs), ""
	case ir.ExprSplat:
		v, why := r.read(e.Value)
		if why != "" {
			return irVal{}, why
		}
		out := irVal{Kind: v.Kind, Wide: v.Wide}
		for i := 0; i < int(e.Size); i++ {
			out.Words = append(out.Words, v.Words...)
		}
		return out, ""
	case ir.ExprSwizzle:
		v, why := r.read(e.Vector)
		if why != "" {
			return irVal{}, why
		}
		out := irVal{Kind: v.Kind, Wide: v.Wide}
		for i := 0; i < int(e.Size); i++ {
			p := int(e.Pattern[i])
			if p >= len(v.Words) {
				return irVal{}, "swizzle out of range"
			}
			out.Words = append(out.Words, v.Words[p])
		}
		return out, ""
	case ir.ExprAccessIndex:
		v, why := r.read(e.Base)
		if why != "" {
			return irVal{}, why
		}
		// only vectors of scalars are indexed in the generated programs
		if int(e.Index) >= len(v.Words) {
			return irVal{}, "index out of range"
		}
		return irVal{Kind: v.Kind, Words: []int32{v.Words[e.Index]}, Wide: v.Wide}, ""
	case ir.ExprBinary:
		return irVal{}, "Binary"
	case ir.ExprUnary:
		return irVal{}, "Unary"
	case ir.ExprMath:
		return irVal{}, "Math"
	case ir.ExprAs:
		return irVal{}, "As"
	case ir.ExprSelect:
		return irVal{}, "Select"
	case ir.ExprRelational:
		return irVal{}, "Relational"
	case ir.ExprLoad:
		return irVal{}, "Load"
	case ir.ExprAccess:
		return irVal{}, "Access"
	}
	return irVal{}, fmt.Sprintf("%T", r.exprs[h].Kind)
}

// irStore is one `out_x[i] = value` statement of an entry point as the IR has it.
type irStore struct {
	Buf    string
	Index  int
	Folded bool   // the stored value is a constant tree
	Why    string // if not: the first run-time node
	Val    irVal
	TypeK  string // scalar kind of the stored expression's recorded type ("" if none)
}

// irStores lists the stores to elements of global arrays in the function body (all nesting levels), in program order.
func irStores(m *ir.Module, f *ir.Function) []irStore {
	var out []irStore
	rd := &irReader{m: m, exprs: f.Expressions}
	target := func(p ir.ExpressionHandle) (string, int, bool) {
		if int(p) >= len(f.Expressions) {
			return "", 0, false
		}
		switch e := f.Expressions[p].Kind.(type) {
		case ir.ExprAccessIndex:
			if g, ok := f.Expressions[e.Base].Kind.(ir.ExprGlobalVariable); ok && int(g.Variable) < len(m.GlobalVariables) {
				return m.GlobalVariables[g.Variable].Name, int(e.Index), true
			}
		case ir.ExprAccess:
			if g, ok := f.Expressions[e.Base].Kind.(ir.ExprGlobalVariable); ok && int(g.Variable) < len(m.GlobalVariables) {
				if v, why := rd.read(e.Index); why == "" && len(v.Words) == 1 {
					return m.GlobalVariables[g.Variable].Name, int(v.Words[0]), true
				}
			}
		}
		return "", 0, false
	}
	var walk func(b ir.Block)
	walk = func(b ir.Block) {
		for _, s := range b {
			switch k := s.Kind.(type) {
			case ir.StmtStore:
				if buf, idx, ok := target(k.Pointer); ok {
					st := irStore{Buf: buf, Index: idx}
					v, why := rd.read(k.Value)
					st.Folded, st.Why, st.Val = why == "", why, v
					if int(k.Value) < len(f.ExpressionTypes) {
						tr := f.ExpressionTypes[k.Value]
						if tr.Handle != nil {
							st.TypeK, _, _ = irTypeShape(m, *tr.Handle)
						} else if sc, ok := tr.Value.(ir.ScalarType); ok {
							st.TypeK = kindName(sc.Kind)
						} else if vt, ok := tr.Value.(ir.VectorType); ok {
							st.TypeK = kindName(vt.Scalar.Kind)
						}
					}
					out = append(out, st)
				}
			case ir.StmtBlock:
				walk(k.Block)
			case ir.StmtIf:
				walk(k.Accept)
				walk(k.Reject)
			case ir.StmtSwitch:
				for _, c := range k.Cases {
					walk(c.Body)
				}
			case ir.StmtLoop:
				walk(k.Body)
				walk(k.Continuing)
			}
		}
	}
	walk(f.Body)
	return out
}

// irSwitchValues lists, per switch statement of the body in program order, the non-default case values.
func irSwitchValues(f *ir.Function) [][]int32 {
	var out [][]int32
	var walk func(b ir.Block)
	walk = func(b ir.Block) {
		for _, s := range b {
			switch k := s.Kind.(type) {
			case ir.StmtSwitch:
				var vs []int32
				for _, c := range k.Cases {
					switch v := c.Value.(type) {
					case ir.SwitchValueI32:
						vs = append(vs, int32(v))
					case ir.SwitchValueU32:
						vs = append(vs, int32(uint32(v)))
					}
				}
				out = append(out, vs)
				for _, c := range k.Cases {
					walk(c.Body)
				}
			case ir.StmtBlock:
				walk(k.Block)
			case ir.StmtIf:
				walk(k.Accept)
				walk(k.Reject)
			case ir.StmtLoop:
				walk(k.Body)
				walk(k.Continuing)
			}
		}
	}
	walk(f.Body)
	return out
}

// irConstByName reads module constant `name` (value and recorded scalar kind of its type).
func irConstByName(m *ir.Module, name string) (irVal, string, bool) {
	for i, c := range m.Constants {
		if c.Name == name {
			rd := &irReader{m: m, exprs: m.GlobalExpressions}
			v, why := rd.constant(ir.ConstantHandle(i))
			if why != "" {
				return irVal{}, "", false
			}
			tk, _, _ := irTypeShape(m, c.Type)
			return v, tk, true
		}
	}
	return irVal{}, "", false
}

// irArrayLen returns the constant element count of the array type of global variable `name`.
func irArrayLen(m *ir.Module, name string) (uint32, bool) {
	for _, g := range m.GlobalVariables {
		if g.Name == name && int(g.Type) < len(m.Types) {
			if a, ok := m.Types[g.Type].Inner.(ir.ArrayType); ok && a.Size.Constant != nil {
				return *a.Size.Constant, true
			}
		}
	}
	return 0, false
}

// C06Probe is a development aid: a textual summary of the compile-time observations for a program.
func C06Probe(src string) string {
	var sb strings.Builder
	m, stage, err := drive.Front(src)
	if err != nil {
		return fmt.Sprintf("REJECTED at %s: %v\n", stage, err)
	}
	for i, c := range m.Constants {
		rd := &irReader{m: m, exprs: m.GlobalExpressions}
		v, why := rd.constant(ir.ConstantHandle(i))
		tk, n, _ := irTypeShape(m, c.Type)
		fmt.Fprintf(&sb, "const %s: type %s x%d abstract=%v value=%v kind=%s wide=%v %s\n", c.Name, tk, n, c.IsAbstract, v.Words, v.Kind, v.Wide, why)
	}
	for _, g := range m.GlobalVariables {
		if n, ok := irArrayLen(m, g.Name); ok {
			fmt.Fprintf(&sb, "global %s: array length %d\n", g.Name, n)
		}
	}
	for _, ep := range m.EntryPoints {
		fmt.Fprintf(&sb, "entry %s workgroup %v\n", ep.Name, ep.Workgroup)
		for _, s := range irStores(m, &ep.Function) {
			fmt.Fprintf(&sb, "  %s[%d] folded=%v %s kind=%s words=%v type=%s\n", s.Buf, s.Index, s.Folded, s.Why, s.Val.Kind, s.Val.Words, s.TypeK)
		}
		for _, sv := range irSwitchValues(&ep.Function) {
			fmt.Fprintf(&sb, "  switch cases %v\n", sv)
		}
		if ep.Stage != ir.StageCompute {
			continue
		}
		art, err := drive.Compile("spv", "default", m, ep.Name)
		if err != nil {
			fmt.Fprintf(&sb, "  spv: %v\n", err)
			continue
		}
		in := xrt.Input{Entry: ep.Name, Buffers: map[string][]byte{}, NumWorkgroups: [3]uint32{1, 1, 1}}
		for _, g := range m.GlobalVariables {
			if g.Binding != nil {
				in.Buffers[fmt.Sprintf("%d.%d", g.Binding.Group, g.Binding.Binding)] = make([]byte, 4*256)
			}
		}
		out := spv.Run(art, in)
		fmt.Fprintf(&sb, "  spv run: trap=%q skip=%q\n", out.Trap, out.Skip)
		for _, g := range m.GlobalVariables {
			if g.Binding != nil {
				w := bytes2words(in.Buffers[fmt.Sprintf("%d.%d", g.Binding.Group, g.Binding.Binding)])
				n := len(w)
				for n > 0 && w[n-1] == 0 {
					n--
				}
				fmt.Fprintf(&sb, "  %s = %v\n", g.Name, w[:n])
			}
		}
	}
	return sb.String()
}
