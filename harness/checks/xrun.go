package checks

import (
	"fmt"
	"math/rand"
	"os"
	"strings"
	"time"

	"verif/harness/core"
	"verif/harness/gen"

	"github.com/gogpu/naga/ir"

	"verif/harness/drive"
	"verif/harness/wg"
	"verif/harness/xrt"
)

// XRun is a development aid: it compiles a WGSL text (storage buffer `inp` read-only at binding 0, `out` read-write at
// binding 1) with all four backends, executes the emitted code on the four executors and prints the out buffers side by
// side, so that a disagreement found by a check can be minimised by editing the text.
func XRun(src string, inp []int32, nOut int) int {
	m, stage, err := drive.Front(src)
	if err != nil {
		fmt.Println("front end:", stage, err)
		return 2
	}
	entry, wgSize := "main", [3]uint32{1, 1, 1}
	for _, ep := range m.EntryPoints {
		if ep.Stage == ir.StageCompute {
			entry, wgSize = ep.Name, ep.Workgroup
			break
		}
	}
	gIn := wg.Global("inp", "storage", "r", wg.I32, 0, 0, wg.None)
	gOut := wg.Global("out", "storage", "rw", wg.I32, 0, 1, wg.None)
	for _, name := range []string{"spv", "hlsl", "msl", "glsl"} {
		t := target{Name: name}
		art, err := drive.Compile(name, drive.OptNames(name)[0], m, entry)
		if err != nil {
			fmt.Printf("%-5s compile error: %v\n", name, err)
			continue
		}
		emitted := t.entryName(art, entry)
		in := xrt.Input{Entry: emitted, Buffers: map[string][]byte{}, NumWorkgroups: [3]uint32{1, 1, 1}, MaxSteps: 500000}
		in.Buffers[t.slotFor(gIn)] = words2bytes(inp)
		in.Buffers[t.slotFor(gOut)] = words2bytes(make([]int32, nOut))
		o := t.exec(art, emitted, wgSize, in)
		switch {
		case o.Skip != "":
			fmt.Printf("%-5s skip: %s\n", name, o.Skip)
		case o.Trap != "":
			fmt.Printf("%-5s trap: %s\n", name, o.Trap)
		default:
			fmt.Printf("%-5s %v\n", name, bytes2words(in.Buffers[t.slotFor(gOut)]))
		}
	}
	return 0
}

// RandScan evaluates the random programs of one seed one at a time with the specification and reports how long each
// takes (development aid for finding a program that makes the evaluation blow up).
func RandScan(seed int64, n int) int {
	c := core.NewCtx("SCAN", "quick", "other")
	progs := gen.RandProgramsFor(rand.New(rand.NewSource(seed*7919+13)), n, 6, false)
	for i, g := range progs {
		cs := &SemCase{Family: g.Family, Desc: g.Desc, Prog: g.Prog, Inputs: g.Inputs}
		t0 := time.Now()
		err := EvalSpec(c, []*SemCase{cs}, 1)
		d := time.Since(t0)
		st := "ok"
		if err != nil {
			st = "ERR " + strings.SplitN(err.Error(), "\n", 2)[0]
		}
		fmt.Printf("%d %s %.1fs cost=%d size=%d\n", i, st, d.Seconds(), gen.DynCost(g.Prog), len(wg.Print(g.Prog)))
		if d > 40*time.Second || err != nil {
			_ = os.WriteFile(fmt.Sprintf("/tmp/slow_%d_%d.wgsl", seed, i), []byte(wg.Print(g.Prog)), 0o644)
		}
	}
	return 0
}
