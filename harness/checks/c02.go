package checks

import (
	"bytes"
	"crypto/sha256"
	"encoding/json"
	"fmt"
	"math/rand"
	"os"
	"sort"
	"strings"
	"sync"
	"time"

	"github.com/gogpu/naga/ir"
	"github.com/gogpu/naga/spirv"

	"verif/harness/core"
	"verif/harness/drive"
	"verif/harness/spv"
	"verif/harness/spvev"
	"verif/harness/wg"
)

func init() { Registry["C02"] = runC02 }

// c02Opt is one SPIR-V option set (DESIGN.md appendix C, the C02 row).
type c02Opt struct {
	Name     string
	Minor    uint8 // SPIR-V 1.<Minor>
	Debug    bool
	FPS      bool  // ForcePointSize
	ACS      bool  // AdjustCoordinateSpace
	NoBound  bool  // ForceLoopBounding off
	Policy   uint8 // image load / store / index bounds-check policy (0 unchecked, 1 restrict, 2 read-zero-skip-write)
	Restrict bool  // CapabilitiesAvailable = {Shader, ...} without the optional DotProduct capabilities
	NoIO16   bool  // UseStorageInputOutput16 off
	NoRQ     bool  // RayQueryInitTracking off
}

func (o c02Opt) options() spirv.Options {
	so := spirv.DefaultOptions()
	so.Version = spirv.Version{Major: 1, Minor: o.Minor}
	so.Debug = o.Debug
	so.ForcePointSize = o.FPS
	so.AdjustCoordinateSpace = o.ACS
	so.ForceLoopBounding = !o.NoBound
	p := spirv.BoundsCheckPolicy(o.Policy)
	so.BoundsCheckPolicies = spirv.BoundsCheckPolicies{ImageLoad: p, ImageStore: p, Index: p}
	if o.Restrict {
		so.CapabilitiesAvailable = map[spirv.Capability]struct{}{}
		for _, c := range []spirv.Capability{spirv.CapabilityShader, spirv.CapabilityMatrix, spirv.CapabilityFloat16, spirv.CapabilityFloat64,
			spirv.CapabilityInt64, spirv.CapabilityInt16, spirv.CapabilityInt8, spirv.CapabilityImageQuery, spirv.CapabilitySampled1D,
			spirv.CapabilityImage1D, spirv.CapabilitySampledCubeArray, spirv.CapabilityImageCubeArray, spirv.CapabilitySampleRateShading,
			spirv.CapabilityStorageImageExtendedFormats, spirv.CapabilityDerivativeControl, spirv.CapabilityInt64Atomics,
			spirv.CapabilityGroupNonUniform} {
			so.CapabilitiesAvailable[c] = struct{}{}
		}
	}
	so.UseStorageInputOutput16 = !o.NoIO16
	so.RayQueryInitTracking = !o.NoRQ
	return so
}

// c02Flavours are the option combinations applied at every version.
var c02Flavours = []c02Opt{
	{Name: "default"},
	{Name: "debug", Debug: true},
	{Name: "pointsize+flipy", FPS: true, ACS: true},
	{Name: "noloopbound", NoBound: true},
	{Name: "restrict", Policy: 1},
	{Name: "rzsw", Policy: 2},
	{Name: "capsrestricted", Restrict: true, NoIO16: true, NoRQ: true},
	{Name: "all", Debug: true, FPS: true, ACS: true, Policy: 2, Restrict: true},
}

func c02OptSets(minors []uint8, flavours []c02Opt) []c02Opt {
	var out []c02Opt
	for _, mn := range minors {
		for _, f := range flavours {
			f.Minor = mn
			f.Name = fmt.Sprintf("v1.%d/%s", mn, f.Name)
			out = append(out, f)
		}
	}
	return out
}

// c02Src is one WGSL program to be compiled.
type c02Src struct {
	Family, Name, Text string
	m                  *ir.Module
	frontErr           string
}

// c02Mod is one emitted module under validation.
type c02Mod struct {
	Src   *c02Src
	Opt   c02Opt
	Bin   []byte
	Lines int // number of trace lines (reset + header + instructions + end)
	Evs   []spvev.Event
	Waive [][2]string // (rule, opcode) pairs already reported as known findings for this module
}

type c02Verdict struct {
	L    int    `json:"l"`
	Rule string `json:"rule"`
	Op   string `json:"op"`
	W    []int  `json:"w"` // witness ids (blocks) of a per-function rule
	Wv   bool   `json:"waived"`
}

// c02Validate runs SpvTrace.tla over the modules (sharded over TLC processes) and returns, per module index, the verdict
// (nil: accepted) and the set of unmodelled opcodes met.  tag only labels the run.
func c02Validate(c *core.Ctx, mods []*c02Mod, shards int, tag string) (map[int]*c02Verdict, map[string]bool, float64, error) {
	if shards > len(mods) {
		shards = len(mods)
	}
	if shards < 1 {
		return map[int]*c02Verdict{}, map[string]bool{}, 0, nil
	}
	// balance shards by event count (largest first)
	order := make([]int, len(mods))
	for i := range order {
		order[i] = i
	}
	sort.SliceStable(order, func(a, b int) bool { return len(mods[order[a]].Evs) > len(mods[order[b]].Evs) })
	load := make([]int, shards)
	assign := make([][]int, shards)
	for _, mi := range order {
		best := 0
		for s := 1; s < shards; s++ {
			if load[s] < load[best] {
				best = s
			}
		}
		assign[best] = append(assign[best], mi)
		load[best] += len(mods[mi].Evs) + 2
	}
	verdicts := map[int]*c02Verdict{}
	notes := map[string]bool{}
	var mu sync.Mutex
	var firstErr error
	events := 0
	t0 := time.Now()
	core.ParMap(shards, core.Cores(), func(s int) {
		var buf bytes.Buffer
		var starts []int // first line (1-based) of each module in this shard
		line := 1
		for _, mi := range assign[s] {
			starts = append(starts, line)
			line += spvev.Append(&buf, mi, mods[mi].Evs, mods[mi].Waive)
		}
		total := line - 1
		r, err := c.RunTLC(core.TLCOpts{Spec: "SpvTrace", CfgText: "SPECIFICATION TSpec\nCHECK_DEADLOCK FALSE\nPOSTCONDITION Consumed\n",
			Files: map[string][]byte{"trace.ndjson": buf.Bytes()}, Workers: 1, HeapGB: 3, Timeout: 30 * time.Minute})
		fail := func(f string, a ...any) {
			mu.Lock()
			if firstErr == nil {
				firstErr = fmt.Errorf("%s shard %d: %s", tag, s, fmt.Sprintf(f, a...))
				if os.Getenv("VERIF_KEEP") != "" {
					_ = os.WriteFile(fmt.Sprintf("%s/failed-%s-%d.ndjson", c.WorkDir, tag, s), buf.Bytes(), 0o644)
				}
			}
			mu.Unlock()
		}
		if err != nil {
			fail("%v", err)
			return
		}
		if !r.OK || len(r.Printed) == 0 {
			fail("TLC did not finish: %s %s\n%s", r.Violated, r.Err, r.Tail(25))
			return
		}
		var out struct {
			Consumed int          `json:"consumed"`
			Bad      []c02Verdict `json:"bad"`
			Notes    []string     `json:"notes"`
		}
		if err := json.Unmarshal([]byte(r.Printed[len(r.Printed)-1]), &out); err != nil || out.Consumed != total {
			fail("trace not fully consumed: %d of %d lines (%v)", out.Consumed, total, err)
			return
		}
		mu.Lock()
		defer mu.Unlock()
		c.AddTLC(r)
		events += total
		for _, n := range out.Notes {
			notes[n] = true
		}
		for _, b := range out.Bad {
			if b.Wv {
				continue // a known finding that was waived for this module (reported in an earlier round)
			}
			// module = the last start <= line
			k := sort.SearchInts(starts, b.L+1) - 1
			if k < 0 {
				continue
			}
			v := b
			v.L = b.L - starts[k] - 1 // index into Evs (line start = reset, start+1 = Evs[0])
			if _, dup := verdicts[assign[s][k]]; !dup {
				verdicts[assign[s][k]] = &v
			}
		}
	})
	return verdicts, notes, float64(events) / time.Since(t0).Seconds(), firstErr
}

// c02Context renders the instructions around event index k of a module (for reports).
func c02Context(md *c02Mod, k int) string {
	dm, err := spv.Decode(md.Bin)
	var sb strings.Builder
	lo, hi := k-6, k+2
	for i := lo; i <= hi; i++ {
		if i < 1 || i >= len(md.Evs)-1 {
			continue
		}
		mark := "   "
		if i == k {
			mark = ">> "
		}
		if err == nil && i-1 < len(dm.Insts) {
			fmt.Fprintf(&sb, "%s%s\n", mark, dm.DisasmInst(&dm.Insts[i-1]))
		} else {
			e := md.Evs[i]
			fmt.Fprintf(&sb, "%s%s t=%d r=%d ids=%v lits=%v en=%v\n", mark, e.Op, e.T, e.R, e.Ids, e.Lits, e.En)
		}
	}
	return sb.String()
}

func c02Compile(src *c02Src, o c02Opt) (out []byte, err error) {
	defer func() {
		if r := recover(); r != nil {
			out, err = nil, fmt.Errorf("panic: %v", r)
		}
	}()
	return spirv.NewBackend(o.options()).Compile(src.m)
}

func runC02(tier, replay string) int {
	c := core.NewCtx("C02", tier, "model_checking")
	c.Cov["rule"] = "Every SPIR-V module naga returns for (program, option set) is decoded by the harness's own decoder into one event per instruction and validated by TLC against the rule automaton spec/SpvValid.tla (trace validation, SpvTrace.tla): all rules of the instruction's class are evaluated at every event against the accumulated state (sections, ids, types, decorations, capabilities, blocks, merges, uses), the CFG/dominance rules once per function at OpFunctionEnd, the interface/entry-point rules at the end of the module. Programs: the 172 corpus shaders, the generated families (operator tables, builtins, matrices, control-flow skeletons from CtlGen.tla) and a seeded generator of IO / texture / atomic / workgroup / multi-entry-point programs; option sets: versions 1.0-1.6 x {debug, ForcePointSize+AdjustCoordinateSpace, ForceLoopBounding off, image bounds policies, restricted capabilities}. The specification itself is model-checked on every run (SpvEmit.tla: an abstract emitter explores emission orders; every seeded fault must be rejected). A case = one emitted module; non-trivial if it has at least one function body; distinct by the bytes of the module."
	c.Assumef("SPIR-V 1.0-1.6 universal rules and Vulkan environment rules as transcribed in spec/Spv*.tla (rules whose enforcement by the official validator is uncertain are omitted, see harness/docs/C02.md)")
	c.Assumef("the event extractor harness/spvev splits words according to harness/spv's opcode table (transcribed from the SPIR-V specification)")
	rng := rand.New(rand.NewSource(c.Seed))
	if replay != "" {
		return c02Replay(c, replay)
	}

	// ---- the specification itself: design-level model checking + seeded faults ---------------------------------
	if os.Getenv("VERIF_C02_NOSELF") != "" { // development aid for repeated trials against modified trees; the self-test does not depend on the tree
		c.Assumef("design-level self-test skipped (VERIF_C02_NOSELF)")
	} else if !c02SelfTest(c) {
		return c.Finish()
	}

	// ---- programs ----------------------------------------------------------------------------------------------------
	var srcs []*c02Src
	names, texts := corpusSources()
	if len(texts) < 50 {
		c.BrokenF("corpus not found under %s", core.RepoDir)
		return c.Finish()
	}
	for i := range names {
		srcs = append(srcs, &c02Src{Family: "corpus", Name: names[i], Text: texts[i]})
	}
	for i, t := range sessionExtraSources {
		srcs = append(srcs, &c02Src{Family: "extra", Name: fmt.Sprintf("extra%d", i), Text: t})
	}
	{
		sn, st := c02Shapes()
		for i := range sn {
			srcs = append(srcs, &c02Src{Family: "shape", Name: sn[i], Text: st[i]})
		}
	}
	only := os.Getenv("VERIF_C02_ONLY") // development aid: restrict to some families ("corpus,gen,...")
	want := func(fam string) bool { return only == "" || strings.Contains(only, fam) }
	if want("sem") {
		for _, cs := range semanticFamilies(c) {
			srcs = append(srcs, &c02Src{Family: "sem:" + cs.Family, Name: cs.Desc, Text: wg.Print(cs.Prog)})
		}
	}
	if want("ctl") {
		var ctl []*SemCase
		var err error
		if c.Quick() {
			ctl, err = ctlCases(c, 3, 16, []int{int(c.Seed) % 16})
		} else {
			all := make([]int, 16)
			for i := range all {
				all[i] = i
			}
			ctl, err = ctlCases(c, 3, 16, all)
		}
		if err != nil {
			c.BrokenF("control-flow family: %v", err)
			return c.Finish()
		}
		for _, cs := range ctl {
			srcs = append(srcs, &c02Src{Family: "ctl", Name: cs.Desc, Text: wg.Print(cs.Prog)})
		}
	}
	if want("gen") {
		for i, t := range c02Generate(rng, c.Pick(40, 250), c.Quick()) {
			srcs = append(srcs, &c02Src{Family: "gen", Name: fmt.Sprintf("gen%d", i), Text: t})
		}
	}
	if only != "" {
		var keep []*c02Src
		for _, s := range srcs {
			if strings.Contains(only, strings.SplitN(s.Family, ":", 2)[0]) && (os.Getenv("VERIF_C02_SRC") == "" || strings.Contains(os.Getenv("VERIF_C02_SRC"), s.Name)) {
				keep = append(keep, s)
			}
		}
		srcs = keep
	}
	core.ParMap(len(srcs), core.Cores(), func(i int) {
		m, _, err := drive.Front(srcs[i].Text)
		if err != nil {
			srcs[i].frontErr = err.Error()
			return
		}
		srcs[i].m = m
	})
	frontFail := map[string]int{}
	var ok []*c02Src
	for _, s := range srcs {
		if s.m == nil && s.Family == "shape" {
			c.BrokenF("hand-shaped program %s is rejected by the front end: %s", s.Name, s.frontErr)
		}
		if s.m == nil {
			frontFail[s.Family]++
			if s.Family == "gen" && os.Getenv("VERIF_C02_DEBUG") != "" {
				fmt.Fprintf(os.Stderr, "gen front error: %s\n%s\n", s.frontErr, s.Text)
			}
			continue
		}
		ok = append(ok, s)
	}
	c.Cov["sources"] = len(ok)
	c.Cov["sources_rejected_by_front_end"] = frontFail
	c.Programs = len(ok)

	// ---- (program, option set) pairs ---------------------------------------------------------------------------------
	type pair struct {
		s *c02Src
		o c02Opt
	}
	var pairs []pair
	allMinors := []uint8{0, 1, 2, 3, 4, 5, 6}
	if c.Quick() {
		// a seeded sample: ~50 programs (corpus-heavy) x 2 option sets
		perm := rng.Perm(len(ok))
		pick := map[string]int{}
		quota := map[string]int{"corpus": 22, "extra": 2, "ctl": 5, "sem": 6, "gen": 8}
		// the hand-shaped programs are judged on every seed, at the versions on both sides of the 1.4 interface rule
		shapeOpts := c02OptSets([]uint8{3, 4, 6}, c02Flavours[:1])
		for _, s := range ok {
			if s.Family == "shape" {
				for _, o := range shapeOpts {
					pairs = append(pairs, pair{s, o})
				}
			}
		}
		for _, pi := range perm {
			s := ok[pi]
			if s.Family == "shape" {
				continue
			}
			fam := s.Family
			if strings.HasPrefix(fam, "sem:") {
				fam = "sem"
			}
			q, has := quota[fam]
			if !has {
				q = 8
			}
			if pick[fam] >= q {
				continue
			}
			pick[fam]++
			all := c02OptSets(allMinors, c02Flavours)
			pairs = append(pairs, pair{s, all[rng.Intn(len(all))]}, pair{s, all[rng.Intn(len(all))]})
		}
	} else {
		full := c02OptSets(allMinors, c02Flavours)
		some := c02OptSets([]uint8{0, 3, 4, 6}, []c02Opt{c02Flavours[0], c02Flavours[7]})
		for _, s := range ok {
			switch {
			case s.Family == "shape":
				for _, o := range c02OptSets(allMinors, []c02Opt{c02Flavours[0], c02Flavours[1], c02Flavours[7]}) {
					pairs = append(pairs, pair{s, o})
				}
			case s.Family == "corpus" || s.Family == "extra":
				for _, o := range full {
					pairs = append(pairs, pair{s, o})
				}
			case s.Family == "gen":
				// every generated program with 3 seeded option sets
				for k := 0; k < 3; k++ {
					pairs = append(pairs, pair{s, full[rng.Intn(len(full))]})
				}
			default:
				pairs = append(pairs, pair{s, some[rng.Intn(len(some))]}, pair{s, some[rng.Intn(len(some))]})
			}
		}
	}

	if mx := os.Getenv("VERIF_C02_MAX"); mx != "" { // development aid: a handful of modules
		var n int
		fmt.Sscan(mx, &n)
		if n > 0 && n < len(pairs) {
			rng.Shuffle(len(pairs), func(i, j int) { pairs[i], pairs[j] = pairs[j], pairs[i] })
			pairs = pairs[:n]
		}
	}
	// ---- compile + extract -----------------------------------------------------------------------------------------------
	mods := make([]*c02Mod, len(pairs))
	compileErr := make([]string, len(pairs))
	core.ParMap(len(pairs), core.Cores(), func(i int) {
		b, err := c02Compile(pairs[i].s, pairs[i].o)
		if err != nil {
			compileErr[i] = err.Error()
			return
		}
		mods[i] = &c02Mod{Src: pairs[i].s, Opt: pairs[i].o, Bin: b, Evs: spvev.Events(b)}
	})
	var uniq []*c02Mod
	seen := map[[32]byte]int{}
	dupOf := map[int][]*c02Mod{} // index in uniq -> other (program, option) pairs with the same bytes
	nCompileErr := map[string]int{}
	for i, md := range mods {
		if md == nil {
			msg := compileErr[i]
			if len(msg) > 60 {
				msg = msg[:60]
			}
			nCompileErr[pairs[i].s.Family+": "+msg]++
			if strings.HasPrefix(compileErr[i], "panic:") {
				c.Skip("backend panic (C10's concern): " + msg)
			}
			continue
		}
		h := sha256.Sum256(md.Bin)
		if k, dup := seen[h]; dup {
			dupOf[k] = append(dupOf[k], md)
			continue
		}
		seen[h] = len(uniq)
		uniq = append(uniq, md)
	}
	c.Cov["pairs"] = len(pairs)
	c.Cov["pairs_not_compiled"] = nCompileErr
	c.Cov["modules_distinct"] = len(uniq)
	if len(uniq) < c.Pick(40, 1000) && os.Getenv("VERIF_C02_ONLY") == "" && os.Getenv("VERIF_C02_MAX") == "" {
		c.BrokenF("only %d distinct modules were produced", len(uniq))
		return c.Finish()
	}

	// ---- validation -------------------------------------------------------------------------------------------------------------
	// TLC start-up costs ~5 s of CPU: few, long shards
	shards := min(6, 2*core.Cores())
	if !c.Quick() {
		shards = 2 * core.Cores()
	}
	verdicts, notes, rate, err := c02Validate(c, uniq, shards, "main")
	if err != nil {
		c.BrokenF("trace validation: %v", err)
		return c.Finish()
	}
	c.Cov["events_per_second"] = int(rate)
	events := 0
	fams := map[string]int{}
	for i, md := range uniq {
		events += len(md.Evs)
		nontrivial := false
		for _, e := range md.Evs {
			if e.Op == "OpLabel" {
				nontrivial = true
				break
			}
		}
		key := fmt.Sprintf("%x", sha256.Sum256(md.Bin))
		c.Eval(key, nontrivial)
		fams[strings.SplitN(md.Src.Family, ":", 2)[0]]++
		for range dupOf[i] {
			c.Eval(key, false)
		}
		if i%211 == 0 {
			c.Sample(map[string]any{"source": md.Src.Name, "family": md.Src.Family, "options": md.Opt.Name, "instructions": len(md.Evs) - 2})
		}
	}
	c.Traces = len(uniq)
	c.Cov["events"] = events
	c.Cov["modules_by_family"] = fams
	if len(notes) > 0 {
		var ns []string
		for n := range notes {
			ns = append(ns, n)
		}
		sort.Strings(ns)
		c.Cov["unmodelled_opcodes"] = ns
		for _, n := range ns {
			c.Skip("opcode without rules in the specification: " + n)
		}
	}

	// ---- verdicts -------------------------------------------------------------------------------------------------------------
	// (1) every rejected module is judged again in a fresh TLC process (the verdict must repeat); the same process judges
	//     corrupted copies of one accepted module (self-test of the binding: extractor + trace specification) and, for
	//     verdicts that are known findings, the module with that (rule, opcode) waived - a module is abandoned at its first
	//     broken rule, and a known defect must not hide a different one later in the same module;
	// (2) verdicts are reported; modules whose new verdict is again a known finding go through further waive rounds.
	var badIdx []int
	for i := range verdicts {
		badIdx = append(badIdx, i)
	}
	sort.Ints(badIdx)
	findings := core.LoadFindings("C02")
	describe := func(md *c02Mod, v *c02Verdict) (desc map[string]string, what, detail, ctx string) {
		ctx = c02Context(md, v.L)
		detail = c02Detail(md, v)
		desc = map[string]string{"family": md.Src.Family, "source": md.Src.Name, "opt": md.Opt.Name, "version": fmt.Sprintf("1.%d", md.Opt.Minor),
			"rule": v.Rule, "op": v.Op, "detail": detail, "sig": v.Rule + " | " + v.Op + " | " + detail}
		what = fmt.Sprintf("invalid SPIR-V for %s (%s) with options %s: %s: %s at instruction %d [%s]\n%s", md.Src.Name, md.Src.Family, md.Opt.Name, v.Op, v.Rule, v.L, detail, ctx)
		return
	}
	isKnown := func(md *c02Mod, v *c02Verdict) bool {
		desc, what, _, _ := describe(md, v)
		for _, f := range findings {
			if f.Status == "known" && f.Matches(desc, what) {
				return true
			}
		}
		return false
	}
	report := func(md *c02Mod, v *c02Verdict, dups []*c02Mod) {
		c.Disagree++
		if strings.HasPrefix(v.Rule, "spec:") {
			c.Skip("construct outside the specification: " + v.Rule + " " + v.Op)
			return
		}
		others := []string{}
		for _, d := range dups {
			if len(others) < 8 {
				others = append(others, d.Src.Name+" @ "+d.Opt.Name)
			}
		}
		desc, what, detail, ctx := describe(md, v)
		c.Report(what, desc, map[string]any{"wgsl": md.Src.Text, "options": md.Opt, "rule": v.Rule, "op": v.Op, "instruction": v.L, "detail": detail, "witness": v.W, "context": ctx,
			"same_bytes_for": others, "disassembly": func() string {
				if dm, err := spv.Decode(md.Bin); err == nil {
					return spv.Disasm(dm)
				}
				return ""
			}()})
	}
	var corrupt []*c02Mod
	var corruptRules []string
	bestScore := -1
	for i, md := range uniq {
		if verdicts[i] != nil {
			continue
		}
		has := map[string]bool{}
		for _, e := range md.Evs {
			if e.Op == "OpSelectionMerge" || (len(e.En) == 1 && (e.En[0] == "Block" || e.En[0] == "Offset")) {
				has[e.Op+strings.Join(e.En, "")] = true
			}
		}
		if score := len(has)*100000 - len(md.Evs); score > bestScore {
			bestScore = score
			corrupt, corruptRules = c02Corruptions(md)
		}
	}
	var pending []int // modules whose current verdict is a known finding: to be judged again with it waived
	batch := []*c02Mod{}
	for _, i := range badIdx {
		batch = append(batch, uniq[i])
	}
	batch = append(batch, corrupt...)
	for _, i := range badIdx {
		if !strings.HasPrefix(verdicts[i].Rule, "spec:") && isKnown(uniq[i], verdicts[i]) {
			cp := *uniq[i]
			cp.Waive = append(append([][2]string{}, cp.Waive...), [2]string{verdicts[i].Rule, verdicts[i].Op})
			batch = append(batch, &cp)
			pending = append(pending, i)
		}
	}
	var v2 map[int]*c02Verdict
	if len(batch) > 0 {
		v2, _, _, err = c02Validate(c, batch, min(len(batch), c.Pick(max(1, core.Cores()/2), 2*core.Cores())), "confirm")
		if err != nil {
			c.BrokenF("re-confirmation: %v", err)
			return c.Finish()
		}
		for k, i := range badIdx {
			if v2[k] == nil || v2[k].Rule != verdicts[i].Rule || v2[k].L != verdicts[i].L {
				c.BrokenF("verdict on %s (%s) not reproduced in a fresh process: %v vs %v", uniq[i].Src.Name, uniq[i].Opt.Name, verdicts[i], v2[k])
			}
		}
		for k, md := range corrupt {
			v := v2[len(badIdx)+k]
			if v == nil || !strings.Contains(v.Rule, corruptRules[k]) {
				c.BrokenF("self-test: corrupted module (%s) was not rejected by the expected rule (%q): %v", md.Src.Name, corruptRules[k], v)
			}
		}
		c.Cov["selftest_corrupted_binaries_rejected"] = len(corrupt)
	}
	if len(corrupt) < 4 && os.Getenv("VERIF_C02_MAX") == "" {
		c.BrokenF("self-test: only %d corrupted binaries could be derived", len(corrupt))
	}
	for _, i := range badIdx {
		report(uniq[i], verdicts[i], dupOf[i])
	}
	// the waived copies of the confirmation batch are round 1
	waived := 0
	var next []int
	for k, i := range pending {
		uniq[i].Waive = append(uniq[i].Waive, [2]string{verdicts[i].Rule, verdicts[i].Op})
		waived++
		if v := v2[len(badIdx)+len(corrupt)+k]; v != nil {
			verdicts[i] = v
			next = append(next, i)
		}
	}
	pending = next
	for round := 2; round <= 6 && len(pending) > 0; round++ {
		var sub []*c02Mod
		var subIdx []int
		for _, i := range pending {
			report(uniq[i], verdicts[i], dupOf[i])
			if !strings.HasPrefix(verdicts[i].Rule, "spec:") && isKnown(uniq[i], verdicts[i]) {
				uniq[i].Waive = append(uniq[i].Waive, [2]string{verdicts[i].Rule, verdicts[i].Op})
				sub = append(sub, uniq[i])
				subIdx = append(subIdx, i)
			}
		}
		pending = nil
		if len(sub) == 0 {
			break
		}
		waived += len(sub)
		v3, _, _, err := c02Validate(c, sub, min(len(sub), c.Pick(max(1, core.Cores()/2), core.Cores())), fmt.Sprintf("waive%d", round))
		if err != nil {
			c.BrokenF("validation with waived known findings: %v", err)
			return c.Finish()
		}
		for k, i := range subIdx {
			if v3[k] != nil {
				verdicts[i] = v3[k]
				pending = append(pending, i)
			}
		}
	}
	for _, i := range pending { // verdicts of the last round
		report(uniq[i], verdicts[i], dupOf[i])
	}
	c.Cov["revalidations_with_known_findings_waived"] = waived
	if sk := c.Skips(); sk*3 > len(uniq) && len(uniq) > 0 {
		c.BrokenF("%d skips for %d modules", sk, len(uniq))
	}
	return c.Finish()
}

// c02Replay re-validates the single case of a replay file ({"case":{"wgsl":..,"options":{..}}}) and prints the verdict.
func c02Replay(c *core.Ctx, file string) int {
	b, err := os.ReadFile(file)
	if err != nil {
		c.BrokenF("replay: %v", err)
		return c.Finish()
	}
	var rp struct {
		Case struct {
			Wgsl    string `json:"wgsl"`
			Options c02Opt `json:"options"`
		} `json:"case"`
	}
	if err := json.Unmarshal(b, &rp); err != nil || rp.Case.Wgsl == "" {
		c.BrokenF("replay: bad file: %v", err)
		return c.Finish()
	}
	src := &c02Src{Family: "replay", Name: file, Text: rp.Case.Wgsl}
	m, _, err := drive.Front(src.Text)
	if err != nil {
		c.BrokenF("replay: front end: %v", err)
		return c.Finish()
	}
	src.m = m
	if rp.Case.Options.Name == "" {
		rp.Case.Options.Name = fmt.Sprintf("v1.%d/replay", rp.Case.Options.Minor)
	}
	bin, err := c02Compile(src, rp.Case.Options)
	if err != nil {
		c.BrokenF("replay: backend: %v", err)
		return c.Finish()
	}
	md := &c02Mod{Src: src, Opt: rp.Case.Options, Bin: bin, Evs: spvev.Events(bin)}
	vs, notes, _, err := c02Validate(c, []*c02Mod{md}, 1, "replay")
	if err != nil {
		c.BrokenF("replay: %v", err)
		return c.Finish()
	}
	c.Eval("replay", true)
	c.Traces = 1
	for n := range notes {
		fmt.Println("unmodelled:", n)
	}
	if v := vs[0]; v != nil {
		detail := c02Detail(md, v)
		c.Report(fmt.Sprintf("invalid SPIR-V (%s): %s: %s at instruction %d [%s]\n%s", md.Opt.Name, v.Op, v.Rule, v.L, detail, c02Context(md, v.L)),
			map[string]string{"family": "replay", "source": file, "opt": md.Opt.Name, "version": fmt.Sprintf("1.%d", md.Opt.Minor), "rule": v.Rule, "op": v.Op, "detail": detail},
			map[string]any{"wgsl": src.Text, "options": md.Opt})
	} else if os.Getenv("VERIF_C02_DISASM") != "" {
		if dm, err := spv.Decode(bin); err == nil {
			fmt.Println(spv.Disasm(dm))
		}
	}
	return c.Finish()
}
