package checks

import (
	"bytes"
	"encoding/json"
	"fmt"
	"math/rand"
	"os"
	"sort"
	"strings"
	"sync"
	"time"

	"github.com/gogpu/naga/ir"
	"github.com/gogpu/naga/wgsl"

	"verif/harness/core"
	"verif/harness/drive"
	"verif/harness/gen"
	"verif/harness/irjson"
	"verif/harness/irx"
	"verif/harness/spv"
	"verif/harness/wg"
	"verif/harness/xrt"
)

func init() { Registry["C13"] = runC13 }

// c13Art is one artefact of the trace: a root module and everything reached from it by real passes.
type c13Art struct {
	Name   string
	Family string
	Tags   string
	Src    string
	Sem    *SemCase // generated programs: carries what WgslSem.tla prescribes
	Seqs   [][]string
	Lower  bool // root = the module as it is before the compaction stages of lowering; passes = those stages
	// self-test artefacts: the faults PassTrace seeds into every non-root version, and the rule that must report them
	Faults     []string
	ExpectRule string
	// replay: the recorded buffers and input rows instead of generated ones
	FixedBufs []c13Buf
	FixedRows [][][]int32

	// filled by build
	ep       string
	bufs     []c13Buf
	rows     [][][]int32
	versions []*c13Version
	passes   []*c13PassEv
	skip     string
	nondet   int
}

type c13Version struct {
	fp       string
	json     irjson.N
	text     string
	obs      []map[string]any // per row {ok, out} from the SPIR-V executor, nil if not observed
	features []string
	seq      []string // one sequence that reaches it
}

type c13PassEv struct {
	Name         string
	From, To     int
	Dump1, Dump2 string
	IdemDiff     string // what differs between p(m) and p(p(m)), when something does
	NewVal       []string
	Err          string
	Changed      bool
}

func c13ValidateMsgs(m *ir.Module) (out map[string]bool) {
	out = map[string]bool{}
	if c13ExprCycle(m) {
		out["an expression refers to itself through its operands, or to a handle outside the arena (ir.Validate not run: it recurses without a guard)"] = true
		return out
	}
	defer func() {
		if r := recover(); r != nil {
			out["panic in ir.Validate: "+trimReason(fmt.Sprint(r))] = true
		}
	}()
	errs, err := ir.Validate(m)
	if err != nil {
		out["error: "+err.Error()] = true
	}
	for _, e := range errs {
		out[trimReason(e.Message)] = true
	}
	return out
}

func c13ComputeEntry(m *ir.Module) string {
	for _, e := range m.EntryPoints {
		if e.Stage == ir.StageCompute {
			return e.Name
		}
	}
	return ""
}

// c13UsesDxilOnlyKinds reports whether the module holds ExprAlias / ExprPhi (only IrSem and the DXIL emitter read those).
func c13UsesDxilOnlyKinds(m *ir.Module) bool {
	chk := func(f *ir.Function) bool {
		for _, e := range f.Expressions {
			switch e.Kind.(type) {
			case ir.ExprAlias, ir.ExprPhi:
				return true
			}
		}
		return false
	}
	for i := range m.Functions {
		if chk(&m.Functions[i]) {
			return true
		}
	}
	for i := range m.EntryPoints {
		if chk(&m.EntryPoints[i].Function) {
			return true
		}
	}
	return false
}

// observe runs GenerateSPIRV(m) on the SPIR-V executor for every row (the second observer).
func (a *c13Art) observe(m *ir.Module) []map[string]any {
	if c13UsesDxilOnlyKinds(m) || c13ExprCycle(m) {
		return nil
	}
	art, err := drive.Compile("spv", "default", m, a.ep)
	if err != nil {
		return nil
	}
	var out []map[string]any
	for _, row := range a.rows {
		in := xrt.Input{Entry: a.ep, Buffers: map[string][]byte{}, NumWorkgroups: [3]uint32{1, 1, 1}, MaxSteps: 400000}
		for bi, b := range a.bufs {
			in.Buffers[c13BufKey(b)] = words2bytes(row[bi])
		}
		o := spv.Run(art, in)
		if !o.OK() {
			out = append(out, map[string]any{"ok": 0, "out": [][]int32{}})
			continue
		}
		res := make([][]int32, len(a.bufs))
		for bi, b := range a.bufs {
			res[bi] = bytes2words(in.Buffers[c13BufKey(b)])
		}
		out = append(out, map[string]any{"ok": 1, "out": res})
	}
	return out
}

func (a *c13Art) addVersion(m *ir.Module, seq []string, observe bool) int {
	fp := irx.Fingerprint(m)
	for i, v := range a.versions {
		if v.fp == fp {
			return i
		}
	}
	v := &c13Version{fp: fp, json: irjson.Export(m), text: irjson.Text(m), seq: append([]string{}, seq...), features: c13IrFeatures(m)}
	if observe {
		v.obs = a.observe(m)
	}
	a.versions = append(a.versions, v)
	return len(a.versions) - 1
}

// prepare fills ep / bufs / rows from the lowered module and the generated case.
func (a *c13Art) prepare(m *ir.Module, rng *rand.Rand) bool {
	a.ep = c13ComputeEntry(m)
	if a.ep == "" {
		a.skip = "no compute entry point"
		return false
	}
	if a.Sem != nil {
		globals := wg.L(a.Sem.Prog, "globals")
		var idx []int
		for gi, g := range globals {
			if sp := wg.S(g, "space"); sp == "storage" || sp == "uniform" {
				a.bufs = append(a.bufs, c13Buf{Group: wg.I(g, "group"), Binding: wg.I(g, "binding"), Name: wg.S(g, "name")})
				idx = append(idx, gi)
			}
		}
		for _, row := range a.Sem.Inputs {
			r := make([][]int32, len(idx))
			for bi, gi := range idx {
				r[bi] = row[gi]
			}
			a.rows = append(a.rows, r)
		}
		return true
	}
	if a.FixedBufs != nil {
		a.bufs, a.rows = a.FixedBufs, a.FixedRows
		return true
	}
	bufs, ok := c13ModuleBuffers(m, 4)
	if !ok {
		a.skip = "corpus module whose buffers the machinery cannot feed (shared or missing bindings, oversized)"
		return false
	}
	a.bufs = bufs
	for r := 0; r < 3; r++ {
		row := make([][]int32, len(bufs))
		for bi, b := range bufs {
			row[bi] = make([]int32, b.Words)
			for i := range row[bi] {
				switch r {
				case 0:
					row[bi][i] = int32(i%7) + 1
				default:
					row[bi][i] = int32(rng.Intn(9)) - 2
				}
			}
		}
		a.rows = append(a.rows, row)
	}
	return true
}

// expRows maps what WgslSem prescribes (per program global) to the buffer order of the trace.
func (a *c13Art) expRows() []map[string]any {
	if a.Sem == nil || len(a.Sem.Expect) != len(a.Sem.Inputs) {
		return []map[string]any{}
	}
	globals := wg.L(a.Sem.Prog, "globals")
	var idx []int
	for gi, g := range globals {
		if sp := wg.S(g, "space"); sp == "storage" || sp == "uniform" {
			idx = append(idx, gi)
		}
	}
	var out []map[string]any
	for _, e := range a.Sem.Expect {
		if !e.OK {
			out = append(out, map[string]any{"ok": 0, "out": [][]int32{}, "mask": [][]int32{}})
			continue
		}
		o := make([][]int32, len(idx))
		mk := make([][]int32, len(idx))
		for bi, gi := range idx {
			o[bi], mk[bi] = e.Out[gi], e.Mask[gi]
		}
		out = append(out, map[string]any{"ok": 1, "out": o, "mask": mk})
	}
	return out
}

func c13SetMinus(a, b map[string]bool) []string {
	out := []string{}
	for k := range a {
		if !b[k] {
			out = append(out, k)
		}
	}
	sort.Strings(out)
	return out
}

// build applies the real passes along every sequence (each from a freshly lowered module) and records versions and
// pass applications.
func (a *c13Art) build(rng *rand.Rand) {
	m0, _, err := drive.Front(a.Src)
	if err != nil {
		a.skip = "front end rejected the program (judged by C08)"
		return
	}
	if !a.prepare(m0, rng) {
		return
	}
	a.addVersion(m0, nil, true)
	seen := map[string]bool{}
	for _, seq := range a.Seqs {
		m, _, err := drive.Front(a.Src)
		if err != nil {
			continue
		}
		cur := 0
		for k, p := range seq {
			before := c13ValidateMsgs(m)
			fpBefore := irx.Fingerprint(m)
			m2, perr := ApplyPass(m, p)
			ev := &c13PassEv{Name: p, From: cur, To: cur, NewVal: []string{}}
			if perr != nil {
				ev.Err = trimReason(perr.Error())
				a.passes = append(a.passes, ev)
				break
			}
			m = m2
			to := a.addVersion(m, seq[:k+1], true)
			ev.To = to
			ev.Dump1 = a.versions[to].fp
			ev.Changed = a.versions[to].fp != fpBefore
			ev.NewVal = c13SetMinus(c13ValidateMsgs(m), before)
			// idempotence: the same prefix once more from scratch (p(m) again), then the pass a second time on that module
			ev.Dump2 = ev.Dump1
			if mm, _, err := drive.Front(a.Src); err == nil {
				ok := true
				for _, q := range seq[:k+1] {
					if mm, err = ApplyPass(mm, q); err != nil {
						ok = false
						break
					}
				}
				if ok {
					once := irx.Fingerprint(mm)
					onceJSON := irjson.Export(mm)
					if once != ev.Dump1 {
						a.nondet++ // lowering or the pass itself is not deterministic: judged by C12, no idempotence verdict here
					} else if mm2, err := ApplyPass(mm, p); err == nil {
						ev.Dump2 = irx.Fingerprint(mm2)
						if ev.Dump2 != ev.Dump1 {
							ev.IdemDiff = c13IdemDiff(onceJSON, irjson.Export(mm2))
						}
					} else {
						ev.Dump2 = "error: " + trimReason(err.Error())
					}
				}
			}
			key := fmt.Sprintf("%s/%d/%d", p, cur, to)
			if !seen[key] {
				seen[key] = true
				a.passes = append(a.passes, ev)
			}
			cur = to
		}
	}
}

// c13LowerMu serialises lowering with the stage hook installed (the hook is a package variable of the lowerer).
var c13LowerMu sync.Mutex

// buildLower observes the compaction stages inside lowering: the root is the module after per-declaration lowering.
func (a *c13Art) buildLower(rng *rand.Rand) {
	c13LowerMu.Lock()
	type snap struct {
		stage string
		fp    string
		json  irjson.N
		text  string
		val   map[string]bool
		feat  []string
	}
	var snaps []snap
	wgsl.VerifSetLowerStageHook(func(stage string, m *ir.Module) {
		snaps = append(snaps, snap{stage, irx.Fingerprint(m), irjson.Export(m), irjson.Text(m), c13ValidateMsgs(m), c13IrFeatures(m)})
	})
	m0, _, err := drive.Front(a.Src)
	wgsl.VerifSetLowerStageHook(nil)
	c13LowerMu.Unlock()
	if err != nil {
		a.skip = "front end rejected the program (judged by C08)"
		return
	}
	if !a.prepare(m0, rng) {
		return
	}
	cur := -1
	var prev snap
	var seq []string
	for _, s := range snaps {
		if s.stage == "buildGlobalExpressions" {
			break
		}
		idx := -1
		for i, v := range a.versions {
			if v.fp == s.fp {
				idx = i
			}
		}
		if s.stage != "decls" {
			seq = append(seq, "lower:"+s.stage)
		}
		if idx < 0 {
			a.versions = append(a.versions, &c13Version{fp: s.fp, json: s.json, text: s.text, features: s.feat, seq: append([]string{}, seq...)})
			idx = len(a.versions) - 1
		}
		if s.stage != "decls" {
			a.passes = append(a.passes, &c13PassEv{Name: "lower:" + s.stage, From: cur, To: idx, Dump1: s.fp, Dump2: s.fp,
				NewVal: c13SetMinus(s.val, prev.val), Changed: s.fp != prev.fp})
		}
		cur, prev = idx, s
	}
}

// ---- trace ----------------------------------------------------------------------------------------------------------

type c13Line struct {
	art *c13Art
}

// events renders the artefact as trace lines.
func (a *c13Art) events() [][]byte {
	var out [][]byte
	add := func(v map[string]any) {
		b, err := json.Marshal(v)
		if err != nil {
			panic(err)
		}
		out = append(out, b)
	}
	flt := a.Faults
	if flt == nil {
		flt = []string{}
	}
	add(map[string]any{"ev": "reset", "art": a.Name, "faults": flt})
	exp := a.expRows()
	for vi, v := range a.versions {
		add(map[string]any{"ev": "module", "v": vi, "m": v.json})
		obs := []map[string]any{}
		if v.obs != nil {
			obs = v.obs
		}
		e := []map[string]any{}
		if vi == 0 && !a.Lower {
			e = exp
		}
		add(map[string]any{"ev": "run", "v": vi, "ep": a.ep, "bufs": c13BufPairs(a.bufs), "rows": a.rows, "exp": e, "obs": obs})
	}
	for _, p := range a.passes {
		add(map[string]any{"ev": "pass", "name": p.Name, "from": p.From, "to": p.To, "dump1": p.Dump1, "dump2": p.Dump2, "idem": p.IdemDiff, "newval": p.NewVal, "err": p.Err})
	}
	return out
}

type c13Bad struct {
	L      int       `json:"l"`
	Rule   string    `json:"rule"`
	V      int       `json:"v"`
	From   int       `json:"from"`
	Name   string    `json:"name"`
	Row    int       `json:"row"`
	Detail string    `json:"detail"`
	Want   [][]int32 `json:"want"`
	Got    [][]int32 `json:"got"`
}

type c13Verdict struct {
	Consumed int      `json:"consumed"`
	Bad      []c13Bad `json:"bad"`
	NRun     int      `json:"nrun"`
	NDecided int      `json:"ndecided"`
}

// c13RunTrace validates the artefacts with TLC (one process); returns the verdict and the artefact of every line.
func c13RunTrace(c *core.Ctx, arts []*c13Art, faults string, maxLen int) (*c13Verdict, []*c13Art, error) {
	var buf bytes.Buffer
	var owner []*c13Art
	for _, a := range arts {
		for _, l := range a.events() {
			buf.Write(l)
			buf.WriteByte('\n')
			owner = append(owner, a)
		}
	}
	cfg := fmt.Sprintf("SPECIFICATION TSpec\nCONSTANTS MaxLen = %d\nFaults = %s\nCHECK_DEADLOCK FALSE\nPOSTCONDITION Consumed\n", maxLen, faults)
	r, err := c.RunTLC(core.TLCOpts{Spec: "PassTrace", CfgText: cfg, Files: map[string][]byte{"trace.ndjson": buf.Bytes()}, Workers: 1, HeapGB: 3, Timeout: 40 * time.Minute})
	if err != nil {
		return nil, owner, err
	}
	if !r.OK || len(r.Printed) == 0 {
		return nil, owner, fmt.Errorf("PassTrace: %s %s\n%s", r.Violated, r.Err, r.Tail(30))
	}
	c.AddTLC(r)
	var v c13Verdict
	if err := json.Unmarshal([]byte(r.Printed[len(r.Printed)-1]), &v); err != nil {
		return nil, owner, fmt.Errorf("bad verdict line: %v", err)
	}
	if v.Consumed != len(owner) {
		return nil, owner, fmt.Errorf("trace not fully consumed: %d of %d lines", v.Consumed, len(owner))
	}
	return &v, owner, nil
}

// ---- sequences from Passes.tla ------------------------------------------------------------------------------------

func c13Sequences(c *core.Ctx, maxLen int) (irSeqs [][]string, dxilSeqs [][]string, err error) {
	cfg := fmt.Sprintf("SPECIFICATION PSpec\nCONSTANT MaxLen = %d\nINVARIANTS EmitSeq SeqOK\nCHECK_DEADLOCK FALSE\n", maxLen)
	r, err := c.RunTLC(core.TLCOpts{Spec: "Passes", CfgText: cfg, Timeout: 5 * time.Minute, HeapGB: 2})
	if err != nil {
		return nil, nil, err
	}
	if !r.OK {
		return nil, nil, fmt.Errorf("Passes: %s %s\n%s", r.Violated, r.Err, r.Tail(20))
	}
	c.AddTLC(r)
	for _, l := range r.Printed {
		var rec struct {
			Seq []string `json:"seq"`
		}
		if err := json.Unmarshal([]byte(l), &rec); err != nil {
			return nil, nil, err
		}
		isDxil := false
		for _, d := range c13DxilPassNames {
			if rec.Seq[0] == d {
				isDxil = true
			}
		}
		if strings.HasPrefix(rec.Seq[0], "lower:") {
			continue // observed through the lowering stage hook
		}
		if isDxil {
			dxilSeqs = append(dxilSeqs, rec.Seq)
		} else {
			irSeqs = append(irSeqs, rec.Seq)
		}
	}
	less := func(s [][]string) {
		sort.Slice(s, func(i, j int) bool { return strings.Join(s[i], ",") < strings.Join(s[j], ",") })
	}
	less(irSeqs)
	less(dxilSeqs)
	return
}

// c13Decor is appended to generated programs: declarations nothing uses, so that CompactUnused / CompactConstants /
// CompactTypes have something to remove.  It cannot change what the program computes.
const c13Decor = `
alias C13F3 = vec3<f32>;
alias C13I = i32;
struct C13Unused { p: C13F3, q: array<u32, 5>, }
const C13_IC: vec2f = vec2(1, 1) + vec2(1.0, 1.0);
const C13_T = true;
const C13_TYPED: u32 = 7u;
var<private> c13_unused_pv: C13Unused;
fn c13_unused_helper(a: vec4<u32>, b: f32) -> u32 {
  var acc = a.x + C13_TYPED;
  let z = C13F3(vec2<f32>(0.0), b);
  let h = vec2<C13I>();
  for (var i = 0u; i < 2u; i++) { acc += a[i] * 3u; }
  if b > C13_IC.x && C13_T { return acc; }
  return acc + c13_unused_pv.q[1] + u32(h.x) + u32(z.x);
}
`

// ---- the check ------------------------------------------------------------------------------------------------------

func runC13(tier, replay string) int {
	c := core.NewCtx("C13", tier, "translation_validation")
	c.Cov["rule"] = "Artefact = one root module (a generated program of the control-flow / pass families or a corpus compute shader, lowered by the real front end; also the module as it is before the compaction stages inside lowering) with the versions reached from it by real passes along sequences that TLC enumerated from spec/Passes.tla (length <= 3 over the exported ir passes, every prefix of the DXIL pre-emission pipeline, the in-lowering compaction pipeline). Every version is transcribed to JSON; TLC (spec/PassTrace.tla) runs spec/IrSem.tla on every version and input row and evaluates the contract of Passes.tla on every recorded application: Preserves (same final buffers on every decided row), StaysWellFormed (typing / handle ranges in TLA+, nothing new from ir.Validate), Idempotent (canonical dump of p(p(m)) = p(m)); for generated programs IrSem on the root is compared with what WgslSem.tla prescribes, and for versions SPIR-V can still express the SPIR-V executor on GenerateSPIRV(version) is a second observer. A case = (artefact, pass application); non-trivial if the pass changed the module; distinct by (program, sequence prefix)."
	c.Assumef("IR semantics as transcribed in spec/IrSem.tla (Emit discipline, lazily evaluated un-emitted expressions, predecessor-keyed phi); value layer Word32.tla / F32.tla")
	c.Assumef("one invocation (local id 0, workgroup 0) of the first compute entry point; barriers are no-ops")
	if replay != "" {
		return c13Replay(c, replay)
	}
	rng := rand.New(rand.NewSource(c.Seed))
	t0 := time.Now()
	phase := func(name string) {
		if os.Getenv("VERIF_C13_TIMES") != "" {
			fmt.Fprintf(os.Stderr, "c13: %-28s at %6.1fs\n", name, time.Since(t0).Seconds())
		}
	}

	// 0. self-test of the specification: four copies of a fixed artefact (no fault, three seeded faults) ride along in the trace
	selfArts, err := c13SelfArts()
	if err != nil {
		c.BrokenF("self-test of PassTrace.tla: %v", err)
		return c.Finish()
	}

	// 1. pass sequences: enumerated by TLC from Passes.tla
	var irSeqs, dxilSeqs [][]string
	irSeqs, dxilSeqs, err = c13Sequences(c, 3)
	if err != nil {
		c.BrokenF("enumeration of pass sequences: %v", err)
		return c.Finish()
	}
	c.Cov["sequences_enumerated"] = len(irSeqs) + len(dxilSeqs)
	phase("sequences enumerated")

	// 2. programs
	nPass := c.Pick(44, 420)
	nCtl := c.Pick(14, 120)
	nTab := c.Pick(10, 60)
	nCorpus := c.Pick(12, 60)
	seqPer := c.Pick(2, 7)     // random sequences per module, plus the DXIL pipeline (all its prefixes)
	semShare := c.Pick(2, 4)   // every semShare-th program of the pass family is also evaluated by WgslSem (three-way)
	lowerShare := c.Pick(3, 2) // every lowerShare-th program is also observed through the stages inside lowering
	nRows := 4
	if sc := os.Getenv("VERIF_C13_SCALE"); sc != "" { // development aid: percentage of the tier's volume
		var pct int
		fmt.Sscan(sc, &pct)
		if pct > 0 {
			nPass, nCtl, nTab, nCorpus = max(nPass*pct/100, 1), nCtl*pct/100, nTab*pct/100, nCorpus*pct/100
			c.Cov["scaled_to_percent"] = pct
		}
	}
	onlyRepro := os.Getenv("VERIF_C13_ONLY_REPRO") != "" // development aid: just the reproducers of the known findings
	if onlyRepro {
		nPass, nCtl, nTab, nCorpus = 0, 0, 0, 0
		c.Cov["scaled_to_percent"] = 0
	}
	var cases []*SemCase
	var noSem []*SemCase
	for i, g := range gen.PassProgs(rng, nPass) {
		if len(g.Inputs) > nRows {
			g.Inputs = g.Inputs[:nRows]
		}
		cs := &SemCase{Family: g.Family, Desc: g.Desc, Prog: g.Prog, Inputs: g.Inputs}
		if i%semShare == 0 {
			cases = append(cases, cs)
		} else {
			noSem = append(noSem, cs)
		}
	}
	tabs := semanticFamilies(c)
	rng.Shuffle(len(tabs), func(i, j int) { tabs[i], tabs[j] = tabs[j], tabs[i] })
	if len(tabs) > nTab {
		tabs = tabs[:nTab]
	}
	for _, t := range tabs {
		if len(t.Inputs) > nRows {
			t.Inputs = t.Inputs[:nRows]
		}
	}
	cases = append(cases, tabs...)
	// WgslSem on the generated programs and the control-flow family (CtlGen.tla) are independent TLC jobs: side by side
	// when there are cores for both
	var ctl []*SemCase
	var ctlErr error
	ctlJob := func() {
		if onlyRepro {
		} else if c.Quick() {
			ctl, ctlErr = ctlCases(c, 3, 16, []int{int(c.Seed) % 16})
		} else {
			ctl, ctlErr = ctlCases(c, 3, 16, []int{int(c.Seed) % 16, int(c.Seed+5) % 16, int(c.Seed+11) % 16})
		}
	}
	semShards := min(c.Pick(4, 12), core.Cores())
	var ctlDone sync.WaitGroup
	if core.Cores() >= 8 {
		ctlDone.Add(1)
		go func() { defer ctlDone.Done(); ctlJob() }()
	}
	if err := EvalSpec(c, cases, semShards); err != nil {
		ctlDone.Wait()
		c.BrokenF("WgslSem evaluation failed: %v", err)
		return c.Finish()
	}
	phase("WgslSem evaluated")
	if core.Cores() >= 8 {
		ctlDone.Wait()
	} else {
		ctlJob()
	}
	if ctlErr != nil {
		c.BrokenF("control-flow family: %v", ctlErr)
		return c.Finish()
	}
	phase("ctl family generated")
	rng.Shuffle(len(ctl), func(i, j int) { ctl[i], ctl[j] = ctl[j], ctl[i] })
	if len(ctl) > nCtl {
		ctl = ctl[:nCtl]
	}
	for _, t := range ctl {
		if len(t.Inputs) > nRows {
			// rows 0, 5, 10, 15: different branch directions and switch selectors
			var in [][][]int32
			var ex []SemRow
			for r := 0; r < len(t.Inputs) && len(in) < nRows; r += 5 {
				in, ex = append(in, t.Inputs[r]), append(ex, t.Expect[r])
			}
			t.Inputs, t.Expect = in, ex
		}
	}
	cases = append(cases, ctl...)
	cases = append(cases, noSem...) // these carry no prescription of WgslSem: IrSem before/after and the SPIR-V observer judge them

	// sequences are drawn from what TLC enumerated; half of the draws are restricted to sequences in which a pass that
	// creates garbage (CompactUnused, InlineAll, InlineSome) comes first, so that the compaction passes have work to do
	var garbageFirst [][]string
	for _, sq := range irSeqs {
		if len(sq) >= 2 && (sq[0] == "CompactUnused" || strings.HasPrefix(sq[0], "Inline")) && !strings.HasPrefix(sq[1], "Inline") && sq[1] != "CompactUnused" {
			garbageFirst = append(garbageFirst, sq)
		}
	}
	pick := func(n int) [][]string {
		var out [][]string
		for i := 0; i < n; i++ {
			if i%2 == 0 && len(garbageFirst) > 0 {
				out = append(out, garbageFirst[rng.Intn(len(garbageFirst))])
			} else {
				out = append(out, irSeqs[rng.Intn(len(irSeqs))])
			}
		}
		return out
	}
	var arts []*c13Art
	for i, cs := range cases {
		src := wg.Print(cs.Prog) + c13Decor
		name := fmt.Sprintf("%s-%d", cs.Family, i)
		tags := cs.Desc
		seqs := pick(seqPer)
		seqs = append(seqs, dxilSeqs[len(dxilSeqs)-1]) // the whole DXIL pipeline records every prefix
		arts = append(arts, &c13Art{Name: name, Family: cs.Family, Tags: tags, Src: src, Sem: cs, Seqs: seqs})
		if i%lowerShare == 0 {
			arts = append(arts, &c13Art{Name: name + "-lower", Family: cs.Family, Tags: tags, Src: src, Sem: cs, Lower: true})
		}
	}
	repro, err := c13ReproArts()
	if err != nil {
		c.BrokenF("reproducers: %v", err)
		return c.Finish()
	}
	arts = append(arts, repro...)
	names, texts := corpusSources()
	perm := rng.Perm(len(names))
	nc := 0
	// the corpus shaders in which the rarely acting stages have something to do come first
	always := map[string]bool{"const-exprs.wgsl": true, "conversions.wgsl": true, "type-alias.wgsl": true}
	sort.SliceStable(perm, func(a, b int) bool { return always[names[perm[a]]] && !always[names[perm[b]]] })
	for _, i := range perm {
		if nc >= nCorpus && !(always[names[i]] && !onlyRepro) {
			break
		}
		if !strings.Contains(texts[i], "@compute") {
			continue
		}
		nc++
		seqs := pick(seqPer)
		seqs = append(seqs, dxilSeqs[len(dxilSeqs)-1])
		arts = append(arts, &c13Art{Name: "corpus-" + names[i], Family: "corpus", Tags: names[i], Src: texts[i], Seqs: seqs})
		if nc%2 == 0 || always[names[i]] {
			arts = append(arts, &c13Art{Name: "corpus-" + names[i] + "-lower", Family: "corpus", Tags: names[i], Src: texts[i], Lower: true})
		}
	}

	// 3. apply the real passes (in-lowering observations first: they need the stage hook, one at a time)
	for _, a := range arts {
		if a.Lower {
			a.buildLower(rand.New(rand.NewSource(c.Seed)))
		}
	}
	core.ParMap(len(arts), core.Cores(), func(i int) {
		if !arts[i].Lower {
			arts[i].build(rand.New(rand.NewSource(c.Seed + int64(i))))
		}
	})
	phase("passes applied")
	applied, changed := map[string]int{}, map[string]int{}
	live := append([]*c13Art{}, selfArts...)
	pairs := 0
	for _, a := range arts {
		if a.skip != "" {
			c.Skip(a.skip)
			continue
		}
		live = append(live, a)
		c.Programs++
		for i := 0; i < a.nondet; i++ {
			c.Skip("idempotence not judged: two runs of lowering + passes gave different modules (determinism is C12's subject)")
		}
		for _, p := range a.passes {
			applied[p.Name]++
			if p.Changed {
				changed[p.Name]++
			}
			c.Eval(a.Name+"/"+strings.Join(a.versions[p.To].seq, ",")+"/"+p.Name+fmt.Sprint(p.From), p.Changed)
		}
		if a.Lower {
			pairs++
		} else {
			pairs += len(a.Seqs)
		}
	}
	c.Cov["module_sequence_pairs"] = pairs
	c.Cov["pass_applications"] = applied
	c.Cov["pass_applications_that_changed_the_module"] = changed

	// 4. validate with TLC, sharded
	shards := core.Cores()
	if shards > len(live) {
		shards = len(live)
	}
	// balance by trace size
	sort.SliceStable(live, func(i, j int) bool { return len(live[i].versions) > len(live[j].versions) })
	groups := make([][]*c13Art, shards)
	for i, a := range live {
		groups[i%shards] = append(groups[i%shards], a)
	}
	var mu sync.Mutex
	nrun, ndec := 0, 0
	selfGot := map[*c13Art][]c13Bad{}
	core.ParMap(shards, shards, func(s int) {
		v, owner, err := c13RunTrace(c, groups[s], "{}", 3)
		if err != nil {
			c.BrokenF("trace validation (shard %d): %v", s, err)
			return
		}
		mu.Lock()
		nrun += v.NRun
		ndec += v.NDecided
		c.Traces += len(groups[s])
		mu.Unlock()
		for _, b := range v.Bad {
			if b.L < 1 || b.L > len(owner) {
				c.BrokenF("verdict refers to line %d of %d", b.L, len(owner))
				continue
			}
			if o := owner[b.L-1]; o.Family == "selftest" {
				mu.Lock()
				selfGot[o] = append(selfGot[o], b)
				mu.Unlock()
			} else {
				c13Report(c, o, b)
			}
		}
	})
	if len(c.Broken) == 0 {
		if err := c13SelfVerdict(live, selfGot); err != nil {
			c.BrokenF("self-test of PassTrace.tla: %v", err)
		} else {
			c.Cov["selftest_faults_detected"] = 5
		}
	}
	phase("traces validated")
	c.Cov["rows_run"] = nrun
	c.Cov["rows_decided"] = ndec
	if nrun > 0 && ndec*3 < nrun {
		c.BrokenF("IrSem decided only %d of %d runs", ndec, nrun)
	}

	// 5. vacuity: every pass must have changed a healthy share of the modules it was applied to; the stages that rarely have
	// anything to do even where naga itself applies them (CompactConstants, ReorderTypes, DeduplicateEmits change 3, 2 and 1
	// of the 172 corpus modules during lowering) must have changed a few modules in one of the two contexts
	rare := map[string]bool{"CompactConstants": true, "ReorderTypes": true, "DeduplicateEmits": true}
	if _, scaled := c.Cov["scaled_to_percent"]; !scaled {
		for _, p := range append(append([]string{}, c13IrPassNames...), c13DxilPassNames...) {
			ch, ap := changed[p]+changed["lower:"+p], applied[p]+applied["lower:"+p]
			switch {
			case ap == 0:
				c.BrokenF("pass %s was never applied", p)
			case rare[p] && ch < 3:
				c.BrokenF("pass %s changed only %d of the %d modules it was applied to (vacuous)", p, ch, ap)
			case !rare[p] && (ch*10 < ap || ch < 3):
				c.BrokenF("pass %s changed only %d of the %d modules it was applied to (vacuous)", p, ch, ap)
			}
		}
	}
	if sk := c.Skips(); sk*3 > len(arts) {
		c.BrokenF("%d of %d artefacts skipped", sk, len(arts))
	}
	return c.Finish()
}

// c13Report turns one entry of `bad` into a report (or a skip when it is about the machinery's reach).
func c13Report(c *core.Ctx, a *c13Art, b c13Bad) {
	rule := b.Rule
	short := rule
	if i := strings.Index(rule, ":"); i > 0 {
		short = rule[:i]
	}
	switch short {
	case "root-ill-formed":
		if a.Lower {
			return // before buildGlobalExpressions constant initialisers are not in place yet: expected, and not new in later versions
		}
		c.Skip("root module is not well-formed under IrSem's typing: " + trimReason(b.Detail))
		return
	case "harness":
		c.BrokenF("%s: %s (%s)", a.Name, rule, b.Name)
		return
	case "observer-root":
		// IrSem (which agrees with WgslSem there, or the three-way rule reports) and the SPIR-V executor disagree on the root
		// module already: a matter of the SPIR-V backend or of the executor (C01), not of a pass
		c.Skip("SPIR-V observer differs from IrSem on the root module already (C01's subject): " + a.Family + " " + a.Tags)
		return
	}
	var seq, feat []string
	text := ""
	fromText := ""
	if b.V >= 0 && b.V < len(a.versions) {
		seq = a.versions[b.V].seq
		text = a.versions[b.V].text
	}
	if b.From >= 0 && b.From < len(a.versions) {
		feat = a.versions[b.From].features
		fromText = a.versions[b.From].text
	} else if b.V >= 0 && b.V < len(a.versions) {
		feat = a.versions[b.V].features
	}
	detail := c13Trim(b.Detail)
	desc := map[string]string{"rule": short, "pass": b.Name, "detail": detail, "family": a.Family, "tags": a.Tags,
		"features": strings.Join(feat, " "), "context": map[bool]string{true: "lowering", false: "module"}[a.Lower]}
	desc["sig"] = fmt.Sprintf("%s|%s|%s|%s", short, b.Name, detail, desc["features"])
	c.Disagree++
	what := fmt.Sprintf("%s: %s [pass %s, sequence %s, row %d] %s", a.Name, rule, b.Name, strings.Join(seq, ","), b.Row, b.Detail)
	var row any
	if b.Row >= 1 && b.Row <= len(a.rows) {
		row = a.rows[b.Row-1]
	}
	c.Report(what, desc, map[string]any{"wgsl": a.Src, "entry": a.ep, "sequence": seq, "pass": b.Name, "rule": rule, "detail": b.Detail,
		"input": row, "bufs": a.bufs, "want": b.Want, "got": b.Got, "ir_before": fromText, "ir_after": text})
}

const c13SelfSrc = `@group(0) @binding(0) var<storage, read> inp: array<i32, 4>;
@group(0) @binding(1) var<storage, read_write> out: array<i32, 4>;
fn unused(x: i32) -> i32 { return x; }
fn dec(x: i32) -> i32 { return x - 1; }
@compute @workgroup_size(1)
fn main() {
  let d = inp[0] - inp[1];
  out[0] = d;
  out[1] = dec(inp[2]) - 1;
}
`

// c13SelfArts builds the self-test artefacts of PassTrace.tla: the same fixed program six times, without fault and with
// each seeded fault (the last two: a call to function handle = number of functions, a call with one argument too many).  They ride along in the first trace shard of every run; c13SelfVerdict judges them.
func c13SelfArts() ([]*c13Art, error) {
	type tc struct {
		faults []string
		rule   string
	}
	tcs := []tc{{nil, ""}, {[]string{"drop-store"}, "Preserves"}, {[]string{"swap-operands"}, "Preserves"}, {[]string{"dangling"}, "StaysWellFormed"},
		{[]string{"bad-call-target"}, "StaysWellFormed"}, {[]string{"bad-call-arity"}, "StaysWellFormed"}}
	var out []*c13Art
	for i, t := range tcs {
		a := &c13Art{Name: fmt.Sprintf("selftest-%d", i), Family: "selftest", Src: c13SelfSrc,
			Seqs: [][]string{{"CompactUnused"}, {"InlineAll", "CompactExpressions"}}, Faults: t.faults, ExpectRule: t.rule}
		a.build(rand.New(rand.NewSource(1)))
		if a.skip != "" || len(a.versions) < 3 {
			return nil, fmt.Errorf("self-test artefact could not be built (%s, %d versions)", a.skip, len(a.versions))
		}
		a.rows = [][][]int32{{{9, 4, 7, 1}, {0, 0, 0, 0}}, {{-3, 5, 0, 2}, {0, 0, 0, 0}}}
		for _, v := range a.versions {
			v.obs = nil
		}
		out = append(out, a)
	}
	return out, nil
}

// c13SelfVerdict checks that every seeded fault was reported under the expected rule and the fault-free copy was not.
func c13SelfVerdict(arts []*c13Art, got map[*c13Art][]c13Bad) error {
	n := 0
	for _, a := range arts {
		if a.Family != "selftest" {
			continue
		}
		n++
		bads := got[a]
		if a.ExpectRule == "" {
			if len(bads) != 0 {
				return fmt.Errorf("without faults the self-test artefact is reported: %s %s", bads[0].Rule, bads[0].Detail)
			}
			continue
		}
		found := false
		for _, b := range bads {
			if strings.HasPrefix(b.Rule, a.ExpectRule) {
				found = true
			}
		}
		if !found {
			return fmt.Errorf("seeded fault %v is not reported under %s (%d entries)", a.Faults, a.ExpectRule, len(bads))
		}
	}
	if n != 6 {
		return fmt.Errorf("%d of 6 self-test artefacts were judged", n)
	}
	return nil
}

// c13Replay re-runs one reported case: the recorded WGSL source, pass sequence and input row.
func c13Replay(c *core.Ctx, file string) int {
	b, err := os.ReadFile(file)
	if err != nil {
		c.BrokenF("replay: %v", err)
		return c.Finish()
	}
	var rec struct {
		Case struct {
			Wgsl     string    `json:"wgsl"`
			Sequence []string  `json:"sequence"`
			Input    [][]int32 `json:"input"`
			Bufs     []c13Buf  `json:"bufs"`
		} `json:"case"`
	}
	if err := json.Unmarshal(b, &rec); err != nil {
		c.BrokenF("replay: %v", err)
		return c.Finish()
	}
	a := &c13Art{Name: "replay", Family: "replay", Src: rec.Case.Wgsl, Seqs: [][]string{rec.Case.Sequence}}
	if len(rec.Case.Bufs) > 0 && len(rec.Case.Input) == len(rec.Case.Bufs) {
		a.FixedBufs, a.FixedRows = rec.Case.Bufs, [][][]int32{rec.Case.Input}
	}
	if len(rec.Case.Sequence) > 0 && strings.HasPrefix(rec.Case.Sequence[0], "lower:") {
		a.Lower, a.Seqs = true, nil
		a.buildLower(rand.New(rand.NewSource(c.Seed)))
	} else {
		a.build(rand.New(rand.NewSource(c.Seed)))
	}
	if a.skip != "" {
		c.BrokenF("replay: %s", a.skip)
		return c.Finish()
	}
	v, owner, err := c13RunTrace(c, []*c13Art{a}, "{}", 3)
	if err != nil {
		c.BrokenF("replay: %v", err)
		return c.Finish()
	}
	c.Traces = 1
	for _, p := range a.passes {
		c.Eval(p.Name+fmt.Sprint(p.From), p.Changed)
	}
	for _, bd := range v.Bad {
		c13Report(c, owner[bd.L-1], bd)
	}
	return c.Finish()
}

// c13IdemDiff classifies how p(p(m)) differs from p(m) (the detail of an Idempotent report).
func c13IdemDiff(a, b irjson.N) string {
	fns := func(x irjson.N) []irjson.N {
		var out []irjson.N
		out = append(out, x["fns"].([]irjson.N)...)
		for _, e := range x["eps"].([]irjson.N) {
			out = append(out, e["fn"].(irjson.N))
		}
		return out
	}
	fa, fb := fns(a), fns(b)
	if len(fa) != len(fb) {
		return "the number of functions differs"
	}
	onlyAppended := true
	kinds := map[string]bool{}
	for i := range fa {
		ea, eb := fa[i]["exprs"].([]irjson.N), fb[i]["exprs"].([]irjson.N)
		if len(eb) < len(ea) {
			onlyAppended = false
			break
		}
		for _, e := range eb[len(ea):] {
			kinds[fmt.Sprint(e["k"])] = true
		}
		fb[i]["exprs"] = eb[:len(ea)]
	}
	ja, _ := json.Marshal(a)
	jb, _ := json.Marshal(b)
	if onlyAppended && bytes.Equal(ja, jb) {
		var ks []string
		for k := range kinds {
			ks = append(ks, k)
		}
		sort.Strings(ks)
		return "the second application only appends unreferenced expressions: " + strings.Join(ks, " ")
	}
	return "the second application rewrites the module"
}

// c13Trim removes the variable parts (numbers) of a detail text so that reports aggregate and predicates can match.
func c13Trim(s string) string {
	s = reNums.ReplaceAllString(s, "N")
	if len(s) > 400 {
		s = s[:400]
	}
	return s
}
