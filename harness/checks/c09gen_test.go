package checks

import (
	"fmt"
	"math/rand"
	"os"
	"sort"
	"testing"

	"verif/harness/drive"
)

// TestRandModuleAccepted: the random generator must mostly produce modules the front end accepts.
func TestRandModuleAccepted(t *testing.T) {
	r := rand.New(rand.NewSource(7))
	reasons := map[string]int{}
	ok := 0
	n := 400
	feats := map[string]int{}
	for i := 0; i < n; i++ {
		src, fs := RandModule(r)
		_, stage, err := drive.Front(src)
		if err != nil {
			msg := err.Error()
			if len(msg) > 110 {
				msg = msg[:110]
			}
			reasons[stage+": "+msg]++
			if os.Getenv("C09GEN_DUMP") != "" && reasons[stage+": "+msg] == 1 {
				os.WriteFile(fmt.Sprintf("/tmp/c09t/rej%d.wgsl", i), []byte(src), 0o644)
			}
			continue
		}
		ok++
		for _, f := range fs {
			feats[f]++
		}
	}
	var ks []string
	for k := range reasons {
		ks = append(ks, k)
	}
	sort.Slice(ks, func(i, j int) bool { return reasons[ks[i]] > reasons[ks[j]] })
	for _, k := range ks {
		t.Logf("%4d %s", reasons[k], k)
	}
	t.Logf("accepted %d of %d; features %v", ok, n, feats)
	if ok*3 < n*2 {
		t.Fatalf("only %d of %d random modules accepted", ok, n)
	}
}
