package checks

// c18Probes are fixed, minimal programs.  Each "known-*" probe shows one construct for which the DXIL backend of the
// pinned tree emits malformed bitcode (a known finding of C18, see docs/C18.md); the "ok-*" probes are the clean
// neighbours of those constructs and must stay clean.
var c18Probes = map[string]string{
	"known-private-component-store": `
var<private> priv: vec4<f32> = vec4<f32>(1.0, 2.0, 3.0, 4.0);
@fragment fn fmain(@location(0) in0: vec4<f32>) -> @location(0) vec4<f32> {
  priv.z = in0.x;
  return priv;
}`,
	"known-matrix-variable": `
@fragment fn fmain(@location(0) in0: vec4<f32>) -> @location(0) vec4<f32> {
  var m: mat2x2<f32> = mat2x2<f32>(in0.xy, in0.zw);
  if in0.y > 0.5 { m = m * m; }
  return vec4<f32>(m * in0.xy, m[1][0], 1.0);
}`,
	"known-logical-and-stored": `
@fragment fn fmain(@location(0) in0: vec4<f32>) -> @location(0) vec4<f32> {
  var b: bool = in0.x > 0.5;
  if in0.y > 0.1 { b = (in0.z > 0.2) && (in0.w > 0.3); }
  return vec4<f32>(select(0.0, 1.0, b));
}`,
	"known-storage-member-times-vector": `
struct S0 { p: vec3<f32>, q: u32, r: vec2<i32> }
@group(1) @binding(0) var<storage, read> buf0: array<S0, 8>;
@fragment fn fmain(@location(1) in1: vec4<f32>) -> @location(0) vec4<f32> {
  var v: vec4<f32> = (in1 * buf0[2].p.z);
  if in1.x > 0.5 { v = v + in1; }
  return v;
}`,
	"ok-private-whole-store": `
var<private> priv: vec4<f32> = vec4<f32>(1.0, 2.0, 3.0, 4.0);
@fragment fn fmain(@location(0) in0: vec4<f32>) -> @location(0) vec4<f32> {
  priv = in0 * 2.0;
  return priv + in0;
}`,
	"ok-vector-component-store": `
@fragment fn fmain(@location(0) in0: vec4<f32>) -> @location(0) vec4<f32> {
  var v: vec4<f32> = in0;
  v.z = in0.x * 2.0;
  if in0.y > 0.5 { v.x = 3.0; }
  return v;
}`,
	"ok-matrix-column-store": `
@fragment fn fmain(@location(0) in0: vec4<f32>) -> @location(0) vec4<f32> {
  var m: mat3x3<f32> = mat3x3<f32>(in0.xyz, in0.yzw, in0.zwx);
  m[1] = vec3<f32>(in0.w);
  if in0.y > 0.5 { m[2] = in0.xxy; }
  return vec4<f32>(m * in0.xyz, 1.0);
}`,
	"ok-bool-variable": `
@fragment fn fmain(@location(0) in0: vec4<f32>) -> @location(0) vec4<f32> {
  var b: bool = in0.x > 0.5;
  if in0.y > 0.1 { b = !b; }
  return vec4<f32>(select(0.0, 1.0, b));
}`,
	"ok-helper-loop-switch": `
fn helper(a: u32, b: f32) -> f32 {
  var acc: f32 = b;
  for (var i: u32 = 0u; i < a; i++) { if acc > 10.0 { break; } acc = acc * 2.0; }
  return acc;
}
@fragment fn fmain(@location(0) in0: vec4<f32>, @location(1) @interpolate(flat) k: u32) -> @location(0) vec4<f32> {
  var v: f32 = helper(3u, in0.x);
  var c: u32 = 0u;
  loop {
    if c >= 4u { break; }
    switch k {
      case 0u: { v = v + 1.0; }
      case 1u, 2u: { v = v * 2.0; }
      default: { v = -v; }
    }
    continuing { c = c + 1u; }
  }
  return vec4<f32>(v, helper(u32(in0.y), in0.z), 0.0, 1.0);
}`,
}
