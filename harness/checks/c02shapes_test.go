package checks

import (
	"testing"

	"verif/harness/drive"
)

// TestC02ShapesAccepted: every hand-shaped program must pass the front end and the SPIR-V backend (they are part of
// every C02 run and must never be silently dropped).
func TestC02ShapesAccepted(t *testing.T) {
	names, texts := c02Shapes()
	for i, src := range texts {
		m, _, err := drive.Front(src)
		if err != nil {
			t.Errorf("%s: front end: %v\n%s", names[i], err, src)
			continue
		}
		for _, opt := range []string{"v1.3", "v1.4", "v1.6"} {
			if _, err := drive.Compile("spv", opt, m, ""); err != nil {
				t.Errorf("%s @ %s: backend: %v", names[i], opt, err)
			}
		}
	}
}
