package checks

import (
	"fmt"
	"math"
	"strings"

	"github.com/gogpu/naga/ir"

	"verif/harness/drive"
	"verif/harness/spv"
	"verif/harness/wg"
	"verif/harness/xrt"
)

// ---- C06: compiling the programs with the real naga and observing the compile-time values -------------------------

// cobs is what naga did with one site.
type cobs struct {
	Acc    bool    // the front end accepted the program
	ErrMsg string  // its error otherwise
	Folded bool    // the stored value is a constant tree in the lowered IR
	Why    string  // first run-time node otherwise
	IRV    []int32 // words read out of the IR (when folded)
	IRKind string  // scalar kind of the value in the IR
	Exec   bool    // the emitted SPIR-V was executed
	Trap   string  // target-undefined operation reached
	Skip   string  // executor / backend could not judge
	V      []int32 // words observed by execution (or the site-specific observation: array length, workgroup size, ...)
	V2     []int32 // second observation (switch: selector = expected value + 1)
	CKind  string  // recorded kind of the module constant (modconst / named forms)
	Src    string
}

// compiled is a program after the front end.
type compiled struct {
	src  string
	m    *ir.Module
	err  error
	main *ir.EntryPoint
}

func frontEnd(src string) *compiled {
	c := &compiled{src: src}
	m, _, err := drive.Front(src)
	c.m, c.err = m, err
	if err == nil {
		for i := range m.EntryPoints {
			if m.EntryPoints[i].Name == "main" {
				c.main = &m.EntryPoints[i]
			}
		}
		if c.main == nil {
			c.err = fmt.Errorf("entry point main missing from the lowered module")
		}
	}
	return c
}

// execute compiles to SPIR-V and runs main over the given input words; returns the three output buffers.
func (c *compiled) execute(inp []int32, nOut int) (oi, ou, of []int32, trap, skip string) {
	art, err := drive.Compile("spv", "default", c.m, "main")
	if err != nil {
		return nil, nil, nil, "", "spv backend: " + trimReason(err.Error())
	}
	if len(inp) == 0 {
		inp = []int32{0}
	}
	n := max(nOut, 1)
	in := xrt.Input{Entry: "main", NumWorkgroups: [3]uint32{1, 1, 1}, MaxSteps: 2000000, Buffers: map[string][]byte{
		"0.0": words2bytes(inp), "0.1": make([]byte, 4*n), "0.2": make([]byte, 4*n), "0.3": make([]byte, 4*n)}}
	out := spv.Run(art, in)
	if out.Skip != "" {
		return nil, nil, nil, "", "spv executor: " + trimReason(out.Skip)
	}
	if out.Trap != "" {
		return nil, nil, nil, out.Trap, ""
	}
	return bytes2words(in.Buffers["0.1"]), bytes2words(in.Buffers["0.2"]), bytes2words(in.Buffers["0.3"]), "", ""
}

func pickBuf(k string, oi, ou, of []int32) []int32 {
	switch k {
	case "i32":
		return oi
	case "f32":
		return of
	}
	return ou
}

// observe fills the observation of every site of an accepted program. ok=false: the program trapped or could not be executed as a
// whole (the caller then retries the sites one by one).
func observeProgram(p *cprog, c *compiled) (map[*site]*cobs, bool) {
	res := map[*site]*cobs{}
	stores := map[string]irStore{}
	for _, st := range irStores(c.m, &c.main.Function) {
		stores[fmt.Sprintf("%s/%d", st.Buf, st.Index)] = st
	}
	needExec := false
	for _, s := range p.sites {
		switch baseForm(s.form) {
		case "arraysize", "assert_eq", "assert_ne", "wgsize":
		default:
			needExec = true
		}
	}
	var oi, ou, of []int32
	var trap, skip string
	if needExec {
		oi, ou, of, trap, skip = c.execute(p.inp, p.nOut)
		if (trap != "" || skip != "") && len(p.sites) > 1 {
			return nil, false
		}
	}
	for _, s := range p.sites {
		o := &cobs{Acc: true, Src: p.text()}
		res[s] = o
		t := tOf(s.c.Tree)
		k := kindOf(t)
		switch baseForm(s.form) {
		case "arraysize":
			if n, ok := irArrayLen(c.m, s.name); ok {
				o.Folded, o.V = true, []int32{int32(n)}
			} else {
				o.Why = "array type without constant size"
			}
			continue
		case "wgsize":
			for _, ep := range c.m.EntryPoints {
				if ep.Name == s.name {
					o.Folded, o.V = true, []int32{int32(ep.Workgroup[0])}
				}
			}
			continue
		case "assert_eq", "assert_ne":
			continue
		case "case":
			o.Trap, o.Skip = trap, skip
			if trap == "" && skip == "" {
				o.Exec = true
				o.V = []int32{ou[s.base]}
			}
			continue
		}
		// value forms and the run-time form
		o.Folded = true
		for j := 0; j < s.lanes; j++ {
			st, ok := stores[fmt.Sprintf("%s/%d", outBuf(k), s.base+j)]
			if !ok {
				o.Folded, o.Why = false, "store not found in the IR"
				break
			}
			if !st.Folded {
				o.Folded, o.Why = false, st.Why
				break
			}
			if len(st.Val.Words) != 1 {
				continue // a constant tree, but not of the scalar shape this reader expects: the IR value is then not used
			}
			o.IRV = append(o.IRV, st.Val.Words[0])
			o.IRKind = st.Val.Kind
		}
		if !o.Folded {
			o.IRV = nil
		}
		if bf := baseForm(s.form); bf == "modconst" || bf == "named" {
			if _, tk, ok := irConstByName(c.m, s.name); ok {
				o.CKind = tk
			}
		}
		o.Trap, o.Skip = trap, skip
		if trap == "" && skip == "" {
			o.Exec = true
			buf := pickBuf(k, oi, ou, of)
			o.V = append([]int32{}, buf[s.base:s.base+s.lanes]...)
		}
	}
	return res, true
}

// ---- verdicts (the Go mirror of ConstEval!Judge2; every non-"ok" verdict is re-judged by TLC before it is reported) ----

func ulpDist(a, b int32) int64 {
	key := func(w int32) int64 {
		if w >= 0 {
			return int64(w)
		}
		return -int64(uint32(w) & 0x7fffffff)
	}
	d := key(a) - key(b)
	if d < 0 {
		d = -d
	}
	return d
}

func sameWords(k string, got, want []int32, tol int) bool {
	if len(got) != len(want) {
		return false
	}
	for i := range got {
		if got[i] == want[i] {
			continue
		}
		if k == "f32" {
			if uint32(got[i])&0x7fffffff == 0 && uint32(want[i])&0x7fffffff == 0 {
				continue
			}
			fg := math.Float32frombits(uint32(got[i]))
			if tol > 0 && fg == fg && !math.IsInf(float64(fg), 0) && ulpDist(got[i], want[i]) <= int64(tol) {
				continue
			}
		}
		return false
	}
	return true
}

// observedValue picks the value naga gave the expression: what executing the emitted code stored, else what the IR holds.
func (o *cobs) observedValue() ([]int32, bool) {
	if o.Exec || len(o.V) > 0 {
		return o.V, true
	}
	if o.Folded && len(o.IRV) > 0 {
		return o.IRV, true
	}
	return nil, false
}

// judgeValue is the verdict for a value form: "ok", "skip:<reason>", or a class.
func judgeValue(c *ccase, o *cobs) string {
	p := c.Pred
	k := kindOf(tOf(c.Tree))
	switch p.S {
	case "und":
		return "skip:specification leaves the expression undecided: " + trimReason(p.Why)
	case "err":
		if !o.Acc {
			return "ok"
		}
		if o.Folded {
			return "noerror"
		}
		return "deferred"
	}
	if !o.Acc {
		if p.M != "" {
			return "ok"
		}
		return "rejects-valid"
	}
	if o.Trap != "" {
		if !o.Folded {
			return "skip:expression left for run time and the emitted code reaches a target-undefined operation (judged by C01): " + trimReason(o.Trap)
		}
		return "trap"
	}
	v, ok := o.observedValue()
	if !ok {
		return "skip:" + o.Skip
	}
	if !sameWords(k, v, p.V, c.Tol) {
		return "value"
	}
	// the IR and the executed code must tell the same story
	if o.Exec && o.Folded && len(o.IRV) == len(o.V) && !sameWords(k, o.IRV, p.V, c.Tol) {
		return "value"
	}
	return "ok"
}

func errClass(msg string) string {
	msg = strings.ToLower(msg)
	switch {
	case strings.Contains(msg, "const_assert failed"):
		return "assert-failed"
	case strings.Contains(msg, "unsupported"):
		return "unsupported"
	}
	return "other"
}

var _ = wg.K
