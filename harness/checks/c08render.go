package checks

// Rendering of AcceptGen.tla module descriptions as WGSL text (property C08).  The description says WHAT the module
// contains (resources, helper shapes, entry points with interface and body operations in their control-flow context,
// syntax variations, declaration order); this file fixes HOW each item is spelled.  Every spelling is valid WGSL for
// the item it renders: the validity of the composition is what the invariants of AcceptGen.tla state.

import (
	"fmt"
	"sort"
	"strings"
)

type agRes struct {
	K string `json:"k"`
	G int    `json:"g"`
	B int    `json:"b"`
	F int    `json:"f"` // texel format of a storage texture (index into storageFormats)
}
type agHelper struct {
	Shape string `json:"shape"`
	R     int    `json:"r"`
}
type agOp struct {
	Op string `json:"op"`
	R  int    `json:"r"`
	R2 int    `json:"r2"`
	H  int    `json:"h"`
	Cf string `json:"cf"`
}
type agItem struct {
	B      string `json:"b"`
	Loc    int    `json:"loc"`
	Ty     string `json:"ty"`
	Interp string `json:"interp"`
	Inv    bool   `json:"inv"`
}
type agEntry struct {
	Stage   string   `json:"stage"`
	Ops     []agOp   `json:"ops"`
	Ins     []agItem `json:"ins"`
	Outs    []agItem `json:"outs"`
	InForm  string   `json:"inForm"`
	OutForm string   `json:"outForm"`
	Uses    []int    `json:"uses"`
	F       []string `json:"f"`
}
type agModule struct {
	Res     []agRes    `json:"res"`
	Helpers []agHelper `json:"helpers"`
	Syn     []string   `json:"syn"`
	Order   string     `json:"order"`
	Entries []agEntry  `json:"entries"`
	Feats   []string   `json:"feats"`
	Wt      bool       `json:"wt"`
	Reuses  bool       `json:"reuses"`
	Shares  bool       `json:"shares"`
}

// constructs lists what the module contains, for case descriptors (known-finding predicates name constructs).
func (m *agModule) constructs() []string {
	set := map[string]bool{}
	for _, h := range m.Helpers {
		set["helper:"+h.Shape] = true
	}
	for _, s := range m.Syn {
		set["syn:"+s] = true
	}
	for _, r := range m.Res {
		set["res:"+r.K] = true
		if r.K == "texstorage" {
			set["format:"+storageFormats[r.F%len(storageFormats)].name] = true
		}
	}
	for _, e := range m.Entries {
		set["stage:"+e.Stage] = true
		for _, o := range e.Ops {
			set["op:"+o.Op] = true
			if o.Cf != "top" {
				set["cf:"+o.Cf] = true
			}
		}
		for _, it := range append(append([]agItem{}, e.Ins...), e.Outs...) {
			if it.B != "" {
				set["builtin:"+it.B] = true
			} else {
				set["loc:"+it.Ty] = true
				if it.Interp != "" {
					set["interp:"+it.Interp] = true
				}
			}
			if it.Inv {
				set["invariant"] = true
			}
		}
		if e.InForm != "params" && len(e.Ins) > 0 {
			set["inform:"+e.InForm] = true
		}
		if e.OutForm == "struct" {
			set["outform:struct"] = true
		}
	}
	if m.Reuses {
		set["binding_reused_by_other_entry"] = true
	}
	if m.Shares {
		set["binding_shared_between_entries"] = true
	}
	if len(m.Entries) > 1 {
		set["multi_entry"] = true
	}
	if m.Order == "use_first" {
		set["order:use_first"] = true
	}
	var out []string
	for k := range set {
		out = append(out, k)
	}
	sort.Strings(out)
	return out
}

type agRender struct {
	m      *agModule
	syn    map[string]bool
	consts []string // module-scope const declarations
	alias  []string
	structs []string
	resd   []string
	funcs  []string // helper functions
	late   []string // declarations that must come after their use (forward references)
	entry  []string
	f16    bool
	pcs    map[string]float64 // pipeline constants for the module's overrides (option sets with PC)
}

func (r *agRender) has(f string) bool { return r.syn[f] }

var storageFormats = []struct{ name, val string }{
	{"rgba8unorm", "vec4<f32>(%s)"}, {"r32float", "vec4<f32>(%s)"}, {"rgba16float", "vec4<f32>(%s)"}, {"rgba32float", "vec4<f32>(%s)"},
	{"rgba8snorm", "vec4<f32>(%s)"}, {"rgba8uint", "vec4<u32>(u32(%s))"}, {"rgba16sint", "vec4<i32>(i32(%s))"}, {"r32uint", "vec4<u32>(u32(%s))"},
	{"r32sint", "vec4<i32>(i32(%s))"}, {"rgba32uint", "vec4<u32>(u32(%s))"},
}

func (r *agRender) fmtOf(i int) int {
	return r.m.Res[i-1].F % len(storageFormats)
}

// tc returns "," when the trailing-comma form f is selected.
func (r *agRender) tc(f string) string {
	if r.has(f) {
		return ","
	}
	return ""
}

func (r *agRender) attrInt(v int, constForm, constName string) string {
	switch {
	case constForm != "" && r.has(constForm):
		r.consts = append(r.consts, fmt.Sprintf("const %s = %d;", constName, v))
		return constName
	case r.has("attr_lit_u"):
		return fmt.Sprintf("%du", v)
	case r.has("attr_lit_hex"):
		return fmt.Sprintf("0x%x", v)
	}
	return fmt.Sprint(v)
}

func (r *agRender) resource(i int) {
	x := r.m.Res[i-1]
	n := fmt.Sprintf("r%d", i)
	bind := ""
	if x.K != "workgroup" && x.K != "private" {
		c := r.tc("tc_attr_binding")
		bind = fmt.Sprintf("@group(%s%s) @binding(%s%s) ", r.attrInt(x.G, "cattr_group", fmt.Sprintf("CG%d", i)), c,
			r.attrInt(x.B, "cattr_binding", fmt.Sprintf("CB%d", i)), c)
	}
	tv := r.tc("tc_tmpl_var")
	switch x.K {
	case "uniform":
		r.structs = append(r.structs, fmt.Sprintf("struct U%d { a: vec4<f32>, b: vec4<i32> }", i))
		r.resd = append(r.resd, fmt.Sprintf("%svar<uniform%s> %s: U%d;", bind, tv, n, i))
	case "storage_ro":
		r.resd = append(r.resd, fmt.Sprintf("%svar<storage, read%s> %s: array<vec4<f32>>;", bind, tv, n))
	case "storage_rw":
		r.resd = append(r.resd, fmt.Sprintf("%svar<storage, read_write%s> %s: array<vec4<f32>>;", bind, tv, n))
	case "atomic":
		r.resd = append(r.resd, fmt.Sprintf("%svar<storage, read_write%s> %s: atomic<u32%s>;", bind, tv, n, r.tc("tc_tmpl_atomic")))
	case "tex2d":
		r.resd = append(r.resd, fmt.Sprintf("%svar %s: texture_2d<f32%s>;", bind, n, r.tc("tc_tmpl_tex")))
	case "texdepth":
		r.resd = append(r.resd, fmt.Sprintf("%svar %s: texture_depth_2d;", bind, n))
	case "texstorage":
		r.resd = append(r.resd, fmt.Sprintf("%svar %s: texture_storage_2d<%s, write%s>;", bind, n, storageFormats[r.fmtOf(i)].name, r.tc("tc_tmpl_tex")))
	case "sampler":
		r.resd = append(r.resd, fmt.Sprintf("%svar %s: sampler;", bind, n))
	case "sampler_cmp":
		r.resd = append(r.resd, fmt.Sprintf("%svar %s: sampler_comparison;", bind, n))
	case "workgroup":
		r.resd = append(r.resd, fmt.Sprintf("var<workgroup%s> %s: array<f32, 4>;", tv, n))
	case "private":
		r.resd = append(r.resd, fmt.Sprintf("var<private%s> %s: f32 = 1.0;", tv, n))
	}
}

// readExpr is an f32-valued expression reading resource i.
func (r *agRender) readExpr(i int) string {
	n := fmt.Sprintf("r%d", i)
	switch r.m.Res[i-1].K {
	case "uniform":
		return fmt.Sprintf("(%s.a.x + f32(%s.b.y))", n, n)
	case "storage_ro", "storage_rw":
		return n + "[0].x"
	case "workgroup":
		return n + "[1]"
	case "private":
		return n
	case "tex2d":
		return fmt.Sprintf("textureLoad(%s, vec2<i32>(0, 0), 0).x", n)
	case "texdepth":
		return fmt.Sprintf("textureLoad(%s, vec2<i32>(0, 0), 0)", n)
	}
	return "0.0"
}

func (r *agRender) opStmt(o agOp) string {
	n, n2 := fmt.Sprintf("r%d", o.R), fmt.Sprintf("r%d", o.R2)
	uv := "vec2<f32>(0.5, acc)"
	switch o.Op {
	case "read":
		return fmt.Sprintf("acc += %s;", r.readExpr(o.R))
	case "write":
		switch r.m.Res[o.R-1].K {
		case "storage_rw":
			return fmt.Sprintf("%s[1] = vec4<f32>(acc);", n)
		case "workgroup":
			return fmt.Sprintf("%s[1] = acc;", n)
		}
		return fmt.Sprintf("%s = acc + 1.0;", n)
	case "atomic":
		return fmt.Sprintf("acc += f32(atomicAdd(&%s, 1u)); atomicMax(&%s, 2u); atomicStore(&%s, atomicLoad(&%s) + 1u); acc += f32(atomicCompareExchangeWeak(&%s, 1u, 2u).old_value);", n, n, n, n, n)
	case "array_length":
		return fmt.Sprintf("acc += f32(arrayLength(&%s));", n)
	case "sample":
		return fmt.Sprintf("acc += textureSample(%s, %s, %s).x;", n, n2, uv)
	case "sample_level":
		return fmt.Sprintf("acc += textureSampleLevel(%s, %s, %s, 0.0).y;", n, n2, uv)
	case "sample_cmp":
		return fmt.Sprintf("acc += textureSampleCompare(%s, %s, %s, 0.5);", n, n2, uv)
	case "sample_cmp_level":
		return fmt.Sprintf("acc += textureSampleCompareLevel(%s, %s, %s, 0.5);", n, n2, uv)
	case "tex_load":
		return fmt.Sprintf("acc += %s;", r.readExpr(o.R))
	case "tex_dims":
		if r.m.Res[o.R-1].K == "tex2d" {
			return fmt.Sprintf("acc += f32(textureDimensions(%s, 0).x) + f32(textureDimensions(%s).y);", n, n)
		}
		return fmt.Sprintf("acc += f32(textureDimensions(%s).x);", n)
	case "tex_store":
		return fmt.Sprintf("textureStore(%s, vec2<i32>(0, 1), %s);", n, fmt.Sprintf(storageFormats[r.fmtOf(o.R)].val, "acc"))
	case "barrier":
		return "workgroupBarrier(); storageBarrier();"
	case "derivative":
		return "acc += dpdx(acc) + dpdy(acc) + fwidth(acc);"
	case "derivative_ctl":
		return "acc += dpdxFine(acc) + dpdyCoarse(acc) + fwidthFine(acc) + dpdxCoarse(acc);"
	case "discard":
		return "if acc > 1000.0 { discard; }"
	case "call":
		return fmt.Sprintf("acc += f32(h%d(i32(acc)));", o.H)
	}
	return ""
}

func (r *agRender) wrap(cf, stmt string, k int) string {
	switch cf {
	case "if_uniform":
		return fmt.Sprintf("if UNI { %s }", stmt)
	case "if_nonuniform":
		return fmt.Sprintf("if nu_flag > 0 { %s } else { acc -= 1.0; }", stmt)
	case "loop":
		return fmt.Sprintf("for (var i%d = 0; i%d < 2; i%d++) { %s }", k, k, k, stmt)
	case "switch":
		return fmt.Sprintf("switch nu_flag { case 1, 2%s: { %s } default: { acc += 2.0; } }", r.tc("tc_case"), stmt)
	case "switch_nested":
		// the operation sits in an outer clause after a complete nested switch and a conditional break of the outer switch
		return fmt.Sprintf("switch nu_flag { case 1: { switch nu_flag { case 3: { acc += 1.0; } default: { } } if acc > 50.0 { break; } %s } default: { acc += 2.0; } }", stmt)
	}
	return stmt
}

func tyWGSL(t string) string {
	switch t {
	case "vec2f":
		return "vec2<f32>"
	case "vec3f":
		return "vec3<f32>"
	case "vec4f":
		return "vec4<f32>"
	case "vec2i":
		return "vec2<i32>"
	case "vec3u":
		return "vec3<u32>"
	case "vec4u":
		return "vec4<u32>"
	}
	return t
}

// toF32 converts a value of IO type t to f32; fromAcc builds a value of type t from the f32 `acc`.
func toF32(t, e string) string {
	switch t {
	case "f32":
		return e
	case "i32", "u32":
		return "f32(" + e + ")"
	case "bool":
		return "select(0.0, 1.0, " + e + ")"
	case "vec2f", "vec3f", "vec4f":
		return e + ".x"
	}
	return "f32(" + e + ".x)"
}
func fromAcc(t string) string {
	switch t {
	case "f32":
		return "acc"
	case "i32":
		return "i32(acc)"
	case "u32":
		return "u32(acc)"
	case "vec2f", "vec3f", "vec4f":
		return tyWGSL(t) + "(acc)"
	case "vec2i":
		return "vec2<i32>(i32(acc))"
	case "vec4u", "vec3u":
		return tyWGSL(t) + "(u32(acc))"
	}
	return "acc"
}

func (r *agRender) itemAttr(it agItem, e, j int, dir string) string {
	if it.B != "" {
		s := fmt.Sprintf("@builtin(%s%s)", it.B, r.tc("tc_attr_builtin"))
		if it.Inv {
			s = "@invariant " + s
		}
		return s
	}
	s := fmt.Sprintf("@location(%s%s)", r.attrInt(it.Loc, "cattr_location", fmt.Sprintf("CL%d%s%d", e, dir, j)), r.tc("tc_attr_loc"))
	if it.Interp != "" {
		s += " @interpolate(" + strings.ReplaceAll(it.Interp, "_", ", ") + r.tc("tc_attr_interp") + ")"
	}
	return s
}

func (r *agRender) entryPoint(ei int) {
	e := r.m.Entries[ei]
	name := fmt.Sprintf("e%d", ei+1)
	var params, pre []string
	// inputs
	nParams := len(e.Ins)
	switch e.InForm {
	case "struct":
		nParams = 0
	case "mixed":
		nParams = 1
	}
	var members []string
	for j, it := range e.Ins {
		if j < nParams {
			params = append(params, fmt.Sprintf("%s in%d: %s", r.itemAttr(it, ei+1, j, "i"), j, tyWGSL(it.Ty)))
			pre = append(pre, fmt.Sprintf("acc += %s;", toF32(it.Ty, fmt.Sprintf("in%d", j))))
		} else {
			members = append(members, fmt.Sprintf("%s m%d: %s", r.itemAttr(it, ei+1, j, "i"), j, tyWGSL(it.Ty)))
			pre = append(pre, fmt.Sprintf("acc += %s;", toF32(it.Ty, fmt.Sprintf("inp.m%d", j))))
		}
	}
	if len(members) > 0 {
		r.structs = append(r.structs, fmt.Sprintf("struct In%d { %s%s }", ei+1, strings.Join(members, ", "), r.tc("tc_struct")))
		params = append(params, fmt.Sprintf("inp: In%d", ei+1))
	}
	// outputs
	ret, retStmt := "", ""
	switch e.OutForm {
	case "direct":
		it := e.Outs[0]
		ret = fmt.Sprintf(" -> %s %s", r.itemAttr(it, ei+1, 0, "o"), tyWGSL(it.Ty))
		retStmt = fmt.Sprintf("return %s;", fromAcc(it.Ty))
	case "struct":
		var ms, vals []string
		for j, it := range e.Outs {
			ms = append(ms, fmt.Sprintf("%s o%d: %s", r.itemAttr(it, ei+1, j, "o"), j, tyWGSL(it.Ty)))
			vals = append(vals, fromAcc(it.Ty))
		}
		r.structs = append(r.structs, fmt.Sprintf("struct Out%d { %s }", ei+1, strings.Join(ms, ", ")))
		ret = fmt.Sprintf(" -> Out%d", ei+1)
		retStmt = fmt.Sprintf("return Out%d(%s%s);", ei+1, strings.Join(vals, ", "), r.tc("tc_ctor"))
	}
	attr := "@" + e.Stage
	if e.Stage == "compute" {
		x := r.attrInt(2, "cattr_wgsize", fmt.Sprintf("WGX%d", ei+1))
		y := "1"
		if r.has("cattr_wgsize") {
			y = "2 - 1"
		}
		attr += fmt.Sprintf(" @workgroup_size(%s, %s%s)", x, y, r.tc("tc_attr_wg"))
	}
	var b strings.Builder
	fmt.Fprintf(&b, "%s\nfn %s(%s%s)%s {\n  var acc: f32 = 0.25;\n", attr, name, strings.Join(params, ", "),
		map[bool]string{true: r.tc("tc_params"), false: ""}[len(params) > 0], ret)
	for _, s := range pre {
		b.WriteString("  " + s + "\n")
	}
	if ei == 0 && len(r.m.Syn) > 0 {
		b.WriteString("  acc += f32(syn_forms(i32(acc)));\n")
	}
	for k, o := range e.Ops {
		b.WriteString("  " + r.wrap(o.Cf, r.opStmt(o), k) + "\n")
	}
	if retStmt != "" {
		b.WriteString("  " + retStmt + "\n")
	} else {
		b.WriteString("  sink = acc;\n")
	}
	b.WriteString("}")
	r.entry = append(r.entry, b.String())
}

var builtinNamedFns = []string{"mix", "clamp", "min"}

func (r *agRender) helper(k int) {
	h := r.m.Helpers[k-1]
	n := fmt.Sprintf("h%d", k)
	add := func(s string) { r.funcs = append(r.funcs, s) }
	switch h.Shape {
	case "value_params":
		add(fmt.Sprintf("fn hv%d(a: i32, b: f32, c: vec2<u32>, d: bool) -> i32 { if d { return a + i32(b) + i32(c.y); } return a; }", k))
		add(fmt.Sprintf("fn %s(x: i32) -> i32 { return hv%d(x, 2.0, vec2<u32>(1u, 2u), x > 0); }", n, k))
	case "ptr_function":
		add(fmt.Sprintf("fn hp%d(p: ptr<function, i32>, q: ptr<function, vec2<f32>>) { *p = *p + 1; (*q).x = 2.0; }", k))
		add(fmt.Sprintf("fn %s(x: i32) -> i32 { var a = x; var v = vec2<f32>(0.0, 1.0); hp%d(&a, &v); return a + i32(v.x); }", n, k))
	case "ptr_compound_assign":
		add(fmt.Sprintf("fn hp%d(p: ptr<function, i32>) { *p += 2; (*p)++; }", k))
		add(fmt.Sprintf("fn %s(x: i32) -> i32 { var a = x; hp%d(&a); return a; }", n, k))
	case "ptr_private":
		r.resd = append(r.resd, fmt.Sprintf("var<private> pv%d: i32 = 3;", k))
		add(fmt.Sprintf("fn hp%d(p: ptr<private, i32>) -> i32 { *p = *p + 1; return *p; }", k))
		add(fmt.Sprintf("fn %s(x: i32) -> i32 { return hp%d(&pv%d) + x; }", n, k, k))
	case "early_return":
		add(fmt.Sprintf("fn %s(x: i32) -> i32 { if x > 3 { return x * 2; } var r = x; r += 1; return r; }", n))
	case "switch_break_in_loop":
		add(fmt.Sprintf("fn %s(x: i32) -> i32 { var r = 0; loop { switch x { case 1: { r = 5; break; } default: { r = 7; } } if r > 0 { break; } } return r; }", n))
	case "switch_break_noloop":
		add(fmt.Sprintf("fn %s(x: i32) -> i32 { var r = 0; switch x { case 1: { r = 5; break; } case 2, 3: { if x == 2 { break; } r = 6; } default: { r = 7; } } return r; }", n))
	case "switch_nested_break_after":
		// a complete nested switch, then a conditional break of the OUTER switch in the same clause
		add(fmt.Sprintf("fn %s(x: i32) -> i32 { var r = x; switch x { case 1: { switch r { case 2: { r += 1; } default: { } } if r > 0 { break; } r = 1; } default: { r = 2; } } return r; }", n))
	case "switch_nested_break_direct":
		add(fmt.Sprintf("fn %s(x: i32) -> i32 { var r = x; switch x { case 1, 2: { switch r { default: { r += 1; } } { r += 2; } break; } default: { switch r { case 0: { break; } default: { r = 3; } } { if r == 3 { break; } } r = 4; } } return r; }", n))
	case "switch_in_continuing":
		add(fmt.Sprintf("fn %s(x: i32) -> i32 { var r = x; var i = 0; loop { if i > 2 { break; } r += 1; continuing { i += 1; switch i { case 1: { r += 2; } default: { r += 3; } } } } return r; }", n))
	case "switch_in_continuing_nested_break":
		add(fmt.Sprintf("fn %s(x: i32) -> i32 { var r = x; var i = 0; loop { if i > 2 { break; } continuing { i += 1; switch i { case 1: { switch r { default: { r += 1; } } if r > 5 { break; } r += 2; } default: { } } } } return r; }", n))
	case "switch_continue_in_loop":
		add(fmt.Sprintf("fn %s(x: i32) -> i32 { var r = x; for (var i = 0; i < 3; i++) { switch i { case 1: { continue; } default: { r += i; } } r += 1; } return r; }", n))
	case "shadow_let":
		add(fmt.Sprintf("fn %s(x: i32) -> i32 { let a = x + 1; var v = a; { let a = 2.0; v += i32(a); { let a = 3u; v += i32(a); } } return v + a; }", n))
	case "shadow_var":
		add(fmt.Sprintf("fn %s(x: i32) -> i32 { var v = x; { var v = 2.5; v = v * 2.0; if v > 1.0 { var v = true; v = !v; } } return v; }", n))
	case "shadow_param":
		add(fmt.Sprintf("fn %s(x: i32) -> i32 { var r = x; { let x = 7u; r += i32(x); } { var x = 1.5; x += 1.0; r += i32(x); } return r + x; }", n))
	case "shadow_global":
		r.consts = append(r.consts, fmt.Sprintf("const sg%d: i32 = 4;", k))
		r.resd = append(r.resd, fmt.Sprintf("var<private> sv%d: i32 = 2;", k))
		add(fmt.Sprintf("fn %s(x: i32) -> i32 { var r = sg%d + sv%d; { let sg%d = 2.5; r += i32(sg%d); var sv%d = 1u; sv%d += 1u; r += i32(sv%d); } return r + x + sv%d; }", n, k, k, k, k, k, k, k, k))
	case "shadow_builtin_fn":
		add(fmt.Sprintf("fn %s(x: i32) -> i32 { let min = 4; var max = x; max += min; return max; }", n))
	case "user_fn_named_builtin":
		f := builtinNamedFns[0]
		add(fmt.Sprintf("fn %s(x: i32) -> i32 { return x + 1; }", f))
		add(fmt.Sprintf("fn %s(x: i32) -> i32 { return %s(x); }", n, f))
	case "fwd_fn":
		add(fmt.Sprintf("fn %s(x: i32) -> i32 { return later%d(x) + 1; }", n, k))
		r.late = append(r.late, fmt.Sprintf("fn later%d(x: i32) -> i32 { return x * 3; }", k))
	case "fwd_const":
		add(fmt.Sprintf("fn %s(x: i32) -> i32 { return x + LATE%d; }", n, k))
		r.late = append(r.late, fmt.Sprintf("const LATE%d: i32 = LATER%d * 2;", k, k), fmt.Sprintf("const LATER%d = 5;", k))
	case "fwd_struct":
		add(fmt.Sprintf("fn %s(x: i32) -> i32 { var s: FS%d; s.a = x; let t = FS%d(1, 2.0); return s.a + t.a; }", n, k, k))
		r.late = append(r.late, fmt.Sprintf("struct FS%d { a: i32, b: f32 }", k))
	case "fwd_alias":
		add(fmt.Sprintf("fn %s(x: i32) -> i32 { var v: FA%d = FA%d(x, x); return v.y; }", n, k, k))
		r.late = append(r.late, fmt.Sprintf("alias FA%d = vec2<i32>;", k))
	case "alias_chain":
		r.alias = append(r.alias, fmt.Sprintf("alias AC%da = AC%db;", k, k), fmt.Sprintf("alias AC%dc = vec2<i32>;", k), fmt.Sprintf("alias AC%db = AC%dc;", k, k))
		add(fmt.Sprintf("fn %s(x: i32) -> i32 { let v: AC%da = AC%da(x, 1); let w: AC%db = v; return w.x + v.y; }", n, k, k, k))
	case "const_composite_index_member":
		// constant index into a constant matrix / array of vectors, then a component
		r.consts = append(r.consts, fmt.Sprintf("const KM%d = mat2x2<f32>(1.0, 0.0, 0.0, 2.0);", k))
		add(fmt.Sprintf("fn %s(x: i32) -> i32 { let a = KM%d[1].y; let b = array<vec2<f32>, 2>(vec2<f32>(1.0, 2.0), vec2<f32>(3.0, 4.0))[1].x; return x + i32(a + b); }", n, k))
	case "const_matrix_elem":
		r.consts = append(r.consts, fmt.Sprintf("const KE%d = mat2x2<f32>(1.0, 0.0, 0.0, 2.0);", k))
		add(fmt.Sprintf("fn %s(x: i32) -> i32 { let a = KE%d[1][1]; return x + i32(a); }", n, k))
	case "shadow_fwd_let_const":
		r.consts = append(r.consts, fmt.Sprintf("const g%d: i32 = 3;", k))
		add(fmt.Sprintf("fn %s(x: i32) -> i32 { let g%d = g%d * 2; return x + g%d; }", n, k, k, k))
	case "shadow_fwd_const_const":
		// the module-scope const is typed: with an abstract one see shadow_fwd_const_abstract
		r.consts = append(r.consts, fmt.Sprintf("const g%d: i32 = 5;", k))
		add(fmt.Sprintf("fn %s(x: i32) -> i32 { const g%d = g%d + 1; return x + g%d; }", n, k, k, k))
	case "shadow_fwd_const_abstract":
		// both consts abstract: on the unpatched tree the lowerer recurses without bound (known finding; the replay workers
		// turn the fatal error into a recorded rejection).  Only the dedicated small configuration uses this shape.
		r.consts = append(r.consts, fmt.Sprintf("const g%d = 5;", k))
		add(fmt.Sprintf("fn %s(x: i32) -> i32 { const g%d = g%d + 1; return x + g%d; }", n, k, k, k))
	case "shadow_fwd_var_private":
		r.resd = append(r.resd, fmt.Sprintf("var<private> g%d: i32 = 2;", k))
		add(fmt.Sprintf("fn %s(x: i32) -> i32 { var g%d = g%d + 1; g%d += x; return g%d; }", n, k, k, k, k))
	case "shadow_fwd_let_override":
		r.consts = append(r.consts, fmt.Sprintf("override g%d: f32 = 1.5;", k))
		r.pcs[fmt.Sprintf("g%d", k)] = 2.5
		add(fmt.Sprintf("fn %s(x: i32) -> i32 { let g%d = g%d * 2.0; return x + i32(g%d); }", n, k, k, k))
	case "shadow_fwd_block":
		r.consts = append(r.consts, fmt.Sprintf("const g%d: i32 = 4;", k))
		add(fmt.Sprintf("fn %s(x: i32) -> i32 { var r = x; { let g%d = g%d + 1; r += g%d; } return r; }", n, k, k, k))
	case "shadow_fwd_loop":
		r.resd = append(r.resd, fmt.Sprintf("var<private> g%d: i32 = 2;", k))
		add(fmt.Sprintf("fn %s(x: i32) -> i32 { var r = x; loop { var g%d = g%d + 1; r += g%d; break; } return r; }", n, k, k, k))
	case "shadow_fwd_for_init":
		r.consts = append(r.consts, fmt.Sprintf("const g%d: i32 = 1;", k))
		add(fmt.Sprintf("fn %s(x: i32) -> i32 { var r = x; for (var g%d = g%d; g%d < 3; g%d++) { r += g%d; } return r; }", n, k, k, k, k, k))
	case "shadow_block_leak":
		r.consts = append(r.consts, fmt.Sprintf("const g%d: i32 = 6;", k))
		add(fmt.Sprintf("fn %s(x: i32) -> i32 { var r = x; { let g%d = 1.5; r += i32(g%d); } return r + g%d; }", n, k, k, k))
	case "uses_res":
		add(fmt.Sprintf("fn %s(x: i32) -> i32 { return x + i32(%s); }", n, r.readExpr(h.R)))
	}
}

// literal spellings per form: each is a let initialiser with the i32 conversion that follows
var litForms = map[string][]string{
	"lit_suffix_i":      {"1i", "0x7fi"},
	"lit_suffix_u":      {"2u", "0x1Fu"},
	"lit_suffix_f":      {"1.0f", "1.5e-2f"},
	"lit_suffix_f_int":  {"1f", "3f"},
	"lit_hex":           {"0x10", "0XaB"},
	"lit_exp":           {"1e3", "2E2"},
	"lit_exp_sign":      {"3e+2", "25e-1"},
	"lit_trailing_dot":  {"1.", "12."},
	"lit_leading_dot":   {".5", ".25f"},
	"lit_dot_exp":       {"5.e1", "1.e+1"},
	"lit_dot_suffix":    {"1.f", "10.f"},
	"lit_hexfloat":      {"0x1p4", "0x1P-1", "0x1p+3f"},
	"lit_hexfloat_frac": {"0x1.8p1", "0x.8p1", "0x1.8p1f"},
}

// synHelper renders the function that carries the syntax variations without a natural site in the module.
func (r *agRender) synHelper() {
	if len(r.m.Syn) == 0 {
		return
	}
	var body []string
	for _, f := range r.m.Syn {
		switch f {
		case "tc_struct":
			r.structs = append(r.structs, "struct SynS { a: i32, b: vec2<f32>, }")
			body = append(body, "var ss: SynS; ss.a = x; r += ss.a;")
		case "tc_params":
			r.funcs = append(r.funcs, "fn syn_p(a: i32, b: i32,) -> i32 { return a + b; }")
			body = append(body, "r += syn_p(x, 1);")
		case "tc_args":
			r.funcs = append(r.funcs, "fn syn_a(a: i32, b: i32) -> i32 { return a - b; }")
			body = append(body, "r += syn_a(x, 1,) + max(x, 2,);")
		case "tc_tmpl_vec":
			body = append(body, "r += vec2<i32,>(x, 2).y;")
		case "tc_tmpl_array":
			body = append(body, "var arr = array<i32, 2,>(1, 2); r += arr[1];")
		case "tc_tmpl_var":
			r.resd = append(r.resd, "var<private,> syn_pv: i32 = 1;")
			body = append(body, "r += syn_pv;")
		case "tc_tmpl_ptr":
			r.funcs = append(r.funcs, "fn syn_ptr(p: ptr<function, i32,>) { *p = *p + 1; }")
			body = append(body, "var pa = x; syn_ptr(&pa); r += pa;")
		case "tc_tmpl_mat":
			body = append(body, "r += i32(mat2x2<f32,>(f32(x), 0.0, 0.0, 1.0)[1].y);")
		case "tc_bitcast":
			body = append(body, "r += i32(bitcast<f32,>(1065353216u));")
		case "tc_attr_align", "cattr_align", "cattr_size":
			al, sz := "16", "16"
			if f == "cattr_align" {
				r.consts = append(r.consts, "const CAL = 16;")
				al = "CAL"
			}
			if f == "cattr_size" {
				r.consts = append(r.consts, "const CSZ = 8;")
				sz = "CSZ * 2"
			}
			c := ""
			if f == "tc_attr_align" {
				c = ","
			}
			nm := "SynA_" + f
			r.structs = append(r.structs, fmt.Sprintf("struct %s { @align(%s%s) a: i32, @size(%s%s) b: f32 }", nm, al, c, sz, c))
			body = append(body, fmt.Sprintf("var sa_%s: %s; sa_%s.a = x; r += sa_%s.a;", f, nm, f, f))
		case "tc_ctor":
			body = append(body, "r += vec2<i32>(x, 3,).y + i32(array<f32, 2>(1.0, 2.0,)[1]);")
		case "tc_case":
			body = append(body, "switch x { case 1, 2,: { r += 1; } default: { r += 2; } }")
		default:
			if ls, ok := litForms[f]; ok {
				for i, l := range ls {
					body = append(body, fmt.Sprintf("let l_%s_%d = %s; r += i32(l_%s_%d);", f, i, l, f, i))
				}
			}
		}
	}
	r.funcs = append(r.funcs, "fn syn_forms(x: i32) -> i32 { var r = x; "+strings.Join(body, " ")+" return r; }")
}

// renderAccept prints the WGSL module of a description.
func renderAccept(m *agModule) string {
	s, _ := renderAcceptPC(m)
	return s
}

// renderAcceptPC prints the WGSL module of a description and the pipeline constants for its overrides.
func renderAcceptPC(m *agModule) (string, map[string]float64) {
	r := &agRender{m: m, syn: map[string]bool{}, pcs: map[string]float64{}}
	for _, s := range m.Syn {
		r.syn[s] = true
	}
	for i := range m.Res {
		r.resource(i + 1)
	}
	for k := range m.Helpers {
		r.helper(k + 1)
	}
	r.synHelper()
	needNU, needSink := false, false
	for ei, e := range m.Entries {
		r.entryPoint(ei)
		for _, o := range e.Ops {
			if o.Cf == "if_nonuniform" || o.Cf == "switch" || o.Cf == "switch_nested" {
				needNU = true
			}
			if o.Cf == "if_uniform" {
				r.consts = append(r.consts, "const UNI: bool = true;")
			}
		}
		if e.OutForm == "none" {
			needSink = true
		}
	}
	if needNU {
		r.resd = append(r.resd, "var<private> nu_flag: i32 = 1;")
	}
	if needSink {
		r.resd = append(r.resd, "var<private> sink: f32;")
	}
	// de-duplicate consts (UNI may be requested several times)
	seen := map[string]bool{}
	var consts []string
	for _, c := range r.consts {
		if !seen[c] {
			seen[c] = true
			consts = append(consts, c)
		}
	}
	var sections [][]string
	if m.Order == "use_first" {
		rev := func(a []string) []string {
			b := make([]string, len(a))
			for i, s := range a {
				b[len(a)-1-i] = s
			}
			return b
		}
		sections = [][]string{rev(r.entry), rev(r.funcs), r.resd, rev(r.structs), rev(r.alias), rev(consts), r.late}
	} else {
		sections = [][]string{consts, r.alias, r.structs, r.resd, r.funcs, r.entry, r.late}
	}
	var sb strings.Builder
	for _, s := range sections {
		for _, d := range s {
			sb.WriteString(d)
			sb.WriteString("\n")
		}
	}
	return sb.String(), r.pcs
}
