package checks

import (
	"fmt"
	"math"
	"math/rand"
	"sort"
	"strings"

	"verif/harness/core"
	"verif/harness/gen"
)

// c15SelfTest is the Faults self-test of Policy.tla's trace rules, run on every invocation: hand-made executions of
// three programs of the family - correct ones, which TLC must accept, and corrupted ones (one out-of-object access, one
// access beyond the buffer, one write that the policy skips, one trap, one wrong result word, a wrong clamp), each of
// which TLC must flag with exactly the rule that names the corruption.
func c15SelfTest(c *core.Ctx) error {
	pick := func(desc string) (*gen.PolicyCase, error) {
		l := gen.PolicyIndexCases(rand.New(rand.NewSource(1)), func(d string) bool { return d == desc })
		if len(l) != 1 {
			return nil, fmt.Errorf("program %q not generated", desc)
		}
		return &l[0], nil
	}
	fb := func(f float32) int32 { return int32(math.Float32bits(f)) }
	// struct S { a: u32 @0, arr: array<In, 3> @16 (stride 80), tail: vec4<i32> @256 }  size 272
	// struct In { v: vec4<i32> @0, m: mat2x4<f32> @16, w: array<vec4<i32>, 2> @48 }     size 80
	tgt := make([]int32, 68)
	for i := range tgt {
		tgt[i] = fb(float32(i + 1))
	}
	rd, err := pick("S.arr[i].v[j] storage read i32")
	if err != nil {
		return err
	}
	wr, err := pick("S.arr[i].v[j] storage write i32")
	if err != nil {
		return err
	}
	rd.Inputs = [][][]int32{{{3, 1}, {0, 0, 0, 0, 0}, tgt}, {{-1, 1}, {0, 0, 0, 0, 0}, tgt}}
	wr.Inputs = [][][]int32{{{3, 1}, {0, 0, 0, 0, 0}, tgt}}
	idxReads := []c15Acc{{G: 1, Off: 0, Size: 4}, {G: 1, Off: 4, Size: 4}}
	out := func(w int32) [][]int32 { return [][]int32{nil, {w, 0, 0, 0, 0}, tgt} }
	type tc struct {
		cs     *gen.PolicyCase
		row    int
		pol    string
		acc    []c15Acc
		trap   string
		words  [][]int32
		expect string // "" = accepted, else the rule
	}
	with := func(a ...c15Acc) []c15Acc { return append(append([]c15Acc{}, idxReads...), a...) }
	tgtW := append([]int32{}, tgt...)
	tgtW[45] = 0x7771
	tcs := []tc{
		// Restrict, index 3 of 3 -> element 2: byte 16 + 2*80 + 4 = 180, word 45
		{rd, 0, "RR", with(c15Acc{G: 3, Off: 180, Size: 4, W: 0}, c15Acc{G: 2, Off: 0, Size: 4, W: 1}), "", out(fb(46)), ""},
		{rd, 0, "RR", with(c15Acc{G: 3, Off: 176, Size: 16, W: 0}, c15Acc{G: 2, Off: 0, Size: 4, W: 1}), "", out(fb(46)), ""},                                                                        // whole vector loaded: inside the array
		{rd, 0, "RR", with(c15Acc{G: 3, Off: 260, Size: 4, W: 0}, c15Acc{G: 2, Off: 0, Size: 4, W: 1}), "", out(fb(46)), "R2"},                                                                       // lands in `tail`: in the buffer, outside the array
		{rd, 0, "RR", with(c15Acc{G: 3, Off: 272, Size: 4, W: 0}, c15Acc{G: 2, Off: 0, Size: 4, W: 1}), "", out(fb(46)), "R1"},                                                                       // beyond the buffer
		{rd, 0, "RR", with(c15Acc{G: 3, Off: 180, Size: 4, W: 0}, c15Acc{G: 2, Off: 0, Size: 4, W: 1}), "", out(fb(26)), "R5"},                                                                       // one wrong result word
		{rd, 0, "RR", with(c15Acc{G: 3, Off: 180, Size: 4, W: 0}), "out-of-bounds access chain index 3 of 3", out(0), "R4"},                                                                          // trap
		{rd, 0, "RR", with(c15Acc{G: 3, Off: 16, Size: 240, W: 0}, c15Acc{G: 3, Off: 180, Size: 4, W: 0}, c15Acc{G: 2, Off: 0, Size: 4, W: 1}), "", out(fb(46)), ""},                                 // whole-object load of the array
		{rd, 0, "RR", with(c15Acc{G: 3, Off: 0, Size: 272, W: 0}, c15Acc{G: 3, Off: 180, Size: 4, W: 0}, c15Acc{G: 2, Off: 0, Size: 4, W: 1}), "", out(fb(46)), ""},                                  // whole-object load of the variable
		{rd, 0, "RR", with(c15Acc{G: 3, Off: 0, Size: 264, W: 0}, c15Acc{G: 3, Off: 180, Size: 4, W: 0}, c15Acc{G: 2, Off: 0, Size: 4, W: 1}), "", out(fb(46)), "R2"},                                // neither inside the array nor an enclosing object
		{rd, 0, "RR", with(c15Acc{G: 3, Off: 0, Size: 264, W: 0, Fix: 1}, c15Acc{G: 3, Off: 180, Size: 4, W: 0}, c15Acc{G: 2, Off: 0, Size: 4, W: 1}), "", out(fb(46)), ""},                          // ... unless it is index-independent
		{rd, 0, "RR", with(c15Acc{G: 3, Off: 0, Size: 280, W: 0, Fix: 1}, c15Acc{G: 3, Off: 180, Size: 4, W: 0}, c15Acc{G: 2, Off: 0, Size: 4, W: 1}), "", out(fb(46)), "R1"},                        // R1 holds for those too
		{rd, 0, "RR", with(c15Acc{G: 3, Off: 180, Size: 4, W: 0}, c15Acc{G: 2, Off: 0, Size: 4, W: 1}, c15Acc{G: 3, Off: 180, Size: 4, W: 1}), "", [][]int32{nil, {fb(46), 0, 0, 0, 0}, tgtW}, "R5"}, // a write the program never makes
		// Restrict, i32 index -1: clamped to len-1 (unsigned reinterpretation) or to 0; never to 1
		{rd, 1, "RR", with(c15Acc{G: 3, Off: 180, Size: 4, W: 0}, c15Acc{G: 2, Off: 0, Size: 4, W: 1}), "", [][]int32{nil, {fb(46), 0, 0, 0, 0}, tgt}, ""},
		{rd, 1, "RR", with(c15Acc{G: 3, Off: 20, Size: 4, W: 0}, c15Acc{G: 2, Off: 0, Size: 4, W: 1}), "", [][]int32{nil, {fb(6), 0, 0, 0, 0}, tgt}, ""},
		{rd, 1, "RR", with(c15Acc{G: 3, Off: 100, Size: 4, W: 0}, c15Acc{G: 2, Off: 0, Size: 4, W: 1}), "", [][]int32{nil, {fb(26), 0, 0, 0, 0}, tgt}, "R5"},
		// ReadZeroSkipWrite: read gives zero, with or without touching the array; the write is skipped
		{rd, 0, "ZZ", with(c15Acc{G: 2, Off: 0, Size: 4, W: 1}), "", out(0), ""},
		{rd, 0, "ZZ", with(c15Acc{G: 3, Off: 180, Size: 4, W: 0}, c15Acc{G: 2, Off: 0, Size: 4, W: 1}), "", out(0), ""},
		{rd, 0, "ZZ", with(c15Acc{G: 2, Off: 0, Size: 4, W: 1}), "", out(fb(46)), "R5"},
		{wr, 0, "ZZ", with(), "", out(0), ""},
		{wr, 0, "ZZ", with(c15Acc{G: 3, Off: 180, Size: 4, W: 1}), "", [][]int32{nil, {0, 0, 0, 0, 0}, tgtW}, "R3"}, // the skipped write happened
		{wr, 0, "RR", with(c15Acc{G: 3, Off: 180, Size: 4, W: 1}), "", [][]int32{nil, {0, 0, 0, 0, 0}, tgtW}, ""},
		{wr, 0, "RR", with(), "", out(0), "R5"}, // Restrict: the clamped write must happen
	}
	var groups []*c15Group
	want := map[int]string{}
	for i, t := range tcs {
		w := make([][]int32, len(t.words))
		for k := range t.words {
			w[k] = t.words[k]
			if k == 0 {
				w[k] = t.cs.Inputs[t.row][0]
			}
		}
		r := &c15Run{id: i + 1, cs: t.cs, row: t.row, be: "msl", pol: t.pol, acc: t.acc, trap: t.trap, words: w}
		groups = append(groups, &c15Group{cs: t.cs, row: t.row, pol: t.pol, runs: []*c15Run{r}})
		if t.expect != "" {
			want[r.id] = t.expect
		}
	}
	// a run under an option set that does not select the group's policy must be rejected as a harness error
	groups = append(groups, &c15Group{cs: rd, row: 0, pol: "RR", runs: []*c15Run{{id: 99, cs: rd, row: 0, be: "hlsl", pol: "HR",
		acc: with(c15Acc{G: 3, Off: 180, Size: 4, W: 0}, c15Acc{G: 2, Off: 0, Size: 4, W: 1}), words: [][]int32{{3, 1}, {fb(46), 0, 0, 0, 0}, tgt}}}})
	want[99] = "harness:"
	bad, err := c15Validate(c, groups)
	if err != nil {
		return err
	}
	got := map[int]string{}
	for _, v := range bad {
		got[v.ID] = v.Rule
	}
	var errs []string
	for id, rule := range want {
		if !strings.HasPrefix(got[id], rule) {
			errs = append(errs, fmt.Sprintf("run %d: expected rule %s, TLC reported %q", id, rule, got[id]))
		}
	}
	for id, rule := range got {
		if want[id] == "" {
			errs = append(errs, fmt.Sprintf("run %d: a correct execution was rejected with %q", id, rule))
		}
	}
	sort.Strings(errs)
	if len(errs) > 0 {
		return fmt.Errorf("%s", strings.Join(errs, "; "))
	}
	c.Cov["policy_selftest_runs"] = len(tcs) + 1
	c.Cov["policy_selftest_faults_flagged"] = len(want)
	return nil
}
