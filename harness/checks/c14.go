package checks

// C14 - pipeline-overridable constants behave as substituted WGSL constants.
//
// spec/Overrides.tla states what a module with override declarations means under a value map K (resolution by
// identifier string, conversion of the API number to the override's type, default initialisers evaluated as
// override-expressions in dependency order, errors).  spec/OverridesGen.tla is the generator: TLC enumerates (or
// samples) declarations x value maps, checks the lemmas of the specification on every case and prints it with the
// predicted resolved values / ERROR and the predicted final words of a probe program.  This file replays every case
// into the real code through the three routes the property names and compares.

import (
	"encoding/json"
	"fmt"
	"math"
	"os"
	"regexp"
	"sort"
	"strconv"
	"strings"
	"sync"
	"time"

	"github.com/gogpu/naga/glsl"
	"github.com/gogpu/naga/ir"
	"github.com/gogpu/naga/msl"

	"verif/harness/core"
	"verif/harness/drive"
	"verif/harness/glslx"
	"verif/harness/irx"
	"verif/harness/spv"
	"verif/harness/wg"
	"verif/harness/xrt"
)

func init() { Registry["C14"] = runC14 }

// ---- cases as printed by OverridesGen.tla --------------------------------------------------------------------------

type ovK struct {
	Key string `json:"key"`
	C   string `json:"c"`
	S   int    `json:"s"`
	M   int32  `json:"m"`
	E   int    `json:"e"`
	Cls string `json:"cls"`
}

// Float is the IEEE double the record denotes: (-1)^s * U(m) * 2^e, or NaN / +-Inf.
func (k ovK) Float() float64 {
	switch k.C {
	case "nan":
		return math.NaN()
	case "pinf":
		return math.Inf(1)
	case "ninf":
		return math.Inf(-1)
	}
	v := math.Ldexp(float64(uint32(k.M)), k.E)
	if k.S == 1 {
		v = math.Copysign(v, -1)
	}
	return v
}

type ovSlot struct {
	Ix   int      `json:"ix"`
	Kind string   `json:"kind"` // override | global | body
	Name string   `json:"name"`
	Ty   string   `json:"ty"`
	St   string   `json:"st"` // val | valq | und | err
	V    int32    `json:"v"`
	Tags []string `json:"tags"`
}

type ovCase struct {
	H       int      `json:"h"`
	Prog    wg.N     `json:"prog"`
	K       []ovK    `json:"K"`
	Slots   []ovSlot `json:"slots"`
	ErrReq  bool     `json:"errreq"`
	ErrOk   bool     `json:"errok"`
	ErrTags []string `json:"errtags"`
	AllTags []string `json:"alltags"`
	Wg      struct {
		St   string   `json:"st"`
		X    int32    `json:"x"`
		Tags []string `json:"tags"`
		Used int      `json:"used"`
	} `json:"wg"`
	OK  bool    `json:"ok"`
	Why string  `json:"why"`
	Out []int32 `json:"out"`

	Cfg string `json:"-"`
	src string
}

func (cs *ovCase) constants() ir.PipelineConstants {
	k := ir.PipelineConstants{}
	for _, e := range cs.K {
		k[e.Key] = e.Float()
	}
	return k
}

func (cs *ovCase) kText() string {
	var p []string
	for _, e := range cs.K {
		p = append(p, fmt.Sprintf("%q: %s", e.Key, strconv.FormatFloat(e.Float(), 'g', -1, 64)))
	}
	return "{" + strings.Join(p, ", ") + "}"
}

func tagString(tags ...[]string) string {
	set := map[string]bool{}
	for _, ts := range tags {
		for _, t := range ts {
			set[t] = true
		}
	}
	var out []string
	for t := range set {
		out = append(out, t)
	}
	sort.Strings(out)
	return strings.Join(out, ",")
}

// ---- generator configurations ------------------------------------------------------------------------------------------

type ovCfg struct {
	Name               string
	MinN, MaxN         int
	Types, Fams, DFams []string
	LitN               int
	ArithOps           []string
	IdRule, KClasses   string
	KModes             []string
	Orders             string
	Uses               []string // how the probe uses each override: body | global | hidden (nil = body)
	WgModes, Extras    []int
	SameType, NeedRef  bool
	NShards            int
	Faults             []string
	Invariants         []string
	Simulate           int // > 0: seeded simulation instead of exhaustive search
	quickShards        int // shards of the exhaustive space replayed in the quick tier
}

func tlaStrSet(s []string) string {
	q := make([]string, len(s))
	for i, x := range s {
		q[i] = strconv.Quote(x)
	}
	return "{" + strings.Join(q, ", ") + "}"
}

func tlaIntSet(s []int) string {
	q := make([]string, len(s))
	for i, x := range s {
		q[i] = strconv.Itoa(x)
	}
	return "{" + strings.Join(q, ", ") + "}"
}

func tlaBool(b bool) string {
	if b {
		return "TRUE"
	}
	return "FALSE"
}

func (g ovCfg) cfgText(shard int) string {
	inv := g.Invariants
	if inv == nil {
		inv = []string{"L1", "L2", "L3", "L4", "SemAgreeEmit"}
	}
	n := g.NShards
	if n < 1 {
		n = 1
	}
	uses := g.Uses
	if uses == nil {
		uses = []string{"body"}
	}
	return fmt.Sprintf(`SPECIFICATION Spec
CONSTANTS
 Faults = %s
 MinN = %d
 MaxN = %d
 Types = %s
 Fams = %s
 DFams = %s
 LitN = %d
 ArithOps = %s
 IdRule = %q
 KClasses = %q
 KModes = %s
 Orders = %q
 Uses = %s
 WgModes = %s
 Extras = %s
 SameType = %s
 NeedRef = %s
 NShards = %d
 Shard = %d
INVARIANTS %s
CHECK_DEADLOCK FALSE
`, tlaStrSet(g.Faults), g.MinN, g.MaxN, tlaStrSet(g.Types), tlaStrSet(g.Fams), tlaStrSet(g.DFams), g.LitN, tlaStrSet(g.ArithOps),
		g.IdRule, g.KClasses, tlaStrSet(g.KModes), g.Orders, tlaStrSet(uses), tlaIntSet(g.WgModes), tlaIntSet(g.Extras), tlaBool(g.SameType), tlaBool(g.NeedRef),
		n, shard, strings.Join(inv, " "))
}

var (
	ovAllTypes = []string{"bool", "i32", "u32", "f32"}
	ovAllFams  = []string{"none", "atom", "litf", "const", "un", "arith", "div", "rem", "bit", "shift", "logic", "cmp", "call", "cast", "deep"}
	ovAllOps   = []string{"+", "-", "*"}
	ovAllModes = []string{"key", "name_on_id", "both"}
	ovAllUses  = []string{"body", "global", "hidden"}
)

// ovConfigs are the bounded spaces TLC enumerates exhaustively (init / derived / kmap / deps) and the space it samples (sim).
func ovConfigs() []ovCfg {
	return []ovCfg{
		// every initialiser shape of depth <= 2 over literals and module constants, one override, with and without a supplied value
		{Name: "init", MinN: 1, MaxN: 1, Types: ovAllTypes, Fams: ovAllFams, LitN: 3, ArithOps: ovAllOps, IdRule: "none", KClasses: "ok",
			KModes: []string{"key"}, Orders: "id", WgModes: []int{0}, Extras: []int{0}, NShards: 8, quickShards: 1},
		// every derived expression (global initialiser, expression in the body) over one override
		{Name: "derived", MinN: 1, MaxN: 1, Types: ovAllTypes, Fams: []string{"atom"}, DFams: ovAllFams[1:], LitN: 2, ArithOps: ovAllOps, IdRule: "alt",
			KClasses: "ok", KModes: []string{"key"}, Orders: "id", WgModes: []int{0}, Extras: []int{0}, NeedRef: true, NShards: 16, quickShards: 1},
		// every class of supplied number x addressing mode x type, with and without default, workgroup size from the override
		{Name: "kmap", MinN: 1, MaxN: 1, Types: ovAllTypes, Fams: []string{"none", "atom"}, DFams: []string{"kprobe"}, LitN: 1, ArithOps: ovAllOps,
			IdRule: "free", KClasses: "all", KModes: ovAllModes, Orders: "id", WgModes: []int{0, 1}, Extras: []int{0, 1}, NShards: 8, quickShards: 2},
		// dependency shapes over 2..3 overrides of one type: chain, diamond, forward references (every declaration order)
		{Name: "deps", MinN: 2, MaxN: 3, Types: ovAllTypes, Fams: []string{"atom", "arith"}, DFams: []string{"kprobe"}, LitN: 1, ArithOps: []string{"+"},
			IdRule: "alt", KClasses: "ok", KModes: []string{"key"}, Orders: "all", WgModes: []int{0}, Extras: []int{0}, SameType: true, NeedRef: true,
			NShards: 32, quickShards: 1},
		// two dependent overrides x the classes of supplied numbers that convert (ok, a second class, the 6th class): what dependants see
		{Name: "depsk", MinN: 2, MaxN: 2, Types: ovAllTypes, Fams: []string{"atom", "arith"}, DFams: []string{"kprobe"}, LitN: 1, ArithOps: []string{"+", "*"},
			IdRule: "alt", KClasses: "mix", KModes: []string{"key"}, Orders: "all", WgModes: []int{0}, Extras: []int{0}, SameType: true, NeedRef: true,
			NShards: 8, quickShards: 1},
		// how an override reaches the pipeline: named by the entry point, only by the initialiser of a var<private>, only by another
		// override's default, only by @workgroup_size, not at all - x with / without default x with / without @id x supplied / omitted
		{Name: "uses", MinN: 1, MaxN: 2, Types: ovAllTypes, Fams: []string{"none", "atom", "arith"}, LitN: 1, ArithOps: []string{"+"},
			IdRule: "alt", KClasses: "ok", KModes: []string{"key"}, Orders: "rev", Uses: ovAllUses, WgModes: []int{0, 1}, Extras: []int{0}, SameType: true,
			NShards: 32, quickShards: 1},
		// beyond the bounds: up to 4 overrides of mixed types, every family, every class, every order
		{Name: "sim", MinN: 2, MaxN: 4, Types: ovAllTypes, Fams: ovAllFams, DFams: ovAllFams[1:], LitN: 3, ArithOps: ovAllOps, IdRule: "free",
			KClasses: "all", KModes: ovAllModes, Orders: "all", Uses: ovAllUses, WgModes: []int{0, 1}, Extras: []int{0, 1}, NShards: 1, Simulate: 1},
	}
}

// ovRunTLC runs TLC and repeats a run that was killed from outside (exit by signal: other TLC users on the machine).
var ovTLCSem = make(chan struct{}, core.Cores())

func ovRunTLC(c *core.Ctx, o core.TLCOpts) (*core.TLCResult, error) {
	ovTLCSem <- struct{}{}
	defer func() { <-ovTLCSem }()
	var r *core.TLCResult
	var err error
	for attempt := 0; attempt < 3; attempt++ {
		r, err = c.RunTLC(o)
		if err != nil || r.OK || r.Violated != "" || !(strings.Contains(r.Err, "exit status 143") || strings.Contains(r.Err, "exit status 137") || strings.Contains(r.Err, "signal")) {
			return r, err
		}
	}
	return r, err
}

// ovJob is one TLC process of the generator: one shard of an exhaustive space, or one seeded simulation.
type ovJob struct {
	cfg    ovCfg
	shard  int
	seed   int64
	simNum int
}

// ovGenerate runs the generator jobs (at most core.Cores() TLC processes at a time); every printed case is parsed.
func ovGenerate(c *core.Ctx, jobs []ovJob) ([]*ovCase, map[string]int, error) {
	var mu sync.Mutex
	var out []*ovCase
	per := map[string]int{}
	var firstErr error
	fail := func(err error) {
		mu.Lock()
		if firstErr == nil {
			firstErr = err
		}
		mu.Unlock()
	}
	core.ParMap(len(jobs), core.Cores(), func(i int) {
		g := jobs[i].cfg
		o := core.TLCOpts{Spec: "OverridesGen", CfgText: g.cfgText(jobs[i].shard), Config: fmt.Sprintf("OverridesGen_%s_%d.cfg", g.Name, i),
			Workers: 1, Timeout: 60 * time.Minute, HeapGB: 3}
		if g.Simulate > 0 {
			o.Simulate = fmt.Sprintf("num=%d", jobs[i].simNum)
			o.Depth = 30
			o.Seed = jobs[i].seed
		}
		r, err := ovRunTLC(c, o)
		if err != nil {
			fail(err)
			return
		}
		if !r.OK {
			if r.Violated != "" {
				fail(fmt.Errorf("OverridesGen/%s: %s - a lemma of the specification fails on a generated case\n%s", g.Name, r.Violated, r.Tail(40)))
			} else {
				fail(fmt.Errorf("OverridesGen/%s: %s\n%s", g.Name, r.Err, r.Tail(25)))
			}
			return
		}
		c.AddTLC(r)
		for _, l := range r.Printed {
			cs := &ovCase{Cfg: g.Name}
			if err := json.Unmarshal([]byte(l), cs); err != nil {
				fail(fmt.Errorf("bad OverridesGen line: %v: %.200s", err, l))
				return
			}
			mu.Lock()
			out = append(out, cs)
			per[g.Name]++
			mu.Unlock()
		}
	})
	sort.SliceStable(out, func(i, j int) bool {
		if out[i].Cfg != out[j].Cfg {
			return out[i].Cfg < out[j].Cfg
		}
		return out[i].H < out[j].H
	})
	return out, per, firstErr
}

// ---- self-test of the specification: every seeded fault must break a lemma ---------------------------------------------

func ovSelfTest(c *core.Ctx) error {
	base := ovCfg{Name: "faults", MinN: 1, MaxN: 2, Types: []string{"u32"}, Fams: []string{"atom", "arith"}, LitN: 1, ArithOps: []string{"+"},
		IdRule: "alt", KClasses: "few", KModes: ovAllModes, Orders: "all", WgModes: []int{0}, Extras: []int{0}, SameType: true,
		Invariants: []string{"L1", "L2", "L3", "L4"}}
	want := map[string]string{"index_order": "L1", "name_shadows_id": "L2", "default_for_dep": "L3", "u32_wrap": "L4"}
	faults := []string{"", "index_order", "name_shadows_id", "default_for_dep", "u32_wrap"}
	errs := make([]error, len(faults))
	core.ParMap(len(faults), core.Cores(), func(i int) {
		g := base
		if faults[i] != "" {
			g.Faults = []string{faults[i]}
		}
		r, err := ovRunTLC(c, core.TLCOpts{Spec: "OverridesGen", CfgText: g.cfgText(0), Config: fmt.Sprintf("OverridesGen_fault%d.cfg", i), Workers: 1, Timeout: 20 * time.Minute, HeapGB: 2})
		if err != nil {
			errs[i] = err
			return
		}
		if faults[i] == "" {
			if !r.OK {
				errs[i] = fmt.Errorf("lemmas do not hold on the fault-free specification: %s %s\n%s", r.Violated, r.Err, r.Tail(30))
			} else {
				c.AddTLC(r)
			}
			return
		}
		if !strings.Contains(r.Violated, "Invariant "+want[faults[i]]+" ") {
			errs[i] = fmt.Errorf("seeded fault %s: expected lemma %s to be violated, TLC says %q %q\n%s", faults[i], want[faults[i]], r.Violated, r.Err, r.Tail(20))
		}
	})
	for _, e := range errs {
		if e != nil {
			return e
		}
	}
	return nil
}

// ---- routes ---------------------------------------------------------------------------------------------------------------

type ovStats struct {
	mu                                                   sync.Mutex
	units, unitsAgree, slots, slotsAgree, slotsMasked    int
	errExpected, errAccepted, wgChecked, wgAgree, fpSame int
	cleanCases, cleanAgree                               int
	byRoute                                              map[string][2]int // route/backend -> judged, agreeing
	clean                                                map[string][2]int // route/backend -> words outside every known-finding predicate: compared, agreeing
	byTag                                                map[string][2]int // tag -> slots compared, agreeing
}

func (s *ovStats) unit(route string, agree bool) {
	s.mu.Lock()
	defer s.mu.Unlock()
	s.units++
	v := s.byRoute[route]
	v[0]++
	if agree {
		s.unitsAgree++
		v[1]++
	}
	s.byRoute[route] = v
}

var reHlslThreads = regexp.MustCompile(`\[numthreads\((\d+), *(\d+), *(\d+)\)\]`)

// ovObservedWg reads the workgroup size an artefact declares (x component); ok=false when the artefact does not carry it.
func ovObservedWg(backend string, art []byte, resolved *ir.Module) (uint32, bool) {
	switch backend {
	case "spv":
		m, err := spv.Decode(art)
		if err != nil {
			return 0, false
		}
		for _, ep := range m.EntryPoints {
			for _, md := range ep.Modes {
				if md.Mode == 17 && !md.IsID && len(md.Operands) >= 3 {
					return md.Operands[0], true
				}
			}
		}
	case "glsl":
		u, err := glslx.Parse(string(art))
		if err == nil && u.HasLocalSize {
			return u.LocalSize[0], true
		}
	case "hlsl":
		if m := reHlslThreads.FindSubmatch(art); m != nil {
			v, _ := strconv.Atoi(string(m[1]))
			return uint32(v), true
		}
	case "msl":
		// MSL text carries no threadgroup size: the size is what the resolved module tells the API user
		if resolved != nil {
			for _, ep := range resolved.EntryPoints {
				if ep.Stage == ir.StageCompute {
					return ep.Workgroup[0], true
				}
			}
		}
	}
	return 0, false
}

func safeErr(f func() error) (err error, panicked bool) {
	defer func() {
		if r := recover(); r != nil {
			err, panicked = fmt.Errorf("panic: %v", r), true
		}
	}()
	return f(), false
}

type ovRunner struct {
	c     *core.Ctx
	st    *ovStats
	quiet bool // self-test: count, do not report
	known []core.Finding
}

var (
	ovDumpRe   *regexp.Regexp
	ovDumpOnce sync.Once
	ovDumpMu   sync.Mutex
	ovDumpSeen = map[string]int{}
)

// ovDump prints the full case of a disagreement whose signature matches $C14_DUMP (development aid).
func ovDump(sig, what string, rep map[string]any) {
	ovDumpOnce.Do(func() {
		if p := os.Getenv("C14_DUMP"); p != "" {
			ovDumpRe, _ = regexp.Compile(p)
		}
	})
	if ovDumpRe == nil || !ovDumpRe.MatchString(sig) {
		return
	}
	ovDumpMu.Lock()
	defer ovDumpMu.Unlock()
	if ovDumpSeen[sig] >= 2 {
		return
	}
	ovDumpSeen[sig]++
	fmt.Fprintf(os.Stderr, "==== DUMP %s\n%s\n%s\nconstants %s\n%v\n", sig, what, rep["wgsl"], rep["constants"], rep["emitted"])
}

// coveredByKnown reports whether a (hypothetical) disagreement with this descriptor would match a known finding; keys the
// descriptor does not have (what was observed) are not held against the finding.
func (r *ovRunner) coveredByKnown(desc map[string]string) bool {
	for _, f := range r.known {
		if f.Status != "known" || len(f.Match) == 0 {
			continue
		}
		ok := true
		for k, re := range f.Match {
			v, has := desc[k]
			if !has {
				continue
			}
			if m, _ := regexp.MatchString("^(?:"+re+")$", v); !m {
				ok = false
				break
			}
		}
		if ok {
			return true
		}
	}
	return false
}

func (r *ovRunner) report(cs *ovCase, what string, desc map[string]string, extra map[string]any) {
	if r.quiet {
		return
	}
	desc["family"] = "override"
	desc["cfg"] = cs.Cfg
	desc["sig"] = fmt.Sprintf("%s|%s|%s|%s|%s", desc["route"], desc["backend"], desc["kind"], desc["slot"], desc["hazards"])
	rep := map[string]any{"wgsl": cs.src, "constants": cs.kText(), "predicted": cs.Slots, "predicted_words": cs.Out, "error_required": cs.ErrReq,
		"error_acceptable": cs.ErrOk, "workgroup": cs.Wg}
	for k, v := range extra {
		rep[k] = v
	}
	if !r.coveredByKnown(desc) {
		ovDump(desc["sig"], what, rep)
	}
	r.st.mu.Lock()
	r.c.Disagree++
	r.st.mu.Unlock()
	r.c.Report(what, desc, rep)
}

// judge compares one artefact (or error) of one route/backend with the prediction.  resolveErr is the error of the
// resolution step (ProcessOverrides or Compile with PipelineConstants).
func (r *ovRunner) judge(cs *ovCase, route, backend string, resolveErr error, art []byte, resolved *ir.Module) {
	c := r.c
	key := fmt.Sprintf("%s/%d/%s/%s", cs.Cfg, cs.H, route, backend)
	unitName := route + "/" + backend
	desc := map[string]string{"route": route, "backend": backend, "slot": "-"}
	if cs.ErrReq {
		r.st.mu.Lock()
		r.st.errExpected++
		r.st.mu.Unlock()
		c.Eval(key, true)
		if resolveErr != nil {
			r.st.unit(unitName, true)
			return
		}
		r.st.unit(unitName, false)
		desc["kind"] = "missing_error"
		desc["hazards"] = tagString(cs.ErrTags)
		r.report(cs, fmt.Sprintf("%s: pipeline creation must fail (%s) but override resolution succeeded; constants %s", route, desc["hazards"], cs.kText()), desc, nil)
		return
	}
	if resolveErr != nil {
		c.Eval(key, true)
		if cs.ErrOk {
			r.st.mu.Lock()
			r.st.errAccepted++
			r.st.mu.Unlock()
			r.st.unit(unitName, true)
			return
		}
		r.st.unit(unitName, false)
		desc["kind"] = "unexpected_error"
		desc["hazards"] = tagString(cs.AllTags)
		desc["errclass"] = trimReason(resolveErr.Error())
		r.report(cs, fmt.Sprintf("%s: override resolution fails (%v) although every override has a value; constants %s", route, resolveErr, cs.kText()), desc,
			map[string]any{"error": resolveErr.Error()})
		return
	}
	// executed comparison
	t := target{Name: backend}
	emitted := t.entryName(art, "main")
	outG := wg.L(cs.Prog, "globals")[0]
	in := xrt.Input{Entry: emitted, Buffers: map[string][]byte{t.slotFor(outG): make([]byte, 4*len(cs.Out))}, NumWorkgroups: [3]uint32{1, 1, 1}, MaxSteps: 100000}
	wgSize := [3]uint32{1, 1, 1}
	if x, ok := ovObservedWg(backend, art, resolved); ok && x > 0 {
		wgSize[0] = x
	}
	out := t.exec(art, emitted, wgSize, in)
	if out.Skip != "" && strings.HasPrefix(out.Skip, "invalid ") {
		// the executor's front end rejects the text as ill-formed in the target language (not: outside the executor's subset)
		c.Eval(key, true)
		r.st.unit(unitName, false)
		desc["kind"] = "invalid_code"
		desc["hazards"] = tagString(cs.AllTags)
		desc["errclass"] = trimReason(out.Skip)
		r.report(cs, fmt.Sprintf("%s/%s: the emitted code is not valid in the target language: %s", route, backend, out.Skip), desc, map[string]any{"emitted": emittedText(t, art)})
		return
	}
	if out.Skip != "" {
		c.Skip(backend + " executor: " + trimReason(out.Skip))
		return
	}
	if out.Trap != "" {
		for _, s := range cs.Slots {
			if s.St == "und" {
				// e.g. integer overflow in an initialiser: the specification leaves the value open, so it does not claim the code is free of target-undefined conversions either
				c.Skip("target-undefined operation in a case whose value the specification leaves open: " + trimReason(out.Trap))
				return
			}
		}
	}
	c.Eval(key, true)
	if out.Trap != "" {
		r.st.unit(unitName, false)
		desc["kind"] = "trap"
		desc["hazards"] = tagString(cs.AllTags)
		desc["trap"] = trimReason(out.Trap)
		r.report(cs, fmt.Sprintf("%s/%s: emitted code reaches a target-undefined operation: %s", route, backend, out.Trap), desc, map[string]any{"emitted": emittedText(t, art)})
		return
	}
	got := bytes2words(in.Buffers[t.slotFor(outG)])
	agree := true
	for _, s := range cs.Slots {
		if s.St != "val" && s.St != "valq" {
			r.st.mu.Lock()
			r.st.slotsMasked++
			r.st.mu.Unlock()
			continue
		}
		want := cs.Out[s.Ix]
		g := got[s.Ix]
		same := g == want || (s.Ty == "f32" && uint32(g)&0x7fffffff == 0 && uint32(want)&0x7fffffff == 0)
		clean := !r.coveredByKnown(map[string]string{"route": route, "backend": backend, "kind": "value", "slot": s.Kind, "ty": s.Ty, "hazards": tagString(s.Tags)})
		r.st.mu.Lock()
		r.st.slots++
		if same {
			r.st.slotsAgree++
		}
		if clean {
			v := r.st.clean[route+"/"+backend]
			v[0]++
			if same {
				v[1]++
			}
			r.st.clean[route+"/"+backend] = v
		}
		for _, tg := range s.Tags {
			v := r.st.byTag[tg]
			v[0]++
			if same {
				v[1]++
			}
			r.st.byTag[tg] = v
		}
		r.st.mu.Unlock()
		if same {
			continue
		}
		agree = false
		obs := "nonzero"
		if uint32(g)&0x7fffffff == 0 {
			obs = "zero"
		}
		d := map[string]string{"route": route, "backend": backend, "kind": "value", "slot": s.Kind, "ty": s.Ty, "hazards": tagString(s.Tags), "observed": obs}
		r.report(cs, fmt.Sprintf("%s/%s: %s %s of type %s holds %d (0x%08x), the substituted WGSL program gives %d (0x%08x); constants %s; depends on [%s]",
			route, backend, s.Kind, s.Name, s.Ty, g, uint32(g), want, uint32(want), cs.kText(), d["hazards"]), d,
			map[string]any{"observed_words": got, "emitted": emittedText(t, art)})
	}
	// workgroup size
	if cs.Wg.Used == 1 && (cs.Wg.St == "val" || cs.Wg.St == "valq") {
		if x, ok := ovObservedWg(backend, art, resolved); ok {
			r.st.mu.Lock()
			r.st.wgChecked++
			if int32(x) == cs.Wg.X {
				r.st.wgAgree++
			}
			r.st.mu.Unlock()
			if int32(x) != cs.Wg.X {
				d := map[string]string{"route": route, "backend": backend, "kind": "wgsize", "slot": "workgroup_size", "hazards": tagString(cs.Wg.Tags), "observed": strconv.Itoa(int(x))}
				r.report(cs, fmt.Sprintf("%s/%s: the artefact declares workgroup size x = %d, @workgroup_size(override) resolves to %d; constants %s", route, backend, x, cs.Wg.X, cs.kText()), d,
					map[string]any{"emitted": emittedText(t, art)})
			}
		}
	}
	r.st.unit(unitName, agree)
}

// fingerprintCheck reports an alteration of the caller's module.
func (r *ovRunner) fingerprintCheck(cs *ovCase, route, before string, m *ir.Module) {
	after := irx.Fingerprint(m)
	if after == before {
		r.st.mu.Lock()
		r.st.fpSame++
		r.st.mu.Unlock()
		return
	}
	d := map[string]string{"route": route, "backend": "-", "kind": "mutation", "slot": "-", "hazards": tagString(cs.AllTags)}
	r.report(cs, fmt.Sprintf("%s: override resolution altered the caller's module (canonical fingerprint differs); constants %s", route, cs.kText()), d, nil)
}

func (r *ovRunner) runCase(cs *ovCase) {
	c := r.c
	if !cs.OK {
		c.Skip("specification leaves the probe program undecided: " + trimReason(cs.Why))
		return
	}
	cs.src = wg.PrintOv(cs.Prog)
	K := cs.constants()
	lower := func() *ir.Module {
		m, stage, err := drive.Front(cs.src)
		if err != nil {
			c.Skip(fmt.Sprintf("front end rejected the program at %s (judged by C08): %s", stage, trimReason(err.Error())))
			return nil
		}
		return m
	}
	// route (a): the exported pass, then every backend
	if m := lower(); m != nil {
		fp := irx.Fingerprint(m)
		clone := ir.CloneModuleForOverrides(m)
		err, _ := safeErr(func() error { return ir.ProcessOverrides(clone, K) })
		r.fingerprintCheck(cs, "po", fp, m)
		if err != nil || cs.ErrReq {
			r.judge(cs, "po", "-", err, nil, nil)
		} else {
			for _, b := range []string{"spv", "hlsl", "msl", "glsl"} {
				opt := "default"
				if b == "glsl" {
					opt = "430"
				}
				art, cerr := drive.Compile(b, opt, clone, "main")
				if cerr != nil {
					c.Eval(fmt.Sprintf("%s/%d/po/%s", cs.Cfg, cs.H, b), true)
					r.st.unit("po/"+b, false)
					d := map[string]string{"route": "po", "backend": b, "kind": "backend_error", "slot": "-", "hazards": tagString(cs.AllTags), "errclass": trimReason(cerr.Error())}
					r.report(cs, fmt.Sprintf("po/%s: the backend rejects the module ProcessOverrides returned: %v", b, cerr), d, map[string]any{"error": cerr.Error()})
					continue
				}
				r.judge(cs, "po", b, nil, art, clone)
			}
		}
	}
	if len(K) == 0 {
		return // an empty map is "option not set" for the two backends
	}
	// route (b): glsl.Options.PipelineConstants
	if m := lower(); m != nil {
		fp := irx.Fingerprint(m)
		o := drive.GlslOptions("430", "main")
		o.PipelineConstants = K
		var art string
		err, _ := safeErr(func() error {
			var e error
			art, _, e = glsl.Compile(m, o)
			return e
		})
		r.fingerprintCheck(cs, "glsl_pc", fp, m)
		r.judge(cs, "glsl_pc", "glsl", err, []byte(art), nil)
	}
	// route (c): msl.Options.PipelineConstants
	if m := lower(); m != nil {
		fp := irx.Fingerprint(m)
		o := drive.MslOptions("default")
		o.PipelineConstants = map[string]float64(K)
		var art string
		err, _ := safeErr(func() error {
			var e error
			art, _, e = msl.Compile(m, o)
			return e
		})
		r.fingerprintCheck(cs, "msl_pc", fp, m)
		r.judge(cs, "msl_pc", "msl", err, []byte(art), nil)
	}
}

// ovComparatorSelfTest corrupts one predicted word of agreeing cases and requires the comparison to notice.
func ovComparatorSelfTest(c *core.Ctx, cases []*ovCase) (int, error) {
	tried := 0
	probe := core.NewCtx("C14selftest", c.Tier, "selftest")
	defer os.RemoveAll(probe.WorkDir)
	for _, cs := range cases {
		if tried >= 5 {
			break
		}
		if !cs.OK || cs.ErrReq || len(cs.Slots) == 0 || cs.Slots[0].St != "val" {
			continue
		}
		st := &ovStats{byRoute: map[string][2]int{}, byTag: map[string][2]int{}, clean: map[string][2]int{}}
		r := &ovRunner{c: probe, st: st, quiet: true}
		cp := *cs
		cp.Out = append([]int32(nil), cs.Out...)
		r.runCase(&cp)
		if st.units == 0 || st.unitsAgree != st.units {
			continue // not an agreeing case
		}
		tried++
		st2 := &ovStats{byRoute: map[string][2]int{}, byTag: map[string][2]int{}, clean: map[string][2]int{}}
		r2 := &ovRunner{c: probe, st: st2, quiet: true}
		cp.Out[cp.Slots[0].Ix] ^= 0x40
		r2.runCase(&cp)
		if st2.unitsAgree != 0 {
			return tried, fmt.Errorf("a corrupted prediction (word %d of case %s/%d) was not noticed by %d of %d comparisons", cp.Slots[0].Ix, cs.Cfg, cs.H, st2.unitsAgree, st2.units)
		}
	}
	if tried == 0 {
		return 0, fmt.Errorf("no agreeing case found to corrupt")
	}
	return tried, nil
}

func runC14(tier, replay string) int {
	c := core.NewCtx("C14", tier, "translation_validation")
	c.Cov["rule"] = "TLC explores the generator state machine spec/OverridesGen.tla - AddOverride(type, @id?, initialiser shape) / AddDerived / ChooseK(class of the supplied number, addressing mode) / Layout(declaration order, workgroup-size override, extra key) - exhaustively over four bounded spaces (init: every initialiser shape of depth <= 2 over literals and module constants; derived: every derived expression over one override; kmap: every class of supplied number x addressing mode x type; deps: chains / diamonds / forward references over 2-3 overrides in every declaration order) and by seeded simulation beyond them (up to 4 overrides of mixed types). On every final state TLC checks the lemmas L1-L4 of spec/Overrides.tla and the agreement of the override-expression evaluator with the WGSL abstract machine, and prints the case with the predicted resolved value or ERROR per override and the predicted final words of the probe program Run(Subst(p, Resolve(decls, K))). Each case is replayed into naga through ir.CloneModuleForOverrides + ir.ProcessOverrides followed by the SPIR-V, HLSL, MSL and GLSL backends, through glsl.Options.PipelineConstants and through msl.Options.PipelineConstants; the emitted code is executed by the executors and every word the standards pin is compared, as are the declared workgroup size, required / unexpected errors and the caller's module fingerprint. A case = (declarations, value map, route, backend); distinct by the generator's choice hash; non-trivial when it was executed and compared or an error verdict was judged."
	c.Assumef("WebGPU / WGSL rules as transcribed in the header of spec/Overrides.tla (R1-R5); whatever was not certain is left open (status und / valq) and not compared")
	c.Assumef("executors read the emitted code according to the target language (harness/spv, hlslx, mslx, glslx)")
	c.Assumef("an empty value map is 'option not set' for glsl/msl Options.PipelineConstants: those two routes are exercised with non-empty maps only")
	if n, err := SelfTestWord32(c); err != nil {
		c.BrokenF("Word32 self-test: %v", err)
		return c.Finish()
	} else {
		c.Cov["word32_selftest_rows"] = n
	}
	if n, err := SelfTestF32(c); err != nil {
		c.BrokenF("F32 self-test: %v", err)
		return c.Finish()
	} else {
		c.Cov["f32_selftest_rows"] = n
	}
	selfTest := make(chan error, 1)
	go func() { selfTest <- ovSelfTest(c) }() // runs beside the generation; both are bounded by ovTLCSem

	// ---- generation ------------------------------------------------------------------------------------------------
	// C14_DEV=1: the smallest sample that exercises every part (development aid while the machine is shared)
	dev := os.Getenv("C14_DEV") != ""
	var jobs []ovJob
	only := os.Getenv("C14_ONLY") // development aid: comma-separated space names
	for i, g := range ovConfigs() {
		if only != "" && !strings.Contains(","+only+",", ","+g.Name+",") {
			continue
		}
		if g.Simulate > 0 {
			procs, num := c.Pick(4, 16), c.Pick(8, 20) // every trace yields one case per declaration order (up to 24)
			if dev {
				procs, num = 1, 2
			}
			for p := 0; p < procs; p++ {
				jobs = append(jobs, ovJob{cfg: g, seed: c.Seed*1000 + int64(p) + 1, simNum: num})
			}
			continue
		}
		if dev {
			g.NShards *= 16
			jobs = append(jobs, ovJob{cfg: g, shard: (int(c.Seed)*7 + i) % g.NShards})
		} else if c.Quick() {
			for k := 0; k < g.quickShards; k++ {
				jobs = append(jobs, ovJob{cfg: g, shard: (int(c.Seed)*7 + k*3 + i) % g.NShards})
			}
		} else {
			for sh := 0; sh < g.NShards; sh++ {
				jobs = append(jobs, ovJob{cfg: g, shard: sh})
			}
		}
	}
	cases, perCfg, genErr := ovGenerate(c, jobs)
	if err := <-selfTest; err != nil {
		c.BrokenF("Overrides.tla self-test: %v", err)
		return c.Finish()
	}
	c.Cov["selftest_faults_detected"] = 4
	if genErr != nil {
		c.BrokenF("generation: %v", genErr)
		return c.Finish()
	}
	// duplicates (simulation may repeat a behaviour)
	seen := map[string]bool{}
	var uniq []*ovCase
	for _, cs := range cases {
		k := fmt.Sprintf("%s/%d", cs.Cfg, cs.H)
		if cs.Cfg == "sim" {
			b, _ := json.Marshal([]any{cs.Prog, cs.K})
			k = "sim/" + string(b)
		}
		if seen[k] {
			continue
		}
		seen[k] = true
		uniq = append(uniq, cs)
	}
	cases = uniq
	c.Cov["cases_generated"] = len(cases)
	c.Cov["cases_per_space"] = perCfg
	minCases := c.Pick(300, 8000)
	if dev || only != "" {
		minCases = 5
	}
	if len(cases) < minCases {
		c.BrokenF("only %d cases generated", len(cases))
		return c.Finish()
	}

	if n, err := ovComparatorSelfTest(c, cases); err != nil {
		c.BrokenF("comparator self-test: %v", err)
		return c.Finish()
	} else {
		c.Cov["selftest_corrupted_predictions_noticed"] = n
	}

	// ---- replay ------------------------------------------------------------------------------------------------------
	st := &ovStats{byRoute: map[string][2]int{}, byTag: map[string][2]int{}, clean: map[string][2]int{}}
	r := &ovRunner{c: c, st: st, known: core.LoadFindings("C14")}
	core.ParMap(len(cases), core.Cores(), func(i int) { r.runCase(cases[i]) })
	for i, cs := range cases {
		if i%97 == 0 && cs.src != "" {
			c.Sample(map[string]any{"space": cs.Cfg, "wgsl": cs.src, "constants": cs.kText(), "predicted": cs.Slots, "error_required": cs.ErrReq})
		}
	}
	c.Programs = len(cases)
	c.Traces = st.units
	c.Cov["units_judged"] = st.units
	c.Cov["units_agreeing"] = st.unitsAgree
	c.Cov["units_by_route_judged_agreeing"] = st.byRoute
	c.Cov["words_compared"] = st.slots
	c.Cov["words_agreeing"] = st.slotsAgree
	c.Cov["words_left_open_by_spec"] = st.slotsMasked
	c.Cov["words_outside_known_findings_by_route_compared_agreeing"] = st.clean
	cleanN := 0
	for _, v := range st.clean {
		cleanN += v[0]
	}
	c.Cov["words_outside_known_findings"] = cleanN
	c.Cov["words_by_tag_compared_agreeing"] = st.byTag
	c.Cov["error_verdicts_required"] = st.errExpected
	c.Cov["errors_accepted_where_optional"] = st.errAccepted
	c.Cov["workgroup_sizes_compared"] = st.wgChecked
	c.Cov["workgroup_sizes_agreeing"] = st.wgAgree
	c.Cov["caller_module_fingerprints_unchanged"] = st.fpSame
	if st.units == 0 || c.Skips()*3 > st.units+c.Skips() {
		c.BrokenF("%d units judged, %d skipped: the machinery rejects too much", st.units, c.Skips())
	}
	if cleanN*5 < st.slots {
		c.BrokenF("only %d of %d compared words lie outside the known-finding predicates: the healthy part of the space is too small for the check to mean anything", cleanN, st.slots)
	}
	return c.Finish()
}
