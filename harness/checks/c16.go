package checks

import (
	"bytes"
	"encoding/json"
	"fmt"
	"math/rand"
	"os"
	"regexp"
	"sort"
	"strconv"
	"strings"
	"sync"
	"time"

	"github.com/gogpu/naga/glsl"
	"github.com/gogpu/naga/hlsl"
	"github.com/gogpu/naga/ir"
	"github.com/gogpu/naga/msl"

	"verif/harness/c16x"
	"verif/harness/core"
	"verif/harness/drive"
	"verif/harness/wg"
	"verif/harness/xrt"
)

func init() { Registry["C16"] = runC16 }

var c16Backends = []string{"hlsl", "msl", "glsl"}

// ---- programs -------------------------------------------------------------------------------------------------------

type c16Res struct {
	Group, Binding int
	Space, Access  string
}

// c16Prog is one program in its BASELINE form: every user name replaced by a benign unique one (zq..).
type c16Prog struct {
	ID      string
	Src     string // baseline text
	Rows    []map[string][]int32
	toks    []c16x.WTok
	decls   []c16x.WDecl
	names   []string            // renamable (baseline) names
	kinds   map[string][]string // baseline name -> declaration kinds
	orig    map[string]string   // baseline name -> name in the original text
	idents  map[string]bool     // every identifier of the baseline text
	entries []string            // baseline names of the entry points
	stages  map[string]string   // entry (baseline name) -> compute / vertex / fragment
	res     []c16Res
	hasOvr  bool
}

var reRes = regexp.MustCompile(`@group\((\d+)\)\s*@binding\((\d+)\)\s*var(?:<\s*(\w+)\s*(?:,\s*(\w+)\s*)?>)?`)

func benignName(i int) string {
	s := ""
	for {
		s = string(rune('a'+i%26)) + s
		i = i/26 - 1
		if i < 0 {
			break
		}
	}
	return "zq" + s
}

// newC16Prog renames the user names of src to benign unique names (the baseline form).
func newC16Prog(id, src string, rows []map[string][]int32) (*c16Prog, error) {
	toks := c16x.WgslTokens(src)
	decls := c16x.WgslDecls(toks)
	names, _ := c16x.Renamable(decls)
	idents := map[string]bool{}
	for _, t := range toks {
		if t.Ident {
			idents[t.Text] = true
		}
	}
	ren := c16x.Renaming{}
	orig := map[string]string{}
	k := 0
	for _, n := range names {
		b := benignName(k)
		for idents[b] {
			k++
			b = benignName(k)
		}
		k++
		ren[n] = b
		orig[b] = n
	}
	base := c16x.ApplyRenaming(src, toks, decls, ren)
	p := &c16Prog{ID: id, Src: base, Rows: rows, orig: orig, stages: map[string]string{}}
	p.toks = c16x.WgslTokens(base)
	p.decls = c16x.WgslDecls(p.toks)
	p.names, p.kinds = c16x.Renamable(p.decls)
	p.idents = map[string]bool{}
	for _, t := range p.toks {
		if t.Ident {
			p.idents[t.Text] = true
		}
	}
	for _, d := range p.decls {
		if d.Kind == "entry" {
			p.entries = append(p.entries, d.Name)
		}
		if d.Kind == "override" {
			p.hasOvr = true
		}
	}
	for _, m := range reRes.FindAllStringSubmatch(base, -1) {
		g, _ := strconv.Atoi(m[1])
		b, _ := strconv.Atoi(m[2])
		acc := "rw"
		if m[4] == "read" || m[3] == "uniform" {
			acc = "r"
		}
		p.res = append(p.res, c16Res{g, b, m[3], acc})
	}
	m, stage, err := drive.Front(base)
	if err != nil {
		return nil, fmt.Errorf("%s: baseline form rejected at %s: %v", id, stage, err)
	}
	for _, ep := range m.EntryPoints {
		switch ep.Stage {
		case ir.StageCompute:
			p.stages[ep.Name] = "compute"
		case ir.StageVertex:
			p.stages[ep.Name] = "vertex"
		case ir.StageFragment:
			p.stages[ep.Name] = "fragment"
		}
	}
	if len(p.entries) == 0 || len(p.entries) != len(m.EntryPoints) {
		return nil, fmt.Errorf("%s: %d entry points found in the text, %d in the module", id, len(p.entries), len(m.EntryPoints))
	}
	return p, nil
}

// ---- compiling ------------------------------------------------------------------------------------------------------

type c16Out struct {
	Text    string
	EPNames map[string]string // WGSL entry point name -> emitted name (TranslationInfo.EntryPointNames)
	EPs     []string          // WGSL names of the module's entry points that this output contains
	WG      map[string][3]uint32
	Stage   string // "" ok, else the stage that failed: parse / lower / overrides / backend / panic
	Err     string
}

func c16Compile(src, backend, opt, entry string, hasOvr bool) (o c16Out) {
	defer func() {
		if r := recover(); r != nil {
			o = c16Out{Stage: "panic", Err: fmt.Sprint(r)}
		}
	}()
	m, stage, err := drive.Front(src)
	if err != nil {
		return c16Out{Stage: stage, Err: err.Error()}
	}
	if hasOvr {
		if err := ir.ProcessOverrides(m, nil); err != nil {
			return c16Out{Stage: "overrides", Err: err.Error()}
		}
	}
	o.WG = map[string][3]uint32{}
	for _, ep := range m.EntryPoints {
		o.WG[ep.Name] = ep.Workgroup
	}
	switch backend {
	case "hlsl":
		s, info, err := hlsl.Compile(m, drive.HlslOptions(opt))
		if err != nil {
			return c16Out{Stage: "backend", Err: err.Error()}
		}
		o.Text = s
		if info != nil {
			o.EPNames = info.EntryPointNames
		}
		for _, ep := range m.EntryPoints {
			o.EPs = append(o.EPs, ep.Name)
		}
	case "msl":
		s, info, err := msl.Compile(m, drive.MslOptions(opt))
		if err != nil {
			return c16Out{Stage: "backend", Err: err.Error()}
		}
		o.Text, o.EPNames = s, info.EntryPointNames
		for _, ep := range m.EntryPoints {
			o.EPs = append(o.EPs, ep.Name)
		}
	case "glsl":
		s, info, err := glsl.Compile(m, drive.GlslOptions(opt, entry))
		if err != nil {
			return c16Out{Stage: "backend", Err: err.Error()}
		}
		o.Text, o.EPNames = s, info.EntryPointNames
		o.EPs = []string{entry}
	}
	return o
}

// ---- baselines ------------------------------------------------------------------------------------------------------

type c16Base struct {
	prog    *c16Prog
	backend string
	opt     string
	entry   string // baseline name of the entry point (glsl: the one compiled; others: the compute one, if any)
	out     c16Out
	unit    *c16x.Unit
	err     string
	runs    []c16Run // executor results per input row (compute entry only)
}

type c16Run struct {
	Outcome xrt.Outcome
	Bufs    map[string][]byte
}

func (p *c16Prog) computeEntry() string {
	for _, e := range p.entries {
		if p.stages[e] == "compute" {
			return e
		}
	}
	return ""
}

func c16Exec(p *c16Prog, backend string, o c16Out, wgslEntry string) []c16Run {
	if wgslEntry == "" || len(p.Rows) == 0 {
		return nil
	}
	emitted, ok := o.EPNames[wgslEntry]
	if !ok {
		emitted = wgslEntry
	}
	t := target{Name: backend}
	var runs []c16Run
	for _, row := range p.Rows {
		in := xrt.Input{Entry: emitted, Buffers: map[string][]byte{}, NumWorkgroups: [3]uint32{1, 1, 1}, MaxSteps: 200000}
		for _, r := range p.res {
			key := fmt.Sprintf("%d.%d", r.Group, r.Binding)
			w, ok := row[key]
			if !ok {
				continue
			}
			slot := t.slotFor(wg.N{"group": r.Group, "binding": r.Binding, "space": r.Space, "access": r.Access})
			in.Buffers[slot] = words2bytes(w)
		}
		out := t.exec([]byte(o.Text), emitted, o.WG[wgslEntry], in)
		runs = append(runs, c16Run{Outcome: out, Bufs: in.Buffers})
	}
	return runs
}

func c16MakeBase(p *c16Prog, backend, opt, entry string) *c16Base {
	b := &c16Base{prog: p, backend: backend, opt: opt, entry: entry}
	b.out = c16Compile(p.Src, backend, opt, entry, p.hasOvr)
	if b.out.Stage != "" {
		b.err = fmt.Sprintf("baseline does not compile (%s): %s", b.out.Stage, b.out.Err)
		return b
	}
	u, err := c16x.Parse(backend, b.out.Text)
	if err != nil {
		b.err = "independent reader rejects the baseline output: " + trimReason(err.Error())
		return b
	}
	b.unit = u
	ce := entry
	if backend != "glsl" {
		ce = p.computeEntry()
	} else if p.stages[entry] != "compute" {
		ce = ""
	}
	b.runs = c16Exec(p, backend, b.out, ce)
	return b
}

// ---- cases ----------------------------------------------------------------------------------------------------------

type c16Case struct {
	ID       int
	Base     *c16Base
	Strategy string
	Ren      c16x.Renaming     // baseline name -> new name (only the names that change)
	Class    map[string]string // new name -> pool it was drawn from
	Src      string            // renamed WGSL
	Predict  map[string]string // baseline name -> the spelling Namer.tla predicts for it (strategy namer-exact)
	// results
	out   c16Out
	unit  *c16x.Unit
	lines []c16x.Line
	evOf  []int // trace line -> index of the baseline event (-1: none)
	skip  string
}

func (cs *c16Case) key() string {
	var ks []string
	for k, v := range cs.Ren {
		ks = append(ks, k+"="+v)
	}
	sort.Strings(ks)
	return fmt.Sprintf("%s/%s/%s/%s/%s", cs.Base.prog.ID, cs.Base.backend, cs.Base.opt, cs.Base.entry, strings.Join(ks, ","))
}

// entryNames: the emitted names TranslationInfo reports for the entry points contained in the output.
func (cs *c16Case) entryNames(c *core.Ctx, o c16Out) []string {
	var out []string
	for _, ep := range o.EPs {
		n, ok := o.EPNames[ep]
		if !ok {
			n = "<no entry in EntryPointNames for " + ep + ">"
		}
		out = append(out, n)
	}
	return out
}

func isDigits(s string) bool {
	if s == "" {
		return false
	}
	for i := 0; i < len(s); i++ {
		if s[i] < '0' || s[i] > '9' {
			return false
		}
	}
	return true
}

// userOf finds, for a token of the output, the user entity it spells (through the baseline token at the same position).
func (cs *c16Case) userOf(tok int) (newName, origName, kinds, class string) {
	b := cs.Base
	if tok < 0 || tok >= len(b.unit.Toks) {
		return
	}
	bt := b.unit.Toks[tok].Text
	// the baseline spelling of a user entity is its baseline name, possibly with a suffix the namer added
	for _, n := range b.prog.names {
		if bt == n || (strings.HasPrefix(bt, n+"_") && isDigits(bt[len(n)+1:])) {
			newName = n
			if v, ok := cs.Ren[n]; ok {
				newName = v
			}
			origName = b.prog.orig[n]
			kinds = strings.Join(b.prog.kinds[n], "+")
			class = cs.Class[newName]
			if class == "" {
				class = "benign"
			}
			return
		}
	}
	return "", "", "generated", "generated"
}

func c16RunCase(c *core.Ctx, cs *c16Case) {
	b := cs.Base
	p := b.prog
	cs.Src = c16x.ApplyRenaming(p.Src, p.toks, p.decls, cs.Ren)
	entry := b.entry
	if v, ok := cs.Ren[entry]; ok {
		entry = v
	}
	cs.out = c16Compile(cs.Src, b.backend, b.opt, entry, p.hasOvr)
	if cs.out.Stage != "" {
		cs.skip = fmt.Sprintf("renamed program rejected at %s (acceptance of valid programs is C08's property)", cs.out.Stage)
		if os.Getenv("C16_DEBUG") != "" {
			fmt.Fprintf(os.Stderr, "rejected %s %s/%s at %s: %s  ren=%v\n", p.ID, b.backend, b.opt, cs.out.Stage, cs.out.Err, cs.Ren)
		}
		return
	}
	cs.unit = c16x.Tokenize(b.backend, cs.out.Text)
}

// generatedFamilies classifies the names the backends generate on their own (not through the namer's table of user
// labels): helpers, constructors, matrix accessors, interface structs, interface blocks, binding instance names,
// expression temporaries, loop guards, wrapper types and members, padding members.
var generatedFamilies = []struct {
	family string
	re     *regexp.Regexp
}{
	{"helper", regexp.MustCompile(`^_?[nN]aga[A-Za-z0-9_]*$`)},
	{"ctor", regexp.MustCompile(`^(ret_)?Construct[A-Za-z0-9_]+$`)},
	{"mataccess", regexp.MustCompile(`^(Get|Set)Mat(Vec|Scalar)?[A-Za-z0-9_]+On[A-Za-z0-9_]+$`)},
	{"matcolumn", regexp.MustCompile(`^[A-Za-z0-9_]+_[0-3]$`)},
	{"iface", regexp.MustCompile(`^((VertexOutput|FragmentInput|fragmentinput|vertexoutput)_[A-Za-z0-9_]+|[A-Za-z0-9_]+(Input|Output)|varyings(_[0-9]+)?|_(vs2fs|p2vs|fs2p)_location[0-9]+)$`)},
	{"block", regexp.MustCompile(`^[A-Za-z0-9_]+_block_[0-9]+(Compute|Vertex|Fragment)$`)},
	{"binding", regexp.MustCompile(`^_group_[0-9]+_binding_[0-9]+_(cs|vs|fs)$`)},
	{"temp", regexp.MustCompile(`^(_e[0-9]+|_tmp)$`)},
	{"loop", regexp.MustCompile(`^(loop_bound|loop_init|should_continue)(_[0-9]+)?$`)},
	{"wrapper", regexp.MustCompile(`^(type_[0-9]+|inner|_mslBufferSizes|_buffer_sizes|size[0-9]+|DefaultConstructible)$`)},
	{"pad", regexp.MustCompile(`^_(end_)?pad[0-9_]*$`)},
}

// generatedPartner tells whether the spelling `name` is, in this case's output, also the spelling of a declaration the
// backend generated on its own (one that does not stem from a user entity), and of which family.
func (cs *c16Case) generatedPartner(name string) (with, family string) {
	b := cs.Base
	if cs.unit == nil {
		return "user", ""
	}
	for i, e := range b.unit.Ev {
		ti := b.unit.TokOf[i]
		if e.Op != "decl" || ti < 0 || c16x.Esc(cs.unit.Toks[ti].Text) != name {
			continue
		}
		if _, _, kinds, _ := cs.userOf(ti); kinds == "generated" {
			fam := "other"
			for _, f := range generatedFamilies {
				if f.re.MatchString(name) {
					fam = f.family
					break
				}
			}
			return "generated", fam
		}
	}
	return "user", ""
}

// c16NameClassOf describes the class of the names a case uses (for the descriptor).
func c16Classes(cs *c16Case) string {
	set := map[string]bool{}
	for _, v := range cs.Class {
		set[v] = true
	}
	var ks []string
	for k := range set {
		ks = append(ks, k)
	}
	sort.Strings(ks)
	return strings.Join(ks, "+")
}

// ---- the check ------------------------------------------------------------------------------------------------------

func runC16(tier, replay string) int {
	c := core.NewCtx("C16", tier, "model_checking")
	c.Cov["rule"] = "Namer.tla (the Rust-naga naming algorithm as naga's three text backends implement it: sanitize, per-name-space base->count tables, `_` suffix for digit-ending / keyword bases, `_N` collision suffix, reserved helper names) is model-checked for injectivity, keyword avoidance and legality over all sequences of <= MaxCalls labels of length <= 3 over a tiny alphabet (self-test: seeded faults must violate the invariants); its reachable nearly-colliding label sets are exported and replayed, with seeded renamings drawn from independent reserved-word lists of HLSL / MSL / GLSL, naga's helper / temporary name patterns, case variants, suffix families and non-ASCII identifiers, into generated valid WGSL programs (hand-written programs holding every declaration kind, the semantic table families and TLC-enumerated control-flow skeletons). Each renamed program is compiled by the real backends (several option sets); the emitted text is tokenised and aligned with the BASELINE output of the same program under benign unique names; the declaration / reference event stream (scopes and token roles from the independent readers glslx / hlslx / mslx on the baseline, spellings from the renamed output, the denoted entity of every use from the baseline) is validated by TLC against Scopes.tla (legal, reserved, clash, resolve / capture, member, entry, balance), many outputs per TLC run; compute programs are also executed on the independent executors and must reproduce the baseline's buffers. A case = (program, renaming, backend, option set, entry point); non-trivial if the renamed program compiled and its event stream was judged; distinct by (program, backend, options, entry, renaming)."
	c.Assumef("target scoping and identifier rules as transcribed in spec/Scopes.tla; reserved words from the independent lists data/c16/reserved-{hlsl,msl,glsl}.txt (conservative: may be incomplete)")
	c.Assumef("the independent readers harness/glslx, hlslx, mslx tell scopes, declaring tokens and using tokens of the BASELINE text correctly (cross-checked: Scopes.tla re-resolves every baseline use and must agree with the reader)")
	rng := rand.New(rand.NewSource(c.Seed))

	// ---- the specifications' own self-tests ---------------------------------------------------------------------
	if !c16ScopesSelfTest(c) {
		return c.Finish()
	}
	labelSets, suspects, exact, ok := c16Namer(c)
	if !ok {
		return c.Finish()
	}

	// ---- programs ---------------------------------------------------------------------------------------------------
	var progs []*c16Prog
	for _, s := range c16Sources {
		p, err := newC16Prog(s.ID, s.Src, s.Rows)
		if err != nil {
			c.BrokenF("program %v", err)
			return c.Finish()
		}
		progs = append(progs, p)
	}
	nKinds := len(progs)
	fam := semanticFamilies(c)
	if !c.Quick() {
		if ctl, err := ctlCases(c, 3, 16, []int{int(c.Seed) % 16, int(c.Seed+7) % 16}); err == nil {
			fam = append(fam, ctl...)
		} else {
			c.BrokenF("control-flow family: %v", err)
			return c.Finish()
		}
	}
	perm := rng.Perm(len(fam))
	nFam := c.Pick(24, 160)
	if v, err := strconv.Atoi(os.Getenv("C16_FAM")); err == nil && v >= 0 {
		nFam = v // development aid
	}
	for _, i := range perm {
		if nFam == 0 {
			break
		}
		g := fam[i]
		var rows []map[string][]int32
		globals := wg.L(g.Prog, "globals")
		for ri, row := range g.Inputs {
			if ri >= 2 {
				break
			}
			m := map[string][]int32{}
			for gi, gl := range globals {
				if sp := wg.S(gl, "space"); sp == "storage" || sp == "uniform" {
					m[fmt.Sprintf("%d.%d", wg.I(gl, "group"), wg.I(gl, "binding"))] = row[gi]
				}
			}
			rows = append(rows, m)
		}
		p, err := newC16Prog("gen:"+g.Desc, wg.Print(g.Prog), rows)
		if err != nil {
			c.Skip("generated program rejected by the front end (judged by C08)")
			continue
		}
		progs = append(progs, p)
		nFam--
	}
	c.Programs = len(progs)

	// ---- baselines (program x backend x option set x entry) ----------------------------------------------------------
	type bkey struct {
		p          int
		be, opt, e string
	}
	var bkeys []bkey
	for pi, p := range progs {
		for _, be := range c16Backends {
			opts := drive.OptNames(be)
			if pi >= nKinds { // generated programs: two option sets chosen by the seed
				o1 := opts[(int(c.Seed)+pi)%len(opts)]
				opts = []string{opts[0], o1}
				if o1 == opts[0] {
					opts = opts[:1]
				}
			} else if c.Quick() {
				o1, o2 := opts[(int(c.Seed))%len(opts)], opts[(int(c.Seed)+3)%len(opts)]
				sel := []string{opts[0]}
				for _, o := range []string{o1, o2} {
					if o != sel[0] && (len(sel) < 2 || o != sel[1]) {
						sel = append(sel, o)
					}
				}
				opts = sel
			}
			for _, o := range opts {
				if be == "glsl" {
					for _, e := range p.entries {
						bkeys = append(bkeys, bkey{pi, be, o, e})
					}
				} else {
					bkeys = append(bkeys, bkey{pi, be, o, p.computeEntry()})
				}
			}
		}
	}
	bases := make([]*c16Base, len(bkeys))
	core.ParMap(len(bkeys), core.Cores(), func(i int) {
		k := bkeys[i]
		bases[i] = c16MakeBase(progs[k.p], k.be, k.opt, k.e)
	})
	var good []*c16Base
	for _, b := range bases {
		if b.err != "" {
			c.Skip(b.backend + ": " + trimReason(b.err))
			if os.Getenv("C16_DEBUG") != "" {
				fmt.Fprintf(os.Stderr, "baseline %s %s/%s %s: %s\n", b.prog.ID, b.backend, b.opt, b.entry, b.err)
			}
			continue
		}
		good = append(good, b)
	}
	if len(good)*2 < len(bases) {
		c.BrokenF("only %d of %d baselines usable", len(good), len(bases))
		return c.Finish()
	}
	c.Cov["baselines"] = len(good)

	// ---- cases ------------------------------------------------------------------------------------------------------
	res := c16LoadReserved(c)
	if res == nil {
		return c.Finish()
	}
	gen := &c16Gen{rng: rng, res: res, labelSets: labelSets, suspects: suspects, exact: exact}
	nCases := c.Pick(1400, 30000)
	if v, err := strconv.Atoi(os.Getenv("C16_CASES")); err == nil && v > 0 {
		nCases = v // development aid: a smaller sample
	}
	var cases []*c16Case
	// every baseline is a case of its own (identity renaming): Scopes.tla must agree with the reader on every use
	for _, b := range good {
		cases = append(cases, &c16Case{Base: b, Strategy: "baseline", Ren: c16x.Renaming{}, Class: map[string]string{}})
	}
	// the hand-written programs get most of the budget
	var kindBases, genBases []*c16Base
	for _, b := range good {
		if strings.HasPrefix(b.prog.ID, "gen:") {
			genBases = append(genBases, b)
		} else {
			kindBases = append(kindBases, b)
		}
	}
	seen := map[string]bool{}
	// the systematic sweep of generated-name pools: all of it in the thorough tier, a seeded sample in the quick tier
	{
		var sw []*c16Case
		for _, b := range kindBases {
			if b.opt == drive.OptNames(b.backend)[0] {
				sw = append(sw, gen.sweep(b)...)
			}
		}
		rng.Shuffle(len(sw), func(i, j int) { sw[i], sw[j] = sw[j], sw[i] })
		nsw := c.Pick(200, 12000)
		if os.Getenv("C16_ONLY") == "sweep" {
			nsw = len(sw)
		}
		for _, cs := range sw {
			if nsw == 0 {
				break
			}
			if k := cs.key(); !seen[k] {
				seen[k] = true
				cases = append(cases, cs)
				nsw--
			}
		}
		c.Cov["sweep_cases_available"] = len(sw)
	}
	// every word of the independent reserved lists is used at least once per run (on the richest program)
	for _, b := range kindBases {
		if b.prog.ID == "kinds1" && b.opt == drive.OptNames(b.backend)[0] {
			cov := gen.cover(b, int(c.Seed))
			// every non-ASCII identifier of the pool, in three rotations (so that each meets several declaration kinds)
			for r := 0; r < 3; r++ {
				cov = append(cov, gen.coverWords(b, int(c.Seed)+13*r, c16x.NonASCII, "nonascii")...)
			}
			for _, cs := range cov {
				if k := cs.key(); !seen[k] {
					seen[k] = true
					cases = append(cases, cs)
				}
			}
		}
	}
	// twins: names that differ only in what the sanitiser removes, across scopes (up to 12 per program and backend, three programs)
	for _, b := range kindBases {
		if id := b.prog.ID; b.opt == drive.OptNames(b.backend)[0] && (id == "kinds1" || id == "kinds2" || id == "shadow") {
			for _, cs := range gen.twins(b) {
				if k := cs.key(); !seen[k] {
					seen[k] = true
					cases = append(cases, cs)
				}
			}
		}
	}
	for tries := 0; len(cases) < nCases && tries < 40*nCases; tries++ {
		var b *c16Base
		if len(genBases) > 0 && rng.Intn(4) == 0 {
			b = genBases[rng.Intn(len(genBases))]
		} else if len(kindBases) > 0 {
			b = kindBases[rng.Intn(len(kindBases))]
		} else {
			break
		}
		cs := gen.make(b)
		if cs == nil {
			continue
		}
		if only := os.Getenv("C16_ONLY"); only != "" && !strings.Contains(only, cs.Strategy) {
			continue // development aid: one strategy only
		}
		if k := cs.key(); seen[k] {
			continue
		} else {
			seen[k] = true
		}
		cases = append(cases, cs)
	}
	for i, cs := range cases {
		cs.ID = i + 1
	}

	// ---- compile, align, build traces, execute -----------------------------------------------------------------------
	type finding struct {
		cs   *c16Case
		rule string
		what string
		desc map[string]string
	}
	var fmu sync.Mutex
	var finds []finding
	predOK, predDrift := 0, 0
	var reportW func(cs *c16Case, rule, name, kinds, class, with, family, what string)
	report := func(cs *c16Case, rule, name, kinds, class, what string) { reportW(cs, rule, name, kinds, class, "", "", what) }
	reportW = func(cs *c16Case, rule, name, kinds, class, with, family, what string) {
		fmu.Lock()
		defer fmu.Unlock()
		// with: "generated" when the spelling is also declared by a name the backend generates on its own, else "user";
		// family: which kind of generated name (helper, ctor, mataccess, iface, block, binding, temp, loop, wrapper, pad ...)
		if with == "" {
			with = "user"
		}
		d := map[string]string{"backend": cs.Base.backend, "opt": cs.Base.opt, "rule": rule, "name": name, "kind": kinds, "class": class,
			"with": with, "family": family, "prog": cs.Base.prog.ID, "strategy": cs.Strategy}
		d["sig"] = fmt.Sprintf("%s|%s|%s|%s", cs.Base.backend, rule, name, kinds)
		if os.Getenv("C16_DEBUG") != "" {
			fmt.Fprintf(os.Stderr, "report backend=%s rule=%s name=%s kind=%s with=%s family=%s class=%s\n", cs.Base.backend, rule, name, kinds, with, family, class)
		}
		finds = append(finds, finding{cs, rule, what, d})
	}
	core.ParMap(len(cases), core.Cores(), func(i int) {
		cs := cases[i]
		b := cs.Base
		if cs.Strategy == "baseline" {
			cs.out, cs.unit, cs.Src = b.out, b.unit, b.prog.Src
		} else {
			c16RunCase(c, cs)
			if cs.skip != "" {
				return
			}
		}
		// (ii) alpha-equivalence with the baseline: same token structure, identifiers related consistently per declaration
		structural := func(u *c16x.Unit) string {
			if al := c16x.Align(b.unit, u); al != "" {
				return al
			}
			if pr := c16x.IdentDiff(b.unit, u); len(pr) > 0 {
				return pr[0]
			}
			return ""
		}
		if al := structural(cs.unit); al != "" {
			// which single names are enough to change the structure of the output?
			found := false
			if len(cs.Ren) > 1 {
				olds := make([]string, 0, len(cs.Ren))
				for o := range cs.Ren {
					olds = append(olds, o)
				}
				sort.Strings(olds)
				for _, o := range olds {
					one := &c16Case{ID: cs.ID, Base: b, Strategy: cs.Strategy, Ren: c16x.Renaming{o: cs.Ren[o]}, Class: cs.Class}
					c16RunCase(c, one)
					if one.skip != "" {
						continue
					}
					if al1 := structural(one.unit); al1 != "" {
						found = true
						report(one, "alpha", cs.Ren[o], strings.Join(b.prog.kinds[o], "+"), cs.Class[cs.Ren[o]], fmt.Sprintf("%s/%s %s: calling the WGSL %s `%s` (`%s` in the original program) changes the output beyond identifiers (it is not the baseline output up to a consistent renaming): %s", b.backend, b.opt, b.prog.ID, strings.Join(b.prog.kinds[o], "+"), cs.Ren[o], b.prog.orig[o], al1))
					}
				}
			}
			if !found {
				name, kinds := "", ""
				if len(cs.Ren) == 1 {
					for o, n := range cs.Ren {
						name, kinds = n, strings.Join(b.prog.kinds[o], "+")
					}
				}
				report(cs, "alpha", name, kinds, c16Classes(cs), fmt.Sprintf("%s/%s %s: the renamed program's output is not the baseline output up to a consistent renaming of identifiers: %s", b.backend, b.opt, b.prog.ID, al))
			}
			cs.skip = "-" // not traced: the roles of its tokens are not those of the baseline
			return
		}
		cs.lines, cs.evOf = c16x.TraceIdx(b.unit, cs.unit, cs.ID, cs.entryNames(c, cs.out))
		// the real namer against Namer.tla, call by call
		if cs.Predict != nil {
			for i, e := range b.unit.Ev {
				ti := b.unit.TokOf[i]
				if e.Op != "decl" || ti < 0 {
					continue
				}
				want, ok := cs.Predict[b.unit.Toks[ti].Text]
				if !ok {
					continue
				}
				fmu.Lock()
				if got := cs.unit.Toks[ti].Text; got == want {
					predOK++
				} else {
					predDrift++
					c.Skip("Namer.tla predicts another spelling than the " + b.backend + " namer returns (the model has drifted from the code; the emitted spelling is still judged by Scopes.tla)")
					if os.Getenv("C16_DEBUG") != "" {
						fmt.Fprintf(os.Stderr, "namer drift %s/%s: labels %v: predicted %q, emitted %q\n", b.backend, b.opt, cs.Ren, want, got)
					}
				}
				fmu.Unlock()
			}
		}
		// execution: the renamed program must compute what the baseline computes
		if cs.Strategy != "baseline" && len(b.runs) > 0 {
			ce := b.entry
			if b.backend != "glsl" {
				ce = b.prog.computeEntry()
			}
			if v, ok := cs.Ren[ce]; ok {
				ce = v
			}
			runs := c16Exec(b.prog, b.backend, cs.out, ce)
			// an execution difference counts only if the executor's own reader sees the renamed text with the same
			// declaration / reference structure as the baseline (its readers know more type names than the conservative
			// reserved lists: `int uint32_t(int x)` is a function for Scopes.tla and a cast for hlslx)
			sameReading := func() bool {
				u2, err := c16x.Parse(b.backend, cs.out.Text)
				if err != nil || len(u2.Ev) != len(b.unit.Ev) {
					return false
				}
				for i, e := range u2.Ev {
					o := b.unit.Ev[i]
					if e.Op != o.Op || e.Kind != o.Kind || e.Decl != o.Decl || u2.TokOf[i] != b.unit.TokOf[i] {
						return false
					}
				}
				return true
			}
			execDiff := func(what string) {
				if sameReading() {
					report(cs, "exec", "", "", c16Classes(cs), what)
				} else {
					c.Skip(b.backend + " executor: result differs from the baseline's, but its reader resolves the renamed text differently from the baseline (stricter keyword knowledge than the reserved lists)")
				}
			}
			for ri, r := range runs {
				br := b.runs[ri]
				switch {
				case br.Outcome.Skip != "" || br.Outcome.Trap != "":
					// the baseline itself is not judged by the executor
				case r.Outcome.Skip != "":
					// the executor's reader is stricter than the language in places (it treats some non-keywords as
					// keywords): not a verdict.  Scopes.tla judges the spelling.
					c.Skip(b.backend + " executor reads the baseline output but not the renamed one: " + trimReason(r.Outcome.Skip))
					if os.Getenv("C16_DEBUG") != "" {
						fmt.Fprintf(os.Stderr, "exec-unreadable %s/%s %s: %s\n", b.backend, b.opt, b.prog.ID, r.Outcome.Skip)
					}
				case r.Outcome.Trap != "":
					execDiff(fmt.Sprintf("%s/%s %s row %d: renamed output traps (%s), the baseline does not", b.backend, b.opt, b.prog.ID, ri, r.Outcome.Trap))
				default:
					for slot, want := range br.Bufs {
						if !bytes.Equal(want, r.Bufs[slot]) {
							execDiff(fmt.Sprintf("%s/%s %s row %d: buffer %s differs from the baseline's: %v vs %v", b.backend, b.opt, b.prog.ID, ri, slot, bytes2words(r.Bufs[slot]), bytes2words(want)))
							break
						}
					}
				}
			}
		}
	})

	// ---- Scopes.tla over all traces ---------------------------------------------------------------------------------
	var traced []*c16Case
	for _, cs := range cases {
		switch {
		case cs.skip == "-":
		case cs.skip != "":
			c.Skip(cs.skip)
		default:
			traced = append(traced, cs)
		}
	}
	nsh := core.Cores()
	if nsh > len(traced) {
		nsh = len(traced)
	}
	type lineRef struct {
		cs *c16Case
		li int
	}
	shardLines := make([][]byte, nsh)
	shardRefs := make([][]lineRef, nsh)
	for i, cs := range traced {
		s := i % nsh
		for li, ln := range cs.lines {
			b, _ := json.Marshal(ln)
			shardLines[s] = append(shardLines[s], b...)
			shardLines[s] = append(shardLines[s], '\n')
			shardRefs[s] = append(shardRefs[s], lineRef{cs, li})
		}
	}
	resFile := c16ReservedFile(res)
	var events int64
	core.ParMap(nsh, nsh, func(s int) {
		if len(shardRefs[s]) == 0 {
			return
		}
		r, err := c.RunTLC(core.TLCOpts{Spec: "Scopes", CfgText: c16ScopesCfg, Files: map[string][]byte{"trace.ndjson": shardLines[s], "reserved.ndjson": resFile},
			Workers: 1, HeapGB: 3, Timeout: 25 * time.Minute})
		if err != nil || !r.OK || len(r.Printed) == 0 {
			c.BrokenF("Scopes.tla trace validation failed to run (shard %d): %v %s %s\n%s", s, err, r.Violated, r.Err, r.Tail(25))
			return
		}
		c.AddTLC(r)
		var v c16Verdict
		if err := json.Unmarshal([]byte(r.Printed[len(r.Printed)-1]), &v); err != nil || v.Consumed != len(shardRefs[s]) {
			c.BrokenF("Scopes.tla: trace not fully consumed: %d of %d (%v)", v.Consumed, len(shardRefs[s]), err)
			return
		}
		fmu.Lock()
		events += int64(v.Consumed)
		fmu.Unlock()
		for _, bd := range v.Bad {
			ref := shardRefs[s][bd.L-1]
			cs := ref.cs
			if strings.HasPrefix(bd.Rule, "harness:") {
				c.BrokenF("case %d (%s %s/%s): %s", cs.ID, cs.Base.prog.ID, cs.Base.backend, cs.Base.opt, bd.Rule)
				continue
			}
			rule := strings.SplitN(bd.Rule, ":", 2)[0]
			tok := -1
			if ei := cs.evOf[ref.li]; ei >= 0 {
				tok = cs.Base.unit.TokOf[ei]
			}
			newName, origName, kinds, class := cs.userOf(tok)
			where := ""
			if tok >= 0 {
				where = fmt.Sprintf(" (line %d of the output: %s)", cs.unit.Toks[tok].Line, strings.TrimSpace(c16LineOf(cs.out.Text, cs.unit.Toks[tok].Line)))
			}
			who := "a generated name"
			if newName != "" {
				who = fmt.Sprintf("WGSL %s `%s` (`%s` in the original program)", kinds, newName, origName)
			}
			with, family := cs.generatedPartner(bd.Name)
			if cs.Strategy == "baseline" {
				// the baseline is judged with the reader's own resolution: a disagreement is between Scopes.tla and the reader
				class = "benign"
			}
			if with == "generated" {
				who += fmt.Sprintf("; the spelling is also that of a name the backend generates itself (family `%s`)", family)
			}
			reportW(cs, rule, bd.Name, kinds, class, with, family, fmt.Sprintf("%s/%s %s: Scopes.tla rule `%s` violated by spelling `%s`, emitted for %s%s", cs.Base.backend, cs.Base.opt, cs.Base.prog.ID, bd.Rule, bd.Name, who, where))
		}
	})
	c.Cov["scope_events_validated"] = events
	c.Cov["namer_predictions_confirmed"] = predOK
	c.Cov["namer_predictions_drifted"] = predDrift
	if predDrift*3 > predOK+predDrift {
		c.BrokenF("Namer.tla no longer describes the namers: %d of %d predicted spellings differ from the emitted ones", predDrift, predOK+predDrift)
	}
	c.Traces = len(traced)

	// ---- verdicts ---------------------------------------------------------------------------------------------------
	strat := map[string]int{}
	for _, cs := range traced {
		c.Eval(cs.key(), cs.Strategy != "baseline")
		strat[cs.Strategy]++
	}
	c.Cov["cases_by_strategy"] = strat
	for i, cs := range traced {
		if i%211 == 7 {
			c.Sample(map[string]any{"program": cs.Base.prog.ID, "backend": cs.Base.backend, "opt": cs.Base.opt, "strategy": cs.Strategy, "renaming": cs.Ren, "wgsl": cs.Src})
		}
	}
	sort.SliceStable(finds, func(i, j int) bool { return finds[i].cs.ID < finds[j].cs.ID })
	for _, f := range finds {
		c.Disagree++
		cs := f.cs
		c.Report(f.what, f.desc, map[string]any{"program": cs.Base.prog.ID, "backend": cs.Base.backend, "opt": cs.Base.opt, "entry": cs.Base.entry,
			"strategy": cs.Strategy, "renaming": cs.Ren, "classes": cs.Class, "wgsl": cs.Src, "baseline_wgsl": cs.Base.prog.Src, "emitted": cs.out.Text, "baseline_emitted": cs.Base.out.Text})
	}
	if n := len(cases); n > 0 && c.Skips()*3 > n {
		c.BrokenF("%d of %d cases skipped", c.Skips(), n)
	}
	code := c.Finish()
	for _, e := range []string{"C16_NONAMER", "C16_ONLY", "C16_CASES", "C16_FAM"} {
		if os.Getenv(e) != "" {
			fmt.Printf("BROKEN: development run (%s is set): not a verdict\n", e)
			return 2
		}
	}
	return code
}

type c16Verdict struct {
	Consumed int `json:"consumed"`
	Bad      []struct {
		L    int    `json:"l"`
		C    int    `json:"c"`
		Rule string `json:"rule"`
		Name string `json:"name"`
	} `json:"bad"`
}

const c16ScopesCfg = "SPECIFICATION Spec\nCHECK_DEADLOCK FALSE\nPOSTCONDITION Consumed\n"

func c16LineOf(text string, line int) string {
	ls := strings.Split(text, "\n")
	if line >= 1 && line <= len(ls) {
		return ls[line-1]
	}
	return ""
}

// c16LoadReserved reads the three independent lists.
func c16LoadReserved(c *core.Ctx) map[string]c16x.Reserved {
	out := map[string]c16x.Reserved{}
	for _, l := range c16Backends {
		r, err := c16x.LoadReserved(core.Root, l)
		if err != nil || len(r.Words) < 50 {
			c.BrokenF("reserved-word list of %s: %v (%d words)", l, err, len(r.Words))
			return nil
		}
		out[l] = r
	}
	return out
}

// c16ReservedFile renders the lists as the ndjson file Scopes.tla reads.
func c16ReservedFile(res map[string]c16x.Reserved) []byte {
	var buf bytes.Buffer
	for _, l := range c16Backends {
		r := res[l]
		ci := [][]int{}
		for _, w := range r.CI {
			ci = append(ci, c16x.Codes(w))
		}
		fn := r.FnOnly
		if fn == nil {
			fn = []string{}
		}
		b, _ := json.Marshal(map[string]any{"lang": l, "words": r.Words, "ci": ci, "fn": fn})
		buf.Write(b)
		buf.WriteByte('\n')
	}
	return buf.Bytes()
}
